(* C19c, part 1: the EXPECTED plain diagram of an expression program over variable handles, and its
   semantics.
     expected_l prog ins outs : one node per variable handle having at least one port (a use or a
       definition), one hyperedge per CApply (in program order) from the nodes of its argument
       handles to the nodes of its result handles, interfaces = nodes of ins / outs;
     sem_expected : every strict diagram isomorphic to it evaluates to the value of the expression
       interpreter [den] (the generic form of Run/SpecCheck.denote).
   Nothing here mentions Var / Forget; part 2 (C19cIso.v) shows that forgetting the built term gives
   a diagram isomorphic to expected_l. *)
From OHG Require Import Spec.Plain Spec.GraphSpec Proofs.PrimsThm Proofs.C09Thm Proofs.C10Lemmas
  Proofs.C10Strict Proofs.QuotThm Proofs.C16Lemmas Proofs.C16Thm Proofs.C16Iso Proofs.Assemble
  Proofs.C19Thm Proofs.C19bLemmas.
From Coq Require Import List Arith Lia Bool.
Import ListNotations.

Set Implicit Arguments.
Arguments Nat.sub : simpl never.

(* ====================================================================================== *)
(* 1. ranks: the position of k among the numbers satisfying p                             *)
(* ====================================================================================== *)
Section Rank.
  Variable p : nat -> bool.

  Definition rank (k : nat) : nat := length (filter p (seq 0 k)).
  Definition sieve (n : nat) : list nat := filter p (seq 0 n).

  Lemma rank_S k : rank (S k) = rank k + (if p k then 1 else 0).
  Proof.
    unfold rank. rewrite seq_S, filter_app, app_length. cbn [Nat.add filter].
    destruct (p k); reflexivity.
  Qed.

  Lemma rank_mono k k' : k <= k' -> rank k <= rank k'.
  Proof.
    induction 1 as [|k' _ IH]; [lia|]. rewrite rank_S. lia.
  Qed.

  Lemma rank_strict k k' : p k = true -> k < k' -> rank k < rank k'.
  Proof.
    intros Hp Hlt. assert (H : rank (S k) <= rank k') by (apply rank_mono; lia).
    rewrite rank_S, Hp in H. lia.
  Qed.

  Lemma rank_inj k k' : p k = true -> p k' = true -> rank k = rank k' -> k = k'.
  Proof.
    intros Hk Hk' E. destruct (Nat.lt_trichotomy k k') as [H|[H|H]]; [|exact H|].
    - pose proof (rank_strict Hk H). lia.
    - pose proof (rank_strict Hk' H). lia.
  Qed.

  Lemma sieve_length n : length (sieve n) = rank n.
  Proof. reflexivity. Qed.

  Lemma sieve_split k n : k <= n -> sieve n = sieve k ++ filter p (seq k (n - k)).
  Proof.
    intros H. unfold sieve. replace n with (k + (n - k)) at 1 by lia.
    rewrite seq_app, filter_app. reflexivity.
  Qed.

  Lemma nth_error_sieve_rank k n : p k = true -> k < n -> nth_error (sieve n) (rank k) = Some k.
  Proof.
    intros Hp Hlt. rewrite (@sieve_split k n) by lia.
    rewrite nth_error_app2 by (rewrite sieve_length; lia).
    rewrite sieve_length, Nat.sub_diag.
    destruct (n - k) as [|d] eqn:E; [lia|]. cbn [seq filter]. rewrite Hp. reflexivity.
  Qed.

  Lemma rank_lt k n : p k = true -> k < n -> rank k < length (sieve n).
  Proof.
    intros Hp Hlt. apply nth_error_Some. rewrite (nth_error_sieve_rank Hp Hlt). discriminate.
  Qed.

  Lemma sieve_In k n : In k (sieve n) <-> k < n /\ p k = true.
  Proof.
    unfold sieve. rewrite filter_In, in_seq. split; intros [H1 H2]; split; auto; lia.
  Qed.

  Lemma sieve_nth j n k : nth_error (sieve n) j = Some k -> k < n /\ p k = true /\ rank k = j.
  Proof.
    intros H. pose proof (nth_error_In _ _ H) as Hin. apply sieve_In in Hin.
    destruct Hin as [Hlt Hp]. split; [exact Hlt|]. split; [exact Hp|].
    pose proof (nth_error_sieve_rank Hp Hlt) as H'.
    assert (Hnd : NoDup (sieve n)) by (apply NoDup_filter, seq_NoDup).
    apply (proj1 (NoDup_nth_error (sieve n)) Hnd).
    - apply nth_error_Some. rewrite H'. discriminate.
    - rewrite H, H'. reflexivity.
  Qed.
End Rank.

(* ====================================================================================== *)
(* 2. programs: the operator list, ports                                                  *)
(* ====================================================================================== *)
Definition o_lbl {A} (o : opinfo A) : A := fst o.
Definition o_args {A} (o : opinfo A) : list nat := fst (snd o).
Definition o_res {A} (o : opinfo A) : list nat := snd (snd o).

(* handle k has at least one port *)
Definition ported (roles : list role) (k : nat) : bool := existsb (fun r => fst r =? k) roles.

Lemma ported_iff roles k : ported roles k = true <-> exists b, In (k, b) roles.
Proof.
  unfold ported. rewrite existsb_exists. split.
  - intros ([k' b] & Hin & E). cbn [fst] in E. apply Nat.eqb_eq in E. subst k'. exists b. exact Hin.
  - intros (b & Hin). exists (k, b). split; [exact Hin|]. cbn [fst]. apply Nat.eqb_refl.
Qed.

Lemma ported_in roles k b : In (k, b) roles -> ported roles k = true.
Proof. intros H. apply ported_iff. exists b. exact H. Qed.

Section Prog.
  Variables O A : Type.
  Implicit Types (prog : list (vcmd O A)) (ops : list (opinfo A)).

  (* the results of every operator are a run of fresh handles, its arguments are older handles,
     later operators only create younger handles *)
  Fixpoint ops_sorted (k : nat) ops (nv : nat) : Prop :=
    match ops with
    | [] => k <= nv
    | o :: r => exists k', k <= k' /\ o_res o = seq k' (length (o_res o)) /\
                  Forall (fun a => a < k') (o_args o) /\ ops_sorted (k' + length (o_res o)) r nv
    end.

  Lemma g_ops_sorted prog : forall k, prog_ok k prog -> ops_sorted k (g_ops k prog) (k + nvars prog).
  Proof.
    induction prog as [|c prog IH]; intros k Hok.
    - cbn [g_ops ops_sorted]. unfold nvars. cbn [g_labels length]. lia.
    - destruct c as [l|op args rts]; cbn [g_ops prog_ok] in *.
      + specialize (IH (S k) Hok). unfold nvars in *. cbn [g_labels length].
        replace (k + S (length (g_labels prog))) with (S k + length (g_labels prog)) by lia.
        clear Hok. revert IH. generalize (S k + length (g_labels prog)) as nv.
        destruct (g_ops (S k) prog) as [|o r]; cbn [ops_sorted]; intros nv H.
        * lia.
        * destruct H as (k' & H1 & H2). exists k'. split; [lia|exact H2].
      + destruct Hok as [Hargs Hok]. specialize (IH _ Hok).
        cbn [ops_sorted o_res o_args snd fst]. exists k. rewrite seq_length.
        split; [lia|]. split; [reflexivity|]. split; [exact Hargs|].
        unfold nvars in *. cbn [g_labels]. rewrite app_length.
        replace (k + (length rts + length (g_labels prog))) with (k + length rts + length (g_labels prog)) by lia.
        exact IH.
  Qed.

  Lemma ops_sorted_le k ops nv : ops_sorted k ops nv -> k <= nv.
  Proof.
    revert k. induction ops as [|o r IH]; intros k H; cbn [ops_sorted] in H; [exact H|].
    destruct H as (k' & H1 & _ & _ & H4). apply IH in H4. lia.
  Qed.

  Lemma ops_sorted_in k ops nv o : ops_sorted k ops nv -> In o ops ->
    Forall (fun a => a < nv) (o_args o) /\ (forall r, In r (o_res o) -> k <= r /\ r < nv).
  Proof.
    revert k. induction ops as [|o' r IH]; intros k H Hin; [destruct Hin|].
    cbn [ops_sorted] in H. destruct H as (k' & H1 & H2 & H3 & H4).
    pose proof (@ops_sorted_le _ _ _ H4) as Hle.
    destruct Hin as [->|Hin].
    - split.
      + revert H3. apply Forall_impl. intros a Ha. lia.
      + intros x Hx. rewrite H2 in Hx. apply in_seq in Hx. lia.
    - destruct (IH _ H4 Hin) as [Ha Hr]. split; [exact Ha|].
      intros x Hx. apply Hr in Hx. lia.
  Qed.

  Lemma ops_sorted_nodup k ops nv : ops_sorted k ops nv -> NoDup (concat (map o_res ops)).
  Proof.
    revert k. induction ops as [|o r IH]; intros k H; cbn [map concat]; [constructor|].
    cbn [ops_sorted] in H. destruct H as (k' & H1 & H2 & H3 & H4).
    apply NoDup_app_iff. split; [rewrite H2; apply seq_NoDup|]. split; [eapply IH; exact H4|].
    intros x Hx Hx'. rewrite H2 in Hx. apply in_seq in Hx.
    apply in_concat in Hx'. destruct Hx' as (l & Hl & Hxl). apply in_map_iff in Hl.
    destruct Hl as (o' & <- & Ho'). destruct (@ops_sorted_in _ _ _ _ H4 Ho') as [_ Hr].
    apply Hr in Hxl. lia.
  Qed.

  (* a result of operator x used as an argument of operator y: x comes first *)
  Lemma ops_sorted_dep k ops nv x y ox oy r : ops_sorted k ops nv ->
    nth_error ops x = Some ox -> nth_error ops y = Some oy ->
    In r (o_res ox) -> In r (o_args oy) -> x < y.
  Proof.
    revert k x y. induction ops as [|o rest IH]; intros k x y H Hx Hy Hr Ha; [destruct x; discriminate|].
    cbn [ops_sorted] in H. destruct H as (k' & H1 & H2 & H3 & H4).
    destruct x as [|x], y as [|y]; cbn [nth_error] in Hx, Hy.
    - inversion Hx; inversion Hy; subst. rewrite H2 in Hr. apply in_seq in Hr.
      rewrite Forall_forall in H3. apply H3 in Ha. lia.
    - lia.
    - inversion Hy; subst oy. rewrite Forall_forall in H3. apply H3 in Ha.
      destruct (@ops_sorted_in _ _ _ _ H4 (nth_error_In _ _ Hx)) as [_ Hr']. apply Hr' in Hr. lia.
    - pose proof (IH _ x y H4 Hx Hy Hr Ha). lia.
  Qed.

  (* every argument / result handle of an operator has a port *)
  Lemma g_ops_roles prog : forall k o, In o (g_ops k prog) ->
    (forall a, In a (o_args o) -> In (a, false) (g_roles k prog)) /\
    (forall r, In r (o_res o) -> In (r, true) (g_roles k prog)).
  Proof.
    induction prog as [|c prog IH]; intros k o Hin; [destruct Hin|].
    destruct c as [l|op args rts]; cbn [g_ops g_roles] in *.
    - apply IH. exact Hin.
    - destruct Hin as [<-|Hin].
      + cbn [o_args o_res fst snd]. split.
        * intros a Ha. apply in_or_app. left. apply in_map_iff. exists a. auto.
        * intros r Hr. apply in_or_app. right. apply in_or_app. left. apply in_map_iff. exists r. auto.
      + destruct (IH _ _ Hin) as [H1 H2]. split.
        * intros a Ha. apply in_or_app. right. apply in_or_app. right. auto.
        * intros r Hr. apply in_or_app. right. apply in_or_app. right. auto.
  Qed.

  Lemma g_ops_res_ge prog : forall k o r, In o (g_ops k prog) -> In r (o_res o) -> k <= r.
  Proof.
    induction prog as [|c prog IH]; intros k o r Hin Hr; [destruct Hin|].
    destruct c as [l|op args rts]; cbn [g_ops] in *.
    - pose proof (IH _ _ _ Hin Hr). lia.
    - destruct Hin as [<-|Hin].
      + cbn [o_res snd] in Hr. apply in_seq in Hr. lia.
      + pose proof (IH _ _ _ Hin Hr). lia.
  Qed.

  (* h is a result handle of some operator *)
  Definition is_res ops (h : nat) : bool := existsb (fun o => existsb (Nat.eqb h) (o_res o)) ops.

  Lemma is_res_iff ops h : is_res ops h = true <-> exists o, In o ops /\ In h (o_res o).
  Proof.
    unfold is_res. rewrite existsb_exists. split; intros (o & Ho & H); exists o; (split; [exact Ho|]).
    - apply existsb_exists in H. destruct H as (x & Hx & E). apply Nat.eqb_eq in E. subst x. exact Hx.
    - apply existsb_exists. exists h. split; [exact H|apply Nat.eqb_refl].
  Qed.

  Lemma is_res_false ops h : is_res ops h = false <-> forall o, In o ops -> ~ In h (o_res o).
  Proof.
    split.
    - intros E o Ho Hh. assert (is_res ops h = true) by (apply is_res_iff; eauto). congruence.
    - intros H. destruct (is_res ops h) eqn:E; [|reflexivity]. apply is_res_iff in E.
      destruct E as (o & Ho & Hh). exfalso. eapply H; eauto.
  Qed.
End Prog.

(* ====================================================================================== *)
(* 3. the expression interpreter (generic form of Run/SpecCheck.denote)                   *)
(* ====================================================================================== *)
Lemma map_nth_seq_mid {X} (a b c : list X) d :
  map (fun i => nth i (a ++ b ++ c) d) (seq (length a) (length b)) = b.
Proof.
  revert a. induction b as [|x b IH]; intros a; [reflexivity|].
  cbn [length seq map]. f_equal.
  - rewrite app_nth2 by lia. rewrite Nat.sub_diag. reflexivity.
  - replace (a ++ (x :: b) ++ c) with ((a ++ [x]) ++ b ++ c) by (rewrite <- app_assoc; reflexivity).
    replace (S (length a)) with (length (a ++ [x])) by (rewrite app_length; cbn [length]; lia).
    apply IH.
Qed.

Lemma index_of_nth ins : NoDup ins -> forall i, i < length ins -> index_of (nth i ins 0) ins = Some i.
Proof.
  induction 1 as [|x l Hx Hnd IH]; intros i Hi; cbn [length] in Hi; [lia|].
  destruct i as [|i]; cbn [nth index_of].
  - rewrite Nat.eqb_refl. reflexivity.
  - destruct (nth i l 0 =? x) eqn:E.
    + apply Nat.eqb_eq in E. exfalso. apply Hx. rewrite <- E. apply nth_In. lia.
    + rewrite IH by lia. reflexivity.
Qed.

Lemma index_of_none h ins : ~ In h ins -> index_of h ins = None.
Proof.
  induction ins as [|x l IH]; intros H; [reflexivity|]. cbn [index_of].
  destruct (h =? x) eqn:E.
  - apply Nat.eqb_eq in E. exfalso. apply H. left. auto.
  - rewrite IH; [reflexivity|]. intros Hin. apply H. right. exact Hin.
Qed.

Lemma nth_map_false {X} (l : list X) i : nth i (map (fun _ => false) l) false = false.
Proof. revert i. induction l as [|x l IH]; intros [|i]; cbn [map nth]; auto. Qed.

Section Den.
  Variables O A T : Type.
  Variable default : T.
  Variable interp : A -> list T -> list T.

  Fixpoint den_prog (prog : list (vcmd O A)) (ins : list nat) (inp : list T)
                    (env : list T) (fresh : list bool) : option (list T * list bool) :=
    match prog with
    | [] => Some (env, fresh)
    | CNew _ _ :: rest =>
        let h := length env in
        let v := match index_of h ins with Some k => nth k inp default | None => default end in
        den_prog rest ins inp (env ++ [v]) (fresh ++ [true])
    | CApply op args rts :: rest =>
        if forallb (fun a => Nat.ltb a (length env)) args then
          let outs := interp op (map (fun a => nth a env default) args) in
          if Nat.eqb (length outs) (length rts)
          then den_prog rest ins inp (env ++ outs) (fresh ++ map (fun _ => false) rts)
          else None
        else None
    end.

  Definition den (prog : list (vcmd O A)) (ins outs : list nat) (inp : list T) : option (list T) :=
    match den_prog prog ins inp [] [] with
    | Some (env, fresh) =>
        if Nat.eqb (length (nodup Nat.eq_dec ins)) (length ins) &&
           forallb (fun h => nth h fresh false) ins &&
           forallb (fun h => Nat.ltb h (length env)) outs &&
           Nat.eqb (length inp) (length ins)
        then Some (map (fun h => nth h env default) outs) else None
    | None => None
    end.

  Notation rd env := (fun h => nth h env default).

  Lemma den_prog_prefix prog ins inp : forall e f env fresh,
    den_prog prog ins inp e f = Some (env, fresh) -> exists rf, fresh = f ++ rf.
  Proof.
    induction prog as [|c p IHp]; intros e f env fresh Hrun.
    - cbn [den_prog] in Hrun. inversion Hrun. exists []. rewrite app_nil_r. reflexivity.
    - destruct c as [l'|op' args' rts']; cbn [den_prog] in Hrun.
      + apply IHp in Hrun. destruct Hrun as (rf & ->). eexists. rewrite <- app_assoc. reflexivity.
      + destruct (forallb _ args'); [|discriminate]. destruct (_ =? _); [|discriminate].
        apply IHp in Hrun. destruct Hrun as (rf & ->). eexists. rewrite <- app_assoc. reflexivity.
  Qed.

  (* what a successful run of the interpreter says about the final environment *)
  Lemma den_prog_spec prog ins inp : forall env0 fresh0 env fresh,
    den_prog prog ins inp env0 fresh0 = Some (env, fresh) -> length fresh0 = length env0 ->
    length env = length env0 + nvars prog /\ length fresh = length env /\
    prog_ok (length env0) prog /\
    (exists rest, env = env0 ++ rest) /\
    (forall o, In o (g_ops (length env0) prog) ->
       map (rd env) (o_res o) = interp (o_lbl o) (map (rd env) (o_args o))) /\
    (forall h, length env0 <= h -> h < length env ->
       nth h fresh false = negb (is_res (g_ops (length env0) prog) h)) /\
    (forall h, length env0 <= h -> h < length env -> is_res (g_ops (length env0) prog) h = false ->
       nth h env default = match index_of h ins with Some j => nth j inp default | None => default end).
  Proof.
    induction prog as [|c prog IH]; intros env0 fresh0 env fresh Hrun Hlen.
    - cbn [den_prog] in Hrun. inversion Hrun; subst env fresh. unfold nvars. cbn [g_labels length g_ops prog_ok].
      split; [lia|]. split; [exact Hlen|]. split; [exact I|]. split; [exists []; rewrite app_nil_r; reflexivity|].
      split; [intros o []|]. split; intros h H1 H2; lia.
    - destruct c as [l|op args rts].
      + cbn [den_prog] in Hrun.
        set (v := match index_of (length env0) ins with Some k => nth k inp default | None => default end) in Hrun.
        assert (Hlen' : length (fresh0 ++ [true]) = length (env0 ++ [v]))
          by (rewrite !app_length; cbn [length]; lia).
        destruct (den_prog_prefix _ _ _ _ _ Hrun) as (rf & Hf).
        destruct (IH _ _ _ _ Hrun Hlen') as (H1 & H2 & H3 & (rest & H4) & H5 & H6 & H7).
        assert (E1 : length (env0 ++ [v]) = S (length env0)) by (rewrite app_length; cbn [length]; lia).
        rewrite E1 in *. unfold nvars in *. cbn [g_labels length g_ops prog_ok].
        split; [lia|]. split; [exact H2|]. split; [exact H3|].
        split; [exists (v :: rest); rewrite H4, <- app_assoc; reflexivity|].
        split; [exact H5|]. split.
        * intros h Hh1 Hh2. destruct (Nat.eq_dec h (length env0)) as [->|Hne].
          -- rewrite Hf, <- app_assoc. rewrite app_nth2 by lia.
             rewrite Hlen, Nat.sub_diag. cbn [List.app nth]. symmetry. apply negb_true_iff.
             apply is_res_false. intros o Ho Hr. pose proof (g_ops_res_ge _ _ _ _ Ho Hr). lia.
          -- apply H6; lia.
        * intros h Hh1 Hh2 Hres. destruct (Nat.eq_dec h (length env0)) as [->|Hne].
          -- rewrite H4, <- app_assoc, app_nth2 by lia. rewrite Nat.sub_diag. reflexivity.
          -- apply H7; [lia|lia|exact Hres].
      + cbn [den_prog] in Hrun.
        destruct (forallb (fun a => a <? length env0) args) eqn:Eargs; [|discriminate].
        set (outs := interp op (map (fun a => nth a env0 default) args)) in *.
        destruct (length outs =? length rts) eqn:Eouts; [|discriminate]. apply Nat.eqb_eq in Eouts.
        assert (Hlen' : length (fresh0 ++ map (fun _ => false) rts) = length (env0 ++ outs))
          by (rewrite !app_length, map_length; lia).
        destruct (den_prog_prefix _ _ _ _ _ Hrun) as (rf & Hf).
        destruct (IH _ _ _ _ Hrun Hlen') as (H1 & H2 & H3 & (rest & H4) & H5 & H6 & H7).
        assert (E1 : length (env0 ++ outs) = length env0 + length rts) by (rewrite app_length; lia).
        rewrite E1 in *. unfold nvars in *. cbn [g_labels g_ops prog_ok]. rewrite app_length.
        assert (Hargs : Forall (fun h => h < length env0) args).
        { apply Forall_forall. intros a Ha. rewrite forallb_forall in Eargs. apply Nat.ltb_lt. auto. }
        set (o0 := (op, (args, seq (length env0) (length rts)))).
        assert (Hhead : forall h, length env0 <= h -> h < length env0 + length rts ->
                  is_res (o0 :: g_ops (length env0 + length rts) prog) h = true).
        { intros h Hh1 Hh2. apply is_res_iff. exists o0. split; [left; reflexivity|].
          unfold o0. cbn [o_res snd]. apply in_seq. lia. }
        assert (Htail : forall h, length env0 + length rts <= h ->
                  is_res (o0 :: g_ops (length env0 + length rts) prog) h =
                  is_res (g_ops (length env0 + length rts) prog) h).
        { intros h Hh. unfold is_res at 1. cbn [existsb]. fold (is_res (g_ops (length env0 + length rts) prog) h).
          replace (existsb (Nat.eqb h) (o_res o0)) with false; [reflexivity|]. symmetry.
          apply not_true_is_false. intros E. apply existsb_exists in E. destruct E as (x & Hx & E).
          apply Nat.eqb_eq in E. subst x. unfold o0 in Hx. cbn [o_res snd] in Hx. apply in_seq in Hx. lia. }
        split; [lia|]. split; [exact H2|]. split; [split; [exact Hargs|exact H3]|].
        split; [exists (outs ++ rest); rewrite H4, <- app_assoc; reflexivity|].
        split; [|split].
        * intros o [<-|Ho]; [|apply H5; exact Ho]. unfold o0. cbn [o_res o_args o_lbl fst snd].
          rewrite H4, <- app_assoc. rewrite <- Eouts. rewrite map_nth_seq_mid. unfold outs. f_equal.
          apply map_ext_in. intros a Ha. rewrite Forall_forall in Hargs. apply Hargs in Ha.
          rewrite app_nth1 by lia. reflexivity.
        * intros h Hh1 Hh2. destruct (Nat.lt_ge_cases h (length env0 + length rts)) as [Hlt|Hge].
          -- rewrite (Hhead h Hh1 Hlt). cbn [negb].
             rewrite Hf, <- app_assoc. rewrite app_nth2 by lia.
             rewrite app_nth1 by (rewrite map_length; lia). apply nth_map_false.
          -- rewrite (Htail h Hge). apply H6; lia.
        * intros h Hh1 Hh2 Hres. destruct (Nat.lt_ge_cases h (length env0 + length rts)) as [Hlt|Hge].
          -- rewrite (Hhead h Hh1 Hlt) in Hres. discriminate.
          -- rewrite (Htail h Hge) in Hres. apply H7; [lia|lia|exact Hres].
  Qed.
End Den.

(* ====================================================================================== *)
(* 4. the expected diagram                                                                *)
(* ====================================================================================== *)
Lemma sel_length {X} (w : list X) l : all_lt (length w) l -> length (sel w l) = length l.
Proof.
  intros H. rewrite <- (map_length Some), (sel_some _ H), map_length. reflexivity.
Qed.

Lemma sel_nth_error {X} (w : list X) l i j : all_lt (length w) l -> nth_error l i = Some j ->
  nth_error (sel w l) i = nth_error w j.
Proof.
  intros H Hi. pose proof (sel_some _ H) as E.
  assert (E' : nth_error (map Some (sel w l)) i = nth_error (map (nth_error w) l) i) by (rewrite E; reflexivity).
  rewrite (map_nth_error (nth_error w) i l Hi) in E'. rewrite nth_error_map in E'.
  destruct (nth_error (sel w l) i) as [x|]; cbn [option_map] in E'; [inversion E'; reflexivity|discriminate].
Qed.

Lemma nodup_length_le {X} (dec : forall x y : X, {x = y} + {x <> y}) l : length (nodup dec l) <= length l.
Proof.
  induction l as [|x l IH]; [reflexivity|]. cbn [nodup length]. destruct (in_dec dec x l); cbn [length]; lia.
Qed.

Lemma nodup_length_NoDup {X} (dec : forall x y : X, {x = y} + {x <> y}) l :
  length (nodup dec l) = length l -> NoDup l.
Proof.
  induction l as [|x l IH]; intros H; [constructor|]. cbn [nodup length] in H.
  destruct (in_dec dec x l) as [Hin|Hnin].
  - pose proof (nodup_length_le dec l). lia.
  - cbn [length] in H. constructor; [exact Hnin|]. apply IH. lia.
Qed.

Section ExpectedDef.
  Variables O A : Type.
  Variables (prog : list (vcmd O A)) (ins outs : list nat).

  (* the node of handle k: its rank among the handles that have a port *)
  Definition vix (k : nat) : nat := rank (ported (build_roles prog ins outs)) k.
  (* the handles that have a port, in increasing order: node j is handle (nth j live) *)
  Definition live : list nat := sieve (ported (build_roles prog ins outs)) (nvars prog).
  Definition exp_adj (o : opinfo A) : hyperedge := (map vix (o_args o), map vix (o_res o)).

  Definition expected_l : lohg O A :=
    mkLOHG (map vix ins) (map vix outs)
           (mkLHG (sel (g_labels prog) live) (map (@o_lbl A) (g_ops 0 prog)) (map exp_adj (g_ops 0 prog))
                  ([], [])).

  (* the same as a plain diagram *)
  Definition expected : pohg O A :=
    mkP (sel (g_labels prog) live)
        (map (fun o => mkPE (o_lbl o) (map vix (o_args o)) (map vix (o_res o))) (g_ops 0 prog))
        (map vix ins) (map vix outs).

  Lemma labs_expected : labs expected_l = expected.
  Proof.
    unfold labs, expected, expected_l. cbn [lo_h l_nodes l_edges l_adj lo_sources lo_targets]. f_equal.
    induction (g_ops 0 prog) as [|o l IH]; [reflexivity|]. cbn [map combine fst snd]. rewrite IH. reflexivity.
  Qed.

  Lemma live_lt : all_lt (length (g_labels prog)) live.
  Proof. unfold all_lt. apply Forall_forall. intros k Hk. apply sieve_In in Hk. exact (proj1 Hk). Qed.

  Lemma expected_nodes_length : length (sel (g_labels prog) live) = length live.
  Proof. apply sel_length. exact live_lt. Qed.

  Lemma ported_ins k : In k ins -> ported (build_roles prog ins outs) k = true.
  Proof.
    intros H. apply (@ported_in _ k true). unfold build_roles. apply in_or_app. right. apply in_or_app. left.
    apply in_map_iff. exists k. auto.
  Qed.

  Lemma ported_outs k : In k outs -> ported (build_roles prog ins outs) k = true.
  Proof.
    intros H. apply (@ported_in _ k false). unfold build_roles. apply in_or_app. right. apply in_or_app. right.
    apply in_map_iff. exists k. auto.
  Qed.

  Lemma ported_args o k : In o (g_ops 0 prog) -> In k (o_args o) -> ported (build_roles prog ins outs) k = true.
  Proof.
    intros Ho H. apply (@ported_in _ k false). unfold build_roles. apply in_or_app. left.
    exact (proj1 (g_ops_roles _ _ _ Ho) k H).
  Qed.

  Lemma ported_res o k : In o (g_ops 0 prog) -> In k (o_res o) -> ported (build_roles prog ins outs) k = true.
  Proof.
    intros Ho H. apply (@ported_in _ k true). unfold build_roles. apply in_or_app. left.
    exact (proj2 (g_ops_roles _ _ _ Ho) k H).
  Qed.

  Lemma vix_lt k : ported (build_roles prog ins outs) k = true -> k < nvars prog -> vix k < length live.
  Proof. apply rank_lt. Qed.

  Lemma live_vix k : ported (build_roles prog ins outs) k = true -> k < nvars prog ->
    nth_error live (vix k) = Some k.
  Proof. apply nth_error_sieve_rank. Qed.

  Lemma vix_inj k k' : ported (build_roles prog ins outs) k = true ->
    ported (build_roles prog ins outs) k' = true -> vix k = vix k' -> k = k'.
  Proof. apply rank_inj. Qed.

  Lemma live_nth j k : nth_error live j = Some k ->
    k < nvars prog /\ ported (build_roles prog ins outs) k = true /\ vix k = j.
  Proof. apply sieve_nth. Qed.

  (* the label of node (vix k) is the label of handle k *)
  Lemma expected_node_label k : ported (build_roles prog ins outs) k = true -> k < nvars prog ->
    nth_error (sel (g_labels prog) live) (vix k) = nth_error (g_labels prog) k.
  Proof. intros Hp Hk. apply (@sel_nth_error _ _ _ _ _ live_lt). apply live_vix; assumption. Qed.
End ExpectedDef.

(* ====================================================================================== *)
(* 5. semantics of the expected diagram                                                   *)
(* ====================================================================================== *)
Lemma op_src_strict_of {O A} (f : lohg O A) e :
  op_src (o_h (strict_of f)) e = nth e (map fst (l_adj (lo_h f))) [].
Proof. unfold op_src, strict_of, hstrict_of. cbn [o_h h_s]. rewrite enc_decode. reflexivity. Qed.

Lemma op_tgt_strict_of {O A} (f : lohg O A) e :
  op_tgt (o_h (strict_of f)) e = nth e (map snd (l_adj (lo_h f))) [].
Proof. unfold op_tgt, strict_of, hstrict_of. cbn [o_h h_t]. rewrite enc_decode. reflexivity. Qed.

Lemma nth_map_error {X Y} (g : X -> Y) l e x d : nth_error l e = Some x -> nth e (map g l) d = g x.
Proof. intros H. apply nth_error_nth. apply map_nth_error. exact H. Qed.

Section Semantics.
  Variables O A T : Type.
  Variable default : T.
  Variable interp : A -> list T -> list T.
  (* the number of results of an operator depends on its label only *)
  Hypothesis interp_arity : forall a v v', length (interp a v) = length (interp a v').
  Variables (prog : list (vcmd O A)) (ins outs : list nat) (inp r : list T).
  Hypothesis Hden : den default interp prog ins outs inp = Some r.

  Notation roles := (build_roles prog ins outs).
  Notation ops := (g_ops 0 prog).
  Notation nv := (nvars prog).
  Notation EL := (expected_l prog ins outs).
  Notation E := (strict_of (expected_l prog ins outs)).
  Notation vx := (vix prog ins outs).
  Notation lv := (live prog ins outs).
  Notation rdv env := (fun h => nth h env default).

  Lemma den_facts : exists env,
    length env = nv /\ prog_ok 0 prog /\ NoDup ins /\
    (forall h, In h ins -> h < nv /\ is_res ops h = false) /\
    (forall h, In h outs -> h < nv) /\ length inp = length ins /\
    r = map (rdv env) outs /\
    (forall o, In o ops -> map (rdv env) (o_res o) = interp (o_lbl o) (map (rdv env) (o_args o))) /\
    (forall h, h < nv -> is_res ops h = false ->
       nth h env default = match index_of h ins with Some j => nth j inp default | None => default end).
  Proof.
    unfold den in Hden. destruct (den_prog default interp prog ins inp [] []) as [[env fresh]|] eqn:Erun; [|discriminate].
    destruct (_ && _) eqn:Ec in Hden; [|discriminate]. inversion Hden as [Hr]. clear Hden.
    apply andb_true_iff in Ec. destruct Ec as [Ec C4]. apply andb_true_iff in Ec. destruct Ec as [Ec C3].
    apply andb_true_iff in Ec. destruct Ec as [C1 C2].
    apply Nat.eqb_eq in C1, C4. rewrite forallb_forall in C2, C3.
    destruct (@den_prog_spec O A T default interp prog ins inp [] [] env fresh Erun eq_refl) as (H1 & H2 & H3 & _ & H5 & H6 & H7).
    cbn [length Nat.add] in *.
    exists env. split; [exact H1|]. split; [exact H3|]. split; [exact (nodup_length_NoDup _ _ C1)|].
    split.
    { intros h Hh. specialize (C2 h Hh).
      assert (Hlt : h < length fresh).
      { destruct (Nat.lt_ge_cases h (length fresh)) as [Hlt|Hge]; [exact Hlt|].
        rewrite nth_overflow in C2 by exact Hge. discriminate. }
      split; [lia|]. rewrite H6 in C2 by lia. apply negb_true_iff in C2. exact C2. }
    split; [intros h Hh; specialize (C3 h Hh); apply Nat.ltb_lt in C3; lia|].
    split; [exact C4|]. split; [reflexivity|]. split; [exact H5|].
    intros h Hh Hres. apply H7; [lia|lia|exact Hres].
  Qed.

  Lemma ops_range o : prog_ok 0 prog -> In o ops ->
    (forall a, In a (o_args o) -> a < nv) /\ (forall x, In x (o_res o) -> x < nv).
  Proof.
    intros Hok Ho. pose proof (g_ops_sorted _ _ Hok) as Hs. cbn [Nat.add] in Hs.
    destruct (@ops_sorted_in _ _ _ _ _ Hs Ho) as [Ha Hr]. split.
    - rewrite Forall_forall in Ha. exact Ha.
    - intros x Hx. apply Hr in Hx. lia.
  Qed.

  Lemma lwf_expected : prog_ok 0 prog -> (forall h, In h ins -> h < nv) -> (forall h, In h outs -> h < nv) ->
    lwf EL /\ ladj_ok EL.
  Proof.
    intros Hok Hins Houts. split; [|unfold ladj_ok; cbn [expected_l lo_h l_edges l_adj]; rewrite !map_length; reflexivity].
    unfold lwf, hwf, nn, hn, all_lt. cbn [expected_l lo_h l_nodes l_adj l_q lo_sources lo_targets fst snd].
    rewrite expected_nodes_length. split; [split; [|repeat split; constructor]|split].
    - intros e He. apply in_map_iff in He. destruct He as (o & <- & Ho). destruct (ops_range _ Hok Ho) as [Ha Hr].
      unfold exp_adj. cbn [fst snd]. split; apply Forall_forall; intros x Hx; apply in_map_iff in Hx;
        destruct Hx as (k & <- & Hk); apply vix_lt; eauto using ported_args, ported_res.
    - apply Forall_forall. intros x Hx. apply in_map_iff in Hx. destruct Hx as (k & <- & Hk).
      apply vix_lt; [apply ported_ins; exact Hk|auto].
    - apply Forall_forall. intros x Hx. apply in_map_iff in Hx. destruct Hx as (k & <- & Hk).
      apply vix_lt; [apply ported_outs; exact Hk|auto].
  Qed.

  Lemma E_labels : h_x (o_h E) = map (@o_lbl A) ops.
  Proof. reflexivity. Qed.

  Lemma E_edge e a : nth_error (h_x (o_h E)) e = Some a ->
    exists o, nth_error ops e = Some o /\ o_lbl o = a /\
              op_src (o_h E) e = map vx (o_args o) /\ op_tgt (o_h E) e = map vx (o_res o).
  Proof.
    rewrite E_labels, nth_error_map. destruct (nth_error ops e) as [o|] eqn:Eo; [|discriminate].
    cbn [option_map]. intros H. inversion H. exists o. split; [reflexivity|]. split; [reflexivity|].
    rewrite op_src_strict_of, op_tgt_strict_of. cbn [expected_l lo_h l_adj]. rewrite !map_map.
    rewrite !(@nth_map_error _ _ _ _ _ _ _ Eo). split; reflexivity.
  Qed.

  Lemma E_tgt_decode : decode_f (h_t (o_h E)) = map (fun o => map vx (o_res o)) ops.
  Proof.
    unfold strict_of, hstrict_of. cbn [o_h h_t]. rewrite enc_decode. cbn [expected_l lo_h l_adj].
    rewrite map_map. reflexivity.
  Qed.

  Theorem sem_expected_strict (B : Backend) (OK : BackendOK B)
      (apply : list A -> ic (list T) -> res (ic (list T))) (AP : apply_spec interp apply) :
    wf_ohg E /\ acyclic_ops E /\ single_writer E /\ arity_ok interp E /\
    length inp = length (table (o_s E)) /\
    eval B default apply E inp = Ok (Some r).
  Proof.
    destruct den_facts as (env & Hlen & Hok & Hnd & Hins & Houts & Hinp & Hr & Hops & Hfresh).
    destruct (lwf_expected Hok (fun h Hh => proj1 (Hins h Hh)) Houts) as [Hlwf Hladj].
    pose proof (wf_strict_of Hlwf Hladj) as WfE.
    pose proof (g_ops_sorted _ _ Hok) as Hsorted. cbn [Nat.add] in Hsorted.
    (* reading the memory at the node of a handle *)
    set (mem := map (rdv env) lv).
    assert (Hmem : forall k, ported roles k = true -> k < nv -> nth (vx k) mem default = nth k env default).
    { intros k Hp Hk. apply nth_error_nth. unfold mem.
      pose proof (@live_vix _ _ prog ins outs k Hp Hk) as Hl.
      exact (map_nth_error (fun h => nth h env default) _ _ Hl). }
    assert (Hmem_args : forall o, In o ops -> map (rd default mem) (map vx (o_args o)) = map (rdv env) (o_args o)).
    { intros o Ho. rewrite map_map. apply map_ext_in. intros a Ha. unfold rd. apply Hmem.
      - eapply ported_args; eauto.
      - exact (proj1 (ops_range _ Hok Ho) a Ha). }
    assert (Hmem_res : forall o, In o ops -> map (rd default mem) (map vx (o_res o)) = map (rdv env) (o_res o)).
    { intros o Ho. rewrite map_map. apply map_ext_in. intros a Ha. unfold rd. apply Hmem.
      - eapply ported_res; eauto.
      - exact (proj2 (ops_range _ Hok Ho) a Ha). }
    (* acyclic: the position in the program is a rank *)
    assert (Hac : acyclic_ops E).
    { apply (@rank_acyclic _ _ E (fun x => x)). intros x y (Hx & Hy & v & Hvx & Hvy).
      destruct (nth_error (h_x (o_h E)) x) as [ax|] eqn:Ex; [|apply nth_error_None in Ex; lia].
      destruct (nth_error (h_x (o_h E)) y) as [ay|] eqn:Ey; [|apply nth_error_None in Ey; lia].
      destruct (E_edge _ Ex) as (ox & Hox & _ & _ & Etx). destruct (E_edge _ Ey) as (oy & Hoy & _ & Esy & _).
      rewrite Etx in Hvx. rewrite Esy in Hvy. apply in_map_iff in Hvx, Hvy.
      destruct Hvx as (rr & Hrv & Hrr). destruct Hvy as (aa & Hav & Haa).
      assert (rr = aa).
      { apply (@vix_inj _ _ prog ins outs).
        - eapply ported_res; [exact (nth_error_In _ _ Hox)|exact Hrr].
        - eapply ported_args; [exact (nth_error_In _ _ Hoy)|exact Haa].
        - congruence. }
      subst aa. eapply ops_sorted_dep; [exact Hsorted|exact Hox|exact Hoy|exact Hrr|exact Haa]. }
    (* single writer *)
    assert (Hsw : single_writer E).
    { unfold single_writer. rewrite E_tgt_decode. cbn [strict_of o_s table expected_l lo_sources].
      rewrite <- (map_map (@o_res A) (map vx)), <- concat_map, <- map_app.
      apply NoDup_map_inj_on.
      - apply NoDup_app_iff. split; [exact Hnd|]. split; [eapply ops_sorted_nodup; exact Hsorted|].
        intros h Hh Hh'. apply in_concat in Hh'. destruct Hh' as (l & Hl & Hhl).
        apply in_map_iff in Hl. destruct Hl as (o & <- & Ho).
        destruct (Hins h Hh) as [_ Hres]. rewrite is_res_false in Hres. exact (Hres o Ho Hhl).
      - intros x y Hx Hy Exy. apply (@vix_inj _ _ prog ins outs); [| |exact Exy].
        + apply in_app_or in Hx. destruct Hx as [Hx|Hx]; [apply ported_ins; exact Hx|].
          apply in_concat in Hx. destruct Hx as (l & Hl & Hxl). apply in_map_iff in Hl.
          destruct Hl as (o & <- & Ho). eapply ported_res; eauto.
        + apply in_app_or in Hy. destruct Hy as [Hy|Hy]; [apply ported_ins; exact Hy|].
          apply in_concat in Hy. destruct Hy as (l & Hl & Hyl). apply in_map_iff in Hl.
          destruct Hl as (o & <- & Ho). eapply ported_res; eauto. }
    (* arity *)
    assert (Har : arity_ok interp E).
    { intros e a vals Ea _. destruct (E_edge _ Ea) as (o & Ho & Hl & _ & Et).
      rewrite Et, map_length. pose proof (Hops o (nth_error_In _ _ Ho)) as Eo.
      apply (f_equal (@length T)) in Eo. rewrite map_length in Eo. rewrite Eo, Hl. apply interp_arity. }
    assert (Hlen_inp : length inp = length (table (o_s E))).
    { cbn [strict_of o_s table expected_l lo_sources]. rewrite map_length. exact Hinp. }
    (* the valuation *)
    assert (Hval : Valuation default interp E inp mem).
    { split; [|split].
      - intros i Hi. cbn [strict_of o_s table expected_l lo_sources] in *. rewrite map_length in Hi.
        change 0 with (vx 0) at 1. rewrite map_nth. unfold rd.
        assert (Hin : In (nth i ins 0) ins) by (apply nth_In; exact Hi).
        destruct (Hins _ Hin) as [Hlt Hres].
        rewrite Hmem by (try apply ported_ins; assumption).
        rewrite (Hfresh _ Hlt Hres), (index_of_nth Hnd Hi). reflexivity.
      - intros e a Ea. destruct (E_edge _ Ea) as (o & Ho & Hl & Es & Et). apply nth_error_In in Ho.
        rewrite Es, Et, (Hmem_args o Ho), (Hmem_res o Ho), <- Hl. apply Hops. exact Ho.
      - intros v Hv Hnin Hnt. cbn [strict_of o_h hstrict_of h_w expected_l lo_h l_nodes] in Hv.
        rewrite expected_nodes_length in Hv.
        destruct (nth_error lv v) as [k|] eqn:Ek; [|apply nth_error_None in Ek; lia].
        destruct (live_nth _ _ _ _ Ek) as (Hk & Hp & Hvk).
        unfold rd. rewrite <- Hvk, Hmem by assumption.
        assert (Hk_ins : ~ In k ins).
        { intros Hin. apply Hnin. cbn [strict_of o_s table expected_l lo_sources]. rewrite <- Hvk.
          apply in_map. exact Hin. }
        assert (Hk_res : is_res ops k = false).
        { apply is_res_false. intros o Ho Hko. apply In_nth_error in Ho. destruct Ho as (e & He).
          assert (Hlt : e < length (h_x (o_h E))).
          { rewrite E_labels, map_length. apply nth_error_Some. congruence. }
          assert (Ea : nth_error (h_x (o_h E)) e = Some (o_lbl o)).
          { rewrite E_labels. apply map_nth_error. exact He. }
          destruct (E_edge _ Ea) as (o' & Ho' & _ & _ & Et). rewrite He in Ho'. inversion Ho'; subst o'.
          apply (Hnt e Hlt). rewrite Et, <- Hvk. apply in_map. exact Hko. }
        rewrite (Hfresh _ Hk Hk_res), (index_of_none _ _ Hk_ins). reflexivity. }
    split; [exact WfE|]. split; [exact Hac|]. split; [exact Hsw|]. split; [exact Har|]. split; [exact Hlen_inp|].
    assert (Hlm : length mem = length (h_w (o_h E))).
    { unfold mem. rewrite map_length. cbn [strict_of o_h hstrict_of h_w expected_l lo_h l_nodes].
      rewrite expected_nodes_length. reflexivity. }
    rewrite (C16_outputs_of_any_valuation OK (AdjThm.adj_ops_ok OK) (conv_layers_ok OK) AP WfE Hac Hsw Har Hlen_inp Hval Hlm).
    f_equal. f_equal. rewrite Hr. cbn [strict_of o_t table expected_l lo_targets]. rewrite map_map.
    apply map_ext_in. intros k Hk. apply Hmem; [apply ported_outs; exact Hk|exact (Houts k Hk)].
  Qed.

  (* (i): every strict diagram isomorphic to the expected diagram evaluates to the denotation *)
  Theorem sem_expected (B : Backend) (OK : BackendOK B)
      (apply : list A -> ic (list T) -> res (ic (list T))) (AP : apply_spec interp apply) (s : ohg O A) :
    wf_ohg s -> Iso (expected prog ins outs) (abs s) ->
    eval B default apply s inp = Ok (Some r).
  Proof.
    intros Ws HI. destruct (sem_expected_strict OK AP) as (WfE & Hac & Hsw & Har & Hl & Hev).
    rewrite <- Hev. symmetry.
    apply (C16f_numbering_independent OK default AP inp WfE Ws); try assumption.
    rewrite abs_strict_of, labs_expected. exact HI.
  Qed.
End Semantics.

Print Assumptions sem_expected.
