(* C19, semantic clause: a term built through the variable / operator interface, with its variables
   forgotten, evaluates to the function denoted by the expression program.

     C19_semantic_gen : any signature (interpreter with label-determined co-arities, any batch
       interpreter meeting apply_spec), any variable label not applied as an operator, ANY conforming
       back-end for Forget / strictification and ANY conforming back-end for eval;
     C19_forget_built_niso : with the canonical component numbering the forgotten term is the
       expected diagram up to a renumbering of nodes only (hyperedges in program order);
     C19_semantic : the instance decided by the correspondence check's [var_eval] cases
       (VecBackend, apply_sig, variable label 9, oracle Run/SpecCheck.denote);
     C19_semantic_run / _any_eval_backend / _any_backends : the same as the equation the check decides.

   Route: C19cSem.v (the expected diagram and its semantics), C19cIso.v (forgetting the built term
   gives the expected diagram up to renumbering of nodes, canonical numbering), C19cAny.v (the same up
   to isomorphism on any conforming back-end). *)
From Coq Require Import List Arith Lia Bool ZArith.
From OHG Require Import Spec.Plain Proofs.PrimsThm Proofs.C09Thm Proofs.C10Quot Proofs.QuotThm
  Proofs.C16Thm Proofs.C19Thm Proofs.BackendInst Proofs.C19cSem Proofs.C19cIso Proofs.C19cAny.
From OHG Require Proofs.HarnessThm.
From OHG Require Import Run.SpecCheck.
Import Coq.Init.Datatypes.   (* [length] is the one of lists, not of strings *)
Import ListNotations.
Close Scope string_scope.
Open Scope nat_scope.
Open Scope list_scope.
Open Scope bool_scope.

Arguments Nat.sub : simpl never.

(* ====================================================================================== *)
(* 1. the general theorem                                                                 *)
(* ====================================================================================== *)
(* every hyperedge of the operator list comes from a CApply of the program *)
Lemma g_ops_from_prog {O A} (prog : list (vcmd O A)) : forall k o, In o (g_ops k prog) ->
  exists args rts, In (CApply (o_lbl o) args rts) prog.
Proof.
  induction prog as [|c prog IH]; intros k o Hin; [destruct Hin|].
  destruct c as [l|op args rts]; cbn [g_ops] in Hin.
  - destruct (IH _ _ Hin) as (a & r & H). exists a, r. right. exact H.
  - destruct Hin as [<-|Hin].
    + exists args, rts. left. reflexivity.
    + destruct (IH _ _ Hin) as (a & r & H). exists a, r. right. exact H.
Qed.

Section General.
  (* the back-end used by Forget and by the strictifications: any *)
  Variable B : Backend.
  Hypothesis OK : BackendOK B.
  (* the back-end used by eval: any *)
  Variable B' : Backend.
  Hypothesis OK' : BackendOK B'.

  Variables O A T : Type.
  Variable eqO : O -> O -> bool.
  Hypothesis eqO_spec : forall x y, eqO x y = true <-> x = y.
  Variable eqA : A -> A -> bool.
  Hypothesis eqA_spec : forall x y, eqA x y = true <-> x = y.
  Variable var_label : A.

  Variable default : T.
  Variable interp : A -> list T -> list T.
  Hypothesis interp_arity : forall a v v', length (interp a v) = length (interp a v').
  Variable apply : list A -> ic (list T) -> res (ic (list T)).
  Hypothesis AP : apply_spec interp apply.

  Lemma den_build_hyps (prog : list (vcmd O A)) (ins outs : list nat) (inp r : list T) :
    den default interp prog ins outs inp = Some r ->
    (forall op args rts, In (CApply op args rts) prog -> op <> var_label) ->
    prog_ok 0 prog /\ Forall (fun h => h < nvars prog) ins /\ Forall (fun h => h < nvars prog) outs /\
    (forall o, In o (g_ops 0 prog) -> o_lbl o <> var_label).
  Proof.
    intros Hden Hnovar.
    destruct (den_facts default interp prog ins outs inp Hden) as (env & _ & Hok & _ & Hins & Houts & _).
    split; [exact Hok|]. split; [|split].
    - apply Forall_forall. intros h Hh. exact (proj1 (Hins h Hh)).
    - apply Forall_forall. exact Houts.
    - intros o Ho. destruct (g_ops_from_prog _ _ _ Ho) as (args & rts & Hin). exact (Hnovar _ _ _ Hin).
  Qed.

  Theorem C19_semantic_gen (prog : list (vcmd O A)) (ins outs : list nat) (inp r : list T) :
    den default interp prog ins outs inp = Some r ->
    (forall op args rts, In (CApply op args rts) prog -> op <> var_label) ->
    exists f g s,
      var_build var_label prog ins outs false = Ok (Some f) /\
      forget var_label eqO eqA B f = Ok g /\
      lohg_to_strict B eqO g = Ok s /\ wf_ohg s /\
      Iso (expected prog ins outs) (abs s) /\
      eval B' default apply s inp = Ok (Some r).
  Proof.
    intros Hden Hnovar.
    destruct (@den_build_hyps prog ins outs inp r Hden Hnovar) as (Hok & Hins' & Houts' & Hnv).
    destruct (forget_built_expected_any OK eqO eqO_spec eqA eqA_spec prog Hok Hins' Houts' Hnv)
      as (f & g & s & Hb & Hg & Hs & Ws & HI).
    exists f, g, s. repeat (split; [assumption|]).
    exact (sem_expected default interp_arity inp Hden OK' AP Ws HI).
  Qed.

  (* with the canonical component numbering (VecKind) the hyperedges even keep their order *)
  Theorem C19_forget_built_niso (prog : list (vcmd O A)) (ins outs : list nat) (inp r : list T) :
    cc_canonical B ->
    den default interp prog ins outs inp = Some r ->
    (forall op args rts, In (CApply op args rts) prog -> op <> var_label) ->
    exists f g s,
      var_build var_label prog ins outs false = Ok (Some f) /\
      forget var_label eqO eqA B f = Ok g /\
      lohg_to_strict B eqO g = Ok s /\ wf_ohg s /\
      NIso (expected prog ins outs) (abs s).
  Proof.
    intros CC Hden Hnovar.
    destruct (@den_build_hyps prog ins outs inp r Hden Hnovar) as (Hok & Hins' & Houts' & Hnv).
    exact (forget_built_expected OK CC eqO eqO_spec eqA eqA_spec prog Hok Hins' Houts' Hnv).
  Qed.

  (* the same, as one monadic program (the shape of the [var_eval] entry of Run/Dispatch.v) *)
  Corollary C19_semantic_gen_run (prog : list (vcmd O A)) (ins outs : list nat) (inp r : list T) :
    den default interp prog ins outs inp = Some r ->
    (forall op args rts, In (CApply op args rts) prog -> op <> var_label) ->
    (x <- var_build var_label prog ins outs false ;;
     match x with
     | None => Ok None
     | Some f => g <- forget var_label eqO eqA B f ;;
                 s <- lohg_to_strict B eqO g ;;
                 eval B' default apply s inp
     end) = Ok (Some r).
  Proof.
    intros Hden Hnovar.
    destruct (@C19_semantic_gen prog ins outs inp r Hden Hnovar) as (f & g & s & Hb & Hg & Hs & _ & _ & He).
    rewrite Hb. cbn [bind]. rewrite Hg. cbn [bind]. rewrite Hs. cbn [bind]. exact He.
  Qed.
End General.

Print Assumptions C19_semantic_gen.
Print Assumptions C19_forget_built_niso.
Print Assumptions C19_semantic_gen_run.

(* ====================================================================================== *)
(* 2. the instance decided by the correspondence check                                    *)
(* ====================================================================================== *)
(* the oracle of Run/SpecCheck.v is the generic interpreter at the test signature *)
Lemma denote_is_den prog ins outs inp : denote prog ins outs inp = den 0%Z interp prog ins outs inp.
Proof. reflexivity. Qed.

Lemma interp_arity_indep a (v v' : list Z) : length (interp a v) = length (interp a v').
Proof. rewrite !HarnessThm.interp_arity_table. reflexivity. Qed.

(* no applied operator carries the variable label 9 — as a checkable condition *)
Definition no_var_label (prog : list (vcmd nat nat)) : bool :=
  forallb (fun c => match c with CApply op _ _ => negb (op =? 9) | CNew _ _ => true end) prog.

Lemma no_var_label_spec prog : no_var_label prog = true ->
  forall op args rts, In (CApply op args rts) prog -> op <> 9.
Proof.
  unfold no_var_label. rewrite forallb_forall. intros H op args rts Hin E. specialize (H _ Hin).
  cbn in H. apply negb_true_iff, Nat.eqb_neq in H. contradiction.
Qed.

(* the computation performed by the [var_eval] entry of Run/Dispatch.v *)
Definition var_eval_run (B' : Backend) (prog : list (vcmd nat nat)) (ins outs : list nat) (inp : list Z)
  : res (option (list Z)) :=
  x <- var_build 9 prog ins outs false ;;
  match x with
  | None => Ok None
  | Some f => g <- forget 9 Nat.eqb Nat.eqb VB f ;;
              s <- lohg_to_strict VB Nat.eqb g ;;
              eval B' 0%Z apply_sig s inp
  end.

Definition C19_semantic_full : Prop :=
  forall (prog : list (vcmd nat nat)) (ins outs : list nat) (inp r : list Z),
    denote prog ins outs inp = Some r ->
    (forall op args rts, In (CApply op args rts) prog -> op <> 9) ->
    exists f g s,
      var_build 9 prog ins outs false = Ok (Some f) /\
      forget 9 Nat.eqb Nat.eqb VecBackend f = Ok g /\
      lohg_to_strict VecBackend Nat.eqb g = Ok s /\ wf_ohg s /\
      eval VecBackend 0%Z apply_sig s inp = Ok (Some r).

Theorem C19_semantic : C19_semantic_full.
Proof.
  intros prog ins outs inp r Hden Hno. rewrite denote_is_den in Hden.
  destruct (@C19_semantic_gen VecBackend VecBackend_ok VecBackend VecBackend_ok
              nat nat Z Nat.eqb Nat.eqb_eq Nat.eqb Nat.eqb_eq 9 0%Z interp interp_arity_indep
              apply_sig HarnessThm.apply_sig_spec prog ins outs inp r Hden Hno)
    as (f & g & s & H1 & H2 & H3 & H4 & _ & H6).
  exists f, g, s. auto.
Qed.

(* ... as the equation the check decides *)
Corollary C19_semantic_run prog ins outs inp r :
  denote prog ins outs inp = Some r ->
  (forall op args rts, In (CApply op args rts) prog -> op <> 9) ->
  var_eval_run VecBackend prog ins outs inp = Ok (Some r).
Proof.
  intros Hden Hno. destruct (C19_semantic prog ins outs inp r Hden Hno) as (f & g & s & H1 & H2 & H3 & _ & H5).
  unfold var_eval_run, VB. rewrite H1. cbn [bind]. rewrite H2. cbn [bind]. rewrite H3. cbn [bind]. exact H5.
Qed.

(* ... and with evaluation on any conforming back-end *)
Corollary C19_semantic_any_eval_backend (B' : Backend) (OK' : BackendOK B') prog ins outs inp r :
  denote prog ins outs inp = Some r ->
  (forall op args rts, In (CApply op args rts) prog -> op <> 9) ->
  var_eval_run B' prog ins outs inp = Ok (Some r).
Proof.
  intros Hden Hno. rewrite denote_is_den in Hden. unfold var_eval_run, VB.
  exact (@C19_semantic_gen_run VecBackend VecBackend_ok B' OK'
           nat nat Z Nat.eqb Nat.eqb_eq Nat.eqb Nat.eqb_eq 9 0%Z interp interp_arity_indep
           apply_sig HarnessThm.apply_sig_spec prog ins outs inp r Hden Hno).
Qed.

(* the built term forgotten IS the expected diagram (up to a renumbering of nodes) *)
Corollary C19_forget_built_is_expected prog ins outs inp r :
  denote prog ins outs inp = Some r ->
  (forall op args rts, In (CApply op args rts) prog -> op <> 9) ->
  exists f g s,
    var_build 9 prog ins outs false = Ok (Some f) /\
    forget 9 Nat.eqb Nat.eqb VecBackend f = Ok g /\
    lohg_to_strict VecBackend Nat.eqb g = Ok s /\
    NIso (expected prog ins outs) (abs s).
Proof.
  intros Hden Hno. rewrite denote_is_den in Hden.
  destruct (@C19_forget_built_niso VecBackend VecBackend_ok nat nat Z Nat.eqb Nat.eqb_eq Nat.eqb Nat.eqb_eq 9
              0%Z interp prog ins outs inp r vec_cc_canonical Hden Hno)
    as (f & g & s & H1 & H2 & H3 & _ & H5).
  exists f, g, s. auto.
Qed.

(* Forget / strictification on any conforming back-end B, evaluation on any conforming back-end B' *)
Definition var_eval_run2 (B B' : Backend) (prog : list (vcmd nat nat)) (ins outs : list nat) (inp : list Z)
  : res (option (list Z)) :=
  x <- var_build 9 prog ins outs false ;;
  match x with
  | None => Ok None
  | Some f => g <- forget 9 Nat.eqb Nat.eqb B f ;;
              s <- lohg_to_strict B Nat.eqb g ;;
              eval B' 0%Z apply_sig s inp
  end.

Corollary C19_semantic_any_backends (B B' : Backend) (OK : BackendOK B) (OK' : BackendOK B')
    prog ins outs inp r :
  denote prog ins outs inp = Some r ->
  (forall op args rts, In (CApply op args rts) prog -> op <> 9) ->
  var_eval_run2 B B' prog ins outs inp = Ok (Some r).
Proof.
  intros Hden Hno. rewrite denote_is_den in Hden. unfold var_eval_run2.
  exact (@C19_semantic_gen_run B OK B' OK'
           nat nat Z Nat.eqb Nat.eqb_eq Nat.eqb Nat.eqb_eq 9 0%Z interp interp_arity_indep
           apply_sig HarnessThm.apply_sig_spec prog ins outs inp r Hden Hno).
Qed.

Print Assumptions C19_semantic.
Print Assumptions C19_semantic_run.
Print Assumptions C19_semantic_any_eval_backend.
Print Assumptions C19_forget_built_is_expected.
Print Assumptions C19_semantic_any_backends.

(* ====================================================================================== *)
(* 3. examples                                                                            *)
(* ====================================================================================== *)
(* x0, x1 : inputs;  x2 : a fresh variable that is no input (holds 0);
   x3 := x0 + x0 + x1            (x0 shared: used twice here and once more below)
   (x4, x5) := dup-sum (x3)      (label 3: two results)
   (x6, x7, x8) := label 8 (x4, x5, x0)   (three results: sum, product, sum)
   x9 : a variable never used (its hyperedge has no node and vanishes)
   outputs x6 x7 x8 x0 x2 x3 x3 *)
Definition ex_p : list (vcmd nat nat) :=
  [CNew nat 1; CNew nat 1; CNew nat 2; CApply 0 [0; 0; 1] [1]; CApply 3 [3] [1; 1];
   CApply 8 [4; 5; 0] [1; 1; 1]; CNew nat 7].
Definition ex_ins := [1; 0].
Definition ex_outs := [6; 7; 8; 0; 2; 3; 3].
Definition ex_inp : list Z := [5; 7]%Z.

Example ex_denote : denote ex_p ex_ins ex_outs ex_inp = Some [45; 2527; 45; 7; 0; 19; 19]%Z.
Proof. vm_compute. reflexivity. Qed.

Example ex_pipeline : var_eval_run VecBackend ex_p ex_ins ex_outs ex_inp = Ok (Some [45; 2527; 45; 7; 0; 19; 19]%Z).
Proof. vm_compute. reflexivity. Qed.

Example ex_pipeline_adv : var_eval_run AdvBackend ex_p ex_ins ex_outs ex_inp = Ok (Some [45; 2527; 45; 7; 0; 19; 19]%Z).
Proof. vm_compute. reflexivity. Qed.

Example ex_no_var_label : no_var_label ex_p = true.
Proof. reflexivity. Qed.

(* the hypotheses of the theorem are satisfiable: the theorem instantiated *)
Example ex_by_theorem : var_eval_run VecBackend ex_p ex_ins ex_outs ex_inp = Ok (Some [45; 2527; 45; 7; 0; 19; 19]%Z).
Proof. exact (C19_semantic_run ex_p ex_ins ex_outs ex_inp _ ex_denote (no_var_label_spec ex_p ex_no_var_label)). Qed.

Example ex_by_theorem_adv :
  var_eval_run AdvBackend ex_p ex_ins ex_outs ex_inp = Ok (Some [45; 2527; 45; 7; 0; 19; 19]%Z).
Proof.
  exact (C19_semantic_any_eval_backend AdvBackend AdvBackend_ok ex_p ex_ins ex_outs ex_inp _ ex_denote
           (no_var_label_spec ex_p ex_no_var_label)).
Qed.

(* Forget and strictification on the adversarial back-end as well *)
Example ex_pipeline_adv2 :
  var_eval_run2 AdvBackend AdvBackend ex_p ex_ins ex_outs ex_inp = Ok (Some [45; 2527; 45; 7; 0; 19; 19]%Z).
Proof. vm_compute. reflexivity. Qed.

Example ex_by_theorem_adv2 :
  var_eval_run2 AdvBackend VecBackend ex_p ex_ins ex_outs ex_inp = Ok (Some [45; 2527; 45; 7; 0; 19; 19]%Z).
Proof.
  exact (C19_semantic_any_backends AdvBackend VecBackend AdvBackend_ok VecBackend_ok ex_p ex_ins ex_outs ex_inp _
           ex_denote (no_var_label_spec ex_p ex_no_var_label)).
Qed.

(* the built term, its forgotten form and the expected diagram *)
Example ex_forgotten :
  (x <- var_build 9 ex_p ex_ins ex_outs false ;;
   match x with Some f => forget 9 Nat.eqb Nat.eqb VecBackend f | None => Panic end) =
  Ok (mkLOHG [1; 0] [5; 6; 7; 0; 8; 2; 2]
        (mkLHG [1; 1; 1; 1; 1; 1; 1; 1; 2] [0; 3; 8]
               [([0; 0; 1], [2]); ([2], [3; 4]); ([3; 4; 0], [5; 6; 7])] ([], []))).
Proof. vm_compute. reflexivity. Qed.

Example ex_expected :
  expected ex_p ex_ins ex_outs =
  mkP [1; 1; 2; 1; 1; 1; 1; 1; 1]
      [mkPE 0 [0; 0; 1] [3]; mkPE 3 [3] [4; 5]; mkPE 8 [4; 5; 0] [6; 7; 8]]
      [1; 0] [6; 7; 8; 0; 2; 3; 3] /\
  live ex_p ex_ins ex_outs = [0; 1; 2; 3; 4; 5; 6; 7; 8].
Proof. vm_compute. split; reflexivity. Qed.

(* a program in which a variable is never used at all and one is only an output *)
Example ex_small :
  denote [CNew nat 4; CNew nat 4; CApply 3 [1] [4; 5]] [1] [3; 2; 1] [6%Z] = Some [6; 6; 6]%Z /\
  var_eval_run VecBackend [CNew nat 4; CNew nat 4; CApply 3 [1] [4; 5]] [1] [3; 2; 1] [6%Z] = Ok (Some [6; 6; 6]%Z).
Proof. split; vm_compute; reflexivity. Qed.

(* the side condition is needed: an applied operator carrying the variable label 9 on equal types
   is itself forgotten (it becomes a wire), while the oracle interprets it as the constant 0 *)
Example ex_label9_needed :
  denote [CNew nat 1; CApply 9 [0] [1]] [0] [1] [5%Z] = Some [0%Z] /\
  var_eval_run VecBackend [CNew nat 1; CApply 9 [0] [1]] [0] [1] [5%Z] = Ok (Some [5%Z]).
Proof. split; vm_compute; reflexivity. Qed.

(* outside the oracle's scope (a result handle declared as an input) the clause says nothing *)
Example ex_out_of_scope : denote [CNew nat 1; CApply 2 [0] [1]] [1] [1] [5%Z] = None.
Proof. vm_compute. reflexivity. Qed.
