(* Property C20, functor and optic clause: the images of a diagram under a strict functor, under an optic
   and under Optic::adapt do not depend (up to isomorphism) on the unspecified choices of the array
   back-end.

   1. functor data      C20_spider_map_arrow
   2. strict functors   C20_define_map_arrow (components that do not look at the back-end),
                        C20_define_map_arrow_iso (two functors whose operation images are isomorphic),
                        C20_identity_functor, C20_dyn_functor (the functor itself built with a back-end)
   3. optics            C20_optic_map_arrow, C20_optic_map_arrow_two (the optic itself built with a back-end),
                        C20_poly_optic
   4. Optic::adapt      C20_optic_adapt (any optic with lawful object maps), C20_optic_adapted,
                        C20_poly_adapted
   5. examples with VecBackend / AdvBackend / Adv2Backend *)
From OHG Require Import Spec.Plain Proofs.PrimsThm Proofs.SegThm Proofs.C01Lemmas Proofs.C01Thm Proofs.QuotThm
  Proofs.C03Plain Proofs.C12Lemmas Proofs.C12Plain Proofs.C12Thm Proofs.BackendInst Proofs.Adv2Inst
  Proofs.C14Thm Proofs.C14bThm Proofs.C14cPlain Proofs.C14cBatch Proofs.C14cThm Proofs.C19bLemmas
  Proofs.C14dDefs Proofs.C14dPlain Proofs.C14dDyn Proofs.C14dGen Proofs.C14dFunct Proofs.C14dPres
  Proofs.C14fDen Run.Dispatch.
From OHG Require Proofs.C10Thm Proofs.C13bEx Run.SpecCheck.
From Coq Require Import List Arith Lia Bool Permutation.
Import Coq.Init.Datatypes.
Import ListNotations.
Close Scope string_scope.
Open Scope nat_scope.
Open Scope list_scope.
Open Scope bool_scope.

Set Implicit Arguments.
Arguments Nat.sub : simpl never.

Notation poly_circuit := C14Thm.poly_circuit.
Notation poly_adm := C14dDyn.poly_adm.

(* ========================================================================================== *)
(** * 1. functor data                                                                          *)
(* ========================================================================================== *)
Section Data.
  Variables B1 B2 : Backend.
  Hypothesis OK1 : BackendOK B1.
  Hypothesis OK2 : BackendOK B2.
  Variables O1 A1 O2 A2 : Type.
  Variable eqO2 : O2 -> O2 -> bool.
  Hypothesis eqO2_spec : forall x y, eqO2 x y = true <-> x = y.

  Implicit Types (f : ohg O1 A1) (fw : ic (list O2)) (fx : ohg O2 A2).

  Theorem C20_spider_map_arrow f fw fx :
    wf_ohg f -> wf_ics fw -> ic_len fw = length (h_w (o_h f)) -> wf_ohg fx -> fx_typed f fw fx ->
    exists h1 h2, spider_map_arrow B1 eqO2 f fw fx = Ok h1 /\ spider_map_arrow B2 eqO2 f fw fx = Ok h2 /\
                  wf_ohg h1 /\ wf_ohg h2 /\ Iso (abs h1) (abs h2).
  Proof.
    intros Hf Hw Hlen Hfx Hty.
    destruct (C12_substitution_gen OK1 eqO2 eqO2_spec Hf Hw Hlen Hfx Hty) as (h1 & R1 & W1 & S1).
    destruct (C12_substitution_gen OK2 eqO2 eqO2_spec Hf Hw Hlen Hfx Hty) as (h2 & R2 & W2 & S2).
    exists h1, h2. repeat (split; [assumption|]).
    apply NIso_Iso. exact (C12_subst_unique Hw Hfx S1 S2).
  Qed.

  (* the same when the two operation images are only isomorphic *)
  Theorem C20_spider_map_arrow_iso f fw fx1 fx2 :
    wf_ohg f -> wf_ics fw -> ic_len fw = length (h_w (o_h f)) -> wf_ohg fx1 -> wf_ohg fx2 ->
    fx_typed f fw fx1 -> Iso (abs fx1) (abs fx2) ->
    exists h1 h2, spider_map_arrow B1 eqO2 f fw fx1 = Ok h1 /\ spider_map_arrow B2 eqO2 f fw fx2 = Ok h2 /\
                  wf_ohg h1 /\ wf_ohg h2 /\ Iso (abs h1) (abs h2).
  Proof.
    intros Hf Hw Hlen Hfx1 Hfx2 Hty I.
    pose proof (fx_typed_iso Hfx1 I Hty) as Hty2.
    destruct (C12_substitution_gen OK1 eqO2 eqO2_spec Hf Hw Hlen Hfx1 Hty) as (h1 & R1 & W1 & S1).
    destruct (C12_substitution_gen OK2 eqO2 eqO2_spec Hf Hw Hlen Hfx2 Hty2) as (h2 & R2 & W2 & S2).
    exists h1, h2. repeat (split; [assumption|]).
    exact (subst_iso_data OK2 eqO2 eqO2_spec Hf Hw Hlen Hfx1 Hfx2 Hty I S1 R2).
  Qed.

  (* ======================================================================================== *)
  (** * 2. strict functors                                                                     *)
  (* ======================================================================================== *)
  Lemma define_run B (F : sfunctor O1 A1 O2 A2) f fw fx h :
    wf_ohg f -> (forall ops, to_operations f = Ok ops -> sf_map_operations F ops = Ok fx) ->
    sf_map_object F (h_w (o_h f)) = Ok fw -> spider_map_arrow B eqO2 f fw fx = Ok h ->
    define_map_arrow B eqO2 F f = Ok h.
  Proof.
    intros Hf HFx HFw Hrun.
    destruct (to_operations_val Hf) as (va & vb & Hops & _ & _).
    unfold define_map_arrow. rewrite Hops. cbn [bind]. rewrite (HFx _ Hops). cbn [bind].
    rewrite HFw. exact Hrun.
  Qed.

  (* the contract of C12_define_map_arrow: the object map answers with a well-formed fw with one block per
     node, the operation map with a well-formed, well-typed fx *)
  Theorem C20_define_map_arrow (F : sfunctor O1 A1 O2 A2) f fw fx :
    wf_ohg f ->
    (forall ops, to_operations f = Ok ops -> sf_map_operations F ops = Ok fx) ->
    sf_map_object F (h_w (o_h f)) = Ok fw ->
    wf_ics fw -> ic_len fw = length (h_w (o_h f)) -> wf_ohg fx -> fx_typed f fw fx ->
    exists h1 h2, define_map_arrow B1 eqO2 F f = Ok h1 /\ define_map_arrow B2 eqO2 F f = Ok h2 /\
                  Iso (abs h1) (abs h2).
  Proof.
    intros Hf HFx HFw Hw Hlen Hfx Hty.
    destruct (C20_spider_map_arrow Hf Hw Hlen Hfx Hty) as (h1 & h2 & R1 & R2 & _ & _ & I).
    exists h1, h2. split; [exact (define_run B1 F Hf HFx HFw R1)|].
    split; [exact (define_run B2 F Hf HFx HFw R2)|exact I].
  Qed.

  (* two functors (for instance the same construction carried out with two back-ends): equal object
     images, isomorphic operation images *)
  Theorem C20_define_map_arrow_iso (F1 F2 : sfunctor O1 A1 O2 A2) f fw fx1 fx2 :
    wf_ohg f ->
    (forall ops, to_operations f = Ok ops -> sf_map_operations F1 ops = Ok fx1) ->
    (forall ops, to_operations f = Ok ops -> sf_map_operations F2 ops = Ok fx2) ->
    sf_map_object F1 (h_w (o_h f)) = Ok fw -> sf_map_object F2 (h_w (o_h f)) = Ok fw ->
    wf_ics fw -> ic_len fw = length (h_w (o_h f)) -> wf_ohg fx1 -> wf_ohg fx2 ->
    fx_typed f fw fx1 -> Iso (abs fx1) (abs fx2) ->
    exists h1 h2, define_map_arrow B1 eqO2 F1 f = Ok h1 /\ define_map_arrow B2 eqO2 F2 f = Ok h2 /\
                  wf_ohg h1 /\ wf_ohg h2 /\ Iso (abs h1) (abs h2).
  Proof.
    intros Hf HFx1 HFx2 HFw1 HFw2 Hw Hlen Hfx1 Hfx2 Hty I.
    destruct (C20_spider_map_arrow_iso Hf Hw Hlen Hfx1 Hfx2 Hty I) as (h1 & h2 & R1 & R2 & W1 & W2 & Ih).
    exists h1, h2. split; [exact (define_run B1 F1 Hf HFx1 HFw1 R1)|].
    split; [exact (define_run B2 F2 Hf HFx2 HFw2 R2)|]. repeat (split; [assumption|]). exact Ih.
  Qed.
End Data.

(* the identity functor: both images are isomorphic to the argument *)
Theorem C20_identity_functor (B1 B2 : Backend) (O A : Type) (eqO : O -> O -> bool) (f : ohg O A) :
  BackendOK B1 -> BackendOK B2 -> (forall x y, eqO x y = true <-> x = y) -> wf_ohg f ->
  exists h1 h2, define_map_arrow B1 eqO (identity_functor O A) f = Ok h1 /\
                define_map_arrow B2 eqO (identity_functor O A) f = Ok h2 /\
                wf_ohg h1 /\ wf_ohg h2 /\ Iso (abs h1) (abs h2).
Proof.
  intros OK1 OK2 Heq Hf.
  destruct (C12_identity_functor_iso OK1 eqO Heq Hf) as (h1 & R1 & W1 & I1).
  destruct (C12_identity_functor_iso OK2 eqO Heq Hf) as (h2 & R2 & W2 & I2).
  exists h1, h2. repeat (split; [assumption|]).
  exact (Iso_trans I1 (Iso_sym (wf_abs_pwf W2) I2)).
Qed.

(* ========================================================================================== *)
(** * 3. optics                                                                                *)
(* ========================================================================================== *)
Section Optic.
  Variables B1 B2 : Backend.
  Hypothesis OK1 : BackendOK B1.
  Hypothesis OK2 : BackendOK B2.
  Variables O1 A1 O2 A2 : Type.
  Variable eqO2 : O2 -> O2 -> bool.
  Hypothesis eqO2_spec : forall x y, eqO2 x y = true <-> x = y.
  Variables Fobj Robj : O1 -> list O2.
  Variable adm : gen O1 A1 -> Prop.
  Variables fimg rimg : gen O1 A1 -> pohg O2 A2.
  Variable Mres : gen O1 A1 -> list O2.

  (* two optics meeting the same point-wise contract (the contract does not mention a back-end); the
     case of interest: the same lax optic turned into a strict one with two back-ends *)
  Theorem C20_optic_map_arrow_two (P1 P2 : optic O1 A1 O2 A2) (s : ohg O1 A1) :
    pw_contract P1 Fobj Robj adm fimg rimg Mres -> pw_contract P2 Fobj Robj adm fimg rimg Mres ->
    adm_diagram adm s ->
    exists H1 H2, optic_map_arrow B1 eqO2 P1 s = Ok H1 /\ optic_map_arrow B2 eqO2 P2 s = Ok H2 /\
                  wf_ohg H1 /\ wf_ohg H2 /\ Iso (abs H1) (abs H2).
  Proof.
    intros PW1 PW2 HA. pose proof HA as (Ws & _).
    destruct (pw_map_arrow OK1 eqO2 eqO2_spec PW1 HA)
      as (H1 & fw & fx1 & R1 & W1 & _ & Wfw & Lfw & Dfw & _ & _ & Wfx1 & Hty1 & _ & Hsub1 & I1).
    destruct (pw_map_arrow OK2 eqO2 eqO2_spec PW2 HA)
      as (H2 & fw2 & fx2 & R2 & W2 & _ & Wfw2 & _ & Dfw2 & _ & _ & Wfx2 & _ & Hrun2 & _ & I2).
    assert (fw2 = fw) by (apply ic_ext; [assumption|assumption|congruence]). subst fw2.
    exists H1, H2. repeat (split; [assumption|]).
    assert (I : Iso (abs fx1) (abs fx2)) by exact (Iso_trans I1 (Iso_sym (wf_abs_pwf Wfx2) I2)).
    exact (subst_iso_data OK2 eqO2 eqO2_spec Ws Wfw Lfw Wfx1 Wfx2 Hty1 I Hsub1 Hrun2).
  Qed.

  Theorem C20_optic_map_arrow (P : optic O1 A1 O2 A2) (f : ohg O1 A1) :
    pw_contract P Fobj Robj adm fimg rimg Mres -> adm_diagram adm f ->
    exists H1 H2, optic_map_arrow B1 eqO2 P f = Ok H1 /\ optic_map_arrow B2 eqO2 P f = Ok H2 /\
                  Iso (abs H1) (abs H2).
  Proof.
    intros PW HA.
    destruct (C20_optic_map_arrow_two PW PW HA) as (H1 & H2 & R1 & R2 & _ & _ & I).
    exists H1, H2. repeat (split; [assumption|]). exact I.
  Qed.
End Optic.

(* the contract on every generator: all well-formed diagrams *)
Theorem C20_optic_map_arrow_all (B1 B2 : Backend) (O1 A1 O2 A2 : Type) (eqO2 : O2 -> O2 -> bool)
    (P : optic O1 A1 O2 A2) Fobj Robj fimg rimg Mres (f : ohg O1 A1) :
  BackendOK B1 -> BackendOK B2 -> (forall x y, eqO2 x y = true <-> x = y) ->
  pw_contract P Fobj Robj (fun _ => True) fimg rimg Mres -> wf_ohg f ->
  exists H1 H2, optic_map_arrow B1 eqO2 P f = Ok H1 /\ optic_map_arrow B2 eqO2 P f = Ok H2 /\
                Iso (abs H1) (abs H2).
Proof.
  intros OK1 OK2 Heq PW Wf.
  apply (C20_optic_map_arrow OK1 OK2 eqO2 Heq PW). split; [exact Wf|]. apply Forall_forall. intros; exact I.
Qed.

(* the strict optic of a lax optic, built with any back-end, run with any back-end *)
Theorem C20_lax_optic (B1 B2 B1' B2' : Backend) (O1 A1 O2 A2 : Type) (eqO2 : O2 -> O2 -> bool)
    (L : loptic O1 A1 O2 A2) (adm : gen O1 A1 -> Prop) (s : ohg O1 A1) :
  BackendOK B1 -> BackendOK B2 -> BackendOK B1' -> BackendOK B2' ->
  (forall x y, eqO2 x y = true <-> x = y) -> loptic_ok L adm -> adm_diagram adm s ->
  exists H1 H2, optic_map_arrow B1 eqO2 (to_strict_optic B1' eqO2 L) s = Ok H1 /\
                optic_map_arrow B2 eqO2 (to_strict_optic B2' eqO2 L) s = Ok H2 /\
                wf_ohg H1 /\ wf_ohg H2 /\ Iso (abs H1) (abs H2).
Proof.
  intros OK1 OK2 OK1' OK2' Heq HL HA.
  exact (C20_optic_map_arrow_two OK1 OK2 eqO2 Heq
           (to_strict_optic_pw OK1' eqO2 Heq HL) (to_strict_optic_pw OK2' eqO2 Heq HL) HA).
Qed.

(* the polynomial optic (poly_strict_optic is built with VecBackend) on the circuits of its theory *)
Theorem C20_poly_optic (B1 B2 : Backend) (s : ohg nat nat) :
  BackendOK B1 -> BackendOK B2 -> poly_circuit s ->
  exists H1 H2, optic_map_arrow B1 Nat.eqb C14Thm.poly_strict_optic s = Ok H1 /\
                optic_map_arrow B2 Nat.eqb C14Thm.poly_strict_optic s = Ok H2 /\
                Iso (abs H1) (abs H2).
Proof.
  intros OK1 OK2 Hs.
  exact (C20_optic_map_arrow OK1 OK2 Nat.eqb Nat.eqb_eq poly_pw (poly_circuit_adm Hs)).
Qed.

(* ... and when the strict optic itself is built with the back-end, as loptic_map_arrow does *)
Theorem C20_poly_optic_built (B1 B2 : Backend) (s : ohg nat nat) :
  BackendOK B1 -> BackendOK B2 -> poly_circuit s ->
  exists H1 H2, optic_map_arrow B1 Nat.eqb (to_strict_optic B1 Nat.eqb Run.Dispatch.poly_optic) s = Ok H1 /\
                optic_map_arrow B2 Nat.eqb (to_strict_optic B2 Nat.eqb Run.Dispatch.poly_optic) s = Ok H2 /\
                wf_ohg H1 /\ wf_ohg H2 /\ Iso (abs H1) (abs H2).
Proof.
  intros OK1 OK2 Hs.
  exact (C20_lax_optic Nat.eqb OK1 OK2 OK1 OK2 Nat.eqb_eq poly_loptic_ok (poly_circuit_adm Hs)).
Qed.

(* ========================================================================================== *)
(** * 4. Optic::adapt                                                                          *)
(* ========================================================================================== *)
(* re-cutting the interfaces commutes with isomorphisms *)
Lemma Iso_ppd {O A : Type} (c c' : pohg O A) na nb : Iso c c' -> Iso (ppd na nb c) (ppd na nb c').
Proof.
  intros (Hn & He & pn & pe & Hbn & Hbe & Hl & Hed & Hi & Ho).
  unfold ppd, with_io. split; [exact Hn|]. split; [exact He|]. exists pn, pe.
  cbn [p_nodes p_edges p_ins p_outs]. repeat (split; [assumption|]).
  rewrite Hi, Ho, !map_app, !firstn_map, !skipn_map. split; reflexivity.
Qed.

Section Adapt.
  Variables O1 A1 O2 A2 : Type.
  Variable eqO2 : O2 -> O2 -> bool.
  Hypothesis eqO2_spec : forall x y, eqO2 x y = true <-> x = y.
  Variables Fobj Robj : O1 -> list O2.

  (* all that Optic::adapt uses of an optic: its two object maps *)
  Definition object_contract (P : optic O1 A1 O2 A2) : Prop :=
    (forall a, exists fa, sf_map_object (op_fwd P) a = Ok fa /\ wf_ics fa /\ decode_s fa = map Fobj a) /\
    (forall a, exists ra, sf_map_object (op_rev P) a = Ok ra /\ wf_ics ra /\ decode_s ra = map Robj a).

  Lemma pw_object_contract P adm fimg rimg Mres :
    pw_contract P Fobj Robj adm fimg rimg Mres -> object_contract P.
  Proof. intros PW. split; [exact (pw_fwd_object PW)|exact (pw_rev_object PW)]. Qed.

  Lemma oc_object_contract P : optic_contract_for P Fobj Robj -> object_contract P.
  Proof. intros C. split; [exact (oc_fwd_object C)|exact (oc_rev_object C)]. Qed.

  Notation ov := (optic_values Fobj Robj).

  (* F a, R a and their interleaving wiring: determined by the contract *)
  Lemma oc_objects P (a : list O1) : object_contract P -> exists fa ra la,
    sf_map_object (op_fwd P) a = Ok fa /\ sf_map_object (op_rev P) a = Ok ra /\
    wf_ics fa /\ wf_ics ra /\ decode_s fa = map Fobj a /\ decode_s ra = map Robj a /\
    interleave_blocks A2 fa ra = Ok la /\ typed la (ic_values fa ++ ic_values ra) (ov a).
  Proof.
    intros [CF CR].
    destruct (CF a) as (fa & Hfa & Wfa & Dfa). destruct (CR a) as (ra & Hra & Wra & Dra).
    assert (Lfa : ic_len fa = length a) by (rewrite <- decode_s_length, Dfa, map_length; reflexivity).
    assert (Lra : ic_len ra = length a) by (rewrite <- decode_s_length, Dra, map_length; reflexivity).
    destruct (@interleave_typed O2 A2 fa ra Wfa Wra ltac:(congruence)) as (la & Hla & Tla).
    exists fa, ra, la. repeat (split; [assumption|]).
    rewrite Dfa, Dra, zip_app_map in Tla. unfold optic_values. rewrite flat_map_concat_map. exact Tla.
  Qed.

  (* one run of optic_adapt, with the plain-level meaning of every step *)
  Lemma adapt_run B P (c : ohg O2 A2) (a b : list O1) : BackendOK B -> object_contract P ->
    typed c (ov a) (ov b) ->
    exists fa ra la fb rb lb d0 d1 d,
      sf_map_object (op_fwd P) a = Ok fa /\ sf_map_object (op_rev P) a = Ok ra /\
      wf_ics fa /\ wf_ics ra /\ decode_s fa = map Fobj a /\ decode_s ra = map Robj a /\
      interleave_blocks A2 fa ra = Ok la /\ wf_ohg la /\
      sf_map_object (op_fwd P) b = Ok fb /\ sf_map_object (op_rev P) b = Ok rb /\
      wf_ics fb /\ wf_ics rb /\ decode_s fb = map Fobj b /\ decode_s rb = map Robj b /\
      interleave_blocks A2 fb rb = Ok lb /\ wf_ohg lb /\
      wf_ohg d0 /\ IsCompose (abs la) (abs c) (abs d0) /\
      IsCompose (abs d0) (abs (ohg_dagger lb)) (abs d1) /\
      optic_adapt B eqO2 P c a b = Ok d /\
      typed d (ic_values fa ++ ic_values rb) (ic_values fb ++ ic_values ra) /\
      abs d = ppd (length (ic_values fa)) (length (ic_values fb)) (abs d1).
  Proof.
    intros OK C Tc.
    destruct (oc_objects a C) as (fa & ra & la & Hfa & Hra & Wfa & Wra & Dfa & Dra & Hla & Tla).
    destruct (oc_objects b C) as (fb & rb & lb & Hfb & Hrb & Wfb & Wrb & Dfb & Drb & Hlb & Tlb).
    destruct (compose_unwrap_glue OK eqO2 eqO2_spec Tla Tc) as (d0 & Hd0 & Td0 & C0).
    destruct (compose_unwrap_glue OK eqO2 eqO2_spec Td0 (dagger_typed Tlb)) as (d1 & Hd1 & Td1 & C1).
    destruct (@partial_dagger_glue O2 A2 d1 fa fb rb ra Td1) as (d & Hd & Td & Ad).
    exists fa, ra, la, fb, rb, lb, d0, d1, d.
    repeat (split; [first [assumption|exact (proj1 Tla)|exact (proj1 Tlb)|exact (proj1 Td0)]|]).
    split; [|split; assumption].
    unfold optic_adapt. rewrite Hfa. cbn [bind]. rewrite Hfb. cbn [bind].
    rewrite Hra. cbn [bind]. rewrite Hrb. cbn [bind].
    rewrite Hla. cbn [bind]. rewrite Hlb. cbn [bind].
    rewrite Hd0. cbn [bind]. rewrite Hd1. cbn [bind].
    rewrite (typed_source Td1). cbn [bind].
    rewrite (coproduct_s_ok Wfa Wra). cbn [bind unwrap cop_s ic_values].
    rewrite (list_eqb_refl eqO2 eqO2_spec). cbn [assert bind].
    rewrite (typed_target Td1). cbn [bind].
    rewrite (coproduct_s_ok Wfb Wrb). cbn [bind unwrap cop_s ic_values].
    rewrite (list_eqb_refl eqO2 eqO2_spec). cbn [assert bind].
    exact Hd.
  Qed.

  Variables B1 B2 : Backend.
  Hypothesis OK1 : BackendOK B1.
  Hypothesis OK2 : BackendOK B2.

  (* isomorphic arguments of the optic boundary type are adapted to isomorphic diagrams; P1 and P2 may be
     the same optic, or one optic built with two back-ends *)
  Theorem C20_optic_adapt_two (P1 P2 : optic O1 A1 O2 A2) (c1 c2 : ohg O2 A2) (a b : list O1) :
    object_contract P1 -> object_contract P2 ->
    typed c1 (ov a) (ov b) -> wf_ohg c2 -> Iso (abs c1) (abs c2) ->
    exists d1 d2, optic_adapt B1 eqO2 P1 c1 a b = Ok d1 /\ optic_adapt B2 eqO2 P2 c2 a b = Ok d2 /\
      typed d1 (flat_map Fobj a ++ flat_map Robj b) (flat_map Fobj b ++ flat_map Robj a) /\
      typed d2 (flat_map Fobj a ++ flat_map Robj b) (flat_map Fobj b ++ flat_map Robj a) /\
      Iso (abs d1) (abs d2).
  Proof.
    intros C1 C2 Tc1 Wc2 I.
    assert (Tc2 : typed c2 (ov a) (ov b)).
    { destruct Tc1 as (Wc1 & HS & HT). pose proof (wf_abs_pwf Wc1) as Wp.
      split; [exact Wc2|]. rewrite (Iso_src_type Wp I), (Iso_tgt_type Wp I). split; assumption. }
    destruct (adapt_run a b OK1 C1 Tc1)
      as (fa & ra & la & fb & rb & lb & d0 & e1 & d1 & Hfa & Hra & Wfa & Wra & Dfa & Dra & Hla & Wla &
          Hfb & Hrb & Wfb & Wrb & Dfb & Drb & Hlb & Wlb & Wd0 & G0 & G1 & R1 & T1 & E1).
    destruct (adapt_run a b OK2 C2 Tc2)
      as (fa' & ra' & la' & fb' & rb' & lb' & d0' & e2 & d2 & _ & _ & Wfa' & Wra' & Dfa' & Dra' & Hla' & _ &
          _ & _ & Wfb' & Wrb' & Dfb' & Drb' & Hlb' & _ & _ & G0' & G1' & R2 & T2 & E2).
    assert (fa' = fa) by (apply ic_ext; [assumption|assumption|congruence]).
    assert (ra' = ra) by (apply ic_ext; [assumption|assumption|congruence]).
    assert (fb' = fb) by (apply ic_ext; [assumption|assumption|congruence]).
    assert (rb' = rb) by (apply ic_ext; [assumption|assumption|congruence]).
    subst fa' ra' fb' rb'.
    assert (la' = la) by congruence. assert (lb' = lb) by congruence. subst la' lb'.
    assert (Vfa : ic_values fa = flat_map Fobj a)
      by (rewrite <- (concat_decode_s Wfa), Dfa, flat_map_concat_map; reflexivity).
    assert (Vra : ic_values ra = flat_map Robj a)
      by (rewrite <- (concat_decode_s Wra), Dra, flat_map_concat_map; reflexivity).
    assert (Vfb : ic_values fb = flat_map Fobj b)
      by (rewrite <- (concat_decode_s Wfb), Dfb, flat_map_concat_map; reflexivity).
    assert (Vrb : ic_values rb = flat_map Robj b)
      by (rewrite <- (concat_decode_s Wrb), Drb, flat_map_concat_map; reflexivity).
    exists d1, d2. split; [exact R1|]. split; [exact R2|].
    rewrite Vfa, Vra, Vfb, Vrb in T1, T2. split; [exact T1|]. split; [exact T2|].
    rewrite E1, E2. apply Iso_ppd.
    assert (I0 : Iso (abs d0) (abs d0')).
    { exact (IsCompose_iso (wf_abs_pwf Wla) (wf_abs_pwf (proj1 Tc1)) (Iso_refl _) I G0 G0'). }
    exact (IsCompose_iso (wf_abs_pwf Wd0) (wf_abs_pwf (wf_dagger Wlb)) I0 (Iso_refl _) G1 G1').
  Qed.

  Theorem C20_optic_adapt (P : optic O1 A1 O2 A2) (c1 c2 : ohg O2 A2) (a b : list O1) :
    object_contract P -> typed c1 (ov a) (ov b) -> wf_ohg c2 -> Iso (abs c1) (abs c2) ->
    exists d1 d2, optic_adapt B1 eqO2 P c1 a b = Ok d1 /\ optic_adapt B2 eqO2 P c2 a b = Ok d2 /\
                  wf_ohg d1 /\ wf_ohg d2 /\ Iso (abs d1) (abs d2).
  Proof.
    intros C Tc1 Wc2 I.
    destruct (C20_optic_adapt_two a b C C Tc1 Wc2 I) as (d1 & d2 & R1 & R2 & T1 & T2 & Id).
    exists d1, d2. split; [exact R1|]. split; [exact R2|].
    split; [exact (proj1 T1)|]. split; [exact (proj1 T2)|exact Id].
  Qed.
End Adapt.

(* ---------- the optic image followed by adapt (the strict core of loptic_map_adapted) ---------- *)
Section Adapted.
  Variables O1 A1 O2 A2 : Type.
  Variable eqO2 : O2 -> O2 -> bool.
  Hypothesis eqO2_spec : forall x y, eqO2 x y = true <-> x = y.
  Variables Fobj Robj : O1 -> list O2.
  Variable adm : gen O1 A1 -> Prop.
  Variables fimg rimg : gen O1 A1 -> pohg O2 A2.
  Variable Mres : gen O1 A1 -> list O2.

  Definition adapted B (P : optic O1 A1 O2 A2) (s : ohg O1 A1) : res (ohg O2 A2) :=
    g <- optic_map_arrow B eqO2 P s ;;
    a <- ohg_source s ;; b <- ohg_target s ;;
    optic_adapt B eqO2 P g a b.

  (* the optic image of s : a -> b has the optic boundary type *)
  Lemma pw_image_typed B P (s : ohg O1 A1) (a b : list O1) : BackendOK B ->
    pw_contract P Fobj Robj adm fimg rimg Mres -> adm_diagram adm s -> typed s a b ->
    exists H, optic_map_arrow B eqO2 P s = Ok H /\
              typed H (optic_values Fobj Robj a) (optic_values Fobj Robj b).
  Proof.
    intros OK PW HA (Ws & HS & HT).
    destruct (pw_map_arrow OK eqO2 eqO2_spec PW HA)
      as (H & fw & fx & R & W & _ & Wfw & Lfw & Dfw & _ & _ & Wfx & Hty & Hrun & _ & _).
    destruct (C12_defined_typed_gen OK eqO2 eqO2_spec Ws Wfw Lfw Wfx Hty) as (H' & Hrun' & _ & HS' & HT').
    assert (H' = H) by congruence. subst H'.
    exists H. split; [exact R|]. split; [exact W|]. split.
    - rewrite HS'. apply (expand_labels _ _ Wfw Dfw). symmetry. exact HS.
    - rewrite HT'. apply (expand_labels _ _ Wfw Dfw). symmetry. exact HT.
  Qed.

  Variables B1 B2 : Backend.
  Hypothesis OK1 : BackendOK B1.
  Hypothesis OK2 : BackendOK B2.

  Theorem C20_optic_adapted (P1 P2 : optic O1 A1 O2 A2) (s : ohg O1 A1) (a b : list O1) :
    pw_contract P1 Fobj Robj adm fimg rimg Mres -> pw_contract P2 Fobj Robj adm fimg rimg Mres ->
    adm_diagram adm s -> typed s a b ->
    exists d1 d2, adapted B1 P1 s = Ok d1 /\ adapted B2 P2 s = Ok d2 /\
      typed d1 (flat_map Fobj a ++ flat_map Robj b) (flat_map Fobj b ++ flat_map Robj a) /\
      typed d2 (flat_map Fobj a ++ flat_map Robj b) (flat_map Fobj b ++ flat_map Robj a) /\
      Iso (abs d1) (abs d2).
  Proof.
    intros PW1 PW2 HA Ts.
    destruct (pw_image_typed OK1 PW1 HA Ts) as (H1 & R1 & T1).
    destruct (pw_image_typed OK2 PW2 HA Ts) as (H2 & R2 & T2).
    destruct (C20_optic_map_arrow_two OK1 OK2 eqO2 eqO2_spec PW1 PW2 HA) as (H1' & H2' & R1' & R2' & _ & _ & I).
    assert (H1' = H1) by congruence. assert (H2' = H2) by congruence. subst H1' H2'.
    destruct (C20_optic_adapt_two eqO2 eqO2_spec OK1 OK2 a b (pw_object_contract PW1) (pw_object_contract PW2)
                T1 (proj1 T2) I) as (d1 & d2 & D1 & D2 & TD1 & TD2 & Id).
    exists d1, d2. unfold adapted. rewrite R1, R2. cbn [bind].
    rewrite (typed_source Ts), (typed_target Ts). cbn [bind].
    repeat (split; [assumption|]). exact Id.
  Qed.
End Adapted.

(* the polynomial optic built and run with the back-end B (poly_adapted_strict is the case VecBackend) *)
Definition poly_adapted_strict_B (B : Backend) (s : ohg nat nat) : res (ohg nat nat) :=
  adapted Nat.eqb B (to_strict_optic B Nat.eqb poly_optic) s.

Lemma poly_adapted_strict_Vec s : poly_adapted_strict_B VecBackend s = C14Thm.poly_adapted_strict s.
Proof. reflexivity. Qed.

(* every circuit of the theory has a type  0^n -> 0^m *)
Lemma poly_circuit_typed (s : ohg nat nat) : poly_circuit s ->
  typed s (repeat 0 (length (table (o_s s)))) (repeat 0 (length (table (o_t s)))).
Proof.
  intros (Ws & H0 & _). split; [exact Ws|].
  pose proof (wf_abs_pwf Ws) as (_ & Wi & Wo).
  assert (T : forall l, all_lt (length (h_w (o_h s))) l ->
              map (nth_error (h_w (o_h s))) l = map Some (repeat 0 (length l))).
  { intros l Hl. induction Hl as [|i l Hi _ IH]; [reflexivity|].
    cbn [map length repeat]. rewrite IH. f_equal.
    destruct (nth_error (h_w (o_h s)) i) as [x|] eqn:E.
    - rewrite Forall_forall in H0. rewrite (H0 x (nth_error_In _ _ E)). reflexivity.
    - apply nth_error_None in E. lia. }
  split; [exact (T _ Wi)|exact (T _ Wo)].
Qed.

Theorem C20_poly_adapted (B1 B2 : Backend) (s : ohg nat nat) :
  BackendOK B1 -> BackendOK B2 -> poly_circuit s ->
  exists d1 d2, poly_adapted_strict_B B1 s = Ok d1 /\ poly_adapted_strict_B B2 s = Ok d2 /\
                wf_ohg d1 /\ wf_ohg d2 /\ Iso (abs d1) (abs d2).
Proof.
  intros OK1 OK2 Hs.
  destruct (C20_optic_adapted Nat.eqb Nat.eqb_eq OK1 OK2
              (to_strict_optic_pw OK1 Nat.eqb Nat.eqb_eq poly_loptic_ok)
              (to_strict_optic_pw OK2 Nat.eqb Nat.eqb_eq poly_loptic_ok)
              (poly_circuit_adm Hs) (poly_circuit_typed Hs)) as (d1 & d2 & R1 & R2 & T1 & T2 & I).
  exists d1, d2. split; [exact R1|]. split; [exact R2|].
  split; [exact (proj1 T1)|]. split; [exact (proj1 T2)|exact I].
Qed.

(* Optic::adapt alone, for the polynomial optic: isomorphic arguments  0^2n -> 0^2m *)
Theorem C20_poly_optic_adapt (B1 B2 : Backend) (c1 c2 : ohg nat nat) (n m : nat) :
  BackendOK B1 -> BackendOK B2 ->
  typed c1 (repeat 0 (2 * n)) (repeat 0 (2 * m)) -> wf_ohg c2 -> Iso (abs c1) (abs c2) ->
  exists d1 d2,
    optic_adapt B1 Nat.eqb (to_strict_optic B1 Nat.eqb poly_optic) c1 (repeat 0 n) (repeat 0 m) = Ok d1 /\
    optic_adapt B2 Nat.eqb (to_strict_optic B2 Nat.eqb poly_optic) c2 (repeat 0 n) (repeat 0 m) = Ok d2 /\
    wf_ohg d1 /\ wf_ohg d2 /\ Iso (abs d1) (abs d2).
Proof.
  intros OK1 OK2 Tc1 Wc2 I.
  assert (E : forall k, optic_values (fun _ : nat => [0]) (fun _ : nat => [0]) (repeat 0 k) = repeat 0 (2 * k)).
  { intros k. unfold optic_values. induction k as [|k IH]; [reflexivity|].
    cbn [repeat flat_map]. rewrite IH. replace (2 * S k) with (S (S (2 * k))) by lia. reflexivity. }
  rewrite <- (E n), <- (E m) in Tc1.
  destruct (C20_optic_adapt_two Nat.eqb Nat.eqb_eq OK1 OK2 (repeat 0 n) (repeat 0 m)
              (pw_object_contract (to_strict_optic_pw OK1 Nat.eqb Nat.eqb_eq poly_loptic_ok))
              (pw_object_contract (to_strict_optic_pw OK2 Nat.eqb Nat.eqb_eq poly_loptic_ok))
              Tc1 Wc2 I) as (d1 & d2 & R1 & R2 & T1 & T2 & Id).
  exists d1, d2. split; [exact R1|]. split; [exact R2|].
  split; [exact (proj1 T1)|]. split; [exact (proj1 T2)|exact Id].
Qed.

(* ========================================================================================== *)
(** * 2b. a strict functor that is itself built with a back-end: DynFunctor                    *)
(* ========================================================================================== *)
Section Dyn.
  Variables B1 B2 B1' B2' : Backend.
  Hypothesis OK1 : BackendOK B1.
  Hypothesis OK2 : BackendOK B2.
  Hypothesis OK1' : BackendOK B1'.
  Hypothesis OK2' : BackendOK B2'.
  Variables O1 A1 O2 A2 : Type.
  Variable eqO2 : O2 -> O2 -> bool.
  Hypothesis eqO2_spec : forall x y, eqO2 x y = true <-> x = y.
  Variable G : lfunctor O1 A1 O2 A2.
  Notation FO := (lf_map_object G).

  (* the documented contract of a lax functor at the generator y = (x, (a, b)): the image of x at that
     arity is a well-formed diagram  G a -> G b  without pending unifications *)
  Definition dyn_adm (y : gen O1 A1) : Prop :=
    lax_img_ok (gen_img G y) (flat_map FO (fst (snd y))) (flat_map FO (snd (snd y))).

  Theorem C20_dyn_functor (f : ohg O1 A1) : wf_ohg f -> Forall dyn_adm (pgens (abs f)) ->
    exists h1 h2, define_map_arrow B1 eqO2 (dyn_functor G B1' eqO2) f = Ok h1 /\
                  define_map_arrow B2 eqO2 (dyn_functor G B2' eqO2) f = Ok h2 /\
                  wf_ohg h1 /\ wf_ohg h2 /\ Iso (abs h1) (abs h2).
  Proof.
    intros Wf Had.
    destruct (diagram_ops Wf) as (va & vb & Hops & Wops & Eg & Ea & Eb).
    rewrite <- Eg in Had. set (ops := to_ops_pure f va vb) in *.
    assert (Hnp : Forall (fun y => np_good (gen_img G y)) (gens ops)).
    { eapply Forall_impl; [|exact Had]. intros y Hy. exact (lax_img_np Hy). }
    destruct (dyn_ops_pw OK1' eqO2 eqO2_spec G Wops Hnp) as (c1 & Hc1 & Wc1 & I1).
    destruct (dyn_ops_pw OK2' eqO2 eqO2_spec G Wops Hnp) as (c2 & Hc2 & Wc2 & I2).
    destruct (dyn_object_pw B1' eqO2 G (h_w (o_h f))) as (fw & Hfw & Wfw & Dfw).
    assert (Hfw2 : sf_map_object (dyn_functor G B2' eqO2) (h_w (o_h f)) = Ok fw) by exact Hfw.
    assert (Lfw : ic_len fw = length (h_w (o_h f))) by (rewrite <- decode_s_length, Dfw, map_length; reflexivity).
    assert (WP : Forall (@pwf O2 A2) (map (fun y => labs (gen_img G y)) (gens ops))).
    { apply Forall_map. eapply Forall_impl; [|exact Had]. intros y (W & _). exact (C10Thm.lwf_pwf W). }
    assert (Hty : fx_typed f fw c1).
    { pose proof (wf_abs_pwf Wc1) as Wp. split.
      - rewrite (expand_labels _ _ Wfw Dfw _ _ Ea).
        rewrite <- (Iso_src_type Wp I1), (src_type_ptl WP), map_map.
        rewrite (map_ext_in _ (fun y => map Some (flat_map FO (fst (snd y))))).
        + rewrite concat_map_map_Some. f_equal.
          change va with (ic_values (ops_a ops)). rewrite <- (adm_srcs Wops), flat_map_concat, map_map. reflexivity.
        + intros y Hy. rewrite Forall_forall in Had. destruct (Had y Hy) as (_ & _ & _ & S & _).
          exact (lohg_source_type _ S).
      - rewrite (expand_labels _ _ Wfw Dfw _ _ Eb).
        rewrite <- (Iso_tgt_type Wp I1), (tgt_type_ptl WP), map_map.
        rewrite (map_ext_in _ (fun y => map Some (flat_map FO (snd (snd y))))).
        + rewrite concat_map_map_Some. f_equal.
          change vb with (ic_values (ops_b ops)). rewrite <- (concat_decode_s (proj1 (proj2 Wops))).
          rewrite <- (gens_tgts Wops), flat_map_concat, map_map. reflexivity.
        + intros y Hy. rewrite Forall_forall in Had. destruct (Had y Hy) as (_ & _ & _ & _ & T).
          exact (lohg_target_type _ T). }
    assert (I : Iso (abs c1) (abs c2)) by exact (Iso_trans I1 (Iso_sym (wf_abs_pwf Wc2) I2)).
    apply (C20_define_map_arrow_iso OK1 OK2 eqO2 eqO2_spec (dyn_functor G B1' eqO2)
             (dyn_functor G B2' eqO2) (fw := fw) (fx1 := c1) (fx2 := c2)); try assumption.
    - intros ops' Hops'. assert (ops' = ops) by congruence. subst ops'. exact Hc1.
    - intros ops' Hops'. assert (ops' = ops) by congruence. subst ops'. exact Hc2.
  Qed.
End Dyn.

(* the lax identity functor meets the contract at every generator, so its DynFunctor is back-end
   independent on every well-formed diagram *)
Lemma l_identity_dyn_adm (O A : Type) (y : gen O A) : dyn_adm (l_identity_functor O A) y.
Proof.
  destruct y as [x [a b]]. unfold dyn_adm, gen_img, l_identity_functor.
  cbn [lf_map_object lf_map_operation fst snd]. rewrite !flat_map_singleton.
  destruct (@C10Thm.lwf_singleton O A x a b) as (W & L & Q).
  destruct (C13bEx.good_singleton x a b) as (_ & _ & _ & S & T).
  split; [exact W|]. split; [exact L|]. split; [exact Q|]. split; assumption.
Qed.

Theorem C20_dyn_identity_functor (B1 B2 B1' B2' : Backend) (O A : Type) (eqO : O -> O -> bool) (f : ohg O A) :
  BackendOK B1 -> BackendOK B2 -> BackendOK B1' -> BackendOK B2' ->
  (forall x y, eqO x y = true <-> x = y) -> wf_ohg f ->
  exists h1 h2, define_map_arrow B1 eqO (dyn_functor (l_identity_functor O A) B1' eqO) f = Ok h1 /\
                define_map_arrow B2 eqO (dyn_functor (l_identity_functor O A) B2' eqO) f = Ok h2 /\
                wf_ohg h1 /\ wf_ohg h2 /\ Iso (abs h1) (abs h2).
Proof.
  intros OK1 OK2 OK1' OK2' Heq Wf.
  apply (C20_dyn_functor OK1 OK2 OK1' OK2' eqO Heq (G := l_identity_functor O A) Wf).
  apply Forall_forall. intros y _. apply l_identity_dyn_adm.
Qed.

(* ========================================================================================== *)
(** * 5. examples: VecBackend against the adversarial back-ends                                *)
(* ========================================================================================== *)
(* functor data of C12Thm.v *)
Example ex20_fx_typed : fx_typed ex12_f ex12_fw ex12_fx.
Proof. split; vm_compute; reflexivity. Qed.

Example C20_spider_map_arrow_ex :
  exists h1 h2, spider_map_arrow VecBackend Nat.eqb ex12_f ex12_fw ex12_fx = Ok h1 /\
                spider_map_arrow AdvBackend Nat.eqb ex12_f ex12_fw ex12_fx = Ok h2 /\
                wf_ohg h1 /\ wf_ohg h2 /\ Iso (abs h1) (abs h2).
Proof.
  exact (C20_spider_map_arrow VecBackend_ok AdvBackend_ok Nat.eqb Nat.eqb_eq
           ex12_f_wf ex12_fw_wf ex12_len ex12_fx_wf ex20_fx_typed).
Qed.

(* ... and the two results are different arrays *)
Example C20_spider_map_arrow_differ :
  spider_map_arrow VecBackend Nat.eqb ex12_f ex12_fw ex12_fx <>
  spider_map_arrow AdvBackend Nat.eqb ex12_f ex12_fw ex12_fx.
Proof. vm_compute. discriminate. Qed.

(* a strict functor whose components do not use a back-end: the table functor with the data above *)
Definition ex20_F : sfunctor nat nat nat nat := mkSF (fun _ => Ok ex12_fw) (fun _ => Ok ex12_fx).

Example C20_define_map_arrow_ex :
  exists h1 h2, define_map_arrow VecBackend Nat.eqb ex20_F ex12_f = Ok h1 /\
                define_map_arrow Adv2Backend Nat.eqb ex20_F ex12_f = Ok h2 /\ Iso (abs h1) (abs h2).
Proof.
  apply (C20_define_map_arrow VecBackend_ok Adv2Backend_ok Nat.eqb Nat.eqb_eq ex20_F
           ex12_f_wf (fw := ex12_fw) (fx := ex12_fx)).
  - intros ops _. reflexivity.
  - reflexivity.
  - exact ex12_fw_wf.
  - exact ex12_len.
  - exact ex12_fx_wf.
  - exact ex20_fx_typed.
Qed.

Example C20_define_map_arrow_differ :
  define_map_arrow VecBackend Nat.eqb ex20_F ex12_f <> define_map_arrow Adv2Backend Nat.eqb ex20_F ex12_f.
Proof. vm_compute. discriminate. Qed.

Example C20_identity_functor_ex :
  exists h1 h2, define_map_arrow VecBackend Nat.eqb (identity_functor nat nat) ex12_f = Ok h1 /\
                define_map_arrow AdvBackend Nat.eqb (identity_functor nat nat) ex12_f = Ok h2 /\
                wf_ohg h1 /\ wf_ohg h2 /\ Iso (abs h1) (abs h2).
Proof. exact (C20_identity_functor Nat.eqb VecBackend_ok AdvBackend_ok Nat.eqb_eq ex12_f_wf). Qed.

Example C20_identity_functor_differ :
  define_map_arrow VecBackend Nat.eqb (identity_functor nat nat) ex12_f <>
  define_map_arrow AdvBackend Nat.eqb (identity_functor nat nat) ex12_f.
Proof. vm_compute. discriminate. Qed.

(* DynFunctor of the lax identity functor, built and run with either back-end *)
Example C20_dyn_functor_ex :
  exists h1 h2,
    define_map_arrow VecBackend Nat.eqb (dyn_functor (l_identity_functor nat nat) VecBackend Nat.eqb) ex12_f = Ok h1 /\
    define_map_arrow AdvBackend Nat.eqb (dyn_functor (l_identity_functor nat nat) AdvBackend Nat.eqb) ex12_f = Ok h2 /\
    wf_ohg h1 /\ wf_ohg h2 /\ Iso (abs h1) (abs h2).
Proof.
  exact (C20_dyn_identity_functor Nat.eqb VecBackend_ok AdvBackend_ok VecBackend_ok AdvBackend_ok Nat.eqb_eq ex12_f_wf).
Qed.

Example C20_dyn_functor_differ :
  define_map_arrow VecBackend Nat.eqb (dyn_functor (l_identity_functor nat nat) VecBackend Nat.eqb) ex12_f <>
  define_map_arrow AdvBackend Nat.eqb (dyn_functor (l_identity_functor nat nat) AdvBackend Nat.eqb) ex12_f.
Proof. vm_compute. discriminate. Qed.

(* the polynomial optic on the squaring circuit  copy ; mul *)
Example C20_optic_map_arrow_ex :
  exists H1 H2, optic_map_arrow VecBackend Nat.eqb C14Thm.poly_strict_optic C14Thm.s_square = Ok H1 /\
                optic_map_arrow AdvBackend Nat.eqb C14Thm.poly_strict_optic C14Thm.s_square = Ok H2 /\
                Iso (abs H1) (abs H2).
Proof.
  exact (C20_optic_map_arrow VecBackend_ok AdvBackend_ok Nat.eqb Nat.eqb_eq poly_pw
           (poly_circuit_adm ex_square_circuit)).
Qed.

Example C20_poly_optic_ex :
  exists H1 H2, optic_map_arrow VecBackend Nat.eqb C14Thm.poly_strict_optic C14Thm.s_square = Ok H1 /\
                optic_map_arrow Adv2Backend Nat.eqb C14Thm.poly_strict_optic C14Thm.s_square = Ok H2 /\
                Iso (abs H1) (abs H2).
Proof. exact (C20_poly_optic VecBackend_ok Adv2Backend_ok ex_square_circuit). Qed.

Example C20_optic_map_arrow_differ :
  optic_map_arrow VecBackend Nat.eqb C14Thm.poly_strict_optic C14Thm.s_square <>
  optic_map_arrow AdvBackend Nat.eqb C14Thm.poly_strict_optic C14Thm.s_square /\
  optic_map_arrow VecBackend Nat.eqb C14Thm.poly_strict_optic C14Thm.s_square <>
  optic_map_arrow Adv2Backend Nat.eqb C14Thm.poly_strict_optic C14Thm.s_square.
Proof. split; vm_compute; discriminate. Qed.

(* the isomorphism found by the executable checker of Run/SpecCheck.v as well *)
Example C20_optic_map_arrow_check :
  match optic_map_arrow VecBackend Nat.eqb C14Thm.poly_strict_optic C14Thm.s_square,
        optic_map_arrow AdvBackend Nat.eqb (to_strict_optic AdvBackend Nat.eqb poly_optic) C14Thm.s_square with
  | Ok H1, Ok H2 => SpecCheck.iso_nat (abs H1) (abs H2)
  | _, _ => false
  end = true.
Proof. vm_compute. reflexivity. Qed.

Example C20_poly_optic_built_ex :
  exists H1 H2,
    optic_map_arrow VecBackend Nat.eqb (to_strict_optic VecBackend Nat.eqb poly_optic) C14Thm.s_square = Ok H1 /\
    optic_map_arrow AdvBackend Nat.eqb (to_strict_optic AdvBackend Nat.eqb poly_optic) C14Thm.s_square = Ok H2 /\
    wf_ohg H1 /\ wf_ohg H2 /\ Iso (abs H1) (abs H2).
Proof. exact (C20_poly_optic_built VecBackend_ok AdvBackend_ok ex_square_circuit). Qed.

(* adapt *)
Example C20_poly_adapted_ex :
  exists d1 d2, poly_adapted_strict_B VecBackend C14Thm.s_square = Ok d1 /\
                poly_adapted_strict_B AdvBackend C14Thm.s_square = Ok d2 /\
                wf_ohg d1 /\ wf_ohg d2 /\ Iso (abs d1) (abs d2).
Proof. exact (C20_poly_adapted VecBackend_ok AdvBackend_ok ex_square_circuit). Qed.

Example C20_poly_adapted_differ :
  poly_adapted_strict_B VecBackend C14Thm.s_square <> poly_adapted_strict_B AdvBackend C14Thm.s_square.
Proof. vm_compute. discriminate. Qed.

(* Optic::adapt on two different, isomorphic encodings of the optic image of the squaring circuit: the one
   computed with VecBackend and the one computed with AdvBackend *)
Definition ex20_c (B : Backend) : ohg nat nat :=
  match optic_map_arrow B Nat.eqb (to_strict_optic B Nat.eqb poly_optic) C14Thm.s_square with
  | Ok h => h | _ => C14Thm.s_square end.

Example C20_optic_adapt_ex :
  exists d1 d2,
    optic_adapt VecBackend Nat.eqb (to_strict_optic VecBackend Nat.eqb poly_optic) (ex20_c VecBackend) [0] [0] = Ok d1 /\
    optic_adapt AdvBackend Nat.eqb (to_strict_optic AdvBackend Nat.eqb poly_optic) (ex20_c AdvBackend) [0] [0] = Ok d2 /\
    wf_ohg d1 /\ wf_ohg d2 /\ Iso (abs d1) (abs d2).
Proof.
  destruct (C20_poly_optic_built VecBackend_ok AdvBackend_ok ex_square_circuit)
    as (H1 & H2 & R1 & R2 & W1 & W2 & I).
  assert (E1 : ex20_c VecBackend = H1) by (unfold ex20_c; rewrite R1; reflexivity).
  assert (E2 : ex20_c AdvBackend = H2) by (unfold ex20_c; rewrite R2; reflexivity).
  rewrite E1, E2.
  apply (C20_poly_optic_adapt 1 1 VecBackend_ok AdvBackend_ok); [|exact W2|exact I].
  split; [exact W1|]. rewrite <- E1. split; vm_compute; reflexivity.
Qed.

Example C20_optic_adapt_differ :
  ex20_c VecBackend <> ex20_c AdvBackend /\
  optic_adapt VecBackend Nat.eqb (to_strict_optic VecBackend Nat.eqb poly_optic) (ex20_c VecBackend) [0] [0] <>
  optic_adapt AdvBackend Nat.eqb (to_strict_optic AdvBackend Nat.eqb poly_optic) (ex20_c AdvBackend) [0] [0].
Proof. split; vm_compute; discriminate. Qed.

(* adapt with one and the same optic on both sides *)
Example C20_optic_adapt_same_ex :
  exists d1 d2,
    optic_adapt VecBackend Nat.eqb C14Thm.poly_strict_optic (ex20_c VecBackend) [0] [0] = Ok d1 /\
    optic_adapt AdvBackend Nat.eqb C14Thm.poly_strict_optic (ex20_c AdvBackend) [0] [0] = Ok d2 /\
    wf_ohg d1 /\ wf_ohg d2 /\ Iso (abs d1) (abs d2).
Proof.
  destruct (C20_poly_optic_built VecBackend_ok AdvBackend_ok ex_square_circuit)
    as (H1 & H2 & R1 & R2 & W1 & W2 & I).
  assert (E1 : ex20_c VecBackend = H1) by (unfold ex20_c; rewrite R1; reflexivity).
  assert (E2 : ex20_c AdvBackend = H2) by (unfold ex20_c; rewrite R2; reflexivity).
  rewrite E1, E2.
  apply (C20_optic_adapt Nat.eqb Nat.eqb_eq VecBackend_ok AdvBackend_ok [0] [0] (pw_object_contract poly_pw));
    [|exact W2|exact I].
  split; [exact W1|]. rewrite <- E1. split; vm_compute; reflexivity.
Qed.

(* an optic meeting the contract on every generator: the strict optic of the lax optic with identity
   object maps, forward image x : a -> b, reverse image x : b -> a, no residual *)
Definition ex20_L : loptic nat nat nat nat :=
  mkLOptic (fun o => [o]) (fun x a b => lohg_singleton x a b)
           (fun o => [o]) (fun x a b => lohg_singleton x b a) (fun _ => []).

Lemma ex20_L_ok : loptic_ok ex20_L (fun _ => True).
Proof.
  intros x a b _. unfold ex20_L. cbn [lop_fwd_object lop_fwd_operation lop_rev_object lop_rev_operation lop_residual].
  rewrite !flat_map_singleton, app_nil_r. cbn [app].
  destruct (@C10Thm.lwf_singleton nat nat x a b) as (W & L & Q).
  destruct (C13bEx.good_singleton x a b) as (_ & _ & _ & S & T).
  destruct (@C10Thm.lwf_singleton nat nat x b a) as (W' & L' & Q').
  destruct (C13bEx.good_singleton x b a) as (_ & _ & _ & S' & T').
  split; (split; [assumption|split; [assumption|split; [assumption|split; assumption]]]).
Qed.

Example C20_optic_map_arrow_all_ex :
  exists H1 H2, optic_map_arrow VecBackend Nat.eqb (to_strict_optic VecBackend Nat.eqb ex20_L) ex12_f = Ok H1 /\
                optic_map_arrow AdvBackend Nat.eqb (to_strict_optic VecBackend Nat.eqb ex20_L) ex12_f = Ok H2 /\
                Iso (abs H1) (abs H2).
Proof.
  exact (C20_optic_map_arrow_all Nat.eqb VecBackend_ok AdvBackend_ok Nat.eqb_eq
           (to_strict_optic_pw VecBackend_ok Nat.eqb Nat.eqb_eq ex20_L_ok) ex12_f_wf).
Qed.

Example C20_optic_map_arrow_all_differ :
  optic_map_arrow VecBackend Nat.eqb (to_strict_optic VecBackend Nat.eqb ex20_L) ex12_f <>
  optic_map_arrow AdvBackend Nat.eqb (to_strict_optic VecBackend Nat.eqb ex20_L) ex12_f.
Proof. vm_compute. discriminate. Qed.

Print Assumptions C20_spider_map_arrow.
Print Assumptions C20_spider_map_arrow_iso.
Print Assumptions C20_define_map_arrow.
Print Assumptions C20_define_map_arrow_iso.
Print Assumptions C20_identity_functor.
Print Assumptions C20_dyn_functor.
Print Assumptions C20_dyn_identity_functor.
Print Assumptions C20_optic_map_arrow.
Print Assumptions C20_optic_map_arrow_two.
Print Assumptions C20_optic_map_arrow_all.
Print Assumptions C20_lax_optic.
Print Assumptions C20_poly_optic.
Print Assumptions C20_poly_optic_built.
Print Assumptions C20_optic_adapt.
Print Assumptions C20_optic_adapt_two.
Print Assumptions C20_optic_adapted.
Print Assumptions C20_poly_adapted.
Print Assumptions C20_poly_optic_adapt.
Print Assumptions C20_optic_adapt_ex.
