(* Soundness (and, where cheap, completeness) of the boolean checkers of Run/SpecCheck.v — the
   functions that are extracted to OCaml and run on the outputs of the real implementation —
   with respect to the specification vocabulary of Spec/Plain.v and Spec/Backend.v.

   1. deep well-formedness checkers   chk_ff_iff chk_icf_iff chk_wf_ohg_iff chk_wf_lohg_spec chk_wf_lohg_lwf
   2. partial injections              pm_inj pm_le; pm_ext_graph pm_ext_spec pm_ext_list_graph pm_ext_list_spec
                                      pm_ext_list_complete; same_partition_sound/_complete/_iff; dense_spec
   3. contract checkers               chk_argsort_iff (_sound, _complete), chk_sparse_iff (_sound),
                                      same_multiset_iff (_sound), icf_perm_iff
   4. isomorphism search              iso_check_sound_gen, iso_check_sound (iso_check = true -> Iso), iso_nat_sound,
                                      val_iso_sound, val_iso_strict_sound, q_rel_iff
   5. examples (accepted / rejected pairs, satisfiable hypotheses) and Print Assumptions                 *)
From Coq Require Import List Arith Lia Bool Permutation Sorted FinFun.
From OHG Require Import Run.SpecCheck Proofs.C09Thm.
Import Coq.Init.Datatypes.   (* [length] is the one of lists, not of strings *)
Import ListNotations.
Close Scope string_scope.
Open Scope nat_scope.
Open Scope list_scope.
Open Scope bool_scope.



(* ------------------------------------------------------------------------------------------ *)
(** * 0. small boolean reflections                                                             *)
(* ------------------------------------------------------------------------------------------ *)

Lemma forallb_ltb_all_lt n l : forallb (fun x => Nat.ltb x n) l = true <-> all_lt n l.
Proof.
  unfold all_lt. rewrite forallb_forall, Forall_forall.
  split; intros H x Hx; specialize (H x Hx); apply Nat.ltb_lt; exact H.
Qed.

Lemma existsb_eqb_In j l : existsb (Nat.eqb j) l = true <-> In j l.
Proof.
  rewrite existsb_exists. split.
  - intros (x & Hx & E). apply Nat.eqb_eq in E. subst x. exact Hx.
  - intros H. exists j. split; [exact H | apply Nat.eqb_refl].
Qed.

Lemma forallb_seq (P : nat -> bool) n :
  forallb P (seq 0 n) = true <-> forall j, j < n -> P j = true.
Proof.
  rewrite forallb_forall. split.
  - intros H j Hj. apply H. apply in_seq. lia.
  - intros H j Hj. apply in_seq in Hj. apply H. lia.
Qed.

Lemma Forall2_len {X Y} (R : X -> Y -> Prop) l l' : Forall2 R l l' -> length l = length l'.
Proof. induction 1 as [|x y l l' _ _ IH]; simpl; congruence. Qed.

Lemma Forall2_nth_error {X Y} (R : X -> Y -> Prop) l l' :
  Forall2 R l l' -> forall k x y, nth_error l k = Some x -> nth_error l' k = Some y -> R x y.
Proof.
  induction 1 as [|x0 y0 l l' H0 _ IH]; intros k x y Hx Hy.
  - destruct k; discriminate.
  - destruct k as [|k]; simpl in Hx, Hy.
    + injection Hx as <-. injection Hy as <-. exact H0.
    + eapply IH; eassumption.
Qed.

Lemma Forall2_nth {X} (R : X -> X -> Prop) l l' d :
  Forall2 R l l' -> forall k, k < length l -> R (nth k l d) (nth k l' d).
Proof.
  induction 1 as [|x0 y0 l l' H0 _ IH]; intros k Hk; simpl in Hk.
  - lia.
  - destruct k as [|k]; simpl; [exact H0 | apply IH; lia].
Qed.

Lemma Forall2_impl {X Y} (R R' : X -> Y -> Prop) l l' :
  (forall x y, R x y -> R' x y) -> Forall2 R l l' -> Forall2 R' l l'.
Proof. intros HR. induction 1; constructor; auto. Qed.

Lemma Forall2_flip {X Y} (R : X -> Y -> Prop) l l' :
  Forall2 R l l' -> Forall2 (fun y x => R x y) l' l.
Proof. induction 1; constructor; auto. Qed.

Lemma Forall2_map_eq {X Y} (f : X -> Y) l l' :
  Forall2 (fun x y => f x = y) l l' -> l' = map f l.
Proof. induction 1 as [|x y l l' H _ IH]; simpl; congruence. Qed.

(* ------------------------------------------------------------------------------------------ *)
(** * 1. deep well-formedness checkers                                                         *)
(* ------------------------------------------------------------------------------------------ *)

Theorem chk_ff_iff f : chk_ff f = true <-> wf_ff f.
Proof. unfold chk_ff, wf_ff. apply forallb_ltb_all_lt. Qed.

Theorem chk_icf_iff c : chk_icf c = true <-> wf_icf c.
Proof.
  unfold chk_icf, wf_icf, wf_ic, ff_source.
  rewrite !andb_true_iff, !Nat.eqb_eq, chk_ff_iff. tauto.
Qed.

Theorem chk_wf_ohg_iff (f : ohg nat nat) : chk_wf_ohg f = true <-> wf_ohg f.
Proof.
  unfold chk_wf_ohg, wf_ohg, wf_hg.
  rewrite !andb_true_iff, !Nat.eqb_eq, !chk_ff_iff, !chk_icf_iff. tauto.
Qed.

(* what the lax checker decides: every node reference in the adjacency, the two interfaces and the
   two pending lists is a node, there is one adjacency entry per hyperedge label and the two pending
   lists have the same length *)
Definition lohg_refs_ok {O A : Type} (f : lohg O A) : Prop :=
  let h := lo_h f in
  let n := length (l_nodes h) in
  length (l_edges h) = length (l_adj h) /\
  (forall e, In e (l_adj h) -> all_lt n (fst e) /\ all_lt n (snd e)) /\
  all_lt n (lo_sources f) /\ all_lt n (lo_targets f) /\
  all_lt n (fst (l_q h)) /\ all_lt n (snd (l_q h)) /\
  length (fst (l_q h)) = length (snd (l_q h)).

Theorem chk_wf_lohg_spec (f : lohg nat nat) : chk_wf_lohg f = true <-> lohg_refs_ok f.
Proof.
  unfold chk_wf_lohg, lohg_refs_ok.
  rewrite !andb_true_iff, !Nat.eqb_eq, !forallb_ltb_all_lt.
  assert (E : forallb (fun e : list nat * list nat =>
                         forallb (fun x => Nat.ltb x (length (l_nodes (lo_h f)))) (fst e) &&
                         forallb (fun x => Nat.ltb x (length (l_nodes (lo_h f)))) (snd e))
                      (l_adj (lo_h f)) = true <->
              (forall e, In e (l_adj (lo_h f)) ->
                         all_lt (length (l_nodes (lo_h f))) (fst e) /\
                         all_lt (length (l_nodes (lo_h f))) (snd e))).
  { rewrite forallb_forall. split; intros H e He; specialize (H e He).
    - apply andb_true_iff in H. rewrite !forallb_ltb_all_lt in H. exact H.
    - apply andb_true_iff. rewrite !forallb_ltb_all_lt. exact H. }
  rewrite E. tauto.
Qed.

(* in the vocabulary of the lax-quotient theorems (Proofs/C09Thm.v) *)
Corollary chk_wf_lohg_lwf (f : lohg nat nat) :
  chk_wf_lohg f = true <-> lwf f /\ length (l_edges (lo_h f)) = length (l_adj (lo_h f)).
Proof.
  rewrite chk_wf_lohg_spec. unfold lohg_refs_ok, lwf, hwf, nn, hn. tauto.
Qed.

(* ------------------------------------------------------------------------------------------ *)
(** * 2. partial injections                                                                    *)
(* ------------------------------------------------------------------------------------------ *)

(* the invariant: a functional (no key twice) and injective (no value twice) association list *)
Definition pm_inj (m : pmap) : Prop := NoDup (map fst m) /\ NoDup (map snd m).

(* m' extends m *)
Definition pm_le (m m' : pmap) : Prop := forall a b, pm_get m a = Some b -> pm_get m' a = Some b.

Lemma pm_le_refl m : pm_le m m.
Proof. intros a b H; exact H. Qed.

Lemma pm_le_trans m1 m2 m3 : pm_le m1 m2 -> pm_le m2 m3 -> pm_le m1 m3.
Proof. intros H1 H2 a b H. apply H2, H1, H. Qed.

Lemma pm_get_In m i j : pm_get m i = Some j -> In (i, j) m.
Proof.
  induction m as [|[a b] m IH]; simpl; intros H.
  - discriminate.
  - destruct (Nat.eqb a i) eqn:E.
    + apply Nat.eqb_eq in E. injection H as <-. subst a. left; reflexivity.
    + right. apply IH, H.
Qed.

Lemma pm_get_None m i : pm_get m i = None <-> ~ In i (map fst m).
Proof.
  induction m as [|[a b] m IH]; simpl.
  - tauto.
  - destruct (Nat.eqb a i) eqn:E.
    + apply Nat.eqb_eq in E. split; [discriminate | intros H; exfalso; apply H; left; exact E].
    + apply Nat.eqb_neq in E. rewrite IH. tauto.
Qed.

Lemma In_pm_get m i j : NoDup (map fst m) -> In (i, j) m -> pm_get m i = Some j.
Proof.
  induction m as [|[a b] m IH]; simpl; intros Hnd Hin.
  - contradiction.
  - inversion Hnd as [|x l Hni Hnd']; subst.
    destruct Hin as [E | Hin].
    + injection E as -> ->. rewrite Nat.eqb_refl. reflexivity.
    + destruct (Nat.eqb a i) eqn:E.
      * apply Nat.eqb_eq in E. subst a. exfalso. apply Hni.
        apply in_map_iff. exists (i, j). split; [reflexivity | exact Hin].
      * apply IH; assumption.
Qed.

Lemma pm_get_iff m i j : pm_inj m -> (pm_get m i = Some j <-> In (i, j) m).
Proof. intros [H _]. split; [apply pm_get_In | apply In_pm_get, H]. Qed.

Lemma pm_used_iff m j : pm_used m j = true <-> In j (map snd m).
Proof.
  induction m as [|[a b] m IH]; simpl.
  - split; [discriminate | contradiction].
  - rewrite orb_true_iff, Nat.eqb_eq, IH. tauto.
Qed.

Lemma pm_used_get m j : pm_used m j = true <-> exists i, In (i, j) m.
Proof.
  rewrite pm_used_iff, in_map_iff. split.
  - intros ([a b] & E & H). simpl in E. subst b. exists a. exact H.
  - intros (i & H). exists (i, j). split; [reflexivity | exact H].
Qed.

(* injectivity proper *)
Lemma In_snd_inj (m : pmap) (a a' b : nat) : NoDup (map snd m) -> In (a, b) m -> In (a', b) m -> a = a'.
Proof.
  induction m as [|[x y] m IH]; simpl; intros Hnd H1 H2.
  - contradiction.
  - inversion Hnd as [|z l Hni Hnd']; subst.
    assert (Hin : forall c, In (c, b) m -> In b (map snd m)).
    { intros c Hc. apply in_map_iff. exists (c, b). split; [reflexivity | exact Hc]. }
    destruct H1 as [E1 | H1], H2 as [E2 | H2].
    + congruence.
    + injection E1 as -> ->. exfalso. apply Hni. eapply Hin, H2.
    + injection E2 as -> ->. exfalso. apply Hni. eapply Hin, H1.
    + apply IH; assumption.
Qed.

Lemma pm_inj_inj m a a' b : pm_inj m -> pm_get m a = Some b -> pm_get m a' = Some b -> a = a'.
Proof.
  intros [_ H] H1 H2. eapply In_snd_inj; [exact H | apply pm_get_In; eassumption ..].
Qed.

Lemma pm_inj_nil : pm_inj [].
Proof. split; constructor. Qed.

(* pm_ext keeps the invariant and extends the graph of m by exactly (i, j) *)
Theorem pm_ext_spec m i j m' :
  pm_inj m -> pm_ext m i j = Some m' ->
  pm_inj m' /\
  (forall a b, pm_get m' a = Some b <-> pm_get m a = Some b \/ (a = i /\ b = j)).
Proof.
  unfold pm_ext. intros Hinj H.
  destruct (pm_get m i) as [j'|] eqn:G.
  - destruct (Nat.eqb j j') eqn:E; [|discriminate].
    apply Nat.eqb_eq in E. subst j'. injection H as <-.
    split; [exact Hinj|]. intros a b. split; [tauto|].
    intros [H | [-> ->]]; [exact H | exact G].
  - destruct (pm_used m j) eqn:U; [discriminate|]. injection H as <-.
    split.
    + destruct Hinj as [H1 H2]. split; simpl; constructor; try assumption.
      * apply pm_get_None, G.
      * intros Hu. apply pm_used_iff in Hu. congruence.
    + intros a b. simpl. destruct (Nat.eqb i a) eqn:E.
      * apply Nat.eqb_eq in E. subst a. split.
        -- intros H. injection H as <-. right. split; reflexivity.
        -- intros [H | [_ ->]]; [congruence | reflexivity].
      * apply Nat.eqb_neq in E. split; [tauto|]. intros [H | [-> _]]; [exact H | congruence].
Qed.

(* the graph part needs no invariant *)
Lemma pm_ext_graph m i j m' :
  pm_ext m i j = Some m' ->
  forall a b, pm_get m' a = Some b <-> pm_get m a = Some b \/ (a = i /\ b = j).
Proof.
  unfold pm_ext. intros H.
  destruct (pm_get m i) as [j'|] eqn:G.
  - destruct (Nat.eqb j j') eqn:E; [|discriminate].
    apply Nat.eqb_eq in E. subst j'. injection H as <-.
    intros a b. split; [tauto|]. intros [H | [-> ->]]; [exact H | exact G].
  - destruct (pm_used m j) eqn:U; [discriminate|]. injection H as <-.
    intros a b. simpl. destruct (Nat.eqb i a) eqn:E.
    + apply Nat.eqb_eq in E. subst a. split.
      * intros H. injection H as <-. right. split; reflexivity.
      * intros [H | [_ ->]]; [congruence | reflexivity].
    + apply Nat.eqb_neq in E. split; [tauto|]. intros [H | [-> _]]; [exact H | congruence].
Qed.

Lemma pm_ext_list_graph l : forall m l' m',
  pm_ext_list m l l' = Some m' ->
  length l = length l' /\ pm_le m m' /\
  (forall k i j, nth_error l k = Some i -> nth_error l' k = Some j -> pm_get m' i = Some j).
Proof.
  induction l as [|i r IH]; intros m l' m' H; destruct l' as [|j r']; simpl in H; try discriminate.
  - injection H as <-. split; [reflexivity|]. split; [apply pm_le_refl|].
    intros k i j Hi. destruct k; discriminate.
  - destruct (pm_ext m i j) as [m1|] eqn:E; [|discriminate].
    pose proof (pm_ext_graph _ _ _ _ E) as Hg1.
    destruct (IH _ _ _ H) as (Hlen & Hle & Hpos).
    split; [simpl; congruence|]. split.
    + intros a b Hab. apply Hle, Hg1. left; exact Hab.
    + intros k a b Ha Hb. destruct k as [|k]; simpl in Ha, Hb.
      * injection Ha as <-. injection Hb as <-. apply Hle, Hg1. right. split; reflexivity.
      * eapply Hpos; eassumption.
Qed.

Corollary pm_ext_le m i j m' : pm_inj m -> pm_ext m i j = Some m' -> pm_le m m' /\ pm_get m' i = Some j.
Proof.
  intros Hinj H. destruct (pm_ext_spec _ _ _ _ Hinj H) as [_ Hg]. split.
  - intros a b Hab. apply Hg. left; exact Hab.
  - apply Hg. right. split; reflexivity.
Qed.

(* the pairs (l_k, l'_k) *)
Definition maps_to (m : pmap) (l l' : list nat) : Prop :=
  Forall2 (fun i j => pm_get m i = Some j) l l'.

Lemma maps_to_le m m' l l' : pm_le m m' -> maps_to m l l' -> maps_to m' l l'.
Proof. intros Hle. apply Forall2_impl. intros x y H. apply Hle, H. Qed.

Lemma pm_ext_list_Forall2 l : forall m l' m',
  pm_inj m -> pm_ext_list m l l' = Some m' ->
  pm_inj m' /\ pm_le m m' /\ maps_to m' l l' /\
  (forall a b, pm_get m' a = Some b -> pm_get m a = Some b \/ In (a, b) (combine l l')).
Proof.
  induction l as [|i r IH]; intros m l' m' Hinj H; destruct l' as [|j r']; simpl in H; try discriminate.
  - injection H as <-. split; [exact Hinj|]. split; [apply pm_le_refl|]. split; [constructor|].
    intros a b Hab. left; exact Hab.
  - destruct (pm_ext m i j) as [m1|] eqn:E; [|discriminate].
    destruct (pm_ext_spec _ _ _ _ Hinj E) as [Hinj1 Hg1].
    destruct (IH _ _ _ Hinj1 H) as (Hinj' & Hle & Hmap & Hback).
    split; [exact Hinj'|]. split; [|split].
    + intros a b Hab. apply Hle, Hg1. left; exact Hab.
    + constructor; [|exact Hmap]. apply Hle, Hg1. right. split; reflexivity.
    + intros a b Hab. destruct (Hback a b Hab) as [H1 | H1].
      * apply Hg1 in H1. destruct H1 as [H1 | [-> ->]]; [left; exact H1 | right; left; reflexivity].
      * right. right. exact H1.
Qed.

(* the statement in positional form *)
Theorem pm_ext_list_spec m l l' m' :
  pm_inj m -> pm_ext_list m l l' = Some m' ->
  pm_inj m' /\ length l = length l' /\ pm_le m m' /\
  (forall k i j, nth_error l k = Some i -> nth_error l' k = Some j -> pm_get m' i = Some j) /\
  (forall a b, pm_get m' a = Some b -> pm_get m a = Some b \/ In (a, b) (combine l l')).
Proof.
  intros Hinj H. destruct (pm_ext_list_Forall2 _ _ _ _ Hinj H) as (H1 & H2 & H3 & H4).
  split; [exact H1|]. split; [eapply Forall2_len, H3|]. split; [exact H2|]. split; [|exact H4].
  intros k i j Hi Hj. exact (Forall2_nth_error _ _ _ H3 _ _ _ Hi Hj).
Qed.

(* completeness of pm_ext_list: if the graph of m together with the pairs (l_k, l'_k) is a functional
   and injective relation, the extension succeeds *)
Lemma pm_ext_list_complete l : forall m l',
  pm_inj m -> length l = length l' ->
  (forall a b b', (pm_get m a = Some b \/ In (a, b) (combine l l')) ->
                  (pm_get m a = Some b' \/ In (a, b') (combine l l')) -> b = b') ->
  (forall a a' b, (pm_get m a = Some b \/ In (a, b) (combine l l')) ->
                  (pm_get m a' = Some b \/ In (a', b) (combine l l')) -> a = a') ->
  exists m', pm_ext_list m l l' = Some m'.
Proof.
  induction l as [|i r IH]; intros m l' Hinj Hlen Hf Hi; destruct l' as [|j r']; simpl in Hlen; try discriminate.
  - exists m. reflexivity.
  - simpl.
    assert (E : exists m1, pm_ext m i j = Some m1).
    { unfold pm_ext. destruct (pm_get m i) as [j'|] eqn:G.
      - assert (j = j') as <-.
        { apply (Hf i); [right; left; reflexivity | left; exact G]. }
        rewrite Nat.eqb_refl. eexists; reflexivity.
      - destruct (pm_used m j) eqn:U; [|eexists; reflexivity].
        apply pm_used_get in U. destruct U as (a & Ha).
        apply (pm_get_iff _ _ _ Hinj) in Ha.
        assert (a = i) as -> by (apply (Hi a i j); [left; exact Ha | right; left; reflexivity]).
        congruence. }
    destruct E as (m1 & E). rewrite E.
    destruct (pm_ext_spec _ _ _ _ Hinj E) as [Hinj1 Hg1].
    assert (Hrel : forall a b, (pm_get m1 a = Some b \/ In (a, b) (combine r r')) ->
                               (pm_get m a = Some b \/ In (a, b) (combine (i :: r) (j :: r')))).
    { intros a b [H | H].
      - apply Hg1 in H. destruct H as [H | [-> ->]]; [left; exact H | right; left; reflexivity].
      - right; right; exact H. }
    apply IH.
    + exact Hinj1.
    + lia.
    + intros a b b' H1 H2. apply (Hf a); apply Hrel; assumption.
    + intros a a' b H1 H2. apply (Hi a a' b); apply Hrel; assumption.
Qed.

Lemma In_combine_nth (l l' : list nat) a b :
  length l = length l' ->
  (In (a, b) (combine l l') <-> exists k, k < length l /\ nth k l 0 = a /\ nth k l' 0 = b).
Proof.
  revert l'. induction l as [|x l IH]; intros l' Hlen; destruct l' as [|y l']; simpl in Hlen; try discriminate.
  - simpl. split; [contradiction | intros (k & Hk & _); lia].
  - simpl. rewrite IH by lia. split.
    + intros [E | (k & Hk & H1 & H2)].
      * injection E as -> ->. exists 0. split; [lia | split; reflexivity].
      * exists (S k). split; [lia | split; assumption].
    + intros (k & Hk & H1 & H2). destruct k as [|k].
      * left. congruence.
      * right. exists k. split; [lia | split; assumption].
Qed.

(* same_partition decides: same length and the same kernel *)
Definition same_kernel (q q' : list nat) : Prop :=
  length q = length q' /\
  forall i j, i < length q -> j < length q -> (nth i q 0 = nth j q 0 <-> nth i q' 0 = nth j q' 0).

Theorem same_partition_sound q q' : same_partition q q' = true -> same_kernel q q'.
Proof.
  unfold same_partition, same_kernel. intros H. apply andb_true_iff in H. destruct H as [Hl H].
  apply Nat.eqb_eq in Hl. split; [exact Hl|].
  destruct (pm_ext_list [] q q') as [m|] eqn:E; [|discriminate].
  destruct (pm_ext_list_Forall2 _ _ _ _ pm_inj_nil E) as (Hinj & _ & Hmap & _).
  intros i j Hi Hj.
  pose proof (Forall2_nth _ _ _ 0 Hmap _ Hi) as Gi. pose proof (Forall2_nth _ _ _ 0 Hmap _ Hj) as Gj.
  simpl in Gi, Gj. split; intros Eq.
  - rewrite Eq in Gi. congruence.
  - rewrite Eq in Gi. eapply pm_inj_inj; eassumption.
Qed.

Theorem same_partition_complete q q' : same_kernel q q' -> same_partition q q' = true.
Proof.
  unfold same_partition, same_kernel. intros [Hl Hk]. rewrite Hl, Nat.eqb_refl. simpl.
  destruct (pm_ext_list_complete q [] q' pm_inj_nil Hl) as (m & E).
  - intros a b b' [H | H] [H' | H']; try discriminate.
    apply (In_combine_nth _ _ _ _ Hl) in H, H'.
    destruct H as (k & Hk1 & <- & <-), H' as (k' & Hk1' & E1 & <-). apply Hk; auto.
  - intros a a' b [H | H] [H' | H']; try discriminate.
    apply (In_combine_nth _ _ _ _ Hl) in H, H'.
    destruct H as (k & Hk1 & <- & <-), H' as (k' & Hk1' & <- & E1). apply Hk; auto.
  - rewrite E. reflexivity.
Qed.

Theorem same_partition_iff q q' : same_partition q q' = true <-> same_kernel q q'.
Proof. split; [apply same_partition_sound | apply same_partition_complete]. Qed.

Theorem dense_spec q k : dense q k = true <-> all_lt k q /\ forall j, j < k -> In j q.
Proof.
  unfold dense. rewrite andb_true_iff, forallb_ltb_all_lt, forallb_seq.
  split; intros [H1 H2]; (split; [exact H1|]); intros j Hj; apply existsb_eqb_In, H2, Hj.
Qed.

(* ------------------------------------------------------------------------------------------ *)
(** * 3. contract checkers                                                                     *)
(* ------------------------------------------------------------------------------------------ *)

Lemma sorted_le_Sorted l : sorted_le l = true <-> Sorted le l.
Proof.
  induction l as [|x l IH]; [split; [constructor | reflexivity]|].
  destruct l as [|y r].
  - split; [intros _; repeat constructor | reflexivity].
  - change (sorted_le (x :: y :: r)) with (Nat.leb x y && sorted_le (y :: r)).
    rewrite andb_true_iff, Nat.leb_le, IH. split.
    + intros [H1 H2]. constructor; [exact H2 | constructor; exact H1].
    + intros H. inversion H as [|a b Hs Hh]; subst. inversion Hh; subst. tauto.
Qed.

Lemma sorted_le_spec l : sorted_le l = true <-> StronglySorted le l.
Proof.
  rewrite sorted_le_Sorted. split; [|apply StronglySorted_Sorted].
  apply Sorted_StronglySorted. intros x y z; apply Nat.le_trans.
Qed.

Lemma is_perm_of_range_spec p n : is_perm_of_range p n = true <-> Permutation p (seq 0 n).
Proof.
  unfold is_perm_of_range. rewrite andb_true_iff, Nat.eqb_eq, forallb_seq. split.
  - intros [Hl Hin]. symmetry. apply NoDup_Permutation_bis.
    + apply seq_NoDup.
    + rewrite seq_length. lia.
    + intros j Hj. apply in_seq in Hj. apply existsb_eqb_In, Hin. lia.
  - intros HP. split.
    + rewrite (Permutation_length HP). apply seq_length.
    + intros j Hj. apply existsb_eqb_In. eapply Permutation_in; [symmetry; exact HP|].
      apply in_seq. lia.
Qed.

(* the argsort contract of Spec/Backend.v (bk_argsort_perm, bk_argsort_sorted) *)
Theorem chk_argsort_iff xs p :
  chk_argsort xs p = true <->
  Permutation p (seq 0 (length xs)) /\ StronglySorted le (map (fun i => nth i xs 0) p).
Proof. unfold chk_argsort. rewrite andb_true_iff, is_perm_of_range_spec, sorted_le_spec. tauto. Qed.

Theorem chk_argsort_sound xs p :
  chk_argsort xs p = true ->
  Permutation p (seq 0 (length xs)) /\ StronglySorted le (map (fun i => nth i xs 0) p).
Proof. apply chk_argsort_iff. Qed.

Theorem chk_argsort_complete xs p :
  Permutation p (seq 0 (length xs)) -> StronglySorted le (map (fun i => nth i xs 0) p) ->
  chk_argsort xs p = true.
Proof. intros H1 H2. apply chk_argsort_iff. split; assumption. Qed.

Lemma nodup_length_le (l : list nat) : length (nodup Nat.eq_dec l) <= length l.
Proof.
  induction l as [|a l IH]; simpl; [lia|].
  destruct (in_dec Nat.eq_dec a l); simpl; lia.
Qed.

Lemma nodup_length_NoDup (l : list nat) : length (nodup Nat.eq_dec l) = length l <-> NoDup l.
Proof.
  split.
  - induction l as [|a l IH]; simpl; intros H; [constructor|].
    destruct (in_dec Nat.eq_dec a l) as [Hin | Hni]; simpl in H.
    + pose proof (nodup_length_le l). lia.
    + constructor; [exact Hni | apply IH; lia].
  - intros H. rewrite nodup_fixed_point by exact H. reflexivity.
Qed.

Lemma combine_count_spec xs u : forall c,
  length u = length c ->
  ((forall p, In p (combine u c) -> 0 < snd p /\ snd p = count_occ Nat.eq_dec xs (fst p)) <->
   (c = map (count_occ Nat.eq_dec xs) u /\ forall v, In v u -> In v xs)).
Proof.
  induction u as [|a u IH]; intros c Hlen; destruct c as [|b c]; simpl in Hlen; try discriminate.
  - simpl. split; [intros _; split; [reflexivity | contradiction] | intros _ p []].
  - simpl. specialize (IH c ltac:(lia)). split.
    + intros H. destruct (H (a, b) (or_introl eq_refl)) as [Hpos Hb]. simpl in Hpos, Hb.
      destruct IH as [IH _]. destruct IH as [Hc Hin]; [intros p Hp; apply H; right; exact Hp|].
      split; [congruence|]. intros v [<- | Hv]; [|apply Hin, Hv].
      apply (count_occ_In Nat.eq_dec). lia.
    + intros [Hc Hin] p [<- | Hp].
      * simpl. injection Hc as -> _. split; [|reflexivity].
        apply (count_occ_In Nat.eq_dec). apply Hin. left; reflexivity.
      * apply IH; [|exact Hp]. injection Hc as _ ->. split; [reflexivity|]. intros v Hv. apply Hin; right; exact Hv.
Qed.

(* the sparse-bincount contract of Spec/Backend.v (bk_sparse) *)
Theorem chk_sparse_iff xs u c :
  chk_sparse xs u c = true <->
  NoDup u /\ (forall v, In v u <-> In v xs) /\ c = map (count_occ Nat.eq_dec xs) u.
Proof.
  unfold chk_sparse. rewrite !andb_true_iff, !Nat.eqb_eq, nodup_length_NoDup.
  rewrite (forallb_forall _ xs), (forallb_forall _ (combine u c)).
  split.
  - intros [[[Hlen Hxs] Hcomb] Hnd].
    assert (Hc : forall p, In p (combine u c) -> 0 < snd p /\ snd p = count_occ Nat.eq_dec xs (fst p)).
    { intros p Hp. specialize (Hcomb p Hp). apply andb_true_iff in Hcomb.
      rewrite Nat.ltb_lt, Nat.eqb_eq in Hcomb. exact Hcomb. }
    apply (combine_count_spec xs u c Hlen) in Hc. destruct Hc as [Hc Hin].
    split; [exact Hnd|]. split; [|exact Hc].
    intros v. split; [apply Hin|]. intros Hv. apply existsb_eqb_In, Hxs, Hv.
  - intros (Hnd & Hin & Hc).
    assert (Hlen : length u = length c) by (rewrite Hc, map_length; reflexivity).
    split; [split; [split|]|]; try assumption.
    + intros v Hv. apply existsb_eqb_In, Hin, Hv.
    + intros p Hp. apply andb_true_iff. rewrite Nat.ltb_lt, Nat.eqb_eq. revert p Hp.
      apply (combine_count_spec xs u c Hlen). split; [exact Hc|]. intros v; apply Hin.
Qed.

Theorem chk_sparse_sound xs u c :
  chk_sparse xs u c = true ->
  NoDup u /\ (forall v, In v u <-> In v xs) /\ c = map (count_occ Nat.eq_dec xs) u.
Proof. apply chk_sparse_iff. Qed.

(* equal length + equal multiplicities of the elements of a: a permutation *)
Lemma count_occ_Permutation_on (a : list nat) : forall b,
  length a = length b ->
  (forall v, In v a -> count_occ Nat.eq_dec a v = count_occ Nat.eq_dec b v) ->
  Permutation a b.
Proof.
  induction a as [|x a IH]; intros b Hlen Hc.
  - destruct b; [constructor | discriminate].
  - assert (Hx : In x b).
    { apply (count_occ_In Nat.eq_dec). rewrite <- Hc by (left; reflexivity).
      simpl. destruct (Nat.eq_dec x x); [lia | congruence]. }
    apply in_split in Hx. destruct Hx as (b1 & b2 & ->).
    apply Permutation_cons_app. apply IH.
    + rewrite app_length in *. simpl in Hlen. lia.
    + intros v Hv. specialize (Hc v (or_intror Hv)).
      rewrite count_occ_app in *. simpl in Hc.
      destruct (Nat.eq_dec x v); lia.
Qed.

Theorem same_multiset_iff a b : same_multiset a b = true <-> Permutation a b.
Proof.
  unfold same_multiset. rewrite andb_true_iff, Nat.eqb_eq, forallb_forall. split.
  - intros [Hl Hc]. apply count_occ_Permutation_on; [exact Hl|].
    intros v Hv. apply Nat.eqb_eq, Hc, Hv.
  - intros HP. split; [apply Permutation_length, HP|].
    intros v _. apply Nat.eqb_eq. apply (Permutation_count_occ Nat.eq_dec), HP.
Qed.

Theorem same_multiset_sound a b : same_multiset a b = true -> Permutation a b.
Proof. apply same_multiset_iff. Qed.

Lemma forallb_combine_Forall2 {X Y} (P : X * Y -> bool) (R : X -> Y -> Prop) :
  (forall x y, P (x, y) = true <-> R x y) ->
  forall l l', length l = length l' -> (forallb P (combine l l') = true <-> Forall2 R l l').
Proof.
  intros HPR. induction l as [|x l IH]; intros l' Hlen; destruct l' as [|y l']; simpl in Hlen; try discriminate.
  - simpl. split; [constructor | reflexivity].
  - simpl. rewrite andb_true_iff, HPR, IH by lia. split.
    + intros [H1 H2]. constructor; assumption.
    + intros H. inversion H; subst. tauto.
Qed.

Lemma list_eqb_nat_eq (a b : list nat) : list_eqb Nat.eqb a b = true <-> a = b.
Proof.
  revert b. induction a as [|x a IH]; intros b; destruct b as [|y b]; simpl;
    try (split; [discriminate | discriminate]); [tauto|].
  rewrite andb_true_iff, Nat.eqb_eq, IH. split; [intros [-> ->]; reflexivity | intros E; injection E; auto].
Qed.

(* per-segment permutation of two segmented arrays *)
Theorem icf_perm_iff c d :
  icf_perm c d = true <->
  ic_sources c = ic_sources d /\ target (ic_values c) = target (ic_values d) /\
  Forall2 (@Permutation nat) (decode_f c) (decode_f d).
Proof.
  unfold icf_perm, ff_eqb. rewrite !andb_true_iff, !Nat.eqb_eq, list_eqb_nat_eq. split.
  - intros [[[[Ht Hg] Hv] Hl] Hs]. split; [|split; [exact Hv|]].
    + destruct (ic_sources c), (ic_sources d); simpl in *; congruence.
    + revert Hs. apply forallb_combine_Forall2; [|exact Hl].
      intros x y. apply same_multiset_iff.
  - intros (Hs & Hv & HF). pose proof (Forall2_len _ _ _ HF) as Hl. rewrite Hs.
    split; [split; [split; [split; reflexivity | exact Hv] | exact Hl]|].
    revert HF. apply forallb_combine_Forall2; [|exact Hl].
    intros x y. apply same_multiset_iff.
Qed.

(* ------------------------------------------------------------------------------------------ *)
(** * 4. the isomorphism search is sound                                                       *)
(* ------------------------------------------------------------------------------------------ *)

(* the two local search loops of match_rest / match_edges as top-level functions *)
Definition pick_any {X} (test : nat -> X -> bool) : nat -> list X -> bool :=
  fix go (k : nat) (av : list X) : bool :=
    match av with
    | [] => false
    | a :: av' => test k a || go (S k) av'
    end.

Definition pick_first {X} (test : X -> bool) (cont : nat -> bool) : nat -> list X -> bool :=
  fix go (k : nat) (av : list X) : bool :=
    match av with
    | [] => false
    | a :: av' => if test a then cont k else go (S k) av'
    end.

Lemma pick_any_true {X} (test : nat -> X -> bool) av : forall k,
  pick_any test k av = true ->
  exists av1 a av2, av = av1 ++ a :: av2 /\ test (k + length av1) a = true.
Proof.
  induction av as [|a av IH]; intros k H; simpl in H; [discriminate|].
  apply orb_true_iff in H. destruct H as [H | H].
  - exists [], a, av. split; [reflexivity|]. simpl. rewrite Nat.add_0_r. exact H.
  - destruct (IH _ H) as (av1 & b & av2 & -> & Hb).
    exists (a :: av1), b, av2. split; [reflexivity|]. simpl.
    replace (k + S (length av1)) with (S k + length av1) by lia. exact Hb.
Qed.

Lemma pick_first_true {X} (test : X -> bool) cont av : forall k,
  pick_first test cont k av = true ->
  exists av1 a av2, av = av1 ++ a :: av2 /\ test a = true /\ cont (k + length av1) = true.
Proof.
  induction av as [|a av IH]; intros k H; simpl in H; [discriminate|].
  destruct (test a) eqn:T.
  - exists [], a, av. split; [reflexivity|]. simpl. rewrite Nat.add_0_r. split; assumption.
  - destruct (IH _ H) as (av1 & b & av2 & -> & Hb & Hc).
    exists (a :: av1), b, av2. split; [reflexivity|]. simpl.
    replace (k + S (length av1)) with (S k + length av1) by lia. split; assumption.
Qed.

Lemma remove_nth_app {X} (l1 : list X) a l2 : remove_nth (length l1) (l1 ++ a :: l2) = l1 ++ l2.
Proof. induction l1 as [|x l1 IH]; simpl; [reflexivity | rewrite IH; reflexivity]. Qed.

Lemma Forall2_comp {X Y Z} (R : X -> Y -> Prop) (S : Y -> Z -> Prop) l1 : forall l2 l3,
  Forall2 R l1 l2 -> Forall2 S l2 l3 -> Forall2 (fun x z => exists y, R x y /\ S y z) l1 l3.
Proof.
  induction l1 as [|x l1 IH]; intros l2 l3 H1 H2; inversion H1; subst; inversion H2; subst; constructor.
  - eexists; split; eassumption.
  - eapply IH; eassumption.
Qed.

Lemma Forall2_In_combine {X Y} (R : X -> Y -> Prop) l l' x y :
  Forall2 R l l' -> In (x, y) (combine l l') -> R x y.
Proof.
  induction 1 as [|x0 y0 l l' H0 _ IH]; simpl; [contradiction|].
  intros [E | H]; [injection E as <- <-; exact H0 | apply IH, H].
Qed.

Lemma Forall2_In_l {X Y} (R : X -> Y -> Prop) l l' x :
  Forall2 R l l' -> In x l -> exists y, In (x, y) (combine l l').
Proof.
  induction 1 as [|x0 y0 l l' H0 _ IH]; simpl; [contradiction|].
  intros [<- | H]; [exists y0; left; reflexivity|].
  destruct (IH H) as (y & Hy). exists y. right; exact Hy.
Qed.

Lemma map_fst_combine {X Y} (l : list X) : forall (l' : list Y),
  length l = length l' -> map fst (combine l l') = l.
Proof.
  induction l as [|x l IH]; intros l' H; destruct l' as [|y l']; simpl in *; try discriminate; [reflexivity|].
  rewrite IH by lia. reflexivity.
Qed.

Lemma map_snd_combine {X Y} (l : list X) : forall (l' : list Y),
  length l = length l' -> map snd (combine l l') = l'.
Proof.
  induction l as [|x l IH]; intros l' H; destruct l' as [|y l']; simpl in *; try discriminate; [reflexivity|].
  rewrite IH by lia. reflexivity.
Qed.

Lemma NoDup_app_intro {X} (l1 l2 : list X) :
  NoDup l1 -> NoDup l2 -> (forall x, In x l1 -> ~ In x l2) -> NoDup (l1 ++ l2).
Proof.
  induction l1 as [|x l1 IH]; intros H1 H2 Hd; simpl; [exact H2|].
  inversion H1 as [|y l Hni Hnd]; subst. constructor.
  - rewrite in_app_iff. intros [H | H]; [exact (Hni H) | exact (Hd x (or_introl eq_refl) H)].
  - apply IH; [exact Hnd | exact H2 | intros y Hy; apply Hd; right; exact Hy].
Qed.

Lemma pm_get_In_fst m i j : pm_get m i = Some j -> In i (map fst m).
Proof. intros H. apply pm_get_In in H. apply in_map_iff. exists (i, j). split; [reflexivity | exact H]. Qed.

Section IsoSound.
  Variables O A : Type.
  Variable eqO : O -> O -> bool.
  Variable eqA : A -> A -> bool.
  Hypothesis eqO_spec : forall x y, eqO x y = true <-> x = y.
  Hypothesis eqA_spec : forall x y, eqA x y = true <-> x = y.

  (* ---- the greedy matching of the leftover node labels ---- *)
  Lemma match_rest_cons l r avail :
    match_rest O eqO (l :: r) avail =
    pick_first (eqO l) (fun k => match_rest O eqO r (remove_nth k avail)) 0 avail.
  Proof. reflexivity. Qed.

  Lemma match_rest_sound ls : forall avail,
    match_rest O eqO ls avail = true ->
    exists avail', Permutation avail avail' /\ Forall2 (fun a b => a = b) ls avail'.
  Proof.
    induction ls as [|l r IH]; intros avail H.
    - destruct avail; [|discriminate]. exists []. split; constructor.
    - rewrite match_rest_cons in H. apply pick_first_true in H.
      destruct H as (av1 & a & av2 & -> & Ha & Hc). simpl in Hc.
      rewrite remove_nth_app in Hc. destruct (IH _ Hc) as (av' & HP & HF).
      exists (a :: av'). split.
      + symmetry. apply Permutation_cons_app. symmetry. exact HP.
      + constructor; [apply eqO_spec, Ha | exact HF].
  Qed.

  Variables g g' : pohg O A.

  (* ---- the edge search ---- *)
  Definition edge_test (e : pedge A) (avail : list (pedge A)) (es' : list (pedge A)) (m : pmap)
             (k : nat) (e' : pedge A) : bool :=
    if eqA (pe_lbl e) (pe_lbl e') then
      match pm_ext_list m (pe_src e) (pe_src e') with
      | Some m1 =>
          match pm_ext_list m1 (pe_tgt e) (pe_tgt e') with
          | Some m2 => match_edges O A eqO eqA g g' es' (remove_nth k avail) m2
          | None => false
          end
      | None => false
      end
    else false.

  Lemma match_edges_cons e es' avail m :
    match_edges O A eqO eqA g g' (e :: es') avail m = pick_any (edge_test e avail es' m) 0 avail.
  Proof. reflexivity. Qed.

  (* the final test does not look at the list of available edges *)
  Definition final_chk (m : pmap) : bool := match_edges O A eqO eqA g g' [] [] m.

  Lemma match_edges_nil avail m : match_edges O A eqO eqA g g' [] avail m = final_chk m.
  Proof. reflexivity. Qed.

  (* e' is the image of e under (any total extension of) m *)
  Definition edge_rel (m : pmap) (e e' : pedge A) : Prop :=
    pe_lbl e = pe_lbl e' /\ maps_to m (pe_src e) (pe_src e') /\ maps_to m (pe_tgt e) (pe_tgt e').

  Lemma edge_rel_le m m' e e' : pm_le m m' -> edge_rel m e e' -> edge_rel m' e e'.
  Proof.
    intros Hle (H1 & H2 & H3). split; [exact H1|]. split; eapply maps_to_le; eassumption.
  Qed.

  Lemma match_edges_sound es : forall avail m,
    pm_inj m -> length es = length avail ->
    match_edges O A eqO eqA g g' es avail m = true ->
    exists mf avail', pm_inj mf /\ pm_le m mf /\ Permutation avail avail' /\
                      Forall2 (edge_rel mf) es avail' /\ final_chk mf = true.
  Proof.
    induction es as [|e es' IH]; intros avail m Hinj Hlen H.
    - destruct avail; [|discriminate]. rewrite match_edges_nil in H.
      exists m, []. split; [exact Hinj|]. split; [apply pm_le_refl|].
      split; [constructor|]. split; [constructor | exact H].
    - rewrite match_edges_cons in H. apply pick_any_true in H.
      destruct H as (av1 & e' & av2 & -> & Ht). simpl in Ht. unfold edge_test in Ht.
      destruct (eqA (pe_lbl e) (pe_lbl e')) eqn:El; [|discriminate].
      destruct (pm_ext_list m (pe_src e) (pe_src e')) as [m1|] eqn:E1; [|discriminate].
      destruct (pm_ext_list m1 (pe_tgt e) (pe_tgt e')) as [m2|] eqn:E2; [|discriminate].
      rewrite remove_nth_app in Ht.
      destruct (pm_ext_list_Forall2 _ _ _ _ Hinj E1) as (Hinj1 & Hle1 & Hmap1 & _).
      destruct (pm_ext_list_Forall2 _ _ _ _ Hinj1 E2) as (Hinj2 & Hle2 & Hmap2 & _).
      destruct (IH (av1 ++ av2) m2 Hinj2) as (mf & av' & Hinjf & Hlef & HP & HF & Hfin).
      { rewrite app_length in *. simpl in Hlen. lia. }
      { exact Ht. }
      exists mf, (e' :: av'). split; [exact Hinjf|]. split; [|split; [|split; [|exact Hfin]]].
      + eapply pm_le_trans; [exact Hle1|]. eapply pm_le_trans; [exact Hle2 | exact Hlef].
      + symmetry. apply Permutation_cons_app. symmetry. exact HP.
      + constructor; [|exact HF]. split; [apply eqA_spec, El|]. split.
        * eapply maps_to_le; [|exact Hmap1]. eapply pm_le_trans; [exact Hle2 | exact Hlef].
        * eapply maps_to_le; [exact Hlef | exact Hmap2].
  Qed.

  (* ---- the final test: node labels agree on m, and m extends to a label-preserving bijection ---- *)
  Definition lab_ok (i j : nat) : Prop :=
    exists a, nth_error (p_nodes g) i = Some a /\ nth_error (p_nodes g') j = Some a.

  Lemma labels_ok_spec m : labels_ok O A eqO g g' m = true <-> forall i j, In (i, j) m -> lab_ok i j.
  Proof.
    unfold labels_ok. rewrite forallb_forall. split.
    - intros H i j Hij. specialize (H _ Hij). simpl in H. unfold lab_ok.
      destruct (nth_error (p_nodes g) i) as [a|]; [|discriminate].
      destruct (nth_error (p_nodes g') j) as [b|]; [|discriminate].
      apply eqO_spec in H. subst b. exists a. split; reflexivity.
    - intros H [i j] Hij. simpl. destruct (H i j Hij) as (a & -> & ->). apply eqO_spec. reflexivity.
  Qed.

  Lemma flat_map_labels (nodes : list O) l :
    (forall i, In i l -> i < length nodes) ->
    Forall2 (fun i a => nth_error nodes i = Some a) l
            (flat_map (fun i => match nth_error nodes i with Some a => [a] | None => [] end) l).
  Proof.
    induction l as [|i l IH]; intros H; simpl; [constructor|].
    destruct (nth_error nodes i) as [a|] eqn:E.
    - simpl. constructor; [exact E|]. apply IH. intros j Hj. apply H. right; exact Hj.
    - apply nth_error_None in E. specialize (H i (or_introl eq_refl)). lia.
  Qed.

  (* the total node map obtained from a successful final test *)
  Lemma final_chk_sound m :
    length (p_nodes g) = length (p_nodes g') -> pm_inj m -> final_chk m = true ->
    exists M, pm_inj M /\ pm_le m M /\
              (forall i j, pm_get M i = Some j -> lab_ok i j) /\
              (forall i, i < length (p_nodes g) -> exists j, pm_get M i = Some j).
  Proof.
    intros Hn Hinj H. unfold final_chk in H. cbn [match_edges] in H.
    apply andb_true_iff in H. destruct H as [Hlab Hrest].
    set (unm := filter (fun i => match pm_get m i with None => true | Some _ => false end)
                       (seq 0 (length (p_nodes g)))) in *.
    set (unm' := filter (fun j => negb (pm_used m j)) (seq 0 (length (p_nodes g')))) in *.
    apply match_rest_sound in Hrest. destruct Hrest as (ls'' & HP & HF).
    assert (H1 : Forall2 (fun i a => nth_error (p_nodes g) i = Some a) unm
                   (flat_map (fun i => match nth_error (p_nodes g) i with Some a => [a] | None => [] end) unm)).
    { apply flat_map_labels. intros i Hi. apply filter_In in Hi. destruct Hi as [Hi _].
      apply in_seq in Hi. lia. }
    assert (H2 : Forall2 (fun j a => nth_error (p_nodes g') j = Some a) unm'
                   (flat_map (fun j => match nth_error (p_nodes g') j with Some a => [a] | None => [] end) unm')).
    { apply flat_map_labels. intros i Hi. apply filter_In in Hi. destruct Hi as [Hi _].
      apply in_seq in Hi. lia. }
    apply Forall2_flip in H2.
    destruct (Permutation_Forall2 HP H2) as (unm'' & HP' & H2').
    pose proof (Forall2_comp _ _ _ _ _ (Forall2_comp _ _ _ _ _ H1 HF) H2') as H3.
    assert (Hrel : Forall2 lab_ok unm unm'').
    { revert H3. apply Forall2_impl. intros i j (b & (a & Ha & ->) & Hb). exists b. split; assumption. }
    clear H1 H2 H2' H3 HF HP.
    pose proof (Forall2_len _ _ _ Hrel) as Hlen.
    exists (m ++ combine unm unm'').
    assert (Hunm : forall i, In i unm <-> i < length (p_nodes g) /\ pm_get m i = None).
    { intros i. unfold unm. rewrite filter_In, in_seq.
      destruct (pm_get m i); split; intros [Ha Hb]; split; try lia; congruence. }
    assert (Hunm' : forall j, In j unm'' -> pm_used m j = false).
    { intros j Hj. apply (Permutation_in _ (Permutation_sym HP')) in Hj.
      unfold unm' in Hj. apply filter_In in Hj. destruct Hj as [_ Hj].
      apply negb_true_iff in Hj. exact Hj. }
    assert (HinjM : pm_inj (m ++ combine unm unm'')).
    { destruct Hinj as [Hf Hs]. split; rewrite map_app.
      - rewrite map_fst_combine by exact Hlen. apply NoDup_app_intro.
        + exact Hf.
        + unfold unm. apply NoDup_filter, seq_NoDup.
        + intros i Hi Hi'. apply Hunm in Hi'. destruct Hi' as [_ Hi'].
          apply pm_get_None in Hi'. exact (Hi' Hi).
      - rewrite map_snd_combine by exact Hlen. apply NoDup_app_intro.
        + exact Hs.
        + eapply Permutation_NoDup; [exact HP'|]. unfold unm'. apply NoDup_filter, seq_NoDup.
        + intros j Hj Hj'. apply Hunm' in Hj'. apply pm_used_iff in Hj. congruence. }
    split; [exact HinjM|]. split; [|split].
    - intros a b Hab. apply (pm_get_iff _ _ _ HinjM). apply in_or_app. left. apply pm_get_In, Hab.
    - intros i j Hij. apply pm_get_In in Hij. apply in_app_or in Hij. destruct Hij as [Hij | Hij].
      + revert i j Hij. apply labels_ok_spec, Hlab.
      + eapply Forall2_In_combine; eassumption.
    - intros i Hi. destruct (pm_get m i) as [j|] eqn:G.
      + exists j. apply (pm_get_iff _ _ _ HinjM). apply in_or_app. left. apply pm_get_In, G.
      + assert (Hiu : In i unm) by (apply Hunm; split; assumption).
        destruct (Forall2_In_l _ _ _ _ Hrel Hiu) as (j & Hj).
        exists j. apply (pm_get_iff _ _ _ HinjM). apply in_or_app. right. exact Hj.
  Qed.

  (* ---- putting everything together ---- *)
  Definition pn_of (M : pmap) (i : nat) : nat := match pm_get M i with Some j => j | None => i end.

  Lemma maps_to_pn M l l' : maps_to M l l' -> l' = map (pn_of M) l.
  Proof.
    intros H. apply Forall2_map_eq. revert H. apply Forall2_impl.
    intros i j Hij. unfold pn_of. rewrite Hij. reflexivity.
  Qed.

  Lemma edge_rel_pn M e e' : edge_rel M e e' -> map_edge (pn_of M) e = e'.
  Proof.
    intros (H1 & H2 & H3). destruct e as [x s t], e' as [x' s' t']. unfold map_edge. simpl in *.
    rewrite <- (maps_to_pn _ _ _ H2), <- (maps_to_pn _ _ _ H3), H1. reflexivity.
  Qed.

  Theorem iso_check_sound_gen : iso_check O A eqO eqA g g' = true -> Iso g g'.
  Proof.
    unfold iso_check. intros H.
    apply andb_true_iff in H. destruct H as [H Hm].
    apply andb_true_iff in H. destruct H as [Hn He].
    apply Nat.eqb_eq in Hn, He.
    destruct (pm_ext_list [] (p_ins g) (p_ins g')) as [m0|] eqn:E0; [|discriminate].
    destruct (pm_ext_list m0 (p_outs g) (p_outs g')) as [m1|] eqn:E1; [|discriminate].
    destruct (pm_ext_list_Forall2 _ _ _ _ pm_inj_nil E0) as (Hinj0 & _ & Hmap0 & _).
    destruct (pm_ext_list_Forall2 _ _ _ _ Hinj0 E1) as (Hinj1 & Hle1 & Hmap1 & _).
    destruct (match_edges_sound _ _ _ Hinj1 He Hm) as (mf & av' & Hinjf & Hlef & HP & HF & Hfin).
    destruct (final_chk_sound _ Hn Hinjf Hfin) as (M & HinjM & HleM & Hlab & Htot).
    assert (Hle0M : pm_le m0 M).
    { eapply pm_le_trans; [exact Hle1|]. eapply pm_le_trans; [exact Hlef | exact HleM]. }
    assert (Hle1M : pm_le m1 M) by (eapply pm_le_trans; [exact Hlef | exact HleM]).
    assert (Hav : av' = map (map_edge (pn_of M)) (p_edges g)).
    { apply Forall2_map_eq. revert HF. apply Forall2_impl. intros e e' Hee.
      apply edge_rel_pn. apply edge_rel_le with mf; assumption. }
    apply Permutation_nth_error_bis in HP. destruct HP as (pe & Hpinj & Hpb & Hpe).
    split; [exact Hn|]. split; [exact He|].
    exists (pn_of M), pe.
    assert (Hpn : forall i, i < length (p_nodes g) -> pm_get M i = Some (pn_of M i)).
    { intros i Hi. destruct (Htot i Hi) as (j & Hj). unfold pn_of. rewrite Hj. reflexivity. }
    split; [|split; [|split; [|split; [|split]]]].
    - split.
      + intros i Hi. destruct (Hlab _ _ (Hpn i Hi)) as (a & _ & Ha).
        rewrite Hn. apply nth_error_Some. congruence.
      + intros i j Hi Hj Eq. apply (pm_inj_inj M i j (pn_of M i) HinjM).
        * apply Hpn, Hi.
        * rewrite Eq. apply Hpn, Hj.
    - split.
      + intros k Hk. rewrite He. apply Hpb. lia.
      + intros i j _ _ Eq. apply Hpinj, Eq.
    - intros i Hi. destruct (Hlab _ _ (Hpn i Hi)) as (a & Ha & Ha'). congruence.
    - intros k _. rewrite <- Hpe, Hav. apply nth_error_map.
    - apply maps_to_pn. apply maps_to_le with m0; assumption.
    - apply maps_to_pn. apply maps_to_le with m1; assumption.
  Qed.

  (* as stated in the task (the range hypotheses are not needed: labels_ok forces every matched
     reference into range) *)
  Theorem iso_check_sound : pwf g -> pwf g' -> iso_check O A eqO eqA g g' = true -> Iso g g'.
  Proof. intros _ _. apply iso_check_sound_gen. Qed.
End IsoSound.

Corollary iso_nat_sound g g' : iso_nat g g' = true -> Iso g g'.
Proof. apply iso_check_sound_gen; intros x y; apply Nat.eqb_eq. Qed.

(* ---- the relations spec_case actually applies to decoded values ---- *)
Lemma plain_of_strict f g : plain_of (VS f) = Some g <-> wf_ohg f /\ g = abs f.
Proof.
  simpl. destruct (chk_wf_ohg f) eqn:E.
  - apply chk_wf_ohg_iff in E. split; [intros H; injection H as <-; split; [exact E | reflexivity]|].
    intros [_ ->]. reflexivity.
  - split; [discriminate|]. intros [H _]. apply chk_wf_ohg_iff in H. congruence.
Qed.

Lemma plain_of_lax_strict f g :
  pending_free f = true -> (plain_of (VL f) = Some g <-> lohg_refs_ok f /\ g = labs f).
Proof.
  intros Hp. simpl. rewrite Hp. destruct (chk_wf_lohg f) eqn:E; simpl.
  - apply chk_wf_lohg_spec in E. split; [intros H; injection H as <-; split; [exact E | reflexivity]|].
    intros [_ ->]. reflexivity.
  - split; [discriminate|]. intros [H _]. apply chk_wf_lohg_spec in H. congruence.
Qed.

Theorem val_iso_sound a b :
  val_iso a b = true -> exists g g', plain_of a = Some g /\ plain_of b = Some g' /\ Iso g g'.
Proof.
  unfold val_iso. destruct (plain_of a) as [g|]; [|discriminate].
  destruct (plain_of b) as [g'|]; [|discriminate]. intros H.
  exists g, g'. split; [reflexivity|]. split; [reflexivity|]. apply iso_nat_sound, H.
Qed.

Corollary val_iso_strict_sound f f' :
  val_iso (VS f) (VS f') = true -> wf_ohg f /\ wf_ohg f' /\ Iso (abs f) (abs f').
Proof.
  intros H. apply val_iso_sound in H. destruct H as (g & g' & H1 & H2 & HI).
  apply plain_of_strict in H1, H2. destruct H1 as [W1 ->], H2 as [W2 ->]. auto.
Qed.

Theorem q_rel_iff a b :
  q_rel a b = true <->
  fst a = fst b /\ target (snd a) = target (snd b) /\ same_kernel (table (snd a)) (table (snd b)) /\
  all_lt (target (snd a)) (table (snd a)) /\ (forall j, j < target (snd a) -> In j (table (snd a))).
Proof.
  unfold q_rel. rewrite !andb_true_iff, eqb_true_iff, Nat.eqb_eq, same_partition_iff, dense_spec. tauto.
Qed.

(* ------------------------------------------------------------------------------------------ *)
(** * 5. examples                                                                              *)
(* ------------------------------------------------------------------------------------------ *)

(* a diagram with a repeated hyperedge label, a shared node, and two isolated nodes with equal labels;
   its copy under the node renumbering 0->3 1->0 2->5 3->1 4->2 5->4 with the hyperedges listed
   in the order 2,0,1 *)
Definition ex_g : pohg nat nat :=
  mkP [10; 20; 30; 10; 50; 50]
      [mkPE 1 [0; 1] [2]; mkPE 2 [2] [3]; mkPE 1 [3; 1] [2]]
      [0; 1] [3].
Definition ex_g' : pohg nat nat :=
  mkP [20; 10; 50; 10; 50; 30]
      [mkPE 1 [1; 0] [5]; mkPE 1 [3; 0] [5]; mkPE 2 [5] [1]]
      [3; 0] [1].
(* the second hyperedge ends in the wrong copy of the label-10 node *)
Definition ex_bad : pohg nat nat :=
  mkP [20; 10; 50; 10; 50; 30]
      [mkPE 1 [1; 0] [5]; mkPE 1 [3; 0] [5]; mkPE 2 [5] [3]]
      [3; 0] [1].
(* one isolated node carries another label *)
Definition ex_bad2 : pohg nat nat :=
  mkP [20; 10; 51; 10; 50; 30]
      [mkPE 1 [1; 0] [5]; mkPE 1 [3; 0] [5]; mkPE 2 [5] [1]]
      [3; 0] [1].

Example iso_accepts : iso_nat ex_g ex_g' = true.
Proof. vm_compute. reflexivity. Qed.
Example iso_accepts_sym : iso_nat ex_g' ex_g = true.
Proof. vm_compute. reflexivity. Qed.
Example iso_rejects : iso_nat ex_g ex_bad = false.
Proof. vm_compute. reflexivity. Qed.
Example iso_rejects2 : iso_nat ex_g ex_bad2 = false.
Proof. vm_compute. reflexivity. Qed.

Example ex_pwf : pwf ex_g /\ pwf ex_g'.
Proof.
  split; (split; [|split]); try (repeat constructor; fail).
  all: intros e He; simpl in He; repeat (destruct He as [<- | He]; [split; repeat constructor|]); contradiction.
Qed.

(* the theorem applied: the accepted pair IS isomorphic *)
Example ex_iso : Iso ex_g ex_g'.
Proof.
  apply (iso_check_sound nat nat Nat.eqb Nat.eqb).
  - intros x y; apply Nat.eqb_eq.
  - intros x y; apply Nat.eqb_eq.
  - apply ex_pwf.
  - apply ex_pwf.
  - exact iso_accepts.
Qed.

Example ex_ff : chk_ff (mkFF [2; 0; 1; 2] 3) = true /\ chk_ff (mkFF [2; 3] 3) = false.
Proof. split; reflexivity. Qed.

Example ex_icf : chk_icf (mkIC (mkFF [2; 0; 1] 4) (mkFF [0; 1; 1] 2)) = true.
Proof. reflexivity. Qed.

Definition ex_ohg : ohg nat nat :=
  mkOHG (mkFF [0; 1] 3) (mkFF [2] 3)
        (mkHG (mkIC (mkFF [2; 1] 4) (mkFF [0; 1; 2] 3)) (mkIC (mkFF [1; 1] 3) (mkFF [2; 0] 3))
              [7; 8; 9] [1; 2]).
Example ex_wf_ohg : chk_wf_ohg ex_ohg = true /\ wf_ohg ex_ohg.
Proof. split; [reflexivity | apply chk_wf_ohg_iff; reflexivity]. Qed.

Definition ex_lohg : lohg nat nat :=
  mkLOHG [0; 1] [2] (mkLHG [7; 8; 9] [1; 2] [([0; 1], [2]); ([2], [0])] ([0; 1], [2; 2])).
Example ex_wf_lohg : chk_wf_lohg ex_lohg = true /\ lohg_refs_ok ex_lohg.
Proof. split; [reflexivity | apply chk_wf_lohg_spec; reflexivity]. Qed.
Example ex_wf_lohg_bad :
  chk_wf_lohg (mkLOHG [0; 3] [2] (mkLHG [7; 8; 9] [1] [([0], [2])] ([], []))) = false.
Proof. reflexivity. Qed.

Example ex_pm_ext_list :
  pm_ext_list [] [4; 7; 4; 1] [0; 2; 0; 5] = Some [(1, 5); (7, 2); (4, 0)] /\
  pm_ext_list [] [4; 7; 4] [0; 2; 1] = None /\ pm_ext_list [] [4; 7] [0; 0] = None.
Proof. repeat split. Qed.

Example ex_same_partition :
  same_partition [0; 1; 0; 2] [5; 3; 5; 0] = true /\ same_kernel [0; 1; 0; 2] [5; 3; 5; 0] /\
  same_partition [0; 1; 0; 2] [5; 3; 5; 3] = false.
Proof. split; [reflexivity | split; [apply same_partition_sound; reflexivity | reflexivity]]. Qed.

Example ex_dense : dense [2; 0; 1; 0] 3 = true /\ dense [2; 0; 0] 3 = false.
Proof. split; reflexivity. Qed.

Example ex_argsort :
  chk_argsort [30; 10; 20; 10] [3; 1; 2; 0] = true /\ chk_argsort [30; 10; 20; 10] [1; 3; 2; 0] = true /\
  chk_argsort [30; 10; 20; 10] [1; 2; 3; 0] = false /\ chk_argsort [30; 10; 20; 10] [1; 1; 2; 0] = false.
Proof. repeat split. Qed.

Example ex_sparse :
  chk_sparse [5; 3; 5; 9] [9; 5; 3] [1; 2; 1] = true /\ chk_sparse [5; 3; 5; 9] [9; 5; 3] [1; 1; 1] = false /\
  chk_sparse [5; 3; 5; 9] [9; 5; 3; 5] [1; 2; 1; 2] = false /\ chk_sparse [5; 3; 5; 9] [9; 5; 3; 4] [1; 2; 1; 0] = false.
Proof. repeat split. Qed.

Example ex_same_multiset :
  same_multiset [1; 2; 2; 3] [2; 3; 1; 2] = true /\ same_multiset [1; 2; 2; 3] [2; 3; 1; 1] = false.
Proof. split; reflexivity. Qed.

Example ex_icf_perm :
  icf_perm (mkIC (mkFF [2; 1] 4) (mkFF [0; 1; 2] 3)) (mkIC (mkFF [2; 1] 4) (mkFF [1; 0; 2] 3)) = true /\
  icf_perm (mkIC (mkFF [2; 1] 4) (mkFF [0; 1; 2] 3)) (mkIC (mkFF [2; 1] 4) (mkFF [0; 2; 1] 3)) = false.
Proof. split; reflexivity. Qed.

(* ---- closed under the global context ---- *)
Print Assumptions chk_ff_iff.
Print Assumptions chk_icf_iff.
Print Assumptions chk_wf_ohg_iff.
Print Assumptions chk_wf_lohg_spec.
Print Assumptions chk_wf_lohg_lwf.
Print Assumptions pm_ext_spec.
Print Assumptions pm_ext_list_spec.
Print Assumptions pm_ext_list_complete.
Print Assumptions same_partition_iff.
Print Assumptions dense_spec.
Print Assumptions chk_argsort_iff.
Print Assumptions chk_sparse_iff.
Print Assumptions same_multiset_iff.
Print Assumptions icf_perm_iff.
Print Assumptions iso_check_sound_gen.
Print Assumptions iso_check_sound.
Print Assumptions iso_nat_sound.
Print Assumptions val_iso_sound.
Print Assumptions val_iso_strict_sound.
Print Assumptions q_rel_iff.
Print Assumptions ex_iso.
