(* Evaluation is a (partial) functor.

   Setting: an interpreter [interp : A -> list T -> list T] with a batch [apply] satisfying
   [apply_spec] (C16Thm), a back-end [B] with [BackendOK B], a default value [d].
     sem f inp out := eval B d apply f inp = Ok (Some out)                      (EvalPlain.v)
     evaluable f   := wf_ohg f /\ acyclic_ops f /\ single_writer f /\ arity_ok interp f
   [evaluable] is the class on which C16 shows that [eval] computes the unique valuation; every
   well-formed monogamous acyclic diagram with [arity_ok] is evaluable ([monogamous_evaluable]).
   No "totality on the interface" is needed: a node nobody writes holds the default value, in the
   parts and in the composite alike.

   E0  a generator computes its interpretation           E0_singleton
   E1  discrete diagrams (identity, twist, spiders with an injective source leg): the outputs are the
       inputs read through the legs                      E1_discrete, E1_identity, E1_twist, E1_spider
   E2  tensor                                            E2_tensor
   E3  sequential composition                            E3_gluing, E3_compose, E3_compose_defined
   E4  invariance under isomorphism                      E4_iso
   Each of E0-E3 also states that the result is again [evaluable] (closure).  The plain-level core:
   pval_ptensor / pevaluable_ptensor, pval_compose / outs_compose / pevaluable_compose (valuations of
   f and g glued along the boundary; no monogamy needed), mono_compose / p_mono_ptensor (monogamy is
   preserved).  Proofs/EvalMono.v restates everything for monogamous acyclic circuits. *)
From OHG Require Import Spec.Plain Spec.GraphSpec Proofs.PrimsThm Proofs.SegThm Proofs.C07aThm
  Proofs.C08Thm Proofs.BackendInst Proofs.CCThm Proofs.C01Lemmas Proofs.C01Thm Proofs.QuotThm
  Proofs.C03Plain Proofs.C03Thm Proofs.C02Thm Proofs.C04Thm
  Proofs.C16Lemmas Proofs.C16Thm Proofs.C16Iso Proofs.Assemble Proofs.EvalPlain.
From Coq Require Import List Arith Lia Bool Permutation.
Import ListNotations.

Set Implicit Arguments.

Arguments Nat.sub : simpl never.

(* ================================================================== *)
(** * 0. list facts *)
(* ================================================================== *)

Lemma In_combine_nth (l1 l2 : list nat) x y : length l1 = length l2 ->
  (In (x, y) (combine l1 l2) <-> exists k, k < length l1 /\ x = nth k l1 0 /\ y = nth k l2 0).
Proof.
  intros Hl. split.
  - intros H. apply In_nth with (d := (0, 0)) in H. destruct H as (k & Hk & E).
    rewrite combine_length, <- Hl, Nat.min_id in Hk. rewrite combine_nth in E by exact Hl.
    inversion E; subst. eauto.
  - intros (k & Hk & -> & ->). rewrite <- combine_nth by exact Hl. apply nth_In.
    rewrite combine_length, <- Hl, Nat.min_id. exact Hk.
Qed.

Lemma nth_shiftl n l i : i < length l -> nth i (shiftl n l) 0 = nth i l 0 + n.
Proof. intros H. unfold shiftl. rewrite (nth_map_0 (fun x => x + n)) by exact H. reflexivity. Qed.

Lemma In_shiftl n l v : In v (shiftl n l) <-> n <= v /\ In (v - n) l.
Proof.
  unfold shiftl. rewrite in_map_iff. split.
  - intros (x & <- & Hx). split. lia. replace (x + n - n) with x by lia. exact Hx.
  - intros (Hv & Hin). exists (v - n). split. lia. exact Hin.
Qed.

Lemma shiftl_length n l : length (shiftl n l) = length l.
Proof. apply map_length. Qed.

Lemma NoDup_shiftl n l : NoDup l -> NoDup (shiftl n l).
Proof.
  intros H. unfold shiftl. apply C16Iso.NoDup_map_inj_on. exact H. intros x y _ _ E. lia.
Qed.

Lemma bound_fn (lev : nat -> nat) : forall m, exists M, forall x, x < m -> lev x < M.
Proof.
  induction m as [|m (M & HM)]. exists 0. intros x Hx. lia.
  exists (S (M + lev m)). intros x Hx. destruct (Nat.eq_dec x m) as [->|Hne]. lia.
  assert (lev x < M) by (apply HM; lia). lia.
Qed.

Lemma nth_error_app_shift {X Y} (g : Y -> X) (l1 : list X) (l2 : list Y) x ex :
  nth_error (l1 ++ map g l2) x = Some ex ->
  (x < length l1 /\ nth_error l1 x = Some ex) \/
  (length l1 <= x /\ exists e2, nth_error l2 (x - length l1) = Some e2 /\ ex = g e2).
Proof.
  intros H. destruct (Nat.lt_ge_cases x (length l1)) as [Hx|Hx].
  - left. split. exact Hx. rewrite nth_error_app1 in H by exact Hx. exact H.
  - right. split. exact Hx. rewrite nth_error_app2 in H by exact Hx. rewrite nth_error_map in H.
    destruct (nth_error l2 (x - length l1)) as [e2|]; cbn [option_map] in H. 2: discriminate.
    inversion H. eauto.
Qed.

(* ================================================================== *)
(** * 1. plain level: disjoint sums (shared by tensor and composition) *)
(* ================================================================== *)

Section PlainSum.
  Variables O A T : Type.
  Variable d : T.
  Variable interp : A -> list T -> list T.
  Implicit Types F G D : pohg O A.

  Local Notation pval := (pval d interp).
  Local Notation pevaluable := (pevaluable interp).
  Local Notation p_arity := (p_arity interp).

  (* the memory of a disjoint sum *)
  Definition msum (n : nat) (a b : nat -> T) (v : nat) : T := if v <? n then a v else b (v - n).

  Lemma msum_l n a b v : v < n -> msum n a b v = a v.
  Proof. intros H. unfold msum. apply Nat.ltb_lt in H. rewrite H. reflexivity. Qed.

  Lemma msum_r n a b v : msum n a b (v + n) = b v.
  Proof.
    unfold msum. assert (E : v + n <? n = false) by (apply Nat.ltb_ge; lia). rewrite E.
    f_equal. lia.
  Qed.

  Lemma map_msum_l n a b l : all_lt n l -> map (msum n a b) l = map a l.
  Proof. intros H. apply map_ext_in. intros v Hv. apply msum_l. eapply all_lt_in; eauto. Qed.

  Lemma map_msum_r n a b l : map (msum n a b) (shiftl n l) = map b l.
  Proof. unfold shiftl. rewrite map_map. apply map_ext. intros v. apply msum_r. Qed.

  Lemma pwf_src F e : pwf F -> In e (p_edges F) -> all_lt (length (p_nodes F)) (pe_src e).
  Proof. intros (H & _) He. apply (H e He). Qed.

  Lemma pwf_tgt F e : pwf F -> In e (p_edges F) -> all_lt (length (p_nodes F)) (pe_tgt e).
  Proof. intros (H & _) He. apply (H e He). Qed.

  Lemma pwf_ins F : pwf F -> all_lt (length (p_nodes F)) (p_ins F).
  Proof. intros (_ & H & _). exact H. Qed.

  Lemma pwf_outs F : pwf F -> all_lt (length (p_nodes F)) (p_outs F).
  Proof. intros (_ & _ & H). exact H. Qed.

  Lemma p_tgts_lt F v : pwf F -> In v (p_tgts F) -> v < length (p_nodes F).
  Proof.
    intros W H. apply In_p_tgts in H. destruct H as (e & He & Hv).
    eapply all_lt_in. eapply pwf_tgt; eauto. exact Hv.
  Qed.

  (* diagrams whose hyperedges are those of F followed by the shifted ones of G *)
  Definition sum_edges F G : list (pedge A) :=
    p_edges F ++ map (shift_edge (length (p_nodes F))) (p_edges G).

  Lemma p_tgts_sum F G D : p_edges D = sum_edges F G ->
    p_tgts D = p_tgts F ++ shiftl (length (p_nodes F)) (p_tgts G).
  Proof.
    intros E. unfold p_tgts. rewrite E. unfold sum_edges. rewrite map_app, concat_app. f_equal.
    rewrite map_map. cbn [shift_edge pe_tgt]. unfold shiftl.
    rewrite <- concat_map_map. rewrite map_map. reflexivity.
  Qed.

  Lemma In_sum_edges F G e : In e (sum_edges F G) <->
    In e (p_edges F) \/ exists e2, In e2 (p_edges G) /\ e = shift_edge (length (p_nodes F)) e2.
  Proof.
    unfold sum_edges. rewrite in_app_iff, in_map_iff. split.
    - intros [H|(e2 & <- & H)]; eauto.
    - intros [H|(e2 & H & ->)]; eauto.
  Qed.

  Lemma arity_sum F G D : p_edges D = sum_edges F G -> p_arity F -> p_arity G -> p_arity D.
  Proof.
    intros E HF HG e vals He Hl. rewrite E in He. apply In_sum_edges in He.
    destruct He as [He|(e2 & He & ->)].
    - apply HF; auto.
    - cbn [shift_edge pe_lbl pe_src pe_tgt] in *. rewrite shiftl_length in *. apply HG; auto.
  Qed.

  Lemma ranked_sum F G D : pwf F -> p_edges D = sum_edges F G -> p_ranked F -> p_ranked G -> p_ranked D.
  Proof.
    intros WF E (levF & HF) (levG & HG).
    exists (fun x => if x <? length (p_edges F) then levF x else levG (x - length (p_edges F))).
    intros x y ex ey v Hx Hy Ht Hs. rewrite E in Hx, Hy. unfold sum_edges in Hx, Hy.
    apply nth_error_app_shift in Hx. apply nth_error_app_shift in Hy.
    destruct Hx as [(Hx & Ex)|(Hx & e1 & Ex & ->)]; destruct Hy as [(Hy & Ey)|(Hy & e2 & Ey & ->)].
    - apply Nat.ltb_lt in Hx, Hy. rewrite Hx, Hy. eapply HF; eauto.
    - exfalso. cbn [shift_edge pe_src] in Hs. apply In_shiftl in Hs.
      apply nth_error_In in Ex. pose proof (all_lt_in v (pwf_tgt ex WF Ex) Ht). lia.
    - exfalso. cbn [shift_edge pe_tgt] in Ht. apply In_shiftl in Ht.
      apply nth_error_In in Ey. pose proof (all_lt_in v (pwf_src ey WF Ey) Hs). lia.
    - apply Nat.ltb_ge in Hx, Hy. rewrite Hx, Hy. cbn [shift_edge pe_src pe_tgt] in Ht, Hs.
      apply In_shiftl in Ht. apply In_shiftl in Hs. eapply HG; eauto. apply Ht. apply Hs.
  Qed.

  (* ---------- tensor ---------- *)
  Lemma sw_ptensor F G : pwf F -> pwf G -> p_sw F -> p_sw G -> p_sw (ptensor F G).
  Proof.
    intros WF WG SF SG. unfold p_sw. rewrite (@p_tgts_sum F G (ptensor F G) eq_refl).
    cbn [ptensor p_ins]. set (n := length (p_nodes F)).
    apply (@Permutation_NoDup _ ((p_ins F ++ p_tgts F) ++ shiftl n (p_ins G ++ p_tgts G))).
    - unfold shiftl. rewrite map_app. rewrite <- !app_assoc. apply Permutation_app_head.
      rewrite !app_assoc. apply Permutation_app_tail. apply Permutation_app_comm.
    - apply NoDup_app_iff. split. exact SF. split. apply NoDup_shiftl. exact SG.
      intros v Hv Hs. apply In_shiftl in Hs. fold n in Hs.
      assert (v < n).
      { apply in_app_or in Hv. destruct Hv as [Hv|Hv].
        eapply all_lt_in. apply (pwf_ins WF). exact Hv. apply p_tgts_lt; auto. }
      lia.
  Qed.

  Lemma pevaluable_ptensor F G : pwf F -> pwf G -> pevaluable F -> pevaluable G ->
    pevaluable (ptensor F G).
  Proof.
    intros WF WG (RF & SF & AF) (RG & SG & AG). split; [|split].
    - apply (@ranked_sum F G); auto.
    - apply sw_ptensor; auto.
    - apply (@arity_sum F G); auto.
  Qed.

  Lemma pval_ptensor F G x y mF mG : pwf F -> pwf G -> length x = length (p_ins F) ->
    pval F x mF -> pval G y mG ->
    pval (ptensor F G) (x ++ y) (msum (length (p_nodes F)) mF mG).
  Proof.
    intros WF WG Hl (F1 & F2 & F3) (G1 & G2 & G3). set (n := length (p_nodes F)).
    split; [|split].
    - cbn [ptensor p_ins]. fold n. rewrite app_length, shiftl_length. intros i Hi.
      destruct (Nat.lt_ge_cases i (length (p_ins F))) as [Hlt|Hge].
      + rewrite app_nth1 by exact Hlt. rewrite (app_nth1 x y) by lia. rewrite msum_l. auto.
        eapply all_lt_in. apply (pwf_ins WF). apply nth_In. exact Hlt.
      + rewrite app_nth2 by exact Hge. rewrite (app_nth2 x y) by lia. rewrite nth_shiftl by lia.
        rewrite msum_r. rewrite Hl. apply G1. lia.
    - intros e He. change (p_edges (ptensor F G)) with (sum_edges F G) in He.
      apply In_sum_edges in He. destruct He as [He|(e2 & He & ->)].
      + rewrite !map_msum_l. auto. apply (pwf_src e WF He). apply (pwf_tgt e WF He).
      + cbn [shift_edge pe_lbl pe_src pe_tgt]. fold n. rewrite !map_msum_r. auto.
    - cbn [ptensor p_nodes p_ins p_edges]. fold n. rewrite app_length. fold n. intros v Hv Hi Hno.
      destruct (Nat.lt_ge_cases v n) as [Hlt|Hge].
      + rewrite msum_l by exact Hlt. apply F3; auto.
        * intros Hin. apply Hi. apply in_or_app. left. exact Hin.
        * intros e He. apply Hno. apply in_or_app. left. exact He.
      + unfold msum. assert (E : v <? n = false) by (apply Nat.ltb_ge; exact Hge). rewrite E.
        apply G3.
        * lia.
        * intros Hin. apply Hi. apply in_or_app. right. apply In_shiftl. auto.
        * intros e He Hin. apply (Hno (shift_edge n e)).
          apply in_or_app. right. apply in_map. exact He.
          cbn [shift_edge pe_tgt]. apply In_shiftl. auto.
  Qed.
End PlainSum.

(* ================================================================== *)
(** * 1b. plain level: monogamy as two exact covers of the node set *)
(* ================================================================== *)

Section PlainMono.
  Variables O A : Type.
  Implicit Types F G D : pohg O A.

  Definition p_srcs (g : pohg O A) : list nat := concat (map (@pe_src A) (p_edges g)).

  (* L lists every number below n exactly once *)
  Definition cover (n : nat) (L : list nat) : Prop := NoDup L /\ forall v, In v L <-> v < n.

  (* every node is written exactly once (by the input interface or a hyperedge target) and read
     exactly once (by a hyperedge source or the output interface) *)
  Definition p_mono (g : pohg O A) : Prop :=
    cover (length (p_nodes g)) (p_ins g ++ p_tgts g) /\
    cover (length (p_nodes g)) (p_srcs g ++ p_outs g).

  Lemma shiftl_app n l1 l2 : shiftl n (l1 ++ l2) = shiftl n l1 ++ shiftl n l2.
  Proof. unfold shiftl. apply map_app. Qed.

  Lemma p_srcs_sum F G D : p_edges D = sum_edges F G ->
    p_srcs D = p_srcs F ++ shiftl (length (p_nodes F)) (p_srcs G).
  Proof.
    intros E. unfold p_srcs. rewrite E. unfold sum_edges. rewrite map_app, concat_app. f_equal.
    rewrite map_map. cbn [shift_edge pe_src]. unfold shiftl.
    rewrite <- concat_map_map. rewrite map_map. reflexivity.
  Qed.

  Lemma srcs_map_edge (q : nat -> nat) : forall E : list (pedge A),
    concat (map (@pe_src A) (map (map_edge q) E)) = map q (concat (map (@pe_src A) E)).
  Proof.
    induction E as [|e E IH]. reflexivity.
    cbn [map concat map_edge pe_src]. rewrite map_app, IH. reflexivity.
  Qed.

  Lemma cover_perm n L L' : Permutation L L' -> cover n L -> cover n L'.
  Proof.
    intros P (Hnd & Hin). split. eapply Permutation_NoDup; eauto.
    intros v. rewrite <- Hin. split; apply Permutation_in; auto using Permutation_sym.
  Qed.

  Lemma cover_sum n m L1 L2 : cover n L1 -> cover m L2 -> cover (n + m) (L1 ++ shiftl n L2).
  Proof.
    intros (N1 & I1) (N2 & I2). split.
    - apply NoDup_app_iff. split. exact N1. split. apply NoDup_shiftl. exact N2.
      intros v H1 H2. apply I1 in H1. apply In_shiftl in H2. lia.
    - intros v. rewrite in_app_iff, In_shiftl, I1, I2. lia.
  Qed.

  Lemma p_mono_sw g : p_mono g -> p_sw g.
  Proof. intros ((H & _) & _). exact H. Qed.

  Lemma perm_interleave (a b c e : list nat) : Permutation ((a ++ c) ++ (b ++ e)) ((a ++ b) ++ (c ++ e)).
  Proof.
    rewrite <- !app_assoc. apply Permutation_app_head.
    rewrite !app_assoc. apply Permutation_app_tail. apply Permutation_app_comm.
  Qed.

  Theorem p_mono_ptensor F G : p_mono F -> p_mono G -> p_mono (ptensor F G).
  Proof.
    intros (F1 & F2) (G1 & G2). unfold p_mono.
    rewrite (@p_tgts_sum O A F G (ptensor F G) eq_refl), (@p_srcs_sum F G (ptensor F G) eq_refl).
    cbn [ptensor p_nodes p_ins p_outs]. rewrite app_length. set (n := length (p_nodes F)). split.
    - apply (@cover_perm _ ((p_ins F ++ p_tgts F) ++ shiftl n (p_ins G ++ p_tgts G))).
      + rewrite shiftl_app. apply perm_interleave.
      + apply cover_sum; assumption.
    - apply (@cover_perm _ ((p_srcs F ++ p_outs F) ++ shiftl n (p_srcs G ++ p_outs G))).
      + rewrite shiftl_app. apply perm_interleave.
      + apply cover_sum; assumption.
  Qed.
End PlainMono.

(* ================================================================== *)
(** * 2. plain level: sequential composition *)
(* ================================================================== *)

(* a memory on the nodes of D pushed along a surjection q *)
Section Mquot.
  Variable T : Type.
  Variable d : T.

  Definition mquot (N : nat) (q : nat -> nat) (m : nat -> T) (j : nat) : T :=
    match find (fun i => q i =? j) (seq 0 N) with Some i => m i | None => d end.

  Lemma mquot_spec N q m :
    (forall i i', i < N -> i' < N -> q i = q i' -> m i = m i') ->
    forall i, i < N -> mquot N q m (q i) = m i.
  Proof.
    intros Hc i Hi. unfold mquot. destruct (find (fun i0 => q i0 =? q i) (seq 0 N)) as [i'|] eqn:E.
    - apply find_some in E. destruct E as (Hin & He). apply in_seq in Hin. apply Nat.eqb_eq in He.
      apply Hc; auto. lia.
    - exfalso. assert (X : (q i =? q i) = false). { apply (find_none _ _ E i). apply in_seq. lia. }
      rewrite Nat.eqb_refl in X. discriminate.
  Qed.
End Mquot.

Lemma tgts_map_edge {A} (q : nat -> nat) : forall E : list (pedge A),
  concat (map (@pe_tgt A) (map (map_edge q) E)) = map q (concat (map (@pe_tgt A) E)).
Proof.
  induction E as [|e E IH]. reflexivity.
  cbn [map concat map_edge pe_tgt]. rewrite map_app, IH. reflexivity.
Qed.

Section PlainCompose.
  Variables O A T : Type.
  Variable d : T.
  Variable interp : A -> list T -> list T.
  Variables F G H : pohg O A.
  Variable q : nat -> nat.

  Local Notation pval := (pval d interp).
  Local Notation pevaluable := (pevaluable interp).
  Local Notation nF := (length (p_nodes F)).
  Local Notation nG := (length (p_nodes G)).

  Hypothesis WF : pwf F.
  Hypothesis WG : pwf G.
  Hypothesis HQ : IsQuot (pjoin F G) q H.
  Hypothesis HK : forall i j, i < nF + nG -> j < nF + nG ->
    (q i = q j <-> conn (glue_pairs F G) i j).
  Hypothesis HL : length (p_outs F) = length (p_ins G).

  Lemma glue_pair_char x y : In (x, y) (glue_pairs F G) <->
    exists k, k < length (p_outs F) /\ x = nth k (p_outs F) 0 /\ y = nth k (p_ins G) 0 + nF.
  Proof.
    unfold glue_pairs. rewrite In_combine_nth by (rewrite shiftl_length; exact HL).
    split; intros (k & Hk & -> & E); exists k; (split; [exact Hk|split; [reflexivity|]]).
    - rewrite E. apply nth_shiftl. lia.
    - rewrite E. symmetry. apply nth_shiftl. lia.
  Qed.

  Lemma Q_lt i : i < nF + nG -> q i < length (p_nodes H).
  Proof.
    destruct HQ as (H1 & _). intros Hi. apply H1. cbn [pjoin p_nodes]. rewrite app_length. exact Hi.
  Qed.

  Lemma Q_surj j : j < length (p_nodes H) -> exists i, i < nF + nG /\ q i = j.
  Proof.
    destruct HQ as (_ & H2 & _). intros Hj. destruct (H2 j Hj) as (i & Hi & E).
    cbn [pjoin p_nodes] in Hi. rewrite app_length in Hi. eauto.
  Qed.

  Lemma Q_edges : p_edges H = map (map_edge q) (sum_edges F G).
  Proof. destruct HQ as (_ & _ & _ & H4 & _). exact H4. Qed.

  Lemma Q_ins : p_ins H = map q (p_ins F).
  Proof. destruct HQ as (_ & _ & _ & _ & H5 & _). exact H5. Qed.

  Lemma Q_outs : p_outs H = map q (shiftl nF (p_outs G)).
  Proof. destruct HQ as (_ & _ & _ & _ & _ & H6). exact H6. Qed.

  Lemma In_edges_H e : In e (p_edges H) <->
    (exists e1, In e1 (p_edges F) /\ e = map_edge q e1) \/
    (exists e2, In e2 (p_edges G) /\ e = map_edge q (shift_edge nF e2)).
  Proof.
    rewrite Q_edges, in_map_iff. split.
    - intros (e0 & <- & He0). apply In_sum_edges in He0. destruct He0 as [He0|(e2 & He2 & ->)]; eauto.
    - intros [(e1 & He1 & ->)|(e2 & He2 & ->)].
      + exists e1. split; auto. apply In_sum_edges. auto.
      + exists (shift_edge nF e2). split; auto. apply In_sum_edges. eauto.
  Qed.

  Lemma ins_F_lt v : In v (p_ins F) -> v < nF.
  Proof. apply all_lt_in. apply (pwf_ins WF). Qed.

  Lemma outs_F_lt k : k < length (p_outs F) -> nth k (p_outs F) 0 < nF.
  Proof. intros Hk. eapply all_lt_in. apply (pwf_outs WF). apply nth_In. exact Hk. Qed.

  Lemma ins_G_lt v : In v (p_ins G) -> v < nG.
  Proof. apply all_lt_in. apply (pwf_ins WG). Qed.

  (* ---------- A. gluing two valuations along the boundary ---------- *)
  Section Glue.
    Variables (x u : list T) (mF mG : nat -> T).
    Hypothesis VF : pval F x mF.
    Hypothesis VG : pval G u mG.
    Hypothesis Hu : u = map mF (p_outs F).

    Definition memJ : nat -> T := msum nF mF mG.

    Lemma memJ_conn i j : conn (glue_pairs F G) i j -> memJ i = memJ j.
    Proof.
      apply (@conn_glue_impl (glue_pairs F G) (fun a b => memJ a = memJ b)); try congruence.
      intros a b Hin. apply glue_pair_char in Hin. destruct Hin as (k & Hk & -> & ->).
      unfold memJ. rewrite msum_l by (apply outs_F_lt; exact Hk). rewrite msum_r.
      destruct VG as (G1 & _). rewrite G1 by lia. rewrite Hu.
      symmetry. apply nth_map_d. exact Hk.
    Qed.

    Definition mH : nat -> T := mquot d (nF + nG) q memJ.

    Lemma mH_q i : i < nF + nG -> mH (q i) = memJ i.
    Proof.
      apply mquot_spec. intros a b Ha Hb E. apply memJ_conn. apply HK; auto.
    Qed.

    Lemma map_mH_q l : all_lt (nF + nG) l -> map mH (map q l) = map memJ l.
    Proof.
      intros Hl. rewrite map_map. apply map_ext_in. intros v Hv. apply mH_q. eapply all_lt_in; eauto.
    Qed.

    Lemma map_mH_F l : all_lt nF l -> map mH (map q l) = map mF l.
    Proof.
      intros Hl. rewrite map_mH_q. apply map_msum_l. exact Hl.
      eapply all_lt_mono; [|exact Hl]. lia.
    Qed.

    Lemma map_mH_G l : all_lt nG l -> map mH (map q (shiftl nF l)) = map mG l.
    Proof.
      intros Hl. rewrite map_mH_q. apply map_msum_r. apply all_lt_shiftl. exact Hl.
    Qed.

    Theorem pval_compose : pval H x mH.
    Proof.
      destruct VF as (F1 & F2 & F3). destruct VG as (G1 & G2 & G3). split; [|split].
      - rewrite Q_ins, map_length. intros i Hi. rewrite nth_map_0 by exact Hi.
        assert (Hv : nth i (p_ins F) 0 < nF) by (apply ins_F_lt; apply nth_In; exact Hi).
        rewrite mH_q by lia. unfold memJ. rewrite msum_l by exact Hv. auto.
      - intros e He. apply In_edges_H in He. destruct He as [(e1 & He1 & ->)|(e2 & He2 & ->)].
        + cbn [map_edge pe_lbl pe_src pe_tgt]. rewrite !map_mH_F. auto.
          apply (pwf_src e1 WF He1). apply (pwf_tgt e1 WF He1).
        + cbn [map_edge shift_edge pe_lbl pe_src pe_tgt]. rewrite !map_mH_G. auto.
          apply (pwf_src e2 WG He2). apply (pwf_tgt e2 WG He2).
      - intros v Hv Hi Hno.
        (* a representative on the F side carries the default value *)
        assert (CF : forall i, i < nF -> q i = v -> mF i = d).
        { intros i Hlt E. apply F3; auto.
          - intros Hin. apply Hi. rewrite Q_ins, <- E. apply in_map. exact Hin.
          - intros e He Hin. apply (Hno (map_edge q e)).
            apply In_edges_H. left. eauto.
            cbn [map_edge pe_tgt]. rewrite <- E. apply in_map. exact Hin. }
        destruct (Q_surj Hv) as (i & HiN & E).
        rewrite <- E, mH_q by exact HiN. unfold memJ.
        destruct (Nat.lt_ge_cases i nF) as [Hlt|Hge].
        + rewrite msum_l by exact Hlt. apply CF; auto.
        + replace i with ((i - nF) + nF) by lia. rewrite msum_r.
          destruct (in_dec Nat.eq_dec (i - nF) (p_ins G)) as [Hin|Hnin].
          * apply In_nth_0 in Hin. destruct Hin as (k & Hk & Ek).
            rewrite <- Ek, G1 by exact Hk. rewrite Hu.
            rewrite (@nth_map_d _ _ mF (p_outs F) k 0 d) by lia.
            apply CF. apply outs_F_lt. lia.
            rewrite <- E. apply HK. pose proof (@outs_F_lt k). lia. exact HiN.
            apply conn_step. apply glue_pair_char. exists k. split. lia. split. reflexivity. lia.
          * apply G3; auto. lia.
            intros e He Hin. apply (Hno (map_edge q (shift_edge nF e))).
            apply In_edges_H. right. eauto.
            cbn [map_edge shift_edge pe_tgt]. rewrite <- E. apply in_map. apply In_shiftl. auto.
    Qed.

    Theorem outs_compose : map mH (p_outs H) = map mG (p_outs G).
    Proof. rewrite Q_outs. apply map_mH_G. apply (pwf_outs WG). Qed.
  End Glue.
  (* ---------- B. the composite of two evaluable diagrams is evaluable ---------- *)
  Lemma q_glue k : k < length (p_outs F) -> q (nth k (p_ins G) 0 + nF) = q (nth k (p_outs F) 0).
  Proof.
    intros Hk. apply HK.
    - assert (nth k (p_ins G) 0 < nG) by (apply ins_G_lt; apply nth_In; lia). lia.
    - pose proof (outs_F_lt Hk). lia.
    - apply conn_sym. apply conn_step. apply glue_pair_char. exists k. auto.
  Qed.

  Lemma arity_compose : p_arity interp F -> p_arity interp G -> p_arity interp H.
  Proof.
    intros AF AG e vals He Hl. apply In_edges_H in He. destruct He as [(e1 & He1 & ->)|(e2 & He2 & ->)].
    - cbn [map_edge pe_lbl pe_src pe_tgt] in *. rewrite map_length in *. apply AF; auto.
    - cbn [map_edge shift_edge pe_lbl pe_src pe_tgt] in *. rewrite map_length, shiftl_length in *.
      apply AG; auto.
  Qed.

  Lemma p_tgts_H : p_tgts H = map q (p_tgts F ++ shiftl nF (p_tgts G)).
  Proof.
    unfold p_tgts at 1. rewrite Q_edges, tgts_map_edge. f_equal.
    apply (@p_tgts_sum O A F G (pjoin F G) eq_refl).
  Qed.

  Section Closure.
    (* the input leg of G is injective *)
    Hypothesis NG : NoDup (p_ins G).

    (* the canonical representative of a node of the disjoint union: a glued input of G is
       represented by the output of F it is glued to *)
    Definition rep (i : nat) : nat :=
      if i <? nF then i
      else match pos_of (i - nF) (p_ins G) with Some k => nth k (p_outs F) 0 | None => i end.

    Lemma rep_l i : i < nF -> rep i = i.
    Proof. intros Hi. unfold rep. apply Nat.ltb_lt in Hi. rewrite Hi. reflexivity. Qed.

    Lemma rep_r_in k : k < length (p_ins G) -> rep (nth k (p_ins G) 0 + nF) = nth k (p_outs F) 0.
    Proof.
      intros Hk. unfold rep.
      assert (E : nth k (p_ins G) 0 + nF <? nF = false) by (apply Nat.ltb_ge; lia). rewrite E.
      replace (nth k (p_ins G) 0 + nF - nF) with (nth k (p_ins G) 0) by lia.
      rewrite pos_of_nth by auto. reflexivity.
    Qed.

    Lemma rep_r_notin j : ~ In j (p_ins G) -> rep (j + nF) = j + nF.
    Proof.
      intros Hj. unfold rep.
      assert (E : j + nF <? nF = false) by (apply Nat.ltb_ge; lia). rewrite E.
      replace (j + nF - nF) with j by lia. rewrite pos_of_notin by exact Hj. reflexivity.
    Qed.

    Lemma conn_rep i j : conn (glue_pairs F G) i j -> rep i = rep j.
    Proof.
      apply (@conn_glue_impl (glue_pairs F G) (fun a b => rep a = rep b)); try congruence.
      intros a b Hin. apply glue_pair_char in Hin. destruct Hin as (k & Hk & -> & ->).
      rewrite rep_l by (apply outs_F_lt; exact Hk). rewrite rep_r_in by lia. reflexivity.
    Qed.

    Lemma q_rep i j : i < nF + nG -> j < nF + nG -> q i = q j -> rep i = rep j.
    Proof. intros Hi Hj E. apply conn_rep. apply HK; auto. Qed.

    (* q identifies nothing on the F side, nothing among the non-input nodes of G, and no F node
       with a non-input node of G *)
    Lemma qinj_FF a b : a < nF -> b < nF -> q a = q b -> a = b.
    Proof. intros Ha Hb E. apply q_rep in E; try lia. rewrite !rep_l in E by assumption. exact E. Qed.

    Lemma qinj_GG a b : a < nG -> b < nG -> ~ In a (p_ins G) -> q (a + nF) = q (b + nF) -> a = b.
    Proof.
      intros Ha Hb Hna E. apply q_rep in E; try lia. rewrite (rep_r_notin _ Hna) in E.
      destruct (in_dec Nat.eq_dec b (p_ins G)) as [Hin|Hnin].
      - apply In_nth_0 in Hin. destruct Hin as (k & Hk & <-). rewrite rep_r_in in E by exact Hk.
        pose proof (@outs_F_lt k). lia.
      - rewrite (rep_r_notin _ Hnin) in E. lia.
    Qed.

    Lemma qinj_FG a b : a < nF -> b < nG -> ~ In b (p_ins G) -> q a <> q (b + nF).
    Proof.
      intros Ha Hb Hnb E. apply q_rep in E; try lia. rewrite rep_l, (rep_r_notin _ Hnb) in E by assumption. lia.
    Qed.

    Lemma tgt_G_facts t : p_sw G -> In t (p_tgts G) -> t < nG /\ ~ In t (p_ins G).
    Proof.
      intros S Ht. split. apply p_tgts_lt; auto.
      apply In_p_tgts in Ht. destruct Ht as (e & He & Hv).
      eapply p_sw_tgt_not_in; eauto.
    Qed.

    Lemma sw_compose : p_sw F -> p_sw G -> p_sw H.
    Proof.
      intros SF SG.
      unfold p_sw. rewrite Q_ins, p_tgts_H, <- map_app.
      set (L := p_ins F ++ p_tgts F ++ shiftl nF (p_tgts G)).
      assert (Hcl : forall a, In a L -> a < nF \/ exists t, a = t + nF /\ In t (p_tgts G)).
      { intros a Ha. unfold L in Ha. rewrite app_assoc in Ha. apply in_app_or in Ha.
        destruct Ha as [Ha|Ha].
        - left. apply in_app_or in Ha. destruct Ha as [Ha|Ha]. apply ins_F_lt; auto. apply p_tgts_lt; auto.
        - right. apply In_shiftl in Ha. exists (a - nF). split. lia. tauto. }
      apply C16Iso.NoDup_map_inj_on.
      - unfold L. rewrite app_assoc. apply NoDup_app_iff. split. exact SF. split.
        apply NoDup_shiftl. apply (p_sw_tgts SG).
        intros v Hv Hs. apply In_shiftl in Hs.
        assert (v < nF).
        { apply in_app_or in Hv. destruct Hv as [Hv|Hv]. apply ins_F_lt; auto. apply p_tgts_lt; auto. }
        lia.
      - intros a b Ha Hb E. apply Hcl in Ha. apply Hcl in Hb.
        destruct Ha as [Ha|(ta & -> & Hta)]; destruct Hb as [Hb|(tb & -> & Htb)].
        + apply qinj_FF; auto.
        + exfalso. destruct (tgt_G_facts _ SG Htb) as (H1 & H2). exact (qinj_FG Ha H1 H2 E).
        + exfalso. destruct (tgt_G_facts _ SG Hta) as (H1 & H2). symmetry in E. exact (qinj_FG Hb H1 H2 E).
        + destruct (tgt_G_facts _ SG Hta) as (H1 & H2). destruct (tgt_G_facts _ SG Htb) as (H3 & _).
          f_equal. apply qinj_GG; auto.
    Qed.

    Lemma ranked_compose : p_sw G -> p_ranked F -> p_ranked G -> p_ranked H.
    Proof.
      intros SG (levF & HF) (levG & HG).
      destruct (bound_fn levF (length (p_edges F))) as (M & HM).
      exists (fun x => if x <? length (p_edges F) then levF x else M + levG (x - length (p_edges F))).
      intros x y ex ey v Hx Hy Ht Hs. rewrite Q_edges in Hx, Hy.
      rewrite nth_error_map in Hx, Hy.
      destruct (nth_error (sum_edges F G) x) as [ex0|] eqn:Ex0; cbn [option_map] in Hx. 2: discriminate.
      destruct (nth_error (sum_edges F G) y) as [ey0|] eqn:Ey0; cbn [option_map] in Hy. 2: discriminate.
      inversion Hx; subst ex. inversion Hy; subst ey. clear Hx Hy.
      cbn [map_edge pe_src pe_tgt] in Ht, Hs. apply in_map_iff in Ht. apply in_map_iff in Hs.
      destruct Ht as (a & Ea & Ha). destruct Hs as (b & Eb & Hb).
      unfold sum_edges in Ex0, Ey0.
      apply nth_error_app_shift in Ex0. apply nth_error_app_shift in Ey0.
      destruct Ex0 as [(Hx & Ex)|(Hx & e1 & Ex & ->)]; destruct Ey0 as [(Hy & Ey)|(Hy & e2 & Ey & ->)].
      - pose proof (all_lt_in a (pwf_tgt ex0 WF (nth_error_In _ _ Ex)) Ha) as La.
        pose proof (all_lt_in b (pwf_src ey0 WF (nth_error_In _ _ Ey)) Hb) as Lb.
        assert (a = b) by (apply qinj_FF; auto; congruence). subst b.
        apply Nat.ltb_lt in Hx, Hy. rewrite Hx, Hy. eapply HF; eauto.
      - assert (Hx' := Hx). apply Nat.ltb_lt in Hx'. apply Nat.ltb_ge in Hy. rewrite Hx', Hy.
        pose proof (HM x Hx). lia.
      - exfalso. cbn [shift_edge pe_tgt] in Ha. apply In_shiftl in Ha. destruct Ha as (Hge & Ha).
        assert (Ht : In (a - nF) (p_tgts G)).
        { apply In_p_tgts. exists e1. split. eapply nth_error_In; eauto. exact Ha. }
        destruct (tgt_G_facts _ SG Ht) as (H1 & H2).
        pose proof (all_lt_in b (pwf_src ey0 WF (nth_error_In _ _ Ey)) Hb) as Lb.
        apply (qinj_FG Lb H1 H2). replace (a - nF + nF) with a by lia. congruence.
      - cbn [shift_edge pe_src pe_tgt] in Ha, Hb. apply In_shiftl in Ha. apply In_shiftl in Hb.
        destruct Ha as (Hga & Ha). destruct Hb as (Hgb & Hb).
        assert (Ht : In (a - nF) (p_tgts G)).
        { apply In_p_tgts. exists e1. split. eapply nth_error_In; eauto. exact Ha. }
        destruct (tgt_G_facts _ SG Ht) as (H1 & H2).
        pose proof (all_lt_in (b - nF) (pwf_src e2 WG (nth_error_In _ _ Ey)) Hb) as Lb.
        assert (E : a - nF = b - nF).
        { apply qinj_GG; auto. replace (a - nF + nF) with a by lia.
          replace (b - nF + nF) with b by lia. congruence. }
        apply Nat.ltb_ge in Hx, Hy. rewrite Hx, Hy.
        assert (levG (x - length (p_edges F)) < levG (y - length (p_edges F))).
        { eapply HG; eauto. rewrite E. exact Hb. }
        lia.
    Qed.

    (* ---------- C. the composite of two monogamous diagrams is monogamous ---------- *)
    Lemma p_srcs_H : p_srcs H = map q (p_srcs F ++ shiftl nF (p_srcs G)).
    Proof.
      unfold p_srcs at 1. rewrite Q_edges, srcs_map_edge. f_equal.
      apply (@p_srcs_sum O A F G (pjoin F G) eq_refl).
    Qed.

    Lemma qinj_GG' a b : NoDup (p_outs F) -> a < nG -> b < nG -> q (a + nF) = q (b + nF) -> a = b.
    Proof.
      intros NF Ha Hb E. apply q_rep in E; try lia.
      destruct (in_dec Nat.eq_dec a (p_ins G)) as [Ia|Na]; destruct (in_dec Nat.eq_dec b (p_ins G)) as [Ib|Nb].
      - apply In_nth_0 in Ia. destruct Ia as (k1 & Hk1 & <-).
        apply In_nth_0 in Ib. destruct Ib as (k2 & Hk2 & <-).
        rewrite !rep_r_in in E by assumption.
        f_equal. apply (proj1 (NoDup_nth (p_outs F) 0) NF); auto; lia.
      - apply In_nth_0 in Ia. destruct Ia as (k1 & Hk1 & <-).
        rewrite rep_r_in in E by assumption. rewrite (rep_r_notin _ Nb) in E.
        pose proof (@outs_F_lt k1). lia.
      - apply In_nth_0 in Ib. destruct Ib as (k2 & Hk2 & <-).
        rewrite rep_r_in in E by assumption. rewrite (rep_r_notin _ Na) in E.
        pose proof (@outs_F_lt k2). lia.
      - rewrite (rep_r_notin _ Na), (rep_r_notin _ Nb) in E. lia.
    Qed.

    Lemma qinj_FG' a b : a < nF -> ~ In a (p_outs F) -> b < nG -> q a <> q (b + nF).
    Proof.
      intros Ha Hna Hb E. apply q_rep in E; try lia. rewrite rep_l in E by assumption.
      destruct (in_dec Nat.eq_dec b (p_ins G)) as [Ib|Nb].
      - apply In_nth_0 in Ib. destruct Ib as (k & Hk & <-). rewrite rep_r_in in E by assumption.
        apply Hna. rewrite E. apply nth_In. lia.
      - rewrite (rep_r_notin _ Nb) in E. lia.
    Qed.

    Theorem mono_compose : p_mono F -> p_mono G -> p_mono H.
    Proof.
      intros ((NF1 & IF1) & (NF2 & IF2)) ((NG1 & IG1) & (NG2 & IG2)). split.
      - (* writers *)
        split. { apply sw_compose; assumption. }
        rewrite Q_ins, p_tgts_H, <- map_app, app_assoc.
        set (L := (p_ins F ++ p_tgts F) ++ shiftl nF (p_tgts G)).
        intros v. split.
        + intros Hv. apply in_map_iff in Hv. destruct Hv as (a & <- & Ha). apply Q_lt.
          apply in_app_or in Ha. destruct Ha as [Ha|Ha].
          * apply IF1 in Ha. lia.
          * apply In_shiftl in Ha. destruct Ha as (Hge & Ha).
            assert (a - nF < nG) by (apply IG1; apply in_or_app; right; exact Ha). lia.
        + intros Hv.
          assert (CF : forall i, i < nF -> In (q i) (map q L)).
          { intros i Hi. apply in_map. apply in_or_app. left. apply IF1. exact Hi. }
          destruct (Q_surj Hv) as (i & HiN & <-).
          destruct (Nat.lt_ge_cases i nF) as [Hlt|Hge]. apply CF; exact Hlt.
          assert (Hj : In (i - nF) (p_ins G ++ p_tgts G)) by (apply IG1; lia).
          apply in_app_or in Hj. destruct Hj as [Hj|Hj].
          * apply In_nth_0 in Hj. destruct Hj as (k & Hk & Ek).
            replace i with (nth k (p_ins G) 0 + nF) by lia.
            rewrite q_glue by lia. apply CF. apply outs_F_lt. lia.
          * apply in_map. apply in_or_app. right. apply In_shiftl. auto.
      - (* readers *)
        assert (NoF : NoDup (p_outs F)) by (apply NoDup_app_iff in NF2; tauto).
        rewrite p_srcs_H, Q_outs, <- map_app, <- app_assoc, <- shiftl_app.
        set (L := p_srcs F ++ shiftl nF (p_srcs G ++ p_outs G)).
        assert (Hcl : forall a, In a L ->
                  (a < nF /\ ~ In a (p_outs F)) \/ exists j, a = j + nF /\ j < nG).
        { intros a Ha. unfold L in Ha. apply in_app_or in Ha. destruct Ha as [Ha|Ha].
          - left. split. apply IF2. apply in_or_app. left. exact Ha.
            apply NoDup_app_iff in NF2. destruct NF2 as (_ & _ & Hd). apply Hd. exact Ha.
          - right. apply In_shiftl in Ha. destruct Ha as (Hge & Ha). exists (a - nF). split. lia.
            apply IG2. exact Ha. }
        split.
        + apply C16Iso.NoDup_map_inj_on.
          * unfold L. apply NoDup_app_iff. split. apply NoDup_app_iff in NF2. tauto. split.
            apply NoDup_shiftl. exact NG2.
            intros v Hv Hs. apply In_shiftl in Hs.
            assert (v < nF) by (apply IF2; apply in_or_app; left; exact Hv). lia.
          * intros a b Ha Hb E. apply Hcl in Ha. apply Hcl in Hb.
            destruct Ha as [(Ha & Hna)|(ja & -> & Hja)]; destruct Hb as [(Hb & Hnb)|(jb & -> & Hjb)].
            -- apply qinj_FF; auto.
            -- exfalso. exact (qinj_FG' Ha Hna Hjb E).
            -- exfalso. symmetry in E. exact (qinj_FG' Hb Hnb Hja E).
            -- f_equal. apply qinj_GG'; auto.
        + intros v. split.
          * intros Hv. apply in_map_iff in Hv. destruct Hv as (a & <- & Ha). apply Q_lt.
            apply Hcl in Ha. destruct Ha as [(Ha & _)|(j & -> & Hj)]; lia.
          * intros Hv.
            assert (CG : forall j, j < nG -> In (q (j + nF)) (map q L)).
            { intros j Hj. apply in_map. apply in_or_app. right. apply In_shiftl. split. lia.
              replace (j + nF - nF) with j by lia. apply IG2. exact Hj. }
            destruct (Q_surj Hv) as (i & HiN & <-).
            destruct (Nat.lt_ge_cases i nF) as [Hlt|Hge].
            -- assert (Hi : In i (p_srcs F ++ p_outs F)) by (apply IF2; exact Hlt).
               apply in_app_or in Hi. destruct Hi as [Hi|Hi].
               ++ apply in_map. apply in_or_app. left. exact Hi.
               ++ apply In_nth_0 in Hi. destruct Hi as (k & Hk & <-).
                  rewrite <- q_glue by exact Hk. apply CG. apply ins_G_lt. apply nth_In. lia.
            -- replace i with ((i - nF) + nF) by lia. apply CG. lia.
    Qed.
  End Closure.

  Theorem pevaluable_compose : pevaluable F -> pevaluable G -> pevaluable H.
  Proof.
    intros (RF & SF & AF) (RG & SG & AG). pose proof (p_sw_ins SG) as NG.
    split. apply ranked_compose; auto. split. apply sw_compose; auto. apply arity_compose; auto.
  Qed.
End PlainCompose.

(* ================================================================== *)
(** * 3. the theorems for the implementation *)
(* ================================================================== *)

Section Functor.
  Variable B : Backend.
  Hypothesis OK : BackendOK B.
  Variables O A T : Type.
  Variable d : T.
  Variable interp : A -> list T -> list T.
  Variable apply : list A -> ic (list T) -> res (ic (list T)).
  Hypothesis AP : apply_spec interp apply.

  Local Notation sem := (sem B d apply).
  Local Notation evaluable := (evaluable interp).
  Local Notation pval := (pval d interp).
  Local Notation pevaluable := (pevaluable interp).

  (* ---------------------------------------------------------------- *)
  (** ** E1: diagrams without hyperedges *)
  (* ---------------------------------------------------------------- *)

  (* the value a node receives from the input array through the source leg *)
  Definition wire_mem (ins : list nat) (inp : list T) (v : nat) : T :=
    match pos_of v ins with Some i => nth i inp d | None => d end.

  Lemma wire_mem_nth ins inp i : NoDup ins -> i < length ins ->
    wire_mem ins inp (nth i ins 0) = nth i inp d.
  Proof. intros Hnd Hi. unfold wire_mem. rewrite pos_of_nth by assumption. reflexivity. Qed.

  Lemma wire_mem_notin ins inp v : ~ In v ins -> wire_mem ins inp v = d.
  Proof. intros H. unfold wire_mem. rewrite pos_of_notin by exact H. reflexivity. Qed.

  Lemma pevaluable_discrete (g : pohg O A) : p_edges g = [] -> NoDup (p_ins g) -> pevaluable g.
  Proof.
    intros E Hnd. split; [|split].
    - exists (fun _ => 0). intros x y ex ey v Hx. rewrite E in Hx. destruct x; discriminate.
    - unfold p_sw, p_tgts. rewrite E. cbn [map concat]. rewrite app_nil_r. exact Hnd.
    - intros e vals He. rewrite E in He. contradiction.
  Qed.

  Lemma pval_discrete (g : pohg O A) inp : p_edges g = [] -> NoDup (p_ins g) ->
    pval g inp (wire_mem (p_ins g) inp).
  Proof.
    intros E Hnd. split; [|split].
    - intros i Hi. apply wire_mem_nth; assumption.
    - intros e He. rewrite E in He. contradiction.
    - intros v _ Hi _. apply wire_mem_notin. exact Hi.
  Qed.

  Theorem E1_discrete (f : ohg O A) inp : wf_ohg f -> h_x (o_h f) = [] -> NoDup (table (o_s f)) ->
    evaluable f /\ sem f inp (map (wire_mem (table (o_s f)) inp) (table (o_t f))).
  Proof.
    intros Wf Hx Hnd.
    assert (E : p_edges (abs f) = []).
    { cbn [abs p_edges]. unfold abs_hg_edges. rewrite Hx. reflexivity. }
    assert (Ev : evaluable f).
    { apply (evaluable_bridge interp Wf). apply pevaluable_discrete; assumption. }
    split. exact Ev.
    apply (sem_intro OK AP Ev). apply (@pval_discrete (abs f) inp E Hnd).
  Qed.

  Theorem E1_spider (s t : ff) (w : list O) (h : ohg O A) inp :
    ohg_spider A s t w = Some h -> wf_ff s -> wf_ff t -> NoDup (table s) ->
    evaluable h /\ sem h inp (map (wire_mem (table s) inp) (table t)).
  Proof.
    intros Hs Ws Wt Hnd. destruct (C04_spider_discrete s t w Hs) as (_ & Hx & _ & Wh).
    apply C04_spider_iff in Hs. destruct Hs as (_ & _ & Eh).
    assert (Es : o_s h = s) by (rewrite Eh; reflexivity).
    assert (Et : o_t h = t) by (rewrite Eh; reflexivity).
    rewrite <- Es, <- Et. apply E1_discrete; auto. rewrite Es. exact Hnd.
  Qed.

  Lemma wire_mem_seq inp n : length inp = n -> map (wire_mem (seq 0 n) inp) (seq 0 n) = inp.
  Proof.
    intros Hl. apply nth_ext with (d := d) (d' := d). rewrite map_length, seq_length. auto.
    intros j Hj. rewrite map_length, seq_length in Hj. rewrite nth_map_seq by lia. cbn [Nat.add].
    assert (X := @wire_mem_nth (seq 0 n) inp j (seq_NoDup _ _)).
    rewrite seq_length in X. rewrite seq_nth in X by lia. cbn [Nat.add] in X. apply X. lia.
  Qed.

  Theorem E1_identity (w : list O) :
    exists f, ohg_identity A w = Ok f /\ evaluable f /\
      forall inp, length inp = length w -> sem f inp inp.
  Proof.
    exists (id_pure A w). split. apply ohg_identity_ok.
    assert (Hnd : NoDup (table (o_s (id_pure A w)))).
    { cbn [id_pure o_s table]. apply seq_NoDup. }
    split. { apply (@E1_discrete (id_pure A w) [] (wf_id_pure A w) eq_refl Hnd). }
    intros inp Hl.
    destruct (@E1_discrete (id_pure A w) inp (wf_id_pure A w) eq_refl Hnd) as (_ & S).
    cbn [id_pure o_s o_t table] in S.
    replace (map (wire_mem (seq 0 (length w)) inp) (seq 0 (length w))) with inp in S. exact S.
    symmetry. apply wire_mem_seq. exact Hl.
  Qed.

  Theorem E1_twist (a b : list O) :
    exists f, ohg_twist A a b = Ok f /\ evaluable f /\
      forall x y, length x = length a -> length y = length b -> sem f (x ++ y) (y ++ x).
  Proof.
    exists (twist_pure A a b). split. apply ohg_twist_ok.
    set (ins := seq (length b) (length a) ++ seq 0 (length b)).
    assert (Hnd : NoDup ins).
    { unfold ins. apply NoDup_app_iff. split. apply seq_NoDup. split. apply seq_NoDup.
      intros v H1 H2. apply in_seq in H1. apply in_seq in H2. lia. }
    split. { apply (@E1_discrete (twist_pure A a b) [] (wf_twist_pure A a b) eq_refl Hnd). }
    intros x y Hx Hy.
    destruct (@E1_discrete (twist_pure A a b) (x ++ y) (wf_twist_pure A a b) eq_refl Hnd) as (_ & S).
    cbn [twist_pure o_s o_t table] in S. fold ins in S.
    replace (map (wire_mem ins (x ++ y)) (seq 0 (length a + length b))) with (y ++ x) in S. exact S.
    assert (Li : length ins = length a + length b).
    { unfold ins. rewrite app_length, !seq_length. reflexivity. }
    apply nth_ext with (d := d) (d' := d).
    { rewrite map_length, seq_length, app_length. lia. }
    intros j Hj. rewrite app_length in Hj. rewrite nth_map_seq by lia. cbn [Nat.add].
    destruct (Nat.lt_ge_cases j (length b)) as [Hlt|Hge].
    - assert (E : j = nth (length a + j) ins 0).
      { unfold ins. rewrite app_nth2 by (rewrite seq_length; lia). rewrite seq_length.
        rewrite seq_nth by lia. lia. }
      rewrite E at 2. rewrite wire_mem_nth by (auto; lia).
      rewrite app_nth1 by lia. rewrite app_nth2 by lia. f_equal. lia.
    - assert (E : j = nth (j - length b) ins 0).
      { unfold ins. rewrite app_nth1 by (rewrite seq_length; lia). rewrite seq_nth by lia. lia. }
      rewrite E at 2. rewrite wire_mem_nth by (auto; lia).
      rewrite app_nth2 by lia. rewrite app_nth1 by lia. f_equal. lia.
  Qed.

  (* ---------------------------------------------------------------- *)
  (** ** E2: tensor *)
  (* ---------------------------------------------------------------- *)

  Theorem E2_tensor (f g : ohg O A) : evaluable f -> evaluable g ->
    exists t, ohg_tensor f g = Ok t /\ evaluable t /\
      forall x y u v, length x = length (table (o_s f)) ->
        sem f x u -> sem g y v -> sem t (x ++ y) (u ++ v).
  Proof.
    intros Ef Eg. pose proof (proj1 Ef) as Wf. pose proof (proj1 Eg) as Wg.
    destruct (C02_tensor_is_juxtaposition Wf Wg) as (t & Ht & Wt & Eabs).
    assert (Et : evaluable t).
    { apply (evaluable_bridge interp Wt). rewrite Eabs.
      apply pevaluable_ptensor; try apply wf_abs_pwf; auto; apply evaluable_bridge; auto. }
    exists t. split. exact Ht. split. exact Et.
    intros x y u v Hl Sf Sg.
    destruct (sem_elim OK AP Ef Sf) as (mF & VF & ->).
    destruct (sem_elim OK AP Eg Sg) as (mG & VG & ->).
    pose proof (pval_ptensor (wf_abs_pwf Wf) (wf_abs_pwf Wg) Hl VF VG) as V.
    rewrite <- Eabs in V. pose proof (sem_intro OK AP Et V) as S.
    change (table (o_t t)) with (p_outs (abs t)) in S. rewrite Eabs in S.
    cbn [ptensor p_outs] in S. rewrite map_app, map_msum_r, map_msum_l in S. exact S.
    apply (pwf_outs (wf_abs_pwf Wf)).
  Qed.

  (* ---------------------------------------------------------------- *)
  (** ** E3: sequential composition *)
  (* ---------------------------------------------------------------- *)

  (* for any gluing of f and g (the composite computed by any back-end, or by any other means) *)
  Theorem E3_gluing (f g h : ohg O A) : evaluable f -> evaluable g -> wf_ohg h ->
    length (table (o_t f)) = length (table (o_s g)) ->
    IsCompose (abs f) (abs g) (abs h) ->
    evaluable h /\ forall x u v, sem f x u -> sem g u v -> sem h x v.
  Proof.
    intros Ef Eg Wh HL (q & HQ & HK).
    pose proof (proj1 Ef) as Wf. pose proof (proj1 Eg) as Wg.
    pose proof (wf_abs_pwf Wf) as PF. pose proof (wf_abs_pwf Wg) as PG.
    assert (Eh : evaluable h).
    { apply (evaluable_bridge interp Wh).
      apply (pevaluable_compose PF PG HQ HK HL); apply evaluable_bridge; auto. }
    split. exact Eh.
    intros x u v Sf Sg.
    destruct (sem_elim OK AP Ef Sf) as (mF & VF & Eu).
    destruct (sem_elim OK AP Eg Sg) as (mG & VG & ->).
    pose proof (pval_compose PF PG HQ HK HL VF VG Eu) as V.
    pose proof (sem_intro OK AP Eh V) as S.
    change (table (o_t h)) with (p_outs (abs h)) in S.
    rewrite (outs_compose PF PG HQ HK HL mF VG Eu) in S. exact S.
  Qed.

  Section Compose.
    Variable Bc : Backend.
    Hypothesis OKc : BackendOK Bc.
    Variable eqO : O -> O -> bool.
    Hypothesis eqO_spec : forall x y, eqO x y = true <-> x = y.

    Theorem E3_compose (f g h : ohg O A) : evaluable f -> evaluable g ->
      ohg_compose Bc eqO f g = Ok (Some h) ->
      evaluable h /\ forall x u v, sem f x u -> sem g u v -> sem h x v.
    Proof.
      intros Ef Eg Hc. pose proof (proj1 Ef) as Wf. pose proof (proj1 Eg) as Wg.
      destruct (compose_cases eqO eqO_spec OKc Wf Wg) as [(_ & Hn)|(Ety & _)].
      { rewrite Hn in Hc. discriminate. }
      destruct (C01_compose_is_gluing OKc eqO eqO_spec Wf Wg Ety) as (h' & Hc' & Wh & Hi).
      rewrite Hc in Hc'. inversion Hc'; subst h'.
      apply E3_gluing; auto.
      apply (f_equal (@length _)) in Ety. unfold tgt_type, src_type, type_of in Ety.
      rewrite !map_length in Ety. exact Ety.
    Qed.

    (* the composite exists whenever the boundary types match *)
    Corollary E3_compose_defined (f g : ohg O A) : evaluable f -> evaluable g ->
      tgt_type (abs f) = src_type (abs g) ->
      exists h, ohg_compose Bc eqO f g = Ok (Some h) /\ evaluable h /\
        forall x u v, sem f x u -> sem g u v -> sem h x v.
    Proof.
      intros Ef Eg Ety.
      destruct (C01_compose_is_gluing OKc eqO eqO_spec (proj1 Ef) (proj1 Eg) Ety) as (h & Hc & _ & _).
      exists h. split. exact Hc. apply E3_compose; auto.
    Qed.
  End Compose.

  (* ---------------------------------------------------------------- *)
  (** ** E4: invariance under isomorphism *)
  (* ---------------------------------------------------------------- *)

  Theorem E4_iso (f f' : ohg O A) : evaluable f -> wf_ohg f' -> Iso (abs f) (abs f') ->
    evaluable f' /\
    (forall inp, eval B d apply f inp = eval B d apply f' inp) /\
    (forall inp out, sem f inp out <-> sem f' inp out).
  Proof.
    intros (Wf & Hac & SW & Har) Wf' HI.
    destruct (iso_facts Wf Wf' HI) as (pn & pe & En & Em & Bn & Be & Hedge & Hins & Houts).
    assert (Ev' : evaluable f').
    { split. exact Wf'. split. exact (acyclic_transport Wf En Em Bn Be Hedge Hac).
      split. exact (single_writer_transport Wf Wf' En Em Bn Be Hedge Hins SW).
      exact (arity_transport f' pn En Em Be Hedge Har). }
    assert (Eq : forall inp, eval B d apply f inp = eval B d apply f' inp).
    { intros inp. set (k := length (table (o_s f))).
      rewrite (@eval_inp_ext B O A T d apply f inp (pad d k inp) Wf (sw_ins SW)).
      2:{ intros i Hi. symmetry. apply pad_nth. exact Hi. }
      rewrite (@eval_inp_ext B O A T d apply f' inp (pad d k inp) Wf').
      - apply (C16f_numbering_independent OK d AP (pad d k inp) Wf Wf' HI Hac SW Har).
        apply pad_length.
      - destruct Ev' as (_ & _ & SW' & _). apply (sw_ins SW').
      - rewrite Hins, map_length. intros i Hi. symmetry. apply pad_nth. exact Hi. }
    split. exact Ev'. split. exact Eq.
    intros inp out. unfold EvalPlain.sem. rewrite Eq. reflexivity.
  Qed.
End Functor.

(* ================================================================== *)
(** * 4. monogamous acyclic diagrams are evaluable *)
(* ================================================================== *)

From OHG Require Import Proofs.C17Thm.

Lemma concat_decode_lt O A (f : ohg O A) v : wf_ohg f ->
  In v (concat (decode_f (h_t (o_h f)))) -> v < length (h_w (o_h f)).
Proof.
  intros Wf H. apply In_concat_nth in H. destruct H as (e & _ & Hv).
  eapply op_tgt_lt. exact (proj1 Wf). exact Hv.
Qed.

Theorem monogamous_single_writer O A (f : ohg O A) : wf_ohg f -> monogamous_spec f -> single_writer f.
Proof.
  intros Wf (Hni & _ & Hdeg). unfold single_writer.
  apply (NoDup_count_occ Nat.eq_dec). intros v. rewrite count_occ_app.
  destruct (Nat.lt_ge_cases v (length (h_w (o_h f)))) as [Hv|Hv].
  - destruct (C17_degrees_decoded v (proj1 Wf)) as (Ei & _). rewrite <- Ei.
    destruct (Hdeg v Hv) as ([(E1 & Hn)|(E0 & Hi)] & _).
    + rewrite E1. rewrite (proj1 (count_occ_not_In Nat.eq_dec _ _) Hn). lia.
    + rewrite E0. pose proof (proj1 (NoDup_count_occ Nat.eq_dec _) Hni v). lia.
  - rewrite (proj1 (count_occ_not_In Nat.eq_dec _ _)).
    rewrite (proj1 (count_occ_not_In Nat.eq_dec _ _)). lia.
    + intros Hin. apply (concat_decode_lt v Wf) in Hin. lia.
    + intros Hin. apply (ins_lt' Wf) in Hin. lia.
Qed.

Theorem monogamous_evaluable O A T (interp : A -> list T -> list T) (f : ohg O A) :
  wf_ohg f -> monogamous_spec f -> acyclic_ops f -> arity_ok interp f -> evaluable interp f.
Proof.
  intros Wf Hm Hac Har. split. exact Wf. split. exact Hac. split.
  apply monogamous_single_writer; assumption. exact Har.
Qed.

(* ================================================================== *)
(** * 5. E0: a single generator computes its interpretation *)
(* ================================================================== *)

From OHG Require Import Proofs.C05Thm.

Section Generator.
  Variable B : Backend.
  Hypothesis OK : BackendOK B.
  Variables O A T : Type.
  Variable d : T.
  Variable interp : A -> list T -> list T.
  Variable apply : list A -> ic (list T) -> res (ic (list T)).
  Hypothesis AP : apply_spec interp apply.

  (* one hyperedge x : sources 0..k-1, targets k..k+m-1, interfaces the same *)
  Definition pgen (w : list O) (x : A) (k m : nat) : pohg O A :=
    mkP w [mkPE x (seq 0 k) (seq k m)] (seq 0 k) (seq k m).

  Definition gen_mem (x : A) (k : nat) (inp : list T) (v : nat) : T :=
    if v <? k then nth v inp d else nth (v - k) (interp x inp) d.

  Lemma map_gen_mem_src x k inp : length inp = k -> map (gen_mem x k inp) (seq 0 k) = inp.
  Proof.
    intros Hl. apply nth_ext with (d := d) (d' := d). rewrite map_length, seq_length. auto.
    intros j Hj. rewrite map_length, seq_length in Hj. rewrite nth_map_seq by lia. cbn [Nat.add].
    unfold gen_mem. apply Nat.ltb_lt in Hj. rewrite Hj. reflexivity.
  Qed.

  Lemma map_gen_mem_tgt x k m inp : length (interp x inp) = m ->
    map (gen_mem x k inp) (seq k m) = interp x inp.
  Proof.
    intros Hl. apply nth_ext with (d := d) (d' := d). rewrite map_length, seq_length. auto.
    intros j Hj. rewrite map_length, seq_length in Hj. rewrite nth_map_seq by lia.
    unfold gen_mem. assert (E : k + j <? k = false) by (apply Nat.ltb_ge; lia). rewrite E.
    f_equal. lia.
  Qed.

  Lemma pevaluable_pgen w x k m : (forall vals, length vals = k -> length (interp x vals) = m) ->
    pevaluable interp (pgen w x k m).
  Proof.
    intros Har. split; [|split].
    - exists (fun _ => 0). intros a b ea eb v Ha Hb Ht Hs. exfalso.
      destruct a as [|a]; cbn [pgen p_edges nth_error] in Ha. 2:{ destruct a; discriminate. }
      destruct b as [|b]; cbn [pgen p_edges nth_error] in Hb. 2:{ destruct b; discriminate. }
      inversion Ha; subst ea. inversion Hb; subst eb. cbn [pe_src pe_tgt] in Ht, Hs.
      apply in_seq in Ht. apply in_seq in Hs. lia.
    - unfold p_sw, p_tgts. cbn [pgen p_ins p_edges map concat pe_tgt]. rewrite app_nil_r.
      rewrite <- seq_app. apply seq_NoDup.
    - intros e vals [<-|[]] Hl. cbn [pe_lbl pe_src pe_tgt] in *. rewrite seq_length in *. auto.
  Qed.

  Lemma pval_pgen w x k m inp : length w = k + m -> length inp = k -> length (interp x inp) = m ->
    pval d interp (pgen w x k m) inp (gen_mem x k inp).
  Proof.
    intros Hw Hl Hm. split; [|split].
    - cbn [pgen p_ins]. rewrite seq_length. intros i Hi. rewrite seq_nth by exact Hi. cbn [Nat.add].
      unfold gen_mem. apply Nat.ltb_lt in Hi. rewrite Hi. reflexivity.
    - intros e [<-|[]]. cbn [pe_lbl pe_src pe_tgt].
      rewrite map_gen_mem_src by exact Hl. apply map_gen_mem_tgt. exact Hm.
    - cbn [pgen p_nodes p_ins p_edges]. intros v Hv Hi Hno. exfalso.
      destruct (Nat.lt_ge_cases v k) as [Hlt|Hge].
      + apply Hi. apply in_seq. lia.
      + apply (Hno (mkPE x (seq 0 k) (seq k m))). left. reflexivity.
        cbn [pe_tgt]. apply in_seq. lia.
  Qed.

  Lemma abs_singleton (x : A) (a b : list O) :
    abs (tensor_ops_pure (ops_singleton x a b)) = pgen (a ++ b) x (length a) (length b).
  Proof.
    unfold pgen, abs, abs_hg_edges, decode_f, tensor_ops_pure, ops_singleton. cbn.
    rewrite !firstn_all2 by (rewrite seq_length; lia). reflexivity.
  Qed.

  Theorem E0_singleton (x : A) (a b : list O) :
    (forall vals, length vals = length a -> length (interp x vals) = length b) ->
    exists f, ohg_singleton x a b = Ok f /\ evaluable interp f /\
      forall inp, length inp = length a -> sem B d apply f inp (interp x inp).
  Proof.
    intros Har. set (f := tensor_ops_pure (ops_singleton x a b)).
    pose proof (wf_ics_singleton a) as Wa. pose proof (wf_ics_singleton b) as Wb.
    assert (Wf : wf_ohg f).
    { apply tensor_ops_pure_wf; try assumption; reflexivity. }
    assert (Ev : evaluable interp f).
    { apply (evaluable_bridge interp Wf). unfold f. rewrite abs_singleton.
      apply pevaluable_pgen. exact Har. }
    exists f. split. { unfold ohg_singleton. apply ohg_tensor_operations_ok; assumption. }
    split. exact Ev.
    intros inp Hl.
    assert (V : pval d interp (abs f) inp (gen_mem x (length a) inp)).
    { unfold f. rewrite abs_singleton. apply pval_pgen; auto. apply app_length. }
    pose proof (sem_intro OK AP Ev V) as S.
    change (table (o_t f)) with (p_outs (abs f)) in S. unfold f in S. rewrite abs_singleton in S.
    cbn [pgen p_outs] in S. rewrite map_gen_mem_tgt in S by (apply Har; exact Hl). exact S.
  Qed.
End Generator.

Print Assumptions E0_singleton.
Print Assumptions E1_discrete.
Print Assumptions E1_spider.
Print Assumptions E1_identity.
Print Assumptions E1_twist.
Print Assumptions E2_tensor.
Print Assumptions E3_gluing.
Print Assumptions E3_compose.
Print Assumptions E3_compose_defined.
Print Assumptions E4_iso.
Print Assumptions monogamous_evaluable.
