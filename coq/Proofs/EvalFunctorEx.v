(* Examples for Proofs/EvalFunctor.v on the test signature of the correspondence check
   ([Run.Dispatch.interp] / [apply_sig]; label 0 = wrapped sum, 1 = wrapped product, 3 = copy) and
   the VecBackend:   (x, y) |-> (x + y) * y   as  (id (x) copy) ; (add (x) id) ; mul.

   ex_circ_built   the circuit is what the model constructors return
   ex_circ_eval    eval on [3; 4] returns [28]                                   (vm_compute)
   ex_circ_sem     for ALL x y the value is derived from the values of the generators by E0-E3,
                   and the circuit is evaluable (closure part of E1-E3)
   ex_circ_u64     on u64 inputs the value is ((x + y) mod 2^64 * y) mod 2^64
   ex_*            the hypotheses of E1/E4 are satisfiable; a diagram outside the class *)
From Coq Require Import List Arith Lia Bool ZArith.
From OHG Require Import Spec.Plain Spec.GraphSpec Proofs.BackendInst Proofs.C16Lemmas Proofs.C16Thm
  Proofs.C17Thm Proofs.Assemble Proofs.EvalPlain Proofs.EvalFunctor Proofs.EvalMono.
From OHG Require Proofs.HarnessThm.
From OHG Require Import Run.Dispatch.
Import Coq.Init.Datatypes.   (* [length] is the one of lists, not of strings *)
Import ListNotations.
Close Scope string_scope.
Open Scope nat_scope.
Open Scope list_scope.
Open Scope bool_scope.

Definition oc (r : res (option (ohg nat nat))) : res (ohg nat nat) := r0 <- r ;; unwrap r0.

Definition circ : res (ohg nat nat) :=
  i <- ohg_identity nat [0] ;;
  cp <- ohg_singleton 3 [0] [0; 0] ;;
  ad <- ohg_singleton 0 [0; 0] [0] ;;
  ml <- ohg_singleton 1 [0; 0] [0] ;;
  s1 <- ohg_tensor i cp ;;
  s2 <- ohg_tensor ad i ;;
  c12 <- oc (ohg_compose VecBackend Nat.eqb s1 s2) ;;
  oc (ohg_compose VecBackend Nat.eqb c12 ml).

(* nodes: 0 = x, 1 = y, 2 and 3 = the two copies of y, 4 = x + y, 5 = the result;
   hyperedges  0: copy [1] -> [2; 3]   1: add [0; 2] -> [4]   2: mul [4; 3] -> [5] *)
Definition ex_circ : ohg nat nat :=
  mkOHG (mkFF [0; 1] 6) (mkFF [5] 6)
    (mkHG (mkIC (mkFF [1; 2; 2] 6) (mkFF [1; 0; 2; 4; 3] 6))
          (mkIC (mkFF [2; 1; 1] 5) (mkFF [2; 3; 4; 5] 6))
          [0; 0; 0; 0; 0; 0] [3; 0; 1]).

Example ex_circ_built : circ = Ok ex_circ.
Proof. vm_compute. reflexivity. Qed.

Example ex_circ_eval : eval VecBackend 0%Z apply_sig ex_circ [3%Z; 4%Z] = Ok (Some [28%Z]).
Proof. vm_compute. reflexivity. Qed.

Local Notation sem := (sem VecBackend 0%Z apply_sig).
Local Notation evaluable := (evaluable interp).
Local Notation AP := HarnessThm.apply_sig_spec.

Lemma gen_arity l (a b : list nat) : length b = HarnessThm.interp_coarity l ->
  forall vals : list Z, length vals = length a -> length (interp l vals) = length b.
Proof. intros H vals _. rewrite H. apply HarnessThm.interp_arity_table. Qed.

Theorem ex_circ_sem :
  evaluable ex_circ /\
  forall x y : Z, sem ex_circ [x; y] (interp 1 [zsum [x; zsum [y]]; zsum [y]]).
Proof.
  destruct (E1_identity VecBackend_ok 0%Z AP [0]) as (i & Hi & Ei & Si).
  destruct (E0_singleton VecBackend_ok 0%Z AP 3 [0] [0; 0] (gen_arity 3 [0] [0; 0] eq_refl))
    as (cp & Hcp & Ecp & Scp).
  destruct (E0_singleton VecBackend_ok 0%Z AP 0 [0; 0] [0] (gen_arity 0 [0; 0] [0] eq_refl))
    as (ad & Had & Ead & Sad).
  destruct (E0_singleton VecBackend_ok 0%Z AP 1 [0; 0] [0] (gen_arity 1 [0; 0] [0] eq_refl))
    as (ml & Hml & Eml & Sml).
  destruct (E2_tensor VecBackend_ok 0%Z AP Ei Ecp) as (s1 & Hs1 & Es1 & Ss1).
  destruct (E2_tensor VecBackend_ok 0%Z AP Ead Ei) as (s2 & Hs2 & Es2 & Ss2).
  (* the witnesses are the values the constructors compute *)
  vm_compute in Hi. inversion Hi; subst i. clear Hi.
  vm_compute in Hcp. inversion Hcp; subst cp. clear Hcp.
  vm_compute in Had. inversion Had; subst ad. clear Had.
  vm_compute in Hml. inversion Hml; subst ml. clear Hml.
  vm_compute in Hs1. inversion Hs1; subst s1. clear Hs1.
  vm_compute in Hs2. inversion Hs2; subst s2. clear Hs2.
  match type of Es1 with EvalPlain.evaluable _ ?a => set (s1 := a) in * end.
  match type of Es2 with EvalPlain.evaluable _ ?a => set (s2 := a) in * end.
  destruct (E3_compose_defined VecBackend_ok 0%Z AP VecBackend_ok Nat.eqb Nat.eqb_eq Es1 Es2 eq_refl)
    as (c12 & Hc12 & Ec12 & Sc12).
  vm_compute in Hc12. inversion Hc12; subst c12. clear Hc12.
  match type of Ec12 with EvalPlain.evaluable _ ?a => set (c12 := a) in * end.
  match type of Eml with EvalPlain.evaluable _ ?a => set (ml := a) in * end.
  destruct (E3_compose_defined VecBackend_ok 0%Z AP VecBackend_ok Nat.eqb Nat.eqb_eq Ec12 Eml eq_refl)
    as (c & Hc & Ec & Sc).
  vm_compute in Hc. inversion Hc; subst c. clear Hc.
  split. exact Ec.
  intros x y.
  apply (Sc [x; y] [zsum [x; zsum [y]]; zsum [y]]).
  - apply (Sc12 [x; y] [x; zsum [y]; zsum [y]]).
    + apply (Ss1 [x] [y] [x] (interp 3 [y])). reflexivity. apply Si. reflexivity. apply Scp. reflexivity.
    + apply (Ss2 [x; zsum [y]] [zsum [y]] (interp 0 [x; zsum [y]]) [zsum [y]]). reflexivity.
      apply Sad. reflexivity. apply Si. reflexivity.
  - apply (Sml [zsum [x; zsum [y]]; zsum [y]]). reflexivity.
Qed.

(* on u64 inputs: ((x + y) mod 2^64 * y) mod 2^64 *)
Corollary ex_circ_u64 (x y : Z) : (0 <= x < two64)%Z -> (0 <= y < two64)%Z ->
  sem ex_circ [x; y] [wrap (wrap (x + y) * y)].
Proof.
  intros Hx Hy. pose proof (proj2 ex_circ_sem x y) as S.
  replace (interp 1 [zsum [x; zsum [y]]; zsum [y]]) with [wrap (wrap (x + y) * y)] in S. exact S.
  unfold interp, zsum. cbn [fold_left].
  assert (Ey : wrap (0 + y) = y). { unfold wrap. rewrite Z.add_0_l. apply Z.mod_small. exact Hy. }
  rewrite Ey. rewrite Z.add_0_l, Z.mul_1_l. reflexivity.
Qed.

Example ex_circ_u64_check :
  eval VecBackend 0%Z apply_sig ex_circ [(two64 - 1)%Z; 2%Z] = Ok (Some [wrap (wrap (two64 - 1 + 2) * 2)]) /\
  wrap (wrap (two64 - 1 + 2) * 2) = 2%Z.
Proof. split. apply ex_circ_u64; vm_compute; split; congruence. vm_compute. reflexivity. Qed.

(* the circuit is also monogamous and acyclic: it is in the class C14 quantifies over *)
Example ex_circ_wf : wf_ohg ex_circ.
Proof. exact (proj1 (proj1 ex_circ_sem)). Qed.

Example ex_circ_monogamous : monogamous_spec ex_circ /\ acyclic_ops ex_circ.
Proof.
  split.
  - destruct (C17_monogamous ex_circ_wf) as (b & Hb & Hiff).
    vm_compute in Hb. inversion Hb; subst b. apply Hiff. reflexivity.
  - exact (proj1 (proj2 (proj1 ex_circ_sem))).
Qed.

Example ex_circ_circuit : circuit interp ex_circ.
Proof. apply circuit_intro. exact (proj1 ex_circ_sem). exact (proj1 ex_circ_monogamous). Qed.

(* closure on circuits (EvalMono): ex_circ (x) id, then ex_circ again:  (x, y, z) |-> ((x+y)*y + z) * z,
   without computing the composite diagram *)
Example ex_circ_closure :
  exists c2 : ohg nat nat, circuit interp c2 /\
    forall x y z : Z,
      sem c2 [x; y; z]
        (interp 1 [zsum [hd 0%Z (interp 1 [zsum [x; zsum [y]]; zsum [y]]); zsum [z]]; zsum [z]]).
Proof.
  destruct (E1_identity_circuit VecBackend_ok 0%Z AP [0]) as (i & Hi & Ci & Si).
  destruct (E2_circuit VecBackend_ok 0%Z AP ex_circ_circuit Ci) as (t & Ht & Ct & St).
  assert (Ety : tgt_type (abs t) = src_type (abs ex_circ)).
  { vm_compute in Hi. inversion Hi; subst i. vm_compute in Ht. inversion Ht; subst t. reflexivity. }
  destruct (E3_circuit_defined VecBackend_ok 0%Z AP VecBackend_ok Nat.eqb Nat.eqb_eq Ct ex_circ_circuit Ety)
    as (c2 & _ & Cc2 & Sc2).
  exists c2. split. exact Cc2.
  intros x y z.
  apply (Sc2 [x; y; z] (interp 1 [zsum [x; zsum [y]]; zsum [y]] ++ [z])).
  - apply (St [x; y] [z] _ [z]). reflexivity. apply ex_circ_sem. apply Si. reflexivity.
  - apply (proj2 ex_circ_sem).
Qed.

(* E1: the symmetry and a spider that forgets its first input and duplicates the second *)
Example ex_twist :
  exists f, ohg_twist nat [0] [0; 0] = Ok f /\ evaluable f /\
    forall x y z : Z, sem f [x; y; z] [y; z; x].
Proof.
  destruct (E1_twist VecBackend_ok 0%Z AP [0] [0; 0]) as (f & Hf & Ef & Sf).
  exists f. split. exact Hf. split. exact Ef.
  intros x y z. apply (Sf [x] [y; z]); reflexivity.
Qed.

Example ex_spider :
  exists h, ohg_spider nat (mkFF [0; 1] 2) (mkFF [1; 1] 2) [0; 0] = Some h /\ evaluable h /\
    forall x y : Z, sem h [x; y] [y; y].
Proof.
  exists (mkOHG (mkFF [0; 1] 2) (mkFF [1; 1] 2) (hg_discrete nat [0; 0])). split. reflexivity.
  assert (Ws : wf_ff (mkFF [0; 1] 2)) by (repeat constructor).
  assert (Wt : wf_ff (mkFF [1; 1] 2)) by (repeat constructor).
  assert (Hnd : NoDup (table (mkFF [0; 1] 2))).
  { cbn. repeat (constructor; [cbn; intuition discriminate|]). constructor. }
  split.
  - apply (E1_spider VecBackend_ok 0%Z AP (s := mkFF [0; 1] 2) (t := mkFF [1; 1] 2) [0; 0] [] eq_refl Ws Wt Hnd).
  - intros x y.
    apply (E1_spider VecBackend_ok 0%Z AP (s := mkFF [0; 1] 2) (t := mkFF [1; 1] 2) [0; 0] [x; y] eq_refl Ws Wt Hnd).
Qed.

(* a source leg that is not injective is outside the class: two writers for node 0, and the value
   depends on the back-end's write order *)
Definition ex_merge : ohg nat nat := mkOHG (mkFF [0; 0] 1) (mkFF [0] 1) (hg_discrete nat [0]).

Example ex_merge_not_evaluable : wf_ohg ex_merge /\ ~ evaluable ex_merge.
Proof.
  split.
  - unfold wf_ohg, wf_hg, wf_icf, wf_ic, wf_ff, all_lt. cbn.
    repeat split; try reflexivity; repeat constructor.
  - intros (_ & _ & SW & _). apply sw_ins in SW. cbn in SW.
    inversion SW as [|a l Hn _]. apply Hn. left. reflexivity.
Qed.

(* E4: the circuit with nodes and hyperedges renumbered computes the same function *)
Definition ex_circ' : ohg nat nat :=
  mkOHG (mkFF [5; 4] 6) (mkFF [0] 6)
    (mkHG (mkIC (mkFF [2; 2; 1] 6) (mkFF [1; 2; 5; 3; 4] 6))
          (mkIC (mkFF [1; 1; 2] 5) (mkFF [0; 1; 3; 2] 6))
          [0; 0; 0; 0; 0; 0] [1; 0; 3]).

Definition ex_pn' (i : nat) : nat := nth i [5; 4; 3; 2; 1; 0] i.
Definition ex_pe' (e : nat) : nat := nth e [2; 1; 0] e.

Example ex_circ'_wf : wf_ohg ex_circ'.
Proof.
  unfold wf_ohg, wf_hg, wf_icf, wf_ic, wf_ff, all_lt. cbn.
  repeat split; try reflexivity; repeat constructor.
Qed.

Example ex_circ_iso : Iso (abs ex_circ) (abs ex_circ').
Proof.
  split. reflexivity. split. reflexivity. exists ex_pn', ex_pe'.
  split; [|split; [|split; [|split; [|split]]]].
  - split.
    + intros i Hi. cbn in Hi. do 6 (destruct i as [|i]; [cbn; lia|]). lia.
    + intros i j Hi Hj. cbn in Hi, Hj.
      do 6 (destruct i as [|i]; [do 6 (destruct j as [|j]; [cbn; try lia|]); lia|]). lia.
  - split.
    + intros i Hi. cbn in Hi. do 3 (destruct i as [|i]; [cbn; lia|]). lia.
    + intros i j Hi Hj. cbn in Hi, Hj.
      do 3 (destruct i as [|i]; [do 3 (destruct j as [|j]; [cbn; try lia|]); lia|]). lia.
  - intros i Hi. cbn in Hi. do 6 (destruct i as [|i]; [reflexivity|]). lia.
  - intros e He. cbn in He. do 3 (destruct e as [|e]; [reflexivity|]). lia.
  - reflexivity.
  - reflexivity.
Qed.

Example ex_circ'_sem : evaluable ex_circ' /\
  forall x y : Z, sem ex_circ' [x; y] (interp 1 [zsum [x; zsum [y]]; zsum [y]]).
Proof.
  destruct (E4_iso VecBackend_ok 0%Z AP (proj1 ex_circ_sem) ex_circ'_wf ex_circ_iso) as (Ev & _ & Hs).
  split. exact Ev. intros x y. apply (proj1 (Hs _ _)). exact (proj2 ex_circ_sem x y).
Qed.

Print Assumptions ex_circ_sem.
Print Assumptions ex_circ'_sem.
