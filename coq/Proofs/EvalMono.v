(* Monogamous acyclic circuits (the class of diagrams property C14 quantifies over) are closed under
   identity, symmetry, generators, tensor and sequential composition, and evaluation is functorial
   on them.

     circuit interp f := wf_ohg f /\ monogamous_spec f /\ acyclic_ops f /\ arity_ok interp f

   mono_bridge          monogamous_spec f <-> p_mono (abs f)            (two exact covers of the nodes)
   E3_monogamous        composition preserves monogamy (for any back-end computing the composite)
   E2_monogamous        tensor preserves monogamy
   identity_monogamous, twist_monogamous, singleton_monogamous
   circuit_evaluable, E0_circuit, E1_identity_circuit, E1_twist_circuit, E2_circuit, E3_circuit *)
From OHG Require Import Spec.Plain Spec.GraphSpec Proofs.PrimsThm Proofs.SegThm Proofs.C07aThm
  Proofs.C08Thm Proofs.BackendInst Proofs.CCThm Proofs.C01Lemmas Proofs.C01Thm Proofs.QuotThm
  Proofs.C03Plain Proofs.C03Thm Proofs.C02Thm Proofs.C04Thm Proofs.C05Thm Proofs.C17Thm
  Proofs.C16Lemmas Proofs.C16Thm Proofs.C16Iso Proofs.Assemble Proofs.EvalPlain Proofs.EvalFunctor.
From Coq Require Import List Arith Lia Bool Permutation.
Import ListNotations.

Set Implicit Arguments.

Arguments Nat.sub : simpl never.

(* ================================================================== *)
(** * 1. monogamous_spec on the plain model *)
(* ================================================================== *)

Lemma cover_iff n (I D : list nat) : (forall v, In v (I ++ D) -> v < n) ->
  (cover n (I ++ D) <->
   NoDup I /\ forall v, v < n ->
     (count_occ Nat.eq_dec D v = 1 /\ ~ In v I) \/ (count_occ Nat.eq_dec D v = 0 /\ In v I)).
Proof.
  intros Hlt. split.
  - intros (Hnd & Hin). apply NoDup_app_iff in Hnd. destruct Hnd as (NI & ND & Hd).
    split. exact NI. intros v Hv. apply Hin in Hv. apply in_app_or in Hv. destruct Hv as [Hv|Hv].
    + right. split; auto. apply count_occ_not_In. apply Hd. exact Hv.
    + left. split.
      * pose proof (proj1 (NoDup_count_occ Nat.eq_dec D) ND v).
        pose proof (proj1 (count_occ_In Nat.eq_dec D v) Hv). lia.
      * intros Hi. exact (Hd v Hi Hv).
  - intros (NI & Hc). split.
    + apply (NoDup_count_occ Nat.eq_dec). intros v. rewrite count_occ_app.
      destruct (Nat.lt_ge_cases v n) as [Hv|Hv].
      * destruct (Hc v Hv) as [(E1 & Hn)|(E0 & Hi)].
        -- rewrite E1. rewrite (proj1 (count_occ_not_In Nat.eq_dec _ _) Hn). lia.
        -- rewrite E0. pose proof (proj1 (NoDup_count_occ Nat.eq_dec _) NI v). lia.
      * rewrite (proj1 (count_occ_not_In Nat.eq_dec I v)).
        rewrite (proj1 (count_occ_not_In Nat.eq_dec D v)). lia.
        -- intros Hin. assert (v < n) by (apply Hlt; apply in_or_app; right; exact Hin). lia.
        -- intros Hin. assert (v < n) by (apply Hlt; apply in_or_app; left; exact Hin). lia.
    + intros v. split. apply Hlt. intros Hv. apply in_or_app.
      destruct (Hc v Hv) as [(E1 & _)|(_ & Hi)].
      * right. apply (count_occ_In Nat.eq_dec). lia.
      * left. exact Hi.
Qed.

Lemma cover_seq n : cover n (seq 0 n).
Proof. split. apply seq_NoDup. intros v. rewrite in_seq. lia. Qed.

Section Bridge.
  Variables O A : Type.

  Lemma map_src_zip3 : forall (xs : list A) ss ts, length ss = length xs -> length ts = length xs ->
    map (@pe_src A) (zip3 xs ss ts) = ss.
  Proof.
    induction xs as [|x xs IH]; intros [|s ss] [|t ts] Hs Ht; cbn [length] in Hs, Ht; try discriminate.
    - reflexivity.
    - cbn [zip3 map pe_src]. f_equal. apply IH; lia.
  Qed.

  Variable f : ohg O A.
  Hypothesis Wf : wf_ohg f.
  Local Notation n := (length (h_w (o_h f))).

  Lemma abs_srcs : p_srcs (abs f) = concat (decode_f (h_s (o_h f))).
  Proof.
    unfold p_srcs. cbn [abs p_edges]. unfold abs_hg_edges. rewrite map_src_zip3. reflexivity.
    apply (decode_s_length Wf). apply decode_t_length. exact (proj1 Wf).
  Qed.

  Lemma abs_p_tgts : p_tgts (abs f) = concat (decode_f (h_t (o_h f))).
  Proof. unfold p_tgts. rewrite (abs_tgts Wf). reflexivity. Qed.

  Lemma concat_decode_s_lt v : In v (concat (decode_f (h_s (o_h f)))) -> v < n.
  Proof.
    intros H. apply In_concat_nth in H. destruct H as (e & _ & Hv).
    eapply op_src_lt. exact (proj1 Wf). exact Hv.
  Qed.

  Theorem mono_bridge : monogamous_spec f <-> p_mono (abs f).
  Proof.
    unfold p_mono. rewrite abs_srcs, abs_p_tgts. cbn [abs p_nodes p_ins p_outs].
    assert (H1 : forall v, In v (table (o_s f) ++ concat (decode_f (h_t (o_h f)))) -> v < n).
    { intros v Hv. apply in_app_or in Hv. destruct Hv as [Hv|Hv].
      apply (ins_lt' Wf); auto. apply (concat_decode_lt v Wf); auto. }
    assert (H2 : forall v, In v (table (o_t f) ++ concat (decode_f (h_s (o_h f)))) -> v < n).
    { intros v Hv. apply in_app_or in Hv. destruct Hv as [Hv|Hv].
      apply (outs_lt' Wf); auto. apply concat_decode_s_lt; auto. }
    assert (P : cover n (concat (decode_f (h_s (o_h f))) ++ table (o_t f)) <->
                cover n (table (o_t f) ++ concat (decode_f (h_s (o_h f))))).
    { split; apply cover_perm; apply Permutation_app_comm. }
    rewrite P, (cover_iff _ _ H1), (cover_iff _ _ H2).
    unfold monogamous_spec. split.
    - intros (NI & NO & Hd). split; (split; [assumption|]); intros v Hv;
        destruct (C17_degrees_decoded v (proj1 Wf)) as (Ei & Eo); rewrite <- ?Ei, <- ?Eo; apply Hd; exact Hv.
    - intros ((NI & HI) & (NO & HO)). split. exact NI. split. exact NO. intros v Hv.
      destruct (C17_degrees_decoded v (proj1 Wf)) as (Ei & Eo). rewrite Ei, Eo. split; auto.
  Qed.
End Bridge.

(* ================================================================== *)
(** * 2. closure of monogamy *)
(* ================================================================== *)

Section Closure.
  Variables O A : Type.

  Theorem E3_monogamous_gluing (f g h : ohg O A) : wf_ohg f -> wf_ohg g -> wf_ohg h ->
    length (table (o_t f)) = length (table (o_s g)) ->
    IsCompose (abs f) (abs g) (abs h) ->
    monogamous_spec f -> monogamous_spec g -> monogamous_spec h.
  Proof.
    intros Wf Wg Wh HL (q & HQ & HK) Mf Mg.
    apply (mono_bridge Wh).
    apply (mono_compose (wf_abs_pwf Wf) (wf_abs_pwf Wg) HQ HK HL).
    - destruct Mg as (NI & _). exact NI.
    - apply (mono_bridge Wf). exact Mf.
    - apply (mono_bridge Wg). exact Mg.
  Qed.

  Theorem E3_monogamous (Bc : Backend) (OKc : BackendOK Bc) (eqO : O -> O -> bool)
      (eqO_spec : forall x y, eqO x y = true <-> x = y) (f g h : ohg O A) :
    wf_ohg f -> wf_ohg g -> monogamous_spec f -> monogamous_spec g ->
    ohg_compose Bc eqO f g = Ok (Some h) -> wf_ohg h /\ monogamous_spec h.
  Proof.
    intros Wf Wg Mf Mg Hc.
    destruct (compose_cases eqO eqO_spec OKc Wf Wg) as [(_ & Hn)|(Ety & _)].
    { rewrite Hn in Hc. discriminate. }
    destruct (C01_compose_is_gluing OKc eqO eqO_spec Wf Wg Ety) as (h' & Hc' & Wh & Hi).
    rewrite Hc in Hc'. inversion Hc'; subst h'. split. exact Wh.
    apply (E3_monogamous_gluing Wf Wg Wh); auto.
    apply (f_equal (@length _)) in Ety. unfold tgt_type, src_type, type_of in Ety.
    rewrite !map_length in Ety. exact Ety.
  Qed.

  Theorem E2_monogamous (f g : ohg O A) : wf_ohg f -> wf_ohg g ->
    monogamous_spec f -> monogamous_spec g ->
    exists t, ohg_tensor f g = Ok t /\ wf_ohg t /\ monogamous_spec t.
  Proof.
    intros Wf Wg Mf Mg. destruct (C02_tensor_is_juxtaposition Wf Wg) as (t & Ht & Wt & Eabs).
    exists t. split. exact Ht. split. exact Wt.
    apply (mono_bridge Wt). rewrite Eabs. apply p_mono_ptensor; apply mono_bridge; assumption.
  Qed.

  Theorem identity_monogamous (w : list O) : monogamous_spec (id_pure A w).
  Proof.
    apply (mono_bridge (wf_id_pure A w)). rewrite abs_id_pure.
    unfold p_mono, p_tgts, p_srcs. cbn [pid pwire p_nodes p_ins p_outs p_edges map concat].
    rewrite app_nil_r. cbn [app]. split; apply cover_seq.
  Qed.

  Theorem twist_monogamous (a b : list O) : monogamous_spec (twist_pure A a b).
  Proof.
    apply (mono_bridge (wf_twist_pure A a b)). rewrite abs_twist_pure.
    unfold p_mono, p_tgts, p_srcs. cbn [ptwist pwire p_nodes p_ins p_outs p_edges map concat].
    rewrite app_nil_r, app_length. cbn [app]. split.
    - apply (@cover_perm _ (seq 0 (length b) ++ seq (length b) (length a))).
      apply Permutation_app_comm. rewrite <- seq_app. apply cover_seq.
    - rewrite (Nat.add_comm (length a)). apply cover_seq.
  Qed.

  Theorem singleton_monogamous (x : A) (a b : list O) :
    monogamous_spec (tensor_ops_pure (ops_singleton x a b)).
  Proof.
    assert (Wf : wf_ohg (tensor_ops_pure (ops_singleton x a b))).
    { apply tensor_ops_pure_wf; try apply wf_ics_singleton; reflexivity. }
    apply (mono_bridge Wf). rewrite abs_singleton.
    unfold p_mono, p_tgts, p_srcs. cbn [pgen p_nodes p_ins p_outs p_edges map concat pe_src pe_tgt].
    rewrite !app_nil_r, app_length, <- seq_app. split; apply cover_seq.
  Qed.
End Closure.

(* ================================================================== *)
(** * 3. evaluation is functorial on monogamous acyclic circuits *)
(* ================================================================== *)

Section Circuits.
  Variable B : Backend.
  Hypothesis OK : BackendOK B.
  Variables O A T : Type.
  Variable d : T.
  Variable interp : A -> list T -> list T.
  Variable apply : list A -> ic (list T) -> res (ic (list T)).
  Hypothesis AP : apply_spec interp apply.

  Local Notation sem := (sem B d apply).

  Definition circuit (f : ohg O A) : Prop :=
    wf_ohg f /\ monogamous_spec f /\ acyclic_ops f /\ arity_ok interp f.

  Theorem circuit_evaluable f : circuit f -> evaluable interp f.
  Proof. intros (Wf & Mf & Hac & Har). apply monogamous_evaluable; assumption. Qed.

  Lemma circuit_intro f : evaluable interp f -> monogamous_spec f -> circuit f.
  Proof. intros (Wf & Hac & _ & Har) Mf. split; auto. Qed.

  (* every circuit has a value on every input array *)
  Theorem circuit_total f inp : circuit f -> exists out, sem f inp out.
  Proof. intros C. apply (sem_total OK d AP). apply circuit_evaluable. exact C. Qed.

  Theorem E0_circuit (x : A) (a b : list O) :
    (forall vals, length vals = length a -> length (interp x vals) = length b) ->
    exists f, ohg_singleton x a b = Ok f /\ circuit f /\
      forall inp, length inp = length a -> sem f inp (interp x inp).
  Proof.
    intros Har. destruct (E0_singleton OK d AP x a b Har) as (f & Hf & Ef & Sf).
    exists f. split. exact Hf. split; [|exact Sf].
    apply circuit_intro. exact Ef.
    unfold ohg_singleton in Hf. rewrite ohg_tensor_operations_ok in Hf by apply wf_ics_singleton.
    inversion Hf. apply singleton_monogamous.
  Qed.

  Theorem E1_identity_circuit (w : list O) :
    exists f, ohg_identity A w = Ok f /\ circuit f /\
      forall inp, length inp = length w -> sem f inp inp.
  Proof.
    destruct (E1_identity OK d AP w) as (f & Hf & Ef & Sf).
    exists f. split. exact Hf. split; [|exact Sf].
    apply circuit_intro. exact Ef. rewrite ohg_identity_ok in Hf. inversion Hf. apply identity_monogamous.
  Qed.

  Theorem E1_twist_circuit (a b : list O) :
    exists f, ohg_twist A a b = Ok f /\ circuit f /\
      forall x y, length x = length a -> length y = length b -> sem f (x ++ y) (y ++ x).
  Proof.
    destruct (E1_twist OK d AP a b) as (f & Hf & Ef & Sf).
    exists f. split. exact Hf. split; [|exact Sf].
    apply circuit_intro. exact Ef. rewrite ohg_twist_ok in Hf. inversion Hf. apply twist_monogamous.
  Qed.

  Theorem E2_circuit (f g : ohg O A) : circuit f -> circuit g ->
    exists t, ohg_tensor f g = Ok t /\ circuit t /\
      forall x y u v, length x = length (table (o_s f)) ->
        sem f x u -> sem g y v -> sem t (x ++ y) (u ++ v).
  Proof.
    intros Cf Cg.
    destruct (E2_tensor OK d AP (circuit_evaluable Cf) (circuit_evaluable Cg)) as (t & Ht & Et & St).
    exists t. split. exact Ht. split; [|exact St].
    apply circuit_intro. exact Et.
    destruct Cf as (Wf & Mf & _). destruct Cg as (Wg & Mg & _).
    destruct (E2_monogamous Wf Wg Mf Mg) as (t' & Ht' & _ & Mt).
    rewrite Ht in Ht'. inversion Ht'; subst t'. exact Mt.
  Qed.

  Section Compose.
    Variable Bc : Backend.
    Hypothesis OKc : BackendOK Bc.
    Variable eqO : O -> O -> bool.
    Hypothesis eqO_spec : forall x y, eqO x y = true <-> x = y.

    (* E3 as asked: for monogamous acyclic f : A -> B and g : B -> C the composite h is again a
       monogamous acyclic circuit, and the value of h is the value of g on the value of f *)
    Theorem E3_circuit (f g h : ohg O A) : circuit f -> circuit g ->
      ohg_compose Bc eqO f g = Ok (Some h) ->
      circuit h /\ forall x u v, sem f x u -> sem g u v -> sem h x v.
    Proof.
      intros Cf Cg Hc.
      destruct (E3_compose OK d AP OKc eqO eqO_spec (circuit_evaluable Cf) (circuit_evaluable Cg) Hc)
        as (Eh & Sh).
      split; [|exact Sh]. apply circuit_intro. exact Eh.
      destruct Cf as (Wf & Mf & _). destruct Cg as (Wg & Mg & _).
      exact (proj2 (E3_monogamous OKc eqO eqO_spec Wf Wg Mf Mg Hc)).
    Qed.

    Corollary E3_circuit_defined (f g : ohg O A) : circuit f -> circuit g ->
      tgt_type (abs f) = src_type (abs g) ->
      exists h, ohg_compose Bc eqO f g = Ok (Some h) /\ circuit h /\
        forall x u v, sem f x u -> sem g u v -> sem h x v.
    Proof.
      intros Cf Cg Ety.
      destruct (C01_compose_is_gluing OKc eqO eqO_spec (proj1 Cf) (proj1 Cg) Ety) as (h & Hc & _ & _).
      exists h. split. exact Hc. apply E3_circuit; auto.
    Qed.
  End Compose.
End Circuits.

Print Assumptions mono_bridge.
Print Assumptions E3_monogamous.
Print Assumptions E2_monogamous.
Print Assumptions E0_circuit.
Print Assumptions E1_identity_circuit.
Print Assumptions E1_twist_circuit.
Print Assumptions E2_circuit.
Print Assumptions E3_circuit.
Print Assumptions E3_circuit_defined.
