(* Evaluation seen from the plain model.

   [pval g inp mem] : the function [mem : nat -> T] is a valuation of the plain diagram [g] for the
   input values [inp]; [pevaluable g] : [g] has a rank function on its hyperedges (no dependency cycle),
   every node has at most one writer, and the interpreter respects the co-arities.
   For a well-formed array-encoded diagram [f] these are the notions of C16 for [f] read on [abs f]
   (bridging lemmas of section 2), and

     sem_intro :  evaluable f -> pval (abs f) inp mem -> sem f inp (map mem (table (o_t f)))
     sem_elim  :  evaluable f -> sem f inp out -> exists mem, pval (abs f) inp mem /\ out = map mem outs

   where [sem f inp out := eval B d apply f inp = Ok (Some out)].  No hypothesis on the length of
   [inp] is needed: missing input values read as the default value, surplus ones are ignored
   ([eval_inp_ext]).  Proofs/EvalFunctor.v derives the functoriality theorems from these two. *)
From OHG Require Import Spec.Plain Spec.GraphSpec Proofs.PrimsThm Proofs.SegThm Proofs.C07aThm
  Proofs.C08Thm Proofs.BackendInst Proofs.KahnThm Proofs.AdjThm Proofs.C16Lemmas Proofs.C16Thm
  Proofs.C16Iso Proofs.Assemble.
From Coq Require Import List Arith Lia Bool Permutation Relation_Operators.
Import ListNotations.

Set Implicit Arguments.

Arguments Nat.sub : simpl never.

(* ================================================================== *)
(** * 1. list facts *)
(* ================================================================== *)

(* position of the first occurrence *)
Fixpoint pos_of (v : nat) (l : list nat) : option nat :=
  match l with
  | [] => None
  | x :: l' => if x =? v then Some 0 else option_map S (pos_of v l')
  end.

Lemma pos_of_Some v : forall l k, pos_of v l = Some k -> k < length l /\ nth k l 0 = v.
Proof.
  induction l as [|x l IH]; intros k H; cbn [pos_of] in H. discriminate.
  destruct (x =? v) eqn:E.
  - inversion H; subst. apply Nat.eqb_eq in E. cbn. split. lia. exact E.
  - destruct (pos_of v l) as [k'|]; cbn [option_map] in H; inversion H; subst.
    destruct (IH k' eq_refl) as (H1 & H2). cbn [length nth]. split. lia. exact H2.
Qed.

Lemma pos_of_None v : forall l, pos_of v l = None -> ~ In v l.
Proof.
  induction l as [|x l IH]; intros H; cbn [pos_of] in H. intros [].
  destruct (x =? v) eqn:E. discriminate.
  destruct (pos_of v l) as [k'|]; cbn [option_map] in H. discriminate.
  apply Nat.eqb_neq in E. intros [Hx|Hx]. contradiction. apply IH; auto.
Qed.

Lemma pos_of_nth : forall l i, NoDup l -> i < length l -> pos_of (nth i l 0) l = Some i.
Proof.
  induction l as [|x l IH]; intros i Hnd Hi; cbn [length] in Hi. lia.
  inversion Hnd as [|x' l' Hni Hnd']; subst. destruct i as [|i]; cbn [nth pos_of].
  - rewrite Nat.eqb_refl. reflexivity.
  - destruct (x =? nth i l 0) eqn:E.
    + apply Nat.eqb_eq in E. exfalso. apply Hni. rewrite E. apply nth_In. lia.
    + rewrite IH by (auto; lia). reflexivity.
Qed.

Lemma pos_of_notin v l : ~ In v l -> pos_of v l = None.
Proof.
  intros H. destruct (pos_of v l) as [k|] eqn:E; auto.
  apply pos_of_Some in E. destruct E as (Hk & <-). exfalso. apply H. apply nth_In. exact Hk.
Qed.

Lemma nth_map_0 (q : nat -> nat) l i : i < length l -> nth i (map q l) 0 = q (nth i l 0).
Proof.
  intros H. rewrite (nth_indep (map q l) 0 (q 0)) by (rewrite map_length; exact H). apply map_nth.
Qed.

Lemma nth_map_d {X Y} (g : X -> Y) l i dx dy : i < length l -> nth i (map g l) dy = g (nth i l dx).
Proof.
  intros H. rewrite (nth_indep (map g l) dy (g dx)) by (rewrite map_length; exact H). apply map_nth.
Qed.

Lemma In_nth_0 (l : list nat) v : In v l -> exists i, i < length l /\ nth i l 0 = v.
Proof. apply In_nth. Qed.

Lemma all_lt_in n l v : all_lt n l -> In v l -> v < n.
Proof. unfold all_lt. rewrite Forall_forall. auto. Qed.

Lemma map_seq_nth {X} (l : list X) dx : map (fun i => nth i l dx) (seq 0 (length l)) = l.
Proof.
  apply nth_ext with (d := dx) (d' := dx). rewrite map_length, seq_length. reflexivity.
  intros i Hi. rewrite map_length, seq_length in Hi. rewrite nth_map_seq by exact Hi. reflexivity.
Qed.

Lemma concat_map_map {X Y} (g : X -> Y) (D : list (list X)) : concat (map (map g) D) = map g (concat D).
Proof. symmetry. apply concat_map. Qed.

(* ================================================================== *)
(** * 2. the plain notions and their agreement with C16 *)
(* ================================================================== *)

Section PlainEval.
  Variables O A T : Type.
  Variable d : T.
  Variable interp : A -> list T -> list T.

  Definition pval (g : pohg O A) (inp : list T) (mem : nat -> T) : Prop :=
    (forall i, i < length (p_ins g) -> mem (nth i (p_ins g) 0) = nth i inp d) /\
    (forall e, In e (p_edges g) -> map mem (pe_tgt e) = interp (pe_lbl e) (map mem (pe_src e))) /\
    (forall v, v < length (p_nodes g) -> ~ In v (p_ins g) ->
       (forall e, In e (p_edges g) -> ~ In v (pe_tgt e)) -> mem v = d).

  (* all written positions of g, in order: the inputs, then the targets of every hyperedge *)
  Definition p_tgts (g : pohg O A) : list nat := concat (map (@pe_tgt A) (p_edges g)).
  Definition p_sw (g : pohg O A) : Prop := NoDup (p_ins g ++ p_tgts g).

  Definition p_arity (g : pohg O A) : Prop :=
    forall e vals, In e (p_edges g) -> length vals = length (pe_src e) ->
      length (interp (pe_lbl e) vals) = length (pe_tgt e).

  Definition p_ranked (g : pohg O A) : Prop :=
    exists lev : nat -> nat, forall x y ex ey v,
      nth_error (p_edges g) x = Some ex -> nth_error (p_edges g) y = Some ey ->
      In v (pe_tgt ex) -> In v (pe_src ey) -> lev x < lev y.

  Definition pevaluable (g : pohg O A) : Prop := p_ranked g /\ p_sw g /\ p_arity g.

  (* the class of diagrams on which [eval] computes the valuation *)
  Definition evaluable (f : ohg O A) : Prop :=
    wf_ohg f /\ acyclic_ops f /\ single_writer f /\ arity_ok interp f.

  Lemma pval_inp_ext g inp inp' mem :
    (forall i, i < length (p_ins g) -> nth i inp d = nth i inp' d) -> pval g inp mem -> pval g inp' mem.
  Proof.
    intros H (V1 & V2 & V3). split; [|split]; auto. intros i Hi. rewrite <- H by exact Hi. auto.
  Qed.

  Lemma p_sw_ins g : p_sw g -> NoDup (p_ins g).
  Proof. intros H. apply NoDup_app_iff in H. tauto. Qed.

  Lemma p_sw_tgts g : p_sw g -> NoDup (p_tgts g).
  Proof. intros H. apply NoDup_app_iff in H. tauto. Qed.

  Lemma In_p_tgts g v : In v (p_tgts g) <-> exists e, In e (p_edges g) /\ In v (pe_tgt e).
  Proof.
    unfold p_tgts. rewrite in_concat. split.
    - intros (l & Hl & Hv). apply in_map_iff in Hl. destruct Hl as (e & <- & He). eauto.
    - intros (e & He & Hv). exists (pe_tgt e). split; auto. apply in_map. exact He.
  Qed.

  Lemma p_sw_tgt_not_in g e v : p_sw g -> In e (p_edges g) -> In v (pe_tgt e) -> ~ In v (p_ins g).
  Proof.
    intros H He Hv Hi. apply NoDup_app_iff in H. destruct H as (_ & _ & H).
    apply (H v Hi). apply In_p_tgts. eauto.
  Qed.

  (* ---------- the array encoding, hyperedge by hyperedge ---------- *)
  Lemma map_tgt_zip3 : forall (xs : list A) ss ts, length ss = length xs -> length ts = length xs ->
    map (@pe_tgt A) (zip3 xs ss ts) = ts.
  Proof.
    induction xs as [|x xs IH]; intros [|s ss] [|t ts] Hs Ht; cbn [length] in Hs, Ht; try discriminate.
    - reflexivity.
    - cbn [zip3 map pe_tgt]. f_equal. apply IH; lia.
  Qed.

  Section Bridge.
    Variable f : ohg O A.
    Hypothesis Wf : wf_ohg f.

    Local Notation n := (length (h_w (o_h f))).

    Lemma abs_tgts : map (@pe_tgt A) (p_edges (abs f)) = decode_f (h_t (o_h f)).
    Proof.
      cbn [abs p_edges]. unfold abs_hg_edges. apply map_tgt_zip3. apply (decode_s_length Wf).
      apply decode_t_length. exact (proj1 Wf).
    Qed.

    Lemma sw_bridge : p_sw (abs f) <-> single_writer f.
    Proof. unfold p_sw, p_tgts, single_writer. rewrite abs_tgts. reflexivity. Qed.

    Lemma abs_edge_In e : In e (p_edges (abs f)) <->
      exists k a, nth_error (h_x (o_h f)) k = Some a /\ e = mkPE a (op_src (o_h f) k) (op_tgt (o_h f) k).
    Proof.
      split.
      - intros H. apply In_nth_error in H. destruct H as (k & Hk). rewrite (abs_edge Wf) in Hk.
        destruct (nth_error (h_x (o_h f)) k) as [a|] eqn:E; cbn [option_map] in Hk. 2: discriminate.
        inversion Hk; subst. eauto.
      - intros (k & a & Ha & ->). apply nth_error_In with (n := k). rewrite (abs_edge Wf), Ha. reflexivity.
    Qed.

    Lemma arity_bridge : p_arity (abs f) <-> arity_ok interp f.
    Proof.
      split.
      - intros H e a vals Ha Hl.
        apply (H (mkPE a (op_src (o_h f) e) (op_tgt (o_h f) e)) vals); auto.
        apply abs_edge_In. eauto.
      - intros H e vals Hin Hl. apply abs_edge_In in Hin. destruct Hin as (k & a & Ha & ->).
        cbn [pe_lbl pe_src pe_tgt] in *. apply (H k a); auto.
    Qed.

    Lemma ranked_bridge : p_ranked (abs f) <-> acyclic_ops f.
    Proof.
      split.
      - intros (lev & H). apply rank_acyclic with (lev := lev). intros x y (Hx & Hy & v & Ht & Hs).
        destruct (nth_error (h_x (o_h f)) x) as [a|] eqn:Ea. 2:{ apply nth_error_None in Ea. lia. }
        destruct (nth_error (h_x (o_h f)) y) as [b|] eqn:Eb. 2:{ apply nth_error_None in Eb. lia. }
        apply (H x y (mkPE a (op_src (o_h f) x) (op_tgt (o_h f) x))
                     (mkPE b (op_src (o_h f) y) (op_tgt (o_h f) y)) v); auto.
        + rewrite (abs_edge Wf), Ea. reflexivity.
        + rewrite (abs_edge Wf), Eb. reflexivity.
      - intros Hac. destruct (acyclic_rank Hac) as (lev & Hlev). exists lev.
        intros x y ex ey v Hx Hy Ht Hs. rewrite (abs_edge Wf) in Hx, Hy.
        destruct (nth_error (h_x (o_h f)) x) as [a|] eqn:Ea; cbn [option_map] in Hx. 2: discriminate.
        destruct (nth_error (h_x (o_h f)) y) as [b|] eqn:Eb; cbn [option_map] in Hy. 2: discriminate.
        inversion Hx; subst ex. inversion Hy; subst ey. cbn [pe_src pe_tgt] in Ht, Hs.
        apply Hlev. split. apply nth_error_Some; congruence. split. apply nth_error_Some; congruence.
        exists v. auto.
    Qed.

    Lemma evaluable_bridge : evaluable f <-> pevaluable (abs f).
    Proof.
      unfold evaluable, pevaluable. rewrite ranked_bridge, sw_bridge, arity_bridge. tauto.
    Qed.

    Lemma ins_lt' v : In v (table (o_s f)) -> v < n.
    Proof.
      destruct Wf as (_ & Ws & _ & Es & _). unfold wf_ff, all_lt in Ws. rewrite Forall_forall in Ws.
      intros H. rewrite <- Es. auto.
    Qed.

    Lemma outs_lt' v : In v (table (o_t f)) -> v < n.
    Proof.
      destruct Wf as (_ & _ & Wt & _ & Et). unfold wf_ff, all_lt in Wt. rewrite Forall_forall in Wt.
      intros H. rewrite <- Et. auto.
    Qed.

    Lemma val_to_pval inp mem : Valuation d interp f inp mem -> pval (abs f) inp (fun v => nth v mem d).
    Proof.
      intros (V1 & V2 & V3). split; [|split].
      - exact V1.
      - intros e He. apply abs_edge_In in He. destruct He as (k & a & Ha & ->).
        cbn [pe_lbl pe_src pe_tgt]. exact (V2 k a Ha).
      - cbn [abs p_nodes p_ins]. intros v Hv Hi Hno. apply V3; auto.
        intros e He Hin. destruct (nth_error (h_x (o_h f)) e) as [a|] eqn:Ea.
        2:{ apply nth_error_None in Ea. lia. }
        apply (Hno (mkPE a (op_src (o_h f) e) (op_tgt (o_h f) e))). apply abs_edge_In. eauto. exact Hin.
    Qed.

    Lemma rd_tab (mem : nat -> T) v : v < n -> rd d (map mem (seq 0 n)) v = mem v.
    Proof. intros Hv. unfold rd. rewrite nth_map_seq by exact Hv. reflexivity. Qed.

    Lemma map_rd_tab (mem : nat -> T) l : (forall v, In v l -> v < n) ->
      map (rd d (map mem (seq 0 n))) l = map mem l.
    Proof. intros H. apply map_ext_in. intros v Hv. apply rd_tab. auto. Qed.

    Lemma pval_to_val inp mem : pval (abs f) inp mem -> Valuation d interp f inp (map mem (seq 0 n)).
    Proof.
      intros (V1 & V2 & V3). split; [|split].
      - intros i Hi. rewrite rd_tab. exact (V1 i Hi). apply ins_lt'. apply nth_In. exact Hi.
      - intros e a Ha. rewrite !map_rd_tab.
        + apply (V2 (mkPE a (op_src (o_h f) e) (op_tgt (o_h f) e))). apply abs_edge_In. eauto.
        + intros v. apply op_src_lt. exact (proj1 Wf).
        + intros v. apply op_tgt_lt. exact (proj1 Wf).
      - intros v Hv Hi Hno. rewrite rd_tab by exact Hv. apply V3; auto.
        intros e He Hin. apply abs_edge_In in He. destruct He as (k & a & Ha & ->).
        cbn [pe_tgt] in Hin. apply (Hno k); auto. apply nth_error_Some. congruence.
    Qed.
  End Bridge.

  (* ================================================================== *)
  (** * 3. the input array is read position by position, padded with the default value *)
  (* ================================================================== *)

  Lemma rd_write_nodup : forall ix vs (mem : list T) i, NoDup ix -> all_lt (length mem) ix ->
    i < length ix ->
    rd d (write mem ix vs) (nth i ix 0) = if i <? length vs then nth i vs d else rd d mem (nth i ix 0).
  Proof.
    induction ix as [|a ix IH]; intros vs mem i Hnd Hb Hi; cbn [length] in Hi. lia.
    inversion Hnd as [|a' l' Hni Hnd']; subst. inversion Hb as [|a' l' Ha Hb']; subst.
    destruct vs as [|v vs].
    - unfold write. rewrite combine_nil. reflexivity.
    - rewrite write_cons. destruct i as [|i]; cbn [nth length].
      + rewrite rd_write_unhit by exact Hni. unfold rd. rewrite nth_set_nth by exact Ha.
        rewrite Nat.eqb_refl. reflexivity.
      + rewrite IH; auto; try lia.
        2:{ unfold all_lt. rewrite set_nth_length. exact Hb'. }
        change (S i <? S (length vs)) with (i <? length vs).
        destruct (i <? length vs). reflexivity.
        unfold rd. rewrite nth_set_nth by exact Ha.
        destruct (nth i ix 0 =? a) eqn:E; auto.
        apply Nat.eqb_eq in E. exfalso. apply Hni. rewrite <- E. apply nth_In. lia.
  Qed.

  Lemma init_mem_ext (f : ohg O A) inp inp' : wf_ohg f -> NoDup (table (o_s f)) ->
    (forall i, i < length (table (o_s f)) -> nth i inp d = nth i inp' d) ->
    init_mem d f inp = init_mem d f inp'.
  Proof.
    intros Wf Hnd H. unfold init_mem.
    assert (Hb : all_lt (length (repeat d (length (h_w (o_h f))))) (table (o_s f))).
    { rewrite repeat_length. apply Forall_forall. intros v Hv. apply (ins_lt' Wf). exact Hv. }
    apply nth_ext with (d := d) (d' := d). rewrite !write_length. reflexivity.
    intros j _. change (rd d (write (repeat d (length (h_w (o_h f)))) (table (o_s f)) inp) j =
                        rd d (write (repeat d (length (h_w (o_h f)))) (table (o_s f)) inp') j).
    destruct (in_dec Nat.eq_dec j (table (o_s f))) as [Hj|Hj].
    - apply In_nth_0 in Hj. destruct Hj as (i & Hi & <-).
      rewrite !rd_write_nodup by auto.
      assert (E0 : rd d (repeat d (length (h_w (o_h f)))) (nth i (table (o_s f)) 0) = d).
      { unfold rd. destruct (Nat.lt_ge_cases (nth i (table (o_s f)) 0) (length (h_w (o_h f)))) as [Hl|Hl].
        apply nth_repeat_lt; auto. apply nth_overflow. rewrite repeat_length. exact Hl. }
      rewrite E0.
      assert (X : forall l : list T, (if i <? length l then nth i l d else d) = nth i l d).
      { intros l. destruct (i <? length l) eqn:E; auto. apply Nat.ltb_ge in E.
        symmetry. apply nth_overflow. exact E. }
      rewrite !X. apply H. exact Hi.
    - rewrite !rd_write_unhit by exact Hj. reflexivity.
  Qed.
End PlainEval.

(* ================================================================== *)
(** * 4. [sem]: introduction and elimination through plain valuations *)
(* ================================================================== *)

Section Sem.
  Variable B : Backend.
  Hypothesis OK : BackendOK B.
  Variables O A T : Type.
  Variable d : T.
  Variable interp : A -> list T -> list T.
  Variable apply : list A -> ic (list T) -> res (ic (list T)).
  Hypothesis AP : apply_spec interp apply.

  Definition sem (f : ohg O A) (inp out : list T) : Prop := eval B d apply f inp = Ok (Some out).

  Lemma sem_fun f inp out out' : sem f inp out -> sem f inp out' -> out = out'.
  Proof. unfold sem. intros H H'. rewrite H in H'. inversion H'. reflexivity. Qed.

  (* the evaluator looks at the input array only through its first |sources| positions, and reads
     missing positions as the default value *)
  Theorem eval_inp_ext (f : ohg O A) inp inp' : wf_ohg f -> NoDup (table (o_s f)) ->
    (forall i, i < length (table (o_s f)) -> nth i inp d = nth i inp' d) ->
    eval B d apply f inp = eval B d apply f inp'.
  Proof.
    intros Wf Hnd H. unfold eval.
    destruct (layer B f) as [[order unv]| |]; cbn [bind]; try reflexivity.
    destruct (layer_function_to_layers B order) as [layers| |]; cbn [bind]; try reflexivity.
    destruct (_ =? 0). 2: reflexivity.
    assert (E : eval_order d apply f inp layers = eval_order d apply f inp' layers).
    { unfold eval_order.
      assert (Hb : forall s : list T,
                in_bounds (length (fill d (length (h_w (o_h f))))) (combine (table (o_s f)) s)).
      { intros s. apply in_bounds_combine. unfold fill. rewrite repeat_length.
        apply Forall_forall. intros v Hv. apply (ins_lt' Wf). exact Hv. }
      rewrite !scatter_assign_eq by apply Hb.
      pose proof (init_mem_ext d inp inp' Wf Hnd H) as E. unfold init_mem, write in E.
      unfold fill. rewrite E. reflexivity. }
    rewrite E. reflexivity.
  Qed.

  Definition pad (k : nat) (inp : list T) : list T := map (fun i => nth i inp d) (seq 0 k).

  Lemma pad_length k inp : length (pad k inp) = k.
  Proof. unfold pad. rewrite map_length, seq_length. reflexivity. Qed.

  Lemma pad_nth k inp i : i < k -> nth i (pad k inp) d = nth i inp d.
  Proof. intros H. unfold pad. rewrite nth_map_seq by exact H. reflexivity. Qed.

  Lemma sem_pad (f : ohg O A) inp out : wf_ohg f -> NoDup (table (o_s f)) ->
    (sem f inp out <-> sem f (pad (length (table (o_s f))) inp) out).
  Proof.
    intros Wf Hnd. unfold sem.
    rewrite (@eval_inp_ext f inp (pad (length (table (o_s f))) inp) Wf Hnd). reflexivity.
    intros i Hi. symmetry. apply pad_nth. exact Hi.
  Qed.

  Theorem sem_intro (f : ohg O A) inp mem : evaluable interp f -> pval d interp (abs f) inp mem ->
    sem f inp (map mem (table (o_t f))).
  Proof.
    intros (Wf & Hac & SW & Har) V.
    apply (sem_pad inp _ Wf (sw_ins SW)).
    set (inp' := pad (length (table (o_s f))) inp).
    assert (V' : pval d interp (abs f) inp' mem).
    { apply pval_inp_ext with (inp := inp); auto. intros i Hi. symmetry. apply pad_nth. exact Hi. }
    apply (pval_to_val Wf) in V'.
    assert (Hl : length inp' = length (table (o_s f))) by apply pad_length.
    assert (Hm : length (map mem (seq 0 (length (h_w (o_h f))))) = length (h_w (o_h f))).
    { rewrite map_length, seq_length. reflexivity. }
    pose proof (C16_outputs_of_any_valuation OK (adj_ops_ok OK) (conv_layers_ok OK) AP Wf Hac SW Har
                  Hl V' Hm) as E.
    unfold sem. rewrite E. f_equal. f_equal.
    apply (map_rd_tab d f mem). intros v. apply (outs_lt' Wf).
  Qed.

  Theorem sem_elim (f : ohg O A) inp out : evaluable interp f -> sem f inp out ->
    exists mem, pval d interp (abs f) inp mem /\ out = map mem (table (o_t f)).
  Proof.
    intros (Wf & Hac & SW & Har) S.
    apply (sem_pad inp _ Wf (sw_ins SW)) in S.
    set (inp' := pad (length (table (o_s f))) inp) in *.
    destruct (C16_computes OK (adj_ops_ok OK) (conv_layers_ok OK) d AP inp' Wf Hac SW Har)
      as (out' & mem & E & V & L & ->).
    { apply pad_length. }
    unfold sem in S. rewrite E in S. inversion S as [Eo]. clear S.
    exists (fun v => nth v mem d). split.
    - apply pval_inp_ext with (inp := inp'). intros i Hi. apply pad_nth. exact Hi.
      apply val_to_pval; auto.
    - reflexivity.
  Qed.

  (* an evaluable diagram has a value on every input array *)
  Theorem sem_total (f : ohg O A) inp : evaluable interp f -> exists out, sem f inp out.
  Proof.
    intros (Wf & Hac & _). apply (C16_acyclic_result OK (adj_ops_ok OK) (conv_layers_ok OK) d AP inp Wf Hac).
  Qed.

  Lemma sem_length (f : ohg O A) inp out : evaluable interp f -> sem f inp out ->
    length out = length (table (o_t f)).
  Proof.
    intros E S. destruct (sem_elim E S) as (mem & _ & ->). apply map_length.
  Qed.
End Sem.
