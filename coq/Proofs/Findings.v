(* Models of the five code fragments as they were BEFORE the fix: commits in /repo, each with a
   machine-checked witness that the corresponding property statement was false of the old code.
   (The positive theorems in Props/ are about the repaired code, which is what Model/ mirrors.) *)
From OHG Require Import Spec.Plain.

(* A (C09): lax::Hypergraph::quotient dropped the node labels on failure:
     self.nodes = match coequalizer_universal(&q, &VecArray(take(&mut self.nodes))) { .. None => return Err(q) } *)
Definition lhg_quotient_prefix {O A} (B : Backend) (eqO : O -> O -> bool) (h : lhg O A)
  : res (lhg O A * (ff + ff)) :=
  q <- lhg_coequalizer B h ;;
  u <- coequalizer_universal B eqO q (l_nodes h) ;;
  match u with
  | None => Ok (mkLHG [] (l_edges h) (l_adj h) (l_q h), inr q)      (* take() without putting back *)
  | Some nodes =>
      adj <- mapM (fun e => s <- map_q q (fst e) ;; t <- map_q q (snd e) ;; Ok (s, t)) (l_adj h) ;;
      Ok (mkLHG nodes (l_edges h) adj ([], []), inl q)
  end.

Definition witness_A : lhg nat nat := mkLHG [1; 2] [] [] ([0], [1]).
Example C09_failure_atomic_refuted_prefix :
  exists h' q, lhg_quotient_prefix VecBackend Nat.eqb witness_A = Ok (h', inr q) /\ h' <> witness_A.
Proof. eexists; eexists; split; [vm_compute; reflexivity|discriminate]. Qed.
Example C09_failure_atomic_holds_now :
  exists q, lhg_quotient VecBackend Nat.eqb witness_A = Ok (witness_A, inr q).
Proof. eexists; vm_compute; reflexivity. Qed.

(* B (C15, C16, C17, C18): codomain `adjacency.len() + 1` of the relative in-degree arrays *)
Definition sparse_relative_indegree_prefix (B : Backend) (a : icf) (f : ff) : res (ff * ff) :=
  _ <- assert (ic_len a =? target f) ;;
  g0 <- ic_indexed_values ff_vops a f ;;
  g <- unwrap g0 ;;
  let tg := ic_len a + 1 in
  let '(i, c) := b_sparse_bincount B (table g) in
  fi <- unwrap (ff_new i (ic_len a)) ;;
  fc <- unwrap (ff_new c tg) ;;
  Ok (fi, fc).
(* two vertices, three parallel edges 0 -> 1: the count 3 does not fit in codomain 2 + 1 *)
Definition witness_B : icf := mkIC (mkFF [3; 0] 4) (mkFF [1; 1; 1] 2).
Example C15_returns_refuted_prefix :
  sparse_relative_indegree_prefix VecBackend witness_B (mkFF [0] 2) = Panic.
Proof. vm_compute. reflexivity. Qed.
Example C15_returns_holds_now :
  exists r, sparse_relative_indegree VecBackend witness_B (mkFF [0] 2) = Ok r /\ kahn VecBackend witness_B = Ok ([0; 1], [0; 0]).
Proof. eexists; split; vm_compute; reflexivity. Qed.

(* C (C17): is_monogamous computed `degree + interface_count - 1` elementwise *)
Definition ohg_is_monogamous_prefix {O A} (f : ohg O A) : res bool :=
  let n := length (h_w (o_h f)) in
  in_counts <- bincount (table (o_s f)) n ;;
  out_counts <- bincount (table (o_t f)) n ;;
  in_degrees <- bincount (table (ic_values (h_t (o_h f)))) n ;;
  out_degrees <- bincount (table (ic_values (h_s (o_h f)))) n ;;
  let ones := fill 1 n in
  a <- aadd in_degrees in_counts ;; a' <- asub a ones ;;          (* checked subtraction: debug build *)
  b <- aadd out_degrees out_counts ;; b' <- asub b ones ;;
  Ok ((length (azero a') =? n) && (length (azero b') =? n)).
(* one isolated node, not on the interface *)
Definition witness_C : ohg nat nat := mkOHG (mkFF [] 1) (mkFF [] 1) (hg_discrete nat [0]).
Example C17_total_refuted_prefix : ohg_is_monogamous_prefix witness_C = Panic.
Proof. vm_compute. reflexivity. Qed.
Example C17_total_holds_now : ohg_is_monogamous witness_C = Ok false.
Proof. vm_compute. reflexivity. Qed.

(* D (C08): the iterators reported the total number of segments, not the remaining one *)
Definition ic_iter_len_prefix {V} (it : ic_iter V) : res nat := sub_chk (length (it_pointers it)) 1.
Definition witness_D : icf := mkIC (mkFF [1; 2; 0] 4) (mkFF [0; 1; 0] 2).
Example C08_iter_refuted_prefix :
  exists it', icf_iter_next (ic_into_iter witness_D) = Ok (Some (mkFF [0] 2), it') /\ ic_iter_len_prefix it' = Ok 3.
Proof. eexists; split; vm_compute; reflexivity. Qed.
Example C08_iter_holds_now :
  exists it', icf_iter_next (ic_into_iter witness_D) = Ok (Some (mkFF [0] 2), it') /\ ic_iter_len it' = Ok 2.
Proof. eexists; split; vm_compute; reflexivity. Qed.

(* E (C19): all_elements_equal compared with `a.first().unwrap_or(x)` *)
Definition all_elements_equal_prefix {O} (eqO : O -> O -> bool) (a b : list O) : bool :=
  forallb (fun x => eqO x (match a with y :: _ => y | [] => x end)) (a ++ b).
Example C19_all_equal_refuted_prefix : all_elements_equal_prefix Nat.eqb [] [1; 2] = true.
Proof. reflexivity. Qed.
Example C19_all_equal_holds_now : all_elements_equal Nat.eqb [] [1; 2] = false.
Proof. reflexivity. Qed.
