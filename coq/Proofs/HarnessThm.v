(* The concrete components used by the correspondence check (Run/Dispatch.v; the same components are
   implemented in the Rust harness) meet the hypotheses of the theorems of the development — the
   documented contract of user callbacks — so that the theorems apply to exactly the executions
   the check compares.

   1. the test signature        wrap_range interp_arity_table interp_range (interp_range_u64) apply_sig_value
                                apply_sig_spec apply_sig_batch arity_ok_interp_iff
   2. table-driven functors     image_ok; singleton_ok edgeless_ok identity_ok singleton_pair_ok spider4_ok;
                                tf_op_contract tf_functor_contract tf_functor_typed tf_functor_balanced
                                tf_op_no_pending tf_op_kind1_pending
   3. table / polynomial optics optic_image_ok; ot_optic_contract (_fwd, _rev) poly_optic_contract (and per
                                generator) poly_optic_types
   4. the polynomial generator images are monogamous acyclic circuits: poly_images_good
   5. the theorems instantiated harness_eval_total / _refuses_iff_cyclic / _computes / _backend_independent,
                                harness_lfmap_native_defined / _value
   6. examples and Print Assumptions                                                            *)
From Coq Require Import List Arith Lia Bool ZArith.
From OHG Require Import Spec.Plain Proofs.PrimsThm Proofs.SegThm Proofs.C08Thm Proofs.CCThm Proofs.C09Thm
  Proofs.C10Lemmas.
From OHG Require Proofs.C13Thm Proofs.C16Lemmas Proofs.C16Thm Proofs.C19Thm Proofs.C14Thm.
From OHG Require Run.SpecCheck Proofs.CheckersThm Proofs.BackendInst Proofs.Assemble.
From OHG Require Import Run.Dispatch.
Import Coq.Init.Datatypes.   (* [length] is the one of lists, not of strings *)
Import ListNotations.
Close Scope string_scope.
Open Scope nat_scope.
Open Scope list_scope.
Open Scope bool_scope.

Arguments Nat.sub : simpl never.

(* ------------------------------------------------------------------------------------------ *)
(** * 1. the test signature [interp] and its batch form [apply_sig]                            *)
(* ------------------------------------------------------------------------------------------ *)

Definition in64 (z : Z) : Prop := (0 <= z < two64)%Z.

Lemma two64_pos : (0 < two64)%Z.
Proof. reflexivity. Qed.

Theorem wrap_range z : (0 <= wrap z < two64)%Z.
Proof. unfold wrap. apply Z.mod_pos_bound. exact two64_pos. Qed.

Lemma wrap_in64 z : in64 (wrap z).
Proof. exact (wrap_range z). Qed.

Lemma two64_ones : (two64 - 1)%Z = Z.ones 64.
Proof. reflexivity. Qed.

(* a value is a u64 iff masking with 2^64-1 leaves it unchanged *)
Lemma in64_mask z : in64 z <-> Z.land z (Z.ones 64) = z.
Proof.
  rewrite Z.land_ones by lia. change (2 ^ 64)%Z with two64. unfold in64. split.
  - intros H. apply Z.mod_small. exact H.
  - intros H. rewrite <- H. apply Z.mod_pos_bound. exact two64_pos.
Qed.

Lemma in64_land a b : in64 a -> in64 (Z.land a b).
Proof.
  rewrite !in64_mask. intros H.
  rewrite <- Z.land_assoc, (Z.land_comm b), Z.land_assoc, H. reflexivity.
Qed.

Lemma land_lxor_distr a b c : Z.land (Z.lxor a b) c = Z.lxor (Z.land a c) (Z.land b c).
Proof.
  apply Z.bits_inj'. intros n _. rewrite Z.land_spec, !Z.lxor_spec, !Z.land_spec.
  destruct (Z.testbit a n), (Z.testbit b n), (Z.testbit c n); reflexivity.
Qed.

Lemma in64_lxor a b : in64 a -> in64 b -> in64 (Z.lxor a b).
Proof.
  rewrite !in64_mask. intros Ha Hb. rewrite land_lxor_distr, Ha, Hb. reflexivity.
Qed.

Lemma fold_land_in64 inp : forall acc, in64 acc -> in64 (fold_left Z.land inp acc).
Proof.
  induction inp as [|x inp IH]; intros acc H; cbn [fold_left]; [exact H|].
  apply IH. apply in64_land. exact H.
Qed.

Lemma fold_lxor_in64 inp : Forall in64 inp -> forall acc, in64 acc -> in64 (fold_left Z.lxor inp acc).
Proof.
  induction 1 as [|x inp Hx _ IH]; intros acc H; cbn [fold_left]; [exact H|].
  apply IH. apply in64_lxor; assumption.
Qed.

Lemma in64_0 : in64 0%Z.
Proof. unfold in64. split; [lia|reflexivity]. Qed.

Lemma in64_max : in64 (two64 - 1)%Z.
Proof. unfold in64. split; [discriminate|reflexivity]. Qed.

(* the number of results of [interp] depends only on the label *)
Definition interp_coarity (label : nat) : nat :=
  match label with
  | 3 => 2
  | 4 => 0
  | 8 => 3
  | _ => 1
  end.

Theorem interp_arity_table l inp : length (interp l inp) = interp_coarity l.
Proof. do 9 (destruct l as [|l]; [reflexivity|]). reflexivity. Qed.

Example interp_coarity_table :
  map interp_coarity [0; 1; 2; 3; 4; 5; 6; 7; 8; 9; 10; 11] = [1; 1; 1; 2; 0; 1; 1; 1; 3; 1; 1; 1] /\
  (forall l, 9 <= l -> interp_coarity l = 1).
Proof.
  split; [reflexivity|]. intros l H. do 9 (destruct l as [|l]; [lia|]). reflexivity.
Qed.

(* what is true of the range of the outputs: every label but the two xor labels 6 and 7 returns
   u64 values on ANY integer inputs (sum, product, negation, constants are wrapped — a constant
   label 10 + c with c >= 2^64 is wrapped too; the and label 5 starts from the mask 2^64-1);
   the xor labels return u64 values on u64 inputs *)
Ltac forall_split := repeat first [apply Forall_nil | apply Forall_cons].

Theorem interp_range l inp : (l = 6 \/ l = 7 -> Forall in64 inp) -> Forall in64 (interp l inp).
Proof.
  intros H.
  do 5 (destruct l as [|l]; [cbn [interp]; unfold zsum; forall_split; apply wrap_in64|]).
  destruct l as [|l]. { cbn [interp]. forall_split. apply fold_land_in64. exact in64_max. }
  destruct l as [|l]. { cbn [interp]. forall_split. apply fold_lxor_in64; auto. exact in64_0. }
  destruct l as [|l].
  { cbn [interp]. forall_split. apply in64_lxor; [|exact in64_max].
    apply fold_lxor_in64; auto. exact in64_0. }
  destruct l as [|l]; cbn [interp]; unfold zsum; forall_split; apply wrap_in64.
Qed.

Corollary interp_range_u64 l inp : Forall in64 inp -> Forall in64 (interp l inp).
Proof. intros H. apply interp_range. intros _. exact H. Qed.

(* the xor labels do leave the range on inputs outside it (inputs of eval are arbitrary integers) *)
Example interp_xor_out_of_range : interp 6 [(-1)%Z] = [(-1)%Z] /\ ~ in64 (-1)%Z.
Proof. split; [reflexivity|]. unfold in64. lia. Qed.

(* apply_sig is the batch form of interp: the contract of C16 *)
Lemma apply_sig_value (ls : list nat) (c : ic (list Z)) : wf_ics c ->
  apply_sig ls c =
  let outs := map (fun p => interp (fst p) (snd p)) (combine ls (decode_s c)) in
  Ok (mkIC (mkFF (map (@length Z) outs) (length (concat outs) + 1)) (concat outs)).
Proof.
  intros W. unfold apply_sig. rewrite ics_iter_slices_ok by exact W. cbn [bind].
  rewrite (from_semifinite_ok (semi_vops Z)) by (cbn [vlen semi_vops]; apply list_sum_map_length).
  reflexivity.
Qed.

Theorem apply_sig_spec : C16Thm.apply_spec interp apply_sig.
Proof.
  intros ls c W _. rewrite apply_sig_value by exact W. cbv zeta.
  eexists. split; [reflexivity|]. split.
  - split; cbn [ic_sources ic_values table target].
    + rewrite list_sum_map_length. reflexivity.
    + apply list_sum_map_length.
  - unfold decode_s. cbn [ic_sources ic_values table]. apply segs_of_concat.
Qed.

(* on well-formed input apply_sig IS the reference batch interpreter of C16Thm *)
Corollary apply_sig_batch ls c : wf_ics c -> apply_sig ls c = C16Thm.batch_apply interp ls c.
Proof. intros W. rewrite apply_sig_value by exact W. reflexivity. Qed.

(* arity_ok for the test signature: every hyperedge labelled l has exactly interp_coarity l targets *)
Theorem arity_ok_interp_iff {O} (f : ohg O nat) :
  C16Lemmas.arity_ok interp f <->
  forall e l, nth_error (h_x (o_h f)) e = Some l ->
              length (GraphSpec.op_tgt (o_h f) e) = interp_coarity l.
Proof.
  unfold C16Lemmas.arity_ok. split.
  - intros H e l E.
    rewrite <- (H e l (repeat 0%Z (length (GraphSpec.op_src (o_h f) e))) E (repeat_length _ _)).
    apply interp_arity_table.
  - intros H e l vals E _. rewrite interp_arity_table. symmetry. apply H. exact E.
Qed.

(* ------------------------------------------------------------------------------------------ *)
(** * 2. table-driven functors                                                                 *)
(* ------------------------------------------------------------------------------------------ *)

(* ---------- generic facts ---------- *)
Lemma h_all_lt_seq a n m : a + n <= m -> all_lt m (seq a n).
Proof. intros H. unfold all_lt. rewrite Forall_forall. intros x Hx. apply in_seq in Hx. lia. Qed.

Lemma h_shift_seq k m : forall a, shift k (seq a m) = seq (a + k) m.
Proof.
  unfold shift. induction m as [|m IH]; intros a; [reflexivity|].
  cbn [seq map]. rewrite IH. reflexivity.
Qed.

Lemma h_combine_seq_shift c n : forall a b,
  combine (seq a n) (shift c (seq b n)) = map (fun i => (a + i, b + i + c)) (seq 0 n).
Proof.
  unfold shift. induction n as [|n IH]; intros a b; [reflexivity|].
  cbn [seq map combine]. rewrite IH, <- seq_shift, map_map. f_equal.
  - f_equal; lia.
  - apply map_ext. intros i. f_equal; lia.
Qed.

Lemma h_mapM_get_map {T X} (w : list T) (g : X -> nat) (pr : X -> T) (l : list X) :
  (forall x, In x l -> nth_error w (g x) = Some (pr x)) -> mapM (get w) (map g l) = Ok (map pr l).
Proof.
  induction l as [|x l IH]; intros H; [reflexivity|].
  cbn [map mapM]. unfold get at 1. rewrite (H x (or_introl eq_refl)). cbn [unwrap bind].
  rewrite IH by (intros y Hy; apply H; right; exact Hy). reflexivity.
Qed.

Lemma h_mapM_get_length {T} (w : list T) idx r : mapM (get w) idx = Ok r -> length idx = length r.
Proof.
  intros H. apply mapM_ok_iff in H. induction H as [|i x idx r _ _ IH]; [reflexivity|].
  cbn [length]. rewrite IH. reflexivity.
Qed.

(* an invariant of the generators of [conn] is an invariant of [conn] *)
Lemma conn_invariant {X} (lab : nat -> X) P :
  (forall x y, In (x, y) P -> lab x = lab y) -> forall i j, conn P i j -> lab i = lab j.
Proof.
  intros H i j C. induction C as [x|x y Hin|x y _ IH|x y z _ IH1 _ IH2].
  - reflexivity.
  - apply H. exact Hin.
  - symmetry. exact IH.
  - rewrite IH1. exact IH2.
Qed.

(* ---------- the contract of an operation image ---------- *)
Section Images.
  Variables O A : Type.
  Implicit Types (g : lohg O A).

  Definition no_pending g : Prop := l_q (lo_h g) = ([], []).

  (* g : src -> tgt (the labels of the interface nodes, read off the node list) *)
  Definition typed g (src tgt : list O) : Prop := lohg_source g = Ok src /\ lohg_target g = Ok tgt.

  (* what the theorems about lax terms assume of a value: C09 well-formedness, one label per
     adjacency entry (C10), pending pairs only between equally labelled nodes (C09), and the type *)
  Definition image_ok g (src tgt : list O) : Prop :=
    lwf g /\ ladj_ok g /\ labels_consistent g /\ typed g src tgt.

  Lemma no_pending_consistent g : no_pending g -> labels_consistent g.
  Proof.
    intros H i j _ _ C. unfold pending in C. rewrite H in C. cbn [fst snd combine] in C.
    apply conn_nil in C. subst j. reflexivity.
  Qed.

  Lemma no_pending_balanced g : no_pending g -> C13Thm.q_balanced g.
  Proof. intros H. unfold C13Thm.q_balanced. rewrite H. reflexivity. Qed.

  Lemma lwf_balanced g : lwf g -> C13Thm.q_balanced g.
  Proof. intros ((_ & _ & _ & H) & _). exact H. Qed.

  Lemma typed_arity g src tgt : typed g src tgt ->
    length (lo_sources g) = length src /\ length (lo_targets g) = length tgt.
  Proof. intros [H1 H2]. split; eapply h_mapM_get_length; eassumption. Qed.

  (* an edge-less diagram with explicit interfaces *)
  Lemma edgeless_ok (w : list O) (s t : list nat) src tgt :
    mapM (get w) s = Ok src -> mapM (get w) t = Ok tgt ->
    image_ok (mkLOHG s t (lhg_discrete A w)) src tgt /\ no_pending (mkLOHG s t (lhg_discrete A w)).
  Proof.
    intros Hs Ht.
    assert (Hb : forall idx r, mapM (get w) idx = Ok r -> all_lt (length w) idx).
    { intros idx r H. apply mapM_ok_iff in H. unfold all_lt.
      induction H as [|i x idx' r' Hi _ IH]; constructor; [|exact IH].
      unfold get in Hi. destruct (nth_error w i) eqn:E; [|discriminate].
      apply nth_error_Some. congruence. }
    assert (Hq : no_pending (mkLOHG s t (lhg_discrete A w))) by reflexivity.
    split; [|exact Hq]. split; [|split; [reflexivity|split; [apply no_pending_consistent; exact Hq|]]].
    - unfold lwf, hwf, nn, hn. cbn [lo_h lo_sources lo_targets lhg_discrete l_nodes l_adj l_q fst snd].
      repeat split; try constructor.
      + destruct H.
      + destruct H.
      + eapply Hb; exact Hs.
      + eapply Hb; exact Ht.
    - split; assumption.
  Qed.

  (* one operation *)
  Lemma singleton_ok (x : A) (s t : list O) :
    image_ok (lohg_singleton x s t) s t /\ no_pending (lohg_singleton x s t).
  Proof.
    assert (Hq : no_pending (lohg_singleton x s t)).
    { unfold no_pending. rewrite C19Thm.lohg_singleton_spec. reflexivity. }
    split; [|exact Hq]. split; [|split; [|split; [apply no_pending_consistent; exact Hq|]]].
    - rewrite C19Thm.lohg_singleton_spec. unfold lwf, hwf, nn, hn.
      cbn [lo_h lo_sources lo_targets l_nodes l_adj l_q fst snd]. rewrite app_length.
      repeat split; try constructor.
      + destruct H as [<-|[]]. cbn [fst]. apply h_all_lt_seq. lia.
      + destruct H as [<-|[]]. cbn [snd]. apply h_all_lt_seq. lia.
      + apply h_all_lt_seq. lia.
      + apply h_all_lt_seq. lia.
    - rewrite C19Thm.lohg_singleton_spec. reflexivity.
    - split; [apply C19Thm.lohg_singleton_source|apply C19Thm.lohg_singleton_target].
  Qed.

  Lemma discrete_io_gen_ok (fs ft : list O) :
    let g := mkLOHG (seq 0 (length fs)) (seq (length fs) (length ft)) (lhg_discrete A (fs ++ ft)) in
    image_ok g fs ft /\ no_pending g.
  Proof.
    apply edgeless_ok.
    - exact (C19Thm.mapM_get_seq fs [] ft).
    - pose proof (C19Thm.mapM_get_seq ft fs []) as H. rewrite app_nil_r in H. exact H.
  Qed.

  Lemma identity_ok (w : list O) : image_ok (lohg_identity A w) w w /\ no_pending (lohg_identity A w).
  Proof.
    unfold lohg_identity. pose proof (C19Thm.mapM_get_seq w [] []) as H.
    cbn [List.app length] in H. rewrite app_nil_r in H. apply edgeless_ok; exact H.
  Qed.

  (* s ; t for two singletons with a common boundary: the only images with pending pairs *)
  Lemma singleton_pair_ok (x y : A) (a b c : list O) :
    exists g, lohg_lax_compose (lohg_singleton x a b) (lohg_singleton y b c) = Some g /\
      image_ok g a c /\
      pending g = map (fun i => (length a + i, length a + length b + i)) (seq 0 (length b)).
  Proof.
    destruct (singleton_ok x a b) as ((W1 & A1 & _ & _) & Q1).
    destruct (singleton_ok y b c) as ((W2 & A2 & _ & _) & Q2).
    assert (Hlen : length (lo_targets (lohg_singleton x a b)) = length (lo_sources (lohg_singleton y b c))).
    { rewrite !C19Thm.lohg_singleton_spec. cbn [lo_sources lo_targets]. rewrite !seq_length. reflexivity. }
    exists (lax_compose_pure (lohg_singleton x a b) (lohg_singleton y b c)).
    split; [apply lax_compose_ok; exact Hlen|].
    assert (Hp : pending (lax_compose_pure (lohg_singleton x a b) (lohg_singleton y b c)) =
                 map (fun i => (length a + i, length a + length b + i)) (seq 0 (length b))).
    { rewrite pending_lax_compose by assumption. unfold pending at 1 2. rewrite Q1, Q2.
      cbn [fst snd combine map List.app]. unfold boundary_pairs, nn.
      rewrite !C19Thm.lohg_singleton_spec. cbn [lo_sources lo_targets lo_h l_nodes].
      rewrite h_combine_seq_shift, app_length. apply map_ext. intros i. f_equal. lia. }
    split; [|exact Hp].
    assert (Hnodes : l_nodes (lo_h (lax_compose_pure (lohg_singleton x a b) (lohg_singleton y b c))) =
                     a ++ b ++ b ++ c).
    { rewrite !C19Thm.lohg_singleton_spec. cbn [lax_compose_pure lo_h l_nodes lhg_coproduct].
      rewrite <- app_assoc. reflexivity. }
    split; [apply lwf_lax_compose; assumption|].
    split; [apply ladj_ok_lax_compose; assumption|]. split.
    - intros i j _ _ C. revert i j C. apply conn_invariant. intros u v Hin. rewrite Hp in Hin.
      apply in_map_iff in Hin. destruct Hin as (k & E & Hk). inversion E; subst u v. clear E.
      apply in_seq in Hk. rewrite Hnodes.
      rewrite nth_error_app2 by lia. rewrite nth_error_app1 by lia.
      rewrite nth_error_app2 by lia. rewrite nth_error_app2 by lia. rewrite nth_error_app1 by lia.
      f_equal. lia.
    - split.
      + unfold lohg_source. rewrite Hnodes. rewrite C19Thm.lohg_singleton_spec at 1.
        cbn [lax_compose_pure lo_sources]. exact (C19Thm.mapM_get_seq a [] (b ++ b ++ c)).
      + unfold lohg_target. rewrite Hnodes. rewrite !C19Thm.lohg_singleton_spec.
        unfold lax_compose_pure, nn. cbn [lo_targets lo_h l_nodes]. rewrite h_shift_seq, app_length.
        pose proof (C19Thm.mapM_get_seq c (a ++ b ++ b) []) as H.
        rewrite app_nil_r, <- !app_assoc, !app_length in H.
        replace (length b + (length a + length b)) with (length a + (length b + length b)) by lia.
        exact H.
  Qed.
End Images.

Arguments no_pending {O A} g.
Arguments typed {O A} g src tgt.
Arguments image_ok {O A} g src tgt.
Arguments no_pending_consistent [O A g] _.
Arguments no_pending_balanced [O A g] _.
Arguments lwf_balanced [O A g] _.
Arguments typed_arity [O A g src tgt] _.
Arguments edgeless_ok [O] A w s t src tgt _ _.
Arguments singleton_ok [O A] x s t.
Arguments discrete_io_gen_ok [O] A fs ft.
Arguments identity_ok [O] A w.
Arguments singleton_pair_ok [O A] x y a b c.

(* ---------- the five kinds of [tf_op] ---------- *)
Definition dedupe_step (acc : list nat) (x : nat) : list nat :=
  if existsb (Nat.eqb x) acc then acc else acc ++ [x].

Lemma dedupe_In l : forall acc x, In x (fold_left dedupe_step l acc) <-> In x acc \/ In x l.
Proof.
  induction l as [|y l IH]; intros acc x; cbn [fold_left].
  - split; [intros H; left; exact H|intros [H|[]]; exact H].
  - rewrite IH. unfold dedupe_step. destruct (existsb (Nat.eqb y) acc) eqn:E.
    + apply existsb_exists in E. destruct E as (z & Hz & Ez). apply Nat.eqb_eq in Ez. subst z.
      cbn [In]. split; [intros [H|H]; auto|intros [H|[H|H]]; auto]. subst x. auto.
    + rewrite in_app_iff. cbn [In]. tauto.
Qed.

Lemma index_of_In x l : In x l -> exists i, index_of x l = Some i /\ nth_error l i = Some x.
Proof.
  intros H. destruct (index_of x l) as [i|] eqn:E.
  - exists i. split; [reflexivity|]. apply (index_of_Some x l E).
  - apply index_of_None in E. contradiction.
Qed.

(* kind 4: one node per distinct label, every wire attached to the node of its label *)
Lemma spider4_ok (fs ft : list nat) :
  let labs := fold_left dedupe_step (fs ++ ft) [] in
  let idx := fun l => match index_of l labs with Some i => i | None => 0 end in
  let g := mkLOHG (map idx fs) (map idx ft) (lhg_discrete nat labs) in
  image_ok g fs ft /\ no_pending g.
Proof.
  intros labs idx g.
  assert (H : forall l, (forall x, In x l -> In x (fs ++ ft)) -> mapM (get labs) (map idx l) = Ok l).
  { intros l Hl. rewrite <- (map_id l) at 2. apply h_mapM_get_map. intros x Hx.
    assert (Hin : In x labs) by (apply dedupe_In; right; apply Hl; exact Hx).
    destruct (index_of_In x labs Hin) as (i & E & Hn). unfold idx. rewrite E. exact Hn. }
  apply edgeless_ok; apply H; intros x Hx; apply in_or_app; auto.
Qed.

Lemma tf_op_cases (F : ftable) (a : nat) (s t : list nat) :
  image_ok (tf_op F a s t) (tf_objs F s) (tf_objs F t) /\
  (nth a (ft_kind F) 0 <> 1 -> no_pending (tf_op F a s t)) /\
  (nth a (ft_kind F) 0 = 1 ->
     pending (tf_op F a s t) =
     map (fun i => (length (tf_objs F s) + i, 2 * length (tf_objs F s) + i))
         (seq 0 (length (tf_objs F s)))).
Proof.
  unfold tf_op. set (fs := tf_objs F s). set (ft := tf_objs F t).
  destruct (nth a (ft_kind F) 0) as [|[|[|[|[|k]]]]].
  - (* 0: one operation *)
    destruct (singleton_ok (a + ft_off F) fs ft) as [H Q]. split; [exact H|]. split; [auto|discriminate].
  - (* 1: two operations, lax-composed *)
    destruct (singleton_pair_ok a (a + ft_off F) fs fs ft) as (g & -> & H & Hp).
    split; [exact H|]. split; [intros N; contradiction N; reflexivity|]. intros _. rewrite Hp.
    apply map_ext. intros i. f_equal. lia.
  - (* 2: no operation, disjoint interfaces *)
    destruct (discrete_io_gen_ok nat fs ft) as [H Q]. split; [exact H|]. split; [auto|discriminate].
  - (* 3: identity when the types agree *)
    destruct (list_eqb Nat.eqb fs ft) eqn:E.
    + apply (list_eqb_spec Nat.eqb Nat.eqb_eq) in E. rewrite <- E.
      destruct (identity_ok nat fs) as [H Q]. split; [exact H|]. split; [auto|discriminate].
    + destruct (discrete_io_gen_ok nat fs ft) as [H Q]. split; [exact H|]. split; [auto|discriminate].
  - (* 4: spider by label *)
    destruct (spider4_ok fs ft) as [H Q]. split; [exact H|]. split; [intros _; exact Q|discriminate].
  - (* >= 5: as 3 *)
    destruct (list_eqb Nat.eqb fs ft) eqn:E.
    + apply (list_eqb_spec Nat.eqb Nat.eqb_eq) in E. rewrite <- E.
      destruct (identity_ok nat fs) as [H Q]. split; [exact H|]. split; [auto|discriminate].
    + destruct (discrete_io_gen_ok nat fs ft) as [H Q]. split; [exact H|]. split; [auto|discriminate].
Qed.

Theorem tf_op_contract (F : ftable) (a : nat) (s t : list nat) :
  image_ok (tf_op F a s t) (tf_objs F s) (tf_objs F t).
Proof. apply tf_op_cases. Qed.

(* the contract, spelled out, for the lax functor handed to the model and to the crate *)
Theorem tf_functor_contract (F : ftable) : forall a s t,
  let g := lf_map_operation (tf_functor F) a s t in
  lwf g /\ ladj_ok g /\ labels_consistent g /\
  lohg_source g = Ok (flat_map (lf_map_object (tf_functor F)) s) /\
  lohg_target g = Ok (flat_map (lf_map_object (tf_functor F)) t).
Proof.
  intros a s t g. destruct (tf_op_contract F a s t) as (W & Ad & L & Ts & Tt).
  exact (conj W (conj Ad (conj L (conj Ts Tt)))).
Qed.

Theorem tf_functor_typed (F : ftable) : C13Thm.F_typed (tf_functor F).
Proof.
  intros a s t. destruct (tf_op_contract F a s t) as (_ & _ & _ & T).
  exact (typed_arity T).
Qed.

(* kind 1 is the only kind with pending pairs; they come from [lhg_unify], one per boundary wire,
   so both columns have the same length *)
Theorem tf_functor_balanced (F : ftable) : C13Thm.F_balanced (tf_functor F).
Proof.
  intros a s t. destruct (tf_op_contract F a s t) as (W & _). exact (lwf_balanced W).
Qed.

Theorem tf_op_no_pending (F : ftable) a s t : nth a (ft_kind F) 0 <> 1 -> no_pending (tf_op F a s t).
Proof. apply tf_op_cases. Qed.

Theorem tf_op_kind1_pending (F : ftable) a s t : nth a (ft_kind F) 0 = 1 ->
  pending (tf_op F a s t) =
  map (fun i => (length (tf_objs F s) + i, 2 * length (tf_objs F s) + i)) (seq 0 (length (tf_objs F s))).
Proof. apply tf_op_cases. Qed.

(* ------------------------------------------------------------------------------------------ *)
(** * 3. table optics and the polynomial optic                                                 *)
(* ------------------------------------------------------------------------------------------ *)

(* a closed image is checked by running the (verified) well-formedness checker *)
Lemma closed_image_ok (g : lohg nat nat) src tgt :
  SpecCheck.chk_wf_lohg g = true -> l_q (lo_h g) = ([], []) ->
  lohg_source g = Ok src -> lohg_target g = Ok tgt -> image_ok g src tgt /\ no_pending g.
Proof.
  intros Hc Hq Hs Ht. apply CheckersThm.chk_wf_lohg_lwf in Hc. destruct Hc as [W Ad].
  split; [|exact Hq]. split; [exact W|]. split; [exact Ad|].
  split; [apply no_pending_consistent; exact Hq|]. split; assumption.
Qed.

(* the types the optic construction expects of the two operation maps of a lax optic:
     fwd a s t : F s -> F t ++ M a        rev a s t : M a ++ R t -> R s
   and both images are well-formed, label-consistent and without pending pairs *)
Definition optic_image_ok (P : loptic nat nat nat nat) (a : nat) (s t : list nat) : Prop :=
  let Fo := flat_map (lop_fwd_object P) in
  let Ro := flat_map (lop_rev_object P) in
  let M := lop_residual P a in
  (image_ok (lop_fwd_operation P a s t) (Fo s) (Fo t ++ M) /\ no_pending (lop_fwd_operation P a s t)) /\
  (image_ok (lop_rev_operation P a s t) (M ++ Ro t) (Ro s) /\ no_pending (lop_rev_operation P a s t)).

Lemma discrete_io_ok (fs ft : list nat) :
  image_ok (discrete_io fs ft) fs ft /\ no_pending (discrete_io fs ft).
Proof. exact (discrete_io_gen_ok nat fs ft). Qed.

Theorem ot_optic_contract (P : otable) : forall a s t, optic_image_ok (ot_optic P) a s t.
Proof.
  intros a s t. unfold optic_image_ok, ot_optic.
  cbn [lop_fwd_object lop_rev_object lop_fwd_operation lop_rev_operation lop_residual].
  fold (ot_f P s) (ot_f P t) (ot_r P s) (ot_r P t).
  destruct (nth a (ot_kind P) 0) as [|k]; split;
    first [apply singleton_ok | apply discrete_io_ok].
Qed.

(* spelled out *)
Corollary ot_optic_contract_fwd (P : otable) a s t :
  let g := lop_fwd_operation (ot_optic P) a s t in
  lwf g /\ ladj_ok g /\ pending g = [] /\
  lohg_source g = Ok (ot_f P s) /\ lohg_target g = Ok (ot_f P t ++ ot_m P a).
Proof.
  intros g. destruct (ot_optic_contract P a s t) as (((W & Ad & _ & Ts & Tt) & Q) & _).
  subst g. unfold pending. rewrite Q. exact (conj W (conj Ad (conj eq_refl (conj Ts Tt)))).
Qed.

Corollary ot_optic_contract_rev (P : otable) a s t :
  let g := lop_rev_operation (ot_optic P) a s t in
  lwf g /\ ladj_ok g /\ pending g = [] /\
  lohg_source g = Ok (ot_m P a ++ ot_r P t) /\ lohg_target g = Ok (ot_r P s).
Proof.
  intros g. destruct (ot_optic_contract P a s t) as (_ & ((W & Ad & _ & Ts & Tt) & Q)).
  subst g. unfold pending. rewrite Q. exact (conj W (conj Ad (conj eq_refl (conj Ts Tt)))).
Qed.

(* the polynomial theory: generator labels and their arities (one object 0, F 0 = R 0 = [0]);
   every label other than 0..4 is treated as a constant by [poly_fwd]/[poly_rev] (the generators
   of the theory are 0..4 and the constants 10 + c) *)
Definition poly_arity (a : nat) : nat * nat :=
  match a with
  | 0 => (2, 1)      (* add *)
  | 1 => (2, 1)      (* mul *)
  | 2 => (1, 1)      (* neg *)
  | 3 => (1, 2)      (* copy *)
  | 4 => (1, 0)      (* discard *)
  | _ => (0, 1)      (* const *)
  end.

Definition poly_src (a : nat) : list nat := repeat 0 (fst (poly_arity a)).
Definition poly_tgt (a : nat) : list nat := repeat 0 (snd (poly_arity a)).

Theorem poly_optic_contract (a : nat) : optic_image_ok poly_optic a (poly_src a) (poly_tgt a).
Proof.
  unfold optic_image_ok, poly_optic, poly_src, poly_tgt.
  cbn [lop_fwd_object lop_rev_object lop_fwd_operation lop_rev_operation lop_residual].
  destruct a as [|[|[|[|[|k]]]]];
    cbn [poly_arity fst snd repeat flat_map List.app poly_fwd poly_rev]; split;
    first [ apply singleton_ok
          | apply closed_image_ok; reflexivity ].
Qed.

(* generator by generator *)
Corollary poly_optic_contract_add : optic_image_ok poly_optic 0 [0; 0] [0].
Proof. exact (poly_optic_contract 0). Qed.
Corollary poly_optic_contract_mul : optic_image_ok poly_optic 1 [0; 0] [0].
Proof. exact (poly_optic_contract 1). Qed.
Corollary poly_optic_contract_neg : optic_image_ok poly_optic 2 [0] [0].
Proof. exact (poly_optic_contract 2). Qed.
Corollary poly_optic_contract_copy : optic_image_ok poly_optic 3 [0] [0; 0].
Proof. exact (poly_optic_contract 3). Qed.
Corollary poly_optic_contract_discard : optic_image_ok poly_optic 4 [0] [].
Proof. exact (poly_optic_contract 4). Qed.
Corollary poly_optic_contract_const c : optic_image_ok poly_optic (10 + c) [] [0].
Proof. exact (poly_optic_contract (10 + c)). Qed.

(* the types, read off: fwd and rev of every generator *)
Corollary poly_optic_types :
  (typed (poly_fwd 0 [0; 0] [0]) [0; 0] [0] /\ typed (poly_rev 0 [0; 0] [0]) [0] [0; 0]) /\
  (typed (poly_fwd 1 [0; 0] [0]) [0; 0] [0; 0; 0] /\ typed (poly_rev 1 [0; 0] [0]) [0; 0; 0] [0; 0]) /\
  (typed (poly_fwd 2 [0] [0]) [0] [0] /\ typed (poly_rev 2 [0] [0]) [0] [0]) /\
  (typed (poly_fwd 3 [0] [0; 0]) [0] [0; 0] /\ typed (poly_rev 3 [0] [0; 0]) [0; 0] [0]) /\
  (typed (poly_fwd 4 [0] []) [0] [] /\ typed (poly_rev 4 [0] []) [] [0]) /\
  (forall c, typed (poly_fwd (10 + c) [] [0]) [] [0] /\ typed (poly_rev (10 + c) [] [0]) [0] []).
Proof.
  repeat split; reflexivity.
Qed.

(* ------------------------------------------------------------------------------------------ *)
(** * 4. the generator images are monogamous acyclic circuits                                  *)
(* ------------------------------------------------------------------------------------------ *)

(* [C14Thm.good_circuit D]: D strictifies (VecKind) to a well-formed, monogamous, acyclic diagram *)
Theorem poly_images_good (a : nat) :
  C14Thm.good_circuit (poly_fwd a (poly_src a) (poly_tgt a)) /\
  C14Thm.good_circuit (poly_rev a (poly_src a) (poly_tgt a)).
Proof.
  unfold poly_src, poly_tgt.
  destruct a as [|[|[|[|[|k]]]]]; cbn [poly_arity fst snd repeat]; split; C14Thm.good_circuit_tac.
Qed.

(* ------------------------------------------------------------------------------------------ *)
(** * 5. the theorems, instantiated at the components of the check                              *)
(* ------------------------------------------------------------------------------------------ *)

(* C16 for ("eval" B f inp) and ("term_eval" B x inp): the callback is [apply_sig], default 0 *)
Corollary harness_eval_total (B : Backend) (OK : BackendOK B) {O} (f : ohg O nat) inp : wf_ohg f ->
  eval B 0%Z apply_sig f inp = Ok None \/ exists out, eval B 0%Z apply_sig f inp = Ok (Some out).
Proof. apply (Assemble.C16f_total OK 0%Z apply_sig_spec). Qed.

Corollary harness_eval_refuses_iff_cyclic (B : Backend) (OK : BackendOK B) {O} (f : ohg O nat) inp :
  wf_ohg f -> length inp = length (table (o_s f)) ->
  (eval B 0%Z apply_sig f inp = Ok None <-> ~ C16Lemmas.acyclic_ops f).
Proof. apply (Assemble.C16f_refuses_iff_cyclic OK 0%Z apply_sig_spec). Qed.

Corollary harness_eval_computes (B : Backend) (OK : BackendOK B) {O} (f : ohg O nat) inp :
  wf_ohg f -> C16Lemmas.acyclic_ops f -> C16Lemmas.single_writer f ->
  (forall e l, nth_error (h_x (o_h f)) e = Some l ->
               length (GraphSpec.op_tgt (o_h f) e) = interp_coarity l) ->
  length inp = length (table (o_s f)) ->
  exists out mem, eval B 0%Z apply_sig f inp = Ok (Some out) /\
    C16Lemmas.Valuation 0%Z interp f inp mem /\ length mem = length (h_w (o_h f)) /\
    out = map (fun v => nth v mem 0%Z) (table (o_t f)).
Proof.
  intros W Hac SW Har Hl. apply arity_ok_interp_iff in Har.
  exact (Assemble.C16f_computes OK 0%Z apply_sig_spec inp W Hac SW Har Hl).
Qed.

Corollary harness_eval_backend_independent {O} (f : ohg O nat) inp :
  wf_ohg f -> C16Lemmas.single_writer f ->
  (forall e l, nth_error (h_x (o_h f)) e = Some l ->
               length (GraphSpec.op_tgt (o_h f) e) = interp_coarity l) ->
  length inp = length (table (o_s f)) ->
  eval VecBackend 0%Z apply_sig f inp = eval AdvBackend 0%Z apply_sig f inp.
Proof.
  intros W SW Har Hl. apply arity_ok_interp_iff in Har.
  exact (Assemble.C20_eval BackendInst.VecBackend_ok BackendInst.AdvBackend_ok 0%Z inp
           apply_sig_spec W SW Har Hl).
Qed.

(* C13 for ("lfmap_native" F a) and ("map_arrow_witness" F f): the functor is [tf_functor F] *)
Corollary harness_lfmap_native_defined (F : ftable) (f : lohg nat nat) :
  C13Thm.lwf13 f -> fst (l_q (lo_h f)) = [] ->
  exists r w, l_try_define_map_arrow (tf_functor F) f = Ok (Some r) /\
              l_map_arrow_witness (tf_functor F) f = Ok (Some (r, w)).
Proof. intros W Hq. exact (C13Thm.C13_defined W Hq (tf_functor_typed F)). Qed.

Corollary harness_lfmap_native_value (F : ftable) (f : lohg nat nat) :
  C13Thm.lwf13 f -> fst (l_q (lo_h f)) = [] ->
  l_try_define_map_arrow (tf_functor F) f = Ok (Some (C13Thm.result_pure (tf_functor F) f)) /\
  l_map_arrow_witness (tf_functor F) f
    = Ok (Some (C13Thm.result_pure (tf_functor F) f, C13Thm.witness_pure (tf_functor F) f)).
Proof. intros W Hq. apply (C13Thm.C13_value W Hq (tf_functor_typed F)). Qed.

(* ------------------------------------------------------------------------------------------ *)
(** * 6. examples                                                                               *)
(* ------------------------------------------------------------------------------------------ *)

(* the hypotheses of apply_sig_spec on a non-trivial batch: add, dup-sum, discard, triple *)
Definition ex_batch : ic (list Z) := mkIC (mkFF [2; 1; 0; 2] 6) [3; 4; 5; 7; 9]%Z.
Example ex_apply_sig :
  wf_ics ex_batch /\ ic_len ex_batch = length [0; 3; 4; 8] /\
  decode_s ex_batch = [[3; 4]; [5]; []; [7; 9]]%Z /\
  apply_sig [0; 3; 4; 8] ex_batch = Ok (mkIC (mkFF [1; 2; 0; 3] 7) [7; 5; 5; 16; 63; 16]%Z).
Proof. repeat split. Qed.

(* wrapping: 2^64 - 1 + 1 = 0, (-1) = 2^64 - 1, constants are reduced *)
Example ex_interp_wrap :
  interp 0 [18446744073709551615; 1]%Z = [0%Z] /\ interp 2 [1%Z] = [18446744073709551615%Z] /\
  interp 10 [] = [0%Z] /\ interp 17 [] = [7%Z] /\ interp 9 [] = [0%Z].
Proof. repeat split. Qed.

(* a diagram over the test signature: x, y |-> let (a, b) = dup-sum (x + y) in discard a; output b
   nodes 0 x, 1 y, 2 x+y, 3 a, 4 b; hyperedges 0: add [0;1] -> [2], 1: dup [2] -> [3;4], 2: discard [3] -> [] *)
Definition ex_sig_f : ohg nat nat :=
  mkOHG (mkFF [0; 1] 5) (mkFF [4] 5)
    (mkHG (mkIC (mkFF [2; 1; 1] 5) (mkFF [0; 1; 2; 3] 5))
          (mkIC (mkFF [1; 2; 0] 4) (mkFF [2; 3; 4] 5))
          [0; 0; 0; 0; 0] [0; 3; 4]).

Example ex_sig_arity : C16Lemmas.arity_ok interp ex_sig_f.
Proof.
  apply arity_ok_interp_iff. intros e l E.
  destruct e as [|[|[|e]]]; cbn in E; try (destruct e; discriminate); inversion E; subst l; reflexivity.
Qed.

Example ex_sig_eval :
  wf_ohg ex_sig_f /\
  eval VecBackend 0%Z apply_sig ex_sig_f [18446744073709551615; 3]%Z = Ok (Some [2%Z]) /\
  eval AdvBackend 0%Z apply_sig ex_sig_f [18446744073709551615; 3]%Z = Ok (Some [2%Z]).
Proof.
  split; [|split; vm_compute; reflexivity].
  unfold wf_ohg, wf_hg, wf_icf, wf_ic, wf_ff, all_lt. cbn.
  repeat split; try reflexivity; repeat constructor.
Qed.

(* a diagram violating the arity table (label 3 with one target) is outside the contract *)
Definition ex_sig_bad : ohg nat nat :=
  mkOHG (mkFF [0] 2) (mkFF [1] 2)
    (mkHG (mkIC (mkFF [1] 2) (mkFF [0] 2)) (mkIC (mkFF [1] 2) (mkFF [1] 2)) [0; 0] [3]).
Example ex_sig_bad_arity : ~ C16Lemmas.arity_ok interp ex_sig_bad.
Proof.
  rewrite arity_ok_interp_iff. intros H. specialize (H 0 3 eq_refl). vm_compute in H. discriminate.
Qed.

(* one table exercising the five kinds; objects 0 |-> [5], 1 |-> [6; 7], 2 |-> [] *)
Definition ex_ft : ftable := mkFT [[5]; [6; 7]; []] [0; 1; 2; 3; 4; 3] 100.

Example ex_tf_kinds :
  tf_op ex_ft 0 [0; 1] [1] =
    mkLOHG [0; 1; 2] [3; 4] (mkLHG [5; 6; 7; 6; 7] [100] [([0; 1; 2], [3; 4])] ([], [])) /\
  tf_op ex_ft 1 [0; 1] [1] =
    mkLOHG [0; 1; 2] [9; 10]
      (mkLHG [5; 6; 7; 5; 6; 7; 5; 6; 7; 6; 7] [1; 101]
             [([0; 1; 2], [3; 4; 5]); ([6; 7; 8], [9; 10])] ([3; 4; 5], [6; 7; 8])) /\
  tf_op ex_ft 2 [0; 1] [1] = mkLOHG [0; 1; 2] [3; 4] (mkLHG [5; 6; 7; 6; 7] [] [] ([], [])) /\
  tf_op ex_ft 3 [1] [2; 1] = mkLOHG [0; 1] [0; 1] (mkLHG [6; 7] [] [] ([], [])) /\
  tf_op ex_ft 5 [1] [0] = mkLOHG [0; 1] [2] (mkLHG [6; 7; 5] [] [] ([], [])) /\
  tf_op ex_ft 4 [1; 0; 1] [0; 0] = mkLOHG [0; 1; 2; 0; 1] [2; 2] (mkLHG [6; 7; 5] [] [] ([], [])) /\
  tf_op ex_ft 9 [0] [0] = mkLOHG [0] [1] (mkLHG [5; 5] [99 + 10] [([0], [1])] ([], [])).
Proof. repeat split. Qed.

Example ex_tf_contract :
  image_ok (tf_op ex_ft 1 [0; 1] [1]) [5; 6; 7] [6; 7] /\
  pending (tf_op ex_ft 1 [0; 1] [1]) = [(3, 6); (4, 7); (5, 8)] /\
  image_ok (tf_op ex_ft 4 [1; 0; 1] [0; 0]) [6; 7; 5; 6; 7] [5; 5].
Proof.
  split; [exact (tf_op_contract ex_ft 1 [0; 1] [1])|].
  split; [reflexivity|exact (tf_op_contract ex_ft 4 [1; 0; 1] [0; 0])].
Qed.

(* a lax term the native functor path accepts, with the kind-1 operation (pending pairs in the image) *)
Example ex_tf_native :
  let f := lohg_singleton 1 [0; 1] [1] in
  C13Thm.lwf13 f /\ fst (l_q (lo_h f)) = [] /\
  exists r, l_try_define_map_arrow (tf_functor ex_ft) f = Ok (Some r) /\
            C13Thm.q_balanced r /\ length (fst (l_q (lo_h r))) = 3 + (5 + 3) + (5 + 2).
Proof.
  intros f. split; [|split; [reflexivity|]].
  - unfold C13Thm.lwf13, all_lt. cbn. repeat constructor.
  - eexists. split; [vm_compute; reflexivity|]. split; reflexivity.
Qed.

(* a table optic with both kinds: objects F 0 = [1; 2], R 0 = [3], residuals M 0 = [9], M 1 = [] *)
Definition ex_ot : otable := mkOT [[1; 2]] [[3]] [[9]; []] [0; 1].
Example ex_ot_images :
  lop_fwd_operation (ot_optic ex_ot) 0 [0] [0] =
    mkLOHG [0; 1] [2; 3; 4] (mkLHG [1; 2; 1; 2; 9] [0] [([0; 1], [2; 3; 4])] ([], [])) /\
  lop_rev_operation (ot_optic ex_ot) 0 [0] [0] =
    mkLOHG [0; 1] [2] (mkLHG [9; 3; 3] [1] [([0; 1], [2])] ([], [])) /\
  lop_fwd_operation (ot_optic ex_ot) 1 [0] [0] =
    mkLOHG [0; 1] [2; 3] (mkLHG [1; 2; 1; 2] [] [] ([], [])) /\
  lop_rev_operation (ot_optic ex_ot) 1 [0] [0] = mkLOHG [0] [1] (mkLHG [3; 3] [] [] ([], [])) /\
  optic_image_ok (ot_optic ex_ot) 0 [0] [0] /\ optic_image_ok (ot_optic ex_ot) 1 [0] [0].
Proof.
  repeat (split; [reflexivity|]). split; apply ot_optic_contract.
Qed.

Print Assumptions wrap_range.
Print Assumptions interp_arity_table.
Print Assumptions interp_range.
Print Assumptions apply_sig_spec.
Print Assumptions arity_ok_interp_iff.
Print Assumptions tf_op_contract.
Print Assumptions tf_functor_contract.
Print Assumptions tf_functor_typed.
Print Assumptions tf_functor_balanced.
Print Assumptions tf_op_no_pending.
Print Assumptions tf_op_kind1_pending.
Print Assumptions ot_optic_contract.
Print Assumptions poly_optic_contract.
Print Assumptions poly_optic_types.
Print Assumptions poly_images_good.
Print Assumptions harness_eval_computes.
Print Assumptions harness_eval_backend_independent.
Print Assumptions harness_lfmap_native_value.
