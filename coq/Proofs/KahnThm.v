(* Correctness of the level-synchronous Kahn algorithm [kahn B adj] (Model/Graph.v, model of
   src/strict/graph.rs) for every back-end satisfying the contract [BackendOK].

   Section 1: pure views of ff_injections / ic_indexed_values / (dense|sparse)_relative_indegree /
              indegree / scatter_sub_assign / the frontier computation.
   Section 2: the level relation [Lvl] and its properties.
   Section 3: the loop invariant and its preservation by [kahn_body].
   Section 4: [kahn_correct].
   Section 5: corollaries [kahn_sound], [kahn_cycle]; examples. *)
From OHG Require Import Spec.Plain Proofs.PrimsThm.
From Coq Require Import Relation_Operators Operators_Properties.

Set Implicit Arguments.

Arguments Nat.sub : simpl never.

(* ================================================================== *)
(** * Section 1: pure views *)
(* ================================================================== *)

(* ---------- generic list facts ---------- *)

Lemma fold_left_max_lt n : forall xs x, x < n -> Forall (fun y => y < n) xs -> fold_left Nat.max xs x < n.
Proof.
  induction xs as [|y ys IH]; intros x Hx HF; simpl; auto.
  inversion HF as [|y' ys' Hy HF']; subst. apply IH; auto. lia.
Qed.

Lemma ff_new_ok t n : all_lt n t -> ff_new t n = Some (mkFF t n).
Proof.
  intros H. unfold ff_new, amax. destruct t as [|x xs]; auto.
  inversion H as [|x' xs' Hx HF]; subst.
  pose proof (fold_left_max_lt Hx HF) as Hm.
  destruct (n <=? fold_left Nat.max xs x) eqn:E; auto.
  apply Nat.leb_le in E. lia.
Qed.

Lemma sub_chk_ok a b : b <= a -> sub_chk a b = Ok (a - b).
Proof. intros H. unfold sub_chk. apply Nat.leb_le in H. rewrite H. reflexivity. Qed.

Lemma combine_app {A B} (l1 l2 : list A) (m1 m2 : list B) : length l1 = length m1 ->
  combine (l1 ++ l2) (m1 ++ m2) = combine l1 m1 ++ combine l2 m2.
Proof.
  revert m1; induction l1 as [|x l1 IH]; intros [|y m1] H; simpl in *; try discriminate; auto.
  f_equal. apply IH. lia.
Qed.

Lemma skipn_add {T} (l : list T) : forall a b, skipn (a + b) l = skipn b (skipn a l).
Proof.
  induction l as [|x l IH]; intros a b.
  - rewrite !skipn_nil. reflexivity.
  - destruct a as [|a]; simpl. reflexivity. apply IH.
Qed.

Lemma Forall_firstn {T} (P : T -> Prop) l : forall k, Forall P l -> Forall P (firstn k l).
Proof.
  induction l as [|x l IH]; intros [|k] H; simpl; auto.
  inversion H; subst. constructor; auto.
Qed.

Lemma Forall_skipn {T} (P : T -> Prop) l : forall k, Forall P l -> Forall P (skipn k l).
Proof.
  induction l as [|x l IH]; intros [|k] H; simpl; auto.
  inversion H; subst. auto.
Qed.

Lemma firstn_skipn_seq {T} (d : T) l : forall a k, a + k <= length l ->
  firstn k (skipn a l) = map (fun i => nth i l d) (seq a k).
Proof.
  induction l as [|x l IH]; intros a k H; simpl in H.
  - assert (a = 0) by lia. assert (k = 0) by lia. subst. reflexivity.
  - destruct a as [|a].
    + destruct k as [|k]. reflexivity.
      simpl. f_equal. rewrite <- seq_shift, map_map.
      rewrite <- (IH 0 k) by lia. reflexivity.
    + rewrite skipn_cons. rewrite (IH a k) by lia.
      rewrite <- seq_shift, map_map. reflexivity.
Qed.

Lemma list_sum_firstn_le sizes : forall x, x < length sizes ->
  list_sum (firstn x sizes) + nth x sizes 0 <= list_sum sizes.
Proof.
  induction sizes as [|k rest IH]; intros x H; simpl in H. lia.
  destruct x as [|x]; simpl. lia.
  specialize (IH x). lia.
Qed.

(* ---------- decoding of segments ---------- *)

Lemma nth_segs {T} : forall sizes (vals : list T) x, x < length sizes ->
  nth x (segs sizes vals) [] = firstn (nth x sizes 0) (skipn (list_sum (firstn x sizes)) vals).
Proof.
  induction sizes as [|k rest IH]; intros vals x H; simpl in H. lia.
  destruct x as [|x]; simpl. reflexivity.
  rewrite IH by lia. rewrite skipn_add. reflexivity.
Qed.

Lemma segs_Forall {T} (P : T -> Prop) : forall sizes vals, Forall P vals -> Forall (Forall P) (segs sizes vals).
Proof.
  induction sizes as [|k rest IH]; intros vals H; simpl; constructor.
  - apply Forall_firstn; auto.
  - apply IH. apply Forall_skipn; auto.
Qed.

Lemma segs_length {T} : forall sizes (vals : list T), length (segs sizes vals) = length sizes.
Proof. induction sizes as [|k rest IH]; intros vals; simpl; auto. Qed.

(* successors of vertex v, with multiplicity *)
Definition succs (adj : icf) (v : nat) : list nat := nth v (decode_f adj) [].

Lemma succs_lt adj u v : wf_icf adj -> In v (succs adj u) -> v < target (ic_values adj).
Proof.
  intros (_ & Hv) Hin. unfold succs, decode_f in Hin.
  pose proof (segs_Forall (table (ic_sources adj)) Hv) as HF.
  destruct (Nat.lt_ge_cases u (length (segs (table (ic_sources adj)) (table (ic_values adj))))) as [Hu|Hu].
  - rewrite Forall_forall in HF. specialize (HF _ (nth_In _ [] Hu)).
    rewrite Forall_forall in HF. apply HF; auto.
  - rewrite nth_overflow in Hin by auto. contradiction.
Qed.

(* ---------- segmented_arange ---------- *)

Lemma combine_seq_repeat_sub a : forall k j,
  Forall (fun p => snd p <= fst p) (combine (seq (a + j) k) (repeat a k)) /\
  map (fun p => fst p - snd p) (combine (seq (a + j) k) (repeat a k)) = seq j k.
Proof.
  induction k as [|k IH]; intros j; simpl. split; auto.
  replace (S (a + j)) with (a + S j) by lia.
  destruct (IH (S j)) as (H1 & H2). split.
  - constructor; auto. simpl. lia.
  - rewrite H2. f_equal. lia.
Qed.

Definition rep_pairs (ks xs : list nat) : list nat :=
  flat_map (fun p => repeat (snd p) (fst p)) (combine ks xs).

Lemma seg_arange_aux : forall ks a,
  length (rep_pairs ks (cumsum_from a ks)) = list_sum ks /\
  Forall (fun p => snd p <= fst p) (combine (seq a (list_sum ks)) (rep_pairs ks (cumsum_from a ks))) /\
  map (fun p => fst p - snd p) (combine (seq a (list_sum ks)) (rep_pairs ks (cumsum_from a ks)))
    = flat_map (fun k => seq 0 k) ks.
Proof.
  unfold rep_pairs.
  induction ks as [|k ks IH]; intros a; simpl.
  - destruct (cumsum_from a []); simpl; auto.
  - destruct (IH (a + k)) as (H1 & H2 & H3).
    rewrite app_length, repeat_length, H1. split; auto.
    rewrite seq_app. rewrite combine_app by (rewrite seq_length, repeat_length; auto).
    destruct (combine_seq_repeat_sub a k 0) as (G1 & G2). rewrite Nat.add_0_r in G1, G2.
    split.
    + apply Forall_app. split; auto.
    + rewrite map_app, G2, H3. reflexivity.
Qed.

Lemma combine_firstn_l {A B} (l : list A) : forall (m : list B),
  combine l (firstn (length l) m) = combine l m.
Proof. induction l as [|x l IH]; intros [|y m]; simpl; auto. f_equal. apply IH. Qed.

Lemma segmented_arange_ok ks : segmented_arange ks = Ok (flat_map (fun k => seq 0 k) ks).
Proof.
  unfold segmented_arange.
  rewrite cumulative_sum_length. rewrite sub_chk_ok by lia.
  replace (S (length ks) - 1) with (length ks) by lia. cbn [bind].
  rewrite (get_ok _ 0) by (rewrite cumulative_sum_length; lia). cbn [bind].
  rewrite nth_cumulative_sum by lia. rewrite firstn_all.
  unfold get_range, to_range. rewrite slice_ok by (try rewrite cumulative_sum_length; lia).
  cbn [bind]. rewrite Nat.sub_0_r, skipn_O.
  rewrite arepeat_ok by (rewrite firstn_length, cumulative_sum_length; lia). cbn [bind].
  rewrite arange_ok by lia. cbn [bind]. rewrite Nat.sub_0_r.
  rewrite combine_firstn_l. unfold cumulative_sum.
  destruct (seg_arange_aux ks 0) as (H1 & H2 & H3). unfold rep_pairs in *.
  rewrite asub_ok; auto. rewrite H3. reflexivity.
  rewrite seq_length. auto.
Qed.

(* ---------- ff_injections ---------- *)

Lemma combine_seq_repeat_add o : forall k j,
  map (fun p => fst p + snd p) (combine (seq j k) (repeat o k)) = seq (j + o) k.
Proof.
  induction k as [|k IH]; intros j; simpl. reflexivity.
  rewrite IH. reflexivity.
Qed.

Lemma injections_table (size off : nat -> nat) : forall l,
  length (flat_map (fun k => seq 0 k) (map size l)) = length (rep_pairs (map size l) (map off l)) /\
  map (fun p => fst p + snd p)
      (combine (flat_map (fun k => seq 0 k) (map size l)) (rep_pairs (map size l) (map off l)))
  = flat_map (fun x => seq (off x) (size x)) l.
Proof.
  unfold rep_pairs.
  induction l as [|x l (IH1 & IH2)]; simpl. split; reflexivity.
  split.
  - rewrite !app_length, seq_length, repeat_length, IH1. reflexivity.
  - rewrite combine_app by (rewrite seq_length, repeat_length; auto).
    rewrite map_app, IH2, combine_seq_repeat_add. reflexivity.
Qed.

Lemma ff_compose_ok f g : target f = ff_source g -> all_lt (ff_source g) (table f) ->
  ff_compose f g = Ok (Some (mkFF (map (fun i => nth i (table g) 0) (table f)) (target g))).
Proof.
  intros Ht Hlt. unfold ff_compose. rewrite Ht, Nat.eqb_refl.
  rewrite get_range_full. cbn [bind].
  rewrite (gather_ok _ 0) by exact Hlt. reflexivity.
Qed.

Lemma ff_injections_ok s f : target f = ff_source s -> all_lt (ff_source s) (table f) ->
  ff_injections s f =
  Ok (Some (mkFF (flat_map (fun x => seq (nth x (cumulative_sum (table s)) 0) (nth x (table s) 0)) (table f))
                 (list_sum (table s)))).
Proof.
  intros Ht Hlt. unfold ff_injections.
  rewrite ff_compose_ok by auto. cbn [bind table].
  rewrite segmented_arange_ok. cbn [bind].
  rewrite get_range_full. cbn [bind].
  rewrite (gather_ok _ 0).
  2:{ eapply Forall_impl; [|exact Hlt]. intros a Ha. rewrite cumulative_sum_length.
      unfold ff_source in Ha. lia. }
  cbn [bind]. rewrite get_range_full. cbn [bind].
  rewrite arepeat_ok by (rewrite !map_length; reflexivity). cbn [bind].
  destruct (injections_table (fun i => nth i (table s) 0) (fun i => nth i (cumulative_sum (table s)) 0) (table f))
    as (H1 & H2). unfold rep_pairs in *.
  rewrite aadd_ok by exact H1. cbn [bind]. rewrite H2.
  rewrite cumulative_sum_length. rewrite sub_chk_ok by lia.
  replace (S (length (table s)) - 1) with (length (table s)) by lia. cbn [bind].
  rewrite (get_ok _ 0) by (rewrite cumulative_sum_length; lia). cbn [bind].
  rewrite nth_cumulative_sum by lia. rewrite firstn_all. reflexivity.
Qed.

(* ---------- ic_indexed_values: the successors of the vertices of f, concatenated ---------- *)

Lemma gather_segments adj : wf_icf adj -> forall l, all_lt (ic_len adj) l ->
  let sz := table (ic_sources adj) in
  let inj := flat_map (fun x => seq (nth x (cumulative_sum sz) 0) (nth x sz 0)) l in
  all_lt (length (table (ic_values adj))) inj /\
  map (fun i => nth i (table (ic_values adj)) 0) inj = flat_map (succs adj) l.
Proof.
  intros ((Hw1 & Hw2) & Hw3) l Hl. cbv zeta.
  unfold ic_len, ff_source in *.
  induction l as [|x l IH]; simpl. split; constructor.
  inversion Hl as [|x' l' Hx Hl']; subst. destruct (IH Hl') as (IH1 & IH2).
  pose proof (list_sum_firstn_le _ Hx) as Hle.
  rewrite nth_cumulative_sum by lia.
  split.
  - apply Forall_app. split; auto.
    apply Forall_forall. intros i Hi. apply in_seq in Hi. lia.
  - rewrite map_app, IH2. f_equal.
    unfold succs, decode_f. rewrite nth_segs by auto.
    rewrite (firstn_skipn_seq 0). reflexivity. lia.
Qed.

Lemma ic_indexed_values_ok adj f : wf_icf adj -> wf_ff f -> target f = ic_len adj ->
  ic_indexed_values ff_vops adj f =
  Ok (Some (mkFF (flat_map (succs adj) (table f)) (target (ic_values adj)))).
Proof.
  intros Hwf Hf Ht. unfold ic_indexed_values.
  assert (Hlt : all_lt (ic_len adj) (table f)) by (rewrite <- Ht; exact Hf).
  rewrite ff_injections_ok by auto. cbn [bind vpre ff_vops].
  destruct (gather_segments Hwf Hlt) as (G1 & G2).
  destruct Hwf as ((Hw1 & Hw2) & Hw3).
  rewrite ff_compose_ok; cbn [table target]; auto.
  rewrite G2. reflexivity.
Qed.

Lemma reached_lt adj l : wf_icf adj -> all_lt (target (ic_values adj)) (flat_map (succs adj) l).
Proof.
  intros Hwf. apply Forall_forall. intros v Hv.
  apply in_flat_map in Hv. destruct Hv as (u & _ & Hu). eapply succs_lt; eauto.
Qed.

(* ---------- dense_relative_indegree / indegree ---------- *)

Lemma dense_relative_indegree_ok adj f :
  wf_icf adj -> target (ic_values adj) = ic_len adj -> wf_ff f -> target f = ic_len adj ->
  dense_relative_indegree adj f =
  Ok (mkFF (bincount_pure (flat_map (succs adj) (table f)) (ic_len adj))
           (length (flat_map (succs adj) (table f)) + 1)).
Proof.
  intros Hwf Htg Hf Ht. unfold dense_relative_indegree.
  rewrite Ht, Nat.eqb_refl. cbn [assert bind].
  rewrite ic_indexed_values_ok by auto. cbn [bind unwrap ff_source table].
  rewrite bincount_ok by (rewrite <- Htg; apply reached_lt; auto). cbn [bind].
  rewrite ff_new_ok. reflexivity.
  apply Forall_forall. intros c Hc. unfold bincount_pure in Hc.
  apply in_map_iff in Hc. destruct Hc as (v & <- & _).
  pose proof (count_occ_bound Nat.eq_dec v (flat_map (succs adj) (table f))).
  unfold ff_source; cbn [table]. lia.
Qed.

Lemma indegree_ok adj : wf_icf adj -> target (ic_values adj) = ic_len adj ->
  indegree adj =
  Ok (mkFF (bincount_pure (flat_map (succs adj) (seq 0 (ic_len adj))) (ic_len adj))
           (length (flat_map (succs adj) (seq 0 (ic_len adj))) + 1)).
Proof.
  intros Hwf Htg. unfold indegree, ff_identity.
  rewrite arange_ok by lia. cbn [bind]. rewrite Nat.sub_0_r.
  rewrite dense_relative_indegree_ok; auto.
  unfold wf_ff. cbn [table target]. apply Forall_forall. intros x Hx. apply in_seq in Hx. lia.
Qed.

(* ---------- sparse_relative_indegree, for any conforming back-end ---------- *)

(* the only clause of the back-end contract [kahn] depends on *)
Definition SparseOK (B : Backend) : Prop :=
  forall xs,
    let u := fst (b_sparse_bincount B xs) in
    let c := snd (b_sparse_bincount B xs) in
    NoDup u /\ (forall v, In v u <-> In v xs) /\ c = map (count_occ Nat.eq_dec xs) u.

Lemma BackendOK_sparse B : BackendOK B -> SparseOK B.
Proof. intros OK. exact (bk_sparse B OK). Qed.

Lemma sparse_relative_indegree_ok B adj f : SparseOK B ->
  wf_icf adj -> target (ic_values adj) = ic_len adj -> wf_ff f -> target f = ic_len adj ->
  let R := flat_map (succs adj) (table f) in
  exists keys,
    sparse_relative_indegree B adj f =
      Ok (mkFF keys (ic_len adj), mkFF (map (count_occ Nat.eq_dec R) keys) (length R + 1)) /\
    NoDup keys /\ (forall v, In v keys <-> In v R).
Proof.
  intros OK Hwf Htg Hf Ht R. unfold sparse_relative_indegree.
  rewrite Ht, Nat.eqb_refl. cbn [assert bind].
  rewrite ic_indexed_values_ok by auto. cbn [bind unwrap ff_source table]. fold R.
  pose proof (OK R) as Hs. cbv zeta in Hs.
  destruct (b_sparse_bincount B R) as [keys cs]. cbn [fst snd] in Hs.
  destruct Hs as (Hnd & Hin & Hcs). subst cs.
  exists keys. split; [|split; auto].
  rewrite ff_new_ok. cbn [bind unwrap].
  - rewrite ff_new_ok. reflexivity.
    apply Forall_forall. intros c Hc. apply in_map_iff in Hc. destruct Hc as (v & <- & _).
    pose proof (count_occ_bound Nat.eq_dec v R). unfold ff_source; cbn [table]. lia.
  - apply Forall_forall. intros v Hv. apply Hin in Hv.
    pose proof (reached_lt (table f) Hwf) as HR. fold R in HR.
    unfold all_lt in HR. rewrite Forall_forall in HR. rewrite <- Htg. auto.
Qed.

(* ---------- scatter_sub_assign with distinct keys ---------- *)

Lemma scatter_sub_assign_ok (c : nat -> nat) : forall keys xs,
  NoDup keys -> Forall (fun k => k < length xs) keys ->
  (forall k, In k keys -> c k <= nth k xs 0) ->
  exists ys, scatter_sub_assign xs keys (map c keys) = Ok ys /\ length ys = length xs /\
    forall v, nth v ys 0 = if in_dec Nat.eq_dec v keys then nth v xs 0 - c v else nth v xs 0.
Proof.
  induction keys as [|k ks IH]; intros xs Hnd Hlt Hle.
  - exists xs. simpl. auto.
  - inversion Hnd as [|k' ks' Hk Hnd']; subst.
    inversion Hlt as [|k' ks' Hkl Hlt']; subst.
    cbn [map scatter_sub_assign].
    rewrite (get_ok _ 0) by auto. cbn [bind].
    rewrite sub_chk_ok by (apply Hle; left; auto). cbn [bind].
    rewrite assign_ok by auto. cbn [bind].
    destruct (IH (set_nth xs k (nth k xs 0 - c k))) as (ys & Hys & Hlen & Hnth); auto.
    + rewrite set_nth_length. auto.
    + intros k' Hk'. rewrite nth_set_nth by auto.
      destruct (k' =? k) eqn:E. apply Nat.eqb_eq in E. subst. contradiction.
      apply Hle. right; auto.
    + exists ys. split; auto. split. rewrite Hlen, set_nth_length; auto.
      intros v. rewrite Hnth. rewrite nth_set_nth by auto.
      destruct (Nat.eq_dec v k) as [->|Hne].
      * rewrite Nat.eqb_refl. destruct (in_dec Nat.eq_dec k ks) as [Hi|Hi]. contradiction.
        destruct (in_dec Nat.eq_dec k (k :: ks)) as [Hj|Hj]. reflexivity.
        exfalso; apply Hj; left; auto.
      * assert (E : (v =? k) = false) by (apply Nat.eqb_neq; auto). rewrite E.
        destruct (in_dec Nat.eq_dec v ks) as [Hi|Hi]; destruct (in_dec Nat.eq_dec v (k :: ks)) as [Hj|Hj];
          try reflexivity.
        -- exfalso. apply Hj; right; auto.
        -- destruct Hj as [Hj|Hj]; [congruence|contradiction].
Qed.

(* ---------- the frontier computation: zero() then gather = filter ---------- *)

Lemma gather_zero_from (g : nat -> nat) : forall keys k,
  map (fun i => nth (i - k) keys 0) (zero_from k (map g keys)) = List.filter (fun x => g x =? 0) keys.
Proof.
  induction keys as [|x ks IH]; intros k. reflexivity.
  cbn [map zero_from List.filter].
  assert (Hrest : map (fun i => nth (i - k) (x :: ks) 0) (zero_from (S k) (map g ks))
                  = List.filter (fun y => g y =? 0) ks).
  { rewrite <- (IH (S k)). apply map_ext_in. intros i Hi.
    apply zero_from_spec in Hi. destruct Hi as (j & -> & _).
    replace (S k + j - k) with (S j) by lia. replace (S k + j - S k) with j by lia. reflexivity. }
  destruct (g x =? 0).
  - cbn [map]. rewrite Nat.sub_diag. cbn [nth]. f_equal. exact Hrest.
  - exact Hrest.
Qed.

Lemma gather_azero (g : nat -> nat) keys :
  map (fun i => nth i keys 0) (azero (map g keys)) = List.filter (fun x => g x =? 0) keys.
Proof.
  unfold azero. rewrite <- (gather_zero_from g keys 0).
  apply map_ext. intros i. rewrite Nat.sub_0_r. reflexivity.
Qed.

Lemma azero_lt xs : Forall (fun i => i < length xs) (azero xs).
Proof. apply Forall_forall. intros i Hi. apply azero_spec in Hi. tauto. Qed.

Lemma repeat_filter (h : nat -> nat) : forall l, (forall x, In x l -> h x = 0 \/ h x = 1) ->
  flat_map (fun q => repeat (snd q) (fst q)) (combine (map h l) l) = List.filter (fun x => h x =? 1) l.
Proof.
  induction l as [|x l IH]; intros H. reflexivity.
  cbn [map combine flat_map List.filter fst snd].
  rewrite IH by (intros y Hy; apply H; right; auto).
  destruct (H x (or_introl eq_refl)) as [E|E]; rewrite E; reflexivity.
Qed.

Lemma filter_ok fr1 (h : nat -> nat) : (forall x, In x fr1 -> h x = 0 \/ h x = 1) ->
  Graph.filter fr1 (map h fr1) = Ok (List.filter (fun x => h x =? 1) fr1).
Proof.
  intros H. unfold Graph.filter. rewrite get_range_full. cbn [bind].
  rewrite arepeat_ok by (rewrite map_length; reflexivity).
  rewrite repeat_filter by auto. reflexivity.
Qed.

(* ---------- sums over [0,m) ---------- *)

Lemma list_sum_cons x l : list_sum (x :: l) = x + list_sum l.
Proof. reflexivity. Qed.

Lemma list_sum_nil : list_sum [] = 0.
Proof. reflexivity. Qed.

Lemma count_occ_flat_map (f : nat -> list nat) v : forall l,
  count_occ Nat.eq_dec (flat_map f l) v = list_sum (map (fun u => count_occ Nat.eq_dec (f u) v) l).
Proof.
  induction l as [|x l IH]. reflexivity.
  cbn [flat_map map]. rewrite list_sum_cons, count_occ_app, IH. reflexivity.
Qed.

Lemma list_sum_map_zero {T} (g : T -> nat) : forall l,
  list_sum (map g l) = 0 <-> forall x, In x l -> g x = 0.
Proof.
  induction l as [|x l IH]; cbn [map]; rewrite ?list_sum_cons, ?list_sum_nil.
  - split; auto. intros _ y Hy. destruct Hy.
  - split.
    + intros H y [<-|Hy]. lia. apply IH; auto. lia.
    + intros H. rewrite (H x (or_introl eq_refl)).
      assert (G : list_sum (map g l) = 0) by (apply IH; intros y Hy; apply H; right; auto).
      rewrite G. reflexivity.
Qed.

Lemma list_sum_extract (h : nat -> nat) a : forall m, a < m ->
  list_sum (map h (seq 0 m)) = h a + list_sum (map (fun u => if u =? a then 0 else h u) (seq 0 m)).
Proof.
  induction m as [|m IH]; intros H. lia.
  rewrite seq_S, !map_app, !list_sum_app. cbn [map Nat.add]. rewrite !list_sum_cons, !list_sum_nil.
  destruct (Nat.eq_dec a m) as [->|Hne].
  - rewrite Nat.eqb_refl.
    assert (E : map (fun u => if u =? m then 0 else h u) (seq 0 m) = map h (seq 0 m)).
    { apply map_ext_in. intros u Hu. apply in_seq in Hu.
      destruct (u =? m) eqn:E. apply Nat.eqb_eq in E. lia. reflexivity. }
    rewrite E. lia.
  - rewrite IH by lia.
    destruct (m =? a) eqn:E. apply Nat.eqb_eq in E. lia. lia.
Qed.

Lemma existsb_eqb_In j l : existsb (Nat.eqb j) l = true <-> In j l.
Proof.
  rewrite existsb_exists. split.
  - intros (x & Hx & E). apply Nat.eqb_eq in E. subst. auto.
  - intros H. exists j. split; auto. apply Nat.eqb_refl.
Qed.

Lemma existsb_eqb_notIn j l : existsb (Nat.eqb j) l = false <-> ~ In j l.
Proof.
  rewrite <- existsb_eqb_In. destruct (existsb (Nat.eqb j) l); split; intros H; auto; try discriminate.
  exfalso; apply H; auto.
Qed.

Lemma sum_split (a : nat -> bool) (w : nat -> nat) m : forall F,
  NoDup F -> (forall u, In u F -> u < m /\ a u = true) ->
  list_sum (map (fun u => if a u then w u else 0) (seq 0 m)) =
  list_sum (map w F) +
  list_sum (map (fun u => if a u && negb (existsb (Nat.eqb u) F) then w u else 0) (seq 0 m)).
Proof.
  induction F as [|x F IH]; intros Hnd HF.
  - cbn [map existsb negb]. rewrite list_sum_nil. cbn [Nat.add]. f_equal. apply map_ext. intros u.
    rewrite andb_true_r. reflexivity.
  - inversion Hnd as [|x' F' Hx Hnd']; subst.
    rewrite IH; auto. 2:{ intros u Hu. apply HF. right; auto. }
    destruct (HF x (or_introl eq_refl)) as (Hxm & Hax).
    rewrite (list_sum_extract (fun u => if a u && negb (existsb (Nat.eqb u) F) then w u else 0) Hxm).
    rewrite Hax. apply existsb_eqb_notIn in Hx. rewrite Hx.
    cbn [andb negb map]. rewrite list_sum_cons.
    match goal with |- _ + (_ + ?s1) = _ + _ + ?s2 => assert (E : s1 = s2) end.
    { f_equal. apply map_ext. intros u. cbn [existsb].
      destruct (u =? x); cbn [orb negb]. rewrite andb_false_r. reflexivity. reflexivity. }
    rewrite E. lia.
Qed.

(* ================================================================== *)
(** * Section 2: the level relation *)
(* ================================================================== *)

Section Levels.
  Variable n : nat.
  Variable sc : nat -> list nat.   (* successors, with multiplicity *)

  Definition edge (u v : nat) : Prop := In v (sc u).

  (* Lvl v d: every ancestor of v has a level and d is the length of the longest chain of
     predecessors ending in v *)
  Inductive Lvl : nat -> nat -> Prop :=
  | lvl_intro v d : v < n ->
      (forall u, u < n -> edge u v -> exists d', d' < d /\ Lvl u d') ->
      (d = 0 \/ exists u, u < n /\ edge u v /\ Lvl u (d - 1)) ->
      Lvl v d.

  Lemma lvl_iff v d :
    Lvl v d <->
    v < n /\ (forall u, u < n -> edge u v -> exists d', d' < d /\ Lvl u d') /\
    (d = 0 \/ exists u, u < n /\ edge u v /\ Lvl u (d - 1)).
  Proof.
    split.
    - intros H. inversion H; subst. auto.
    - intros (H1 & H2 & H3). constructor; auto.
  Qed.

  Lemma lvl_lt v d : Lvl v d -> v < n.
  Proof. intros H. inversion H; auto. Qed.

  Lemma lvl_pred u v d : Lvl v d -> u < n -> edge u v -> exists d', d' < d /\ Lvl u d'.
  Proof. intros H. inversion H; subst; auto. Qed.

  Lemma lvl_top v d : Lvl v d -> d = 0 \/ exists u, u < n /\ edge u v /\ Lvl u (d - 1).
  Proof. intros H. inversion H; subst; auto. Qed.

  Lemma lvl_le : forall d v d', Lvl v d -> Lvl v d' -> d <= d'.
  Proof.
    induction d as [d IH] using lt_wf_ind. intros v d' H H'.
    destruct (lvl_top H) as [->|(u & Hu & He & Hl)]. lia.
    destruct (lvl_pred H' Hu He) as (d'' & Hlt & Hl'').
    destruct (Nat.eq_dec d 0) as [->|Hd]. lia.
    assert (d - 1 <= d'') by (apply (IH (d - 1)) with (v := u); auto; lia).
    lia.
  Qed.

  Theorem lvl_functional v d d' : Lvl v d -> Lvl v d' -> d = d'.
  Proof.
    intros H H'. pose proof (lvl_le H H'). pose proof (lvl_le H' H). lia.
  Qed.

  Lemma lvl_down : forall d v, Lvl v d -> forall e, e <= d -> exists u, Lvl u e.
  Proof.
    induction d as [|d IH]; intros v H e He.
    - assert (e = 0) by lia. subst. eauto.
    - destruct (Nat.eq_dec e (S d)) as [->|Hne]. eauto.
      destruct (lvl_top H) as [E|(u & Hu & Hed & Hl)]. discriminate.
      replace (S d - 1) with d in Hl by lia.
      apply (IH u Hl). lia.
  Qed.

  Lemma lvl_chain : forall d v, Lvl v d ->
    exists l, length l = S d /\ NoDup l /\ forall x, In x l -> x < n /\ exists e, e <= d /\ Lvl x e.
  Proof.
    induction d as [|d IH]; intros v H.
    - exists [v]. split; auto. split. constructor; auto. constructor.
      intros x [<-|[]]. split. eapply lvl_lt; eauto. exists 0. auto.
    - destruct (lvl_top H) as [E|(u & Hu & Hed & Hl)]. discriminate.
      replace (S d - 1) with d in Hl by lia.
      destruct (IH u Hl) as (l & Hlen & Hnd & Hall).
      exists (v :: l). split. simpl. lia. split.
      + constructor; auto. intros Hin. destruct (Hall v Hin) as (_ & e & He & Hle).
        pose proof (lvl_functional H Hle). lia.
      + intros x [<-|Hx]. split. eapply lvl_lt; eauto. exists (S d). auto.
        destruct (Hall x Hx) as (Hxn & e & He & Hle). split; auto. exists e. split; auto.
  Qed.

  Theorem lvl_bound v d : Lvl v d -> d < n.
  Proof.
    intros H. destruct (lvl_chain H) as (l & Hlen & Hnd & Hall).
    assert (Hincl : incl l (seq 0 n)).
    { intros x Hx. apply in_seq. destruct (Hall x Hx). lia. }
    pose proof (NoDup_incl_length Hnd Hincl) as Hle. rewrite seq_length in Hle. lia.
  Qed.
End Levels.

Lemma nth_repeat_lt {T} (x d : T) : forall m v, v < m -> nth v (repeat x m) d = x.
Proof. induction m as [|m IH]; intros [|v] H; simpl; try lia; auto. apply IH. lia. Qed.

(* ================================================================== *)
(** * Section 3: the loop invariant *)
(* ================================================================== *)

Section WithBackend.
  Variable B : Backend.
  Hypothesis OK : SparseOK B.

  Section Invariant.
    Variable adj : icf.
    Hypothesis Hwf : wf_icf adj.
    Hypothesis Htg : target (ic_values adj) = ic_len adj.

    Local Notation n := (ic_len adj).
    Local Notation sc := (succs adj).
    Local Notation L := (Lvl (ic_len adj) (succs adj)).

    Lemma sc_closed u v : edge sc u v -> v < n.
    Proof. unfold edge. intros H. rewrite <- Htg. eapply succs_lt; eauto. Qed.

    (* number of edges (with multiplicity) into v from vertices still unvisited *)
    Definition indeg_of (unv : list nat) (v : nat) : nat :=
      list_sum (map (fun u => if nth u unv 0 =? 0 then 0 else count_occ Nat.eq_dec (sc u) v) (seq 0 n)).

    Lemma indeg_zero unv v :
      indeg_of unv v = 0 <-> forall u, u < n -> edge sc u v -> nth u unv 0 = 0.
    Proof.
      unfold indeg_of. rewrite list_sum_map_zero. split.
      - intros H u Hu He.
        assert (Hin : In u (seq 0 n)) by (apply in_seq; lia). specialize (H u Hin).
        destruct (nth u unv 0 =? 0) eqn:E. apply Nat.eqb_eq in E; auto.
        apply count_occ_not_In in H. contradiction.
      - intros H u Hu. apply in_seq in Hu. destruct (nth u unv 0 =? 0) eqn:E; auto.
        apply count_occ_not_In. intros He. apply Nat.eqb_neq in E. apply E. apply H; auto. lia.
    Qed.

    Lemma indeg_step unv F v : length unv = n -> NoDup F ->
      (forall u, In u F -> u < n /\ nth u unv 0 <> 0) ->
      indeg_of unv v = count_occ Nat.eq_dec (flat_map sc F) v + indeg_of (sac_pure unv F 0) v.
    Proof.
      intros Hlen Hnd HF. unfold indeg_of. rewrite count_occ_flat_map.
      transitivity (list_sum (map (fun u => if negb (nth u unv 0 =? 0)
                                            then count_occ Nat.eq_dec (sc u) v else 0) (seq 0 n))).
      { f_equal. apply map_ext. intros u. destruct (nth u unv 0 =? 0); reflexivity. }
      rewrite (sum_split (fun u => negb (nth u unv 0 =? 0)) (fun u => count_occ Nat.eq_dec (sc u) v) Hnd).
      - f_equal. f_equal. apply map_ext. intros u.
        rewrite nth_sac_pure.
        2:{ apply Forall_forall. intros x Hx. rewrite Hlen. apply HF; auto. }
        destruct (existsb (Nat.eqb u) F); destruct (nth u unv 0 =? 0); reflexivity.
      - intros u Hu. destruct (HF u Hu) as (H1 & H2). split; auto.
        apply Nat.eqb_neq in H2. rewrite H2. reflexivity.
    Qed.

    Record Inv (k : nat) (st : kstate) : Prop := mkInv {
      inv_depth : k_depth st = k;
      inv_len_ord : length (k_order st) = n;
      inv_len_unv : length (k_unvisited st) = n;
      inv_len_ind : length (k_indegree st) = n;
      inv_bool : forall v, v < n -> nth v (k_unvisited st) 0 = 0 \/ nth v (k_unvisited st) 0 = 1;
      inv_vis : forall v, v < n -> (nth v (k_unvisited st) 0 = 0 <-> exists d, d < k /\ L v d);
      inv_ord : forall v d, d < k -> L v d -> nth v (k_order st) 0 = d;
      inv_fr_nd : NoDup (k_frontier st);
      inv_fr : forall v, In v (k_frontier st) <-> L v k;
      inv_ind : forall v, v < n -> nth v (k_indegree st) 0 = indeg_of (k_unvisited st) v
    }.

    Lemma inv_init :
      let ind0 := bincount_pure (flat_map sc (seq 0 n)) n in
      Inv 0 (mkK (fill 0 n) (fill 1 n) ind0 (azero ind0) 0).
    Proof.
      intros ind0. unfold fill.
      assert (Hind0 : forall v, v < n ->
                nth v ind0 0 = list_sum (map (fun u => count_occ Nat.eq_dec (sc u) v) (seq 0 n))).
      { intros v Hv. unfold ind0. rewrite nth_bincount_pure by auto. apply count_occ_flat_map. }
      constructor; cbn [k_order k_unvisited k_indegree k_frontier k_depth].
      - reflexivity.
      - apply repeat_length.
      - apply repeat_length.
      - apply bincount_pure_length.
      - intros v Hv. right. apply nth_repeat_lt; auto.
      - intros v Hv. rewrite nth_repeat_lt by auto. split. discriminate.
        intros (d & Hd & _). lia.
      - intros v d Hd. lia.
      - apply azero_NoDup.
      - intros v. rewrite azero_spec. unfold ind0 at 1. rewrite bincount_pure_length. split.
        + intros (Hv & Hz). rewrite (nth_indep _ 1 0) in Hz by (unfold ind0; rewrite bincount_pure_length; auto).
          rewrite Hind0 in Hz by auto. rewrite list_sum_map_zero in Hz.
          constructor; auto. intros u Hu He. exfalso.
          assert (Hin : In u (seq 0 n)) by (apply in_seq; lia).
          specialize (Hz u Hin). cbv beta in Hz. apply count_occ_not_In in Hz. contradiction.
        + intros Hl. pose proof (lvl_lt Hl) as Hv. split; auto.
          rewrite (nth_indep _ 1 0) by (unfold ind0; rewrite bincount_pure_length; auto).
          rewrite Hind0 by auto. apply list_sum_map_zero. intros u Hu. apply in_seq in Hu.
          apply count_occ_not_In. intros He.
          destruct (lvl_pred Hl (u := u)) as (d' & Hd' & _); auto. lia. lia.
      - intros v Hv. rewrite Hind0 by auto. unfold indeg_of. f_equal.
        apply map_ext_in. intros u Hu. apply in_seq in Hu.
        rewrite nth_repeat_lt by lia. reflexivity.
    Qed.

    Lemma kahn_body_ok k st : Inv k st -> exists st', kahn_body B adj st = Ok st' /\ Inv (S k) st'.
    Proof.
      destruct st as [ord unv ind F dep]. intros [Hdep Hlo Hlu Hli Hbool Hvis Hord Hnd Hfr Hind].
      cbn [k_order k_unvisited k_indegree k_frontier k_depth] in *. subst dep.
      assert (HF : Forall (fun i => i < n) F).
      { apply Forall_forall. intros v Hv. apply Hfr in Hv. eapply lvl_lt; eauto. }
      assert (HFunv : forall u, In u F -> u < n /\ nth u unv 0 <> 0).
      { intros u Hu. apply Hfr in Hu. pose proof (lvl_lt Hu) as Hun. split; auto.
        intros E. apply Hvis in E; auto. destruct E as (d & Hd & Hl).
        pose proof (lvl_functional Hu Hl). lia. }
      set (unv' := sac_pure unv F 0).
      assert (Hunv' : forall j, nth j unv' 0 = if existsb (Nat.eqb j) F then 0 else nth j unv 0).
      { intros j. apply nth_sac_pure. rewrite Hlu. exact HF. }
      set (R := flat_map sc F).
      destruct (@sparse_relative_indegree_ok B adj (mkFF F n) OK Hwf Htg) as (keys & Hs & Hknd & Hkin);
        [exact HF | reflexivity |].
      cbn [table] in Hs, Hkin. fold R in Hs, Hkin.
      assert (Hklt : Forall (fun i => i < n) keys).
      { apply Forall_forall. intros v Hv. apply Hkin in Hv. unfold R in Hv.
        apply in_flat_map in Hv. destruct Hv as (u & _ & Hu). eapply sc_closed; eauto. }
      destruct (@scatter_sub_assign_ok (count_occ Nat.eq_dec R) keys ind) as (ind' & Hssa & Hli' & Hnth'); auto.
      { rewrite Hli; auto. }
      { intros v Hv. rewrite Forall_forall in Hklt. rewrite Hind by auto.
        rewrite (@indeg_step unv F v Hlu Hnd HFunv). fold R. lia. }
      assert (Hind' : forall v, v < n -> nth v ind' 0 = indeg_of unv' v).
      { intros v Hv. rewrite Hnth'. rewrite Hind by auto. rewrite (@indeg_step unv F v Hlu Hnd HFunv).
        fold R. fold unv'.
        destruct (in_dec Nat.eq_dec v keys) as [Hi|Hi]. lia.
        assert (E : count_occ Nat.eq_dec R v = 0) by (apply count_occ_not_In; rewrite <- Hkin; auto).
        lia. }
      assert (Hvis' : forall v, v < n -> (nth v unv' 0 = 0 <-> exists d, d < S k /\ L v d)).
      { intros v Hv. rewrite Hunv'. destruct (existsb (Nat.eqb v) F) eqn:E.
        - apply existsb_eqb_In in E. apply Hfr in E. split; auto. intros _. exists k; split; auto.
        - apply existsb_eqb_notIn in E. rewrite Hvis by auto. split.
          + intros (d & Hd & Hl). exists d. split; auto.
          + intros (d & Hd & Hl). destruct (Nat.eq_dec d k) as [->|Hne].
            exfalso. apply E, Hfr; auto.
            exists d. split; auto. lia. }
      assert (Hbool' : forall v, v < n -> nth v unv' 0 = 0 \/ nth v unv' 0 = 1).
      { intros v Hv. rewrite Hunv'. destruct (existsb (Nat.eqb v) F); auto. }
      set (F' := List.filter (fun x => nth x unv' 0 =? 1) (List.filter (fun x => nth x ind' 0 =? 0) keys)).
      assert (HF' : forall v, In v F' <-> L v (S k)).
      { intros v. unfold F'. rewrite !filter_In. split.
        - intros ((Hk & Hz) & _). apply Nat.eqb_eq in Hz.
          apply Hkin in Hk. unfold R in Hk. apply in_flat_map in Hk. destruct Hk as (u & HuF & Hev).
          pose proof (@sc_closed u v Hev) as Hv. apply Hfr in HuF.
          rewrite Hind' in Hz by auto. rewrite indeg_zero in Hz.
          constructor; auto.
          + intros u' Hu' He'. apply Hvis'; auto.
          + right. exists u. split. eapply lvl_lt; eauto. split; auto.
            replace (S k - 1) with k by lia. auto.
        - intros Hl. pose proof (lvl_lt Hl) as Hv.
          destruct (lvl_top Hl) as [E|(u & Hu & He & Hlu')]. discriminate.
          replace (S k - 1) with k in Hlu' by lia.
          split; [split|].
          + apply Hkin. unfold R. apply in_flat_map. exists u. split; auto. apply Hfr; auto.
          + apply Nat.eqb_eq. rewrite Hind' by auto. apply indeg_zero.
            intros u' Hu' He'. apply Hvis'; auto. eapply lvl_pred; eauto.
          + apply Nat.eqb_eq. destruct (Hbool' v Hv) as [E|E]; auto.
            apply Hvis' in E; auto. destruct E as (d & Hd & Hld).
            pose proof (lvl_functional Hl Hld). lia. }
      exists (mkK (sac_pure ord F k) unv' ind' F' (k + 1)). split.
      - unfold kahn_body. cbn [k_order k_unvisited k_indegree k_frontier k_depth].
        rewrite scatter_assign_constant_ok by (rewrite Hlu; exact HF). cbn [bind].
        rewrite scatter_assign_constant_ok by (rewrite Hlo; exact HF). cbn [bind].
        rewrite ff_new_ok by exact HF. cbn [bind unwrap].
        rewrite Hs. cbn [bind table].
        rewrite Hssa. cbn [bind]. rewrite get_range_full. cbn [bind].
        rewrite (gather_ok _ 0) by (rewrite Hli', Hli; exact Hklt). cbn [bind].
        rewrite get_range_full. cbn [bind].
        rewrite (gather_ok _ 0).
        2:{ pose proof (azero_lt (map (fun i => nth i ind' 0) keys)) as Hz.
            rewrite map_length in Hz. exact Hz. }
        cbn [bind]. rewrite gather_azero. rewrite get_range_full. cbn [bind].
        rewrite (gather_ok _ 0).
        2:{ apply Forall_forall. intros x Hx. apply filter_In in Hx. destruct Hx as (Hx & _).
            rewrite Forall_forall in Hklt. rewrite sac_pure_length, Hlu. auto. }
        cbn [bind]. rewrite filter_ok. reflexivity.
        intros x Hx. apply filter_In in Hx. destruct Hx as (Hx & _).
        rewrite Forall_forall in Hklt. apply Hbool'. auto.
      - constructor; cbn [k_order k_unvisited k_indegree k_frontier k_depth]; auto.
        + lia.
        + rewrite sac_pure_length. auto.
        + unfold unv'. rewrite sac_pure_length. auto.
        + rewrite Hli'. auto.
        + intros v d Hd Hl. rewrite nth_sac_pure by (rewrite Hlo; exact HF).
          destruct (existsb (Nat.eqb v) F) eqn:E.
          * apply existsb_eqb_In in E. apply Hfr in E. eapply lvl_functional; eauto.
          * apply existsb_eqb_notIn in E. apply Hord; auto.
            destruct (Nat.eq_dec d k) as [->|Hne]. exfalso. apply E, Hfr; auto. lia.
        + unfold F'. apply NoDup_filter, NoDup_filter. auto.
    Qed.

    Lemma kahn_loop_ok : forall c k st, Inv k st -> n < k + c ->
      exists st' k', kahn_loop B adj c st = Ok st' /\ Inv k' st' /\ k_frontier st' = [].
    Proof.
      induction c as [|c IH]; intros k st HI Hk.
      - exists st, k. split; [reflexivity|]. split; auto.
        destruct (k_frontier st) as [|x fr] eqn:E; auto.
        assert (Hl : L x k) by (apply (inv_fr HI); rewrite E; left; auto).
        apply lvl_bound in Hl. lia.
      - cbn [kahn_loop]. destruct (k_frontier st) as [|x fr] eqn:E.
        + exists st, k. auto.
        + destruct (kahn_body_ok HI) as (st1 & Hb & HI1). rewrite Hb. cbn [bind].
          apply (IH (S k) st1 HI1). lia.
    Qed.

    (* the loop exit: an empty frontier at depth k means there is no level >= k at all *)
    Lemma inv_final k st : Inv k st -> k_frontier st = [] -> forall v d, L v d -> d < k.
    Proof.
      intros HI E v d Hl. destruct (Nat.lt_ge_cases d k) as [|Hge]; auto.
      destruct (lvl_down Hl Hge) as (u & Hu). apply (inv_fr HI) in Hu. rewrite E in Hu. destruct Hu.
    Qed.

    Lemma kahn_correct_aux :
      exists order unv, kahn B adj = Ok (order, unv) /\ length order = n /\ length unv = n /\
        (forall v, v < n -> (nth v unv 0 = 0 \/ nth v unv 0 = 1)) /\
        (forall v, v < n -> (nth v unv 0 = 0 <-> exists d, L v d)) /\
        (forall v d, v < n -> L v d -> nth v order 0 = d).
    Proof.
      unfold kahn. rewrite indegree_ok by auto. cbn [bind table].
      destruct (@kahn_loop_ok (n + 1) 0 _ inv_init) as (st & k & Hloop & HI & Hfr). lia.
      cbv zeta in Hloop. rewrite Hloop. cbn [bind].
      pose proof (inv_final HI Hfr) as Hfin.
      exists (k_order st), (k_unvisited st). split; [reflexivity|].
      split. apply (inv_len_ord HI). split. apply (inv_len_unv HI).
      split. apply (inv_bool HI). split.
      - intros v Hv. rewrite (inv_vis HI) by auto. split.
        + intros (d & _ & Hl). eauto.
        + intros (d & Hl). exists d. split; auto. eapply Hfin; eauto.
      - intros v d Hv Hl. apply (inv_ord HI); auto. eapply Hfin; eauto.
    Qed.
  End Invariant.

  (* version depending only on the sparse_bincount clause of the contract *)
  Lemma kahn_correct_sparse adj : wf_icf adj -> target (ic_values adj) = ic_len adj ->
    exists order unv, kahn B adj = Ok (order, unv) /\
      length order = ic_len adj /\ length unv = ic_len adj /\
      (forall v, v < ic_len adj -> (nth v unv 0 = 0 \/ nth v unv 0 = 1)) /\
      (forall v, v < ic_len adj -> (nth v unv 0 = 0 <-> exists d, Lvl (ic_len adj) (succs adj) v d)) /\
      (forall v d, v < ic_len adj -> Lvl (ic_len adj) (succs adj) v d -> nth v order 0 = d).
  Proof. intros Hwf Htg. apply kahn_correct_aux; auto. Qed.
End WithBackend.

(* ================================================================== *)
(** * Section 4: the theorem *)
(* ================================================================== *)

Section Main.
  Variable B : Backend.
  Hypothesis OK : BackendOK B.

  (* [kahn] returns (never Panic, never Fuel) on every well-formed adjacency, marks exactly the
     vertices that have a level as visited, and [order] is the level. *)
  Theorem kahn_correct adj : wf_icf adj -> target (ic_values adj) = ic_len adj ->
    exists order unv, kahn B adj = Ok (order, unv) /\
      length order = ic_len adj /\ length unv = ic_len adj /\
      (forall v, v < ic_len adj -> (nth v unv 0 = 0 \/ nth v unv 0 = 1)) /\
      (forall v, v < ic_len adj -> (nth v unv 0 = 0 <-> exists d, Lvl (ic_len adj) (succs adj) v d)) /\
      (forall v d, v < ic_len adj -> Lvl (ic_len adj) (succs adj) v d -> nth v order 0 = d).
  Proof. apply kahn_correct_sparse. apply BackendOK_sparse; exact OK. Qed.

  (* ================================================================== *)
  (** * Section 5: corollaries *)
  (* ================================================================== *)

  (* a visited vertex has only visited predecessors, all strictly earlier in the order *)
  Corollary kahn_sound adj order unv u v :
    wf_icf adj -> target (ic_values adj) = ic_len adj -> kahn B adj = Ok (order, unv) ->
    u < ic_len adj -> v < ic_len adj -> edge (succs adj) u v -> nth v unv 0 = 0 ->
    nth u unv 0 = 0 /\ nth u order 0 < nth v order 0.
  Proof.
    intros Hwf Htg Hk Hu Hv He Hz.
    destruct (kahn_correct Hwf Htg) as (order' & unv' & Hk' & _ & _ & _ & Hvis & Hord).
    rewrite Hk in Hk'. inversion Hk'; subst order' unv'. clear Hk'.
    apply Hvis in Hz; auto. destruct Hz as (d & Hl).
    destruct (lvl_pred Hl Hu He) as (d' & Hd' & Hl').
    split.
    - apply Hvis; eauto.
    - rewrite (Hord u d'), (Hord v d); auto.
  Qed.
End Main.

(* ---------- cycles ---------- *)

Lemma list_max_In : forall l, l <> [] -> In (list_max l) l.
Proof.
  induction l as [|x l IH]; intros H. congruence.
  destruct l as [|y l'].
  - left. simpl. lia.
  - change (list_max (x :: y :: l')) with (Nat.max x (list_max (y :: l'))).
    destruct (Nat.max_spec x (list_max (y :: l'))) as [(_ & E)|(_ & E)]; rewrite E.
    + right. apply IH. discriminate.
    + left. reflexivity.
Qed.

Lemma dup_split : forall l : list nat,
  NoDup l \/ exists l1 x l2, l = l1 ++ x :: l2 /\ In x l2.
Proof.
  induction l as [|x l IH]. left; constructor.
  destruct (in_dec Nat.eq_dec x l) as [Hi|Hi].
  - right. exists [], x, l. auto.
  - destruct IH as [Hnd|(l1 & y & l2 & -> & Hy)].
    + left. constructor; auto.
    + right. exists (x :: l1), y, l2. auto.
Qed.

Section Cycles.
  Variable n : nat.
  Variable sc : nat -> list nat.

  (* the edge relation restricted to vertices < n *)
  Definition edgeR (u v : nat) : Prop := u < n /\ v < n /\ edge sc u v.

  Local Notation L := (Lvl n sc).

  Lemma lvl_ct u v : clos_trans nat edgeR u v -> forall d, L v d -> exists d', d' < d /\ L u d'.
  Proof.
    induction 1 as [u v (Hu & Hv & He)|u w v _ IH1 _ IH2]; intros d Hl.
    - eapply lvl_pred; eauto.
    - destruct (IH2 d Hl) as (d1 & Hd1 & Hl1). destruct (IH1 d1 Hl1) as (d2 & Hd2 & Hl2).
      exists d2. split; auto. lia.
  Qed.

  Lemma lvl_crt u v : clos_refl_trans nat edgeR u v -> forall d, L v d -> exists d', L u d'.
  Proof.
    induction 1 as [u v (Hu & Hv & He)|u|u w v _ IH1 _ IH2]; intros d Hl.
    - destruct (lvl_pred Hl Hu He) as (d' & _ & Hl'). eauto.
    - eauto.
    - destruct (IH2 d Hl) as (d1 & Hl1). eauto.
  Qed.

  (* on or downstream of a cycle: no level *)
  Lemma cycle_no_level u v :
    clos_trans nat edgeR u u -> clos_refl_trans nat edgeR u v -> ~ exists d, L v d.
  Proof.
    intros Hc Hp (d & Hl). destruct (lvl_crt Hp Hl) as (d1 & Hl1).
    destruct (lvl_ct Hc Hl1) as (d2 & Hd2 & Hl2).
    pose proof (lvl_functional Hl1 Hl2). lia.
  Qed.

  Lemma ct_crt u v : clos_trans nat edgeR u v -> clos_refl_trans nat edgeR u v.
  Proof.
    induction 1 as [u v H|u w v _ IH1 _ IH2]. apply rt_step; auto. eapply rt_trans; eauto.
  Qed.

  (* a decision procedure for "has a level" together with the level function, as delivered by [kahn] *)
  Variable has : nat -> bool.
  Variable lev : nat -> nat.
  Hypothesis has_ok : forall v, v < n -> (has v = true <-> exists d, L v d).
  Hypothesis lev_ok : forall v d, v < n -> L v d -> lev v = d.

  (* a vertex without level has a predecessor without level *)
  Lemma no_level_pred v : v < n -> has v = false -> exists u, edgeR u v /\ has u = false.
  Proof.
    intros Hv Hh.
    set (preds := List.filter (fun u => if in_dec Nat.eq_dec v (sc u) then true else false) (seq 0 n)).
    assert (Hpreds : forall u, In u preds <-> u < n /\ edge sc u v).
    { intros u. unfold preds. rewrite filter_In, in_seq. unfold edge.
      destruct (in_dec Nat.eq_dec v (sc u)); split; intros (H1 & H2); split; auto; try lia; discriminate. }
    destruct (existsb (fun u => negb (has u)) preds) eqn:E.
    - apply existsb_exists in E. destruct E as (u & Hu & Hn). apply Hpreds in Hu.
      exists u. split. unfold edgeR. tauto. destruct (has u); auto; discriminate.
    - exfalso.
      assert (Hall : forall u, u < n -> edge sc u v -> exists d, L u d /\ lev u = d).
      { intros u Hu He. assert (Hin : In u preds) by (apply Hpreds; auto).
        destruct (has u) eqn:Hhu.
        - apply has_ok in Hhu; auto. destruct Hhu as (d & Hl). exists d. split; auto.
        - assert (Ex : existsb (fun u => negb (has u)) preds = true).
          { apply existsb_exists. exists u. split; auto. rewrite Hhu. reflexivity. }
          congruence. }
      assert (Hlv : exists d, L v d).
      { destruct preds as [|p ps] eqn:Ep.
        - exists 0. constructor; auto. intros u Hu He.
          assert (Hin : In u []) by (apply Hpreds; auto). destruct Hin.
        - rewrite <- Ep in *.
          assert (Hne : map lev preds <> []) by (rewrite Ep; discriminate).
          exists (S (list_max (map lev preds))). constructor; auto.
          + intros u Hu He. destruct (Hall u Hu He) as (d & Hl & Hd). exists d. split; auto.
            assert (Hle : list_max (map lev preds) <= list_max (map lev preds)) by lia.
            apply list_max_le in Hle. rewrite Forall_forall in Hle.
            assert (Hin : In (lev u) (map lev preds)) by (apply in_map, Hpreds; auto).
            specialize (Hle _ Hin). lia.
          + right. apply list_max_In in Hne. apply in_map_iff in Hne.
            destruct Hne as (u & Hlu & Hin). apply Hpreds in Hin. destruct Hin as (Hu & He).
            exists u. split; auto. split; auto.
            destruct (Hall u Hu He) as (d & Hl & Hd).
            replace (S (list_max (map lev preds)) - 1) with d by lia. auto. }
      apply has_ok in Hlv; auto. congruence.
  Qed.

  (* backward chains: each element is a predecessor of the previous one *)
  Fixpoint chain (l : list nat) : Prop :=
    match l with
    | [] => True
    | x :: t => match t with [] => True | y :: _ => edgeR y x end /\ chain t
    end.

  Lemma chain_build : forall m v, v < n -> has v = false ->
    exists l, length l = m /\ chain (v :: l) /\ Forall (fun x => x < n) l.
  Proof.
    induction m as [|m IH]; intros v Hv Hh.
    - exists []. simpl. auto.
    - destruct (no_level_pred Hv Hh) as (u & He & Hhu).
      assert (Hu : u < n) by (destruct He; auto).
      destruct (IH u Hu Hhu) as (l & Hlen & Hch & Hlt).
      exists (u :: l). split. simpl; lia. split. 2: constructor; auto.
      split; auto.
  Qed.

  Lemma chain_ct : forall l x y, chain (x :: l) -> In y l -> clos_trans nat edgeR y x.
  Proof.
    induction l as [|z l IH]; intros x y Hch Hin. destruct Hin.
    destruct Hch as (He & Hch).
    destruct Hin as [<-|Hin]. apply t_step; auto.
    eapply t_trans. apply (IH z y Hch Hin). apply t_step; auto.
  Qed.

  Lemma chain_app : forall l1 l2, chain (l1 ++ l2) -> chain l2.
  Proof.
    induction l1 as [|x l1 IH]; intros l2 H; auto.
    destruct H as (_ & H). apply IH; auto.
  Qed.

  (* a vertex without level is on or downstream of a cycle *)
  Lemma no_level_cycle v : v < n -> has v = false ->
    exists u, u < n /\ clos_trans nat edgeR u u /\ clos_refl_trans nat edgeR u v.
  Proof.
    intros Hv Hh. destruct (chain_build (S n) Hv Hh) as (l & Hlen & Hch & Hlt).
    destruct (dup_split l) as [Hnd|(l1 & x & l2 & -> & Hx)].
    - exfalso. assert (Hincl : incl l (seq 0 n)).
      { intros y Hy. apply in_seq. rewrite Forall_forall in Hlt. specialize (Hlt y Hy). lia. }
      pose proof (NoDup_incl_length Hnd Hincl) as Hle. rewrite seq_length in Hle. lia.
    - exists x. split; [|split].
      + rewrite Forall_forall in Hlt. apply Hlt. apply in_or_app. right; left; auto.
      + apply (@chain_ct l2 x x); auto.
        apply (chain_app (v :: l1) (x :: l2)). exact Hch.
      + apply ct_crt. apply (@chain_ct (l1 ++ x :: l2) v x); auto.
        apply in_or_app. right; left; auto.
  Qed.
End Cycles.

Section Corollaries.
  Variable B : Backend.
  Hypothesis OK : BackendOK B.

  (* a vertex stays unvisited iff it is on or downstream of a directed cycle *)
  Corollary kahn_cycle adj order unv v :
    wf_icf adj -> target (ic_values adj) = ic_len adj -> kahn B adj = Ok (order, unv) ->
    v < ic_len adj ->
    (nth v unv 0 = 1 <->
     exists u, u < ic_len adj /\
       clos_trans nat (edgeR (ic_len adj) (succs adj)) u u /\
       clos_refl_trans nat (edgeR (ic_len adj) (succs adj)) u v).
  Proof.
    intros Hwf Htg Hk Hv.
    destruct (kahn_correct OK Hwf Htg) as (order' & unv' & Hk' & _ & _ & Hbool & Hvis & Hord).
    rewrite Hk in Hk'. inversion Hk'; subst order' unv'. clear Hk'.
    split.
    - intros H1.
      apply (@no_level_cycle (ic_len adj) (succs adj) (fun x => nth x unv 0 =? 0) (fun x => nth x order 0)); auto.
      + intros x Hx. rewrite Nat.eqb_eq. apply Hvis; auto.
      + rewrite H1. reflexivity.
    - intros (u & Hu & Hc & Hp).
      destruct (Hbool v Hv) as [E|E]; auto.
      exfalso. apply (cycle_no_level Hc Hp). apply Hvis; auto.
  Qed.
End Corollaries.

(* ================================================================== *)
(** * Examples *)
(* ================================================================== *)

(* 7 vertices: the chain 0 -> 1 -> 2 -> 3, a multiplicity-3 dependency 0 => 3,
   the cycle 4 -> 5 -> 4 and its tail 5 -> 6. *)
Definition ex_adj : icf :=
  mkIC (mkFF [4; 1; 1; 0; 1; 2; 0] 10) (mkFF [1; 3; 3; 3; 2; 3; 5; 4; 6] 7).

Example ex_adj_decode :
  decode_f ex_adj = [[1; 3; 3; 3]; [2]; [3]; []; [5]; [4; 6]; []].
Proof. reflexivity. Qed.

(* the hypotheses of [kahn_correct] are satisfiable *)
Example ex_adj_wf : wf_icf ex_adj /\ target (ic_values ex_adj) = ic_len ex_adj.
Proof.
  split; [split; [split|]|]; try reflexivity.
  unfold wf_ff, all_lt. cbn. repeat constructor.
Qed.

Example ex_kahn_vec :
  kahn VecBackend ex_adj = Ok ([0; 1; 2; 3; 0; 0; 0], [0; 0; 0; 0; 1; 1; 1]).
Proof. vm_compute. reflexivity. Qed.

Example ex_kahn_adv :
  kahn AdvBackend ex_adj = Ok ([0; 1; 2; 3; 0; 0; 0], [0; 0; 0; 0; 1; 1; 1]).
Proof. vm_compute. reflexivity. Qed.

(* the levels of the example, from the definition *)
Local Ltac ex_preds u He k :=
  match k with
  | 0 => try (exfalso; lia)
  | S ?k' => destruct u as [|u];
             [try (exfalso; vm_compute in He; intuition discriminate) | ex_preds u He k']
  end.

Example ex_lvl_0 : Lvl 7 (succs ex_adj) 0 0.
Proof. constructor; [lia | | left; reflexivity]. intros u Hu He. ex_preds u He 7. Qed.

Example ex_lvl_1 : Lvl 7 (succs ex_adj) 1 1.
Proof.
  constructor; [lia | | right; exists 0; split; [lia|split; [vm_compute; auto|exact ex_lvl_0]]].
  intros u Hu He. ex_preds u He 7. exists 0. split; [lia|exact ex_lvl_0].
Qed.

Example ex_lvl_2 : Lvl 7 (succs ex_adj) 2 2.
Proof.
  constructor; [lia | | right; exists 1; split; [lia|split; [vm_compute; auto|exact ex_lvl_1]]].
  intros u Hu He. ex_preds u He 7. exists 1. split; [lia|exact ex_lvl_1].
Qed.

Example ex_lvl_3 : Lvl 7 (succs ex_adj) 3 3.
Proof.
  constructor; [lia | | right; exists 2; split; [lia|split; [vm_compute; auto|exact ex_lvl_2]]].
  intros u Hu He. ex_preds u He 7.
  - exists 0. split; [lia|exact ex_lvl_0].
  - exists 2. split; [lia|exact ex_lvl_2].
Qed.

(* 6 is downstream of the cycle 4 -> 5 -> 4 *)
Example ex_cycle :
  clos_trans nat (edgeR 7 (succs ex_adj)) 4 4 /\ clos_refl_trans nat (edgeR 7 (succs ex_adj)) 4 6.
Proof.
  assert (E45 : edgeR 7 (succs ex_adj) 4 5) by (unfold edgeR, edge; vm_compute; intuition lia).
  assert (E54 : edgeR 7 (succs ex_adj) 5 4) by (unfold edgeR, edge; vm_compute; intuition lia).
  assert (E56 : edgeR 7 (succs ex_adj) 5 6) by (unfold edgeR, edge; vm_compute; intuition lia).
  split.
  - eapply t_trans; apply t_step; eauto.
  - eapply rt_trans; apply rt_step; eauto.
Qed.

(* the contract clause used is satisfied by both concrete back-ends *)
Lemma insert_sorted_In x : forall l v, In v (insert_sorted x l) <-> v = x \/ In v l.
Proof.
  induction l as [|y l IH]; intros v; cbn [insert_sorted].
  - simpl. intuition.
  - destruct (x <? y). simpl; intuition.
    destruct (x =? y) eqn:E.
    + apply Nat.eqb_eq in E. subst. simpl. intuition.
    + simpl. rewrite IH. intuition.
Qed.

Lemma insert_sorted_sorted x : forall l, StronglySorted lt l -> StronglySorted lt (insert_sorted x l).
Proof.
  induction l as [|y l IH]; intros H; cbn [insert_sorted].
  - repeat constructor.
  - inversion H as [|y' l' Hs Hall]; subst.
    destruct (x <? y) eqn:E1.
    + apply Nat.ltb_lt in E1. constructor; auto. constructor; auto.
      eapply Forall_impl; [|exact Hall]. intros a Ha. lia.
    + destruct (x =? y) eqn:E2; auto.
      apply Nat.ltb_ge in E1. apply Nat.eqb_neq in E2.
      constructor; auto. apply Forall_forall. intros v Hv. apply insert_sorted_In in Hv.
      destruct Hv as [->|Hv]. lia. rewrite Forall_forall in Hall. auto.
Qed.

Lemma sorted_lt_NoDup : forall l, StronglySorted lt l -> NoDup l.
Proof.
  induction l as [|x l IH]; intros H. constructor.
  inversion H as [|x' l' Hs Hall]; subst. constructor; auto.
  intros Hin. rewrite Forall_forall in Hall. specialize (Hall x Hin). lia.
Qed.

Lemma sort_dedup_spec xs : StronglySorted lt (sort_dedup xs) /\ forall v, In v (sort_dedup xs) <-> In v xs.
Proof.
  unfold sort_dedup. induction xs as [|x xs (IH1 & IH2)]; cbn [fold_right].
  - split. constructor. intuition.
  - split. apply insert_sorted_sorted; auto.
    intros v. rewrite insert_sorted_In, IH2. simpl. intuition.
Qed.

Lemma VecBackend_sparse : SparseOK VecBackend.
Proof.
  intros xs. cbn. destruct (sort_dedup_spec xs) as (H1 & H2).
  split. apply sorted_lt_NoDup; auto. split; auto.
Qed.

Lemma AdvBackend_sparse : SparseOK AdvBackend.
Proof.
  intros xs. cbn. destruct (sort_dedup_spec xs) as (H1 & H2).
  split. apply NoDup_rev, sorted_lt_NoDup; auto. split.
  - intros v. rewrite <- in_rev. auto.
  - rewrite map_rev. reflexivity.
Qed.

(* [kahn_correct] instantiated: every hypothesis (including the contract clause) is satisfied *)
Example ex_kahn_correct_vec :
  exists order unv, kahn VecBackend ex_adj = Ok (order, unv) /\
    (forall v, v < 7 -> (nth v unv 0 = 0 <-> exists d, Lvl 7 (succs ex_adj) v d)) /\
    (forall v d, v < 7 -> Lvl 7 (succs ex_adj) v d -> nth v order 0 = d).
Proof.
  destruct ex_adj_wf as (Hwf & Htg).
  destruct (kahn_correct_sparse VecBackend_sparse Hwf Htg) as (o & u & H & _ & _ & _ & H1 & H2).
  exists o, u. auto.
Qed.

Example ex_kahn_correct_adv :
  exists order unv, kahn AdvBackend ex_adj = Ok (order, unv) /\
    (forall v, v < 7 -> (nth v unv 0 = 0 <-> exists d, Lvl 7 (succs ex_adj) v d)) /\
    (forall v d, v < 7 -> Lvl 7 (succs ex_adj) v d -> nth v order 0 = d).
Proof.
  destruct ex_adj_wf as (Hwf & Htg).
  destruct (kahn_correct_sparse AdvBackend_sparse Hwf Htg) as (o & u & H & _ & _ & _ & H1 & H2).
  exists o, u. auto.
Qed.

Print Assumptions kahn_correct.
Print Assumptions kahn_sound.
Print Assumptions kahn_cycle.
Print Assumptions lvl_functional.
Print Assumptions lvl_bound.
Print Assumptions ex_kahn_correct_adv.
