(* The reference interpreter [ref_eval] of Run/SpecCheck.v — the independent oracle that [spec_case]
   uses to judge the evaluation results of the implementation — is correct against the model:

     ref_eval_agrees               eval B 0 apply_sig f inp = Ok (ref_eval (abs f) inp)
                                   for well-formed single-writer diagrams respecting the co-arities
     ref_eval_refuses_iff_cyclic   ref_eval (abs f) inp = None <-> ~ acyclic_ops f

   and the two boolean side conditions computed inside [spec_case] are the hypotheses of the first:

     chk_single_writer_iff / chk_sw_bridge        chk_single_writer (abs f) = true <-> single_writer f
     chk_arity_ok_iff      / chk_arity_bridge     chk_arity_ok (abs f) inp = true  <-> arity_ok interp f
                                                  (when the reference interpreter answers)
     oracle_value_clause, oracle_refusal_clause   the two clauses exactly as [spec_case] uses them

   Everything is first proved on the plain model (section 3–5: [ref_ranked_iff], [ref_eval_pval]),
   with no reference to the array encoding, then transported with the bridges of Proofs/EvalPlain.v.
   No hypothesis on the length of the input array is needed. *)
From Coq Require Import List Arith Lia Bool ZArith Permutation.
From OHG Require Import Spec.Plain Spec.GraphSpec Proofs.PrimsThm Proofs.BackendInst Proofs.C01Thm
  Proofs.AdjThm Proofs.C16Lemmas Proofs.C16Thm Proofs.Assemble Proofs.EvalPlain.
From OHG Require Proofs.HarnessThm.
From OHG Require Import Run.SpecCheck.
Import Coq.Init.Datatypes.
Import ListNotations.
Close Scope string_scope.
Open Scope nat_scope.
Open Scope list_scope.
Open Scope bool_scope.

Arguments Nat.sub : simpl never.
Set Implicit Arguments.

(* ================================================================== *)
(** * 1. list and memory facts *)
(* ================================================================== *)

Lemma memb_iff i l : existsb (Nat.eqb i) l = true <-> In i l.
Proof.
  rewrite existsb_exists. split.
  - intros (x & Hx & E). apply Nat.eqb_eq in E. subst. exact Hx.
  - intros H. exists i. split; auto. apply Nat.eqb_refl.
Qed.

Lemma inclb_iff l fired : forallb (fun j => existsb (Nat.eqb j) fired) l = true <-> incl l fired.
Proof.
  rewrite forallb_forall. unfold incl. split; intros H x Hx.
  - apply memb_iff. auto.
  - apply memb_iff. auto.
Qed.

(* first position of x in l (length l when absent) *)
Fixpoint idx (x : nat) (l : list nat) : nat :=
  match l with [] => 0 | a :: r => if Nat.eqb a x then 0 else Datatypes.S (idx x r) end.

Lemma idx_in_app x : forall l1 l2, In x l1 -> idx x (l1 ++ l2) < List.length l1.
Proof.
  induction l1 as [|a l1 IH]; intros l2 H. destruct H.
  cbn [app idx List.length]. destruct (Nat.eqb a x) eqn:E. lia.
  destruct H as [H|H]. subst. rewrite Nat.eqb_refl in E. discriminate.
  specialize (IH l2 H). lia.
Qed.

Lemma idx_notin_app x : forall l1 l2, ~ In x l1 -> idx x (l1 ++ x :: l2) = List.length l1.
Proof.
  induction l1 as [|a l1 IH]; intros l2 H.
  - cbn [app idx List.length]. rewrite Nat.eqb_refl. reflexivity.
  - cbn [app idx List.length]. destruct (Nat.eqb a x) eqn:E.
    + apply Nat.eqb_eq in E. subst. exfalso. apply H. left. reflexivity.
    + f_equal. apply IH. intros Hi. apply H. right. exact Hi.
Qed.

Lemma argmin (lev : nat -> nat) : forall l : list nat, l <> [] ->
  exists x, In x l /\ forall y, In y l -> lev x <= lev y.
Proof.
  induction l as [|a l IH]; intros H. congruence.
  destruct l as [|b l].
  - exists a. split. left. reflexivity. intros y [<-|[]]. lia.
  - destruct IH as (x & Hx & Hm). discriminate.
    destruct (le_lt_dec (lev a) (lev x)) as [L|L].
    + exists a. split. left. reflexivity. intros y [<-|Hy]. lia. specialize (Hm y Hy). lia.
    + exists x. split. right. exact Hx. intros y [<-|Hy]. lia. auto.
Qed.

Lemma concat_nodup_each {X} : forall (L : list (list X)) a, NoDup (concat L) -> In a L -> NoDup a.
Proof.
  induction L as [|b L IH]; intros a H Ha. destruct Ha.
  cbn [concat] in H. apply NoDup_app_iff in H. destruct H as (H1 & H2 & _).
  destruct Ha as [<-|Ha]; auto.
Qed.

Lemma concat_nodup_disj {X} : forall (L : list (list X)) i j a b v, NoDup (concat L) ->
  nth_error L i = Some a -> nth_error L j = Some b -> i <> j -> In v a -> In v b -> False.
Proof.
  induction L as [|c L IH]; intros i j a b v H Hi Hj Hne Ha Hb.
  - destruct i; discriminate.
  - cbn [concat] in H. apply NoDup_app_iff in H. destruct H as (_ & H2 & H3).
    destruct i as [|i], j as [|j]; cbn [nth_error] in Hi, Hj.
    + congruence.
    + inversion Hi; subst. apply (H3 v Ha). apply in_concat. exists b. split; auto.
      apply nth_error_In in Hj. exact Hj.
    + inversion Hj; subst. apply (H3 v Hb). apply in_concat. exists a. split; auto.
      apply nth_error_In in Hi. exact Hi.
    + apply (IH i j a b v H2 Hi Hj); auto.
Qed.

Lemma nodup_length_le (l : list nat) : List.length (nodup Nat.eq_dec l) <= List.length l.
Proof.
  induction l as [|a l IH]. apply le_n.
  cbn [nodup List.length]. destruct (in_dec Nat.eq_dec a l); cbn [List.length]; lia.
Qed.

Lemma nodup_length_iff (l : list nat) : List.length (nodup Nat.eq_dec l) = List.length l <-> NoDup l.
Proof.
  split.
  - induction l as [|a l IH]; intros H. constructor.
    cbn [nodup List.length] in H. destruct (in_dec Nat.eq_dec a l) as [Hi|Hi].
    + pose proof (nodup_length_le l). lia.
    + cbn [List.length] in H. constructor. exact Hi. apply IH. lia.
  - intros H. rewrite nodup_fixed_point by exact H. reflexivity.
Qed.

(* ---------- the partial memory ---------- *)
Lemma set_nth_length {X} : forall (l : list X) i y, List.length (set_nth l i y) = List.length l.
Proof.
  induction l as [|a l IH]; intros [|i] y; cbn [set_nth List.length]; auto.
Qed.

Lemma nth_error_set_nth_same {X} : forall (l : list X) i y, i < List.length l ->
  nth_error (set_nth l i y) i = Some y.
Proof.
  induction l as [|a l IH]; intros [|i] y H; cbn [List.length] in H; try lia; cbn [set_nth nth_error].
  reflexivity. apply IH. lia.
Qed.

Lemma nth_error_set_nth_other {X} : forall (l : list X) i j y, i <> j ->
  nth_error (set_nth l i y) j = nth_error l j.
Proof.
  induction l as [|a l IH]; intros [|i] [|j] y H; cbn [set_nth nth_error]; auto. congruence.
Qed.

Lemma zget_set_same mem v z : v < List.length mem -> zget (set_nth mem v (Some z)) v = z.
Proof. intros H. unfold zget. rewrite nth_error_set_nth_same by exact H. reflexivity. Qed.

Lemma zget_set_other mem v w x : w <> v -> zget (set_nth mem w x) v = zget mem v.
Proof. intros H. unfold zget. rewrite nth_error_set_nth_other by exact H. reflexivity. Qed.

Lemma write_all_length : forall ps mem, List.length (write_all mem ps) = List.length mem.
Proof.
  induction ps as [|[v z] ps IH]; intros mem; cbn [write_all]. reflexivity.
  rewrite IH. apply set_nth_length.
Qed.

Lemma zget_write_all_notin : forall ix vs mem v, ~ In v ix ->
  zget (write_all mem (combine ix vs)) v = zget mem v.
Proof.
  induction ix as [|a ix IH]; intros vs mem v H. reflexivity.
  destruct vs as [|z vs]. reflexivity.
  cbn [combine write_all]. rewrite IH. apply zget_set_other.
  - intros ->. apply H. left. reflexivity.
  - intros Hi. apply H. right. exact Hi.
Qed.

Lemma zget_write_all_nth : forall ix vs mem i, NoDup ix -> all_lt (List.length mem) ix ->
  i < List.length ix ->
  zget (write_all mem (combine ix vs)) (nth i ix 0)
  = if i <? List.length vs then nth i vs 0%Z else zget mem (nth i ix 0).
Proof.
  induction ix as [|a ix IH]; intros vs mem i Hnd Hb Hi; cbn [List.length] in Hi. lia.
  inversion Hnd as [|a' l' Hni Hnd']; subst. inversion Hb as [|a' l' Ha Hb']; subst.
  destruct vs as [|z vs].
  - cbn [combine write_all List.length]. reflexivity.
  - cbn [combine write_all]. destruct i as [|i].
    + cbn [nth List.length]. rewrite zget_write_all_notin by exact Hni.
      apply zget_set_same. exact Ha.
    + cbn [nth List.length]. rewrite IH; auto.
      * change (Datatypes.S i <? Datatypes.S (List.length vs)) with (i <? List.length vs).
        destruct (i <? List.length vs); auto.
        apply zget_set_other. intros E. apply Hni. rewrite E. apply nth_In. lia.
      * rewrite set_nth_length. exact Hb'.
      * lia.
Qed.

Lemma zget_write_all_map ix vs mem : NoDup ix -> all_lt (List.length mem) ix ->
  List.length vs = List.length ix -> map (zget (write_all mem (combine ix vs))) ix = vs.
Proof.
  intros Hnd Hb Hl. apply nth_ext with (d := 0%Z) (d' := 0%Z).
  - rewrite map_length. auto.
  - intros i Hi. rewrite map_length in Hi.
    rewrite nth_map_d with (dx := 0) by exact Hi.
    rewrite zget_write_all_nth by auto.
    destruct (Nat.ltb_spec i (List.length vs)); auto. lia.
Qed.

Lemma zget_repeat_none n v : zget (repeat None n) v = 0%Z.
Proof.
  unfold zget. destruct (nth_error (repeat None n) v) as [[z|]|] eqn:E; auto.
  apply nth_error_In in E. apply repeat_spec in E. discriminate.
Qed.

(* ================================================================== *)
(** * 2. the firing order (independent of the memory) *)
(* ================================================================== *)

Section Firing.
  Variable g : pohg nat nat.
  Let edges := p_edges g.
  Let m := List.length edges.
  Definition enum_edges : list (nat * pedge nat) := combine (seq 0 (List.length (p_edges g))) (p_edges g).
  Let es := enum_edges.

  Lemma In_combine_seq {X} : forall (l : list X) s i e,
    In (i, e) (combine (seq s (List.length l)) l) <-> s <= i /\ nth_error l (i - s) = Some e.
  Proof.
    induction l as [|a l IH]; intros s i e; cbn [List.length seq combine].
    - split. intros []. intros (_ & H). destruct (i - s); discriminate.
    - cbn [In]. rewrite IH. split.
      + intros [H|(H1 & H2)].
        * inversion H; subst. split. lia. replace (i - i) with 0 by lia. reflexivity.
        * split. lia. replace (i - s) with (Datatypes.S (i - Datatypes.S s)) by lia. exact H2.
      + intros (H1 & H2). destruct (Nat.eq_dec s i) as [->|Hne].
        * left. replace (i - i) with 0 in H2 by lia. cbn [nth_error] in H2. congruence.
        * right. split. lia.
          replace (i - s) with (Datatypes.S (i - Datatypes.S s)) in H2 by lia. exact H2.
  Qed.

  Lemma In_es i e : In (i, e) es <-> nth_error edges i = Some e.
  Proof.
    unfold es, enum_edges. rewrite In_combine_seq. rewrite Nat.sub_0_r. fold edges.
    split. tauto. intros H. split. lia. exact H.
  Qed.

  Lemma es_length : List.length es = m.
  Proof. unfold es, enum_edges. rewrite combine_length, seq_length. fold edges. fold m. lia. Qed.

  Definition preds (e : pedge nat) : list nat := dep_preds es e.

  Lemma In_preds j e : In j (preds e) <->
    exists ej v, nth_error edges j = Some ej /\ In v (pe_tgt ej) /\ In v (pe_src e).
  Proof.
    unfold preds, dep_preds. rewrite in_map_iff. split.
    - intros ([j' ej] & <- & H). apply filter_In in H. destruct H as (H1 & H2).
      cbn [fst snd] in *. apply existsb_exists in H2. destruct H2 as (v & Hv & H2).
      apply memb_iff in H2. exists ej, v. split; auto. apply In_es. exact H1.
    - intros (ej & v & H1 & H2 & H3). exists (j, ej). split. reflexivity.
      apply filter_In. split. apply In_es. exact H1.
      cbn [snd]. apply existsb_exists. exists v. split; auto. apply memb_iff. exact H3.
  Qed.

  (* the invariant of the list of fired hyperedges: no repetition, only hyperedges of g, and every
     hyperedge is preceded by all its dependency predecessors *)
  Definition Ord (fired : list nat) : Prop :=
    forall l1 y l2 ey, fired = l1 ++ y :: l2 -> nth_error edges y = Some ey -> incl (preds ey) l1.
  Definition FInv (fired : list nat) : Prop :=
    NoDup fired /\ (forall i, In i fired -> i < m) /\ Ord fired.

  Lemma Ord_closed fired i e : Ord fired -> In i fired -> nth_error edges i = Some e ->
    incl (preds e) fired.
  Proof.
    intros HO Hi He. apply in_split in Hi. destruct Hi as (l1 & l2 & ->).
    intros j Hj. apply in_or_app. left. exact (HO l1 i l2 e eq_refl He j Hj).
  Qed.

  Lemma FInv_nil : FInv [].
  Proof.
    split. constructor. split. intros i []. intros l1 y l2 ey H. destruct l1; discriminate.
  Qed.

  Lemma FInv_snoc fired i e : FInv fired -> ~ In i fired -> nth_error edges i = Some e ->
    incl (preds e) fired -> FInv (fired ++ [i]).
  Proof.
    intros (Hnd & Hlt & HO) Hni He Hp. split; [|split].
    - apply NoDup_app_iff. split; auto. split. constructor. intros []. constructor.
      intros x Hx [<-|[]]. auto.
    - intros j Hj. apply in_app_or in Hj. destruct Hj as [Hj|[<-|[]]]. auto.
      unfold m. apply nth_error_Some. congruence.
    - intros l1 y l2 ey E Hy.
      destruct (exists_last (l := y :: l2)) as (l2' & z & E2). discriminate.
      rewrite E2 in E. rewrite app_assoc in E. apply app_inj_tail in E. destruct E as (E & <-).
      destruct l2' as [|y' l2'].
      + cbn [app] in E2. inversion E2; subst. rewrite app_nil_r in Hp.
        rewrite He in Hy. inversion Hy; subst. exact Hp.
      + cbn [app] in E2. inversion E2; subst. exact (HO l1 y' l2' ey eq_refl Hy).
  Qed.

  Section Pass.
    Variable written : list nat.

    Lemma pass_mono : forall r mem fired,
      exists extra, snd (ref_pass es r written mem fired) = fired ++ extra.
    Proof.
      induction r as [|[i e] r IH]; intros mem fired; cbn [ref_pass].
      - exists []. rewrite app_nil_r. reflexivity.
      - destruct (existsb (Nat.eqb i) fired). apply IH.
        destruct (forallb _ (dep_preds es e)). 2: apply IH.
        cbv zeta. destruct (IH (write_all mem (combine (pe_tgt e) (interp (pe_lbl e) (map (zget mem) (pe_src e)))))
                              (fired ++ [i])) as (extra & E).
        exists (i :: extra). rewrite E. rewrite <- app_assoc. reflexivity.
    Qed.

    Lemma pass_incl r mem fired : incl fired (snd (ref_pass es r written mem fired)).
    Proof.
      destruct (pass_mono r mem fired) as (extra & ->). apply incl_appl. apply incl_refl.
    Qed.

    Lemma pass_FInv : forall r mem fired, incl r es -> FInv fired ->
      FInv (snd (ref_pass es r written mem fired)).
    Proof.
      induction r as [|[i e] r IH]; intros mem fired Hr HF; cbn [ref_pass]. exact HF.
      assert (Hr' : incl r es) by (intros x Hx; apply Hr; right; exact Hx).
      assert (He : nth_error edges i = Some e) by (apply In_es; apply Hr; left; reflexivity).
      destruct (existsb (Nat.eqb i) fired) eqn:Ef. apply IH; auto.
      destruct (forallb _ (dep_preds es e)) eqn:Ep. 2: apply IH; auto.
      cbv zeta. apply IH; auto. apply FInv_snoc with (e := e); auto.
      - intros Hi. apply memb_iff in Hi. congruence.
      - apply inclb_iff. exact Ep.
    Qed.

    (* a ready hyperedge met during the pass is fired at the end of the pass *)
    Lemma pass_fires : forall r mem fired x e, In (x, e) r -> incl (preds e) fired ->
      In x (snd (ref_pass es r written mem fired)).
    Proof.
      induction r as [|[i e'] r IH]; intros mem fired x e Hx Hp; cbn [ref_pass]. destruct Hx.
      destruct Hx as [Hx|Hx].
      - inversion Hx; subst.
        destruct (existsb (Nat.eqb x) fired) eqn:Ef.
        + apply pass_incl. apply memb_iff. exact Ef.
        + replace (forallb (fun j => existsb (Nat.eqb j) fired) (dep_preds es e)) with true
            by (symmetry; apply inclb_iff; exact Hp).
          cbv zeta. apply pass_incl. apply in_or_app. right. left. reflexivity.
      - destruct (existsb (Nat.eqb i) fired). eapply IH; eauto.
        destruct (forallb _ (dep_preds es e')). 2: eapply IH; eauto.
        cbv zeta. eapply IH; eauto. apply incl_appl. exact Hp.
    Qed.
  End Pass.

  (* when a rank function exists, a pass that starts with an unfired hyperedge fires one more *)
  Lemma unfired_exists fired : NoDup fired -> List.length fired < m ->
    List.filter (fun i => negb (existsb (Nat.eqb i) fired)) (seq 0 m) <> [].
  Proof.
    intros Hnd Hl E.
    assert (Hi : incl (seq 0 m) fired).
    { intros i Hi. destruct (existsb (Nat.eqb i) fired) eqn:Ei. apply memb_iff. exact Ei.
      exfalso. assert (In i []) as []. rewrite <- E. apply filter_In. split; auto. rewrite Ei. reflexivity. }
    pose proof (NoDup_incl_length (seq_NoDup m 0) Hi) as L. rewrite seq_length in L. lia.
  Qed.

  Definition ranked_by (lev : nat -> nat) : Prop :=
    forall x y ex ey v, nth_error edges x = Some ex -> nth_error edges y = Some ey ->
      In v (pe_tgt ex) -> In v (pe_src ey) -> lev x < lev y.

  Lemma pass_progress lev written mem fired : ranked_by lev -> FInv fired -> List.length fired < m ->
    List.length fired < List.length (snd (ref_pass es es written mem fired)).
  Proof.
    intros HR (Hnd & Hlt & HO) Hl.
    destruct (argmin lev (unfired_exists Hnd Hl)) as (x & Hx & Hmin).
    apply filter_In in Hx. destruct Hx as (Hx1 & Hx2). apply in_seq in Hx1.
    assert (Hxf : ~ In x fired).
    { intros H. apply memb_iff in H. rewrite H in Hx2. discriminate. }
    destruct (nth_error edges x) as [e|] eqn:Ee.
    2:{ apply nth_error_None in Ee. fold m in Ee. lia. }
    assert (Hp : incl (preds e) fired).
    { intros j Hj. apply In_preds in Hj. destruct Hj as (ej & v & Ej & Hv1 & Hv2).
      destruct (existsb (Nat.eqb j) fired) eqn:Ef. apply memb_iff. exact Ef.
      exfalso. assert (Hj : lev x <= lev j).
      { apply Hmin. apply filter_In. split. apply in_seq. split. lia. cbn.
        apply nth_error_Some. congruence. rewrite Ef. reflexivity. }
      pose proof (HR j x ej e v Ej Ee Hv1 Hv2). lia. }
    assert (Hin : In x (snd (ref_pass es es written mem fired))).
    { apply pass_fires with (e := e); auto. apply In_es. exact Ee. }
    destruct (pass_mono written es mem fired) as (extra & E). rewrite E in *.
    rewrite app_length. destruct extra as [|a extra]; cbn [List.length]. 2: lia.
    rewrite app_nil_r in Hin. contradiction.
  Qed.

  Lemma passes_FInv written : forall k mem fired, FInv fired ->
    FInv (snd (ref_passes k es written mem fired)).
  Proof.
    induction k as [|k IH]; intros mem fired HF; cbn [ref_passes]. exact HF.
    destruct (ref_pass es es written mem fired) as [mem' fired'] eqn:E.
    apply IH. change fired' with (snd (mem', fired')). rewrite <- E. apply pass_FInv; auto. apply incl_refl.
  Qed.

  Lemma FInv_length fired : FInv fired -> List.length fired <= m.
  Proof.
    intros (Hnd & Hlt & _).
    assert (Hi : incl fired (seq 0 m)) by (intros i Hi; apply in_seq; split; [lia|apply Hlt; exact Hi]).
    pose proof (NoDup_incl_length Hnd Hi) as L. rewrite seq_length in L. exact L.
  Qed.

  Lemma passes_progress lev written : ranked_by lev -> forall k mem fired, FInv fired ->
    Nat.min (List.length fired + k) m <= List.length (snd (ref_passes k es written mem fired)).
  Proof.
    intros HR. induction k as [|k IH]; intros mem fired HF; cbn [ref_passes].
    - cbn [snd]. lia.
    - destruct (ref_pass es es written mem fired) as [mem' fired'] eqn:E.
      assert (HF' : FInv fired').
      { change fired' with (snd (mem', fired')). rewrite <- E. apply pass_FInv; auto. apply incl_refl. }
      specialize (IH mem' fired' HF').
      destruct (le_lt_dec m (List.length fired)) as [L|L].
      + pose proof (pass_incl written es mem fired) as Hi. rewrite E in Hi. cbn [snd] in Hi.
        pose proof (NoDup_incl_length (proj1 HF) Hi). lia.
      + pose proof (pass_progress written mem HR HF L) as P. rewrite E in P. cbn [snd] in P. lia.
  Qed.

  Lemma FInv_full_all fired : FInv fired -> List.length fired = m -> forall i, i < m -> In i fired.
  Proof.
    intros (Hnd & Hlt & _) Hl i Hi.
    assert (Hinc : incl fired (seq 0 m)) by (intros j Hj; apply in_seq; split; [lia|apply Hlt; exact Hj]).
    apply (NoDup_length_incl Hnd) in Hinc. apply Hinc. apply in_seq. lia.
    rewrite seq_length. lia.
  Qed.

  (* a complete firing order is a topological order *)
  Lemma FInv_full_ranked fired : FInv fired -> List.length fired = m -> ranked_by (fun x => idx x fired).
  Proof.
    intros HF Hl x y ex ey v Ex Ey Hv1 Hv2.
    assert (Hy : In y fired).
    { apply (FInv_full_all HF Hl). apply nth_error_Some. congruence. }
    destruct HF as (Hnd & _ & HO).
    apply in_split in Hy. destruct Hy as (l1 & l2 & ->).
    assert (Hx : In x l1).
    { apply (HO l1 y l2 ey eq_refl Ey). apply In_preds. exists ex, v. auto. }
    apply NoDup_remove_2 in Hnd.
    rewrite idx_notin_app. apply idx_in_app. exact Hx.
    intros H. apply Hnd. apply in_or_app. left. exact H.
  Qed.
End Firing.

(* ================================================================== *)
(** * 3. the memory: the fired hyperedges hold their values *)
(* ================================================================== *)

Section Memory.
  Variable g : pohg nat nat.
  Variable inp : list Z.
  Hypothesis Wf : pwf g.
  Hypothesis SW : p_sw g.
  Hypothesis AR : p_arity interp g.
  Let edges := p_edges g.
  Let es := enum_edges g.
  Let n := List.length (p_nodes g).

  Definition MInv (mem : list (option Z)) (fired : list nat) : Prop :=
    List.length mem = n /\
    (forall i, i < List.length (p_ins g) -> zget mem (nth i (p_ins g) 0) = nth i inp 0%Z) /\
    (forall j e, In j fired -> nth_error edges j = Some e ->
       map (zget mem) (pe_tgt e) = interp (pe_lbl e) (map (zget mem) (pe_src e))) /\
    (forall v, ~ In v (p_ins g) ->
       (forall j e, In j fired -> nth_error edges j = Some e -> ~ In v (pe_tgt e)) -> zget mem v = 0%Z).

  Lemma tgt_disj i j e e' v : nth_error edges i = Some e -> nth_error edges j = Some e' -> i <> j ->
    In v (pe_tgt e) -> In v (pe_tgt e') -> False.
  Proof.
    intros Hi Hj Hne Hv Hv'. apply p_sw_tgts in SW. unfold p_tgts in SW.
    apply (@concat_nodup_disj _ (map (@pe_tgt nat) (p_edges g)) i j (pe_tgt e) (pe_tgt e') v SW); auto.
    - apply map_nth_error. exact Hi.
    - apply map_nth_error. exact Hj.
  Qed.

  Lemma tgt_nodup e : In e edges -> NoDup (pe_tgt e).
  Proof.
    intros He. apply p_sw_tgts in SW. unfold p_tgts in SW.
    apply (@concat_nodup_each _ _ _ SW). apply in_map. exact He.
  Qed.

  (* firing a ready unfired hyperedge *)
  Lemma MInv_fire mem fired i e : FInv g fired -> MInv mem fired -> ~ In i fired ->
    nth_error edges i = Some e -> incl (preds g e) fired ->
    MInv (write_all mem (combine (pe_tgt e) (interp (pe_lbl e) (map (zget mem) (pe_src e))))) (fired ++ [i]).
  Proof.
    intros HF (ML & MI & ME & MU) Hni He Hp.
    set (outs := interp (pe_lbl e) (map (zget mem) (pe_src e))).
    set (mem' := write_all mem (combine (pe_tgt e) outs)).
    assert (Hin : In e (p_edges g)) by (apply nth_error_In in He; exact He).
    assert (Hlen : List.length outs = List.length (pe_tgt e)).
    { unfold outs. apply AR. exact Hin. apply map_length. }
    assert (Hkeep : forall v, ~ In v (pe_tgt e) -> zget mem' v = zget mem v).
    { intros v Hv. unfold mem'. apply zget_write_all_notin. exact Hv. }
    assert (Hself : forall v, In v (pe_src e) -> ~ In v (pe_tgt e)).
    { intros v Hs Ht. apply Hni. apply Hp. apply In_preds. exists e, v. auto. }
    split; [|split; [|split]].
    - unfold mem'. rewrite write_all_length. exact ML.
    - intros k Hk. rewrite Hkeep. apply MI; auto.
      intros Ht. apply (p_sw_tgt_not_in e _ SW Hin Ht). apply nth_In. exact Hk.
    - intros j e' Hj He'. apply in_app_or in Hj. destruct Hj as [Hj|[<-|[]]].
      + assert (Hne : i <> j) by (intros ->; contradiction).
        rewrite (map_ext_in (zget mem') (zget mem) (pe_tgt e')).
        rewrite (map_ext_in (zget mem') (zget mem) (pe_src e')). apply (ME j); auto.
        * intros v Hv. apply Hkeep. intros Ht. apply Hni.
          apply (@Ord_closed g fired j e' (proj2 (proj2 HF)) Hj He'). apply In_preds. exists e, v. auto.
        * intros v Hv. apply Hkeep. intros Ht. exact (@tgt_disj i j e e' v He He' Hne Ht Hv).
      + rewrite He in He'. inversion He'; subst e'.
        rewrite (map_ext_in (zget mem') (zget mem) (pe_src e)) by (intros v Hv; apply Hkeep; auto).
        unfold mem'. apply zget_write_all_map.
        * apply tgt_nodup. exact Hin.
        * rewrite ML. apply (proj1 Wf). exact Hin.
        * exact Hlen.
    - intros v Hv Hno. rewrite Hkeep. apply MU; auto.
      + intros j e' Hj. apply Hno. apply in_or_app. left. exact Hj.
      + apply (Hno i e); auto. apply in_or_app. right. left. reflexivity.
  Qed.

  Lemma pass_MInv written : forall r mem fired, incl r es -> FInv g fired -> MInv mem fired ->
    MInv (fst (ref_pass es r written mem fired)) (snd (ref_pass es r written mem fired)).
  Proof.
    induction r as [|[i e] r IH]; intros mem fired Hr HF HM; cbn [ref_pass]. exact HM.
    assert (Hr' : incl r es) by (intros x Hx; apply Hr; right; exact Hx).
    assert (He : nth_error edges i = Some e) by (apply In_es; apply Hr; left; reflexivity).
    destruct (existsb (Nat.eqb i) fired) eqn:Ef. apply IH; auto.
    destruct (forallb _ (dep_preds es e)) eqn:Ep. 2: apply IH; auto.
    cbv zeta.
    assert (Hni : ~ In i fired) by (intros Hi; apply memb_iff in Hi; congruence).
    assert (Hp : incl (preds g e) fired) by (apply inclb_iff; exact Ep).
    apply IH; auto.
    - apply FInv_snoc with (e := e); auto.
    - apply MInv_fire; auto.
  Qed.

  Lemma passes_MInv written : forall k mem fired, FInv g fired -> MInv mem fired ->
    MInv (fst (ref_passes k es written mem fired)) (snd (ref_passes k es written mem fired)).
  Proof.
    induction k as [|k IH]; intros mem fired HF HM; cbn [ref_passes]. exact HM.
    pose proof (@pass_MInv written es mem fired (incl_refl _) HF HM) as HM'.
    pose proof (@pass_FInv g written es mem fired (incl_refl _) HF) as HF'.
    fold es in HF'. destruct (ref_pass es es written mem fired) as [mem' fired'].
    cbn [fst snd] in HM', HF'. apply IH; auto.
  Qed.

  Lemma MInv_init : MInv (write_all (repeat None n) (combine (p_ins g) inp)) [].
  Proof.
    split; [|split; [|split]].
    - rewrite write_all_length. apply repeat_length.
    - intros i Hi. rewrite zget_write_all_nth; auto.
      + destruct (Nat.ltb_spec i (List.length inp)) as [L|L]. reflexivity.
        rewrite zget_repeat_none. symmetry. apply nth_overflow. exact L.
      + exact (p_sw_ins SW).
      + rewrite repeat_length. exact (proj1 (proj2 Wf)).
    - intros j e [].
    - intros v Hv _. rewrite zget_write_all_notin by exact Hv. apply zget_repeat_none.
  Qed.

  (* a complete run leaves a valuation *)
  Lemma MInv_full_pval mem fired : FInv g fired -> List.length fired = List.length edges ->
    MInv mem fired -> pval 0%Z interp g inp (zget mem).
  Proof.
    intros HF Hl (_ & MI & ME & MU). split; [|split].
    - exact MI.
    - intros e He. apply In_nth_error in He. destruct He as (j & Hj). apply (ME j); auto.
      apply (FInv_full_all HF Hl). apply nth_error_Some. unfold edges. rewrite Hj. discriminate.
    - intros v _ Hv Hno. apply MU; auto. intros j e _ Hj. apply Hno. apply nth_error_In in Hj. exact Hj.
  Qed.
End Memory.

(* ================================================================== *)
(** * 4. the reference interpreter on the plain model *)
(* ================================================================== *)

Definition ref_run (g : pohg nat nat) (inp : list Z) : list (option Z) * list nat :=
  ref_passes (Datatypes.S (List.length (enum_edges g))) (enum_edges g)
    (List.app (p_ins g) (flat_map (@pe_tgt nat) (p_edges g)))
    (write_all (repeat None (List.length (p_nodes g))) (combine (p_ins g) inp)) [].

Lemma ref_eval_mem_unfold g inp :
  ref_eval_mem g inp =
  if Nat.eqb (List.length (snd (ref_run g inp))) (List.length (p_edges g)) then Some (ref_run g inp) else None.
Proof.
  unfold ref_eval_mem, ref_run. fold (enum_edges g). cbv zeta.
  destruct (ref_passes _ _ _ _ _) as [mem fired]. cbn [snd]. rewrite es_length. reflexivity.
Qed.

Lemma ref_run_FInv g inp : FInv g (snd (ref_run g inp)).
Proof. unfold ref_run. apply passes_FInv. apply FInv_nil. Qed.

(* a rank function exists iff the reference interpreter fires every hyperedge; no hypothesis *)
Theorem ref_complete g inp : p_ranked g -> exists r, ref_eval_mem g inp = Some r.
Proof.
  intros (lev & HR). rewrite ref_eval_mem_unfold.
  pose proof (FInv_length (ref_run_FInv g inp)) as L1.
  assert (L2 : List.length (p_edges g) <= List.length (snd (ref_run g inp))).
  { unfold ref_run.
    pose proof (@passes_progress g lev (List.app (p_ins g) (flat_map (@pe_tgt nat) (p_edges g))) HR
                  (Datatypes.S (List.length (enum_edges g)))
                  (write_all (repeat None (List.length (p_nodes g))) (combine (p_ins g) inp)) []
                  (FInv_nil g)) as P.
    rewrite es_length in P. cbn [List.length] in P. rewrite es_length. lia. }
  replace (Nat.eqb _ _) with true by (symmetry; apply Nat.eqb_eq; lia). eauto.
Qed.

Theorem ref_sound g inp mem fired : ref_eval_mem g inp = Some (mem, fired) ->
  p_ranked g /\ FInv g fired /\ List.length fired = List.length (p_edges g) /\ ref_run g inp = (mem, fired).
Proof.
  rewrite ref_eval_mem_unfold. destruct (Nat.eqb _ _) eqn:E. 2: discriminate.
  intros H. inversion H as [H']. apply Nat.eqb_eq in E.
  pose proof (ref_run_FInv g inp) as HF. rewrite H' in *. cbn [snd] in *.
  split; [|split; [|split]]; auto.
  exists (fun x => idx x fired). exact (FInv_full_ranked HF E).
Qed.

Theorem ref_ranked_iff g inp : ref_eval g inp = None <-> ~ p_ranked g.
Proof.
  unfold ref_eval. split.
  - intros H HR. destruct (ref_complete inp HR) as (r & E). rewrite E in H. discriminate.
  - intros H. destruct (ref_eval_mem g inp) as [[mem fired]|] eqn:E. 2: reflexivity.
    exfalso. apply H. exact (proj1 (ref_sound _ _ E)).
Qed.

(* on single-writer diagrams respecting the co-arities the final memory is a valuation *)
Theorem ref_eval_mem_pval g inp mem fired : pwf g -> p_sw g -> p_arity interp g ->
  ref_eval_mem g inp = Some (mem, fired) -> pval 0%Z interp g inp (zget mem).
Proof.
  intros Wf SW AR E. destruct (ref_sound _ _ E) as (_ & HF & Hl & ER).
  apply (@MInv_full_pval g inp mem fired HF Hl).
  pose proof (@passes_MInv g inp Wf SW AR (List.app (p_ins g) (flat_map (@pe_tgt nat) (p_edges g)))
                (Datatypes.S (List.length (enum_edges g)))
                (write_all (repeat None (List.length (p_nodes g))) (combine (p_ins g) inp)) []
                (FInv_nil g) (MInv_init inp Wf SW)) as HM.
  fold (ref_run g inp) in HM. rewrite ER in HM. exact HM.
Qed.

Theorem ref_eval_pval g inp out : pwf g -> p_sw g -> p_arity interp g -> ref_eval g inp = Some out ->
  exists mem, pval 0%Z interp g inp mem /\ out = map mem (p_outs g).
Proof.
  intros Wf SW AR E. unfold ref_eval in E.
  destruct (ref_eval_mem g inp) as [[mem fired]|] eqn:Em; cbn [option_map fst] in E. 2: discriminate.
  inversion E; subst out. exists (zget mem). split; auto.
  exact (@ref_eval_mem_pval g inp mem fired Wf SW AR Em).
Qed.

(* ================================================================== *)
(** * 5. the boolean side conditions of [spec_case] (copied literally from Run/SpecCheck.v) *)
(* ================================================================== *)

Definition chk_single_writer (g : pohg nat nat) : bool :=
  let writes := List.app (p_ins g) (flat_map (@pe_tgt nat) (p_edges g)) in
  Nat.eqb (List.length (nodup Nat.eq_dec writes)) (List.length writes).

Definition chk_arity_ok (g : pohg nat nat) (inp : list Z) : bool :=
  match ref_eval_mem g inp with
  | Some (mem, _) => forallb (fun e => Nat.eqb (List.length (interp (pe_lbl e) (map (zget mem) (pe_src e))))
                                               (List.length (pe_tgt e))) (p_edges g)
  | None => true end.

Theorem chk_single_writer_iff g : chk_single_writer g = true <-> p_sw g.
Proof.
  unfold chk_single_writer, p_sw, p_tgts. cbv zeta. rewrite flat_map_concat_map.
  rewrite Nat.eqb_eq. apply nodup_length_iff.
Qed.

(* the co-arity of the test signature depends on the label only, so that the check on the values met
   during the reference run is the universally quantified hypothesis *)
Theorem chk_arity_ok_iff g inp : ref_eval g inp <> None ->
  (chk_arity_ok g inp = true <-> p_arity interp g).
Proof.
  intros HS. unfold chk_arity_ok. unfold ref_eval in HS.
  destruct (ref_eval_mem g inp) as [[mem fired]|]. 2: (exfalso; apply HS; reflexivity).
  rewrite forallb_forall. split.
  - intros H e vals He _. specialize (H e He). apply Nat.eqb_eq in H.
    rewrite HarnessThm.interp_arity_table in *. exact H.
  - intros H e He. apply Nat.eqb_eq. apply H. exact He. apply map_length.
Qed.

Theorem chk_arity_ok_of g inp : p_arity interp g -> chk_arity_ok g inp = true.
Proof.
  intros H. unfold chk_arity_ok. destruct (ref_eval_mem g inp) as [[mem fired]|]. 2: reflexivity.
  apply forallb_forall. intros e He. apply Nat.eqb_eq. apply H. exact He. apply map_length.
Qed.

(* ================================================================== *)
(** * 6. the reference interpreter against the model's [eval] *)
(* ================================================================== *)

Lemma ref_eval_Some_ranked g inp out : ref_eval g inp = Some out -> p_ranked g.
Proof.
  unfold ref_eval. destruct (ref_eval_mem g inp) as [[mem fired]|] eqn:E. 2: discriminate.
  intros _. exact (proj1 (ref_sound _ _ E)).
Qed.

Theorem ref_eval_refuses_iff_cyclic : forall (f : ohg nat nat) inp, wf_ohg f ->
  (ref_eval (abs f) inp = None <-> ~ acyclic_ops f).
Proof.
  intros f inp Wf. rewrite ref_ranked_iff. rewrite (ranked_bridge Wf). reflexivity.
Qed.

Theorem chk_sw_bridge (f : ohg nat nat) : wf_ohg f ->
  (chk_single_writer (abs f) = true <-> single_writer f).
Proof. intros Wf. rewrite chk_single_writer_iff. apply (sw_bridge Wf). Qed.

Theorem chk_arity_bridge (f : ohg nat nat) inp : wf_ohg f -> acyclic_ops f ->
  (chk_arity_ok (abs f) inp = true <-> arity_ok interp f).
Proof.
  intros Wf Hac. rewrite chk_arity_ok_iff. apply (arity_bridge interp Wf).
  intros E. apply (@ref_eval_refuses_iff_cyclic f inp Wf) in E. contradiction.
Qed.

Theorem chk_arity_bridge_of (f : ohg nat nat) inp : wf_ohg f -> arity_ok interp f ->
  chk_arity_ok (abs f) inp = true.
Proof. intros Wf H. apply chk_arity_ok_of. apply (arity_bridge interp Wf). exact H. Qed.

Theorem ref_eval_agrees : forall B, BackendOK B -> forall (f : ohg nat nat) inp,
  wf_ohg f -> single_writer f -> arity_ok interp f ->
  eval B 0%Z apply_sig f inp = Ok (ref_eval (abs f) inp).
Proof.
  intros B OK f inp Wf SW AR.
  destruct (ref_eval (abs f) inp) as [out|] eqn:E.
  - assert (Hac : acyclic_ops f).
    { apply (ranked_bridge Wf). exact (ref_eval_Some_ranked _ _ E). }
    destruct (@ref_eval_pval (abs f) inp out) as (mem & V & ->); auto.
    + apply wf_abs_pwf. exact Wf.
    + apply (sw_bridge Wf). exact SW.
    + apply (arity_bridge interp Wf). exact AR.
    + assert (EV : evaluable interp f) by (unfold evaluable; auto).
      exact (sem_intro OK HarnessThm.apply_sig_spec EV V).
  - apply (C16_refuses_iff_cyclic_any_input OK (adj_ops_ok OK) (conv_layers_ok OK) 0%Z
             HarnessThm.apply_sig_spec inp Wf).
    apply (@ref_eval_refuses_iff_cyclic f inp Wf). exact E.
Qed.

(* the statement with the (unneeded) hypothesis on the length of the input array *)
Corollary ref_eval_agrees_len : forall B, BackendOK B -> forall (f : ohg nat nat) inp,
  wf_ohg f -> List.length inp = List.length (table (o_s f)) ->
  single_writer f -> arity_ok interp f ->
  eval B 0%Z apply_sig f inp = Ok (ref_eval (abs f) inp).
Proof. intros B OK f inp Wf _. apply ref_eval_agrees; auto. Qed.

(* the two clauses exactly as [spec_case] applies them (branch "eval"): *)
Theorem oracle_refusal_clause : forall B, BackendOK B -> forall (f : ohg nat nat) inp, wf_ohg f ->
  ref_eval (abs f) inp = None -> eval B 0%Z apply_sig f inp = Ok None.
Proof.
  intros B OK f inp Wf E.
  apply (C16_refuses_iff_cyclic_any_input OK (adj_ops_ok OK) (conv_layers_ok OK) 0%Z
           HarnessThm.apply_sig_spec inp Wf).
  apply (@ref_eval_refuses_iff_cyclic f inp Wf). exact E.
Qed.

Theorem oracle_value_clause : forall B, BackendOK B -> forall (f : ohg nat nat) inp out, wf_ohg f ->
  ref_eval (abs f) inp = Some out ->
  chk_single_writer (abs f) && chk_arity_ok (abs f) inp = true ->
  eval B 0%Z apply_sig f inp = Ok (Some out).
Proof.
  intros B OK f inp out Wf E H. apply andb_true_iff in H. destruct H as (H1 & H2).
  rewrite <- E. apply ref_eval_agrees; auto.
  - apply (chk_sw_bridge Wf). exact H1.
  - apply (chk_arity_bridge inp Wf); auto.
    apply (ranked_bridge Wf). exact (ref_eval_Some_ranked _ _ E).
Qed.

(* without the single-writer side condition only acceptance is determined *)
Theorem oracle_acceptance_clause : forall B, BackendOK B -> forall (f : ohg nat nat) inp out, wf_ohg f ->
  ref_eval (abs f) inp = Some out -> exists out', eval B 0%Z apply_sig f inp = Ok (Some out').
Proof.
  intros B OK f inp out Wf E.
  apply (C16_acyclic_result OK (adj_ops_ok OK) (conv_layers_ok OK) 0%Z HarnessThm.apply_sig_spec inp Wf).
  apply (ranked_bridge Wf). exact (ref_eval_Some_ranked _ _ E).
Qed.

(* ================================================================== *)
(** * 7. examples *)
(* ================================================================== *)

(* inputs x = node 0, y = node 1; hyperedges (deliberately not numbered topologically)
     0: sum [5;6] -> [7]      1: copy [0] -> [2;3]     2: product [3;4] -> [5]
     3: sum [2;1] -> [4]      4: negation [4] -> [6]   5: constant 5 [] -> [8]
   node 4 fans out (read by 2 and 4, and an output), node 9 is never written; outputs [7; 4; 8; 9]. *)
Definition ox_f : ohg nat nat :=
  mkOHG (mkFF [0; 1] 10) (mkFF [7; 4; 8; 9] 10)
    (mkHG (mkIC (mkFF [2; 1; 2; 2; 1; 0] 9) (mkFF [5; 6; 0; 3; 4; 2; 1; 4] 10))
          (mkIC (mkFF [1; 2; 1; 1; 1; 1] 8) (mkFF [7; 2; 3; 5; 4; 6; 8] 10))
          (repeat 0 10) [0; 3; 1; 0; 2; 15]).

Example ox_ref : ref_eval (abs ox_f) [3%Z; 4%Z] = Some [14%Z; 7%Z; 5%Z; 0%Z].
Proof. vm_compute. reflexivity. Qed.

Example ox_eval : eval VecBackend 0%Z apply_sig ox_f [3%Z; 4%Z] = Ok (Some [14%Z; 7%Z; 5%Z; 0%Z]).
Proof. vm_compute. reflexivity. Qed.

(* the firing order found by the reference interpreter: two passes *)
Example ox_order : option_map snd (ref_eval_mem (abs ox_f) [3%Z; 4%Z]) = Some [1; 3; 4; 5; 2; 0].
Proof. vm_compute. reflexivity. Qed.

Example ox_wf : wf_ohg ox_f.
Proof.
  unfold wf_ohg, wf_hg, wf_icf, wf_ic, wf_ff, all_lt. cbn.
  repeat split; try reflexivity; repeat constructor.
Qed.

(* the hypotheses of [ref_eval_agrees] are satisfiable; they are obtained from the boolean checks *)
Example ox_acyclic : acyclic_ops ox_f.
Proof.
  destruct (ref_eval (abs ox_f) []) as [out|] eqn:E.
  - apply (ranked_bridge ox_wf). exact (ref_eval_Some_ranked _ _ E).
  - vm_compute in E. discriminate.
Qed.

Example ox_single_writer : single_writer ox_f.
Proof. apply (chk_sw_bridge ox_wf). vm_compute. reflexivity. Qed.

Example ox_arity : arity_ok interp ox_f.
Proof. apply (chk_arity_bridge [] ox_wf ox_acyclic). vm_compute. reflexivity. Qed.

Example ox_agrees : forall B, BackendOK B ->
  eval B 0%Z apply_sig ox_f [3%Z; 4%Z] = Ok (Some [14%Z; 7%Z; 5%Z; 0%Z]).
Proof.
  intros B OK. rewrite (ref_eval_agrees OK [3%Z; 4%Z] ox_wf ox_single_writer ox_arity).
  rewrite ox_ref. reflexivity.
Qed.

(* a cycle: 0: sum [0;2] -> [1], 1: negation [1] -> [2]; and a hyperedge reading its own target *)
Definition ox_cyc : ohg nat nat :=
  mkOHG (mkFF [0] 3) (mkFF [2] 3)
    (mkHG (mkIC (mkFF [2; 1] 4) (mkFF [0; 2; 1] 3)) (mkIC (mkFF [1; 1] 3) (mkFF [1; 2] 3))
          (repeat 0 3) [0; 2]).
Definition ox_self : ohg nat nat :=
  mkOHG (mkFF [0] 2) (mkFF [1] 2)
    (mkHG (mkIC (mkFF [2] 3) (mkFF [0; 1] 2)) (mkIC (mkFF [1] 2) (mkFF [1] 2)) (repeat 0 2) [0]).

Example ox_cyc_wf : wf_ohg ox_cyc /\ wf_ohg ox_self.
Proof.
  unfold wf_ohg, wf_hg, wf_icf, wf_ic, wf_ff, all_lt. cbn.
  repeat split; try reflexivity; repeat constructor.
Qed.

Example ox_cyc_ref : ref_eval (abs ox_cyc) [3%Z] = None /\ ref_eval (abs ox_self) [3%Z] = None.
Proof. vm_compute. split; reflexivity. Qed.

Example ox_cyc_eval : eval VecBackend 0%Z apply_sig ox_cyc [3%Z] = Ok None /\
                      eval VecBackend 0%Z apply_sig ox_self [3%Z] = Ok None.
Proof. vm_compute. split; reflexivity. Qed.

Example ox_cyc_cyclic : ~ acyclic_ops ox_cyc /\ ~ acyclic_ops ox_self.
Proof.
  split.
  - apply (@ref_eval_refuses_iff_cyclic ox_cyc [3%Z] (proj1 ox_cyc_wf)). apply ox_cyc_ref.
  - apply (@ref_eval_refuses_iff_cyclic ox_self [3%Z] (proj2 ox_cyc_wf)). apply ox_cyc_ref.
Qed.

(* the single-writer side condition is necessary: two constants (5 and 7) written to the same node;
   the reference interpreter lets the later hyperedge win, a legitimate back-end (AdvBackend_ok) the
   earlier one; the boolean check of [spec_case] detects it, and [spec_case] then compares acceptance only *)
Definition ox_two_writers : ohg nat nat :=
  mkOHG (mkFF [] 1) (mkFF [0] 1)
    (mkHG (mkIC (mkFF [0; 0] 1) (mkFF [] 1)) (mkIC (mkFF [1; 1] 3) (mkFF [0; 0] 1)) (repeat 0 1) [15; 17]).
Example ox_two_writers_differ :
  ref_eval (abs ox_two_writers) [] = Some [7%Z] /\
  eval VecBackend 0%Z apply_sig ox_two_writers [] = Ok (Some [7%Z]) /\
  eval AdvBackend 0%Z apply_sig ox_two_writers [] = Ok (Some [5%Z]) /\
  chk_single_writer (abs ox_two_writers) = false.
Proof. vm_compute. repeat split. Qed.

Print Assumptions ref_eval_agrees.
Print Assumptions ref_eval_refuses_iff_cyclic.
Print Assumptions chk_sw_bridge.
Print Assumptions chk_arity_bridge.
Print Assumptions oracle_value_clause.
Print Assumptions oracle_refusal_clause.
Print Assumptions oracle_acceptance_clause.
Print Assumptions ref_ranked_iff.
Print Assumptions ref_eval_pval.
