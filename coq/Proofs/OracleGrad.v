(* The reverse-mode sweep [ref_grad] of Run/SpecCheck.v (the oracle the test harness uses to judge the
   implementation's adapted-optic evaluation) computes the reverse derivative.

   Route: [PSem g n m f J] says that the plain diagram g : n -> m is a well-formed monogamous ranked
   diagram of the polynomial theory and that for all integer vectors x, dy the forward and the reverse
   consistency equations of Proofs/OracleSweep.v have a solution (fw, bw) carrying wrap x on the inputs,
   wrap (f x) on the outputs, wrap dy as output adjoints and wrap (J(x)^T dy) as input adjoints.
   PSem is closed under isomorphism, tensor and gluing and holds of the generators, identities and
   symmetries, hence of abs s for every [denotes s n m f J] ([denotes_PSem]; the chain rule is the
   gluing case).  [ref_grad_sound] (OracleSweep.v: the sweep returns the solution of the two systems)
   then gives [ref_grad_denotes], and with C14_every_circuit_denotable / C14_derivative_all_closed the
   agreement of the oracle with the model's adapted optic on every monogamous acyclic circuit
   ([ref_grad_agrees_with_model]). *)
From OHG Require Import Spec.Plain Proofs.PrimsThm Proofs.C01Lemmas Proofs.C01Thm Proofs.QuotThm Proofs.C03Plain Proofs.C03Thm
  Proofs.C16Lemmas Proofs.EvalPlain Proofs.EvalFunctor Proofs.EvalMono Proofs.C14cPlain Proofs.C14Thm
  Proofs.C14eSem Proofs.C14eGen Proofs.C14eInd Proofs.C14eDeriv Proofs.C14fDen Proofs.C14fNormal
  Proofs.OracleSweep Run.Dispatch Run.SpecCheck.
From Coq Require Import List Arith Lia Bool Permutation ZArith.
Import ListNotations.
Open Scope list_scope. Open Scope nat_scope.

From Coq Require Import Setoid Morphisms.

#[local] Existing Instance eq64_equiv.
#[local] Existing Instance eq64_add.
#[local] Existing Instance eq64_mul.
#[local] Existing Instance eq64_opp.
#[local] Existing Instance eq64_wrap.

Set Implicit Arguments.
Arguments Nat.sub : simpl never.

(* ================================================================== *)
(** * 1. the invariant *)
(* ================================================================== *)

Record PSem (g : pg) (n m : nat) (f : list Z -> list Z) (J : list Z -> list (list Z)) : Prop := {
  ps_good : good_pg g;
  ps_li : length (p_ins g) = n;
  ps_lo : length (p_outs g) = m;
  ps_sem : forall x dy, length x = n -> length dy = m ->
    exists fw bw, fwd_ok g fw /\ bwd_ok g fw bw /\
      map fw (p_ins g) = map wrap x /\ map fw (p_outs g) = map wrap (f x) /\
      map bw (p_outs g) = map wrap dy /\ map bw (p_ins g) = map wrap (tmulv n (J x) dy)
}.

(* ================================================================== *)
(** * 2. closure under isomorphism *)
(* ================================================================== *)

Lemma srcs_flat (g : pg) : p_srcs g = flat_map (@pe_src nat) (p_edges g).
Proof. unfold p_srcs. symmetry. apply flat_map_concat_map. Qed.

Lemma flat_map_src_map_edge (pn : nat -> nat) (E : list (pedge nat)) :
  flat_map (@pe_src nat) (map (map_edge pn) E) = map pn (flat_map (@pe_src nat) E).
Proof.
  induction E as [|e E IH]; [reflexivity|]. cbn [map flat_map map_edge pe_src]. rewrite map_app, IH. reflexivity.
Qed.

Lemma cover_pull n (pn : nat -> nat) (L L' : list nat) : bij_on n pn -> (forall v, In v L' -> v < n) ->
  Permutation (map pn L') L -> cover n L -> cover n L'.
Proof.
  intros Bn Lw HP (Cnd & Cin). split.
  - apply (NoDup_map_inv pn). apply (Permutation_NoDup (Permutation_sym HP)). exact Cnd.
  - intros v. split; [apply Lw|]. intros Hv.
    assert (Hpv : In (pn v) L) by (apply Cin; apply Bn; exact Hv).
    apply (Permutation_in _ (Permutation_sym HP)) in Hpv. apply in_map_iff in Hpv.
    destruct Hpv as (u & Eu & Hu). assert (u = v) by (apply Bn; auto). subst u. exact Hu.
Qed.

Lemma p_srcs_lt (g : pg) v : pwf g -> In v (p_srcs g) -> v < length (p_nodes g).
Proof.
  intros W Hv. unfold p_srcs in Hv. apply in_concat in Hv. destruct Hv as (l & Hl & Hv).
  apply in_map_iff in Hl. destruct Hl as (e & <- & He). eapply all_lt_in; [apply (pwf_src e W He)|exact Hv].
Qed.

Lemma PSem_pull (g g' : pg) n m f J : pwf g' -> Iso g' g -> PSem g n m f J -> PSem g' n m f J.
Proof.
  intros W' (Hn & Hm & pn & pe & Bn & Be & Hl & He & Hi & Ho) S.
  pose proof W' as (We' & Wi' & Wo').
  assert (Hedge : forall x ex, nth_error (p_edges g') x = Some ex ->
            nth_error (p_edges g) (pe x) = Some (map_edge pn ex)).
  { intros x ex Hx. rewrite He by (apply nth_error_Some; congruence). rewrite Hx. reflexivity. }
  assert (Hin : forall e, In e (p_edges g') -> In (map_edge pn e) (p_edges g)).
  { intros e Hin. apply In_nth_error in Hin. destruct Hin as (x & Hx).
    eapply nth_error_In. apply Hedge. exact Hx. }
  assert (HP : Permutation (map (map_edge pn) (p_edges g')) (p_edges g)).
  { apply perm_of_bij with pe; rewrite ?map_length; auto.
    intros e Hlt. rewrite He by exact Hlt. symmetry. apply nth_error_map. }
  destruct (ps_good S) as (Wg & (C1 & C2) & (lev & Hlev) & Har).
  constructor.
  - split; [exact W'|]. split; [split|split].
    + apply (@cover_pull _ pn (p_ins g ++ p_tgts g)); [exact Bn| | |rewrite Hn; exact C1].
      * intros v Hv. apply in_app_or in Hv. destruct Hv as [Hv|Hv];
          [eapply all_lt_in; [exact Wi'|exact Hv]|apply p_tgts_lt; assumption].
      * rewrite map_app, <- Hi. apply Permutation_app_head.
        rewrite !tgts_flat, <- flat_map_tgt_map_edge. apply Permutation_flat_map. exact HP.
    + apply (@cover_pull _ pn (p_srcs g ++ p_outs g)); [exact Bn| | |rewrite Hn; exact C2].
      * intros v Hv. apply in_app_or in Hv. destruct Hv as [Hv|Hv];
          [apply p_srcs_lt; assumption|eapply all_lt_in; [exact Wo'|exact Hv]].
      * rewrite map_app, <- Ho. apply Permutation_app_tail.
        rewrite !srcs_flat, <- flat_map_src_map_edge. apply Permutation_flat_map. exact HP.
    + exists (fun x => lev (pe x)). intros x y ex ey v Hx Hy Ht Hs.
      apply (Hlev (pe x) (pe y) _ _ (pn v) (Hedge _ _ Hx) (Hedge _ _ Hy)); cbn [map_edge pe_src pe_tgt];
        apply in_map; assumption.
    + intros e Hine. pose proof (Har _ (Hin e Hine)) as H.
      cbn [map_edge pe_lbl pe_src pe_tgt] in H. rewrite !map_length in H. exact H.
  - rewrite <- (ps_li S), Hi, map_length. reflexivity.
  - rewrite <- (ps_lo S), Ho, map_length. reflexivity.
  - intros x dy Hx Hdy. destruct (ps_sem S x dy Hx Hdy) as (fw & bw & CF & CB & V1 & V2 & V3 & V4).
    exists (fun v => fw (pn v)), (fun v => bw (pn v)). split; [|split; [|split; [|split; [|split]]]].
    + intros e Hine. pose proof (CF _ (Hin e Hine)) as H.
      cbn [map_edge pe_lbl pe_src pe_tgt] in H. rewrite !map_map in H. exact H.
    + intros e Hine. pose proof (CB _ (Hin e Hine)) as H.
      cbn [map_edge pe_lbl pe_src pe_tgt] in H. rewrite !map_map in H. exact H.
    + rewrite <- V1, Hi, map_map. reflexivity.
    + rewrite <- V2, Ho, map_map. reflexivity.
    + rewrite <- V3, Ho, map_map. reflexivity.
    + rewrite <- V4, Hi, map_map. reflexivity.
Qed.

Theorem PSem_iso (g g' : pg) n m f J : pwf g' -> Iso g g' -> PSem g n m f J -> PSem g' n m f J.
Proof.
  intros W' HI S. apply (@PSem_pull g g'); [exact W'| |exact S].
  apply Iso_sym; [exact (proj1 (ps_good S))|exact HI].
Qed.

(* ================================================================== *)
(** * 3. closure under tensor *)
(* ================================================================== *)

Section Tensor.
  Variables (F G : pg) (n1 m1 n2 m2 : nat).
  Variables (f1 f2 : list Z -> list Z) (J1 J2 : list Z -> list (list Z)).
  Hypothesis SF : PSem F n1 m1 f1 J1.
  Hypothesis SG : PSem G n2 m2 f2 J2.
  Hypothesis DF : FJdims n1 m1 f1 J1.
  Hypothesis DG : FJdims n2 m2 f2 J2.

  Local Notation nF := (length (p_nodes F)).

  Theorem PSem_tensor : PSem (ptensor F G) (n1 + n2) (m1 + m2) (par_f n1 f1 f2) (par_J n1 n2 J1 J2).
  Proof.
    destruct (ps_good SF) as (WF & MF & RF & AF). destruct (ps_good SG) as (WG & MG & RG & AG).
    constructor.
    - split; [apply pwf_ptensor; assumption|]. split; [apply p_mono_ptensor; assumption|]. split.
      + apply (@ranked_sum _ _ F G (ptensor F G) WF eq_refl RF RG).
      + intros e He. change (p_edges (ptensor F G)) with (sum_edges F G) in He. apply In_sum_edges in He.
        destruct He as [He|(e2 & He & ->)]; [apply AF; exact He|].
        cbn [shift_edge pe_lbl pe_src pe_tgt]. unfold shiftl. rewrite !map_length. apply AG. exact He.
    - cbn [ptensor p_ins]. rewrite app_length, shiftl_length, (ps_li SF), (ps_li SG). reflexivity.
    - cbn [ptensor p_outs]. rewrite app_length, shiftl_length, (ps_lo SF), (ps_lo SG). reflexivity.
    - intros x dy Hx Hdy. unfold par_f, par_J.
      set (x1 := firstn n1 x). set (x2 := skipn n1 x).
      set (dy1 := firstn m1 dy). set (dy2 := skipn m1 dy).
      assert (Lx1 : length x1 = n1) by (unfold x1; rewrite firstn_length; lia).
      assert (Lx2 : length x2 = n2) by (unfold x2; rewrite skipn_length; lia).
      assert (Ly1 : length dy1 = m1) by (unfold dy1; rewrite firstn_length; lia).
      assert (Ly2 : length dy2 = m2) by (unfold dy2; rewrite skipn_length; lia).
      destruct (ps_sem SF x1 dy1 Lx1 Ly1) as (fF & bF & CF & CBF & A1 & A2 & A3 & A4).
      destruct (ps_sem SG x2 dy2 Lx2 Ly2) as (fG & bG & CG & CBG & B1 & B2 & B3 & B4).
      destruct (DF x1 Lx1) as (_ & LJ1 & RJ1). destruct (DG x2 Lx2) as (_ & LJ2 & RJ2).
      exists (msum nF fF fG), (msum nF bF bG).
      assert (Hmap : forall (a' b' : nat -> Z) a b, all_lt nF a ->
                map (msum nF a' b') (a ++ shiftl nF b) = map a' a ++ map b' b).
      { intros a' b' a b La. rewrite map_app, map_msum_l by exact La. rewrite map_msum_r. reflexivity. }
      split; [|split; [|split; [|split; [|split]]]].
      + intros e He. change (p_edges (ptensor F G)) with (sum_edges F G) in He. apply In_sum_edges in He.
        destruct He as [He|(e2 & He & ->)].
        * rewrite !map_msum_l; [apply CF; exact He|apply (pwf_src e WF He)|apply (pwf_tgt e WF He)].
        * cbn [shift_edge pe_lbl pe_src pe_tgt]. rewrite !map_msum_r. apply CG. exact He.
      + intros e He. change (p_edges (ptensor F G)) with (sum_edges F G) in He. apply In_sum_edges in He.
        destruct He as [He|(e2 & He & ->)].
        * rewrite !map_msum_l; [apply CBF; exact He|apply (pwf_tgt e WF He)|apply (pwf_src e WF He)|apply (pwf_src e WF He)].
        * cbn [shift_edge pe_lbl pe_src pe_tgt]. rewrite !map_msum_r. apply CBG. exact He.
      + cbn [ptensor p_ins]. rewrite Hmap by exact (pwf_ins WF).
        rewrite A1, B1, <- map_app. unfold x1, x2. rewrite firstn_skipn. reflexivity.
      + cbn [ptensor p_outs]. rewrite Hmap by exact (pwf_outs WF). rewrite A2, B2, <- map_app. reflexivity.
      + cbn [ptensor p_outs]. rewrite Hmap by exact (pwf_outs WF).
        rewrite A3, B3, <- map_app. unfold dy1, dy2. rewrite firstn_skipn. reflexivity.
      + cbn [ptensor p_ins]. rewrite Hmap by exact (pwf_ins WF). rewrite A4, B4, <- map_app.
        fold x1 x2. assert (Edy : dy = dy1 ++ dy2) by (unfold dy1, dy2; symmetry; apply firstn_skipn).
        rewrite Edy. rewrite tmulv_blockdiag; [reflexivity|exact RJ1|exact RJ2|lia].
  Qed.
End Tensor.

(* ================================================================== *)
(** * 4. closure under gluing: the chain rule *)
(* ================================================================== *)

Section Compose.
  Variables (F G H : pg) (q : nat -> nat) (n m p : nat).
  Variables (f g : list Z -> list Z) (J1 J2 : list Z -> list (list Z)).
  Hypothesis SF : PSem F n m f J1.
  Hypothesis SG : PSem G m p g J2.
  Hypothesis DF : FJdims n m f J1.
  Hypothesis DG : FJdims m p g J2.
  Hypothesis WH : pwf H.

  Local Notation nF := (length (p_nodes F)).
  Local Notation nG := (length (p_nodes G)).

  Hypothesis HQ : IsQuot (pjoin F G) q H.
  Hypothesis HK : forall i j, i < nF + nG -> j < nF + nG ->
    (q i = q j <-> conn (glue_pairs F G) i j).

  Let WF : pwf F := proj1 (ps_good SF).
  Let WG : pwf G := proj1 (ps_good SG).

  Lemma HLc : length (p_outs F) = length (p_ins G).
  Proof. rewrite (ps_lo SF), (ps_li SG). reflexivity. Qed.

  (* two labellings that agree along the glued boundary descend to the quotient *)
  Section Glue.
    Variables lF lG : nat -> Z.
    Hypothesis Agree : forall k, k < length (p_outs F) -> lF (nth k (p_outs F) 0) = lG (nth k (p_ins G) 0).

    Definition lJ : nat -> Z := msum nF lF lG.

    Lemma lJ_conn i j : conn (glue_pairs F G) i j -> lJ i = lJ j.
    Proof.
      apply (@conn_glue_impl (glue_pairs F G) (fun a b => lJ a = lJ b)); try congruence.
      intros a b Hin. apply (glue_pair_char F G) in Hin; [|exact HLc]. destruct Hin as (k & Hk & -> & ->).
      unfold lJ. rewrite msum_l by (apply (outs_F_lt WF); exact Hk). rewrite msum_r. apply Agree. exact Hk.
    Qed.

    Definition lH : nat -> Z := mquot 0%Z (nF + nG) q lJ.

    Lemma lH_q i : i < nF + nG -> lH (q i) = lJ i.
    Proof. apply mquot_spec. intros a b Ha Hb E. apply lJ_conn. apply HK; auto. Qed.

    Lemma map_lH_F l : all_lt nF l -> map lH (map q l) = map lF l.
    Proof.
      intros Hl. rewrite map_map. apply map_ext_in. intros v Hv.
      pose proof (all_lt_in v Hl Hv). rewrite lH_q by lia. unfold lJ. apply msum_l. assumption.
    Qed.

    Lemma map_lH_G l : all_lt nG l -> map lH (map q (shiftl nF l)) = map lG l.
    Proof.
      intros Hl. unfold shiftl. rewrite !map_map. apply map_ext_in. intros v Hv.
      pose proof (all_lt_in v Hl Hv). rewrite lH_q by lia. unfold lJ. apply msum_r.
    Qed.
  End Glue.

  Theorem PSem_compose : PSem H n p (seq_f f g) (seq_J n f J1 J2).
  Proof.
    pose proof (ps_good SF) as (_ & MF & RF & AF). pose proof (ps_good SG) as (_ & MG & RG & AG).
    assert (NG : NoDup (p_ins G)).
    { destruct MG as ((ND & _) & _). apply NoDup_app_iff in ND. tauto. }
    constructor.
    - split; [exact WH|]. split; [exact (mono_compose WF WG HQ HK HLc NG MF MG)|]. split.
      + apply (ranked_compose WF WG HQ HK HLc NG); [apply p_mono_sw; exact MG|exact RF|exact RG].
      + intros e He. apply (In_edges_H HQ) in He. destruct He as [(e1 & He1 & ->)|(e2 & He2 & ->)].
        * cbn [map_edge pe_lbl pe_src pe_tgt]. rewrite !map_length. apply AF. exact He1.
        * cbn [map_edge shift_edge pe_lbl pe_src pe_tgt]. unfold shiftl. rewrite !map_length. apply AG. exact He2.
    - rewrite (Q_ins HQ), map_length. exact (ps_li SF).
    - rewrite (Q_outs HQ), map_length, shiftl_length. exact (ps_lo SG).
    - intros x dz Hx Hdz. unfold seq_f, seq_J.
      destruct (DF x Hx) as (Lfx & LJ1 & RJ1).
      destruct (DG (f x) Lfx) as (Lgy & LJ2 & RJ2).
      set (dy := tmulv m (J2 (f x)) dz).
      assert (Ldy : length dy = m) by (apply tmulv_length; exact RJ2).
      destruct (ps_sem SG (f x) dz Lfx Hdz) as (fG & bG & CG & CBG & B1 & B2 & B3 & B4).
      destruct (ps_sem SF x dy Hx Ldy) as (fF & bF & CF & CBF & A1 & A2 & A3 & A4).
      assert (AgF : forall k, k < length (p_outs F) -> fF (nth k (p_outs F) 0) = fG (nth k (p_ins G) 0)).
      { intros k Hk. rewrite <- (map_nth fF), <- (map_nth fG), A2, B1.
        apply nth_indep. rewrite map_length, Lfx, <- (ps_lo SF). exact Hk. }
      assert (AgB : forall k, k < length (p_outs F) -> bF (nth k (p_outs F) 0) = bG (nth k (p_ins G) 0)).
      { intros k Hk. rewrite <- (map_nth bF), <- (map_nth bG), A3, B4. fold dy.
        apply nth_indep. rewrite map_length, Ldy, <- (ps_lo SF). exact Hk. }
      exists (lH fF fG), (lH bF bG). split; [|split; [|split; [|split; [|split]]]].
      + intros e He. apply (In_edges_H HQ) in He. destruct He as [(e1 & He1 & ->)|(e2 & He2 & ->)].
        * cbn [map_edge pe_lbl pe_src pe_tgt]. rewrite !(@map_lH_F fF fG AgF). apply CF. exact He1.
          apply (pwf_src e1 WF He1). apply (pwf_tgt e1 WF He1).
        * cbn [map_edge shift_edge pe_lbl pe_src pe_tgt]. rewrite !(@map_lH_G fF fG AgF). apply CG. exact He2.
          apply (pwf_src e2 WG He2). apply (pwf_tgt e2 WG He2).
      + intros e He. apply (In_edges_H HQ) in He. destruct He as [(e1 & He1 & ->)|(e2 & He2 & ->)].
        * cbn [map_edge pe_lbl pe_src pe_tgt].
          rewrite (@map_lH_F bF bG AgB), (@map_lH_F bF bG AgB), (@map_lH_F fF fG AgF);
            [apply CBF; exact He1|apply (pwf_src e1 WF He1)|apply (pwf_tgt e1 WF He1)|apply (pwf_src e1 WF He1)].
        * cbn [map_edge shift_edge pe_lbl pe_src pe_tgt].
          rewrite (@map_lH_G bF bG AgB), (@map_lH_G bF bG AgB), (@map_lH_G fF fG AgF);
            [apply CBG; exact He2|apply (pwf_src e2 WG He2)|apply (pwf_tgt e2 WG He2)|apply (pwf_src e2 WG He2)].
      + rewrite (Q_ins HQ), (@map_lH_F fF fG AgF) by exact (pwf_ins WF). exact A1.
      + rewrite (Q_outs HQ), (@map_lH_G fF fG AgF) by exact (pwf_outs WG). exact B2.
      + rewrite (Q_outs HQ), (@map_lH_G bF bG AgB) by exact (pwf_outs WG). exact B3.
      + rewrite (Q_ins HQ), (@map_lH_F bF bG AgB) by exact (pwf_ins WF). rewrite A4.
        f_equal. unfold dy. rewrite tmulv_mmul; [rewrite LJ1; reflexivity|exact RJ1|rewrite LJ1; exact RJ2].
  Qed.
End Compose.

(* ================================================================== *)
(** * 5. diagrams without hyperedges; the generators *)
(* ================================================================== *)

Theorem PSem_discrete (g : pg) N f J : p_edges g = [] -> length (p_nodes g) = N ->
  Permutation (p_ins g) (seq 0 N) -> Permutation (p_outs g) (seq 0 N) ->
  (forall x, length x = N -> exists xv,
     map (fun i => nth i xv 0%Z) (p_ins g) = x /\ map (fun i => nth i xv 0%Z) (p_outs g) = f x) ->
  (forall x dy, length x = N -> length dy = N -> exists dv,
     map (fun i => nth i dv 0%Z) (p_outs g) = dy /\ map (fun i => nth i dv 0%Z) (p_ins g) = tmulv N (J x) dy) ->
  PSem g N N f J.
Proof.
  intros He HN Ps Pt Hf HJ.
  destruct (@perm_seq_facts _ _ Ps) as (Ns & Ls & _ & Lens).
  destruct (@perm_seq_facts _ _ Pt) as (Nt & Lt & _ & Lent).
  constructor.
  - split; [|split; [|split]].
    + split; [rewrite He; intros e []|]. rewrite HN. split; assumption.
    + unfold p_mono, p_tgts, p_srcs. rewrite He, HN. cbn [map concat]. rewrite app_nil_r. cbn [app].
      split; (eapply cover_perm; [apply Permutation_sym; eassumption|apply cover_seq]).
    + exists (fun _ => 0). intros x y ex ey v Hx. rewrite He in Hx. destruct x; discriminate.
    + rewrite He. intros e [].
  - exact Lens.
  - exact Lent.
  - intros x dy Hx Hdy. destruct (Hf x Hx) as (xv & X1 & X2). destruct (HJ x dy Hx Hdy) as (dv & D1 & D2).
    exists (fun v => wrap (nth v xv 0%Z)), (fun v => wrap (nth v dv 0%Z)).
    split; [intros e Hin; rewrite He in Hin; destruct Hin|].
    split; [intros e Hin; rewrite He in Hin; destruct Hin|].
    rewrite <- X1 at 1. rewrite <- X2, <- D1 at 1. rewrite <- D2. rewrite !map_map. auto.
Qed.

Lemma all_lt_seq_le a k N : a + k <= N -> all_lt N (seq a k).
Proof. intros H. apply Forall_forall. intros v Hv. apply in_seq in Hv. lia. Qed.

Lemma good_pgen w x n m : length w = n + m -> poly_arity x = Some (n, m) -> good_pg (pgen w x n m).
Proof.
  intros Hw Ha. split; [|split; [|split]].
  - unfold pwf, pgen. cbn [p_nodes p_edges p_ins p_outs]. rewrite Hw.
    split; [|split; apply all_lt_seq_le; lia].
    intros e [<-|[]]. cbn [pe_src pe_tgt]. split; apply all_lt_seq_le; lia.
  - unfold p_mono, p_tgts, p_srcs, pgen. cbn [p_nodes p_edges p_ins p_outs map concat pe_src pe_tgt].
    rewrite !app_nil_r, Hw, <- seq_app. split; apply cover_seq.
  - exists (fun _ => 0). intros i j ei ej v Hi Hj Ht Hs. unfold pgen in Hi, Hj. cbn [p_edges] in Hi, Hj.
    destruct i as [|[|i]]; try discriminate Hi. destruct j as [|[|j]]; try discriminate Hj.
    cbn in Hi, Hj. inversion Hi; subst ei. inversion Hj; subst ej. cbn [pe_src pe_tgt] in Ht, Hs.
    apply in_seq in Ht. apply in_seq in Hs. lia.
  - intros e [<-|[]]. cbn [pe_lbl pe_src pe_tgt]. rewrite !seq_length. exact Ha.
Qed.

Theorem PSem_gen x n m : poly_arity x = Some (n, m) ->
  PSem (pgen (repeat 0 n ++ repeat 0 m) x n m) n m (gen_sem x) (gen_jac x).
Proof.
  intros Ha.
  assert (Hw : length (repeat 0 n ++ repeat 0 m) = n + m) by (rewrite app_length, !repeat_length; reflexivity).
  constructor.
  - apply good_pgen; assumption.
  - apply seq_length.
  - apply seq_length.
  - intros xv dy Hx Hdy.
    exists (fun v => nth v (map wrap xv ++ interp x (map wrap xv)) 0%Z),
           (fun v => nth v (map wrap (tmulv n (gen_jac x xv) dy) ++ map wrap dy) 0%Z).
    unfold fwd_ok, bwd_ok, pgen. cbn [p_edges p_ins p_outs].
    assert (Hcases : x = 0 \/ x = 1 \/ x = 2 \/ x = 3 \/ x = 4 \/ exists c, x = 10 + c).
    { do 10 (destruct x as [|x]; [cbn in Ha; try discriminate Ha; tauto|]).
      right. right. right. right. right. exists x. reflexivity. }
    destruct Hcases as [->|[->|[->|[->|[->|(c & ->)]]]]]; cbn [poly_arity Nat.add] in Ha;
      injection Ha as <- <-;
      destruct xv as [|? [|? [|? ?]]]; cbn in Hx; try discriminate Hx;
      destruct dy as [|? [|? [|? ?]]]; cbn in Hdy; try discriminate Hdy;
      (split; [intros e [<-|[]]|split; [intros e [<-|[]]|split; [|split; [|split]]]]);
      cbv -[wrap Z.add Z.mul Z.opp Z.of_nat]; try reflexivity; wrap_solve.
Qed.

(* ================================================================== *)
(** * 6. every denotable circuit satisfies the invariant *)
(* ================================================================== *)

Theorem denotes_PSem s n m f J : denotes s n m f J -> PSem (abs s) n m f J.
Proof.
  induction 1 as [g n m s Ha Hs|n s Hs|n m s Hs
                 |s1 s2 s n m p f g J1 J2 H1 IH1 H2 IH2 Hc
                 |s1 s2 s n1 m1 n2 m2 f1 f2 J1 J2 H1 IH1 H2 IH2 Ht
                 |s s' n m f J H IH Ws' Hi].
  - destruct (singleton_value _ _ _ Hs) as (W & E). rewrite E, !repeat_length. apply PSem_gen. exact Ha.
  - rewrite ohg_identity_ok in Hs. inversion Hs; subst s. rewrite abs_id_pure.
    unfold pid, pwire. rewrite repeat_length.
    apply PSem_discrete; cbn [p_nodes p_edges p_ins p_outs]; try reflexivity.
    + apply repeat_length.
    + intros x Hx. exists x. rewrite <- Hx. split; apply map_seq_nth.
    + intros x dy Hx Hdy. exists dy. rewrite tmulv_idmat by exact Hdy. rewrite <- Hdy. split; apply map_seq_nth.
  - rewrite ohg_twist_ok in Hs. inversion Hs; subst s. rewrite abs_twist_pure.
    unfold ptwist, pwire. rewrite !repeat_length. replace (m + n) with (n + m) by lia.
    apply PSem_discrete; cbn [p_nodes p_edges p_ins p_outs]; try reflexivity.
    + rewrite app_length, !repeat_length. lia.
    + rewrite (Nat.add_comm n m), seq_app. cbn [Nat.add]. apply Permutation_app_comm.
    + intros x Hx. exists (skipn n x ++ firstn n x).
      assert (L1 : length (skipn n x) = m) by (rewrite skipn_length; lia).
      assert (L2 : length (firstn n x) = n) by (rewrite firstn_length; lia).
      split.
      * rewrite map_app.
        replace (seq m n) with (seq (length (skipn n x)) (length (firstn n x))) by (rewrite L1, L2; reflexivity).
        rewrite map_nth_app_rZ.
        replace (seq 0 m) with (seq 0 (length (skipn n x))) by (rewrite L1; reflexivity).
        rewrite map_nth_app_lZ. apply firstn_skipn.
      * unfold twist_f. replace (n + m) with (length (skipn n x ++ firstn n x)) by (rewrite app_length; lia).
        apply map_seq_nth.
    + intros x dy Hx Hdy. exists dy. split.
      * rewrite <- Hdy. apply map_seq_nth.
      * rewrite tmulv_twist by lia.
        assert (L1 : length (firstn m dy) = m) by (rewrite firstn_length; lia).
        assert (L2 : length (skipn m dy) = n) by (rewrite skipn_length; lia).
        assert (E : map (fun i => nth i dy 0%Z) (seq m n ++ seq 0 m)
                    = map (fun i => nth i (firstn m dy ++ skipn m dy) 0%Z) (seq m n ++ seq 0 m))
          by (rewrite firstn_skipn; reflexivity).
        rewrite E, map_app.
        replace (seq m n) with (seq (length (firstn m dy)) (length (skipn m dy))) by (rewrite L1, L2; reflexivity).
        rewrite map_nth_app_rZ.
        replace (seq 0 m) with (seq 0 (length (firstn m dy))) by (rewrite L1; reflexivity).
        rewrite map_nth_app_lZ. reflexivity.
  - destruct (den_facts H1) as (W1 & _). destruct (den_facts H2) as (W2 & _).
    destruct (compose_value W1 W2 Hc) as (W & (q & HQ & HK) & _).
    exact (PSem_compose IH1 IH2 (denotes_dims H1) (denotes_dims H2) (wf_abs_pwf W) HQ HK).
  - destruct (den_facts H1) as (W1 & _). destruct (den_facts H2) as (W2 & _).
    destruct (tensor_value W1 W2 Ht) as (W & E). rewrite E.
    exact (PSem_tensor IH1 IH2 (denotes_dims H1) (denotes_dims H2)).
  - exact (PSem_iso (wf_abs_pwf Ws') Hi IH).
Qed.

(* ================================================================== *)
(** * 7. the oracle computes the reverse derivative *)
(* ================================================================== *)

(* for arbitrary integer vectors, the inputs reduced modulo 2^64 *)
Theorem ref_grad_denotes_wrapped : forall s n m f J, denotes s n m f J ->
  forall x dy, length x = n -> length dy = m ->
  ref_grad (abs s) (map wrap x) dy = Some (map wrap (f x ++ tmulv n (J x) dy)).
Proof.
  intros s n m f J Hd x dy Hx Hdy. pose proof (denotes_PSem Hd) as S.
  destruct (ps_sem S x dy Hx Hdy) as (fw & bw & CF & CB & V1 & V2 & V3 & V4).
  rewrite <- V1, map_app, <- V2, <- V4. apply ref_grad_sound; [exact (ps_good S)|exact CF|exact CB|exact V3].
Qed.

Theorem ref_grad_denotes : forall s n m f J, denotes s n m f J ->
  forall x dy, length x = n -> length dy = m -> Forall in64 x -> Forall in64 dy ->
  ref_grad (abs s) x dy = Some (map wrap (f x ++ tmulv n (J x) dy)).
Proof.
  intros s n m f J Hd x dy Hx Hdy Fx _.
  rewrite <- (ref_grad_denotes_wrapped Hd x dy Hx Hdy), (map_wrap_in64 Fx). reflexivity.
Qed.

Corollary ref_grad_agrees_with_model : forall s, poly_circuit s -> ohg_is_monogamous s = Ok true ->
  ohg_is_acyclic VecBackend s = Ok true ->
  exists d, poly_adapted_strict s = Ok d /\
    forall x dy, length x = length (table (o_s s)) -> length dy = length (table (o_t s)) ->
      Forall in64 x -> Forall in64 dy ->
      eval VecBackend 0%Z apply_sig d (x ++ dy) = Ok (ref_grad (abs s) x dy).
Proof.
  intros s Ps Hm Ha. destruct (C14_every_circuit_denotable Ps Hm Ha) as (n & m & f & J & Hd).
  destruct (C14_derivative_all_closed Hd) as (d & Had & _ & Hev).
  destruct (den_facts Hd) as (_ & _ & Ln & Lm). cbn [abs p_ins p_outs] in Ln, Lm.
  exists d. split; [exact Had|]. intros x dy Hx Hdy Fx Fdy. rewrite Ln in Hx. rewrite Lm in Hdy.
  rewrite (Hev x dy Hx Hdy Fx Fdy), (ref_grad_denotes Hd Hx Hdy Fx Fdy). reflexivity.
Qed.

(* ================================================================== *)
(** * 8. examples *)
(* ================================================================== *)

(* the squaring circuit copy ; mul at x = 3, dy = 1: (x^2, 2x) = (9, 6), next to the model's adapted optic *)
Example ref_grad_square_ex :
  ref_grad (abs s_square) [3%Z] [1%Z] = Some [9%Z; 6%Z] /\
  exists d, poly_adapted_strict s_square = Ok d /\
    eval VecBackend 0%Z apply_sig d ([3%Z] ++ [1%Z]) = Ok (Some [9%Z; 6%Z]).
Proof.
  split; [vm_compute; reflexivity|]. eexists. split; [vm_compute; reflexivity|vm_compute; reflexivity].
Qed.

(* seven hyperedges in scrambled order (C14fNormal.v): (z, x, y) |-> - ((x + y) * y) + 2.
   At (5, 3, 4), dy = 1: value -26, gradient (0, -y, -(x + 2y)) = (0, -4, -11), modulo 2^64;
   the reference interpreter fires the hyperedges in the order 1 3 4 6 0 5 2. *)
Example ref_grad_scrambled_ex :
  option_map snd (ref_eval_mem (abs ex_scrambled) [5; 3; 4]%Z) = Some [1; 3; 4; 6; 0; 5; 2] /\
  ref_grad (abs ex_scrambled) [5; 3; 4]%Z [1%Z]
    = Some [18446744073709551590; 0; 18446744073709551612; 18446744073709551605]%Z /\
  exists d, poly_adapted_strict ex_scrambled = Ok d /\
    eval VecBackend 0%Z apply_sig d ([5; 3; 4]%Z ++ [1%Z])
      = Ok (Some [18446744073709551590; 0; 18446744073709551612; 18446744073709551605]%Z) /\
    (* with overflow: x = 2^63, y = 2^64 - 1, dy = 7 *)
    eval VecBackend 0%Z apply_sig d ([5; 9223372036854775808; 18446744073709551615]%Z ++ [7%Z])
      = Ok (ref_grad (abs ex_scrambled) [5; 9223372036854775808; 18446744073709551615]%Z [7%Z]) /\
    ref_grad (abs ex_scrambled) [5; 9223372036854775808; 18446744073709551615]%Z [7%Z]
      = Some [9223372036854775809; 0; 7; 9223372036854775822]%Z.
Proof.
  split; [vm_compute; reflexivity|]. split; [vm_compute; reflexivity|].
  eexists. split; [vm_compute; reflexivity|]. split; [vm_compute; reflexivity|].
  split; [vm_compute; reflexivity|vm_compute; reflexivity].
Qed.

(* the hypotheses of the theorems are satisfiable: [ref_grad_denotes] at the squaring circuit (Jacobian by
   the chain rule), [ref_grad_agrees_with_model] at the scrambled circuit *)
Example ref_grad_denotes_ex :
  ref_grad (abs s_square) [3%Z] [1%Z]
  = Some (map wrap (seq_f (gen_sem 3) (gen_sem 1) [3%Z]
                    ++ tmulv 1 (seq_J 1 (gen_sem 3) (gen_jac 3) (gen_jac 1) [3%Z]) [1%Z])).
Proof.
  destruct C14_full_ex as (Hd & _).
  apply (ref_grad_denotes Hd); try reflexivity; repeat constructor; try discriminate.
Qed.

Example ref_grad_agrees_with_model_ex :
  exists d, poly_adapted_strict ex_scrambled = Ok d /\
    forall x dy, length x = 3 -> length dy = 1 -> Forall in64 x -> Forall in64 dy ->
      eval VecBackend 0%Z apply_sig d (x ++ dy) = Ok (ref_grad (abs ex_scrambled) x dy).
Proof.
  destruct C14_every_circuit_denotable_ex as (Hp & Hm & Ha & _).
  exact (ref_grad_agrees_with_model Hp Hm Ha).
Qed.

(* the hypotheses of [ref_grad_sound] (OracleSweep.v) are satisfiable: the squaring circuit at x = 3, dy = 1 *)
Example ref_grad_sound_ex : exists fw bw,
  good_pg (abs s_square) /\ fwd_ok (abs s_square) fw /\ bwd_ok (abs s_square) fw bw /\
  map bw (p_outs (abs s_square)) = map wrap [1%Z] /\ map fw (p_ins (abs s_square)) = [3%Z].
Proof.
  destruct C14_full_ex as (Hd & _). pose proof (denotes_PSem Hd) as S.
  destruct (ps_sem S [3%Z] [1%Z] eq_refl eq_refl) as (fw & bw & CF & CB & V1 & _ & V3 & _).
  exists fw, bw. split; [exact (ps_good S)|]. split; [exact CF|]. split; [exact CB|]. split; [exact V3|exact V1].
Qed.

(* outside the scope nothing is claimed: on a cyclic diagram the oracle answers None *)
Example ref_grad_cyclic_none :
  ref_grad (mkP [0] [mkPE 2 [0] [0]] [] []) [] [] = None.
Proof. vm_compute. reflexivity. Qed.

Print Assumptions denotes_PSem.
Print Assumptions ref_grad_denotes_wrapped.
Print Assumptions ref_grad_denotes.
Print Assumptions ref_grad_agrees_with_model.
Print Assumptions ref_grad_sound_ex.
Print Assumptions ref_grad_square_ex.
Print Assumptions ref_grad_scrambled_ex.
Print Assumptions ref_grad_denotes_ex.
Print Assumptions ref_grad_agrees_with_model_ex.
