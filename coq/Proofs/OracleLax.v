(* The last unlinked oracle use: the ["term_eval"] branch of [spec_case] (Run/SpecCheck.v) judges the
   evaluation of a LAX diagram literal c (strictified with lohg_to_strict VecBackend Nat.eqb, then
   evaluated with strict::eval::eval) against [ref_eval (labs c) inp], and the evaluation of its adapted
   polynomial optic against [ref_grad (labs c) x dy], when c has no pending pairs.

     ref_eval_iso            ref_eval is invariant under isomorphism of single-writer plain diagrams
     ref_eval_iso_needs_sw   ... and is not without the single-writer hypothesis (counterexample)
     term_eval_lax_agrees    eval B 0 apply_sig s inp = Ok (ref_eval (labs c) inp),  s the strictification
     term_eval_lax_refusal   ref_eval (labs c) inp = None -> eval B 0 apply_sig s inp = Ok None
     ref_grad_iso            ref_grad is invariant under isomorphism on diagrams satisfying PSem
     term_eval_optic_agrees  poly_run D (x ++ dy) = Ok (ref_grad (labs c) x dy),  D the adapted lax optic

   Route: without pending pairs strictification is a renumbering of the nodes (C19cAny.to_strict_niso,
   from C10_to_strict_spec); the plain-level theorems of OracleEval.v (ref_ranked_iff, ref_eval_pval) and a
   uniqueness lemma for valuations give invariance of ref_eval; PSem (OracleGrad.v) is closed under
   isomorphism and determines ref_grad. *)
From Coq Require Import List Arith Lia Bool ZArith Permutation.
From OHG Require Import Spec.Plain Spec.GraphSpec Proofs.PrimsThm Proofs.BackendInst Proofs.C01Lemmas Proofs.C01Thm
  Proofs.QuotThm Proofs.C09Thm Proofs.C10Lemmas Proofs.C10Strict Proofs.C10Thm Proofs.C12Plain
  Proofs.AdjThm Proofs.C16Lemmas Proofs.C16Thm Proofs.Assemble Proofs.EvalPlain Proofs.EvalFunctor
  Proofs.C14cPlain Proofs.C14Thm Proofs.C14eSem Proofs.C14eInd Proofs.C14eDeriv Proofs.C14fNormal
  Proofs.C19cAny Proofs.CheckersThm Proofs.OracleEval Proofs.OracleSweep Proofs.OracleGrad.
From OHG Require Proofs.HarnessThm.
From OHG Require Import Run.Dispatch Run.SpecCheck.
Import Coq.Init.Datatypes.
Import ListNotations.
Close Scope string_scope.
Open Scope nat_scope.
Open Scope list_scope.
Open Scope bool_scope.

Arguments Nat.sub : simpl never.
Set Implicit Arguments.

(* ================================================================== *)
(** * 1. pulling the evaluation vocabulary back along an isomorphism *)
(* ================================================================== *)

Section Pull.
  Variables (g g' : pg).
  Hypothesis W' : pwf g'.
  Hypothesis HI : Iso g' g.

  (* the data of the isomorphism, in the form used below *)
  Lemma iso_data : exists pn pe,
    length (p_nodes g') = length (p_nodes g) /\
    bij_on (length (p_nodes g')) pn /\
    (forall x ex, nth_error (p_edges g') x = Some ex -> nth_error (p_edges g) (pe x) = Some (map_edge pn ex)) /\
    (forall e, In e (p_edges g') -> In (map_edge pn e) (p_edges g)) /\
    Permutation (map (map_edge pn) (p_edges g')) (p_edges g) /\
    p_ins g = map pn (p_ins g') /\ p_outs g = map pn (p_outs g').
  Proof.
    destruct HI as (Hn & Hm & pn & pe & Bn & Be & Hl & He & Hi & Ho). exists pn, pe.
    assert (Hedge : forall x ex, nth_error (p_edges g') x = Some ex ->
              nth_error (p_edges g) (pe x) = Some (map_edge pn ex)).
    { intros x ex Hx. rewrite He by (apply nth_error_Some; congruence). rewrite Hx. reflexivity. }
    split; [exact Hn|]. split; [exact Bn|]. split; [exact Hedge|]. split; [|split; [|split; assumption]].
    - intros e Hin. apply In_nth_error in Hin. destruct Hin as (x & Hx).
      eapply nth_error_In. apply Hedge. exact Hx.
    - apply perm_of_bij with pe; rewrite ?map_length; auto.
      intros e Hlt. rewrite He by exact Hlt. symmetry. apply nth_error_map.
  Qed.

  Lemma ranked_pull : p_ranked g -> p_ranked g'.
  Proof.
    destruct iso_data as (pn & pe & _ & _ & Hedge & _). intros (lev & Hlev).
    exists (fun x => lev (pe x)). intros x y ex ey v Hx Hy Ht Hs.
    apply (Hlev (pe x) (pe y) _ _ (pn v) (Hedge _ _ Hx) (Hedge _ _ Hy)); cbn [map_edge pe_src pe_tgt];
      apply in_map; assumption.
  Qed.

  Lemma writes_perm pn : Permutation (map (map_edge pn) (p_edges g')) (p_edges g) -> p_ins g = map pn (p_ins g') ->
    Permutation (map pn (p_ins g' ++ p_tgts g')) (p_ins g ++ p_tgts g).
  Proof.
    intros HP Hi. rewrite map_app, <- Hi. apply Permutation_app_head.
    rewrite !tgts_flat, <- flat_map_tgt_map_edge. apply Permutation_flat_map. exact HP.
  Qed.

  Lemma sw_pull : p_sw g -> p_sw g'.
  Proof.
    destruct iso_data as (pn & pe & _ & _ & _ & _ & HP & Hi & _). unfold p_sw. intros ND.
    apply (NoDup_map_inv pn). apply (Permutation_NoDup (Permutation_sym (writes_perm pn HP Hi))). exact ND.
  Qed.

  Lemma arity_pull : p_arity interp g -> p_arity interp g'.
  Proof.
    destruct iso_data as (pn & pe & _ & _ & _ & Hin & _). intros Har e vals He Hl.
    pose proof (Har _ vals (Hin e He)) as H. cbn [map_edge pe_lbl pe_src pe_tgt] in H.
    rewrite !map_length in H. apply H. exact Hl.
  Qed.
End Pull.

(* ================================================================== *)
(** * 2. valuations: transport along an isomorphism, uniqueness *)
(* ================================================================== *)

Lemma pval_pull (g g' : pg) inp mem : pwf g' -> Iso g' g -> pval 0%Z interp g inp mem ->
  exists pn, bij_on (length (p_nodes g')) pn /\ p_outs g = map pn (p_outs g') /\
             pval 0%Z interp g' inp (fun v => mem (pn v)).
Proof.
  intros W' HI (V1 & V2 & V3).
  destruct (iso_data HI) as (pn & pe & Hn & Bn & _ & Hin & HP & Hi & Ho).
  pose proof W' as (We' & Wi' & Wo').
  exists pn. split; [exact Bn|]. split; [exact Ho|]. split; [|split].
  - intros i Hi'. specialize (V1 i). rewrite Hi, map_length in V1. specialize (V1 Hi').
    rewrite (nth_indep _ 0 (pn 0)) in V1 by (rewrite map_length; exact Hi').
    rewrite map_nth in V1. exact V1.
  - intros e He. pose proof (V2 _ (Hin e He)) as H. cbn [map_edge pe_lbl pe_src pe_tgt] in H.
    rewrite !map_map in H. exact H.
  - intros v Hv Hni Hnt. apply V3.
    + rewrite <- Hn. apply Bn. exact Hv.
    + rewrite Hi. intros H. apply in_map_iff in H. destruct H as (u & Eu & Hu).
      assert (u = v) by (apply Bn; auto; eapply all_lt_in; [exact Wi'|exact Hu]). subst u. contradiction.
    + intros e He Ht. apply (Permutation_in _ (Permutation_sym HP)) in He.
      apply in_map_iff in He. destruct He as (e' & <- & He'). cbn [map_edge pe_tgt] in Ht.
      apply in_map_iff in Ht. destruct Ht as (u & Eu & Hu).
      assert (u = v) by (apply Bn; auto; eapply all_lt_in; [apply (pwf_tgt e' W' He')|exact Hu]). subst u.
      exact (Hnt e' He' Hu).
Qed.

(* on a ranked diagram two valuations for the same input agree on every node *)
Lemma pval_unique (g : pg) inp m1 m2 : pwf g -> p_ranked g ->
  pval 0%Z interp g inp m1 -> pval 0%Z interp g inp m2 ->
  forall v, v < length (p_nodes g) -> m1 v = m2 v.
Proof.
  intros W (lev & Hlev) (A1 & A2 & A3) (B1 & B2 & B3).
  (* a node is an input, a target, or unwritten *)
  assert (Hnode : forall v, v < length (p_nodes g) ->
            (forall y ey, nth_error (p_edges g) y = Some ey -> In v (pe_tgt ey) -> m1 v = m2 v) -> m1 v = m2 v).
  { intros v Hv Htg.
    destruct (in_dec Nat.eq_dec v (p_ins g)) as [Hi|Hi].
    - apply In_nth with (d := 0) in Hi. destruct Hi as (i & Hi & <-). rewrite A1, B1 by exact Hi. reflexivity.
    - destruct (in_dec Nat.eq_dec v (p_tgts g)) as [Ht|Ht].
      + unfold p_tgts in Ht. apply in_concat in Ht. destruct Ht as (l & Hl & Hvl).
        apply in_map_iff in Hl. destruct Hl as (ey & <- & Hey).
        apply In_nth_error in Hey. destruct Hey as (y & Hy). exact (Htg y ey Hy Hvl).
      + assert (Hno : forall e, In e (p_edges g) -> ~ In v (pe_tgt e)).
        { intros e He Hve. apply Ht. unfold p_tgts. apply in_concat. exists (pe_tgt e). split; [|exact Hve].
          apply in_map. exact He. }
        rewrite (A3 v Hv Hi Hno), (B3 v Hv Hi Hno). reflexivity. }
  assert (Hedge : forall k x ex, lev x < k -> nth_error (p_edges g) x = Some ex ->
            forall v, In v (pe_tgt ex) -> m1 v = m2 v).
  { induction k as [|k IH]; intros x ex Hk Hx v Hv; [lia|].
    assert (Hin : In ex (p_edges g)) by (eapply nth_error_In; exact Hx).
    assert (Hs : map m1 (pe_src ex) = map m2 (pe_src ex)).
    { apply map_ext_in. intros u Hu. apply Hnode.
      - eapply all_lt_in; [apply (pwf_src ex W Hin)|exact Hu].
      - intros y ey Hy Huy. apply (IH y ey); [|exact Hy|exact Huy].
        pose proof (Hlev y x ey ex u Hy Hx Huy Hu). lia. }
    pose proof (A2 ex Hin) as E1. pose proof (B2 ex Hin) as E2. rewrite Hs, <- E2 in E1.
    apply In_nth with (d := 0) in Hv. destruct Hv as (i & Hi & <-).
    apply (f_equal (fun l => nth i l 0%Z)) in E1.
    rewrite (nth_indep _ 0%Z (m1 0)), (nth_indep (map m2 _) 0%Z (m2 0)) in E1 by (rewrite map_length; exact Hi).
    rewrite !map_nth in E1. exact E1. }
  intros v Hv. apply Hnode; [exact Hv|]. intros y ey Hy Hvy. exact (Hedge (S (lev y)) y ey (Nat.lt_succ_diag_r _) Hy v Hvy).
Qed.

(* ================================================================== *)
(** * 3. the reference interpreter is invariant under isomorphism (single-writer diagrams) *)
(* ================================================================== *)

Theorem ref_eval_iso (g g' : pg) inp : pwf g -> pwf g' -> Iso g g' -> p_sw g -> p_arity interp g ->
  ref_eval g inp = ref_eval g' inp.
Proof.
  intros W W' HI SW AR.
  pose proof (Iso_sym W HI) as HI'.
  assert (HI2 : Iso g g') by exact HI.
  destruct (ref_eval g inp) as [out|] eqn:E.
  - pose proof (ref_eval_Some_ranked _ _ E) as R.
    assert (R' : p_ranked g') by (apply (ranked_pull HI'); exact R).
    assert (SW' : p_sw g') by (apply (sw_pull HI'); exact SW).
    assert (AR' : p_arity interp g') by (apply (arity_pull HI'); exact AR).
    destruct (ref_eval g' inp) as [out'|] eqn:E'.
    2:{ exfalso. apply (proj1 (ref_ranked_iff g' inp) E'). exact R'. }
    destruct (@ref_eval_pval g inp out W SW AR E) as (mem & V & ->).
    destruct (@ref_eval_pval g' inp out' W' SW' AR' E') as (mem' & V' & ->).
    destruct (pval_pull W HI2 V') as (pn & Bn & Ho & Vp).
    f_equal. rewrite Ho, map_map. apply map_ext_in. intros v Hv.
    apply (pval_unique W R V Vp). eapply all_lt_in; [apply (pwf_outs W)|exact Hv].
  - symmetry. apply ref_ranked_iff. intros R'. apply (proj1 (ref_ranked_iff g inp) E).
    apply (ranked_pull HI2). exact R'.
Qed.

(* refusal is invariant without any side condition *)
Theorem ref_eval_iso_refusal (g g' : pg) inp inp' : pwf g -> Iso g g' ->
  (ref_eval g inp = None <-> ref_eval g' inp' = None).
Proof.
  intros W HI. rewrite !ref_ranked_iff. pose proof (Iso_sym W HI) as HI'.
  split; intros H R; apply H; [exact (ranked_pull HI R)|exact (ranked_pull HI' R)].
Qed.

(* without the single-writer hypothesis the statement is false: two constants written to the same node,
   the hyperedges listed in the two possible orders (the last writer wins) *)
Definition cx_g : pg := mkP [0] [mkPE 10 [] [0]; mkPE 11 [] [0]] [] [0].
Definition cx_g' : pg := mkP [0] [mkPE 11 [] [0]; mkPE 10 [] [0]] [] [0].

Example ref_eval_iso_needs_sw :
  pwf cx_g /\ pwf cx_g' /\ Iso cx_g cx_g' /\ p_arity interp cx_g /\ ~ p_sw cx_g /\
  ref_eval cx_g [] = Some [1%Z] /\ ref_eval cx_g' [] = Some [0%Z].
Proof.
  split; [|split; [|split; [|split; [|split; [|split]]]]].
  - split; [|split]; [intros e [<-|[<-|[]]]; split; repeat constructor|repeat constructor|repeat constructor].
  - split; [|split]; [intros e [<-|[<-|[]]]; split; repeat constructor|repeat constructor|repeat constructor].
  - apply IsoVia_Iso with (pn := fun i => i). unfold IsoVia. cbn [cx_g cx_g' p_nodes p_edges p_ins p_outs length map].
    split; [reflexivity|]. split; [split; auto|]. split; [intros i Hi; reflexivity|].
    split; [apply perm_swap|split; reflexivity].
  - intros e vals [<-|[<-|[]]] _; reflexivity.
  - intros H. apply chk_single_writer_iff in H. vm_compute in H. discriminate.
  - vm_compute. reflexivity.
  - vm_compute. reflexivity.
Qed.

(* ================================================================== *)
(** * 4. lax diagrams without pending pairs: strictification is a renumbering *)
(* ================================================================== *)

Lemma pending_free_lq (c : lohg nat nat) : lwf c -> pending_free c = true -> l_q (lo_h c) = ([], []).
Proof.
  intros ((_ & _ & _ & Hlen) & _) Hp. unfold pending_free in Hp.
  destruct (l_q (lo_h c)) as [[|a q1] [|b q2]]; cbn in *; try discriminate; reflexivity.
Qed.

(* the strictification s of c exists, is well-formed, and abs s is labs c renumbered *)
Lemma strictify_iso (c : lohg nat nat) : lwf c -> ladj_ok c -> pending_free c = true ->
  exists s, lohg_to_strict VecBackend Nat.eqb c = Ok s /\ wf_ohg s /\ Iso (labs c) (abs s).
Proof.
  intros W L P.
  destruct (to_strict_niso VecBackend_ok Nat.eqb Nat.eqb_eq W L (pending_free_lq W P)) as (s & Hs & Ws & HN).
  exists s. split; [exact Hs|]. split; [exact Ws|]. apply C12Plain.NIso_Iso. exact HN.
Qed.

(* ================================================================== *)
(** * 5. the ["term_eval"] branch, evaluation clause *)
(* ================================================================== *)

(* side conditions as propositions on the plain form of the lax diagram *)
Theorem term_eval_lax_agrees_prop : forall B, BackendOK B -> forall (c : lohg nat nat) inp,
  lwf c -> ladj_ok c -> pending_free c = true -> p_sw (labs c) -> p_arity interp (labs c) ->
  exists s, lohg_to_strict VecBackend Nat.eqb c = Ok s /\
            eval B 0%Z apply_sig s inp = Ok (ref_eval (labs c) inp).
Proof.
  intros B OK c inp W L P SW AR. destruct (strictify_iso W L P) as (s & Hs & Ws & HI).
  exists s. split; [exact Hs|].
  pose proof (lwf_pwf W) as Wc. pose proof (wf_abs_pwf Ws) as Wa.
  pose proof (Iso_sym Wc HI) as HI'.
  rewrite (ref_eval_iso inp Wc Wa HI SW AR).
  apply ref_eval_agrees; [exact OK|exact Ws| |].
  - apply (sw_bridge Ws). exact (sw_pull HI' SW).
  - apply (arity_bridge interp Ws). exact (arity_pull HI' AR).
Qed.

Theorem term_eval_lax_refusal : forall B, BackendOK B -> forall (c : lohg nat nat) inp,
  lwf c -> ladj_ok c -> pending_free c = true -> ref_eval (labs c) inp = None ->
  exists s, lohg_to_strict VecBackend Nat.eqb c = Ok s /\ eval B 0%Z apply_sig s inp = Ok None.
Proof.
  intros B OK c inp W L P E. destruct (strictify_iso W L P) as (s & Hs & Ws & HI).
  exists s. split; [exact Hs|]. apply (oracle_refusal_clause OK inp Ws).
  apply (ref_eval_iso_refusal inp inp (lwf_pwf W) HI). exact E.
Qed.

(* side conditions as the booleans computed by [spec_case] in its "eval" branch *)
Theorem term_eval_lax_agrees : forall B, BackendOK B -> forall (c : lohg nat nat) inp,
  lwf c -> ladj_ok c -> pending_free c = true ->
  chk_single_writer (labs c) && chk_arity_ok (labs c) inp = true ->
  exists s, lohg_to_strict VecBackend Nat.eqb c = Ok s /\
            eval B 0%Z apply_sig s inp = Ok (ref_eval (labs c) inp).
Proof.
  intros B OK c inp W L P H. apply andb_true_iff in H. destruct H as (H1 & H2).
  destruct (ref_eval (labs c) inp) as [out|] eqn:E.
  - rewrite <- E. apply term_eval_lax_agrees_prop; auto.
    + apply chk_single_writer_iff. exact H1.
    + apply (chk_arity_ok_iff (labs c) inp); [congruence|exact H2].
  - apply term_eval_lax_refusal; auto.
Qed.

(* the same with the deep well-formedness check of the harness *)
Corollary term_eval_lax_agrees_chk : forall B, BackendOK B -> forall (c : lohg nat nat) inp,
  chk_wf_lohg c && pending_free c && chk_single_writer (labs c) && chk_arity_ok (labs c) inp = true ->
  exists s, lohg_to_strict VecBackend Nat.eqb c = Ok s /\
            eval B 0%Z apply_sig s inp = Ok (ref_eval (labs c) inp).
Proof.
  intros B OK c inp H. apply andb_true_iff in H. destruct H as (H & H4).
  apply andb_true_iff in H. destruct H as (H & H3). apply andb_true_iff in H. destruct H as (H1 & H2).
  apply chk_wf_lohg_lwf in H1. destruct H1 as (W & L).
  apply term_eval_lax_agrees; auto. rewrite H3, H4. reflexivity.
Qed.

(* ================================================================== *)
(** * 6. the reverse-mode sweep is invariant under isomorphism *)
(* ================================================================== *)

(* the invariant of OracleGrad.v determines the answer of the sweep *)
Lemma ref_grad_PSem (g : pg) n m f J : PSem g n m f J ->
  forall x dy, length x = n -> length dy = m ->
  ref_grad g (map wrap x) dy = Some (map wrap (f x ++ tmulv n (J x) dy)).
Proof.
  intros S x dy Hx Hdy.
  destruct (ps_sem S x dy Hx Hdy) as (fw & bw & CF & CB & V1 & V2 & V3 & V4).
  rewrite <- V1, map_app, <- V2, <- V4. apply ref_grad_sound; [exact (ps_good S)|exact CF|exact CB|exact V3].
Qed.

(* ... and is closed under isomorphism (PSem_iso: the solutions fw, bw are transported along it) *)
Theorem ref_grad_iso (g g' : pg) n m f J : pwf g' -> Iso g g' -> PSem g n m f J ->
  forall x dy, length x = n -> length dy = m -> ref_grad g' (map wrap x) dy = ref_grad g (map wrap x) dy.
Proof.
  intros W' HI S x dy Hx Hdy.
  rewrite (ref_grad_PSem S x dy Hx Hdy), (ref_grad_PSem (PSem_iso W' HI S) x dy Hx Hdy). reflexivity.
Qed.

(* every monogamous acyclic circuit of the polynomial theory satisfies the invariant: the sweep gives
   the same answer on every diagram isomorphic to (the plain form of) such a circuit *)
Theorem ref_grad_iso_circuit (s : ohg nat nat) (g' : pg) : poly_circuit s ->
  ohg_is_monogamous s = Ok true -> ohg_is_acyclic VecBackend s = Ok true -> pwf g' -> Iso (abs s) g' ->
  forall x dy, length x = length (p_ins g') -> length dy = length (p_outs g') -> Forall in64 x ->
  ref_grad g' x dy = ref_grad (abs s) x dy.
Proof.
  intros Ps Hm Ha W' HI x dy Hx Hdy Fx.
  destruct (C14_every_circuit_denotable Ps Hm Ha) as (n & m & f & J & Hd).
  pose proof (denotes_PSem Hd) as S. pose proof (PSem_iso W' HI S) as S'.
  rewrite (ps_li S') in Hx. rewrite (ps_lo S') in Hdy.
  rewrite <- (map_wrap_in64 Fx). exact (ref_grad_iso W' HI S x dy Hx Hdy).
Qed.

(* ================================================================== *)
(** * 7. the ["term_eval"] branch, optic clause *)
(* ================================================================== *)

(* evaluating the lax form of a well-formed strict diagram is evaluating the diagram *)
Lemma poly_run_from_strict (d : ohg nat nat) inp : wf_ohg d ->
  exists D, lohg_from_strict d = Ok D /\ poly_run D inp = eval VecBackend 0%Z apply_sig d inp.
Proof.
  intros Wd. pose proof (C10_vec_round_strict Nat.eqb Nat.eqb_eq Wd) as R.
  destruct (lohg_from_strict d) as [D| |]; cbn [bind] in R; try discriminate R.
  exists D. split; [reflexivity|]. unfold poly_run. rewrite R. reflexivity.
Qed.

Theorem term_eval_optic_agrees : forall (c : lohg nat nat) s,
  lwf c -> ladj_ok c -> pending_free c = true ->
  lohg_to_strict VecBackend Nat.eqb c = Ok s ->
  poly_circuit s -> ohg_is_monogamous s = Ok true -> ohg_is_acyclic VecBackend s = Ok true ->
  exists D, poly_adapted c = Ok D /\
    forall x dy, length x = length (lo_sources c) -> length dy = length (lo_targets c) ->
      Forall in64 x -> Forall in64 dy ->
      poly_run D (x ++ dy) = Ok (ref_grad (labs c) x dy).
Proof.
  intros c s W L P Hs Ps Hm Ha.
  destruct (strictify_iso W L P) as (s' & Hs' & Ws & HI). rewrite Hs in Hs'. inversion Hs'; subst s'.
  pose proof (lwf_pwf W) as Wc. pose proof (Iso_sym Wc HI) as HI'.
  destruct (C14_every_circuit_denotable Ps Hm Ha) as (n & m & f & J & Hd).
  destruct (C14_derivative_all_closed Hd) as (d & Had & Wd & Hev).
  pose proof (denotes_PSem Hd) as S. pose proof (PSem_iso Wc HI' S) as Sc.
  destruct (poly_run_from_strict (@nil Z) Wd) as (D & HD & _).
  exists D. split.
  - rewrite (poly_adapted_via_strict c Hs), Had. cbn [bind]. exact HD.
  - intros x dy Hx Hdy Fx Fdy.
    change (lo_sources c) with (p_ins (labs c)) in Hx. change (lo_targets c) with (p_outs (labs c)) in Hdy.
    rewrite (ps_li Sc) in Hx. rewrite (ps_lo Sc) in Hdy.
    destruct (poly_run_from_strict (x ++ dy) Wd) as (D' & HD' & Hrun). rewrite HD in HD'. inversion HD'; subst D'.
    rewrite Hrun, (Hev x dy Hx Hdy Fx Fdy). f_equal.
    pose proof (ref_grad_PSem Sc x dy Hx Hdy) as E. rewrite (map_wrap_in64 Fx) in E. symmetry. exact E.
Qed.

(* the value, explicitly: (f x, J(x)^T dy) modulo 2^64 for the function and Jacobian denoted by the circuit *)
Corollary term_eval_optic_value : forall (c : lohg nat nat) s n m f J,
  lwf c -> ladj_ok c -> pending_free c = true ->
  lohg_to_strict VecBackend Nat.eqb c = Ok s -> denotes s n m f J ->
  forall x dy, length x = n -> length dy = m -> Forall in64 x ->
    ref_grad (labs c) x dy = Some (map wrap (f x ++ tmulv n (J x) dy)).
Proof.
  intros c s n m f J W L P Hs Hd x dy Hx Hdy Fx.
  destruct (strictify_iso W L P) as (s' & Hs' & Ws & HI). rewrite Hs in Hs'. inversion Hs'; subst s'.
  pose proof (lwf_pwf W) as Wc. pose proof (Iso_sym Wc HI) as HI'.
  pose proof (PSem_iso Wc HI' (denotes_PSem Hd)) as Sc.
  pose proof (ref_grad_PSem Sc x dy Hx Hdy) as E. rewrite (map_wrap_in64 Fx) in E. exact E.
Qed.

(* the two clauses on the very expressions of the "term_eval" entry of Run/Dispatch.v (value VL c) *)
Corollary term_eval_lax_dispatch : forall B, BackendOK B -> forall (c : lohg nat nat) inp,
  lwf c -> ladj_ok c -> pending_free c = true ->
  chk_single_writer (labs c) && chk_arity_ok (labs c) inp = true ->
  (s <- lohg_to_strict VB Nat.eqb c ;; eval B 0%Z apply_sig s inp) = Ok (ref_eval (labs c) inp).
Proof.
  intros B OK c inp W L P H. destruct (term_eval_lax_agrees OK inp W L P H) as (s & Hs & Hev).
  unfold VB. rewrite Hs. cbn [bind]. exact Hev.
Qed.

Corollary term_eval_optic_dispatch : forall (c : lohg nat nat) s,
  lwf c -> ladj_ok c -> pending_free c = true ->
  lohg_to_strict VecBackend Nat.eqb c = Ok s ->
  poly_circuit s -> ohg_is_monogamous s = Ok true -> ohg_is_acyclic VecBackend s = Ok true ->
  forall x dy, length x = length (lo_sources c) -> length dy = length (lo_targets c) ->
    Forall in64 x -> Forall in64 dy ->
    (D <- loptic_map_adapted VB Nat.eqb Nat.eqb poly_optic c ;;
     s' <- lohg_to_strict VB Nat.eqb D ;; eval VecBackend 0%Z apply_sig s' (x ++ dy))
    = Ok (ref_grad (labs c) x dy).
Proof.
  intros c s W L P Hs Ps Hm Ha x dy Hx Hdy Fx Fdy.
  destruct (term_eval_optic_agrees W L P Hs Ps Hm Ha) as (D & HD & Hrun).
  unfold poly_adapted in HD. unfold VB. rewrite HD. cbn [bind]. exact (Hrun x dy Hx Hdy Fx Fdy).
Qed.

(* ================================================================== *)
(** * 8. examples *)
(* ================================================================== *)

(* (x, y) |-> - ((x + y) * y) as a lax literal: inputs x = node 4, y = node 2, output node 6; four
   hyperedges listed against the data flow (mul, neg, copy, add), nodes numbered at random *)
Definition ex_c : lohg nat nat :=
  mkLOHG [4; 2] [6]
    (mkLHG [0; 0; 0; 0; 0; 0; 0] [1; 2; 3; 0]
           [([1; 0], [3]); ([3], [6]); ([2], [5; 0]); ([4; 5], [1])] ([], [])).

(* its strictification *)
Definition ex_s : ohg nat nat :=
  mkOHG (mkFF [4; 2] 7) (mkFF [6] 7)
    (mkHG (mkIC (mkFF [2; 1; 1; 2] 7) (mkFF [1; 0; 3; 2; 4; 5] 7))
          (mkIC (mkFF [1; 1; 2; 1] 6) (mkFF [3; 6; 5; 0; 1] 7))
          [0; 0; 0; 0; 0; 0; 0] [1; 2; 3; 0]).

(* a cycle through three hyperedges: neg [4] -> [1]; copy [1] -> [2; 0]; add [3; 2] -> [4] *)
Definition ex_cyc : lohg nat nat :=
  mkLOHG [3] [0]
    (mkLHG [0; 0; 0; 0; 0] [2; 3; 0]
           [([4], [1]); ([1], [2; 0]); ([3; 2], [4])] ([], [])).

Example ex_c_wf : lwf ex_c /\ ladj_ok ex_c /\ pending_free ex_c = true /\
  p_sw (labs ex_c) /\ p_arity interp (labs ex_c) /\
  lohg_to_strict VecBackend Nat.eqb ex_c = Ok ex_s.
Proof.
  assert (H : lwf ex_c /\ ladj_ok ex_c) by (apply chk_wf_lohg_lwf; vm_compute; reflexivity).
  destruct H as (W & L). split; [exact W|]. split; [exact L|]. split; [reflexivity|].
  split; [apply chk_single_writer_iff; vm_compute; reflexivity|].
  split; [|vm_compute; reflexivity].
  apply (chk_arity_ok_iff (labs ex_c) []); vm_compute; [discriminate|reflexivity].
Qed.

(* 1. ref_eval_iso: the literal and (the plain form of) its strictification *)
Example ref_eval_iso_ex : forall inp, ref_eval (labs ex_c) inp = ref_eval (abs ex_s) inp.
Proof.
  intros inp. destruct ex_c_wf as (W & L & P & SW & AR & Hs).
  destruct (strictify_iso W L P) as (s & Hs' & Ws & HI). rewrite Hs in Hs'. inversion Hs'; subst s.
  exact (ref_eval_iso inp (lwf_pwf W) (wf_abs_pwf Ws) HI SW AR).
Qed.

(* 2. term_eval_lax_agrees: every conforming back-end returns -((3 + 4) * 4) modulo 2^64; the reference
   interpreter fires the hyperedges in the order copy, add, mul, neg *)
Example term_eval_lax_agrees_ex : forall B, BackendOK B ->
  eval B 0%Z apply_sig ex_s [3; 4]%Z = Ok (Some [18446744073709551588%Z]) /\
  option_map snd (ref_eval_mem (labs ex_c) [3; 4]%Z) = Some [2; 3; 0; 1].
Proof.
  intros B OK. split; [|vm_compute; reflexivity].
  destruct ex_c_wf as (W & L & P & _ & _ & Hs).
  destruct (@term_eval_lax_agrees B OK ex_c [3; 4]%Z W L P) as (s & Hs' & Hev); [vm_compute; reflexivity|].
  rewrite Hs in Hs'. inversion Hs'; subst s. rewrite Hev. vm_compute. reflexivity.
Qed.

Example term_eval_lax_agrees_chk_ex :
  chk_wf_lohg ex_c && pending_free ex_c && chk_single_writer (labs ex_c) && chk_arity_ok (labs ex_c) [3; 4]%Z = true.
Proof. vm_compute. reflexivity. Qed.

(* 3. term_eval_lax_refusal: the cyclic literal is refused by every conforming back-end *)
Example term_eval_lax_refusal_ex : forall B, BackendOK B ->
  exists s, lohg_to_strict VecBackend Nat.eqb ex_cyc = Ok s /\ eval B 0%Z apply_sig s [3%Z] = Ok None.
Proof.
  intros B OK.
  assert (H : lwf ex_cyc /\ ladj_ok ex_cyc) by (apply chk_wf_lohg_lwf; vm_compute; reflexivity).
  destruct H as (W & L). apply term_eval_lax_refusal; auto; vm_compute; reflexivity.
Qed.

(* 4. term_eval_optic_agrees: the strictification is a monogamous acyclic circuit of the theory; at
   (x, y) = (3, 4), dy = 1: value -28, gradient (-y, -(x + 2y)) = (-4, -11) modulo 2^64 *)
Example ex_s_circuit : poly_circuit ex_s /\ ohg_is_monogamous ex_s = Ok true /\
  ohg_is_acyclic VecBackend ex_s = Ok true.
Proof.
  split; [|split; vm_compute; reflexivity].
  split; [repeat split; try reflexivity; repeat constructor|]. split; repeat constructor.
Qed.

Example term_eval_optic_agrees_ex :
  exists D, poly_adapted ex_c = Ok D /\
    (forall x dy, length x = 2 -> length dy = 1 -> Forall in64 x -> Forall in64 dy ->
       poly_run D (x ++ dy) = Ok (ref_grad (labs ex_c) x dy)) /\
    poly_run D ([3; 4]%Z ++ [1%Z])
    = Ok (Some [18446744073709551588; 18446744073709551612; 18446744073709551605]%Z).
Proof.
  destruct ex_c_wf as (W & L & P & _ & _ & Hs). destruct ex_s_circuit as (Ps & Hm & Ha).
  destruct (term_eval_optic_agrees W L P Hs Ps Hm Ha) as (D & HD & Hrun).
  exists D. split; [exact HD|]. split; [exact Hrun|].
  rewrite Hrun; [vm_compute; reflexivity|reflexivity|reflexivity| |];
    repeat constructor; try discriminate.
Qed.

(* 5. ref_grad_iso_circuit at the same pair of diagrams *)
Example ref_grad_iso_ex : forall x dy, length x = 2 -> length dy = 1 -> Forall in64 x ->
  ref_grad (labs ex_c) x dy = ref_grad (abs ex_s) x dy.
Proof.
  intros x dy Hx Hdy Fx. destruct ex_c_wf as (W & L & P & _ & _ & Hs). destruct ex_s_circuit as (Ps & Hm & Ha).
  destruct (strictify_iso W L P) as (s & Hs' & Ws & HI). rewrite Hs in Hs'. inversion Hs'; subst s.
  apply (ref_grad_iso_circuit Ps Hm Ha (lwf_pwf W) (Iso_sym (lwf_pwf W) HI)); assumption.
Qed.

Print Assumptions ref_eval_iso.
Print Assumptions ref_eval_iso_refusal.
Print Assumptions ref_eval_iso_needs_sw.
Print Assumptions term_eval_lax_agrees_prop.
Print Assumptions term_eval_lax_agrees.
Print Assumptions term_eval_lax_agrees_chk.
Print Assumptions term_eval_lax_refusal.
Print Assumptions ref_grad_iso.
Print Assumptions ref_grad_iso_circuit.
Print Assumptions term_eval_optic_agrees.
Print Assumptions term_eval_optic_value.
Print Assumptions term_eval_lax_dispatch.
Print Assumptions term_eval_optic_dispatch.
Print Assumptions ref_eval_iso_ex.
Print Assumptions term_eval_lax_agrees_ex.
Print Assumptions term_eval_lax_refusal_ex.
Print Assumptions term_eval_optic_agrees_ex.
Print Assumptions ref_grad_iso_ex.
