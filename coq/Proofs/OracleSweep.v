(* The reference interpreter [ref_eval_mem] and the reverse-mode sweep [ref_grad] of Run/SpecCheck.v,
   verified on the plain model.

   For a well-formed monogamous ranked (acyclic) diagram g of the polynomial theory and ANY pair of
   labellings (fw, bw) of its nodes such that
     - fw carries the input vector on the input interface and every hyperedge computes its targets
       from its sources ([fwd_ok], the forward consistency equations),
     - bw carries wrap dy on the output interface and for every hyperedge the adjoints of its sources
       are the transposed local Jacobian applied to the adjoints of its targets ([bwd_ok], the reverse
       consistency equations; exact for monogamous diagrams, where every node has one reader),
   the sweep returns  map fw outs ++ map bw ins  ([ref_grad_sound]).  In particular the equations have
   at most one solution on the interfaces.  The proof follows the interpreter: the firing order is a
   topological order of the hyperedges, the memory agrees with fw on everything written so far, and
   going through the firing order backwards the adjoint vector agrees with bw on the outputs and on the
   sources of the hyperedges already swept, and is 0 on the sources of the others. *)
From OHG Require Import Spec.Plain Proofs.PrimsThm Proofs.C07aThm Proofs.C16Lemmas Proofs.EvalPlain Proofs.EvalFunctor Proofs.C14Thm
  Run.Dispatch Run.SpecCheck.
From Coq Require Import List Arith Lia Bool Permutation ZArith.
Import ListNotations.
Open Scope list_scope. Open Scope nat_scope.

Set Implicit Arguments.
Arguments Nat.sub : simpl never.

Notation pg := (pohg nat nat).

(* ================================================================== *)
(** * 1. list facts *)
(* ================================================================== *)

Lemma existsb_eqb_In (i : nat) (l : list nat) : existsb (Nat.eqb i) l = true <-> In i l.
Proof.
  rewrite existsb_exists. split.
  - intros (x & Hx & E). apply Nat.eqb_eq in E. subst x. exact Hx.
  - intros H. exists i. split; [exact H|apply Nat.eqb_refl].
Qed.

Lemma In_combine_seq {X} (l : list X) : forall a i e,
  In (i, e) (combine (seq a (length l)) l) <-> (a <= i /\ nth_error l (i - a) = Some e).
Proof.
  induction l as [|x l IH]; intros a i e; cbn [length seq combine In].
  - split; [tauto|]. intros (_ & H). destruct (i - a); discriminate.
  - rewrite IH. split.
    + intros [H|(Hle & H)].
      * inversion H; subst. split; [lia|]. replace (i - i) with 0 by lia. reflexivity.
      * split; [lia|]. replace (i - a) with (S (i - S a)) by lia. exact H.
    + intros (Hle & H). destruct (Nat.eq_dec i a) as [->|Hne].
      * left. replace (a - a) with 0 in H by lia. cbn in H. inversion H. reflexivity.
      * right. split; [lia|]. replace (i - a) with (S (i - S a)) in H by lia. exact H.
Qed.

Lemma NoDup_concat_unique {X} (L : list (list X)) : NoDup (concat L) ->
  forall i j a b v, nth_error L i = Some a -> nth_error L j = Some b -> In v a -> In v b -> i = j.
Proof.
  induction L as [|c L IH]; intros ND i j a b v Hi Hj Ha Hb.
  - destruct i; discriminate.
  - cbn [concat] in ND. apply NoDup_app_iff in ND. destruct ND as (_ & ND & Hd).
    assert (Hin : forall k z, nth_error L k = Some z -> In v z -> In v (concat L)).
    { intros k z Hk Hz. apply in_concat. exists z. split; [eapply nth_error_In; eauto|exact Hz]. }
    destruct i as [|i], j as [|j]; cbn [nth_error] in Hi, Hj.
    + reflexivity.
    + inversion Hi; subst. exfalso. apply (Hd v Ha). eapply Hin; eauto.
    + inversion Hj; subst. exfalso. apply (Hd v Hb). eapply Hin; eauto.
    + f_equal. eapply IH; eauto.
Qed.

Lemma NoDup_concat_each {X} (L : list (list X)) : NoDup (concat L) -> forall a, In a L -> NoDup a.
Proof.
  induction L as [|c L IH]; intros ND a Ha; [destruct Ha|].
  cbn [concat] in ND. apply NoDup_app_iff in ND. destruct ND as (N1 & N2 & _).
  destruct Ha as [->|Ha]; [exact N1|apply IH; assumption].
Qed.

(* either every index below n is listed, or one can be found that is not *)
Lemma all_or_missing (l : list nat) : forall n, (forall i, i < n -> In i l) \/ (exists i, i < n /\ ~ In i l).
Proof.
  induction n as [|n IH].
  - left. intros i Hi. lia.
  - destruct IH as [IH|(i & Hi & Hn)].
    + destruct (in_dec Nat.eq_dec n l) as [Hin|Hnin].
      * left. intros i Hi. destruct (Nat.eq_dec i n) as [->|]; [exact Hin|apply IH; lia].
      * right. exists n. split; [lia|exact Hnin].
    + right. exists i. split; [lia|exact Hn].
Qed.

Lemma bounded_nodup_length (l : list nat) n : NoDup l -> (forall i, In i l -> i < n) -> length l <= n.
Proof.
  intros ND Hb. rewrite <- (seq_length n 0). apply NoDup_incl_length; [exact ND|].
  intros i Hi. apply in_seq. specialize (Hb i Hi). lia.
Qed.

Lemma full_of_length (l : list nat) n : NoDup l -> (forall i, In i l -> i < n) -> length l = n ->
  forall i, i < n -> In i l.
Proof.
  intros ND Hb Hl i Hi.
  assert (Hincl : incl (seq 0 n) l).
  { apply NoDup_length_incl; [exact ND|rewrite seq_length; lia|].
    intros j Hj. apply in_seq. specialize (Hb j Hj). lia. }
  apply Hincl. apply in_seq. lia.
Qed.

Lemma forallb_false_witness {X} (p : X -> bool) (l : list X) :
  forallb p l = false -> exists x, In x l /\ p x = false.
Proof.
  induction l as [|a l IH]; cbn [forallb]; intros H; [discriminate|].
  destruct (p a) eqn:Ea.
  - destruct (IH H) as (x & Hx & Px). exists x. split; [right; exact Hx|exact Px].
  - exists a. split; [left; reflexivity|exact Ea].
Qed.

(* ================================================================== *)
(** * 2. the memory and the adjoint vector *)
(* ================================================================== *)

Lemma zget_set_nth mem v u z : v < length mem ->
  zget (set_nth mem v (Some z)) u = if u =? v then z else zget mem u.
Proof.
  intros Hv. unfold zget. destruct (Nat.eqb_spec u v) as [->|Hne].
  - rewrite C07aThm.nth_error_set_nth_eq by exact Hv. reflexivity.
  - rewrite C07aThm.nth_error_set_nth_neq by auto. reflexivity.
Qed.

Lemma write_all_length : forall ps mem, length (write_all mem ps) = length mem.
Proof.
  induction ps as [|(v, z) ps IH]; intros mem; cbn [write_all]; [reflexivity|].
  rewrite IH. apply set_nth_length.
Qed.

(* writing the values of a labelling f at the positions l *)
Lemma zget_write_all_map (f : nat -> Z) : forall l mem u, all_lt (length mem) l ->
  zget (write_all mem (combine l (map f l))) u = if in_dec Nat.eq_dec u l then f u else zget mem u.
Proof.
  induction l as [|v l IH]; intros mem u Hl; cbn [map combine write_all]; [reflexivity|].
  inversion Hl as [|? ? Hv Hl']; subst.
  rewrite IH by (unfold all_lt; rewrite set_nth_length; exact Hl').
  destruct (in_dec Nat.eq_dec u l) as [Hin|Hnin].
  - destruct (in_dec Nat.eq_dec u (v :: l)) as [_|Hn]; [reflexivity|]. exfalso. apply Hn. right. exact Hin.
  - rewrite zget_set_nth by exact Hv. destruct (Nat.eqb_spec u v) as [->|Hne].
    + destruct (in_dec Nat.eq_dec v (v :: l)) as [_|Hn]; [reflexivity|]. exfalso. apply Hn. left. reflexivity.
    + destruct (in_dec Nat.eq_dec u (v :: l)) as [[E|Hin]|_]; [congruence|contradiction|reflexivity].
Qed.

Lemma zadd_at_length a v z : length (zadd_at a v z) = length a.
Proof. apply set_nth_length. Qed.

Lemma zadd_at_same a v z : v < length a -> nth v (zadd_at a v z) 0%Z = wrap (nth v a 0%Z + z).
Proof. intros Hv. unfold zadd_at. rewrite nth_set_nth by exact Hv. rewrite Nat.eqb_refl. reflexivity. Qed.

Lemma zadd_at_other a v u z : u <> v -> nth u (zadd_at a v z) 0%Z = nth u a 0%Z.
Proof.
  intros Hne. unfold zadd_at. destruct (Nat.lt_ge_cases v (length a)) as [Hv|Hv].
  - rewrite nth_set_nth by exact Hv. destruct (Nat.eqb_spec u v); [contradiction|reflexivity].
  - f_equal. clear Hne. revert v Hv. induction a as [|x a IH]; intros v Hv; [reflexivity|].
    destruct v; cbn [length] in Hv; [lia|]. cbn [set_nth]. f_equal. apply IH. lia.
Qed.

(* the initial adjoint vector: the output adjoints, 0 elsewhere *)
Lemma seed_spec : forall (l : list nat) (dy : list Z) (a : list Z),
  NoDup l -> all_lt (length a) l -> length dy = length l ->
  let r := fold_left (fun a p => zadd_at a (fst p) (snd p)) (combine l dy) a in
  length r = length a /\
  (forall k, k < length l -> nth (nth k l 0) r 0%Z = wrap (nth (nth k l 0) a 0%Z + nth k dy 0%Z)) /\
  (forall v, ~ In v l -> nth v r 0%Z = nth v a 0%Z).
Proof.
  induction l as [|v l IH]; intros dy a ND Hl Hd; cbn zeta.
  - cbn. split; [reflexivity|]. split; [intros k Hk; lia|reflexivity].
  - destruct dy as [|z dy]; [discriminate|]. cbn [combine fold_left fst snd].
    inversion ND as [|? ? Hnin ND']; subst. inversion Hl as [|? ? Hv Hl']; subst.
    cbn [length] in Hd.
    destruct (IH dy (zadd_at a v z) ND') as (L & Hk & Ho).
    { unfold all_lt. rewrite zadd_at_length. exact Hl'. }
    { lia. }
    split; [rewrite L; apply zadd_at_length|]. split.
    + intros [|k] Hlt; cbn [nth].
      * rewrite Ho by exact Hnin. apply zadd_at_same. exact Hv.
      * cbn [length] in Hlt. rewrite Hk by lia. rewrite zadd_at_other; [reflexivity|].
        intros E. apply Hnin. rewrite <- E. apply nth_In. lia.
    + intros u Hu. rewrite Ho by (intros H; apply Hu; right; exact H).
      apply zadd_at_other. intros E. apply Hu. left. auto.
Qed.

(* ================================================================== *)
(** * 3. the diagrams in scope and the two systems of equations *)
(* ================================================================== *)

(* well-formed, every node written once and read once, ranked, arities of the polynomial signature *)
Definition good_pg (g : pg) : Prop :=
  pwf g /\ p_mono g /\ p_ranked g /\
  forall e, In e (p_edges g) -> poly_arity (pe_lbl e) = Some (length (pe_src e), length (pe_tgt e)).

Definition fwd_ok (g : pg) (fw : nat -> Z) : Prop :=
  forall e, In e (p_edges g) -> map fw (pe_tgt e) = interp (pe_lbl e) (map fw (pe_src e)).

(* the adjoints of the sources of an l-labelled hyperedge, from its source values xs and target adjoints dz
   (the transposed Jacobian of the generator applied to dz, modulo 2^64) *)
Definition rev_loc (l : nat) (xs dz : list Z) : list Z :=
  match l with
  | 0 => [wrap (nth 0 dz 0%Z); wrap (nth 0 dz 0%Z)]
  | 1 => [wrap (nth 1 xs 0%Z * nth 0 dz 0%Z); wrap (nth 0 xs 0%Z * nth 0 dz 0%Z)]
  | 2 => [wrap (- nth 0 dz 0%Z)]
  | 3 => [wrap (nth 0 dz 0%Z + nth 1 dz 0%Z)]
  | 4 => [0%Z]
  | _ => []
  end.

Definition bwd_ok (g : pg) (fw bw : nat -> Z) : Prop :=
  forall e, In e (p_edges g) -> map bw (pe_src e) = rev_loc (pe_lbl e) (map fw (pe_src e)) (map bw (pe_tgt e)).

(* ================================================================== *)
(** * 4. the forward interpreter *)
(* ================================================================== *)

Section Forward.
  Variable g : pg.
  Hypothesis G : good_pg g.
  Variable fw : nat -> Z.
  Hypothesis FW : fwd_ok g fw.

  Local Notation N := (length (p_nodes g)).
  Local Notation E := (p_edges g).
  Local Notation es := (combine (seq 0 (length (p_edges g))) (p_edges g)).

  Let W : pwf g := proj1 G.
  Let M : p_mono g := proj1 (proj2 G).

  Lemma In_es i e : In (i, e) es <-> nth_error E i = Some e.
  Proof. rewrite In_combine_seq. rewrite Nat.sub_0_r. split; [tauto|]. intros H. split; [lia|exact H]. Qed.

  Lemma In_dep_preds j e : In j (dep_preds es e) <->
    exists ej v, nth_error E j = Some ej /\ In v (pe_tgt ej) /\ In v (pe_src e).
  Proof.
    unfold dep_preds. rewrite in_map_iff. split.
    - intros ((j', ej) & Ej & Hin). cbn [fst] in Ej. subst j'. apply filter_In in Hin.
      destruct Hin as (Hin & Hb). cbn [snd] in Hb. apply In_es in Hin.
      apply existsb_exists in Hb. destruct Hb as (v & Hv & Hb). apply existsb_eqb_In in Hb.
      exists ej, v. auto.
    - intros (ej & v & Hj & Hv & Hs). exists (j, ej). split; [reflexivity|]. apply filter_In.
      split; [apply In_es; exact Hj|]. cbn [snd]. apply existsb_exists. exists v. split; [exact Hv|].
      apply existsb_eqb_In. exact Hs.
  Qed.

  Definition ready (fired : list nat) (e : pedge nat) : Prop := forall j, In j (dep_preds es e) -> In j fired.

  Lemma ready_spec fired e :
    forallb (fun j => existsb (Nat.eqb j) fired) (dep_preds es e) = true <-> ready fired e.
  Proof.
    rewrite forallb_forall. unfold ready. split; intros H j Hj; specialize (H j Hj); apply existsb_eqb_In; exact H.
  Qed.

  (* the firing order is topological: whoever writes a source of j was fired before j *)
  Definition topo (fired : list nat) : Prop :=
    forall l1 j l2, fired = l1 ++ j :: l2 -> forall ej, nth_error E j = Some ej ->
      forall i, In i (dep_preds es ej) -> In i l1.

  Lemma topo_snoc fired i : topo fired -> (forall ei, nth_error E i = Some ei -> ready fired ei) ->
    topo (fired ++ [i]).
  Proof.
    intros T R l1 j l2 Eq ej Hj k Hk.
    destruct (exists_last (l := j :: l2)) as (l2' & z & El); [discriminate|].
    destruct l2' as [|j' l2'].
    - cbn in El. inversion El; subst z l2. apply app_inj_tail in Eq. destruct Eq as (-> & ->).
      exact (R ej Hj k Hk).
    - cbn [app] in El. inversion El as [[Ej El2]]. subst j'. rewrite El2 in Eq.
      change (l1 ++ j :: l2' ++ [z]) with (l1 ++ (j :: l2') ++ [z]) in Eq. rewrite app_assoc in Eq.
      apply app_inj_tail in Eq. destruct Eq as (Eq & _). exact (T l1 j l2' Eq ej Hj k Hk).
  Qed.

  (* what is known of (mem, fired) at every point of the evaluation *)
  Record finv (mem : list (option Z)) (fired : list nat) : Prop := {
    fi_len : length mem = N;
    fi_nd : NoDup fired;
    fi_lt : forall i, In i fired -> i < length E;
    fi_topo : topo fired;
    fi_ins : forall v, In v (p_ins g) -> zget mem v = fw v;
    fi_tgt : forall i ei v, In i fired -> nth_error E i = Some ei -> In v (pe_tgt ei) -> zget mem v = fw v
  }.

  Lemma src_written mem fired e v : finv mem fired -> In e E -> ready fired e -> In v (pe_src e) ->
    zget mem v = fw v.
  Proof.
    intros I He R Hv.
    assert (Hlt : v < N) by (eapply all_lt_in; [apply (pwf_src e W He)|exact Hv]).
    destruct M as ((_ & Hc) & _). apply Hc in Hlt. apply in_app_or in Hlt. destruct Hlt as [Hi|Ht].
    - apply (fi_ins I). exact Hi.
    - apply In_p_tgts in Ht. destruct Ht as (ej & Hej & Hvt). apply In_nth_error in Hej.
      destruct Hej as (j & Hj). apply (@fi_tgt _ _ I j ej v); auto.
      apply R. apply In_dep_preds. exists ej, v. auto.
  Qed.

  Lemma fire_step mem fired i e : finv mem fired -> nth_error E i = Some e -> ~ In i fired -> ready fired e ->
    finv (write_all mem (combine (pe_tgt e) (interp (pe_lbl e) (map (zget mem) (pe_src e))))) (fired ++ [i]).
  Proof.
    intros I Hi Hn R. assert (He : In e E) by (eapply nth_error_In; eauto).
    assert (Es : map (zget mem) (pe_src e) = map fw (pe_src e)).
    { apply map_ext_in. intros v Hv. eapply src_written; eauto. }
    rewrite Es, <- (FW e He).
    assert (Ht : all_lt (length mem) (pe_tgt e)) by (rewrite (fi_len I); apply (pwf_tgt e W He)).
    constructor.
    - rewrite write_all_length. exact (fi_len I).
    - apply NoDup_app_iff. split; [exact (fi_nd I)|]. split; [repeat constructor; intros []|].
      intros x Hx [<-|[]]. contradiction.
    - intros x Hx. apply in_app_or in Hx. destruct Hx as [Hx|[<-|[]]]; [exact (fi_lt I _ Hx)|].
      apply nth_error_Some. congruence.
    - apply topo_snoc; [exact (fi_topo I)|]. intros ei Hei. assert (ei = e) by congruence. subst ei. exact R.
    - intros v Hv. rewrite zget_write_all_map by exact Ht.
      destruct (in_dec Nat.eq_dec v (pe_tgt e)); [reflexivity|apply (fi_ins I); exact Hv].
    - intros x ex v Hx Hex Hv. rewrite zget_write_all_map by exact Ht.
      destruct (in_dec Nat.eq_dec v (pe_tgt e)) as [_|Hnv]; [reflexivity|].
      apply in_app_or in Hx. destruct Hx as [Hx|[<-|[]]].
      + exact (@fi_tgt _ _ I x ex v Hx Hex Hv).
      + assert (ex = e) by congruence. subst ex. contradiction.
  Qed.

  (* one pass *)
  Lemma ref_pass_spec written : forall es' mem fired mem2 fired2,
    (forall i e, In (i, e) es' -> nth_error E i = Some e) -> finv mem fired ->
    ref_pass es es' written mem fired = (mem2, fired2) ->
    finv mem2 fired2 /\ (exists ext, fired2 = fired ++ ext) /\
    (forall i e, In (i, e) es' -> ready fired e -> In i fired2).
  Proof.
    induction es' as [|(i, e) es' IH]; intros mem fired mem2 fired2 Hes I Hr; cbn [ref_pass] in Hr.
    - inversion Hr; subst. split; [exact I|]. split; [exists []; symmetry; apply app_nil_r|intros i e []].
    - assert (Hes' : forall i e, In (i, e) es' -> nth_error E i = Some e) by (intros; apply Hes; right; assumption).
      assert (Hie : nth_error E i = Some e) by (apply Hes; left; reflexivity).
      destruct (existsb (Nat.eqb i) fired) eqn:Ef.
      + apply existsb_eqb_In in Ef.
        destruct (IH _ _ _ _ Hes' I Hr) as (I2 & (ext & Ex) & P). split; [exact I2|].
        split; [exists ext; exact Ex|]. intros i' e' [Eq|Hin] R'.
        * inversion Eq; subst. apply in_or_app. left. exact Ef.
        * eapply P; eauto.
      + assert (Hn : ~ In i fired).
        { intros H. apply existsb_eqb_In in H. congruence. }
        destruct (forallb (fun j => existsb (Nat.eqb j) fired) (dep_preds es e)) eqn:Er.
        * apply ready_spec in Er. pose proof (@fire_step mem fired i e I Hie Hn Er) as I1.
          destruct (IH _ _ _ _ Hes' I1 Hr) as (I2 & (ext & Ex) & P). split; [exact I2|].
          split; [exists ([i] ++ ext); rewrite Ex, app_assoc; reflexivity|].
          intros i' e' [Eq|Hin] R'.
          -- inversion Eq; subst i' e'. rewrite Ex. apply in_or_app. left. apply in_or_app. right. left. reflexivity.
          -- eapply P; eauto. intros j Hj. apply in_or_app. left. apply R'. exact Hj.
        * destruct (IH _ _ _ _ Hes' I Hr) as (I2 & (ext & Ex) & P). split; [exact I2|].
          split; [exists ext; exact Ex|]. intros i' e' [Eq|Hin] R'.
          -- inversion Eq; subst i' e'. apply ready_spec in R'. congruence.
          -- eapply P; eauto.
  Qed.

  (* while something is unfired, something unfired is ready *)
  Lemma ready_exists fired (lev : nat -> nat) :
    (forall x y ex ey v, nth_error E x = Some ex -> nth_error E y = Some ey ->
        In v (pe_tgt ex) -> In v (pe_src ey) -> lev x < lev y) ->
    forall k i e, lev i < k -> nth_error E i = Some e -> ~ In i fired ->
      exists j ej, nth_error E j = Some ej /\ ~ In j fired /\ ready fired ej.
  Proof.
    intros Hlev. induction k as [|k IH]; intros i e Hk Hi Hn; [lia|].
    destruct (forallb (fun j => existsb (Nat.eqb j) fired) (dep_preds es e)) eqn:Er.
    - apply ready_spec in Er. exists i, e. auto.
    - apply forallb_false_witness in Er. destruct Er as (j & Hj & Hf).
      assert (Hnj : ~ In j fired) by (intros H; apply existsb_eqb_In in H; congruence).
      apply In_dep_preds in Hj. destruct Hj as (ej & v & Hej & Hvt & Hvs).
      apply (IH j ej); auto. pose proof (Hlev j i ej e v Hej Hi Hvt Hvs). lia.
  Qed.

  Lemma pass_progress written mem fired mem2 fired2 : finv mem fired ->
    ref_pass es es written mem fired = (mem2, fired2) ->
    finv mem2 fired2 /\ (length fired < length E -> length fired < length fired2).
  Proof.
    intros I Hr.
    destruct (ref_pass_spec written es (fun i e H => proj1 (In_es i e) H) I Hr) as (I2 & (ext & Ex) & P).
    split; [exact I2|]. intros Hlt.
    destruct (all_or_missing fired (length E)) as [Hall|(i & Hi & Hn)].
    - exfalso. assert (length E <= length fired); [|lia].
      rewrite <- (seq_length (length E) 0). apply NoDup_incl_length; [apply seq_NoDup|].
      intros x Hx. apply in_seq in Hx. apply Hall. lia.
    - destruct (nth_error E i) as [e|] eqn:Hie; [|apply nth_error_None in Hie; lia].
      pose proof G as (_ & _ & (lev & Hlev) & _).
      destruct (@ready_exists fired lev Hlev (S (lev i)) i e) as (j & ej & Hj & Hnj & Rj); auto.
      assert (Hin : In j fired2) by (apply (P j ej); [apply In_es; exact Hj|exact Rj]).
      rewrite Ex in Hin |- *. rewrite app_length. apply in_app_or in Hin. destruct Hin as [Hin|Hin]; [contradiction|].
      destruct ext; [destruct Hin|cbn [length]; lia].
  Qed.

  Lemma ref_passes_spec written : forall fuel mem fired mem2 fired2, finv mem fired ->
    length E <= length fired + fuel ->
    ref_passes fuel es written mem fired = (mem2, fired2) ->
    finv mem2 fired2 /\ length fired2 = length E.
  Proof.
    induction fuel as [|fuel IH]; intros mem fired mem2 fired2 I Hf Hr; cbn [ref_passes] in Hr.
    - inversion Hr; subst. split; [exact I|].
      pose proof (bounded_nodup_length (fi_nd I) (fi_lt I)). lia.
    - destruct (ref_pass es es written mem fired) as [mem1 fired1] eqn:Hp.
      destruct (pass_progress written I Hp) as (I1 & Hprog).
      apply (IH _ _ _ _ I1); [|exact Hr].
      pose proof (bounded_nodup_length (fi_nd I) (fi_lt I)).
      destruct (Nat.lt_ge_cases (length fired) (length E)) as [Hlt|Hge]; [specialize (Hprog Hlt); lia|].
      pose proof (bounded_nodup_length (fi_nd I1) (fi_lt I1)).
      destruct (ref_pass_spec written es (fun i e H => proj1 (In_es i e) H) I Hp) as (_ & (ext & Ex) & _).
      rewrite Ex, app_length. lia.
  Qed.

  Lemma init_finv : finv (write_all (repeat None N) (combine (p_ins g) (map fw (p_ins g)))) [].
  Proof.
    assert (Hl : all_lt (length (repeat (@None Z) N)) (p_ins g)) by (rewrite repeat_length; apply (pwf_ins W)).
    constructor.
    - rewrite write_all_length. apply repeat_length.
    - constructor.
    - intros i [].
    - intros l1 j l2 Eq. destruct l1; discriminate.
    - intros v Hv. rewrite zget_write_all_map by exact Hl.
      destruct (in_dec Nat.eq_dec v (p_ins g)); [reflexivity|contradiction].
    - intros i ei v [].
  Qed.

  (* the evaluation succeeds; the final memory is fw on every node, the firing order is a topological
     enumeration of all hyperedges *)
  Theorem ref_eval_mem_spec : exists mem fired,
    ref_eval_mem g (map fw (p_ins g)) = Some (mem, fired) /\
    (forall v, v < N -> zget mem v = fw v) /\
    NoDup fired /\ (forall i, In i fired <-> i < length E) /\ topo fired.
  Proof.
    unfold ref_eval_mem.
    destruct (ref_passes (S (length es)) es (p_ins g ++ flat_map (@pe_tgt nat) E)
               (write_all (repeat None N) (combine (p_ins g) (map fw (p_ins g)))) []) as [mem fired] eqn:Hr.
    assert (Les : length es = length E) by (rewrite combine_length, seq_length; lia).
    assert (Hfuel : length E <= length (@nil nat) + S (length es)) by (rewrite Les; cbn [length]; lia).
    destruct (ref_passes_spec _ _ init_finv Hfuel Hr) as (I & Hlen).
    exists mem, fired. rewrite Les, Hlen, Nat.eqb_refl. split; [reflexivity|].
    assert (Hfull : forall i, i < length E -> In i fired) by (apply full_of_length; [exact (fi_nd I)|exact (fi_lt I)|exact Hlen]).
    split; [|split; [exact (fi_nd I)|split; [|exact (fi_topo I)]]].
    - intros v Hv. destruct M as ((_ & Hc) & _). apply Hc in Hv. apply in_app_or in Hv. destruct Hv as [Hv|Hv].
      + exact (fi_ins I _ Hv).
      + apply In_p_tgts in Hv. destruct Hv as (ej & Hej & Hvt). apply In_nth_error in Hej.
        destruct Hej as (j & Hj). apply (@fi_tgt _ _ I j ej v); auto.
        apply Hfull. apply nth_error_Some. congruence.
    - intros i. split; [apply (fi_lt I)|apply Hfull].
  Qed.
End Forward.

(* ================================================================== *)
(** * 5. one step of the reverse sweep *)
(* ================================================================== *)

Lemma rev_edge_spec mem a (e : pedge nat) :
  poly_arity (pe_lbl e) = Some (length (pe_src e), length (pe_tgt e)) ->
  NoDup (pe_src e) -> all_lt (length a) (pe_src e) -> (forall v, In v (pe_src e) -> nth v a 0%Z = 0%Z) ->
  length (rev_edge mem a e) = length a /\
  (forall v, ~ In v (pe_src e) -> nth v (rev_edge mem a e) 0%Z = nth v a 0%Z) /\
  map (fun v => nth v (rev_edge mem a e) 0%Z) (pe_src e) =
    rev_loc (pe_lbl e) (map (zget mem) (pe_src e)) (map (fun v => nth v a 0%Z) (pe_tgt e)).
Proof.
  destruct e as [l src tgt]. cbn [pe_lbl pe_src pe_tgt]. intros Ha ND Hl Hz.
  destruct l as [|[|[|[|[|l]]]]]; cbn [poly_arity] in Ha.
  - destruct src as [|s0 [|s1 [|? ?]]]; try discriminate Ha. destruct tgt as [|t0 [|? ?]]; try discriminate Ha.
    inversion Hl as [|? ? H0 Hl']; subst. inversion Hl' as [|? ? H1 _]; subst.
    inversion ND as [|? ? Hn _]; subst. assert (Hne : s0 <> s1) by (intros ->; apply Hn; left; reflexivity).
    unfold rev_edge. cbn [pe_lbl pe_src pe_tgt map nth rev_loc].
    split; [rewrite !zadd_at_length; reflexivity|]. split.
    + intros v Hv. rewrite !zadd_at_other; [reflexivity| |]; intros ->; apply Hv; cbn; auto.
    + rewrite (zadd_at_other _ _ Hne), !zadd_at_same, zadd_at_other; rewrite ?zadd_at_length; auto.
      rewrite (Hz s0), (Hz s1) by (cbn; auto). rewrite Z.add_0_l. reflexivity.
  - destruct src as [|s0 [|s1 [|? ?]]]; try discriminate Ha. destruct tgt as [|t0 [|? ?]]; try discriminate Ha.
    inversion Hl as [|? ? H0 Hl']; subst. inversion Hl' as [|? ? H1 _]; subst.
    inversion ND as [|? ? Hn _]; subst. assert (Hne : s0 <> s1) by (intros ->; apply Hn; left; reflexivity).
    unfold rev_edge. cbn [pe_lbl pe_src pe_tgt map nth rev_loc].
    split; [rewrite !zadd_at_length; reflexivity|]. split.
    + intros v Hv. rewrite !zadd_at_other; [reflexivity| |]; intros ->; apply Hv; cbn; auto.
    + rewrite (zadd_at_other _ _ Hne), !zadd_at_same, zadd_at_other; rewrite ?zadd_at_length; auto.
      rewrite (Hz s0), (Hz s1) by (cbn; auto). rewrite !Z.add_0_l. reflexivity.
  - destruct src as [|s0 [|? ?]]; try discriminate Ha. destruct tgt as [|t0 [|? ?]]; try discriminate Ha.
    inversion Hl as [|? ? H0 _]; subst.
    unfold rev_edge. cbn [pe_lbl pe_src pe_tgt map nth rev_loc].
    split; [rewrite !zadd_at_length; reflexivity|]. split.
    + intros v Hv. rewrite !zadd_at_other; [reflexivity|]; intros ->; apply Hv; cbn; auto.
    + rewrite zadd_at_same by exact H0. rewrite (Hz s0) by (cbn; auto). rewrite Z.add_0_l. reflexivity.
  - destruct src as [|s0 [|? ?]]; try discriminate Ha. destruct tgt as [|t0 [|t1 [|? ?]]]; try discriminate Ha.
    inversion Hl as [|? ? H0 _]; subst.
    unfold rev_edge. cbn [pe_lbl pe_src pe_tgt map nth rev_loc].
    split; [rewrite !zadd_at_length; reflexivity|]. split.
    + intros v Hv. rewrite !zadd_at_other; [reflexivity|]; intros ->; apply Hv; cbn; auto.
    + rewrite zadd_at_same by exact H0. rewrite (Hz s0) by (cbn; auto). rewrite Z.add_0_l. reflexivity.
  - destruct src as [|s0 [|? ?]]; try discriminate Ha. destruct tgt as [|? ?]; try discriminate Ha.
    unfold rev_edge. cbn [pe_lbl pe_src pe_tgt map nth rev_loc].
    split; [reflexivity|]. split; [reflexivity|]. rewrite (Hz s0) by (cbn; auto). reflexivity.
  - assert (src = []) as ->.
    { do 5 (destruct l as [|l]; [discriminate Ha|]). destruct src; [reflexivity|discriminate Ha]. }
    unfold rev_edge. cbn [pe_lbl pe_src pe_tgt map nth rev_loc].
    split; [reflexivity|]. split; reflexivity.
Qed.

Lemma NoDup_split_unique {X} (x : X) : forall a b a' b', NoDup (a ++ x :: b) ->
  a ++ x :: b = a' ++ x :: b' -> a = a' /\ b = b'.
Proof.
  induction a as [|y a IH]; intros b a' b' ND Eq.
  - destruct a' as [|z a']; cbn [app] in Eq.
    + injection Eq as E2. auto.
    + injection Eq as E1 E2. subst z. exfalso. cbn [app] in ND. inversion ND as [|? ? Hn _]; subst. apply Hn.
      apply in_or_app. right. left. reflexivity.
  - destruct a' as [|z a']; cbn [app] in Eq.
    + injection Eq as E1 E2. subst y. exfalso. cbn [app] in ND. inversion ND as [|? ? Hn _]; subst. apply Hn.
      apply in_or_app. right. left. reflexivity.
    + injection Eq as E1 E2. subst z. cbn [app] in ND. inversion ND as [|? ? _ ND']; subst.
      destruct (IH b a' b' ND' E2) as (-> & ->). auto.
Qed.

(* ================================================================== *)
(** * 6. the reverse sweep *)
(* ================================================================== *)

Section Reverse.
  Variable g : pg.
  Hypothesis G : good_pg g.
  Variables fw bw : nat -> Z.
  Hypothesis BW : bwd_ok g fw bw.
  Variable dy : list Z.
  Hypothesis DY : map bw (p_outs g) = map wrap dy.

  Local Notation N := (length (p_nodes g)).
  Local Notation E := (p_edges g).
  Local Notation es := (combine (seq 0 (length (p_edges g))) (p_edges g)).

  Let W : pwf g := proj1 G.
  Let M : p_mono g := proj1 (proj2 G).

  Lemma src_nodup e : In e E -> NoDup (pe_src e).
  Proof.
    intros He. destruct M as (_ & (ND & _)). apply NoDup_app_iff in ND. destruct ND as (ND & _).
    apply (NoDup_concat_each _ ND). apply in_map. exact He.
  Qed.

  Lemma src_unique i j ei ej v : nth_error E i = Some ei -> nth_error E j = Some ej ->
    In v (pe_src ei) -> In v (pe_src ej) -> i = j.
  Proof.
    intros Hi Hj Hvi Hvj. destruct M as (_ & (ND & _)). apply NoDup_app_iff in ND. destruct ND as (ND & _).
    apply (@NoDup_concat_unique _ _ ND i j (pe_src ei) (pe_src ej) v); auto;
      rewrite nth_error_map; [rewrite Hi|rewrite Hj]; reflexivity.
  Qed.

  Lemma In_p_srcs v : In v (p_srcs g) <-> exists e, In e E /\ In v (pe_src e).
  Proof.
    unfold p_srcs. rewrite in_concat. split.
    - intros (l & Hl & Hv). apply in_map_iff in Hl. destruct Hl as (e & <- & He). exists e. auto.
    - intros (e & He & Hv). exists (pe_src e). split; [apply in_map; exact He|exact Hv].
  Qed.

  Lemma src_not_out e v : In e E -> In v (pe_src e) -> ~ In v (p_outs g).
  Proof.
    intros He Hv Ho. destruct M as (_ & (ND & _)). apply NoDup_app_iff in ND. destruct ND as (_ & _ & Hd).
    apply (Hd v); [|exact Ho]. apply In_p_srcs. exists e. auto.
  Qed.

  Lemma read_cases v : v < N -> In v (p_outs g) \/ exists j ej, nth_error E j = Some ej /\ In v (pe_src ej).
  Proof.
    intros Hv. destruct M as (_ & (_ & Hc)). apply Hc in Hv. apply in_app_or in Hv. destruct Hv as [Hv|Hv]; [|auto].
    right. apply In_p_srcs in Hv. destruct Hv as (e & He & Hv). apply In_nth_error in He. destruct He as (j & Hj).
    exists j, e. auto.
  Qed.

  (* the adjoint vector after the hyperedges P have been swept *)
  Definition rinv (P : list nat) (a : list Z) : Prop :=
    length a = N /\
    (forall v, In v (p_outs g) -> nth v a 0%Z = bw v) /\
    (forall j ej v, nth_error E j = Some ej -> In v (pe_src ej) ->
       nth v a 0%Z = if in_dec Nat.eq_dec j P then bw v else 0%Z).

  Lemma outs_nodup : NoDup (p_outs g).
  Proof. destruct M as (_ & (ND & _)). apply NoDup_app_iff in ND. tauto. Qed.

  Lemma DY_len : length dy = length (p_outs g).
  Proof. apply (f_equal (@length Z)) in DY. rewrite !map_length in DY. auto. Qed.

  Lemma rinv_init :
    rinv [] (fold_left (fun a p => zadd_at a (fst p) (snd p)) (combine (p_outs g) dy) (repeat 0%Z N)).
  Proof.
    destruct (@seed_spec (p_outs g) dy (repeat 0%Z N) outs_nodup) as (L & Hk & Ho).
    { rewrite repeat_length. apply (pwf_outs W). }
    { exact DY_len. }
    cbn zeta in L, Hk, Ho. split; [rewrite L; apply repeat_length|]. split.
    - intros v Hv. apply In_nth_0 in Hv. destruct Hv as (k & Hlt & <-). rewrite Hk by exact Hlt.
      rewrite nth_repeat, Z.add_0_l.
      rewrite <- (map_nth wrap dy 0%Z k). rewrite <- DY.
      rewrite (nth_indep _ (wrap 0%Z) (bw 0)) by (rewrite map_length; exact Hlt). apply map_nth.
    - intros j ej v Hj Hv. destruct (in_dec Nat.eq_dec j []) as [[]|_].
      rewrite Ho; [apply nth_repeat|]. apply (@src_not_out ej); [eapply nth_error_In; eauto|exact Hv].
  Qed.

  Variable mem : list (option Z).
  Hypothesis MEM : forall v, v < N -> zget mem v = fw v.

  Lemma rinv_step P a i ei : rinv P a -> ~ In i P -> nth_error E i = Some ei ->
    (forall j ej v, nth_error E j = Some ej -> In v (pe_tgt ei) -> In v (pe_src ej) -> In j P) ->
    rinv (i :: P) (rev_edge mem a ei).
  Proof.
    intros (L & Ro & Rs) Hn Hi Hrd. assert (He : In ei E) by (eapply nth_error_In; eauto).
    destruct (@rev_edge_spec mem a ei) as (L' & Hoth & Hval).
    { pose proof G as (_ & _ & _ & Ha). apply Ha. exact He. }
    { apply src_nodup. exact He. }
    { rewrite L. apply (pwf_src ei W He). }
    { intros v Hv. rewrite (Rs i ei v Hi Hv). destruct (in_dec Nat.eq_dec i P); [contradiction|reflexivity]. }
    assert (Et : map (fun v => nth v a 0%Z) (pe_tgt ei) = map bw (pe_tgt ei)).
    { apply map_ext_in. intros v Hv.
      assert (Hlt : v < N) by (eapply all_lt_in; [apply (pwf_tgt ei W He)|exact Hv]).
      destruct (read_cases Hlt) as [Ho|(j & ej & Hj & Hs)]; [apply Ro; exact Ho|].
      rewrite (Rs j ej v Hj Hs). destruct (in_dec Nat.eq_dec j P) as [_|Hnj]; [reflexivity|].
      exfalso. apply Hnj. eapply Hrd; eauto. }
    assert (Es : map (zget mem) (pe_src ei) = map fw (pe_src ei)).
    { apply map_ext_in. intros v Hv. apply MEM. eapply all_lt_in; [apply (pwf_src ei W He)|exact Hv]. }
    rewrite Et, Es, <- (BW ei He) in Hval.
    split; [rewrite L'; exact L|]. split.
    - intros v Hv. rewrite Hoth; [apply Ro; exact Hv|]. intros Hs. exact (@src_not_out ei v He Hs Hv).
    - intros j ej v Hj Hv. destruct (in_dec Nat.eq_dec v (pe_src ei)) as [Hs|Hns].
      + assert (j = i) by (eapply src_unique; eauto). subst j.
        destruct (in_dec Nat.eq_dec i (i :: P)) as [_|Hni]; [|exfalso; apply Hni; left; reflexivity].
        apply (proj1 (@map_ext_in_iff _ _ _ _ _) Hval v Hs).
      + rewrite Hoth by exact Hns. rewrite (Rs j ej v Hj Hv).
        assert (Hne : j <> i). { intros ->. assert (ej = ei) by congruence. subst ej. contradiction. }
        destruct (in_dec Nat.eq_dec j P) as [HP|HP]; destruct (in_dec Nat.eq_dec j (i :: P)) as [HQ|HQ];
          try reflexivity.
        * exfalso. apply HQ. right. exact HP.
        * exfalso. destruct HQ as [HQ|HQ]; [congruence|contradiction].
  Qed.

  Variable fired : list nat.
  Hypothesis ND : NoDup fired.
  Hypothesis FULL : forall i, In i fired <-> i < length E.
  Hypothesis TOPO : forall l1 j l2, fired = l1 ++ j :: l2 -> forall ej, nth_error E j = Some ej ->
      forall i, In i (dep_preds es ej) -> In i l1.

  Local Notation step := (fun i a => match nth_error E i with Some e => rev_edge mem a e | None => a end).
  Local Notation adj0 :=
    (fold_left (fun a p => zadd_at a (fst p) (snd p)) (combine (p_outs g) dy) (repeat 0%Z N)).

  Lemma sweep_suffix : forall l pre, fired = pre ++ l -> rinv l (fold_right step adj0 l).
  Proof.
    induction l as [|i l IH]; intros pre Eq; cbn [fold_right].
    - exact rinv_init.
    - assert (Eq' : fired = (pre ++ [i]) ++ l) by (rewrite <- app_assoc; exact Eq).
      specialize (IH _ Eq').
      assert (Hi : i < length E) by (apply FULL; rewrite Eq; apply in_or_app; right; left; reflexivity).
      destruct (nth_error E i) as [ei|] eqn:Hei; [|apply nth_error_None in Hei; lia].
      apply rinv_step; [exact IH| |exact Hei|].
      + intros Hin. rewrite Eq in ND. apply NoDup_remove_2 in ND. apply ND. apply in_or_app. right. exact Hin.
      + intros j ej v Hj Hvt Hvs.
        assert (Hjf : In j fired) by (apply FULL; apply nth_error_Some; congruence).
        apply in_split in Hjf. destruct Hjf as (l1 & l2 & E1).
        assert (Hil : In i l1).
        { apply (TOPO l1 j l2 E1 Hj). apply (In_dep_preds g). exists ei, v. auto. }
        apply in_split in Hil. destruct Hil as (a & b & ->).
        rewrite <- app_assoc in E1. cbn [app] in E1.
        assert (ND' := ND). rewrite Eq in ND'. rewrite Eq in E1.
        destruct (NoDup_split_unique i pre l a (b ++ j :: l2) ND' E1) as (_ & ->).
        apply in_or_app. right. left. reflexivity.
  Qed.

  Lemma sweep_final :
    let a := fold_left (fun a i => match nth_error E i with Some e => rev_edge mem a e | None => a end)
                       (rev fired) adj0 in
    forall v, v < N -> nth v a 0%Z = bw v.
  Proof.
    cbn zeta. intros v Hv.
    rewrite <- (fold_left_rev_right (fun i a => match nth_error E i with Some e => rev_edge mem a e | None => a end)).
    rewrite rev_involutive.
    destruct (sweep_suffix fired [] eq_refl) as (_ & Ro & Rs).
    destruct (read_cases Hv) as [Ho|(j & ej & Hj & Hs)]; [apply Ro; exact Ho|].
    rewrite (Rs j ej v Hj Hs). destruct (in_dec Nat.eq_dec j fired) as [_|Hn]; [reflexivity|].
    exfalso. apply Hn. apply FULL. apply nth_error_Some. congruence.
  Qed.
End Reverse.

(* ================================================================== *)
(** * 7. the sweep returns the solution of the two systems of equations *)
(* ================================================================== *)

Theorem ref_grad_sound (g : pg) (fw bw : nat -> Z) (dy : list Z) :
  good_pg g -> fwd_ok g fw -> bwd_ok g fw bw -> map bw (p_outs g) = map wrap dy ->
  ref_grad g (map fw (p_ins g)) dy = Some (map fw (p_outs g) ++ map bw (p_ins g)).
Proof.
  intros G FW BW DY.
  destruct (ref_eval_mem_spec G FW) as (mem & fired & Hev & Hmem & ND & Full & Topo).
  unfold ref_grad. rewrite Hev. f_equal. pose proof G as (W & _). f_equal.
  - apply map_ext_in. intros v Hv. apply Hmem. eapply all_lt_in; [apply (pwf_outs W)|exact Hv].
  - apply map_ext_in. intros v Hv.
    apply (@sweep_final g G fw bw BW dy DY mem Hmem fired ND Full Topo).
    eapply all_lt_in; [apply (pwf_ins W)|exact Hv].
Qed.

Print Assumptions ref_grad_sound.
