(* Characterising lemmas of the array primitives (model of the Vec back-end and of the
   default trait methods): each primitive returns exactly what its scalar definition
   prescribes inside its precondition, and panics outside it. *)
From OHG Require Import Model.Prims.
From Coq Require Import Permutation Sorted.

Set Implicit Arguments.

(* ---------- generic list facts ---------- *)
Lemma nth_error_nth' {T} (l : list T) i d : i < length l -> nth_error l i = Some (nth i l d).
Proof. revert i; induction l as [|x l IH]; intros [|i] H; simpl in *; try lia; auto. apply IH; lia. Qed.

Lemma nth_map_seq {T} (f : nat -> T) a n i d : i < n -> nth i (map f (seq a n)) d = f (a + i).
Proof.
  intros H. rewrite nth_indep with (d' := f 0) by (rewrite map_length, seq_length; auto).
  rewrite map_nth. rewrite seq_nth; auto.
Qed.

Lemma mapM_ok_iff {A B} (f : A -> res B) l r :
  mapM f l = Ok r <-> Forall2 (fun x y => f x = Ok y) l r.
Proof.
  revert r; induction l as [|x xs IH]; intros r; simpl.
  - split; intros H. inversion H; constructor. inversion H; reflexivity.
  - split; intros H.
    + destruct (f x) eqn:E; simpl in H; try discriminate.
      destruct (mapM f xs) eqn:E2; simpl in H; try discriminate.
      inversion H; subst. constructor; auto. apply IH; reflexivity.
    + inversion H; subst. rewrite H2. simpl. apply IH in H4. rewrite H4. reflexivity.
Qed.

Lemma mapM_length {A B} (f : A -> res B) l r : mapM f l = Ok r -> length r = length l.
Proof. intros H. apply mapM_ok_iff in H. induction H; simpl; auto. Qed.

Lemma mapM_panic {A B} (f : A -> res B) l :
  (forall x, In x l -> f x <> Fuel) -> (exists x, In x l /\ f x = Panic) -> mapM f l = Panic.
Proof.
  induction l as [|x xs IH]; intros Hf (y & Hin & Hy); simpl in *. contradiction.
  destruct (f x) eqn:E; simpl.
  - destruct Hin as [->|Hin]. congruence.
    rewrite IH; eauto.
  - reflexivity.
  - exfalso. apply (Hf x); auto.
Qed.

(* ---------- get / gather ---------- *)
Section Gen.
  Variable T : Type.

  Lemma get_ok (xs : list T) i d : i < length xs -> get xs i = Ok (nth i xs d).
  Proof. intros H. unfold get. rewrite (nth_error_nth' xs d H). reflexivity. Qed.

  Lemma get_panic (xs : list T) i : length xs <= i -> get xs i = Panic.
  Proof. intros H. unfold get. apply nth_error_None in H. rewrite H. reflexivity. Qed.

  Lemma get_ok_inv (xs : list T) i x : get xs i = Ok x -> i < length xs /\ nth_error xs i = Some x.
  Proof.
    unfold get. destruct (nth_error xs i) eqn:E; simpl; intros H; inversion H; subst.
    split; auto. apply nth_error_Some. congruence.
  Qed.

  Lemma gather_ok (xs : list T) idx d :
    Forall (fun i => i < length xs) idx -> gather xs idx = Ok (map (fun i => nth i xs d) idx).
  Proof.
    intros H. unfold gather. apply mapM_ok. intros x Hx.
    rewrite Forall_forall in H. apply get_ok. auto.
  Qed.

  Lemma gather_ok_inv (xs : list T) idx r :
    gather xs idx = Ok r -> Forall (fun i => i < length xs) idx /\ length r = length idx.
  Proof.
    intros H. split. 2: eapply mapM_length; eauto.
    apply mapM_ok_iff in H. induction H; constructor; auto.
    apply get_ok_inv in H. tauto.
  Qed.

  Lemma gather_panic (xs : list T) idx :
    ~ Forall (fun i => i < length xs) idx -> gather xs idx = Panic.
  Proof.
    intros H. apply mapM_panic.
    - intros x _. unfold get. destruct (nth_error xs x); discriminate.
    - apply Exists_Forall_neg in H. 2: intros; lia.
      apply Exists_exists in H. destruct H as (x & Hin & Hx).
      exists x; split; auto. apply get_panic. lia.
  Qed.

  Lemma get_range_full (xs : list T) : get_range xs RFull = Ok xs.
  Proof.
    unfold get_range, to_range, slice. simpl. rewrite Nat.leb_refl. simpl.
    rewrite Nat.sub_0_r, firstn_all. reflexivity.
  Qed.

  Lemma slice_ok (xs : list T) a b : a <= b -> b <= length xs ->
    slice xs a b = Ok (firstn (b - a) (skipn a xs)).
  Proof.
    intros H1 H2. unfold slice.
    apply Nat.leb_le in H1, H2. rewrite H1, H2. reflexivity.
  Qed.

  Lemma slice_panic (xs : list T) a b : b < a \/ length xs < b -> slice xs a b = Panic.
  Proof.
    intros H. unfold slice.
    destruct (a <=? b) eqn:E1; destruct (b <=? length xs) eqn:E2; simpl; auto.
    apply Nat.leb_le in E1, E2. lia.
  Qed.

  (* set_nth *)
  Lemma set_nth_length (xs : list T) i y : length (set_nth xs i y) = length xs.
  Proof. revert i; induction xs as [|x xs IH]; intros [|i]; simpl; auto. Qed.

  Lemma nth_set_nth (xs : list T) i j y d : i < length xs ->
    nth j (set_nth xs i y) d = if j =? i then y else nth j xs d.
  Proof.
    revert i j; induction xs as [|x xs IH]; intros [|i] [|j] H; simpl in *; try lia; auto.
    apply IH. lia.
  Qed.

  Lemma assign_ok (xs : list T) i y : i < length xs -> assign xs i y = Ok (set_nth xs i y).
  Proof. intros H. unfold assign. apply Nat.ltb_lt in H. rewrite H. reflexivity. Qed.

  Lemma assign_panic (xs : list T) i y : length xs <= i -> assign xs i y = Panic.
  Proof. intros H. unfold assign. destruct (i <? length xs) eqn:E; auto. apply Nat.ltb_lt in E. lia. Qed.

  (* scatter_assign_constant: pure view *)
  Definition sac_pure (xs : list T) (ixs : list nat) (c : T) : list T :=
    fold_left (fun acc i => set_nth acc i c) ixs xs.

  Lemma sac_pure_length ixs : forall (xs : list T) c, length (sac_pure xs ixs c) = length xs.
  Proof. induction ixs as [|i ixs IH]; intros; simpl; auto. unfold sac_pure in *. simpl. rewrite IH, set_nth_length. auto. Qed.

  Lemma scatter_assign_constant_ok ixs : forall (xs : list T) c,
    Forall (fun i => i < length xs) ixs ->
    scatter_assign_constant xs ixs c = Ok (sac_pure xs ixs c).
  Proof.
    induction ixs as [|i ixs IH]; intros xs c H; simpl. reflexivity.
    inversion H; subst. unfold scatter_assign_constant in *. simpl.
    rewrite assign_ok by auto. simpl. apply IH. rewrite set_nth_length. auto.
  Qed.

  Lemma nth_sac_pure ixs : forall (xs : list T) c j d,
    Forall (fun i => i < length xs) ixs ->
    nth j (sac_pure xs ixs c) d = if existsb (Nat.eqb j) ixs then c else nth j xs d.
  Proof.
    induction ixs as [|i ixs IH]; intros xs c j d H; simpl. reflexivity.
    inversion H; subst. unfold sac_pure in *. simpl.
    rewrite IH by (rewrite set_nth_length; auto).
    rewrite nth_set_nth by auto.
    destruct (existsb (Nat.eqb j) ixs); simpl.
    - rewrite orb_true_r. reflexivity.
    - rewrite orb_false_r. reflexivity.
  Qed.
End Gen.

(* ---------- arange, cumulative sum, sum ---------- *)
Lemma arange_ok a b : a <= b -> arange a b = Ok (seq a (b - a)).
Proof. intros H. unfold arange. apply Nat.leb_le in H. rewrite H. reflexivity. Qed.

Lemma arange_panic a b : b < a -> arange a b = Panic.
Proof. intros H. unfold arange. destruct (a <=? b) eqn:E; auto. apply Nat.leb_le in E. lia. Qed.

Lemma cumsum_from_length a xs : length (cumsum_from a xs) = S (length xs).
Proof. revert a; induction xs as [|x xs IH]; intros a; simpl; auto. Qed.

Lemma cumulative_sum_length xs : length (cumulative_sum xs) = S (length xs).
Proof. apply cumsum_from_length. Qed.

Lemma nth_cumsum_from a xs : forall i, i <= length xs ->
  nth i (cumsum_from a xs) 0 = a + list_sum (firstn i xs).
Proof.
  revert a; induction xs as [|x xs IH]; intros a [|i] H; simpl in *; try lia.
  rewrite IH by lia. lia.
Qed.

Lemma nth_cumulative_sum xs i : i <= length xs ->
  nth i (cumulative_sum xs) 0 = list_sum (firstn i xs).
Proof. intros H. unfold cumulative_sum. rewrite nth_cumsum_from by auto. reflexivity. Qed.

Lemma asum_ok xs : asum xs = Ok (list_sum xs).
Proof.
  unfold asum. destruct (length xs =? 0) eqn:E.
  - apply Nat.eqb_eq in E. destruct xs; simpl in *; try lia. reflexivity.
  - rewrite (get_ok _ 0) by (rewrite cumulative_sum_length; lia).
    rewrite nth_cumulative_sum by lia. rewrite firstn_all. reflexivity.
Qed.

Lemma cumsum_from_app a xs ys :
  cumsum_from a (xs ++ ys) = removelast (cumsum_from a xs) ++ cumsum_from (a + list_sum xs) ys.
Proof.
  revert a; induction xs as [|x xs IH]; intros a; simpl.
  - rewrite Nat.add_0_r. reflexivity.
  - rewrite IH. destruct (cumsum_from (a + x) xs) eqn:E.
    + pose proof (cumsum_from_length (a + x) xs). rewrite E in H. simpl in H. lia.
    + simpl. rewrite Nat.add_assoc. reflexivity.
Qed.

(* ---------- repeat / elementwise ---------- *)
Lemma arepeat_ok ks xs : length ks = length xs ->
  arepeat ks xs = Ok (flat_map (fun p => repeat (snd p) (fst p)) (combine ks xs)).
Proof. intros H. unfold arepeat. apply Nat.eqb_eq in H. rewrite H. reflexivity. Qed.

Lemma aadd_ok xs ys : length xs = length ys ->
  aadd xs ys = Ok (map (fun p => fst p + snd p) (combine xs ys)).
Proof. intros H. unfold aadd. apply Nat.eqb_eq in H. rewrite H. reflexivity. Qed.

Lemma asub_ok xs ys : length xs = length ys ->
  Forall (fun p => snd p <= fst p) (combine xs ys) ->
  asub xs ys = Ok (map (fun p => fst p - snd p) (combine xs ys)).
Proof.
  intros H F. unfold asub. apply Nat.eqb_eq in H. rewrite H. simpl.
  apply mapM_ok. intros p Hp. rewrite Forall_forall in F. specialize (F p Hp).
  unfold sub_chk. apply Nat.leb_le in F. rewrite F. reflexivity.
Qed.

(* ---------- bincount ---------- *)
Definition bincount_pure (xs : list nat) (n : nat) : list nat :=
  map (fun v => count_occ Nat.eq_dec xs v) (seq 0 n).

Lemma bincount_step acc i : i < length acc ->
  (c <- get acc i ;; assign acc i (c + 1)) = Ok (set_nth acc i (nth i acc 0 + 1)).
Proof. intros H. rewrite (get_ok _ 0) by auto. simpl. apply assign_ok. auto. Qed.

Lemma bincount_fold xs : forall acc n, length acc = n -> Forall (fun i => i < n) xs ->
  foldM (fun acc i => c <- get acc i ;; assign acc i (c + 1)) xs acc =
  Ok (map (fun v => nth v acc 0 + count_occ Nat.eq_dec xs v) (seq 0 n)).
Proof.
  induction xs as [|x xs IH]; intros acc n Hl HF; simpl.
  - f_equal. subst n. apply nth_ext with (d := 0) (d' := 0).
    + rewrite map_length, seq_length. reflexivity.
    + intros i Hi. rewrite nth_map_seq by auto. simpl. lia.
  - inversion HF; subst. rewrite bincount_step by lia. simpl.
    rewrite (IH (set_nth acc x (nth x acc 0 + 1)) (length acc)) by (try rewrite set_nth_length; auto).
    f_equal. apply map_ext_in. intros v Hv. apply in_seq in Hv.
    rewrite nth_set_nth by lia.
    destruct (Nat.eq_dec x v) as [->|Hne].
    + rewrite Nat.eqb_refl. lia.
    + destruct (v =? x) eqn:E. apply Nat.eqb_eq in E. congruence. lia.
Qed.

Lemma bincount_ok xs n : Forall (fun i => i < n) xs -> bincount xs n = Ok (bincount_pure xs n).
Proof.
  intros H. unfold bincount. rewrite (@bincount_fold xs (repeat 0 n) n); auto using repeat_length.
  f_equal. apply map_ext_in. intros v Hv. apply in_seq in Hv.
  rewrite nth_repeat. reflexivity.
Qed.

Lemma bincount_pure_length xs n : length (bincount_pure xs n) = n.
Proof. unfold bincount_pure. rewrite map_length, seq_length. reflexivity. Qed.

Lemma nth_bincount_pure xs n v : v < n -> nth v (bincount_pure xs n) 0 = count_occ Nat.eq_dec xs v.
Proof.
  intros H. unfold bincount_pure. rewrite nth_map_seq by auto. reflexivity.
Qed.

(* ---------- zero ---------- *)
Lemma zero_from_spec xs : forall k j,
  In j (zero_from k xs) <-> exists i, j = k + i /\ i < length xs /\ nth i xs 1 = 0.
Proof.
  induction xs as [|x xs IH]; intros k j; simpl.
  - split. contradiction. intros (i & _ & H & _). lia.
  - destruct (x =? 0) eqn:E; [apply Nat.eqb_eq in E | apply Nat.eqb_neq in E]; simpl; rewrite ?IH.
    + split.
      * intros [<-|(i & -> & Hi & Hz)]. exists 0. split; [lia|split; [lia|auto]].
        exists (S i). split; [lia|split; [lia|auto]].
      * intros ([|i] & -> & Hi & Hz). left; lia. right. exists i. split; [lia|split; [lia|auto]].
    + split.
      * intros (i & -> & Hi & Hz). exists (S i). split; [lia|split; [lia|auto]].
      * intros ([|i] & -> & Hi & Hz). contradiction. exists i. split; [lia|split; [lia|auto]].
Qed.

Lemma azero_spec xs j : In j (azero xs) <-> j < length xs /\ nth j xs 1 = 0.
Proof.
  unfold azero. rewrite zero_from_spec. split.
  - intros (i & -> & H). exact H.
  - intros H. exists j. split; [reflexivity|exact H].
Qed.

Lemma zero_from_NoDup xs : forall k, NoDup (zero_from k xs).
Proof.
  induction xs as [|x xs IH]; intros k; simpl. constructor.
  destruct (x =? 0); auto. constructor; auto.
  rewrite zero_from_spec. intros (i & H & _). lia.
Qed.

Lemma azero_NoDup xs : NoDup (azero xs).
Proof. apply zero_from_NoDup. Qed.
