(* A small quotient engine for the plain model (used by property C03):
   - bijections of [0,n) (inverse, surjectivity), bijection extracted from a Permutation;
   - Iso / NIso are equivalence relations on pwf diagrams, NIso implies Iso, Iso from a node
     bijection plus a Permutation of the hyperedge lists, Iso is a congruence for ptensor;
   - kernels: [KerIs n q P] (q identifies exactly the conn-P related indices below n),
     kernels of sums ([ker_sum]), of composites ([ker_trans]), via representatives ([ker_by_rep]),
     transport of conn along a bijection ([conn_pmap_bij]);
   - quotients: [quot_trans], quotients of disjoint unions ([IsQuot_ptensor], [IsQuot_pjoin]),
     [quot_iso] (quotients of isomorphic diagrams with corresponding kernels are isomorphic). *)
From OHG Require Import Spec.Plain Proofs.PrimsThm Proofs.CCThm Proofs.C01Lemmas.

Set Implicit Arguments.
Arguments Nat.sub : simpl never.

(* ---------- 1. bijections of [0,n) ---------- *)
Lemma bij_on_id n : bij_on n (fun i => i).
Proof. split; auto. Qed.

Lemma bij_on_comp n p p' : bij_on n p -> bij_on n p' -> bij_on n (fun i => p' (p i)).
Proof.
  intros [Hr Hi] [Hr' Hi']. split.
  - intros i H. auto.
  - intros i j H1 H2 E. apply Hi; auto.
Qed.

Lemma bij_on_surj n p : bij_on n p -> forall j, j < n -> exists i, i < n /\ p i = j.
Proof.
  intros [Hr Hi] j Hj.
  assert (Hnd : NoDup (map p (seq 0 n))).
  { apply NoDup_map_inj_on. 2: apply seq_NoDup.
    intros x y Hx Hy. apply in_seq in Hx, Hy. apply Hi; lia. }
  assert (Hinc : incl (map p (seq 0 n)) (seq 0 n)).
  { intros y Hy. apply in_map_iff in Hy. destruct Hy as (x & <- & Hx).
    apply in_seq in Hx. apply in_seq. specialize (Hr x). lia. }
  assert (Hinc' : incl (seq 0 n) (map p (seq 0 n))).
  { apply NoDup_length_incl; auto. rewrite map_length. lia. }
  assert (Hin : In j (map p (seq 0 n))) by (apply Hinc'; apply in_seq; lia).
  apply in_map_iff in Hin. destruct Hin as (i & E & Hin). apply in_seq in Hin.
  exists i. split; [lia|exact E].
Qed.

Definition inv_on (n : nat) (p : nat -> nat) (j : nat) : nat := renum n p (fun i => i) j.

Lemma inv_on_l n p : bij_on n p -> forall i, i < n -> inv_on n p (p i) = i.
Proof.
  intros [Hr Hi] i H. unfold inv_on.
  apply (@renum_spec n p (fun i => i)); auto.
Qed.

Lemma inv_on_r n p : bij_on n p -> forall j, j < n -> inv_on n p j < n /\ p (inv_on n p j) = j.
Proof.
  intros Hb j Hj. destruct (bij_on_surj Hb Hj) as (i & Hi & <-).
  rewrite (inv_on_l Hb Hi). auto.
Qed.

Lemma bij_on_inv n p : bij_on n p -> bij_on n (inv_on n p).
Proof.
  intros Hb. split.
  - intros j Hj. apply (inv_on_r Hb Hj).
  - intros j1 j2 H1 H2 E.
    destruct (inv_on_r Hb H1) as [_ E1]. destruct (inv_on_r Hb H2) as [_ E2]. congruence.
Qed.

Lemma map_inv_on n p l : bij_on n p -> all_lt n l -> map (inv_on n p) (map p l) = l.
Proof.
  intros Hb Hl. rewrite map_map. rewrite <- (map_id l) at 2. apply map_ext_in.
  intros a Ha. apply inv_on_l; auto. eapply all_lt_In; eauto.
Qed.

(* a permutation of lists gives a bijection of positions *)
Lemma perm_bij {T} (l l' : list T) : Permutation l l' ->
  exists pe, bij_on (length l) pe /\ forall i, i < length l -> nth_error l' (pe i) = nth_error l i.
Proof.
  intros H. induction H as [|x l l' H IH|x y l|l l' l'' H1 IH1 H2 IH2].
  - exists (fun i => i). split; [apply bij_on_id|]. intros i Hi. reflexivity.
  - destruct IH as (pe & [Hr Hi] & Hn).
    exists (fun i => match i with 0 => 0 | S k => S (pe k) end). split; [split|].
    + intros [|i] Hlt; simpl in *; [lia|]. specialize (Hr i). lia.
    + intros [|i] [|j] H1 H2 E; simpl in *; try lia. f_equal. apply Hi; lia.
    + intros [|i] Hlt; simpl in *; [reflexivity|]. apply Hn. lia.
  - exists (fun i => match i with 0 => 1 | 1 => 0 | _ => i end). split; [split|].
    + intros [|[|i]] Hlt; simpl in *; lia.
    + intros [|[|i]] [|[|j]] H1 H2 E; simpl in *; lia.
    + intros [|[|i]] Hlt; reflexivity.
  - destruct IH1 as (pe1 & [Hr1 Hi1] & Hn1). destruct IH2 as (pe2 & [Hr2 Hi2] & Hn2).
    pose proof (Permutation_length H1) as HL.
    exists (fun i => pe2 (pe1 i)). split; [split|].
    + intros i Hlt. rewrite HL. apply Hr2. rewrite <- HL. auto.
    + intros i j Hl1 Hl2 E. apply Hi1; auto. apply Hi2; auto; rewrite <- HL; auto.
    + intros i Hlt. rewrite Hn2 by (rewrite <- HL; auto). auto.
Qed.

(* ---------- 2. lists of pairs ---------- *)
Definition pmap (q : nat -> nat) (P : list (nat * nat)) : list (nat * nat) :=
  map (fun p => (q (fst p), q (snd p))) P.
Definition shift_pairs (n : nat) (P : list (nat * nat)) : list (nat * nat) := pmap (fun x => x + n) P.

Lemma combine_pmap q : forall a b, combine (map q a) (map q b) = pmap q (combine a b).
Proof. induction a as [|x a IH]; intros [|y b]; simpl; auto. f_equal. apply IH. Qed.

Lemma combine_shift n a b : combine (shiftl n a) (shiftl n b) = shift_pairs n (combine a b).
Proof. apply combine_pmap. Qed.

Lemma combine_app_eq {X Y} (a1 a2 : list X) (b1 b2 : list Y) : length a1 = length b1 ->
  combine (a1 ++ a2) (b1 ++ b2) = combine a1 b1 ++ combine a2 b2.
Proof.
  revert b1; induction a1 as [|x a1 IH]; intros [|y b1] H; simpl in *; try discriminate; auto.
  f_equal. apply IH. lia.
Qed.

Lemma pmap_app q P Q : pmap q (P ++ Q) = pmap q P ++ pmap q Q.
Proof. apply map_app. Qed.

Lemma pmap_pmap q q' P : pmap q' (pmap q P) = pmap (fun x => q' (q x)) P.
Proof. unfold pmap. rewrite map_map. reflexivity. Qed.

Lemma pmap_ext_lt n q q' P : pairs_lt n P -> (forall x, x < n -> q x = q' x) -> pmap q P = pmap q' P.
Proof.
  intros HP H. apply map_ext_in. intros [x y] Hin. unfold pairs_lt in HP.
  rewrite Forall_forall in HP. destruct (HP _ Hin) as [Hx Hy]. simpl in *. rewrite !H; auto.
Qed.

Lemma pmap_id_lt n q P : pairs_lt n P -> (forall x, x < n -> q x = x) -> pmap q P = P.
Proof.
  intros HP H. rewrite <- (map_id P) at 2. apply map_ext_in. intros [x y] Hin. unfold pairs_lt in HP.
  rewrite Forall_forall in HP. destruct (HP _ Hin) as [Hx Hy]. simpl in *. rewrite !H; auto.
Qed.

Lemma in_pmap q P x y : In (x, y) (pmap q P) -> exists a b, In (a, b) P /\ x = q a /\ y = q b.
Proof.
  intros H. apply in_map_iff in H. destruct H as ([a b] & E & Hin). simpl in E.
  inversion E; subst. eauto.
Qed.

Lemma pairs_lt_pmap n m q P : (forall i, i < n -> q i < m) -> pairs_lt n P -> pairs_lt m (pmap q P).
Proof.
  unfold pairs_lt. rewrite !Forall_forall. intros Hq HP [x y] Hin.
  apply in_pmap in Hin. destruct Hin as (a & b & Hin & -> & ->).
  destruct (HP _ Hin) as [Ha Hb]. simpl in *. auto.
Qed.

Lemma pairs_lt_mono n m P : n <= m -> pairs_lt n P -> pairs_lt m P.
Proof.
  unfold pairs_lt. intros H HP. eapply Forall_impl; [|exact HP]. simpl. intros [a b]; simpl. lia.
Qed.

Lemma pairs_lt_In n P x y : pairs_lt n P -> In (x, y) P -> x < n /\ y < n.
Proof. unfold pairs_lt. rewrite Forall_forall. intros HP Hin. apply (HP _ Hin). Qed.

(* ---------- 3. conn ---------- *)
Lemma conn_pmap q P i j : conn P i j -> conn (pmap q P) (q i) (q j).
Proof.
  intros C. induction C as [x|x y Hin|x y C IH|x y z C1 IH1 C2 IH2].
  - apply conn_refl.
  - apply conn_step. unfold pmap. apply in_map_iff. exists (x, y). auto.
  - apply conn_sym; auto.
  - eapply conn_trans; eauto.
Qed.

Lemma conn_app_l P Q x y : conn P x y -> conn (P ++ Q) x y.
Proof. apply conn_mono. intros p Hp. apply in_or_app; auto. Qed.

Lemma conn_app_r P Q x y : conn Q x y -> conn (P ++ Q) x y.
Proof. apply conn_mono. intros p Hp. apply in_or_app; auto. Qed.

Lemma conn_app_comm P Q x y : conn (P ++ Q) x y <-> conn (Q ++ P) x y.
Proof. apply conn_set_ext. intros p. rewrite !in_app_iff. tauto. Qed.

(* transport along a bijection *)
Lemma conn_pmap_bij n p P : bij_on n p -> pairs_lt n P ->
  forall i j, i < n -> j < n -> (conn P i j <-> conn (pmap p P) (p i) (p j)).
Proof.
  intros Hb HP i j Hi Hj. split; [apply conn_pmap|].
  intros C. apply (conn_pmap (inv_on n p)) in C.
  rewrite pmap_pmap in C. rewrite (@pmap_id_lt n _ P HP) in C by (intros x Hx; apply inv_on_l; auto).
  rewrite !inv_on_l in C by auto. exact C.
Qed.

(* conn of a disjoint sum of pair lists *)
Lemma conn_sum_char n P1 P2 x y : pairs_lt n P1 ->
  (conn (P1 ++ shift_pairs n P2) x y <->
   (x < n /\ y < n /\ conn P1 x y) \/ (n <= x /\ n <= y /\ conn P2 (x - n) (y - n))).
Proof.
  intros HP. split.
  - revert x y. apply conn_glue_impl.
    + intros x. destruct (lt_dec x n); [left|right]; repeat split; try lia; apply conn_refl.
    + intros x y [(H1 & H2 & C)|(H1 & H2 & C)]; [left|right]; repeat split; auto; apply conn_sym; auto.
    + intros x y z [(H1 & H2 & C)|(H1 & H2 & C)] [(K1 & K2 & C')|(K1 & K2 & C')]; try lia;
        [left|right]; repeat split; auto; eapply conn_trans; eauto.
    + intros x y Hin. apply in_app_or in Hin. destruct Hin as [Hin|Hin].
      * left. destruct (@pairs_lt_In _ _ _ _ HP Hin). repeat split; auto. apply conn_step; auto.
      * right. apply in_pmap in Hin. destruct Hin as (a & b & Hin & -> & ->).
        repeat split; try lia. replace (a + n - n) with a by lia. replace (b + n - n) with b by lia.
        apply conn_step; auto.
  - intros [(H1 & H2 & C)|(H1 & H2 & C)].
    + apply conn_app_l; auto.
    + apply conn_app_r. apply (conn_pmap (fun x => x + n)) in C.
      replace (x - n + n) with x in C by lia. replace (y - n + n) with y in C by lia. exact C.
Qed.

(* ---------- 4. kernels ---------- *)
Definition KerIs (n : nat) (q : nat -> nat) (P : list (nat * nat)) : Prop :=
  forall i j, i < n -> j < n -> (q i = q j <-> conn P i j).

Lemma KerIs_ext n q P Q : (forall x y, conn P x y <-> conn Q x y) -> KerIs n q P -> KerIs n q Q.
Proof. intros H K i j Hi Hj. rewrite <- H. apply K; auto. Qed.

Lemma KerIs_id n : KerIs n (fun i => i) [].
Proof.
  intros i j Hi Hj. split.
  - intros ->. apply conn_refl.
  - apply conn_nil.
Qed.

Definition qsum (n m : nat) (q q' : nat -> nat) (i : nat) : nat :=
  if i <? n then q i else q' (i - n) + m.

Lemma qsum_l n m q q' i : i < n -> qsum n m q q' i = q i.
Proof. intros H. unfold qsum. apply Nat.ltb_lt in H. rewrite H. reflexivity. Qed.

Lemma qsum_r n m q q' i : n <= i -> qsum n m q q' i = q' (i - n) + m.
Proof.
  intros H. unfold qsum. destruct (i <? n) eqn:E; auto. apply Nat.ltb_lt in E. lia.
Qed.

Lemma qsum_r' n m q q' i : qsum n m q q' (i + n) = q' i + m.
Proof. rewrite qsum_r by lia. f_equal. f_equal. lia. Qed.

Lemma map_qsum_l n m q q' l : all_lt n l -> map (qsum n m q q') l = map q l.
Proof. intros H. apply map_ext_in. intros a Ha. apply qsum_l. eapply all_lt_In; eauto. Qed.

Lemma map_qsum_r n m q q' l : map (qsum n m q q') (shiftl n l) = shiftl m (map q' l).
Proof. unfold shiftl. rewrite !map_map. apply map_ext. intros a. apply qsum_r'. Qed.

Lemma ker_sum n1 n2 m q1 q2 P1 P2 :
  KerIs n1 q1 P1 -> KerIs n2 q2 P2 -> pairs_lt n1 P1 -> (forall i, i < n1 -> q1 i < m) ->
  KerIs (n1 + n2) (qsum n1 m q1 q2) (P1 ++ shift_pairs n1 P2).
Proof.
  intros K1 K2 HP Hr i j Hi Hj. rewrite (conn_sum_char _ _ _ HP).
  destruct (lt_dec i n1) as [Li|Li]; destruct (lt_dec j n1) as [Lj|Lj].
  - rewrite !qsum_l by auto. rewrite (K1 i j Li Lj). split.
    + intros C. left. auto.
    + intros [(_ & _ & C)|(H & _)]; [exact C|lia].
  - rewrite qsum_l by auto. rewrite qsum_r by lia. specialize (Hr i Li). split.
    + intros E. lia.
    + intros [(_ & H & _)|(H & _)]; lia.
  - rewrite qsum_l with (i := j) by auto. rewrite qsum_r by lia. specialize (Hr j Lj). split.
    + intros E. lia.
    + intros [(H & _)|(_ & H & _)]; lia.
  - rewrite !qsum_r by lia. split.
    + intros E. right. repeat split; try lia. apply K2; lia.
    + intros [(H & _)|(_ & _ & C)]; [lia|]. apply K2 in C; lia.
Qed.

(* kernel of a composite of two quotient maps: P'' are the second-stage pairs lifted to D *)
Lemma ker_trans n m q q' P P' P'' :
  (forall i, i < n -> q i < m) -> (forall j, j < m -> exists i, i < n /\ q i = j) ->
  KerIs n q P -> KerIs m q' P' -> pairs_lt n P -> pairs_lt n P'' ->
  (forall x y, conn P' x y <-> conn (pmap q P'') x y) ->
  KerIs n (fun i => q' (q i)) (P ++ P'').
Proof.
  intros Hr Hs K K' HP HP'' HE i j Hi Hj.
  assert (HPm : pairs_lt m (pmap q P'')) by (eapply pairs_lt_pmap; eauto).
  split.
  - intros E. apply K' in E; auto. apply HE in E.
    assert (Hgen : forall u v, conn (pmap q P'') u v ->
              forall a b, a < n -> b < n -> q a = u -> q b = v -> conn (P ++ P'') a b).
    { clear i j Hi Hj E. intros u v C.
      induction C as [x|x y Hin|x y C IH|x y z C1 IH1 C2 IH2]; intros a b Ha Hb Ea Eb.
      - apply conn_app_l. apply K; auto. congruence.
      - apply in_pmap in Hin. destruct Hin as (c & d & Hin & -> & ->).
        destruct (@pairs_lt_In _ _ _ _ HP'' Hin) as [Hc Hd].
        apply conn_trans with c. { apply conn_app_l. apply K; auto. }
        apply conn_trans with d. { apply conn_app_r. apply conn_step; auto. }
        apply conn_app_l. apply K; auto.
      - apply conn_sym. apply IH; auto.
      - destruct (conn_bounded HPm C1) as [E|[_ Hy]].
        + apply (IH2 a b Ha Hb); congruence.
        + destruct (Hs y Hy) as (k & Hk & Ek).
          apply conn_trans with k; [apply (IH1 a k)|apply (IH2 k b)]; auto. }
    apply (Hgen _ _ E); auto.
  - revert i j Hi Hj.
    assert (Hgen : forall a b, conn (P ++ P'') a b -> a < n -> b < n -> q' (q a) = q' (q b)).
    { assert (HPP : pairs_lt n (P ++ P'')) by (apply pairs_lt_app; auto).
      intros a b C. induction C as [x|x y Hin|x y C IH|x y z C1 IH1 C2 IH2]; intros Ha Hb.
      - reflexivity.
      - apply in_app_or in Hin. destruct Hin as [Hin|Hin].
        + f_equal. apply K; auto. apply conn_step; auto.
        + apply K'; auto. apply HE. apply (conn_pmap q). apply conn_step; auto.
      - symmetry. auto.
      - destruct (conn_bounded HPP C1) as [E|[_ Hy]].
        + subst y. auto.
        + rewrite IH1; auto. }
    intros i j Hi Hj C. apply Hgen; auto.
Qed.

(* kernel by representatives: every index is P-connected to a representative of its image *)
Lemma ker_by_rep n q P (rep : nat -> nat) :
  (forall x y, In (x, y) P -> q x = q y) -> (forall i, i < n -> conn P i (rep (q i))) ->
  KerIs n q P.
Proof.
  intros Hp Hrep i j Hi Hj. split.
  - intros E. apply conn_trans with (rep (q i)); [auto|]. rewrite E. apply conn_sym. auto.
  - revert i j Hi Hj.
    assert (H : forall i j, conn P i j -> q i = q j).
    { apply conn_glue_impl; auto; congruence. }
    intros i j _ _. apply H.
Qed.

(* ---------- 5. the plain model ---------- *)
Section Plain.
  Variables O A : Type.
  Implicit Types D f g h k : pohg O A.

  Lemma map_edge_id (e : pedge A) : map_edge (fun i => i) e = e.
  Proof. destruct e as [x s t]. unfold map_edge. cbn. rewrite !map_id. reflexivity. Qed.

  Lemma map_edge_comp q q' (e : pedge A) :
    map_edge q' (map_edge q e) = map_edge (fun i => q' (q i)) e.
  Proof. unfold map_edge. cbn. rewrite !map_map. reflexivity. Qed.

  Lemma map_ext_lt n (q q' : nat -> nat) l : all_lt n l -> (forall x, x < n -> q x = q' x) ->
    map q l = map q' l.
  Proof. intros Hl H. apply map_ext_in. intros a Ha. apply H. eapply all_lt_In; eauto. Qed.

  Lemma map_id_lt n (q : nat -> nat) l : all_lt n l -> (forall x, x < n -> q x = x) -> map q l = l.
  Proof. intros Hl H. rewrite <- (map_id l) at 2. apply map_ext_lt with n; auto. Qed.

  Lemma map_edge_ext_lt n q q' (e : pedge A) : all_lt n (pe_src e) -> all_lt n (pe_tgt e) ->
    (forall x, x < n -> q x = q' x) -> map_edge q e = map_edge q' e.
  Proof.
    intros H1 H2 H. unfold map_edge. f_equal; apply map_ext_lt with n; auto.
  Qed.

  Lemma map_edges_ext g q q' : pwf g -> (forall x, x < length (p_nodes g) -> q x = q' x) ->
    map (map_edge q) (p_edges g) = map (map_edge q') (p_edges g).
  Proof.
    intros (He & _) H. apply map_ext_in. intros e Hin. destruct (He e Hin) as [H1 H2].
    apply map_edge_ext_lt with (length (p_nodes g)); auto.
  Qed.

  Lemma map_edges_id g q : pwf g -> (forall x, x < length (p_nodes g) -> q x = x) ->
    map (map_edge q) (p_edges g) = p_edges g.
  Proof.
    intros W H. rewrite (map_edges_ext q (fun i => i) W H).
    rewrite <- (map_id (p_edges g)) at 2. apply map_ext. apply map_edge_id.
  Qed.

  (* ----- Iso / NIso ----- *)
  Lemma Iso_of_perm g g' pn :
    length (p_nodes g) = length (p_nodes g') ->
    bij_on (length (p_nodes g)) pn ->
    (forall i, i < length (p_nodes g) -> nth_error (p_nodes g') (pn i) = nth_error (p_nodes g) i) ->
    Permutation (map (map_edge pn) (p_edges g)) (p_edges g') ->
    p_ins g' = map pn (p_ins g) -> p_outs g' = map pn (p_outs g) -> Iso g g'.
  Proof.
    intros Hn Hb Hl Hp Hi Ho.
    destruct (perm_bij Hp) as (pe & Hbe & Hne). rewrite map_length in Hbe, Hne.
    split; [exact Hn|]. split. { apply Permutation_length in Hp. rewrite map_length in Hp. exact Hp. }
    exists pn, pe. split; [exact Hb|]. split; [exact Hbe|]. split; [exact Hl|]. split; [|auto].
    intros e He. rewrite Hne by exact He. apply nth_error_map.
  Qed.

  Lemma NIso_Iso g g' : NIso g g' -> Iso g g'.
  Proof.
    intros (Hn & pn & Hb & Hl & He & Hi & Ho).
    apply Iso_of_perm with pn; auto. rewrite He. apply Permutation_refl.
  Qed.

  Lemma NIso_refl g : NIso g g.
  Proof.
    split; [reflexivity|]. exists (fun i => i). split; [apply bij_on_id|]. split; [auto|].
    rewrite !map_id. split; [|auto]. rewrite <- (map_id (p_edges g)) at 1.
    apply map_ext. intros e. symmetry. apply map_edge_id.
  Qed.

  Lemma Iso_refl g : Iso g g.
  Proof. apply NIso_Iso, NIso_refl. Qed.

  Lemma NIso_trans g g' g'' : NIso g g' -> NIso g' g'' -> NIso g g''.
  Proof.
    intros (Hn & pn & Hb & Hl & He & Hi & Ho) (Hn' & pn' & Hb' & Hl' & He' & Hi' & Ho').
    split; [congruence|]. exists (fun i => pn' (pn i)). split; [|split; [|split; [|split]]].
    - apply bij_on_comp; auto. rewrite Hn. exact Hb'.
    - intros i H. rewrite Hl' by (rewrite <- Hn; apply Hb; exact H). auto.
    - rewrite He', He, map_map. apply map_ext. apply map_edge_comp.
    - rewrite Hi', Hi, map_map. reflexivity.
    - rewrite Ho', Ho, map_map. reflexivity.
  Qed.

  Lemma Iso_trans g g' g'' : Iso g g' -> Iso g' g'' -> Iso g g''.
  Proof.
    intros (Hn & Hm & pn & pe & Hb & Hbe & Hl & He & Hi & Ho)
           (Hn' & Hm' & pn' & pe' & Hb' & Hbe' & Hl' & He' & Hi' & Ho').
    split; [congruence|]. split; [congruence|].
    exists (fun i => pn' (pn i)), (fun e => pe' (pe e)).
    split; [|split; [|split; [|split; [|split]]]].
    - apply bij_on_comp; auto. rewrite Hn. exact Hb'.
    - apply bij_on_comp; auto. rewrite Hm. exact Hbe'.
    - intros i H. rewrite Hl' by (rewrite <- Hn; apply Hb; exact H). auto.
    - intros e H. rewrite He' by (rewrite <- Hm; apply Hbe; exact H). rewrite He by exact H.
      destruct (nth_error (p_edges g) e) as [x|]; cbn [option_map]; [|reflexivity].
      rewrite map_edge_comp. reflexivity.
    - rewrite Hi', Hi, map_map. reflexivity.
    - rewrite Ho', Ho, map_map. reflexivity.
  Qed.

  Lemma Iso_sym g g' : pwf g -> Iso g g' -> Iso g' g.
  Proof.
    intros W (Hn & Hm & pn & pe & Hb & Hbe & Hl & He & Hi & Ho).
    pose proof W as (We & Wi & Wo).
    split; [auto|]. split; [auto|].
    exists (inv_on (length (p_nodes g)) pn), (inv_on (length (p_edges g)) pe).
    rewrite <- Hn, <- Hm.
    split; [apply bij_on_inv; auto|]. split; [apply bij_on_inv; auto|].
    split; [|split; [|split]].
    - intros j Hj. destruct (inv_on_r Hb Hj) as [H1 H2].
      rewrite <- (Hl _ H1), H2. reflexivity.
    - intros e' He'. destruct (inv_on_r Hbe He') as [H1 H2].
      pose proof (He _ H1) as E. rewrite H2 in E. rewrite E.
      destruct (nth_error (p_edges g) (inv_on (length (p_edges g)) pe e')) as [x|] eqn:Ex;
        cbn [option_map]; [|reflexivity].
      apply nth_error_In in Ex. destruct (We x Ex) as [Hs Ht].
      rewrite map_edge_comp. f_equal.
      rewrite (@map_edge_ext_lt (length (p_nodes g)) _ (fun i => i) x Hs Ht).
      + symmetry. apply map_edge_id.
      + intros y Hy. apply inv_on_l; auto.
    - rewrite Hi. symmetry. apply map_inv_on; auto.
    - rewrite Ho. symmetry. apply map_inv_on; auto.
  Qed.

  Lemma NIso_sym g g' : pwf g -> NIso g g' -> NIso g' g.
  Proof.
    intros W (Hn & pn & Hb & Hl & He & Hi & Ho).
    pose proof W as (We & Wi & Wo).
    split; [auto|]. exists (inv_on (length (p_nodes g)) pn). rewrite <- Hn.
    split; [apply bij_on_inv; auto|]. split; [|split; [|split]].
    - intros j Hj. destruct (inv_on_r Hb Hj) as [H1 H2].
      rewrite <- (Hl _ H1), H2. reflexivity.
    - rewrite He, map_map. symmetry. rewrite <- (map_id (p_edges g)) at 2.
      apply map_ext_in. intros x Ex. destruct (We x Ex) as [Hs Ht].
      rewrite map_edge_comp.
      rewrite (@map_edge_ext_lt (length (p_nodes g)) _ (fun i => i) x Hs Ht).
      + apply map_edge_id.
      + intros y Hy. apply inv_on_l; auto.
    - rewrite Hi. symmetry. apply map_inv_on; auto.
    - rewrite Ho. symmetry. apply map_inv_on; auto.
  Qed.

  (* an isomorphic copy of a pwf diagram is pwf *)
  Lemma Iso_pwf g g' : pwf g -> Iso g g' -> pwf g'.
  Proof.
    intros (We & Wi & Wo) (Hn & Hm & pn & pe & Hb & Hbe & Hl & He & Hi & Ho).
    unfold pwf. rewrite <- Hn, Hi, Ho. split; [|split].
    - intros e' Hin. apply In_nth_error in Hin. destruct Hin as (k & Hk).
      assert (Hklt : k < length (p_edges g)).
      { rewrite Hm. apply nth_error_Some. congruence. }
      destruct (bij_on_surj Hbe Hklt) as (e & Helt & <-).
      rewrite (He _ Helt) in Hk.
      destruct (nth_error (p_edges g) e) as [x|] eqn:Ex; cbn [option_map] in Hk; [|discriminate].
      inversion Hk; subst e'. apply nth_error_In in Ex. destruct (We x Ex) as [Hs Ht].
      cbn [map_edge pe_src pe_tgt]. destruct Hb as [Hr _].
      split; apply all_lt_map with (n := length (p_nodes g)); auto.
    - destruct Hb as [Hr _]. apply all_lt_map with (n := length (p_nodes g)); auto.
    - destruct Hb as [Hr _]. apply all_lt_map with (n := length (p_nodes g)); auto.
  Qed.

  (* ----- quotients ----- *)
  Lemma IsQuot_id D : IsQuot D (fun i => i) D.
  Proof.
    unfold IsQuot. rewrite !map_id. split; [auto|]. split; [eauto|]. split; [auto|].
    split; [|auto]. rewrite <- (map_id (p_edges D)) at 1.
    apply map_ext. intros e. symmetry. apply map_edge_id.
  Qed.

  Lemma quot_trans D q h q' k : IsQuot D q h -> IsQuot h q' k -> IsQuot D (fun i => q' (q i)) k.
  Proof.
    intros (Hr & Hs & Hl & He & Hi & Ho) (Hr' & Hs' & Hl' & He' & Hi' & Ho').
    split; [auto|]. split; [|split; [|split; [|split]]].
    - intros j Hj. destruct (Hs' j Hj) as (x & Hx & <-). destruct (Hs x Hx) as (i & Hi0 & <-). eauto.
    - intros i H. rewrite Hl' by auto. auto.
    - rewrite He', He, map_map. apply map_ext. apply map_edge_comp.
    - rewrite Hi', Hi, map_map. reflexivity.
    - rewrite Ho', Ho, map_map. reflexivity.
  Qed.

  Lemma quot_pwf D q h : pwf D -> IsQuot D q h -> pwf h.
  Proof.
    intros (We & Wi & Wo) (Hr & Hs & Hl & He & Hi & Ho).
    unfold pwf. rewrite He, Hi, Ho. split; [|split].
    - intros e' Hin. apply in_map_iff in Hin. destruct Hin as (x & <- & Ex).
      destruct (We x Ex) as [Hs' Ht']. cbn [map_edge pe_src pe_tgt].
      split; apply all_lt_map with (n := length (p_nodes D)); auto.
    - apply all_lt_map with (n := length (p_nodes D)); auto.
    - apply all_lt_map with (n := length (p_nodes D)); auto.
  Qed.

  (* the body (nodes and hyperedges) of a quotient of a disjoint union *)
  Lemma quot_sum_body D1 D2 q1 q2 h1 h2 : pwf D1 -> IsQuot D1 q1 h1 -> IsQuot D2 q2 h2 ->
    let Q := qsum (length (p_nodes D1)) (length (p_nodes h1)) q1 q2 in
    (forall i, i < length (p_nodes D1 ++ p_nodes D2) -> Q i < length (p_nodes h1 ++ p_nodes h2)) /\
    (forall j, j < length (p_nodes h1 ++ p_nodes h2) ->
       exists i, i < length (p_nodes D1 ++ p_nodes D2) /\ Q i = j) /\
    (forall i, i < length (p_nodes D1 ++ p_nodes D2) ->
       nth_error (p_nodes h1 ++ p_nodes h2) (Q i) = nth_error (p_nodes D1 ++ p_nodes D2) i) /\
    p_edges h1 ++ map (shift_edge (length (p_nodes h1))) (p_edges h2) =
    map (map_edge Q) (p_edges D1 ++ map (shift_edge (length (p_nodes D1))) (p_edges D2)).
  Proof.
    intros W (Hr1 & Hs1 & Hl1 & He1 & _) (Hr2 & Hs2 & Hl2 & He2 & _) Q.
    rewrite !app_length. split; [|split; [|split]].
    - intros i Hi. unfold Q. destruct (lt_dec i (length (p_nodes D1))) as [L|L].
      + rewrite qsum_l by auto. specialize (Hr1 i L). lia.
      + rewrite qsum_r by lia. specialize (Hr2 (i - length (p_nodes D1))). lia.
    - intros j Hj. destruct (lt_dec j (length (p_nodes h1))) as [L|L].
      + destruct (Hs1 j L) as (i & Hi & E). exists i. split; [lia|]. unfold Q. rewrite qsum_l; auto.
      + destruct (Hs2 (j - length (p_nodes h1))) as (i & Hi & E); [lia|].
        exists (i + length (p_nodes D1)). split; [lia|]. unfold Q. rewrite qsum_r'. lia.
    - intros i Hi. unfold Q. destruct (lt_dec i (length (p_nodes D1))) as [L|L].
      + rewrite qsum_l by auto. rewrite !nth_error_app1; auto.
      + rewrite qsum_r by lia. rewrite !nth_error_app2 by lia.
        replace (q2 (i - length (p_nodes D1)) + length (p_nodes h1) - length (p_nodes h1))
          with (q2 (i - length (p_nodes D1))) by lia.
        apply Hl2. lia.
    - rewrite map_app. f_equal.
      + rewrite He1. apply map_edges_ext; auto. intros x Hx. unfold Q. symmetry. apply qsum_l; auto.
      + rewrite He2, !map_map. apply map_ext. intros e. unfold map_edge, shift_edge, Q.
        cbn [pe_lbl pe_src pe_tgt]. rewrite !map_qsum_r. reflexivity.
  Qed.

  Lemma IsQuot_ptensor D1 D2 q1 q2 h1 h2 : pwf D1 -> IsQuot D1 q1 h1 -> IsQuot D2 q2 h2 ->
    IsQuot (ptensor D1 D2) (qsum (length (p_nodes D1)) (length (p_nodes h1)) q1 q2) (ptensor h1 h2).
  Proof.
    intros W Q1 Q2. destruct (quot_sum_body W Q1 Q2) as (B1 & B2 & B3 & B4).
    destruct W as (_ & Wi & Wo).
    destruct Q1 as (_ & _ & _ & _ & Hi1 & Ho1). destruct Q2 as (_ & _ & _ & _ & Hi2 & Ho2).
    unfold IsQuot, ptensor. cbn [p_nodes p_edges p_ins p_outs].
    split; [exact B1|]. split; [exact B2|]. split; [exact B3|]. split; [exact B4|].
    rewrite !map_app, !map_qsum_r, !map_qsum_l by assumption.
    rewrite Hi1, Hi2, Ho1, Ho2. auto.
  Qed.

  Lemma IsQuot_pjoin D1 D2 q1 q2 h1 h2 : pwf D1 -> IsQuot D1 q1 h1 -> IsQuot D2 q2 h2 ->
    IsQuot (pjoin D1 D2) (qsum (length (p_nodes D1)) (length (p_nodes h1)) q1 q2) (pjoin h1 h2).
  Proof.
    intros W Q1 Q2. destruct (quot_sum_body W Q1 Q2) as (B1 & B2 & B3 & B4).
    destruct W as (_ & Wi & Wo).
    destruct Q1 as (_ & _ & _ & _ & Hi1 & Ho1). destruct Q2 as (_ & _ & _ & _ & Hi2 & Ho2).
    unfold IsQuot, pjoin. cbn [p_nodes p_edges p_ins p_outs].
    split; [exact B1|]. split; [exact B2|]. split; [exact B3|]. split; [exact B4|].
    rewrite !map_qsum_r, !map_qsum_l by assumption.
    rewrite Hi1, Ho2. auto.
  Qed.

  (* quotients of isomorphic diagrams with corresponding kernels are isomorphic *)
  Theorem quot_iso D D' pn q q' h h' : pwf D ->
    length (p_nodes D) = length (p_nodes D') ->
    bij_on (length (p_nodes D)) pn ->
    (forall i, i < length (p_nodes D) -> nth_error (p_nodes D') (pn i) = nth_error (p_nodes D) i) ->
    Permutation (map (map_edge pn) (p_edges D)) (p_edges D') ->
    p_ins D' = map pn (p_ins D) -> p_outs D' = map pn (p_outs D) ->
    IsQuot D q h -> IsQuot D' q' h' ->
    (forall i j, i < length (p_nodes D) -> j < length (p_nodes D) ->
       (q i = q j <-> q' (pn i) = q' (pn j))) ->
    Iso h h'.
  Proof.
    intros W Hn Hb Hl Hp Hi Ho Q Q' Hk.
    destruct Q' as (Hr' & Hs' & Hl' & He' & Hi' & Ho').
    pose (h'' := mkP (p_nodes h') (map (map_edge (fun i => q' (pn i))) (p_edges D))
                     (p_ins h') (p_outs h')).
    assert (Q'' : IsQuot D (fun i => q' (pn i)) h'').
    { unfold IsQuot, h''. cbn [p_nodes p_edges p_ins p_outs]. destruct Hb as [Hbr Hbi].
      split; [|split; [|split; [|split; [|split]]]].
      - intros i H. apply Hr'. rewrite <- Hn. auto.
      - intros j Hj. destruct (Hs' j Hj) as (x & Hx & <-). rewrite <- Hn in Hx.
        destruct (bij_on_surj (conj Hbr Hbi) Hx) as (i & H & <-). eauto.
      - intros i H. rewrite Hl' by (rewrite <- Hn; auto). auto.
      - reflexivity.
      - rewrite Hi', Hi, map_map. reflexivity.
      - rewrite Ho', Ho, map_map. reflexivity. }
    apply Iso_trans with h''.
    - apply NIso_Iso. apply (quot_unique W Q Q''). exact Hk.
    - apply Iso_of_perm with (fun i => i).
      + reflexivity.
      + apply bij_on_id.
      + auto.
      + unfold h''. cbn [p_edges]. rewrite He'.
        rewrite (map_ext _ _ (fun e => map_edge_id e)), map_id.
        rewrite <- (map_ext _ _ (fun e => map_edge_comp pn q' e)), <- map_map.
        apply Permutation_map. exact Hp.
      + unfold h''. cbn [p_ins]. rewrite map_id. reflexivity.
      + unfold h''. cbn [p_outs]. rewrite map_id. reflexivity.
  Qed.
  (* ----- Iso is a congruence for ptensor ----- *)
  Lemma map_edge_qsum_r n m q q' (e : pedge A) :
    map_edge (qsum n m q q') (shift_edge n e) = shift_edge m (map_edge q' e).
  Proof.
    unfold map_edge, shift_edge. cbn [pe_lbl pe_src pe_tgt]. rewrite !map_qsum_r. reflexivity.
  Qed.

  Lemma bij_on_qsum n m p p' : bij_on n p -> bij_on m p' -> bij_on (n + m) (qsum n n p p').
  Proof.
    intros [Hr Hi] [Hr' Hi']. split.
    - intros i H. destruct (lt_dec i n) as [L|L].
      + rewrite qsum_l by auto. specialize (Hr i L). lia.
      + rewrite qsum_r by lia. specialize (Hr' (i - n)). lia.
    - intros i j H1 H2. destruct (lt_dec i n) as [L|L]; destruct (lt_dec j n) as [L'|L'].
      + rewrite !qsum_l by auto. auto.
      + rewrite qsum_l by auto. rewrite qsum_r by lia. specialize (Hr i L). lia.
      + rewrite qsum_l with (i := j) by auto. rewrite qsum_r by lia. specialize (Hr j L'). lia.
      + rewrite !qsum_r by lia. intros E. assert (i - n = j - n) by (apply Hi'; lia). lia.
  Qed.

  Theorem Iso_ptensor f f' g g' : pwf f -> Iso f f' -> Iso g g' -> Iso (ptensor f g) (ptensor f' g').
  Proof.
    intros W (Hn & Hm & pn & pe & Hb & Hbe & Hl & He & Hi & Ho)
             (Hn' & Hm' & pn' & pe' & Hb' & Hbe' & Hl' & He' & Hi' & Ho').
    pose proof W as (We & Wi & Wo).
    unfold Iso, ptensor. cbn [p_nodes p_edges p_ins p_outs].
    rewrite !app_length, !map_length. split; [lia|]. split; [lia|].
    exists (qsum (length (p_nodes f)) (length (p_nodes f')) pn pn'),
           (qsum (length (p_edges f)) (length (p_edges f')) pe pe').
    split; [rewrite <- Hn; apply bij_on_qsum; auto|].
    split; [rewrite <- Hm; apply bij_on_qsum; auto|].
    split; [|split; [|split]].
    - intros i H. destruct (lt_dec i (length (p_nodes f))) as [L|L].
      + rewrite qsum_l by auto. destruct Hb as [Hr _]. specialize (Hr i L).
        rewrite !nth_error_app1 by lia. auto.
      + rewrite qsum_r by lia. rewrite !nth_error_app2 by lia.
        replace (pn' (i - length (p_nodes f)) + length (p_nodes f') - length (p_nodes f'))
          with (pn' (i - length (p_nodes f))) by lia.
        apply Hl'. lia.
    - intros e H. destruct (lt_dec e (length (p_edges f))) as [L|L].
      + rewrite qsum_l by auto. destruct Hbe as [Hr _]. specialize (Hr e L).
        rewrite !nth_error_app1 by lia. rewrite He by auto.
        destruct (nth_error (p_edges f) e) as [x|] eqn:Ex; cbn [option_map]; [|reflexivity].
        apply nth_error_In in Ex. destruct (We x Ex) as [Hs Ht]. f_equal.
        apply map_edge_ext_lt with (length (p_nodes f)); auto.
        intros y Hy. symmetry. apply qsum_l. exact Hy.
      + rewrite qsum_r by lia. rewrite !nth_error_app2 by lia.
        replace (pe' (e - length (p_edges f)) + length (p_edges f') - length (p_edges f'))
          with (pe' (e - length (p_edges f))) by lia.
        rewrite !nth_error_map, He' by lia.
        destruct (nth_error (p_edges g) (e - length (p_edges f))) as [x|]; cbn [option_map];
          [|reflexivity].
        rewrite map_edge_qsum_r. reflexivity.
    - rewrite map_app, map_qsum_l, map_qsum_r by exact Wi. rewrite Hi, Hi'. reflexivity.
    - rewrite map_app, map_qsum_l, map_qsum_r by exact Wo. rewrite Ho, Ho'. reflexivity.
  Qed.
End Plain.
