(* Pure facts about [segs] (decoding of segmented arrays), cumulative sums, and the pure views of
   the array primitives used by the segmented-array operations: segmented_sum, segmented_arange,
   ff_injections, gather over concatenated ranges. *)
From OHG Require Import Spec.Plain Proofs.PrimsThm.

Set Implicit Arguments.

Arguments Nat.sub : simpl never.

(* ---------- list_sum, firstn, skipn ---------- *)
Lemma list_sum_firstn_skipn l k : list_sum (firstn k l) + list_sum (skipn k l) = list_sum l.
Proof. rewrite <- list_sum_app, firstn_skipn. reflexivity. Qed.

Lemma list_sum_firstn_le l k : list_sum (firstn k l) <= list_sum l.
Proof. pose proof (list_sum_firstn_skipn l k). lia. Qed.

Lemma firstn_add {T} a b (l : list T) : firstn (a + b) l = firstn a l ++ firstn b (skipn a l).
Proof.
  revert l; induction a as [|a IH]; intros l; simpl. reflexivity.
  destruct l as [|x l]; simpl. rewrite firstn_nil. reflexivity.
  rewrite IH. reflexivity.
Qed.

Lemma skipn_add {T} a b (l : list T) : skipn (a + b) l = skipn b (skipn a l).
Proof.
  revert l; induction a as [|a IH]; intros l; simpl. reflexivity.
  destruct l as [|x l]; simpl. rewrite skipn_nil. reflexivity.
  apply IH.
Qed.

Lemma list_sum_repeat x n : list_sum (repeat x n) = n * x.
Proof. induction n as [|n IH]; simpl; auto. Qed.

Lemma list_sum_map_length {T} (ls : list (list T)) : list_sum (map (@length T) ls) = length (concat ls).
Proof. induction ls as [|l ls IH]; simpl; auto. rewrite app_length, IH. reflexivity. Qed.

Lemma nth_In_le_sum l i : nth i l 0 <= list_sum l.
Proof.
  revert i; induction l as [|x l IH]; intros [|i]; simpl; try lia.
  specialize (IH i). lia.
Qed.

Lemma list_sum_firstn_S l i : i < length l ->
  list_sum (firstn (S i) l) = list_sum (firstn i l) + nth i l 0.
Proof.
  revert i; induction l as [|x l IH]; intros [|i] H; simpl in *; try lia.
  rewrite IH by lia. lia.
Qed.

Lemma prefix_plus_size_le l i : list_sum (firstn i l) + nth i l 0 <= list_sum l.
Proof.
  destruct (Nat.lt_ge_cases i (length l)) as [H|H].
  - rewrite <- list_sum_firstn_S by auto. apply list_sum_firstn_le.
  - rewrite nth_overflow by auto. rewrite firstn_all2 by auto. lia.
Qed.

(* ---------- segs ---------- *)
Section Segs.
  Variable T : Type.
  Implicit Types (v : list T) (sizes : list nat).

  Lemma segs_length sizes v : length (segs sizes v) = length sizes.
  Proof. revert v; induction sizes as [|k s IH]; intros v; simpl; auto. Qed.

  Lemma segs_concat_gen sizes v : concat (segs sizes v) = firstn (list_sum sizes) v.
  Proof.
    revert v; induction sizes as [|k s IH]; intros v; simpl. reflexivity.
    rewrite IH, firstn_add. reflexivity.
  Qed.

  Lemma segs_concat sizes v : list_sum sizes = length v -> concat (segs sizes v) = v.
  Proof. intros H. rewrite segs_concat_gen, H. apply firstn_all. Qed.

  Lemma segs_app_gen s1 s2 v :
    segs (s1 ++ s2) v = segs s1 v ++ segs s2 (skipn (list_sum s1) v).
  Proof.
    revert v; induction s1 as [|k s IH]; intros v; simpl. reflexivity.
    rewrite IH, skipn_add. reflexivity.
  Qed.

  Lemma segs_firstn_vals sizes v n : list_sum sizes <= n -> segs sizes (firstn n v) = segs sizes v.
  Proof.
    revert v n; induction sizes as [|k s IH]; intros v n H; simpl in *. reflexivity.
    rewrite firstn_firstn, Nat.min_l by lia. f_equal.
    rewrite skipn_firstn_comm. apply IH. lia.
  Qed.

  Lemma segs_app_vals sizes v w : list_sum sizes <= length v -> segs sizes (v ++ w) = segs sizes v.
  Proof.
    intros H. rewrite <- (segs_firstn_vals sizes (v ++ w) (n := length v)) by auto.
    rewrite firstn_app, Nat.sub_diag, firstn_all. simpl. rewrite app_nil_r. reflexivity.
  Qed.

  Lemma segs_app s1 s2 v1 v2 : list_sum s1 = length v1 ->
    segs (s1 ++ s2) (v1 ++ v2) = segs s1 v1 ++ segs s2 v2.
  Proof.
    intros H. rewrite segs_app_gen. rewrite segs_app_vals by lia.
    rewrite H, skipn_app, skipn_all, Nat.sub_diag. reflexivity.
  Qed.

  Lemma segs_firstn sizes v k : firstn k (segs sizes v) = segs (firstn k sizes) v.
  Proof.
    revert v k; induction sizes as [|x s IH]; intros v [|k]; simpl; auto.
    rewrite IH. reflexivity.
  Qed.

  Lemma segs_skipn sizes v k :
    skipn k (segs sizes v) = segs (skipn k sizes) (skipn (list_sum (firstn k sizes)) v).
  Proof.
    revert v k; induction sizes as [|x s IH]; intros v [|k]; simpl; auto.
    rewrite IH, skipn_add. reflexivity.
  Qed.

  Lemma segs_nth sizes v i :
    nth i (segs sizes v) [] = firstn (nth i sizes 0) (skipn (list_sum (firstn i sizes)) v).
  Proof.
    revert v i; induction sizes as [|x s IH]; intros v [|i]; simpl; auto.
    rewrite IH, skipn_add. reflexivity.
  Qed.

  Lemma segs_nth_length sizes v i : list_sum sizes <= length v ->
    length (nth i (segs sizes v) []) = nth i sizes 0.
  Proof.
    intros H. rewrite segs_nth, firstn_length, skipn_length.
    pose proof (prefix_plus_size_le sizes i). lia.
  Qed.

  Lemma segs_lengths sizes v : list_sum sizes <= length v ->
    map (@length T) (segs sizes v) = sizes.
  Proof.
    revert v; induction sizes as [|x s IH]; intros v H; simpl in *. reflexivity.
    rewrite firstn_length, IH by (rewrite skipn_length; lia). f_equal. lia.
  Qed.

  (* every list of lists is the decoding of its concatenation along its lengths *)
  Lemma segs_of_concat (ls : list (list T)) : segs (map (@length T) ls) (concat ls) = ls.
  Proof.
    induction ls as [|l ls IH]; simpl. reflexivity.
    rewrite firstn_app, Nat.sub_diag, firstn_all. simpl. rewrite app_nil_r. f_equal.
    rewrite skipn_app, skipn_all, Nat.sub_diag. simpl. exact IH.
  Qed.

  Lemma segs_ext sizes v (ls : list (list T)) :
    map (@length T) ls = sizes -> concat ls = firstn (list_sum sizes) v -> segs sizes v = ls.
  Proof.
    intros <- H. rewrite <- (segs_firstn_vals _ v (n := list_sum (map (@length T) ls))) by auto.
    rewrite <- H. apply segs_of_concat.
  Qed.

  Lemma segs_repeat1 v : segs (repeat 1 (length v)) v = map (fun x => [x]) v.
  Proof. induction v as [|x v IH]; simpl; auto. rewrite IH. reflexivity. Qed.

  Lemma segs_single v : segs [length v] v = [v].
  Proof. simpl. rewrite firstn_all. reflexivity. Qed.

  (* regrouping: summing the sizes along an outer segmentation concatenates the segments *)
  Lemma segs_regroup s1 s2 v :
    segs (map list_sum (segs s1 s2)) v = map (@concat T) (segs s1 (segs s2 v)).
  Proof.
    revert s2 v; induction s1 as [|k s1 IH]; intros s2 v; simpl. reflexivity.
    rewrite segs_firstn, segs_concat_gen. f_equal.
    rewrite IH, segs_skipn. reflexivity.
  Qed.
End Segs.

Lemma segs_map {T U} (f : T -> U) sizes v : segs sizes (map f v) = map (map f) (segs sizes v).
Proof.
  revert v; induction sizes as [|k s IH]; intros v; simpl. reflexivity.
  rewrite firstn_map, skipn_map, IH. reflexivity.
Qed.

Lemma segs_sum_concat s1 s2 : list_sum s1 = length s2 ->
  list_sum (map list_sum (segs s1 s2)) = list_sum s2.
Proof.
  intros H. rewrite <- (segs_concat s1 s2 H) at 2.
  generalize (segs s1 s2). intros ls. induction ls as [|l ls IH]; simpl; auto.
  rewrite list_sum_app, IH. reflexivity.
Qed.

Lemma segs_flat_map {T U} (g : T -> list U) s (l : list T) :
  segs (map list_sum (segs s (map (fun j => length (g j)) l))) (flat_map g l)
  = map (flat_map g) (segs s l).
Proof.
  rewrite segs_regroup. rewrite flat_map_concat_map.
  rewrite <- (map_map g (@length U)). rewrite segs_of_concat.
  rewrite segs_map, map_map. apply map_ext. intros a. rewrite flat_map_concat_map. reflexivity.
Qed.

(* ---------- prefix sums ---------- *)
(* exclusive ([pre]) and inclusive ([post]) running sums started at [a] *)
Fixpoint pre (a : nat) (sizes : list nat) : list nat :=
  match sizes with [] => [] | x :: xs => a :: pre (a + x) xs end.
Fixpoint post (a : nat) (sizes : list nat) : list nat :=
  match sizes with [] => [] | x :: xs => (a + x) :: post (a + x) xs end.

Lemma pre_length a sizes : length (pre a sizes) = length sizes.
Proof. revert a; induction sizes as [|x s IH]; intros a; simpl; auto. Qed.

Lemma post_length a sizes : length (post a sizes) = length sizes.
Proof. revert a; induction sizes as [|x s IH]; intros a; simpl; auto. Qed.

Lemma cumsum_from_cons a sizes : cumsum_from a sizes = a :: post a sizes.
Proof. revert a; induction sizes as [|x s IH]; intros a; simpl; auto. rewrite IH. reflexivity. Qed.

Lemma cumsum_from_snoc a sizes : cumsum_from a sizes = pre a sizes ++ [a + list_sum sizes].
Proof.
  revert a; induction sizes as [|x s IH]; intros a; simpl. rewrite Nat.add_0_r. reflexivity.
  rewrite IH, Nat.add_assoc. reflexivity.
Qed.

Lemma pre_bound a sizes : Forall (fun j => j <= a + list_sum sizes) (pre a sizes).
Proof.
  revert a; induction sizes as [|x s IH]; intros a; simpl; constructor. lia.
  eapply Forall_impl. 2: apply IH. simpl. intros j Hj. lia.
Qed.

Lemma post_bound a sizes : Forall (fun j => j <= a + list_sum sizes) (post a sizes).
Proof.
  revert a; induction sizes as [|x s IH]; intros a; simpl; constructor. lia.
  eapply Forall_impl. 2: apply IH. simpl. intros j Hj. lia.
Qed.

Lemma get_range_from1 sizes :
  get_range (cumulative_sum sizes) (RFrom 1) = Ok (post 0 sizes).
Proof.
  unfold get_range, to_range, cumulative_sum. rewrite cumsum_from_cons.
  rewrite slice_ok by (simpl; lia). f_equal. cbn [skipn length].
  rewrite firstn_all2. reflexivity. rewrite post_length. lia.
Qed.

Lemma get_range_to_n sizes :
  get_range (cumulative_sum sizes) (RTo (length sizes)) = Ok (pre 0 sizes).
Proof.
  unfold get_range, to_range, cumulative_sum.
  rewrite slice_ok by (rewrite ?cumsum_from_length; lia). f_equal. cbn [skipn].
  rewrite Nat.sub_0_r, cumsum_from_snoc. rewrite <- (pre_length 0 sizes) at 1.
  rewrite firstn_app, Nat.sub_diag, firstn_all. simpl. apply app_nil_r.
Qed.

Lemma sub_chk_ok a b : b <= a -> sub_chk a b = Ok (a - b).
Proof. intros H. unfold sub_chk. apply Nat.leb_le in H. rewrite H. reflexivity. Qed.

Lemma sub_chk_panic a b : a < b -> sub_chk a b = Panic.
Proof. intros H. unfold sub_chk. destruct (b <=? a) eqn:E; auto. apply Nat.leb_le in E. lia. Qed.

(* ---------- segmented_sum ---------- *)
Lemma segsum_pure xs sizes : forall a, a + list_sum sizes <= length xs ->
  let S := fun j => list_sum (firstn j xs) in
  Forall (fun p => snd p <= fst p) (combine (map S (post a sizes)) (map S (pre a sizes))) /\
  map (fun p => fst p - snd p) (combine (map S (post a sizes)) (map S (pre a sizes)))
  = map list_sum (segs sizes (skipn a xs)).
Proof.
  induction sizes as [|x s IH]; intros a H S; simpl in *. split; auto.
  destruct (IH (a + x)) as [IH1 IH2]. lia.
  assert (E : S (a + x) = S a + list_sum (firstn x (skipn a xs))).
  { unfold S. rewrite firstn_add, list_sum_app. reflexivity. }
  split.
  - constructor; auto. simpl. lia.
  - f_equal. lia. fold S in IH2. rewrite IH2, skipn_add. reflexivity.
Qed.

Lemma segmented_sum_ok sizes xs : list_sum sizes <= length xs ->
  segmented_sum sizes xs = Ok (map list_sum (segs sizes xs)).
Proof.
  intros H. unfold segmented_sum.
  rewrite get_range_from1. cbn [bind].
  rewrite (gather_ok _ 0).
  2:{ eapply Forall_impl. 2: apply post_bound. simpl. intros j Hj.
      rewrite cumulative_sum_length. lia. }
  cbn [bind]. rewrite cumulative_sum_length, sub_chk_ok by lia. cbn [bind].
  replace (S (length sizes) - 1) with (length sizes) by lia.
  rewrite get_range_to_n. cbn [bind].
  rewrite (gather_ok _ 0).
  2:{ eapply Forall_impl. 2: apply pre_bound. simpl. intros j Hj.
      rewrite cumulative_sum_length. lia. }
  cbn [bind].
  assert (Epost : map (fun i => nth i (cumulative_sum xs) 0) (post 0 sizes)
                  = map (fun j => list_sum (firstn j xs)) (post 0 sizes)).
  { apply map_ext_in. intros j Hj. apply nth_cumulative_sum.
    pose proof (post_bound 0 sizes) as F. rewrite Forall_forall in F. specialize (F j Hj). simpl in F. lia. }
  assert (Epre : map (fun i => nth i (cumulative_sum xs) 0) (pre 0 sizes)
                 = map (fun j => list_sum (firstn j xs)) (pre 0 sizes)).
  { apply map_ext_in. intros j Hj. apply nth_cumulative_sum.
    pose proof (pre_bound 0 sizes) as F. rewrite Forall_forall in F. specialize (F j Hj). simpl in F. lia. }
  rewrite Epost, Epre.
  destruct (@segsum_pure xs sizes 0) as [F E]. simpl; lia.
  rewrite asub_ok; auto. 2: rewrite !map_length, post_length, pre_length; reflexivity.
  f_equal. exact E.
Qed.

Lemma post_last sizes : forall a, sizes <> [] -> In (a + list_sum sizes) (post a sizes).
Proof.
  induction sizes as [|x s IH]; intros a H. congruence.
  simpl. destruct s as [|y s].
  - left. simpl. lia.
  - right. replace (a + (x + list_sum (y :: s))) with (a + x + list_sum (y :: s)) by lia.
    apply IH. discriminate.
Qed.

Lemma segmented_sum_panic sizes xs : length xs < list_sum sizes -> segmented_sum sizes xs = Panic.
Proof.
  intros H. unfold segmented_sum. rewrite get_range_from1. cbn [bind].
  rewrite gather_panic. reflexivity.
  intros F. rewrite cumulative_sum_length in F.
  assert (Hne : sizes <> []). { intros ->. simpl in H. lia. }
  pose proof (post_last 0 Hne) as HIn. rewrite Forall_forall in F.
  specialize (F _ HIn). simpl in F. lia.
Qed.

(* ---------- asub of a sum ---------- *)
Lemma asub_add zs : forall ys, length zs = length ys ->
  asub (map (fun p => fst p + snd p) (combine zs ys)) ys = Ok zs.
Proof.
  intros ys H. unfold asub.
  rewrite map_length, combine_length, H, Nat.min_id, Nat.eqb_refl. cbn [assert bind].
  revert ys H. induction zs as [|z zs IH]; intros [|y ys] H; simpl in *; try lia. reflexivity.
  rewrite sub_chk_ok by lia. cbn [bind]. rewrite IH by lia. cbn [bind].
  f_equal. f_equal. lia.
Qed.

Lemma combine_app {A B} (a1 a2 : list A) (b1 b2 : list B) : length a1 = length b1 ->
  combine (a1 ++ a2) (b1 ++ b2) = combine a1 b1 ++ combine a2 b2.
Proof.
  revert b1; induction a1 as [|x a1 IH]; intros [|y b1] H; simpl in *; try lia. reflexivity.
  rewrite IH by lia. reflexivity.
Qed.

Lemma add_seq_repeat b o k :
  map (fun p => fst p + snd p) (combine (seq b k) (repeat o k)) = seq (b + o) k.
Proof.
  revert b; induction k as [|k IH]; intros b; simpl. reflexivity.
  rewrite IH. reflexivity.
Qed.

Definition rep_pairs (ks vs : list nat) : list nat :=
  flat_map (fun p => repeat (snd p) (fst p)) (combine ks vs).

Lemma flat_seq0_length ks : length (flat_map (seq 0) ks) = list_sum ks.
Proof. induction ks as [|k ks IH]; simpl; auto. rewrite app_length, seq_length, IH. reflexivity. Qed.

Lemma rep_pairs_length ks : forall vs, length ks = length vs -> length (rep_pairs ks vs) = list_sum ks.
Proof.
  unfold rep_pairs. induction ks as [|k ks IH]; intros [|v vs] H; simpl in *; try lia.
  rewrite app_length, repeat_length, IH by lia. reflexivity.
Qed.

(* ---------- segmented_arange ---------- *)
Lemma segarange_pure sizes : forall a,
  seq a (list_sum sizes)
  = map (fun p => fst p + snd p) (combine (flat_map (seq 0) sizes) (rep_pairs sizes (pre a sizes))).
Proof.
  unfold rep_pairs. induction sizes as [|x s IH]; intros a; simpl. reflexivity.
  rewrite seq_app, combine_app by (rewrite seq_length, repeat_length; reflexivity).
  rewrite map_app, add_seq_repeat. simpl. f_equal. apply IH.
Qed.

Lemma segmented_arange_ok sizes : segmented_arange sizes = Ok (flat_map (seq 0) sizes).
Proof.
  unfold segmented_arange.
  rewrite cumulative_sum_length, sub_chk_ok by lia. cbn [bind].
  replace (S (length sizes) - 1) with (length sizes) by lia.
  rewrite (get_ok _ 0) by (rewrite cumulative_sum_length; lia). cbn [bind].
  rewrite nth_cumulative_sum, firstn_all by lia.
  rewrite get_range_to_n. cbn [bind].
  rewrite arepeat_ok by (rewrite pre_length; reflexivity). cbn [bind].
  rewrite arange_ok by lia. cbn [bind]. rewrite Nat.sub_0_r.
  rewrite (segarange_pure sizes 0). apply asub_add.
  rewrite flat_seq0_length. symmetry. apply rep_pairs_length. rewrite pre_length. reflexivity.
Qed.

(* ---------- gather over ranges ---------- *)
Lemma mapM_app {A B} (f : A -> res B) l1 l2 r1 r2 :
  mapM f l1 = Ok r1 -> mapM f l2 = Ok r2 -> mapM f (l1 ++ l2) = Ok (r1 ++ r2).
Proof.
  revert r1; induction l1 as [|x l1 IH]; intros r1 H1 H2; simpl in *.
  - inversion H1; subst. exact H2.
  - destruct (f x) as [y| |]; simpl in *; try discriminate.
    destruct (mapM f l1) as [ys| |]; simpl in *; try discriminate.
    inversion H1; subst. rewrite (IH ys) by auto. reflexivity.
Qed.

Lemma skipn_nth_error {T} (v : list T) : forall a x, nth_error v a = Some x ->
  skipn a v = x :: skipn (S a) v.
Proof.
  induction v as [|y v IH]; intros [|a] x H; simpl in *; try discriminate.
  - inversion H; reflexivity.
  - apply IH. exact H.
Qed.

Lemma gather_seq {T} (v : list T) k : forall a, a + k <= length v ->
  gather v (seq a k) = Ok (firstn k (skipn a v)).
Proof.
  unfold gather. induction k as [|k IH]; intros a H; simpl. reflexivity.
  destruct (nth_error v a) as [x|] eqn:E.
  2:{ apply nth_error_None in E. lia. }
  unfold get at 1. rewrite E. cbn [unwrap bind]. rewrite IH by lia. cbn [bind].
  rewrite (skipn_nth_error _ _ E). reflexivity.
Qed.

Lemma gather_flat_ranges {T} (v : list T) (off k : nat -> nat) idx :
  (forall i, In i idx -> off i + k i <= length v) ->
  gather v (flat_map (fun i => seq (off i) (k i)) idx)
  = Ok (flat_map (fun i => firstn (k i) (skipn (off i) v)) idx).
Proof.
  unfold gather. induction idx as [|i idx IH]; intros H; simpl. reflexivity.
  apply mapM_app.
  - apply gather_seq. apply H. left; reflexivity.
  - apply IH. intros j Hj. apply H. right; exact Hj.
Qed.

Lemma gather_Forall {T} (P : T -> Prop) (v : list T) idx r :
  gather v idx = Ok r -> Forall P v -> Forall P r.
Proof.
  intros H F. apply mapM_ok_iff in H. induction H as [|i y idx r Hi _ IH]; constructor; auto.
  apply get_ok_inv in Hi. destruct Hi as [_ Hi]. apply nth_error_In in Hi.
  rewrite Forall_forall in F. auto.
Qed.

Lemma flat_map_ext_in' {A B} (f g : A -> list B) l :
  (forall a, In a l -> f a = g a) -> flat_map f l = flat_map g l.
Proof.
  induction l as [|x l IH]; intros H; simpl. reflexivity.
  rewrite H by (left; reflexivity). rewrite IH. reflexivity.
  intros a Ha. apply H. right; exact Ha.
Qed.

(* ---------- ff_injections ---------- *)
Definition inj_table (sizes idx : list nat) : list nat :=
  flat_map (fun i => seq (list_sum (firstn i sizes)) (nth i sizes 0)) idx.

Lemma inj_pure (o k : nat -> nat) idx :
  map (fun p => fst p + snd p)
      (combine (flat_map (seq 0) (map k idx)) (rep_pairs (map k idx) (map o idx)))
  = flat_map (fun i => seq (o i) (k i)) idx.
Proof.
  unfold rep_pairs. induction idx as [|i idx IH]; simpl. reflexivity.
  rewrite combine_app by (rewrite seq_length, repeat_length; reflexivity).
  rewrite map_app, add_seq_repeat, IH. reflexivity.
Qed.

Lemma ff_injections_none s a : target a <> ff_source s -> ff_injections s a = Ok None.
Proof.
  intros H. unfold ff_injections, ff_compose.
  apply Nat.eqb_neq in H. rewrite H. reflexivity.
Qed.

Lemma ff_injections_ok s a : target a = ff_source s -> wf_ff a ->
  ff_injections s a = Ok (Some (mkFF (inj_table (table s) (table a)) (list_sum (table s)))).
Proof.
  intros Ht Hwf. unfold ff_injections, ff_compose.
  rewrite Ht, Nat.eqb_refl, get_range_full. cbn [bind].
  rewrite (gather_ok _ 0).
  2:{ unfold wf_ff, all_lt in Hwf. rewrite Ht in Hwf. exact Hwf. }
  cbn [bind table]. rewrite segmented_arange_ok. cbn [bind].
  rewrite (gather_ok _ 0).
  2:{ eapply Forall_impl. 2: exact Hwf. simpl. intros i Hi.
      rewrite cumulative_sum_length. unfold ff_source in Ht. lia. }
  cbn [bind]. rewrite get_range_full. cbn [bind].
  rewrite arepeat_ok by (rewrite !map_length; reflexivity). cbn [bind].
  fold (rep_pairs (map (fun i => nth i (table s) 0) (table a))
                  (map (fun i => nth i (cumulative_sum (table s)) 0) (table a))).
  rewrite aadd_ok.
  2:{ rewrite flat_seq0_length, rep_pairs_length by (rewrite !map_length; reflexivity). reflexivity. }
  cbn [bind]. rewrite cumulative_sum_length, sub_chk_ok by lia. cbn [bind].
  replace (S (length (table s)) - 1) with (length (table s)) by lia.
  rewrite (get_ok _ 0) by (rewrite cumulative_sum_length; lia). cbn [bind].
  rewrite nth_cumulative_sum, firstn_all by lia.
  rewrite inj_pure. unfold inj_table. do 3 f_equal.
  apply flat_map_ext_in'. intros i Hi. f_equal.
  apply nth_cumulative_sum. unfold wf_ff, all_lt in Hwf. rewrite Forall_forall in Hwf.
  specialize (Hwf i Hi). unfold ff_source in Ht. lia.
Qed.
