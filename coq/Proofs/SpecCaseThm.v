(* What an "ok" verdict of the specification dispatcher [spec_case] (Run/SpecCheck.v) means.

   [spec_case c impl] judges the textual output [impl] of the implementation on the case [c].  It computes
   the model's own output [run_case c]; per operation it then accepts either textual equality or a boolean
   relation between the decoded outputs (or the agreement with an independent oracle).  This file assembles
   the soundness theorems of Proofs/CheckersThm.v into one statement per branch and one summary:

     0. sx_eqb_eq / sx_eqb_refl, check2_ok
     1. propositional relations   ValIso TRel CoeqRel CCRel ArgsortOK SparseOK SortByOK ScatterOK
                                  IcfPerm LayersRel QRel, Decoded; soundness of each boolean relation
     2. one theorem per branch    spec_ok_law spec_ok_term spec_ok_ohg_compose spec_ok_lohg_to_strict
                                  spec_ok_ff_coequalizer spec_ok_lhg_coequalizer spec_ok_a_cc spec_ok_a_argsort
                                  spec_ok_a_sparse_bincount spec_ok_a_sort_by spec_ok_a_scatter spec_ok_al_scatter
                                  spec_ok_g_converse spec_ok_g_operation_adjacency spec_ok_g_node_adjacency
                                  spec_ok_layered_operations spec_ok_lhg_quotient spec_ok_lohg_quotient
                                  spec_ok_eval (+ spec_ok_eval_model) spec_ok_var_eval (+ spec_ok_var_eval_model)
                                  spec_ok_term_eval spec_ok_default
     3. summary                   SpecRel, spec_case_sound, spec_case_fail_not_equal (+ the exceptions)
     4. examples                  accepted-but-not-textual / rejected pairs; the two former soundness gaps
                                  (unsorted sort_by answer, scatter answer where the model panics) are now
                                  rejected (sort_by_rejects_unsorted, scatter_rejects_where_model_panics)    *)
From Coq Require Import List Arith Lia Bool Permutation Sorted ZArith.
From OHG Require Import Run.SpecCheck Proofs.C07aThm Proofs.BackendInst Proofs.Adv2Inst Proofs.CheckersThm Proofs.OracleEval
  Proofs.C19cThm.
Import Coq.Init.Datatypes.
Import ListNotations.
Close Scope string_scope.
Open Scope nat_scope.
Open Scope list_scope.
Open Scope bool_scope.

Arguments Nat.sub : simpl never.

(* ------------------------------------------------------------------------------------------ *)
(** * 0. textual equality, verdicts, check2                                                    *)
(* ------------------------------------------------------------------------------------------ *)

Fixpoint sx_eqb_eq (a : sx) : forall b, sx_eqb a b = true -> a = b.
Proof.
  destruct a as [x|x|x|xs]; intros [y|y|y|ys]; cbn [sx_eqb]; try discriminate.
  - intros H. apply Nat.eqb_eq in H. congruence.
  - intros H. apply Z.eqb_eq in H. congruence.
  - intros H. apply String.eqb_eq in H. congruence.
  - intros H. f_equal. revert ys H.
    induction xs as [|x xs IH]; intros [|y ys] H; try discriminate; [reflexivity|].
    apply andb_true_iff in H. destruct H as [H1 H2].
    apply sx_eqb_eq in H1. apply IH in H2. congruence.
Qed.

Fixpoint sx_eqb_refl (a : sx) : sx_eqb a a = true.
Proof.
  destruct a as [x|x|x|xs]; cbn [sx_eqb].
  - apply Nat.eqb_refl.
  - apply Z.eqb_refl.
  - apply String.eqb_refl.
  - induction xs as [|x xs IH]; [reflexivity|].
    rewrite (sx_eqb_refl x). exact IH.
Qed.

Lemma sx_eqb_iff a b : sx_eqb a b = true <-> a = b.
Proof. split; [apply sx_eqb_eq | intros ->; apply sx_eqb_refl]. Qed.

Lemma fail_not_ok why : fail_v why <> ok_v.
Proof. discriminate. Qed.

Lemma na_not_ok : Sy "na"%string <> ok_v.
Proof. discriminate. Qed.

(* [Decoded d R impl m]: both texts decode, and the decoded values are related *)
Definition Decoded {X} (d : sx -> option X) (R : X -> X -> Prop) (impl m : sx) : Prop :=
  exists a b, d impl = Some a /\ d m = Some b /\ R a b.

Lemma check2_ok {X} (d : sx -> option X) (rel : X -> X -> bool) impl m why :
  check2 d rel impl m why = ok_v -> exists a b, d impl = Some a /\ d m = Some b /\ rel a b = true.
Proof.
  unfold check2. destruct (d impl) as [a|]; [|discriminate]. destruct (d m) as [b|]; [|discriminate].
  destruct (rel a b) eqn:E; [|discriminate]. intros _. exists a, b. auto.
Qed.

Lemma check2_Decoded {X} (d : sx -> option X) (rel : X -> X -> bool) (R : X -> X -> Prop) impl m why :
  (forall a b, rel a b = true -> R a b) ->
  check2 d rel impl m why = ok_v -> Decoded d R impl m.
Proof.
  intros HR H. apply check2_ok in H. destruct H as (a & b & H1 & H2 & H3).
  exists a, b. auto.
Qed.

(* ------------------------------------------------------------------------------------------ *)
(** * 1. the propositional relations                                                           *)
(* ------------------------------------------------------------------------------------------ *)

(* two values denote isomorphic diagrams: [plain_of] is the plain model of a deeply well-formed value
   (a lax value with pending unifications is first quotiented) *)
Definition ValIso (a b : val) : Prop :=
  exists g g', plain_of a = Some g /\ plain_of b = Some g' /\ Iso g g'.

(* what [plain_of v = Some g] says *)
Definition PlainOf (v : val) (g : pohg nat nat) : Prop :=
  match v with
  | VS f => wf_ohg f /\ g = abs f
  | VL f => lohg_refs_ok f /\
            ((pending_free f = true /\ g = labs f) \/
             (pending_free f = false /\
              exists f' q, lohg_quotient VB Nat.eqb f = Ok (f', inl q) /\ g = labs f'))
  end.

Lemma plain_of_PlainOf v g : plain_of v = Some g -> PlainOf v g.
Proof.
  destruct v as [f|f].
  - intros H. apply plain_of_strict in H. exact H.
  - cbn [plain_of PlainOf]. destruct (chk_wf_lohg f) eqn:E; cbn [negb]; [|discriminate].
    apply chk_wf_lohg_spec in E. destruct (pending_free f) eqn:P.
    + intros H. injection H as <-. split; [exact E|]. left. auto.
    + destruct (lohg_quotient VB Nat.eqb f) as [[f' [q|q]]| |] eqn:Q; try discriminate.
      intros H. injection H as <-. split; [exact E|]. right. split; [reflexivity|]. exists f', q. auto.
Qed.

Lemma ValIso_PlainOf a b : ValIso a b -> exists g g', PlainOf a g /\ PlainOf b g' /\ Iso g g'.
Proof.
  intros (g & g' & H1 & H2 & H3). exists g, g'. split; [|split]; auto using plain_of_PlainOf.
Qed.

Lemma ValIso_strict f f' : ValIso (VS f) (VS f') -> wf_ohg f /\ wf_ohg f' /\ Iso (abs f) (abs f').
Proof.
  intros (g & g' & H1 & H2 & HI). apply plain_of_strict in H1, H2.
  destruct H1 as [W1 ->], H2 as [W2 ->]. auto.
Qed.

(* same outcome kind, and isomorphic values *)
Definition TRel (a b : tres) : Prop :=
  match a, b with
  | TVal x, TVal y => ValIso x y
  | TNone, TNone => True
  | TPanic, TPanic => True
  | _, _ => False
  end.

Lemma tres_rel_sound a b : tres_rel a b = true -> TRel a b.
Proof.
  destruct a as [x| | |], b as [y| | |]; cbn [tres_rel TRel]; try discriminate; auto.
  apply val_iso_sound.
Qed.

(* a value is never related to a panic / none / undecodable output, and vice versa *)
Lemma TRel_kind a b : TRel a b ->
  match a with
  | TVal _ => exists y, b = TVal y
  | TNone => b = TNone
  | TPanic => b = TPanic
  | TBad => False
  end.
Proof. destruct a, b; cbn; try contradiction; eauto. Qed.

(* partition answers: same number of classes, same kernel, classes numbered densely *)
Definition DenseIn (q : list nat) (k : nat) : Prop := all_lt k q /\ forall j, j < k -> In j q.

Definition CoeqRel (a b : ff) : Prop :=
  target a = target b /\ same_kernel (table a) (table b) /\ DenseIn (table a) (target a).

Lemma coeq_rel_sound a b :
  Nat.eqb (target a) (target b) && same_partition (table a) (table b) && dense (table a) (target a) = true ->
  CoeqRel a b.
Proof.
  rewrite !andb_true_iff, Nat.eqb_eq, same_partition_iff, dense_spec. unfold CoeqRel, DenseIn. tauto.
Qed.

Definition CCRel (a b : list nat * nat) : Prop :=
  snd a = snd b /\ same_kernel (fst a) (fst b) /\ DenseIn (fst a) (snd a).

Lemma cc_rel_sound (a b : list nat * nat) :
  Nat.eqb (snd a) (snd b) && same_partition (fst a) (fst b) && dense (fst a) (snd a) = true -> CCRel a b.
Proof.
  rewrite !andb_true_iff, Nat.eqb_eq, same_partition_iff, dense_spec. unfold CCRel, DenseIn. tauto.
Qed.

Definition QRel (a b : bool * ff) : Prop :=
  fst a = fst b /\ CoeqRel (snd a) (snd b).

Lemma q_rel_sound a b : q_rel a b = true -> QRel a b.
Proof. rewrite q_rel_iff. unfold QRel, CoeqRel, DenseIn. tauto. Qed.

(* the contracts of Spec/Backend.v *)
Definition ArgsortOK (xs p : list nat) : Prop :=
  Permutation p (seq 0 (length xs)) /\ StronglySorted le (map (fun i => nth i xs 0) p).

Definition SparseOK (xs u c : list nat) : Prop :=
  NoDup u /\ (forall v, In v u <-> In v xs) /\ c = map (count_occ Nat.eq_dec xs) u.

(* the contract of sort_by: [r] is [xs] gathered along a permutation sorting the keys *)
Definition SortByOK (xs key r : list nat) : Prop :=
  exists p, ArgsortOK key p /\ r = map (fun i => nth i xs 0) p.

Lemma pair_eqb_iff (p q : nat * nat) : pair_eqb p q = true <-> p = q.
Proof.
  destruct p as [a b], q as [c d]. unfold pair_eqb. cbn [fst snd].
  rewrite andb_true_iff, !Nat.eqb_eq. split; [intros [-> ->]; reflexivity | intros E; injection E; auto].
Qed.

Lemma count_pair_cons p q l : count_pair p (q :: l) = (if pair_eqb p q then 1 else 0) + count_pair p l.
Proof. unfold count_pair. cbn [filter]. destruct (pair_eqb p q); reflexivity. Qed.

Lemma count_pair_app p l1 l2 : count_pair p (l1 ++ l2) = count_pair p l1 + count_pair p l2.
Proof. unfold count_pair. rewrite filter_app, app_length. reflexivity. Qed.

Lemma count_pair_pos p l : 0 < count_pair p l -> In p l.
Proof.
  unfold count_pair. destruct (filter (pair_eqb p) l) as [|q f] eqn:E; cbn [length]; [lia|]. intros _.
  assert (Hq : In q (filter (pair_eqb p) l)) by (rewrite E; left; reflexivity).
  apply filter_In in Hq. destruct Hq as [Hq Hpq]. apply pair_eqb_iff in Hpq. subst. exact Hq.
Qed.

Lemma count_pair_perm p a b : Permutation a b -> count_pair p a = count_pair p b.
Proof.
  induction 1 as [|x a b _ IH|x y a|a b c _ IH1 _ IH2]; rewrite ?count_pair_cons; lia.
Qed.

Lemma count_pair_Permutation_on (a : list (nat * nat)) : forall b,
  length a = length b -> (forall v, In v a -> count_pair v a = count_pair v b) -> Permutation a b.
Proof.
  induction a as [|x a IH]; intros b Hlen Hc.
  - destruct b; [constructor | discriminate].
  - assert (Hx : In x b).
    { apply count_pair_pos. rewrite <- Hc by (left; reflexivity). rewrite count_pair_cons.
      rewrite (proj2 (pair_eqb_iff x x) eq_refl). lia. }
    apply in_split in Hx. destruct Hx as (b1 & b2 & ->).
    apply Permutation_cons_app. apply IH.
    + rewrite app_length in *. cbn [length] in Hlen. lia.
    + intros v Hv. specialize (Hc v (or_intror Hv)).
      rewrite count_pair_app, !count_pair_cons in Hc. rewrite count_pair_app. lia.
Qed.

Theorem same_pair_multiset_iff a b : same_pair_multiset a b = true <-> Permutation a b.
Proof.
  unfold same_pair_multiset. rewrite andb_true_iff, Nat.eqb_eq, forallb_forall. split.
  - intros [Hl Hc]. apply count_pair_Permutation_on; [exact Hl|].
    intros v Hv. apply Nat.eqb_eq, Hc, Hv.
  - intros HP. split; [apply Permutation_length, HP|].
    intros v _. apply Nat.eqb_eq, count_pair_perm, HP.
Qed.

Lemma combine_as_map (key : list nat) : forall xs, length key = length xs ->
  combine key xs = map (fun i => (nth i key 0, nth i xs 0)) (seq 0 (length key)).
Proof.
  induction key as [|k key IH]; intros [|x xs] Hl; try discriminate Hl; [reflexivity|].
  cbn [length combine seq map nth]. f_equal. rewrite <- seq_shift, map_map. apply IH.
  cbn [length] in Hl. lia.
Qed.

Lemma sorted_perm_eq (l : list nat) : forall l',
  StronglySorted le l -> StronglySorted le l' -> Permutation l l' -> l = l'.
Proof.
  induction l as [|x l IH]; intros l' Hs Hs' HP.
  - apply Permutation_nil in HP. auto.
  - destruct l' as [|y l']; [apply Permutation_sym, Permutation_nil in HP; discriminate|].
    inversion Hs as [|x0 l0 Hs1 Hf]; subst. inversion Hs' as [|y0 l0' Hs1' Hf']; subst.
    rewrite Forall_forall in Hf, Hf'.
    assert (x = y).
    { assert (Hx : In x (y :: l')) by (eapply Permutation_in; [exact HP | left; reflexivity]).
      assert (Hy : In y (x :: l)) by (eapply Permutation_in; [symmetry; exact HP | left; reflexivity]).
      destruct Hx as [Hx|Hx]; [auto|]. destruct Hy as [Hy|Hy]; [auto|].
      apply Hf' in Hx. apply Hf in Hy. lia. }
    subst y. f_equal. apply IH; auto. eapply Permutation_cons_inv, HP.
Qed.

Lemma vec_argsort_length key : length (vec_argsort key) = length key.
Proof. rewrite (Permutation_length (vec_argsort_perm key)). apply seq_length. Qed.

Theorem chk_sort_by_sound xs key r : chk_sort_by xs key r = true -> SortByOK xs key r.
Proof.
  unfold chk_sort_by. rewrite !andb_true_iff, !Nat.eqb_eq, same_pair_multiset_iff.
  intros [[Hl1 Hl2] HP]. set (sk := map (fun i => nth i key 0) (vec_argsort key)) in *.
  assert (Hsk : length sk = length r) by (unfold sk; rewrite map_length, vec_argsort_length; lia).
  rewrite (combine_as_map key xs) in HP by lia.
  apply Permutation_map_inv in HP. destruct HP as (p & Ep & Pp). exists p.
  assert (E1 : sk = map (fun i => nth i key 0) p).
  { rewrite <- (map_fst_combine sk r Hsk), Ep, map_map. reflexivity. }
  assert (E2 : r = map (fun i => nth i xs 0) p).
  { rewrite <- (map_snd_combine sk r Hsk), Ep, map_map. reflexivity. }
  split; [split|exact E2].
  - symmetry. exact Pp.
  - rewrite <- E1. apply vec_argsort_sorted.
Qed.

Theorem chk_sort_by_complete xs key r :
  length xs = length key -> SortByOK xs key r -> chk_sort_by xs key r = true.
Proof.
  intros Hl (p & [Pp Sp] & Er). unfold chk_sort_by.
  assert (Hp : length p = length key) by (rewrite (Permutation_length Pp); apply seq_length).
  rewrite !andb_true_iff, !Nat.eqb_eq, same_pair_multiset_iff. split; [split; [exact Hl|]|].
  - rewrite Er, map_length. lia.
  - assert (E : map (fun i => nth i key 0) (vec_argsort key) = map (fun i => nth i key 0) p).
    { apply sorted_perm_eq; [apply vec_argsort_sorted | exact Sp |].
      apply Permutation_map. rewrite Pp. apply vec_argsort_perm. }
    rewrite E, Er, (combine_as_map key xs) by lia.
    replace (combine (map (fun i => nth i key 0) p) (map (fun i => nth i xs 0) p))
      with (map (fun i => (nth i key 0, nth i xs 0)) p).
    + apply Permutation_map, Pp.
    + clear. induction p as [|i p IH]; [reflexivity|]. cbn [map combine]. rewrite IH. reflexivity.
Qed.

Theorem chk_sort_by_iff xs key r :
  chk_sort_by xs key r = true <-> length xs = length key /\ SortByOK xs key r.
Proof.
  split.
  - intros H. split; [|apply chk_sort_by_sound, H]. unfold chk_sort_by in H.
    rewrite !andb_true_iff, !Nat.eqb_eq in H. tauto.
  - intros [H1 H2]. apply chk_sort_by_complete; assumption.
Qed.

(* scatter: every position that is hit holds one of the values sent to it (bk_scatter) *)
Definition ScatterOK (xs idx : list nat) (n : nat) (y : list nat) : Prop :=
  length y = n /\
  forall j, j < n -> In j idx -> exists i, nth_error idx i = Some j /\ nth_error y j = nth_error xs i.

Definition scatter_chk (xs idx : list nat) (n : nat) (y : list nat) : bool :=
  Nat.eqb (length y) n &&
  forallb (fun j => if existsb (Nat.eqb j) idx
                    then existsb (fun p => Nat.eqb (fst p) j && Nat.eqb (snd p) (nth j y 0)) (combine idx xs)
                    else true) (seq 0 n).

Lemma In_combine_nth_error {X Y} (l : list X) : forall (l' : list Y) a b,
  In (a, b) (combine l l') -> exists i, nth_error l i = Some a /\ nth_error l' i = Some b.
Proof.
  induction l as [|x l IH]; intros [|y l'] a b H; cbn in H; try contradiction.
  destruct H as [H|H].
  - injection H as -> ->. exists 0. auto.
  - destruct (IH _ _ _ H) as (i & H1 & H2). exists (S i). auto.
Qed.

Lemma scatter_chk_sound xs idx n y : scatter_chk xs idx n y = true -> ScatterOK xs idx n y.
Proof.
  unfold scatter_chk, ScatterOK. rewrite andb_true_iff, Nat.eqb_eq, forallb_seq.
  intros [Hl H]. split; [exact Hl|]. intros j Hj Hin. specialize (H j Hj).
  apply existsb_eqb_In in Hin. rewrite Hin in H. apply existsb_exists in H.
  destruct H as ([a b] & Hp & E). cbn [fst snd] in E. apply andb_true_iff in E.
  rewrite !Nat.eqb_eq in E. destruct E as [-> ->].
  apply In_combine_nth_error in Hp. destruct Hp as (i & H1 & H2). exists i. split; [exact H1|].
  rewrite H2. apply nth_error_nth'. lia.
Qed.

(* adjacency answers: same segment sizes, each segment a permutation *)
Definition IcfPerm (c d : icf) : Prop :=
  ic_sources c = ic_sources d /\ target (ic_values c) = target (ic_values d) /\
  Forall2 (@Permutation nat) (decode_f c) (decode_f d).

(* layering: same layer assignment data, each group a permutation *)
Definition LayersRel (a b : list (list nat) * list nat) : Prop :=
  snd a = snd b /\ Forall2 (@Permutation nat) (fst a) (fst b).

Definition layers_chk (a b : list (list nat) * list nat) : bool :=
  list_eqb Nat.eqb (snd a) (snd b) && Nat.eqb (length (fst a)) (length (fst b)) &&
  forallb (fun p => same_multiset (fst p) (snd p)) (combine (fst a) (fst b)).

Lemma layers_chk_sound a b : layers_chk a b = true -> LayersRel a b.
Proof.
  unfold layers_chk, LayersRel. rewrite !andb_true_iff, list_eqb_nat_eq, Nat.eqb_eq.
  intros [[H1 H2] H3]. split; [exact H1|]. revert H3.
  apply forallb_combine_Forall2; [|exact H2]. intros x y. apply same_multiset_iff.
Qed.

(* ------------------------------------------------------------------------------------------ *)
(** * 2. one theorem per branch                                                                *)
(* ------------------------------------------------------------------------------------------ *)

(* open [spec_case] on a literal operation name: the model's output becomes an opaque [m], the tests
   on the operation name compute *)
Ltac spec_open m :=
  unfold spec_case; set (m := run_case _); clearbody m;
  cbn [String.eqb Ascii.eqb Bool.eqb orb].

Lemma if_exact_ok impl m (X : sx) :
  (if sx_eqb impl m then ok_v else X) = ok_v -> impl = m \/ (sx_eqb impl m = false /\ X = ok_v).
Proof. destruct (sx_eqb impl m) eqn:E; [left; apply sx_eqb_eq, E | right; auto]. Qed.

Lemma if_exact_fail_ok impl m why :
  (if sx_eqb impl m then ok_v else fail_v why) = ok_v -> impl = m.
Proof. destruct (sx_eqb impl m) eqn:E; [intros _; apply sx_eqb_eq, E | discriminate]. Qed.

(* ---- law ---- *)
Definition LawRel (impl m : sx) : Prop :=
  exists i1 i2 m1 m2, impl = L [i1; i2] /\ m = L [m1; m2] /\
    TRel (d_tres i1) (d_tres m1) /\ TRel (d_tres i2) (d_tres m2) /\ TRel (d_tres i1) (d_tres i2).

(* textual equality with the model is NOT enough here: the law itself must hold on the outputs *)
Theorem spec_ok_law args impl :
  spec_case (L (Sy "law" :: args)) impl = ok_v -> LawRel impl (run_case (L (Sy "law" :: args))).
Proof.
  spec_open m.
  destruct impl as [| | |[|i1 [|i2 [|]]]]; try discriminate.
  destruct m as [| | |[|m1 [|m2 [|]]]]; try discriminate.
  destruct (tres_rel (d_tres i1) (d_tres m1)) eqn:E1; cbn [negb]; [|discriminate].
  destruct (tres_rel (d_tres i2) (d_tres m2)) eqn:E2; cbn [negb]; [|discriminate].
  destruct (tres_rel (d_tres i1) (d_tres i2)) eqn:E3; [|discriminate].
  intros _. exists i1, i2, m1, m2. repeat split; auto using tres_rel_sound.
Qed.

(* ---- term ---- *)
Theorem spec_ok_term args impl :
  spec_case (L (Sy "term" :: args)) impl = ok_v ->
  impl = run_case (L (Sy "term" :: args)) \/
  TRel (d_tres impl) (d_tres (run_case (L (Sy "term" :: args)))).
Proof.
  spec_open m. intros H. apply if_exact_ok in H. destruct H as [H|[_ H]]; [left; exact H|right].
  destruct (tres_rel (d_tres impl) (d_tres m)) eqn:E; [|discriminate]. apply tres_rel_sound, E.
Qed.

(* ---- ohg_compose, lohg_to_strict: results are strict diagrams, compared like strict values ---- *)
Definition wrap_compose (x : sx) : sx :=
  match x with
  | L [Sy "ok"%string; L [Sy "some"%string; f]] =>
      L [Sy "ok"%string; L [Sy "some"%string; L [Sy "strict"%string; f]]]
  | y => y
  end.
Definition wrap_to_strict (x : sx) : sx :=
  match x with
  | L [Sy "ok"%string; f] => L [Sy "ok"%string; L [Sy "some"%string; L [Sy "strict"%string; f]]]
  | y => y
  end.

Theorem spec_ok_ohg_compose args impl :
  spec_case (L (Sy "ohg_compose" :: args)) impl = ok_v ->
  impl = run_case (L (Sy "ohg_compose" :: args)) \/
  TRel (d_tres (wrap_compose impl)) (d_tres (wrap_compose (run_case (L (Sy "ohg_compose" :: args))))).
Proof.
  spec_open m. intros H. apply if_exact_ok in H. destruct H as [H|[_ H]]; [left; exact H|right].
  apply check2_ok in H. destruct H as (a & b & H1 & H2 & H3).
  injection H1 as <-. injection H2 as <-. apply tres_rel_sound, H3.
Qed.

Theorem spec_ok_lohg_to_strict args impl :
  spec_case (L (Sy "lohg_to_strict" :: args)) impl = ok_v ->
  impl = run_case (L (Sy "lohg_to_strict" :: args)) \/
  TRel (d_tres (wrap_to_strict impl)) (d_tres (wrap_to_strict (run_case (L (Sy "lohg_to_strict" :: args))))).
Proof.
  spec_open m. intros H. apply if_exact_ok in H. destruct H as [H|[_ H]]; [left; exact H|right].
  apply check2_ok in H. destruct H as (a & b & H1 & H2 & H3).
  injection H1 as <-. injection H2 as <-. apply tres_rel_sound, H3.
Qed.

(* ---- coequalizers ---- *)
Definition d_coeq (x : sx) : option ff :=
  match d_ok x with
  | Some (L [Sy "some"%string; q]) => d_ff q
  | Some q => d_ff q
  | None => None
  end.

Theorem spec_ok_ff_coequalizer args impl :
  spec_case (L (Sy "ff_coequalizer" :: args)) impl = ok_v ->
  impl = run_case (L (Sy "ff_coequalizer" :: args)) \/
  Decoded d_coeq CoeqRel impl (run_case (L (Sy "ff_coequalizer" :: args))).
Proof.
  spec_open m. intros H. apply if_exact_ok in H. destruct H as [H|[_ H]]; [left; exact H|right].
  revert H. apply check2_Decoded. intros a b. apply coeq_rel_sound.
Qed.

Theorem spec_ok_lhg_coequalizer args impl :
  spec_case (L (Sy "lhg_coequalizer" :: args)) impl = ok_v ->
  impl = run_case (L (Sy "lhg_coequalizer" :: args)) \/
  Decoded d_coeq CoeqRel impl (run_case (L (Sy "lhg_coequalizer" :: args))).
Proof.
  spec_open m. intros H. apply if_exact_ok in H. destruct H as [H|[_ H]]; [left; exact H|right].
  revert H. apply check2_Decoded. intros a b. apply coeq_rel_sound.
Qed.

(* ---- connected components ---- *)
Theorem spec_ok_a_cc args impl :
  spec_case (L (Sy "a_cc" :: args)) impl = ok_v ->
  impl = run_case (L (Sy "a_cc" :: args)) \/
  Decoded (d_okv (d_pair d_nats d_nat)) CCRel impl (run_case (L (Sy "a_cc" :: args))).
Proof.
  spec_open m. intros H. apply if_exact_ok in H. destruct H as [H|[_ H]]; [left; exact H|right].
  revert H. apply check2_Decoded. intros a b. apply cc_rel_sound.
Qed.

(* ---- argsort / sparse_bincount / sort_by / scatter: judged against the INPUT of the case ---- *)
Theorem spec_ok_a_argsort args impl :
  spec_case (L (Sy "a_argsort" :: args)) impl = ok_v ->
  impl = run_case (L (Sy "a_argsort" :: args)) \/
  exists b xs xs' p, args = [b; xs] /\ d_nats xs = Some xs' /\ d_nats impl = Some p /\ ArgsortOK xs' p.
Proof.
  spec_open m. intros H. apply if_exact_ok in H. destruct H as [H|[_ H]]; [left; exact H|right].
  destruct args as [|b [|xs [|]]]; try discriminate.
  destruct (d_nats xs) as [xs'|] eqn:E1; [|discriminate].
  destruct (d_nats impl) as [p|] eqn:E2; [|discriminate].
  destruct (chk_argsort xs' p) eqn:E3; [|discriminate].
  exists b, xs, xs', p. repeat split; auto; apply chk_argsort_sound in E3; apply E3.
Qed.

Theorem spec_ok_a_sparse_bincount args impl :
  spec_case (L (Sy "a_sparse_bincount" :: args)) impl = ok_v ->
  impl = run_case (L (Sy "a_sparse_bincount" :: args)) \/
  exists b xs xs' u c, args = [b; xs] /\ d_nats xs = Some xs' /\ d_pair d_nats d_nats impl = Some (u, c) /\
                       SparseOK xs' u c.
Proof.
  spec_open m. intros H. apply if_exact_ok in H. destruct H as [H|[_ H]]; [left; exact H|right].
  destruct args as [|b [|xs [|]]]; try discriminate.
  destruct (d_nats xs) as [xs'|] eqn:E1; [|discriminate].
  destruct (d_pair d_nats d_nats impl) as [[u c]|] eqn:E2; [|discriminate].
  destruct (chk_sparse xs' u c) eqn:E3; [|discriminate].
  exists b, xs, xs', u, c. repeat split; auto; apply chk_sparse_sound in E3; apply E3.
Qed.

Theorem spec_ok_a_sort_by args impl :
  spec_case (L (Sy "a_sort_by" :: args)) impl = ok_v ->
  impl = run_case (L (Sy "a_sort_by" :: args)) \/
  exists b xs key xs' key' r, args = [b; xs; key] /\ d_nats xs = Some xs' /\ d_nats key = Some key' /\
                              d_okv d_nats impl = Some r /\ length xs' = length key' /\ SortByOK xs' key' r.
Proof.
  spec_open m. intros H. apply if_exact_ok in H. destruct H as [H|[_ H]]; [left; exact H|right].
  destruct args as [|b [|xs [|key [|]]]]; try discriminate.
  destruct (d_nats xs) as [xs'|] eqn:E1; [|discriminate].
  destruct (d_nats key) as [key'|] eqn:E2; [|discriminate].
  destruct (d_okv d_nats impl) as [r|] eqn:E3; [|discriminate].
  destruct (chk_sort_by xs' key' r) eqn:E4; [|discriminate].
  apply chk_sort_by_iff in E4. destruct E4 as [E4 E5].
  exists b, xs, key, xs', key', r. auto 10.
Qed.

(* the contract speaks about accepted calls only: the model's output must be an (ok _) value as well *)
Definition ScatterRel (args : list sx) (impl m : sx) : Prop :=
  exists b xs idx n xs' idx' y ym, args = [b; xs; idx; N n] /\ d_nats xs = Some xs' /\ d_nats idx = Some idx' /\
                                   d_okv d_nats impl = Some y /\ d_okv d_nats m = Some ym /\ ScatterOK xs' idx' n y.

Lemma scatter_branch args impl m :
  match args with
  | [_; xs; idx; N n] =>
      match d_nats xs, d_nats idx, d_okv d_nats impl with
      | Some xs', Some idx', Some y =>
          if (match d_okv d_nats m with Some _ => true | None => false end) &&
             Nat.eqb (length y) n &&
             forallb (fun j => if existsb (Nat.eqb j) idx'
                               then existsb (fun p => Nat.eqb (fst p) j && Nat.eqb (snd p) (nth j y 0)) (combine idx' xs')
                               else true) (seq 0 n)
          then ok_v else fail_v "scatter-contract"
      | _, _, _ => fail_v "scatter-shape"
      end
  | _ => fail_v "scatter-shape"
  end = ok_v -> ScatterRel args impl m.
Proof.
  destruct args as [|b [|xs [|idx [|[n| | |] [|]]]]]; try discriminate.
  destruct (d_nats xs) as [xs'|] eqn:E1; [|discriminate].
  destruct (d_nats idx) as [idx'|] eqn:E2; [|discriminate].
  destruct (d_okv d_nats impl) as [y|] eqn:E3; [|discriminate].
  destruct (d_okv d_nats m) as [ym|] eqn:E5; [|discriminate].
  cbn [andb]. fold (scatter_chk xs' idx' n y). destruct (scatter_chk xs' idx' n y) eqn:E4; [|discriminate].
  intros _. exists b, xs, idx, n, xs', idx', y, ym. auto 10 using scatter_chk_sound.
Qed.

Theorem spec_ok_a_scatter args impl :
  spec_case (L (Sy "a_scatter" :: args)) impl = ok_v ->
  impl = run_case (L (Sy "a_scatter" :: args)) \/ ScatterRel args impl (run_case (L (Sy "a_scatter" :: args))).
Proof.
  spec_open m. intros H. apply if_exact_ok in H. destruct H as [H|[_ H]]; [left; exact H|right].
  apply scatter_branch, H.
Qed.

Theorem spec_ok_al_scatter args impl :
  spec_case (L (Sy "al_scatter" :: args)) impl = ok_v ->
  impl = run_case (L (Sy "al_scatter" :: args)) \/ ScatterRel args impl (run_case (L (Sy "al_scatter" :: args))).
Proof.
  spec_open m. intros H. apply if_exact_ok in H. destruct H as [H|[_ H]]; [left; exact H|right].
  apply scatter_branch, H.
Qed.

(* ---- adjacency relations: per-segment permutation ---- *)
Lemma icf_perm_sound c d : icf_perm c d = true -> IcfPerm c d.
Proof. apply icf_perm_iff. Qed.

Theorem spec_ok_g_converse args impl :
  spec_case (L (Sy "g_converse" :: args)) impl = ok_v ->
  impl = run_case (L (Sy "g_converse" :: args)) \/
  Decoded (d_okv d_icf) IcfPerm impl (run_case (L (Sy "g_converse" :: args))).
Proof.
  spec_open m. intros H. apply if_exact_ok in H. destruct H as [H|[_ H]]; [left; exact H|right].
  revert H. apply check2_Decoded, icf_perm_sound.
Qed.

Theorem spec_ok_g_operation_adjacency args impl :
  spec_case (L (Sy "g_operation_adjacency" :: args)) impl = ok_v ->
  impl = run_case (L (Sy "g_operation_adjacency" :: args)) \/
  Decoded (d_okv d_icf) IcfPerm impl (run_case (L (Sy "g_operation_adjacency" :: args))).
Proof.
  spec_open m. intros H. apply if_exact_ok in H. destruct H as [H|[_ H]]; [left; exact H|right].
  revert H. apply check2_Decoded, icf_perm_sound.
Qed.

Theorem spec_ok_g_node_adjacency args impl :
  spec_case (L (Sy "g_node_adjacency" :: args)) impl = ok_v ->
  impl = run_case (L (Sy "g_node_adjacency" :: args)) \/
  Decoded (d_okv d_icf) IcfPerm impl (run_case (L (Sy "g_node_adjacency" :: args))).
Proof.
  spec_open m. intros H. apply if_exact_ok in H. destruct H as [H|[_ H]]; [left; exact H|right].
  revert H. apply check2_Decoded, icf_perm_sound.
Qed.

(* ---- layered_operations ---- *)
Theorem spec_ok_layered_operations args impl :
  spec_case (L (Sy "layered_operations" :: args)) impl = ok_v ->
  impl = run_case (L (Sy "layered_operations" :: args)) \/
  Decoded (d_okv (d_pair (d_list d_nats) d_nats)) LayersRel impl (run_case (L (Sy "layered_operations" :: args))).
Proof.
  spec_open m. intros H. apply if_exact_ok in H. destruct H as [H|[_ H]]; [left; exact H|right].
  revert H. apply check2_Decoded. intros a b. apply layers_chk_sound.
Qed.

(* ---- lax quotients: the witness map up to renumbering of the classes, the result up to isomorphism ---- *)
Definition LhgQuotRel (a b : lhg nat nat * (bool * ff)) : Prop :=
  QRel (snd a) (snd b) /\ ValIso (VL (mkLOHG [] [] (fst a))) (VL (mkLOHG [] [] (fst b))).
Definition LohgQuotRel (a b : lohg nat nat * (bool * ff)) : Prop :=
  QRel (snd a) (snd b) /\ ValIso (VL (fst a)) (VL (fst b)).

Theorem spec_ok_lhg_quotient args impl :
  spec_case (L (Sy "lhg_quotient" :: args)) impl = ok_v ->
  impl = run_case (L (Sy "lhg_quotient" :: args)) \/
  Decoded (d_okv (d_pair d_lhg q_of)) LhgQuotRel impl (run_case (L (Sy "lhg_quotient" :: args))).
Proof.
  spec_open m. intros H. apply if_exact_ok in H. destruct H as [H|[_ H]]; [left; exact H|right].
  revert H. apply check2_Decoded. intros a b H. apply andb_true_iff in H. destruct H as [H1 H2].
  split; [apply q_rel_sound, H1 | apply val_iso_sound, H2].
Qed.

Theorem spec_ok_lohg_quotient args impl :
  spec_case (L (Sy "lohg_quotient" :: args)) impl = ok_v ->
  impl = run_case (L (Sy "lohg_quotient" :: args)) \/
  Decoded (d_okv (d_pair d_lohg q_of)) LohgQuotRel impl (run_case (L (Sy "lohg_quotient" :: args))).
Proof.
  spec_open m. intros H. apply if_exact_ok in H. destruct H as [H|[_ H]]; [left; exact H|right].
  revert H. apply check2_Decoded. intros a b H. apply andb_true_iff in H. destruct H as [H1 H2].
  split; [apply q_rel_sound, H1 | apply val_iso_sound, H2].
Qed.

(* ---- eval: the independent oracle [ref_eval]; an accepted output is ALSO textually the model's ---- *)
Definition refusal : sx := L [Sy "ok"%string; Sy "none"%string].

Definition EvalOracle (args : list sx) (impl : sx) : Prop :=
  exists b f inp f' inp', args = [b; f; inp] /\ d_ohg f = Some f' /\ d_zs inp = Some inp' /\
    match ref_eval (abs f') inp' with
    | None => impl = refusal
    | Some out =>
        impl <> refusal /\
        (chk_single_writer (abs f') && chk_arity_ok (abs f') inp' = true ->
         impl = e_res (e_opt e_zs) (Ok (Some out)))
    end.

Theorem spec_ok_eval args impl :
  spec_case (L (Sy "eval" :: args)) impl = ok_v ->
  impl = run_case (L (Sy "eval" :: args)) /\ EvalOracle args impl.
Proof.
  spec_open m.
  destruct args as [|b [|f [|inp [|]]]]; try discriminate.
  destruct (d_ohg f) as [f'|] eqn:E1; [|discriminate].
  destruct (d_zs inp) as [inp'|] eqn:E2; [|discriminate].
  fold (chk_single_writer (abs f')). fold (chk_arity_ok (abs f') inp'). fold refusal.
  intros H. unfold EvalOracle.
  destruct (ref_eval (abs f') inp') as [out|] eqn:E3.
  - destruct (chk_single_writer (abs f') && chk_arity_ok (abs f') inp') eqn:E4.
    + destruct (sx_eqb impl (e_res (e_opt e_zs) (Ok (Some out)))) eqn:E5; [|discriminate].
      apply sx_eqb_eq in E5. apply if_exact_fail_ok in H. split; [exact H|].
      exists b, f, inp, f', inp'. rewrite E3. repeat split; auto. rewrite E5. discriminate.
    + destruct (sx_eqb impl refusal) eqn:E5; [discriminate|].
      apply if_exact_fail_ok in H. split; [exact H|].
      exists b, f, inp, f', inp'. rewrite E3, E4. repeat split; auto; [|discriminate].
      intros ->. rewrite sx_eqb_refl in E5. discriminate.
  - destruct (sx_eqb impl refusal) eqn:E5; [|discriminate].
    apply sx_eqb_eq in E5. apply if_exact_fail_ok in H. split; [exact H|].
    exists b, f, inp, f', inp'. rewrite E3. auto.
Qed.

(* by Proofs/OracleEval.v the oracle's answer is the model's [eval] on every conforming back-end, for
   well-formed diagrams (value clause: single-writer diagrams respecting the co-arities) *)
Theorem spec_ok_eval_model args impl :
  spec_case (L (Sy "eval" :: args)) impl = ok_v ->
  exists b f inp f' inp', args = [b; f; inp] /\ d_ohg f = Some f' /\ d_zs inp = Some inp' /\
    forall B, BackendOK B -> wf_ohg f' ->
      (ref_eval (abs f') inp' = None \/ chk_single_writer (abs f') && chk_arity_ok (abs f') inp' = true ->
       impl = e_res (e_opt e_zs) (eval B 0%Z apply_sig f' inp')) /\
      (impl <> refusal -> exists out, eval B 0%Z apply_sig f' inp' = Ok (Some out)) /\
      (impl = refusal -> eval B 0%Z apply_sig f' inp' = Ok None).
Proof.
  intros H. apply spec_ok_eval in H. destruct H as [_ (b & f & inp & f' & inp' & Ea & E1 & E2 & H)].
  exists b, f, inp, f', inp'. split; [exact Ea|]. split; [exact E1|]. split; [exact E2|].
  intros B OK Wf. split; [|split].
  - intros [E|E].
    + rewrite E in H. rewrite (oracle_refusal_clause OK inp' Wf E). exact H.
    + destruct (ref_eval (abs f') inp') as [out|] eqn:E3.
      * rewrite (oracle_value_clause OK inp' Wf E3 E). apply H, E.
      * rewrite (oracle_refusal_clause OK inp' Wf E3). exact H.
  - intros Hn. destruct (ref_eval (abs f') inp') as [out|] eqn:E3; [|contradiction].
    apply (oracle_acceptance_clause OK inp' Wf E3).
  - intros ->. destruct (ref_eval (abs f') inp') as [out|] eqn:E3.
    + destruct H as [H _]. exfalso. apply H. reflexivity.
    + apply (oracle_refusal_clause OK inp' Wf E3).
Qed.

(* ---- var_eval: the expression interpreter [denote] ---- *)
Definition VarEvalOracle (args : list sx) (impl : sx) : Prop :=
  exists prog ins outs inp prog' ins' outs' inp',
    args = [prog; ins; outs; inp] /\ d_list d_vcmd prog = Some prog' /\ d_nats ins = Some ins' /\
    d_nats outs = Some outs' /\ d_zs inp = Some inp' /\
    forall r, denote prog' ins' outs' inp' = Some r -> impl = e_res (e_opt e_zs) (Ok (Some r)).

Theorem spec_ok_var_eval args impl :
  spec_case (L (Sy "var_eval" :: args)) impl = ok_v ->
  impl = run_case (L (Sy "var_eval" :: args)) /\ VarEvalOracle args impl.
Proof.
  spec_open m.
  destruct args as [|prog [|ins [|outs [|inp [|]]]]]; try discriminate.
  destruct (d_list d_vcmd prog) as [prog'|] eqn:E1; [|discriminate].
  destruct (d_nats ins) as [ins'|] eqn:E2; [|discriminate].
  destruct (d_nats outs) as [outs'|] eqn:E3; [|discriminate].
  destruct (d_zs inp) as [inp'|] eqn:E4; [|discriminate].
  intros H. unfold VarEvalOracle.
  destruct (denote prog' ins' outs' inp') as [r|] eqn:E5.
  - destruct (sx_eqb impl (e_res (e_opt e_zs) (Ok (Some r)))) eqn:E6; [|discriminate].
    apply sx_eqb_eq in E6. apply if_exact_fail_ok in H. split; [exact H|].
    exists prog, ins, outs, inp, prog', ins', outs', inp'. rewrite E5. repeat split; auto.
    intros r' Hr. injection Hr as <-. exact E6.
  - apply if_exact_fail_ok in H. split; [exact H|].
    exists prog, ins, outs, inp, prog', ins', outs', inp'. rewrite E5. repeat split; auto. discriminate.
Qed.

(* by Proofs/C19cThm.v the expression's value is what the built term, forgotten and strictified,
   evaluates to (on any conforming evaluation back-end), when no operator carries the variable label *)
Theorem spec_ok_var_eval_model args impl :
  spec_case (L (Sy "var_eval" :: args)) impl = ok_v ->
  exists prog ins outs inp prog' ins' outs' inp',
    args = [prog; ins; outs; inp] /\ d_list d_vcmd prog = Some prog' /\ d_nats ins = Some ins' /\
    d_nats outs = Some outs' /\ d_zs inp = Some inp' /\
    forall B', BackendOK B' -> no_var_label prog' = true -> denote prog' ins' outs' inp' <> None ->
      impl = e_res (e_opt e_zs) (var_eval_run B' prog' ins' outs' inp').
Proof.
  intros H. apply spec_ok_var_eval in H.
  destruct H as [_ (prog & ins & outs & inp & prog' & ins' & outs' & inp' & Ea & E1 & E2 & E3 & E4 & H)].
  exists prog, ins, outs, inp, prog', ins', outs', inp'.
  split; [exact Ea|]. split; [exact E1|]. split; [exact E2|]. split; [exact E3|]. split; [exact E4|].
  intros B' OK' Hno Hd. destruct (denote prog' ins' outs' inp') as [r|] eqn:E5; [|contradiction Hd; reflexivity].
  rewrite (@C19_semantic_any_eval_backend B' OK' _ _ _ _ _ E5 (no_var_label_spec _ Hno)). apply H. reflexivity.
Qed.

(* ---- term_eval: [ref_eval] on a lax circuit, [ref_grad] on the adapted optic of a polynomial circuit ---- *)
Definition te_shape {R} (args : list sx) (k1 k2 : sx -> sx -> R) (k3 : R) : R :=
  match args with
  | [_; L [Sy "optic_adapted"%string; Sy "poly"%string; L [Sy "l"%string; c0]]; inp] => k1 c0 inp
  | [_; L [Sy "l"%string; c0]; inp] => k2 c0 inp
  | _ => k3
  end.

Lemma te_shape_rel {R R'} (Q : R -> R' -> Prop) args k1 k2 k3 k1' k2' k3' :
  (forall c0 inp, Q (k1 c0 inp) (k1' c0 inp)) -> (forall c0 inp, Q (k2 c0 inp) (k2' c0 inp)) -> Q k3 k3' ->
  Q (te_shape args k1 k2 k3) (te_shape args k1' k2' k3').
Proof.
  intros H1 H2 H3. unfold te_shape.
  repeat (match goal with
          | |- context [match ?x with _ => _ end] => is_var x; destruct x
          end; cbv beta iota; try exact H3); auto.
Qed.

Definition TermEvalOracle (args : list sx) (impl : sx) : Prop :=
  te_shape args
    (fun c0 inp => exists c' inp', d_lohg c0 = Some c' /\ d_zs inp = Some inp' /\
       (pending_free c' && forallb (fun e => poly_label (pe_lbl e)) (p_edges (labs c')) = true ->
        let nin := length (p_ins (labs c')) in
        impl = e_res (e_opt e_zs) (Ok (ref_grad (labs c') (firstn nin inp') (skipn nin inp')))))
    (fun c0 inp => exists c' inp', d_lohg c0 = Some c' /\ d_zs inp = Some inp' /\
       (pending_free c' = true -> impl = e_res (e_opt e_zs) (Ok (ref_eval (labs c') inp'))))
    True.

Theorem spec_ok_term_eval args impl :
  spec_case (L (Sy "term_eval" :: args)) impl = ok_v ->
  impl = run_case (L (Sy "term_eval" :: args)) /\ TermEvalOracle args impl.
Proof.
  spec_open m. unfold TermEvalOracle.
  match goal with |- ?X = ok_v -> _ =>
    change X with (te_shape args
      (fun c0 inp => match d_lohg c0, d_zs inp with
            | Some c', Some inp' =>
                let g := labs c' in
                let nin := List.length (p_ins g) in
                if pending_free c' && forallb (fun e => poly_label (pe_lbl e)) (p_edges g) then
                  let expect := e_res (e_opt e_zs) (Ok (ref_grad g (firstn nin inp') (skipn nin inp'))) in
                  if sx_eqb impl expect then (if sx_eqb impl m then ok_v else fail_v "oracle-ok-but-differs-from-model")
                  else fail_v "adapted-optic-is-not-the-reverse-derivative"
                else if sx_eqb impl m then ok_v else fail_v "differs-from-model"
            | _, _ => fail_v "term_eval-shape"
            end)
      (fun c0 inp => match d_lohg c0, d_zs inp with
            | Some c', Some inp' =>
                if pending_free c' then
                  let expect := e_res (e_opt e_zs) (Ok (ref_eval (labs c') inp')) in
                  if sx_eqb impl expect then (if sx_eqb impl m then ok_v else fail_v "oracle-ok-but-differs-from-model")
                  else fail_v "eval-differs-from-reference-interpreter"
                else if sx_eqb impl m then ok_v else fail_v "differs-from-model"
            | _, _ => fail_v "term_eval-shape"
            end)
      (if sx_eqb impl m then ok_v else fail_v "differs-from-model"))
  end.
  apply (te_shape_rel (fun (x : sx) (P : Prop) => x = ok_v -> impl = m /\ P)).
  - intros c0 inp. destruct (d_lohg c0) as [c'|]; [|discriminate]. destruct (d_zs inp) as [inp'|]; [|discriminate].
    cbv zeta.
    destruct (pending_free c' && forallb (fun e => poly_label (pe_lbl e)) (p_edges (labs c'))) eqn:E.
    + match goal with |- (if sx_eqb impl ?e then _ else _) = _ -> _ => destruct (sx_eqb impl e) eqn:E1 end;
        [|discriminate].
      apply sx_eqb_eq in E1. intros H. apply if_exact_fail_ok in H. split; [exact H|].
      exists c', inp'. auto.
    + intros H. apply if_exact_fail_ok in H. split; [exact H|]. exists c', inp'. rewrite E. repeat split; auto. discriminate.
  - intros c0 inp. destruct (d_lohg c0) as [c'|]; [|discriminate]. destruct (d_zs inp) as [inp'|]; [|discriminate].
    cbv zeta. destruct (pending_free c') eqn:E.
    + match goal with |- (if sx_eqb impl ?e then _ else _) = _ -> _ => destruct (sx_eqb impl e) eqn:E1 end;
        [|discriminate].
      apply sx_eqb_eq in E1. intros H. apply if_exact_fail_ok in H. split; [exact H|].
      exists c', inp'. auto.
    + intros H. apply if_exact_fail_ok in H. split; [exact H|]. exists c', inp'. rewrite E. repeat split; auto. discriminate.
  - intros H. apply if_exact_fail_ok in H. auto.
Qed.

(* ---- every other operation: only the model's own text is accepted ---- *)
Definition special_ops : list string :=
  ["law"; "eval"; "var_eval"; "term_eval"; "term"; "ohg_compose"; "lohg_to_strict"; "ff_coequalizer";
   "lhg_coequalizer"; "a_cc"; "a_argsort"; "a_sparse_bincount"; "a_sort_by"; "a_scatter"; "al_scatter";
   "g_converse"; "g_operation_adjacency"; "g_node_adjacency"; "layered_operations"; "lhg_quotient";
   "lohg_quotient"]%string.

Lemma not_special_eqb op : (forall s, In s special_ops -> op <> s) ->
  forall s, In s special_ops -> String.eqb op s = false.
Proof. intros H s Hs. apply String.eqb_neq, H, Hs. Qed.

Ltac rewrite_tests Hop :=
  repeat match goal with
         | |- context [String.eqb ?op ?s] =>
             rewrite (Hop s) by (cbn [In special_ops]; tauto)
         end.

Theorem spec_ok_default op args impl :
  (forall s, In s special_ops -> op <> s) ->
  spec_case (L (Sy op :: args)) impl = ok_v -> impl = run_case (L (Sy op :: args)).
Proof.
  intros Hop. pose proof (not_special_eqb op Hop) as Hf.
  unfold spec_case. set (m := run_case _). clearbody m.
  rewrite_tests Hf. cbn [orb]. apply if_exact_fail_ok.
Qed.

(* ------------------------------------------------------------------------------------------ *)
(** * 3. summary                                                                               *)
(* ------------------------------------------------------------------------------------------ *)

Definition SpecRel (c impl : sx) : Prop :=
  match c with
  | L (Sy op :: args) =>
      let m := run_case c in
      if String.eqb op "law" then LawRel impl m
      else if String.eqb op "eval" then impl = m /\ EvalOracle args impl
      else if String.eqb op "var_eval" then impl = m /\ VarEvalOracle args impl
      else if String.eqb op "term_eval" then impl = m /\ TermEvalOracle args impl
      else if String.eqb op "term" then impl = m \/ TRel (d_tres impl) (d_tres m)
      else if String.eqb op "ohg_compose" then
        impl = m \/ TRel (d_tres (wrap_compose impl)) (d_tres (wrap_compose m))
      else if String.eqb op "lohg_to_strict" then
        impl = m \/ TRel (d_tres (wrap_to_strict impl)) (d_tres (wrap_to_strict m))
      else if String.eqb op "ff_coequalizer" then impl = m \/ Decoded d_coeq CoeqRel impl m
      else if String.eqb op "lhg_coequalizer" then impl = m \/ Decoded d_coeq CoeqRel impl m
      else if String.eqb op "a_cc" then impl = m \/ Decoded (d_okv (d_pair d_nats d_nat)) CCRel impl m
      else if String.eqb op "a_argsort" then
        impl = m \/ exists b xs xs' p, args = [b; xs] /\ d_nats xs = Some xs' /\ d_nats impl = Some p /\ ArgsortOK xs' p
      else if String.eqb op "a_sparse_bincount" then
        impl = m \/ exists b xs xs' u c, args = [b; xs] /\ d_nats xs = Some xs' /\
                                         d_pair d_nats d_nats impl = Some (u, c) /\ SparseOK xs' u c
      else if String.eqb op "a_sort_by" then
        impl = m \/ exists b xs key xs' key' r, args = [b; xs; key] /\ d_nats xs = Some xs' /\
                                                d_nats key = Some key' /\ d_okv d_nats impl = Some r /\
                                                length xs' = length key' /\ SortByOK xs' key' r
      else if String.eqb op "a_scatter" then impl = m \/ ScatterRel args impl m
      else if String.eqb op "al_scatter" then impl = m \/ ScatterRel args impl m
      else if String.eqb op "g_converse" then impl = m \/ Decoded (d_okv d_icf) IcfPerm impl m
      else if String.eqb op "g_operation_adjacency" then impl = m \/ Decoded (d_okv d_icf) IcfPerm impl m
      else if String.eqb op "g_node_adjacency" then impl = m \/ Decoded (d_okv d_icf) IcfPerm impl m
      else if String.eqb op "layered_operations" then
        impl = m \/ Decoded (d_okv (d_pair (d_list d_nats) d_nats)) LayersRel impl m
      else if String.eqb op "lhg_quotient" then impl = m \/ Decoded (d_okv (d_pair d_lhg q_of)) LhgQuotRel impl m
      else if String.eqb op "lohg_quotient" then impl = m \/ Decoded (d_okv (d_pair d_lohg q_of)) LohgQuotRel impl m
      else impl = m
  | _ => False
  end.

Ltac branch op s lem H :=
  destruct (String.eqb_spec op s) as [->|?]; [cbv beta iota zeta; apply lem; exact H|].

Theorem spec_case_sound : forall c impl, spec_case c impl = ok_v -> SpecRel c impl.
Proof.
  intros c impl H.
  destruct c as [n|z|s|[|[n|z|op|l] args]]; try discriminate H.
  unfold SpecRel.
  branch op "law"%string spec_ok_law H.
  branch op "eval"%string spec_ok_eval H.
  branch op "var_eval"%string spec_ok_var_eval H.
  branch op "term_eval"%string spec_ok_term_eval H.
  branch op "term"%string spec_ok_term H.
  branch op "ohg_compose"%string spec_ok_ohg_compose H.
  branch op "lohg_to_strict"%string spec_ok_lohg_to_strict H.
  branch op "ff_coequalizer"%string spec_ok_ff_coequalizer H.
  branch op "lhg_coequalizer"%string spec_ok_lhg_coequalizer H.
  branch op "a_cc"%string spec_ok_a_cc H.
  branch op "a_argsort"%string spec_ok_a_argsort H.
  branch op "a_sparse_bincount"%string spec_ok_a_sparse_bincount H.
  branch op "a_sort_by"%string spec_ok_a_sort_by H.
  branch op "a_scatter"%string spec_ok_a_scatter H.
  branch op "al_scatter"%string spec_ok_al_scatter H.
  branch op "g_converse"%string spec_ok_g_converse H.
  branch op "g_operation_adjacency"%string spec_ok_g_operation_adjacency H.
  branch op "g_node_adjacency"%string spec_ok_g_node_adjacency H.
  branch op "layered_operations"%string spec_ok_layered_operations H.
  branch op "lhg_quotient"%string spec_ok_lhg_quotient H.
  branch op "lohg_quotient"%string spec_ok_lohg_quotient H.
  cbv beta iota zeta. apply spec_ok_default; [|exact H].
  intros s Hs. cbn [In special_ops] in Hs.
  repeat (destruct Hs as [<-|Hs]; [assumption|]). contradiction.
Qed.

(* in every branch but [law] an accepted output is the model's own text or stands in the branch's
   relation; in the three oracle branches it is always the model's own text *)
Corollary spec_case_ok_oracle_exact op args impl :
  In op ["eval"; "var_eval"; "term_eval"]%string ->
  spec_case (L (Sy op :: args)) impl = ok_v -> impl = run_case (L (Sy op :: args)).
Proof.
  intros Hin H. cbn [In] in Hin. destruct Hin as [<-|[<-|[<-|[]]]].
  - apply spec_ok_eval, H.
  - apply spec_ok_var_eval, H.
  - apply spec_ok_term_eval, H.
Qed.

(* a failing verdict is never given to the model's own text -- except in the four branches that run a
   check even on textual equality (the law itself; the three oracles) *)
Definition checked_even_if_exact : list string := ["law"; "eval"; "var_eval"; "term_eval"]%string.

Theorem spec_case_fail_not_equal : forall c impl r,
  (forall op args, c = L (Sy op :: args) -> ~ In op checked_even_if_exact) ->
  spec_case c impl = fail_v r -> impl <> run_case c.
Proof.
  intros c impl r Hc H E.
  destruct c as [n|z|s|[|[n|z|op|l] args]]; try discriminate H.
  specialize (Hc op args eq_refl). cbn [In checked_even_if_exact] in Hc.
  revert H. unfold spec_case.
  destruct (String.eqb_spec op "law") as [->|N1]; [tauto|].
  destruct (String.eqb_spec op "eval") as [->|N2]; [tauto|].
  destruct (String.eqb_spec op "var_eval") as [->|N3]; [tauto|].
  destruct (String.eqb_spec op "term_eval") as [->|N4]; [tauto|].
  cbv zeta. rewrite <- E, sx_eqb_refl. discriminate.
Qed.

(* the other direction of the same fact: outside those four branches the model's own text is accepted *)
Theorem spec_case_exact_ok : forall op args,
  ~ In op checked_even_if_exact ->
  spec_case (L (Sy op :: args)) (run_case (L (Sy op :: args))) = ok_v.
Proof.
  intros op args Hc. cbn [In checked_even_if_exact] in Hc. unfold spec_case.
  destruct (String.eqb_spec op "law") as [->|N1]; [tauto|].
  destruct (String.eqb_spec op "eval") as [->|N2]; [tauto|].
  destruct (String.eqb_spec op "var_eval") as [->|N3]; [tauto|].
  destruct (String.eqb_spec op "term_eval") as [->|N4]; [tauto|].
  cbv zeta. rewrite sx_eqb_refl. reflexivity.
Qed.

(* ------------------------------------------------------------------------------------------ *)
(** * 3b. what [TRel] on decoded texts says about the texts                                    *)
(* ------------------------------------------------------------------------------------------ *)

Ltac crush_in H :=
  repeat (match type of H with
          | context [match ?x with _ => _ end] => is_var x; destruct x
          end; cbv beta iota in H; try discriminate H).

Lemma d_tres_TVal x v : d_tres x = TVal v ->
  exists s, x = L [Sy "ok"; L [Sy "some"; s]]%string /\ d_val s = Some v.
Proof.
  intros H. unfold d_tres in H. crush_in H.
  match type of H with context [d_val ?s] => exists s; destruct (d_val s) as [v'|]; [|discriminate H] end.
  injection H as ->. auto.
Qed.

Lemma d_tres_TNone x : d_tres x = TNone -> x = refusal.
Proof.
  intros H. unfold d_tres in H. crush_in H;
    try (match type of H with context [d_val ?s] => destruct (d_val s); discriminate H end).
  reflexivity.
Qed.

Lemma d_tres_TPanic x : d_tres x = TPanic -> x = Sy "panic"%string.
Proof.
  intros H. unfold d_tres in H. crush_in H;
    try (match type of H with context [d_val ?s] => destruct (d_val s); discriminate H end).
  reflexivity.
Qed.

(* the relation on texts: both panic, both "none", or both a value, the values isomorphic *)
Definition TextRel (x y : sx) : Prop :=
  (x = Sy "panic"%string /\ y = Sy "panic"%string) \/
  (x = refusal /\ y = refusal) \/
  exists s s' v v', x = L [Sy "ok"; L [Sy "some"; s]]%string /\ y = L [Sy "ok"; L [Sy "some"; s']]%string /\
                    d_val s = Some v /\ d_val s' = Some v' /\ ValIso v v'.

Theorem TRel_TextRel x y : TRel (d_tres x) (d_tres y) -> TextRel x y.
Proof.
  unfold TextRel. destruct (d_tres x) as [v| | |] eqn:Ex, (d_tres y) as [v'| | |] eqn:Ey;
    cbn [TRel]; try contradiction; intros H.
  - right; right. apply d_tres_TVal in Ex, Ey. destruct Ex as (s & -> & Es), Ey as (s' & -> & Es').
    exists s, s', v, v'. auto.
  - right; left. split; apply d_tres_TNone; assumption.
  - left. split; apply d_tres_TPanic; assumption.
Qed.

Corollary spec_ok_term_text args impl :
  spec_case (L (Sy "term" :: args)) impl = ok_v ->
  impl = run_case (L (Sy "term" :: args)) \/ TextRel impl (run_case (L (Sy "term" :: args))).
Proof. intros H. apply spec_ok_term in H. destruct H as [H|H]; [left; exact H | right; apply TRel_TextRel, H]. Qed.

(* ------------------------------------------------------------------------------------------ *)
(** * 3c. the [eval] exception disappears on well-formed input                                 *)
(* ------------------------------------------------------------------------------------------ *)

Lemma d_backend_ok b B : d_backend b = Some B -> BackendOK B.
Proof.
  intros H. unfold d_backend in H. crush_in H; injection H as <-;
    first [apply VecBackend_ok | apply AdvBackend_ok | apply Adv2Backend_ok].
Qed.

Lemma run_case_eval b f inp B f' inp' :
  d_backend b = Some B -> d_ohg f = Some f' -> d_zs inp = Some inp' ->
  run_case (L [Sy "eval"%string; b; f; inp]) = e_res (e_opt e_zs) (eval B 0%Z apply_sig f' inp').
Proof.
  intros Hb Hf Hi. unfold run_case.
  assert (Hl : lookup "eval" all_tables =
               Some (a3 d_backend d_ohg d_zs (fun B f s => e_res (e_opt e_zs) (eval B 0%Z apply_sig f s))))
    by reflexivity.
  rewrite Hl. unfold a3. rewrite Hb, Hf, Hi.
  destruct (eval B 0%Z apply_sig f' inp') as [[o|]| |]; reflexivity.
Qed.

(* with a valid back-end symbol and a well-formed diagram the model's own text is accepted: the oracle
   and the model agree (Proofs/OracleEval.v) *)
Theorem spec_case_eval_exact_ok b f inp B f' inp' :
  d_backend b = Some B -> d_ohg f = Some f' -> d_zs inp = Some inp' -> wf_ohg f' ->
  spec_case (L [Sy "eval"%string; b; f; inp]) (run_case (L [Sy "eval"%string; b; f; inp])) = ok_v.
Proof.
  intros Hb Hf Hi Wf. pose proof (d_backend_ok _ _ Hb) as OK.
  unfold spec_case. rewrite (run_case_eval _ _ _ _ _ _ Hb Hf Hi).
  cbn [String.eqb Ascii.eqb Bool.eqb]. rewrite Hf, Hi. cbv zeta.
  fold (chk_single_writer (abs f')). fold (chk_arity_ok (abs f') inp').
  destruct (ref_eval (abs f') inp') as [out|] eqn:E3.
  - destruct (chk_single_writer (abs f') && chk_arity_ok (abs f') inp') eqn:E4.
    + rewrite (oracle_value_clause OK inp' Wf E3 E4). rewrite !sx_eqb_refl. reflexivity.
    + destruct (oracle_acceptance_clause OK inp' Wf E3) as (out' & ->).
      rewrite sx_eqb_refl. reflexivity.
  - rewrite (oracle_refusal_clause OK inp' Wf E3). rewrite sx_eqb_refl. reflexivity.
Qed.

Corollary spec_case_fail_not_equal_eval b f inp B f' inp' impl r :
  d_backend b = Some B -> d_ohg f = Some f' -> d_zs inp = Some inp' -> wf_ohg f' ->
  spec_case (L [Sy "eval"%string; b; f; inp]) impl = fail_v r -> impl <> run_case (L [Sy "eval"%string; b; f; inp]).
Proof.
  intros Hb Hf Hi Wf H E. subst impl.
  rewrite (spec_case_eval_exact_ok _ _ _ _ _ _ Hb Hf Hi Wf) in H. discriminate H.
Qed.

(* the same for [var_eval] when no operator carries the variable label (Proofs/C19cThm.v) *)
Lemma run_case_var_eval prog ins outs inp prog' ins' outs' inp' :
  d_list d_vcmd prog = Some prog' -> d_nats ins = Some ins' -> d_nats outs = Some outs' -> d_zs inp = Some inp' ->
  run_case (L [Sy "var_eval"%string; prog; ins; outs; inp])
  = e_res (e_opt e_zs) (var_eval_run VecBackend prog' ins' outs' inp').
Proof.
  intros H1 H2 H3 H4. unfold run_case.
  assert (Hl : lookup "var_eval" all_tables =
               Some (a4 (d_list d_vcmd) d_nats d_nats d_zs
                        (fun p i o z => e_res (e_opt e_zs) (var_eval_run VecBackend p i o z))))
    by reflexivity.
  rewrite Hl. unfold a4. rewrite H1, H2, H3, H4.
  destruct (var_eval_run VecBackend prog' ins' outs' inp') as [[o|]| |]; reflexivity.
Qed.

Theorem spec_case_var_eval_exact_ok prog ins outs inp prog' ins' outs' inp' :
  d_list d_vcmd prog = Some prog' -> d_nats ins = Some ins' -> d_nats outs = Some outs' -> d_zs inp = Some inp' ->
  no_var_label prog' = true ->
  spec_case (L [Sy "var_eval"%string; prog; ins; outs; inp])
            (run_case (L [Sy "var_eval"%string; prog; ins; outs; inp])) = ok_v.
Proof.
  intros H1 H2 H3 H4 Hno. unfold spec_case. rewrite (run_case_var_eval _ _ _ _ _ _ _ _ H1 H2 H3 H4).
  cbn [String.eqb Ascii.eqb Bool.eqb]. rewrite H1, H2, H3, H4. cbv zeta.
  destruct (denote prog' ins' outs' inp') as [r|] eqn:E5.
  - rewrite (C19_semantic_run _ _ _ _ _ E5 (no_var_label_spec _ Hno)). rewrite !sx_eqb_refl. reflexivity.
  - rewrite sx_eqb_refl. reflexivity.
Qed.

(* ------------------------------------------------------------------------------------------ *)
(** * 4. examples and findings                                                                 *)
(* ------------------------------------------------------------------------------------------ *)
Section Examples.
Open Scope string_scope.

Definition nats (l : list nat) : sx := L (map N l).
Definition ffx (t : list nat) (n : nat) : sx := L [nats t; N n].

(* ---- term: the identity on the objects [0;1]; the implementation numbers the two nodes the other way ---- *)
Definition ex_term_case : sx := L [Sy "term"; Sy "vec"; L [Sy "sid"; nats [0; 1]]].
Definition ex_empty_ic (n : nat) : sx := L [ffx [] 1; ffx [] n].
Definition ex_term_text (s t w : list nat) : sx :=
  L [Sy "ok"; L [Sy "some"; L [Sy "strict";
     L [ffx s 2; ffx t 2; L [ex_empty_ic 2; ex_empty_ic 2; nats w; nats []]]]]].

Example ex_term_model : run_case ex_term_case = ex_term_text [0; 1] [0; 1] [0; 1].
Proof. vm_compute. reflexivity. Qed.
Example ex_term_accepted :
  spec_case ex_term_case (ex_term_text [1; 0] [1; 0] [1; 0]) = ok_v /\
  ex_term_text [1; 0] [1; 0] [1; 0] <> run_case ex_term_case.
Proof. split; [vm_compute; reflexivity | vm_compute; discriminate]. Qed.
(* node labels exchanged but not the interfaces: not isomorphic *)
Example ex_term_rejected :
  spec_case ex_term_case (ex_term_text [0; 1] [0; 1] [1; 0]) = fail_v "term-not-isomorphic-to-model".
Proof. vm_compute. reflexivity. Qed.

(* ---- a_cc: edges 0-1 and 2-3 on five nodes; any dense numbering of the three classes is accepted ---- *)
Definition ex_cc_case : sx := L [Sy "a_cc"; Sy "vec"; nats [0; 2]; nats [1; 3]; N 5].
Example ex_cc_model : run_case ex_cc_case = L [Sy "ok"; L [nats [0; 0; 1; 1; 2]; N 3]].
Proof. vm_compute. reflexivity. Qed.
Example ex_cc_accepted :
  spec_case ex_cc_case (L [Sy "ok"; L [nats [2; 2; 0; 0; 1]; N 3]]) = ok_v /\
  L [Sy "ok"; L [nats [2; 2; 0; 0; 1]; N 3]] <> run_case ex_cc_case.
Proof. split; [vm_compute; reflexivity | vm_compute; discriminate]. Qed.
Example ex_cc_rejected :
  spec_case ex_cc_case (L [Sy "ok"; L [nats [0; 0; 1; 1; 1]; N 3]]) = fail_v "components-partition" /\
  spec_case ex_cc_case (L [Sy "ok"; L [nats [0; 0; 1; 1; 3]; N 4]]) = fail_v "components-partition".
Proof. split; vm_compute; reflexivity. Qed.

(* ---- a_argsort: the two equal keys may come in either order ---- *)
Definition ex_argsort_case : sx := L [Sy "a_argsort"; Sy "vec"; nats [3; 1; 3; 0]].
Example ex_argsort_model : run_case ex_argsort_case = nats [3; 1; 0; 2].
Proof. vm_compute. reflexivity. Qed.
Example ex_argsort_accepted :
  spec_case ex_argsort_case (nats [3; 1; 2; 0]) = ok_v /\ nats [3; 1; 2; 0] <> run_case ex_argsort_case.
Proof. split; [vm_compute; reflexivity | vm_compute; discriminate]. Qed.
Example ex_argsort_rejected :
  spec_case ex_argsort_case (nats [3; 0; 1; 2]) = fail_v "argsort-contract" /\
  spec_case ex_argsort_case (nats [3; 1; 0; 0]) = fail_v "argsort-contract".
Proof. split; vm_compute; reflexivity. Qed.

(* ---- a_sort_by (a former soundness gap, repaired in Run/SpecCheck.v): with keys [0;1] (no tie) the only
        conforming answer is [10;20]; the reversed array -- a permutation of the values -- is rejected;
        with tied keys either order is accepted ---- *)
Definition ex_sort_by_case : sx := L [Sy "a_sort_by"; Sy "vec"; nats [10; 20]; nats [0; 1]].
Definition ex_sort_by_impl : sx := L [Sy "ok"; nats [20; 10]].

Example sort_by_rejects_unsorted :
  spec_case ex_sort_by_case ex_sort_by_impl = fail_v "sort_by-contract" /\
  run_case ex_sort_by_case = L [Sy "ok"; nats [10; 20]] /\
  ~ SortByOK [10; 20] [0; 1] [20; 10].
Proof.
  split; [vm_compute; reflexivity|]. split; [vm_compute; reflexivity|].
  intros H. apply (chk_sort_by_complete [10; 20] [0; 1] [20; 10] eq_refl) in H. vm_compute in H. discriminate H.
Qed.

Example sort_by_conforming : SortByOK [10; 20] [0; 1] [10; 20].
Proof.
  exists [0; 1]. split; [split|reflexivity]; [apply Permutation_refl|].
  cbn. repeat constructor.
Qed.

Definition ex_sort_by_tie : sx := L [Sy "a_sort_by"; Sy "vec"; nats [10; 20; 30]; nats [1; 0; 1]].
Example sort_by_tie_accepted :
  run_case ex_sort_by_tie = L [Sy "ok"; nats [20; 10; 30]] /\
  spec_case ex_sort_by_tie (L [Sy "ok"; nats [20; 30; 10]]) = ok_v /\
  spec_case ex_sort_by_tie (L [Sy "ok"; nats [10; 20; 30]]) = fail_v "sort_by-contract".
Proof. repeat split; vm_compute; reflexivity. Qed.

(* ---- scatter (a former soundness gap, repaired): where the preconditions are violated (index out of range)
        and the model -- like the Rust code -- panics, a non-panicking answer is rejected; on an accepted
        call the un-hit positions are free ---- *)
Definition ex_scatter_case (op : string) : sx := L [Sy op; Sy "vec"; nats [1; 2]; nats [0; 7]; N 2].
Example scatter_rejects_where_model_panics :
  run_case (ex_scatter_case "a_scatter") = Sy "panic" /\
  spec_case (ex_scatter_case "a_scatter") (L [Sy "ok"; nats [1; 0]]) = fail_v "scatter-contract" /\
  spec_case (ex_scatter_case "a_scatter") (Sy "panic") = ok_v /\
  run_case (ex_scatter_case "al_scatter") = Sy "panic" /\
  spec_case (ex_scatter_case "al_scatter") (L [Sy "ok"; nats [1; 0]]) = fail_v "scatter-contract".
Proof. repeat split; vm_compute; reflexivity. Qed.

Definition ex_scatter_good : sx := L [Sy "a_scatter"; Sy "vec"; nats [1; 2]; nats [2; 0]; N 4].
Example scatter_free_slots_accepted :
  run_case ex_scatter_good = L [Sy "ok"; nats [2; 1; 1; 1]] /\
  spec_case ex_scatter_good (L [Sy "ok"; nats [2; 9; 1; 8]]) = ok_v /\
  spec_case ex_scatter_good (L [Sy "ok"; nats [1; 0; 2; 0]]) = fail_v "scatter-contract" /\
  ScatterOK [1; 2] [2; 0] 4 [2; 9; 1; 8].
Proof.
  split; [vm_compute; reflexivity|]. split; [vm_compute; reflexivity|]. split; [vm_compute; reflexivity|].
  split; [reflexivity|]. intros j Hj [<-|[<-|[]]]; [exists 0 | exists 1]; auto.
Qed.

(* ---- the exceptions of [spec_case_fail_not_equal]: the model's own text is rejected ---- *)
(* law: the two sides are not isomorphic (identity on object 0 / on object 1) *)
Definition ex_law_case : sx := L [Sy "law"; Sy "vec"; L [Sy "sid"; nats [0]]; L [Sy "sid"; nats [1]]].
Example law_exact_but_fails :
  spec_case ex_law_case (run_case ex_law_case) = fail_v "law-sides-not-isomorphic".
Proof. vm_compute. reflexivity. Qed.
(* eval: a malformed diagram (source table out of range) on which the model panics, the oracle does not *)
Definition ex_eval_bad : sx :=
  L [Sy "eval"; Sy "vec"; L [ffx [5] 1; ffx [0] 1; L [ex_empty_ic 1; ex_empty_ic 1; nats [0]; nats []]]; L [Zv 7]].
Example eval_exact_but_fails :
  run_case ex_eval_bad = Sy "panic" /\
  spec_case ex_eval_bad (run_case ex_eval_bad) = fail_v "eval-differs-from-reference-interpreter".
Proof. split; vm_compute; reflexivity. Qed.
(* var_eval: an operator carrying the variable label 9 (outside the scope of C19_semantic) *)
Definition ex_var_eval_bad : sx :=
  L [Sy "var_eval"; L [L [Sy "new"; N 0]; L [Sy "apply"; N 9; nats [0]; nats [0]]]; nats [0]; nats [1]; L [Zv 7]].
Example var_eval_exact_but_fails :
  spec_case ex_var_eval_bad (run_case ex_var_eval_bad)
  = fail_v "forget-of-built-term-does-not-evaluate-to-the-expression".
Proof. vm_compute. reflexivity. Qed.
(* term_eval: a malformed lax circuit (interface node out of range) *)
Definition ex_term_eval_bad : sx :=
  L [Sy "term_eval"; Sy "vec";
     L [Sy "l"; L [nats [3]; nats [0]; L [nats [0]; nats []; L []; L [nats []; nats []]]]]; L [Zv 7]].
Example term_eval_exact_but_fails :
  run_case ex_term_eval_bad = Sy "panic" /\
  spec_case ex_term_eval_bad (run_case ex_term_eval_bad) = fail_v "eval-differs-from-reference-interpreter".
Proof. split; vm_compute; reflexivity. Qed.

(* ---- the hypotheses of the summary theorems are satisfiable, and the theorems apply ---- *)
Example ex_sound_applies :
  SpecRel ex_term_case (ex_term_text [1; 0] [1; 0] [1; 0]) /\
  SpecRel ex_cc_case (L [Sy "ok"; L [nats [2; 2; 0; 0; 1]; N 3]]) /\
  SpecRel ex_argsort_case (nats [3; 1; 2; 0]).
Proof. repeat split; apply spec_case_sound; vm_compute; reflexivity. Qed.

Example ex_fail_applies : nats [3; 0; 1; 2] <> run_case ex_argsort_case.
Proof.
  apply (spec_case_fail_not_equal ex_argsort_case _ "argsort-contract").
  - intros op args E. injection E as <- _. cbn. intros [H|[H|[H|[H|[]]]]]; discriminate H.
  - vm_compute. reflexivity.
Qed.
End Examples.

Print Assumptions spec_ok_law.
Print Assumptions spec_ok_term.
Print Assumptions spec_ok_term_text.
Print Assumptions spec_ok_ohg_compose.
Print Assumptions spec_ok_lohg_to_strict.
Print Assumptions spec_ok_ff_coequalizer.
Print Assumptions spec_ok_lhg_coequalizer.
Print Assumptions spec_ok_a_cc.
Print Assumptions spec_ok_a_argsort.
Print Assumptions spec_ok_a_sparse_bincount.
Print Assumptions spec_ok_a_sort_by.
Print Assumptions spec_ok_a_scatter.
Print Assumptions spec_ok_al_scatter.
Print Assumptions spec_ok_g_converse.
Print Assumptions spec_ok_g_operation_adjacency.
Print Assumptions spec_ok_g_node_adjacency.
Print Assumptions spec_ok_layered_operations.
Print Assumptions spec_ok_lhg_quotient.
Print Assumptions spec_ok_lohg_quotient.
Print Assumptions spec_ok_eval.
Print Assumptions spec_ok_eval_model.
Print Assumptions spec_ok_var_eval.
Print Assumptions spec_ok_var_eval_model.
Print Assumptions spec_ok_term_eval.
Print Assumptions spec_ok_default.
Print Assumptions spec_case_sound.
Print Assumptions spec_case_ok_oracle_exact.
Print Assumptions spec_case_fail_not_equal.
Print Assumptions spec_case_exact_ok.
Print Assumptions TRel_TextRel.
Print Assumptions spec_case_eval_exact_ok.
Print Assumptions spec_case_fail_not_equal_eval.
Print Assumptions spec_case_var_eval_exact_ok.
Print Assumptions chk_sort_by_iff.
Print Assumptions sort_by_rejects_unsorted.
Print Assumptions scatter_rejects_where_model_panics.
