(* The faithful union-find model (Model/UnionFind.v: parent/rank arrays, recursive [find] with path
   compression and explicit fuel, union by rank) computes exactly the relabel-merge model [cc_pure]:
   - [rootof par x d r]: following parents from x reaches the root r after exactly d steps;
   - a forest (every node has a root) has all depths < n (pigeonhole), so the fuel n+1 handed to
     [uf_find] always suffices: the result is never [Fuel];
   - [uf_find] returns the root and only shortens paths ([shrink]); [uf_union] re-points one root to
     another root, which realises [conn_snoc] on the partition, whatever the ranks say;
   - the final loop returns the array of roots, which has the equality pattern of [conn], and
     [cc_pure_any_labels] concludes;
   - outside the documented precondition the function panics (never [Fuel]). *)
From OHG Require Import Model.Prims Model.UnionFind Spec.Backend Proofs.PrimsThm Proofs.CCThm.

Set Implicit Arguments.

(* ---------- 1. roots and depths ---------- *)
Inductive rootof (par : list nat) : nat -> nat -> nat -> Prop :=
| ro_root x : x < length par -> nth x par 0 = x -> rootof par x 0 x
| ro_step x d r : x < length par -> nth x par 0 <> x ->
    rootof par (nth x par 0) d r -> rootof par x (S d) r.

Lemma rootof_lt par x d r : rootof par x d r -> x < length par.
Proof. intros R. destruct R as [x Hx Hp|x d r Hx Hp R]; exact Hx. Qed.

Lemma rootof_root par x d r : rootof par x d r -> rootof par r 0 r.
Proof.
  intros R. induction R as [x Hx Hp|x d r Hx Hp R IH].
  - apply ro_root; auto.
  - exact IH.
Qed.

Lemma rootof_det par x d r : rootof par x d r -> forall d' r', rootof par x d' r' -> d = d' /\ r = r'.
Proof.
  intros R. induction R as [x Hx Hp|x d r Hx Hp R IH]; intros d' r' R'.
  - inversion R' as [y Hy Hq|y e s Hy Hq R'']; subst; auto. contradiction.
  - inversion R' as [y Hy Hq|y e s Hy Hq R'']; subst.
    + contradiction.
    + destruct (IH _ _ R'') as [-> ->]. auto.
Qed.

Lemma rootof_root_lt par x d r : rootof par x d r -> r < length par.
Proof. intros R. apply rootof_root in R. eapply rootof_lt; eauto. Qed.

(* the path from x to its root: d+1 distinct nodes *)
Lemma rootof_path par x d r : rootof par x d r ->
  exists l, length l = S d /\ NoDup l /\
    forall y, In y l -> y < length par /\ exists d', d' <= d /\ rootof par y d' r.
Proof.
  intros R. induction R as [x Hx Hp|x d r Hx Hp R IH].
  - exists [x]. split; [reflexivity|]. split.
    + constructor; [intros []|constructor].
    + intros y [<-|[]]. split; auto. exists 0. split; auto. apply ro_root; auto.
  - destruct IH as (l & Hl & Hnd & Hin). exists (x :: l). split; [simpl; lia|]. split.
    + constructor; auto. intros Hx'. destruct (Hin _ Hx') as (_ & d' & Hd' & R').
      assert (R2 : rootof par x (S d) r) by (apply ro_step; auto).
      destruct (rootof_det R2 R') as [E _]. lia.
    + intros y [<-|Hy].
      * split; auto. exists (S d). split; auto. apply ro_step; auto.
      * destruct (Hin _ Hy) as (Hy' & d' & Hd' & R'). split; auto. exists d'. split; auto.
Qed.

(* pigeonhole: depths are below the number of nodes *)
Lemma rootof_depth_lt par x d r : rootof par x d r -> d < length par.
Proof.
  intros R. destruct (rootof_path R) as (l & Hl & Hnd & Hin).
  assert (Hle : length l <= length (seq 0 (length par))).
  { apply NoDup_incl_length; auto. intros y Hy. apply in_seq. destruct (Hin _ Hy) as [Hy' _]. lia. }
  rewrite seq_length in Hle. lia.
Qed.

(* ---------- 2. path compression and linking on the parent array ---------- *)
(* par' has the same roots as par, with depths not increased *)
Definition shrink (par par' : list nat) : Prop :=
  forall y d r, rootof par y d r -> exists d', d' <= d /\ rootof par' y d' r.

Lemma shrink_refl par : shrink par par.
Proof. intros y d r R. exists d. auto. Qed.

Lemma shrink_trans p1 p2 p3 : shrink p1 p2 -> shrink p2 p3 -> shrink p1 p3.
Proof.
  intros H12 H23 y d r R. destruct (H12 _ _ _ R) as (d1 & Hd1 & R1).
  destruct (H23 _ _ _ R1) as (d2 & Hd2 & R2). exists d2. split; auto. lia.
Qed.

(* re-pointing x to its own root *)
Lemma compress_shrink par x dx r : rootof par x dx r -> shrink par (set_nth par x r).
Proof.
  intros Rx y d ry R.
  assert (Hx : x < length par) by (eapply rootof_lt; eauto).
  assert (Rr : rootof par r 0 r) by (eapply rootof_root; eauto).
  induction R as [y Hy Hp|y d ry Hy Hp R IH].
  - exists 0. split; auto. apply ro_root.
    + rewrite set_nth_length; auto.
    + rewrite nth_set_nth by auto. destruct (Nat.eqb_spec y x) as [->|Hne]; auto.
      assert (Ry : rootof par x 0 x) by (apply ro_root; auto).
      destruct (rootof_det Rx Ry) as [_ E]. exact E.
  - destruct (Nat.eq_dec y x) as [->|Hne].
    + assert (Rx' : rootof par x (S d) ry) by (apply ro_step; auto).
      destruct (rootof_det Rx Rx') as [_ <-].
      assert (Hrx : r <> x).
      { intros ->. inversion Rr as [z Hz Hq|z e s Hz Hq R'']; subst. contradiction. }
      exists 1. split; [lia|]. apply ro_step.
      * rewrite set_nth_length; auto.
      * rewrite nth_set_nth by auto. rewrite Nat.eqb_refl. exact Hrx.
      * rewrite nth_set_nth by auto. rewrite Nat.eqb_refl. apply ro_root.
        -- rewrite set_nth_length. eapply rootof_lt; eauto.
        -- rewrite nth_set_nth by auto. destruct (Nat.eqb_spec r x) as [E|_]; [contradiction|].
           inversion Rr as [z Hz Hq|z e s Hz Hq R'']; subst; auto.
    + destruct IH as (d' & Hd' & R'). exists (S d'). split; [lia|].
      assert (E : nth y (set_nth par x r) 0 = nth y par 0).
      { rewrite nth_set_nth by auto. destruct (Nat.eqb_spec y x); [contradiction|reflexivity]. }
      apply ro_step.
      * rewrite set_nth_length; auto.
      * rewrite E. exact Hp.
      * rewrite E. exact R'.
Qed.

(* re-pointing a root p to a different root q: the class of p is merged into that of q *)
Lemma link_rootof par p q : rootof par p 0 p -> rootof par q 0 q -> p <> q ->
  forall y d r, rootof par y d r ->
    exists d', rootof (set_nth par p q) y d' (if r =? p then q else r).
Proof.
  intros Rp Rq Hpq y d r R.
  assert (Hp : p < length par) by (eapply rootof_lt; eauto).
  assert (Hq : q < length par) by (eapply rootof_lt; eauto).
  assert (Rq' : rootof (set_nth par p q) q 0 q).
  { apply ro_root.
    - rewrite set_nth_length; auto.
    - rewrite nth_set_nth by auto. destruct (Nat.eqb_spec q p) as [E|_]; [congruence|].
      inversion Rq as [z Hz Hz'|z e s Hz Hz' R'']; subst; auto. }
  induction R as [y Hy Hy'|y d r Hy Hy' R IH].
  - destruct (Nat.eqb_spec y p) as [->|Hne].
    + exists 1. apply ro_step.
      * rewrite set_nth_length; auto.
      * rewrite nth_set_nth by auto. rewrite Nat.eqb_refl. auto.
      * rewrite nth_set_nth by auto. rewrite Nat.eqb_refl. exact Rq'.
    + exists 0. apply ro_root.
      * rewrite set_nth_length; auto.
      * rewrite nth_set_nth by auto. destruct (Nat.eqb_spec y p); [contradiction|auto].
  - destruct IH as (d' & R'). exists (S d').
    assert (Hne : y <> p).
    { intros ->. inversion Rp as [z Hz Hz'|z e s Hz Hz' R'']; subst. contradiction. }
    assert (E : nth y (set_nth par p q) 0 = nth y par 0).
    { rewrite nth_set_nth by auto. destruct (Nat.eqb_spec y p); [contradiction|reflexivity]. }
    apply ro_step.
    + rewrite set_nth_length; auto.
    + rewrite E. exact Hy'.
    + rewrite E. exact R'.
Qed.

(* ---------- 3. find ---------- *)
(* (a) with fuel above the depth, find returns the root; (b) it only shortens paths *)
Lemma uf_find_ok u x d r : rootof (uf_parent u) x d r -> forall fuel, d < fuel ->
  exists u', uf_find fuel u x = Ok (u', r) /\
    length (uf_parent u') = length (uf_parent u) /\ uf_rank u' = uf_rank u /\
    shrink (uf_parent u) (uf_parent u').
Proof.
  intros R. induction R as [x Hx Hp|x d r Hx Hp R IH]; intros fuel Hf.
  - destruct fuel as [|f]; [lia|]. exists u. cbn [uf_find]. rewrite (get_ok _ 0 Hx). cbn [bind].
    rewrite Hp, Nat.eqb_refl. cbn [negb]. repeat split; auto. apply shrink_refl.
  - destruct fuel as [|f]; [lia|]. destruct (IH f) as (u1 & E & Hl & Hr & Hs); [lia|].
    cbn [uf_find]. rewrite (get_ok _ 0 Hx). cbn [bind].
    destruct (Nat.eqb_spec (nth x (uf_parent u) 0) x) as [Heq|_]; [contradiction|]. cbn [negb].
    rewrite E. cbn [bind]. rewrite assign_ok by lia. cbn [bind].
    eexists. split; [reflexivity|]. cbn [uf_parent uf_rank].
    split; [rewrite set_nth_length; exact Hl|]. split; [exact Hr|].
    assert (Rx : rootof (uf_parent u) x (S d) r) by (apply ro_step; auto).
    destruct (Hs _ _ _ Rx) as (dx & _ & Rx1).
    eapply shrink_trans; [exact Hs|]. eapply compress_shrink; eauto.
Qed.

Lemma uf_find_panic fuel u x : length (uf_parent u) <= x -> 0 < fuel -> uf_find fuel u x = Panic.
Proof.
  intros Hx Hf. destruct fuel as [|f]; [lia|]. cbn [uf_find]. rewrite get_panic by auto. reflexivity.
Qed.

(* ---------- 4. invariants ---------- *)
Definition forest (n : nat) (par : list nat) : Prop :=
  length par = n /\ forall x, x < n -> exists d r, rootof par x d r.

Definition sem (n : nat) (P : list (nat * nat)) (par : list nat) : Prop :=
  forall x y dx dy rx ry, x < n -> y < n ->
    rootof par x dx rx -> rootof par y dy ry -> (rx = ry <-> conn P x y).

Definition uf_ok (n : nat) (P : list (nat * nat)) (u : uf) : Prop :=
  forest n (uf_parent u) /\ length (uf_rank u) = n /\ sem n P (uf_parent u).

Lemma shrink_forest n par par' : length par' = n -> forest n par -> shrink par par' -> forest n par'.
Proof.
  intros Hl [_ Hf] Hs. split; auto. intros x Hx. destruct (Hf x Hx) as (d & r & R).
  destruct (Hs _ _ _ R) as (d' & _ & R'). eauto.
Qed.

Lemma shrink_sem n P par par' : forest n par -> shrink par par' -> sem n P par -> sem n P par'.
Proof.
  intros [_ Hf] Hs Hsem x y dx dy rx ry Hx Hy Rx Ry.
  destruct (Hf x Hx) as (dx0 & rx0 & Rx0). destruct (Hf y Hy) as (dy0 & ry0 & Ry0).
  destruct (Hs _ _ _ Rx0) as (dx1 & _ & Rx1). destruct (Hs _ _ _ Ry0) as (dy1 & _ & Ry1).
  destruct (rootof_det Rx Rx1) as [_ ->]. destruct (rootof_det Ry Ry1) as [_ ->].
  eapply Hsem; eauto.
Qed.

(* the fuel n+1 suffices: find succeeds on every node of a well-formed structure *)
Lemma uf_find_inv n P u x : uf_ok n P u -> x < n ->
  exists u' d r, uf_find (n + 1) u x = Ok (u', r) /\ uf_ok n P u' /\
    rootof (uf_parent u) x d r /\ shrink (uf_parent u) (uf_parent u').
Proof.
  intros (Hf & Hr & Hsem) Hx. destruct Hf as [Hl Hf']. destruct (Hf' x Hx) as (d & r & R).
  assert (Hd : d < n) by (rewrite <- Hl; eapply rootof_depth_lt; eauto).
  destruct (@uf_find_ok u x d r R (n + 1)) as (u' & E & Hl' & Hr' & Hs); [lia|].
  exists u', d, r. split; auto. split; [|split; auto].
  assert (F : forest n (uf_parent u)) by (split; auto).
  split; [|split].
  - eapply shrink_forest; eauto. lia.
  - congruence.
  - eapply shrink_sem; eauto.
Qed.

(* ---------- 5. union ---------- *)
(* a new parent array whose roots are the old ones renamed by f, where f identifies exactly the
   roots of a and b, realises conn_snoc *)
Lemma rename_sem n P par par' a b da db ra rb (f : nat -> nat) :
  forest n par -> sem n P par -> a < n -> b < n ->
  rootof par a da ra -> rootof par b db rb ->
  (forall r1 r2, f r1 = f r2 <-> r1 = r2 \/ (r1 = ra /\ rb = r2) \/ (r1 = rb /\ ra = r2)) ->
  (forall y d r, rootof par y d r -> exists d', rootof par' y d' (f r)) ->
  sem n (P ++ [(a, b)]) par'.
Proof.
  intros [_ Hf] Hsem Ha Hb Ra Rb Hfn Hren x y dx dy rx ry Hx Hy Rx Ry.
  destruct (Hf x Hx) as (dx0 & rx0 & Rx0). destruct (Hf y Hy) as (dy0 & ry0 & Ry0).
  destruct (Hren _ _ _ Rx0) as (dx1 & Rx1). destruct (Hren _ _ _ Ry0) as (dy1 & Ry1).
  destruct (rootof_det Rx Rx1) as [_ ->]. destruct (rootof_det Ry Ry1) as [_ ->].
  rewrite conn_snoc, Hfn.
  rewrite <- (Hsem x y _ _ _ _ Hx Hy Rx0 Ry0).
  rewrite <- (Hsem x a _ _ _ _ Hx Ha Rx0 Ra).
  rewrite <- (Hsem b y _ _ _ _ Hb Hy Rb Ry0).
  rewrite <- (Hsem x b _ _ _ _ Hx Hb Rx0 Rb).
  rewrite <- (Hsem a y _ _ _ _ Ha Hy Ra Ry0).
  tauto.
Qed.

Lemma link_ok n P par a b da db ra rb p q :
  forest n par -> sem n P par -> a < n -> b < n ->
  rootof par a da ra -> rootof par b db rb ->
  (p = ra /\ q = rb) \/ (p = rb /\ q = ra) -> p <> q ->
  forest n (set_nth par p q) /\ sem n (P ++ [(a, b)]) (set_nth par p q).
Proof.
  intros F Hsem Ha Hb Ra Rb Hpq Hne.
  assert (Rp : rootof par p 0 p).
  { destruct Hpq as [[-> _]|[-> _]]; eapply rootof_root; eauto. }
  assert (Rq : rootof par q 0 q).
  { destruct Hpq as [[_ ->]|[_ ->]]; eapply rootof_root; eauto. }
  pose proof (link_rootof Rp Rq Hne) as Hlink.
  split.
  - destruct F as [Hl Hf]. split; [rewrite set_nth_length; auto|].
    intros x Hx. destruct (Hf x Hx) as (d & r & R). destruct (Hlink _ _ _ R) as (d' & R'). eauto.
  - eapply rename_sem with (f := fun r => if r =? p then q else r); eauto.
    intros r1 r2. destruct (Nat.eqb_spec r1 p); destruct (Nat.eqb_spec r2 p); lia.
Qed.

Lemma uf_union_ok n P u a b : uf_ok n P u -> a < n -> b < n ->
  exists u', uf_union (n + 1) u a b = Ok u' /\ uf_ok n (P ++ [(a, b)]) u'.
Proof.
  intros Hu Ha Hb.
  destruct (uf_find_inv Hu Ha) as (u1 & da & ra & E1 & Hu1 & Ra & Hs1).
  destruct (uf_find_inv Hu1 Hb) as (u2 & db & rb & E2 & Hu2 & Rb & Hs2).
  unfold uf_union. rewrite E1. cbn [bind]. rewrite E2. cbn [bind].
  destruct (Hs1 _ _ _ Ra) as (da1 & _ & Ra1). destruct (Hs2 _ _ _ Ra1) as (da2 & _ & Ra2).
  destruct (Hs2 _ _ _ Rb) as (db2 & _ & Rb2).
  destruct Hu2 as (F2 & Hr2 & Hsem2).
  assert (Hl2 : length (uf_parent u2) = n) by (destruct F2; auto).
  assert (Hra : ra < n) by (rewrite <- Hl2; eapply rootof_root_lt; eauto).
  assert (Hrb : rb < n) by (rewrite <- Hl2; eapply rootof_root_lt; eauto).
  destruct (Nat.eqb_spec ra rb) as [Heq|Hne]; cbn [negb].
  - exists u2. split; auto. split; auto. split; auto.
    eapply rename_sem with (f := fun r => r); eauto; try (intros r1 r2; lia).
  - rewrite (get_ok _ 0) by lia. cbn [bind]. rewrite (get_ok _ 0) by lia. cbn [bind].
    destruct (nth rb (uf_rank u2) 0 <? nth ra (uf_rank u2) 0).
    + rewrite assign_ok by lia. cbn [bind]. eexists. split; [reflexivity|].
      destruct (@link_ok n P (uf_parent u2) a b da2 db2 ra rb rb ra) as [F' S']; auto.
      split; [|split]; cbn [uf_parent uf_rank]; auto.
    + destruct (nth ra (uf_rank u2) 0 <? nth rb (uf_rank u2) 0).
      * rewrite assign_ok by lia. cbn [bind]. eexists. split; [reflexivity|].
        destruct (@link_ok n P (uf_parent u2) a b da2 db2 ra rb ra rb) as [F' S']; auto.
        split; [|split]; cbn [uf_parent uf_rank]; auto.
      * rewrite assign_ok by lia. cbn [bind]. rewrite assign_ok by lia. cbn [bind].
        eexists. split; [reflexivity|].
        destruct (@link_ok n P (uf_parent u2) a b da2 db2 ra rb rb ra) as [F' S']; auto.
        split; [|split]; cbn [uf_parent uf_rank]; auto. rewrite set_nth_length; auto.
Qed.

(* ---------- 6. the two loops ---------- *)
Lemma uf_new_ok n : uf_ok n [] (uf_new n).
Proof.
  assert (R : forall x, x < n -> rootof (seq 0 n) x 0 x).
  { intros x Hx. apply ro_root; [rewrite seq_length; auto|]. rewrite seq_nth by auto. reflexivity. }
  unfold uf_new. split; [|split]; cbn [uf_parent uf_rank].
  - split; [apply seq_length|]. intros x Hx. eauto.
  - apply repeat_length.
  - intros x y dx dy rx ry Hx Hy Rx Ry.
    destruct (rootof_det Rx (R x Hx)) as [_ ->]. destruct (rootof_det Ry (R y Hy)) as [_ ->].
    split; [intros ->; apply conn_refl|apply conn_nil].
Qed.

Definition union_step (n : nat) (u : uf) (e : nat * nat) : res uf := uf_union (n + 1) u (fst e) (snd e).

Lemma unions_ok n ps : forall P u, pairs_lt n ps -> uf_ok n P u ->
  exists u', foldM (union_step n) ps u = Ok u' /\ uf_ok n (P ++ ps) u'.
Proof.
  induction ps as [|[a b] ps IH]; intros P u Hps Hu.
  - exists u. rewrite app_nil_r. auto.
  - inversion Hps as [|p ps' [Ha Hb] Hps']; subst. cbn [fst snd] in Ha, Hb.
    destruct (uf_union_ok Hu Ha Hb) as (u1 & E & Hu1).
    destruct (IH _ _ Hps' Hu1) as (u' & E' & Hu').
    exists u'. cbn [foldM]. unfold union_step at 1. cbn [fst snd]. rewrite E. cbn [bind].
    split; auto. rewrite <- app_assoc in Hu'. exact Hu'.
Qed.

Definition find_step (n : nat) (ur : uf * list nat) (i : nat) : res (uf * list nat) :=
  let '(u, acc) := ur in '(u', r) <- uf_find (n + 1) u i ;; Ok (u', acc ++ [r]).

Definition is_root (par : list nat) (x r : nat) : Prop := exists d, rootof par x d r.

Lemma finds_ok n P l : forall u acc, Forall (fun i => i < n) l -> uf_ok n P u ->
  exists u' roots, foldM (find_step n) l (u, acc) = Ok (u', acc ++ roots) /\ uf_ok n P u' /\
    shrink (uf_parent u) (uf_parent u') /\ Forall2 (is_root (uf_parent u')) l roots.
Proof.
  induction l as [|i l IH]; intros u acc Hl Hu.
  - exists u, []. rewrite app_nil_r. split; [reflexivity|]. split; auto. split; [apply shrink_refl|constructor].
  - inversion Hl as [|i' l' Hi Hl']; subst.
    destruct (uf_find_inv Hu Hi) as (u1 & d & r & E & Hu1 & R & Hs).
    destruct (IH u1 (acc ++ [r]) Hl' Hu1) as (u' & roots & E' & Hu' & Hs' & HF).
    exists u', (r :: roots). cbn [foldM]. unfold find_step at 1. rewrite E. cbn [bind].
    rewrite E'. rewrite <- app_assoc. split; [reflexivity|]. split; auto.
    split; [eapply shrink_trans; eauto|]. constructor; auto.
    destruct (Hs _ _ _ R) as (d1 & _ & R1). destruct (Hs' _ _ _ R1) as (d2 & _ & R2).
    exists d2. exact R2.
Qed.

Lemma roots_labels_ok n P u roots : uf_ok n P u ->
  Forall2 (is_root (uf_parent u)) (seq 0 n) roots -> labels_ok n P roots.
Proof.
  intros (F & _ & Hsem) HF. apply Forall2_nth_nat in HF. destruct HF as [Hlen Hnth].
  rewrite seq_length in Hlen, Hnth. split; auto.
  intros i j Hi Hj. destruct (Hnth i Hi) as (di & Ri). destruct (Hnth j Hj) as (dj & Rj).
  rewrite seq_nth in Ri, Rj by auto. cbn [Nat.add] in Ri, Rj.
  eapply Hsem; eauto.
Qed.

(* ---------- 7. main theorems ---------- *)
Lemma uf_cc_unfold s t n : uf_connected_components s t n =
  (_ <- assert (length s =? length t) ;;
   _ <- assert ((0 <? n) || (length s =? 0)) ;;
   u <- foldM (union_step n) (combine s t) (uf_new n) ;;
   '(_, roots) <- foldM (find_step n) (seq 0 n) (u, []) ;;
   Ok (to_dense roots)).
Proof. reflexivity. Qed.

Theorem uf_connected_components_ok : forall s t n, length s = length t -> all_lt n s -> all_lt n t ->
  uf_connected_components s t n = Ok (cc_pure s t n).
Proof.
  intros s t n Hlen Hs Ht. rewrite uf_cc_unfold.
  assert (Hn : (0 <? n) || (length s =? 0) = true).
  { destruct n as [|n]; [|reflexivity]. destruct s as [|x s]; [reflexivity|].
    inversion Hs as [|x' s' Hx Hs']; subst. lia. }
  rewrite Hn, Hlen, Nat.eqb_refl. cbn [assert bind].
  destruct (@unions_ok n (combine s t) [] (uf_new n)) as (u & E & Hu).
  { apply pairs_lt_combine; auto. }
  { apply uf_new_ok. }
  cbn [app] in Hu. rewrite E. cbn [bind].
  destruct (@finds_ok n (combine s t) (seq 0 n) u []) as (u' & roots & E' & Hu' & _ & HF); auto.
  { apply Forall_forall. intros i Hi. apply in_seq in Hi. lia. }
  rewrite E'. cbn [bind app]. f_equal. apply cc_pure_any_labels; auto.
  eapply roots_labels_ok; eauto.
Qed.

(* any bad pair makes the union loop panic (never Fuel) *)
Lemma unions_panic n ps : 0 < n -> forall P u, uf_ok n P u ->
  Exists (fun p => n <= fst p \/ n <= snd p) ps -> foldM (union_step n) ps u = Panic.
Proof.
  intros Hn. induction ps as [|[a b] ps IH]; intros P u Hu Hex.
  - inversion Hex.
  - cbn [foldM]. unfold union_step at 1. cbn [fst snd].
    assert (Hlu : length (uf_parent u) = n) by (destruct Hu as ([Hl _] & _); auto).
    destruct (le_lt_dec n a) as [Ha|Ha].
    { unfold uf_union. rewrite uf_find_panic by lia. reflexivity. }
    destruct (le_lt_dec n b) as [Hb|Hb].
    { destruct (uf_find_inv Hu Ha) as (u1 & da & ra & E1 & Hu1 & _ & _).
      assert (Hl1 : length (uf_parent u1) = n) by (destruct Hu1 as ([Hl _] & _); auto).
      unfold uf_union. rewrite E1. cbn [bind]. rewrite uf_find_panic by lia. reflexivity. }
    destruct (uf_union_ok Hu Ha Hb) as (u1 & E & Hu1). rewrite E. cbn [bind].
    inversion Hex as [p ps' Hbad|p ps' Hex']; subst.
    + cbn [fst snd] in Hbad. lia.
    + eapply IH; eauto.
Qed.

Lemma Exists_combine_l n s : forall t, length s = length t -> Exists (fun x => n <= x) s ->
  Exists (fun p : nat * nat => n <= fst p \/ n <= snd p) (combine s t).
Proof.
  induction s as [|x s IH]; intros [|y t] Hlen Hex; simpl in Hlen; try discriminate.
  - inversion Hex.
  - cbn [combine]. inversion Hex as [x' s' Hx|x' s' Hex']; subst.
    + apply Exists_cons_hd. auto.
    + apply Exists_cons_tl. apply IH; auto.
Qed.

Lemma Exists_combine_r n t : forall s, length s = length t -> Exists (fun x => n <= x) t ->
  Exists (fun p : nat * nat => n <= fst p \/ n <= snd p) (combine s t).
Proof.
  induction t as [|y t IH]; intros [|x s] Hlen Hex; simpl in Hlen; try discriminate.
  - inversion Hex.
  - cbn [combine]. inversion Hex as [y' t' Hy|y' t' Hex']; subst.
    + apply Exists_cons_hd. auto.
    + apply Exists_cons_tl. apply IH; auto.
Qed.

Theorem uf_connected_components_panic : forall s t n,
  length s <> length t \/ Exists (fun x => n <= x) s \/ Exists (fun x => n <= x) t ->
  uf_connected_components s t n = Panic.
Proof.
  intros s t n H. rewrite uf_cc_unfold.
  destruct (Nat.eqb_spec (length s) (length t)) as [Hlen|Hlen]; [|reflexivity].
  cbn [assert bind].
  assert (Hex : Exists (fun p : nat * nat => n <= fst p \/ n <= snd p) (combine s t)).
  { destruct H as [H|[H|H]]; [contradiction| |].
    - apply Exists_combine_l; auto.
    - apply Exists_combine_r; auto. }
  destruct n as [|n].
  - assert (Hs : length s <> 0).
    { destruct s as [|x s]; [|simpl; lia]. inversion Hex. }
    destruct (Nat.eqb_spec (length s) 0) as [E|_]; [contradiction|]. reflexivity.
  - cbn [Nat.ltb Nat.leb orb assert bind].
    rewrite (@unions_panic (S n) (combine s t)) with (P := []); auto; [lia|apply uf_new_ok].
Qed.

(* ---------- 8. examples ---------- *)
Example uf_cc_small : uf_connected_components [0;1;3] [1;2;4] 5 = Ok ([0;0;0;1;1], 2).
Proof. vm_compute. reflexivity. Qed.

(* a chain 4-3-2-1-0: exercises path compression (find 4 after the unions walks the whole chain) *)
Example uf_cc_chain : uf_connected_components [4;3;2;1] [3;2;1;0] 5 = Ok ([0;0;0;0;0], 1).
Proof. vm_compute. reflexivity. Qed.

(* equal ranks are broken towards the first root; unions below build a tree of depth 2 (rank 2), and the
   final finds compress it *)
Example uf_find_compresses :
  exists u, foldM (union_step 4) [(0,1);(2,3);(1,3)] (uf_new 4) = Ok u /\
            uf_parent u = [0;0;0;2] /\ uf_rank u = [2;0;1;0] /\
            exists u', uf_find 5 u 3 = Ok (u', 0) /\ uf_parent u' = [0;0;0;0].
Proof. eexists. split; [vm_compute; reflexivity|]. repeat split. eexists. split; vm_compute; reflexivity. Qed.

(* the hypotheses of the main theorem are satisfiable on a non-trivial value *)
Example uf_cc_ok_hyps : length [0;1;3] = length [1;2;4] /\ all_lt 5 [0;1;3] /\ all_lt 5 [1;2;4].
Proof. split; [reflexivity|]. split; repeat constructor. Qed.

(* the three panics: length mismatch, n = 0 with edges, out-of-range endpoint *)
Example uf_cc_panic_len : uf_connected_components [0] [] 3 = Panic.
Proof. vm_compute. reflexivity. Qed.
Example uf_cc_panic_zero : uf_connected_components [0] [0] 0 = Panic.
Proof. vm_compute. reflexivity. Qed.
Example uf_cc_panic_range : uf_connected_components [0;1] [1;7] 3 = Panic.
Proof. vm_compute. reflexivity. Qed.
Example uf_cc_panic_hyps : length [0;1] <> length [1;7] \/ Exists (fun x => 3 <= x) [0;1] \/ Exists (fun x => 3 <= x) [1;7].
Proof. right; right. apply Exists_cons_tl, Exists_cons_hd. lia. Qed.

(* for every input whatsoever the fuel n+1 suffices: the Rust recursion in `find` terminates *)
Corollary uf_connected_components_never_fuel s t n : uf_connected_components s t n <> Fuel.
Proof.
  destruct (Nat.eq_dec (length s) (length t)) as [Hlen|Hlen].
  - destruct (Forall_Exists_dec (fun x => x < n) (fun x => lt_dec x n) s) as [Hs|Hs].
    + destruct (Forall_Exists_dec (fun x => x < n) (fun x => lt_dec x n) t) as [Ht|Ht].
      * rewrite uf_connected_components_ok; auto. discriminate.
      * rewrite uf_connected_components_panic; [discriminate|]. right; right.
        eapply Exists_impl; [|exact Ht]. cbn beta. intros a Ha. lia.
    + rewrite uf_connected_components_panic; [discriminate|]. right; left.
      eapply Exists_impl; [|exact Hs]. cbn beta. intros a Ha. lia.
  - rewrite uf_connected_components_panic; [discriminate|]. left; auto.
Qed.

Print Assumptions uf_connected_components_ok.
Print Assumptions uf_connected_components_panic.
Print Assumptions uf_connected_components_never_fuel.
