(* C01 — Sequential composition is exactly the gluing (pushout) of the two diagrams. *)
From OHG Require Import Spec.Plain Proofs.C01Lemmas Proofs.C01Thm Proofs.BackendInst.

Theorem C01_compose_is_gluing : forall B : Backend, BackendOK B ->
  forall (O A : Type) (eqO : O -> O -> bool), (forall x y : O, eqO x y = true <-> x = y) ->
  forall f g : ohg O A, wf_ohg f -> wf_ohg g -> tgt_type (abs f) = src_type (abs g) ->
  exists h : ohg O A, ohg_compose B eqO f g = Ok (Some h) /\ wf_ohg h /\ IsCompose (abs f) (abs g) (abs h).
Proof. exact C01Thm.C01_compose_is_gluing. Qed.

Theorem C01_mismatch_is_none : forall (B : Backend) (O A : Type) (eqO : O -> O -> bool),
  (forall x y : O, eqO x y = true <-> x = y) ->
  forall f g : ohg O A, wf_ohg f -> wf_ohg g -> tgt_type (abs f) <> src_type (abs g) ->
  ohg_compose B eqO f g = Ok None.
Proof. exact C01Thm.C01_mismatch_is_none. Qed.

(* composition never panics on well-formed operands *)
Theorem C01_no_panic : forall B : Backend, BackendOK B ->
  forall (O A : Type) (eqO : O -> O -> bool), (forall x y : O, eqO x y = true <-> x = y) ->
  forall f g : ohg O A, wf_ohg f -> wf_ohg g -> exists r : option (ohg O A), ohg_compose B eqO f g = Ok r.
Proof. exact C01Thm.C01_no_panic. Qed.

(* the new interfaces are f's inputs and g's outputs: types *)
Theorem C01_types : forall (O A : Type) (f g h : ohg O A), wf_ohg f -> wf_ohg g ->
  IsCompose (abs f) (abs g) (abs h) ->
  src_type (abs h) = src_type (abs f) /\ tgt_type (abs h) = tgt_type (abs g).
Proof. exact C01Thm.C01_types. Qed.

(* what "isomorphic to the gluing" means: the gluing is unique up to renumbering of nodes *)
Theorem C01_gluing_unique : forall (O A : Type) (f g : ohg O A) (h h' : pohg O A),
  wf_ohg f -> wf_ohg g -> IsCompose (abs f) (abs g) h -> IsCompose (abs f) (abs g) h' -> NIso h h'.
Proof. exact C01Thm.C01_gluing_unique_wf. Qed.

(* without well-formedness of the operands the gluing is NOT unique (dangling references): the
   hypothesis above is necessary *)
Theorem C01_gluing_unique_needs_wf : forall O A : Type, ~ C01_gluing_unique_full O A.
Proof. exact C01Thm.C01_gluing_unique_full_false. Qed.

Lemma types_dec (O : Type) (eqO : O -> O -> bool) (H : forall x y : O, eqO x y = true <-> x = y)
  (a b : list (option O)) : {a = b} + {a <> b}.
Proof.
  apply list_eq_dec. intros [x|] [y|]; try (right; discriminate); [|left; reflexivity].
  destruct (eqO x y) eqn:E.
  - left. f_equal. apply H. exact E.
  - right. intros K. inversion K; subst. assert (eqO y y = true) as K2 by (apply H; reflexivity). congruence.
Qed.

(* any two conforming back-ends give isomorphic composites (used by C20) *)
Theorem C01_backend_independent : forall B1 B2 : Backend, BackendOK B1 -> BackendOK B2 ->
  forall (O A : Type) (eqO : O -> O -> bool), (forall x y : O, eqO x y = true <-> x = y) ->
  forall f g h1 h2 : ohg O A, wf_ohg f -> wf_ohg g ->
  ohg_compose B1 eqO f g = Ok (Some h1) -> ohg_compose B2 eqO f g = Ok (Some h2) -> NIso (abs h1) (abs h2).
Proof.
  intros B1 B2 OK1 OK2 O A eqO Heq f g h1 h2 Hf Hg H1 H2.
  destruct (types_dec O eqO Heq (tgt_type (abs f)) (src_type (abs g))) as [Ht|Ht].
  - destruct (C01_compose_is_gluing B1 OK1 O A eqO Heq f g Hf Hg Ht) as (k1 & E1 & _ & C1).
    destruct (C01_compose_is_gluing B2 OK2 O A eqO Heq f g Hf Hg Ht) as (k2 & E2 & _ & C2).
    rewrite H1 in E1. rewrite H2 in E2. inversion E1; inversion E2; subst.
    exact (C01_gluing_unique O A f g _ _ Hf Hg C1 C2).
  - rewrite (C01_mismatch_is_none B1 O A eqO Heq f g Hf Hg Ht) in H1. discriminate.
Qed.

(* non-vacuity: concrete well-formed operands with a repeated boundary node (a chain collapsing four nodes) *)
Example C01_nonvacuous : wf_ohg ex_f /\ wf_ohg ex_g /\ tgt_type (abs ex_f) = src_type (abs ex_g).
Proof. exact (conj ex_f_wf (conj ex_g_wf ex_types_match)). Qed.

Print Assumptions C01_compose_is_gluing.
Print Assumptions C01_mismatch_is_none.
Print Assumptions C01_gluing_unique.
Print Assumptions C01_backend_independent.
