(* C02 — Tensor product is strict juxtaposition (equalities of the data, strict and lax).
   Property theorems only: each statement is spelled out and closed by [exact] of a lemma proved in Proofs/. *)
From OHG Require Import Spec.Plain Proofs.C02Thm.

Theorem C02_tensor_is_juxtaposition : forall (O A : Type) (f g : ohg O A),
       wf_ohg f ->
       wf_ohg g -> exists h : ohg O A, ohg_tensor f g = Ok h /\ wf_ohg h /\ abs h = ptensor (abs f) (abs g).
Proof. exact C02Thm.C02_tensor_is_juxtaposition. Qed.

Theorem C02_tensor_record : forall (O A : Type) (f g : ohg O A),
       wf_ohg f ->
       wf_ohg g ->
       exists h : ohg O A,
         ohg_tensor f g = Ok h /\
         o_s h = ff_tensor (o_s f) (o_s g) /\
         o_t h = ff_tensor (o_t f) (o_t g) /\ hg_coproduct (o_h f) (o_h g) = Ok (o_h h).
Proof. exact C02Thm.C02_tensor_record. Qed.

Theorem C02_tensor_types : forall (O A : Type) (f g : ohg O A),
       wf_ohg f ->
       wf_ohg g ->
       exists h : ohg O A,
         ohg_tensor f g = Ok h /\
         src_type (abs h) = src_type (abs f) ++ src_type (abs g) /\
         tgt_type (abs h) = tgt_type (abs f) ++ tgt_type (abs g).
Proof. exact C02Thm.C02_tensor_types. Qed.

Theorem C02_tensor_assoc : forall (O A : Type) (f g k : ohg O A),
       wf_ohg f ->
       wf_ohg g ->
       wf_ohg k ->
       ' fg <- ohg_tensor f g;; ohg_tensor fg k = ' gk <- ohg_tensor g k;; ohg_tensor f gk /\
       (exists r : ohg O A, ' fg <- ohg_tensor f g;; ohg_tensor fg k = Ok r /\ wf_ohg r).
Proof. exact C02Thm.C02_tensor_assoc. Qed.

Theorem C02_tensor_unit : forall (O0 A : Type) (f : ohg O0 A),
       wf_ohg f ->
       ohg_tensor {| o_s := ff_initial 0; o_t := ff_initial 0; o_h := hg_empty |} f = Ok f /\
       ohg_tensor f {| o_s := ff_initial 0; o_t := ff_initial 0; o_h := hg_empty |} = Ok f.
Proof. exact C02Thm.C02_tensor_unit. Qed.

Theorem C02_tensor_unit_any : forall (O A : Type) (f : ohg O A),
       ohg_tensor (ohg_empty O A) f = Ok f /\ ohg_tensor f (ohg_empty O A) = Ok f.
Proof. exact C02Thm.C02_tensor_unit_any. Qed.

Theorem C02_hg_coproduct : forall (O A : Type) (G H : hg O A),
       wf_hg G ->
       wf_hg H ->
       exists K : hg O A,
         hg_coproduct G H = Ok K /\
         wf_hg K /\
         h_w K = h_w G ++ h_w H /\
         h_x K = h_x G ++ h_x H /\
         decode_f (h_s K) = decode_f (h_s G) ++ map (shiftl (length (h_w G))) (decode_f (h_s H)) /\
         decode_f (h_t K) = decode_f (h_t G) ++ map (shiftl (length (h_w G))) (decode_f (h_t H)) /\
         abs_hg_edges K = abs_hg_edges G ++ map (shift_edge (length (h_w G))) (abs_hg_edges H).
Proof. exact C02Thm.C02_hg_coproduct. Qed.

Theorem C02_lax_tensor_juxtaposition : forall (O A : Type) (f g : lohg O A),
       let n := length (l_nodes (lo_h f)) in
       l_nodes (lo_h (lohg_tensor f g)) = l_nodes (lo_h f) ++ l_nodes (lo_h g) /\
       l_edges (lo_h (lohg_tensor f g)) = l_edges (lo_h f) ++ l_edges (lo_h g) /\
       l_adj (lo_h (lohg_tensor f g)) = l_adj (lo_h f) ++ map (shift_he n) (l_adj (lo_h g)) /\
       lo_sources (lohg_tensor f g) = lo_sources f ++ shift n (lo_sources g) /\
       lo_targets (lohg_tensor f g) = lo_targets f ++ shift n (lo_targets g) /\
       fst (l_q (lo_h (lohg_tensor f g))) = fst (l_q (lo_h f)) ++ shift n (fst (l_q (lo_h g))) /\
       snd (l_q (lo_h (lohg_tensor f g))) = snd (l_q (lo_h f)) ++ shift n (snd (l_q (lo_h g))).
Proof. exact C02Thm.C02_lax_tensor_juxtaposition. Qed.

Theorem C02_lax_tensor_assoc : forall (O A : Type) (f g k : lohg O A),
       lohg_tensor (lohg_tensor f g) k = lohg_tensor f (lohg_tensor g k).
Proof. exact C02Thm.C02_lax_tensor_assoc. Qed.

Theorem C02_lax_tensor_unit_l : forall (O A : Type) (f : lohg O A), lohg_tensor lohg_empty f = f.
Proof. exact C02Thm.C02_lax_tensor_unit_l. Qed.

Theorem C02_lax_tensor_unit_r : forall (O A : Type) (f : lohg O A), lohg_tensor f lohg_empty = f.
Proof. exact C02Thm.C02_lax_tensor_unit_r. Qed.

Theorem C02_lax_tensor_pending : forall (O A : Type) (f g : lohg O A),
       length (fst (l_q (lo_h f))) = length (snd (l_q (lo_h f))) ->
       pending (lohg_tensor f g) = pending f ++ map (shift_pair (length (l_nodes (lo_h f)))) (pending g).
Proof. exact C02Thm.C02_lax_tensor_pending. Qed.

Theorem C02_lax_tensor_abs : forall (O A : Type) (f g : lohg O A),
       length (l_edges (lo_h f)) = length (l_adj (lo_h f)) ->
       labs (lohg_tensor f g) = ptensor (labs f) (labs g).
Proof. exact C02Thm.C02_lax_tensor_abs. Qed.

Example C02_nonvacuous : wf_ohg C02Examples.f0 /\ wf_ohg C02Examples.g0.
Proof. exact (conj C02Examples.f0_wf C02Examples.g0_wf). Qed.

Print Assumptions C02_tensor_is_juxtaposition.
Print Assumptions C02_tensor_record.
Print Assumptions C02_tensor_types.
Print Assumptions C02_tensor_assoc.
Print Assumptions C02_tensor_unit.
Print Assumptions C02_tensor_unit_any.
Print Assumptions C02_hg_coproduct.
Print Assumptions C02_lax_tensor_juxtaposition.
Print Assumptions C02_lax_tensor_assoc.
Print Assumptions C02_lax_tensor_unit_l.
Print Assumptions C02_lax_tensor_unit_r.
Print Assumptions C02_lax_tensor_pending.
Print Assumptions C02_lax_tensor_abs.
