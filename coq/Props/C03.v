(* C03 — Symmetric monoidal category laws hold up to genuine isomorphism (every composite shown defined).
   Property theorems only: each statement is spelled out and closed by [exact] of a lemma proved in Proofs/. *)
From OHG Require Import Spec.Plain Proofs.C03Thm Proofs.C01Thm.

Theorem C03_assoc : forall B : Backend,
       BackendOK B ->
       forall (O A : Type) (eqO : O -> O -> bool),
       (forall x y : O, eqO x y = true <-> x = y) ->
       forall f g k : ohg O A,
       wf_ohg f ->
       wf_ohg g ->
       wf_ohg k ->
       tgt_type (abs f) = src_type (abs g) ->
       tgt_type (abs g) = src_type (abs k) ->
       exists l r : ohg O A,
         and_then (cmp B eqO f g) (fun fg : ohg O A => cmp B eqO fg k) = Ok (Some l) /\
         and_then (cmp B eqO g k) (fun gk : ohg O A => cmp B eqO f gk) = Ok (Some r) /\
         wf_ohg l /\ wf_ohg r /\ Iso (abs l) (abs r).
Proof. exact C03Thm.C03_assoc. Qed.

Theorem C03_id_left : forall B : Backend,
       BackendOK B ->
       forall (O A : Type) (eqO : O -> O -> bool),
       (forall x y : O, eqO x y = true <-> x = y) ->
       forall (f : ohg O A) (a : list O),
       wf_ohg f ->
       src_type (abs f) = map Some a ->
       exists h : ohg O A,
         ' i <- ohg_identity A a;; cmp B eqO i f = Ok (Some h) /\ wf_ohg h /\ Iso (abs h) (abs f).
Proof. exact C03Thm.C03_id_left. Qed.

Theorem C03_id_right : forall B : Backend,
       BackendOK B ->
       forall (O A : Type) (eqO : O -> O -> bool),
       (forall x y : O, eqO x y = true <-> x = y) ->
       forall (f : ohg O A) (a : list O),
       wf_ohg f ->
       tgt_type (abs f) = map Some a ->
       exists h : ohg O A,
         ' i <- ohg_identity A a;; cmp B eqO f i = Ok (Some h) /\ wf_ohg h /\ Iso (abs h) (abs f).
Proof. exact C03Thm.C03_id_right. Qed.

Theorem C03_interchange : forall B : Backend,
       BackendOK B ->
       forall (O A : Type) (eqO : O -> O -> bool),
       (forall x y : O, eqO x y = true <-> x = y) ->
       forall f f' g g' : ohg O A,
       wf_ohg f ->
       wf_ohg f' ->
       wf_ohg g ->
       wf_ohg g' ->
       tgt_type (abs f) = src_type (abs g) ->
       tgt_type (abs f') = src_type (abs g') ->
       exists l r : ohg O A,
         ' ff <- ohg_tensor f f';; ' gg <- ohg_tensor g g';; cmp B eqO ff gg = Ok (Some l) /\
         and_then (cmp B eqO f g)
           (fun h1 : ohg O A =>
            and_then (cmp B eqO f' g') (fun h2 : ohg O A => ' t <- ohg_tensor h1 h2;; Ok (Some t))) =
         Ok (Some r) /\ wf_ohg l /\ wf_ohg r /\ Iso (abs l) (abs r).
Proof. exact C03Thm.C03_interchange. Qed.

Theorem C03_twist_natural : forall B : Backend,
       BackendOK B ->
       forall (O A : Type) (eqO : O -> O -> bool),
       (forall x y : O, eqO x y = true <-> x = y) ->
       forall (f g : ohg O A) (a b c d : list O),
       wf_ohg f ->
       wf_ohg g ->
       src_type (abs f) = map Some a ->
       tgt_type (abs f) = map Some b ->
       src_type (abs g) = map Some c ->
       tgt_type (abs g) = map Some d ->
       exists l r : ohg O A,
         ' fg <- ohg_tensor f g;; ' s <- ohg_twist A b d;; cmp B eqO fg s = Ok (Some l) /\
         ' s <- ohg_twist A a c;; ' gf <- ohg_tensor g f;; cmp B eqO s gf = Ok (Some r) /\
         wf_ohg l /\ wf_ohg r /\ Iso (abs l) (abs r).
Proof. exact C03Thm.C03_twist_natural. Qed.

Theorem C03_twist_inverse : forall B : Backend,
       BackendOK B ->
       forall (O A : Type) (eqO : O -> O -> bool),
       (forall x y : O, eqO x y = true <-> x = y) ->
       forall a b : list O,
       exists h i : ohg O A,
         ' s <- ohg_twist A a b;; ' t <- ohg_twist A b a;; cmp B eqO s t = Ok (Some h) /\
         ohg_identity A (a ++ b) = Ok i /\ wf_ohg h /\ Iso (abs h) (abs i).
Proof. exact C03Thm.C03_twist_inverse. Qed.

Theorem C03_hexagon1 : forall B : Backend,
       BackendOK B ->
       forall (O A : Type) (eqO : O -> O -> bool),
       (forall x y : O, eqO x y = true <-> x = y) ->
       forall a b c : list O,
       exists h s : ohg O A,
         ' t1 <- ohg_twist A a b;;
         ' i1 <- ohg_identity A c;;
         ' x <- ohg_tensor t1 i1;;
         ' i2 <- ohg_identity A b;; ' t2 <- ohg_twist A a c;; ' y <- ohg_tensor i2 t2;; cmp B eqO x y =
         Ok (Some h) /\ ohg_twist A a (b ++ c) = Ok s /\ wf_ohg h /\ Iso (abs h) (abs s).
Proof. exact C03Thm.C03_hexagon1. Qed.

Theorem C03_hexagon2 : forall B : Backend,
       BackendOK B ->
       forall (O A : Type) (eqO : O -> O -> bool),
       (forall x y : O, eqO x y = true <-> x = y) ->
       forall a b c : list O,
       exists h s : ohg O A,
         ' i1 <- ohg_identity A a;;
         ' t1 <- ohg_twist A b c;;
         ' x <- ohg_tensor i1 t1;;
         ' t2 <- ohg_twist A a c;; ' i2 <- ohg_identity A b;; ' y <- ohg_tensor t2 i2;; cmp B eqO x y =
         Ok (Some h) /\ ohg_twist A (a ++ b) c = Ok s /\ wf_ohg h /\ Iso (abs h) (abs s).
Proof. exact C03Thm.C03_hexagon2. Qed.

(* non-vacuity: concrete well-formed operands (repeated boundary nodes, a loop hyperedge) with matching types *)
Example C03_nonvacuous : wf_ohg C01Thm.ex_f /\ wf_ohg C01Thm.ex_g /\ wf_ohg ex_k /\ tgt_type (abs C01Thm.ex_f) = src_type (abs C01Thm.ex_g).
Proof. exact (conj C01Thm.ex_f_wf (conj C01Thm.ex_g_wf (conj ex_k_wf C01Thm.ex_types_match))). Qed.

Print Assumptions C03_assoc.
Print Assumptions C03_id_left.
Print Assumptions C03_id_right.
Print Assumptions C03_interchange.
Print Assumptions C03_twist_natural.
Print Assumptions C03_twist_inverse.
Print Assumptions C03_hexagon1.
Print Assumptions C03_hexagon2.
