(* C04 — Dagger and spiders give the hypergraph-category (Frobenius) structure. (dagger-reverses-composition and spider fusion: Proofs/C04bThm.v when present; otherwise correspondence + Iso checker)
   Property theorems only: each statement is spelled out and closed by [exact] of a lemma proved in Proofs/. *)
From OHG Require Import Spec.Plain Proofs.C04Thm.

Theorem C04_dagger_swaps : forall (O A : Type) (f : ohg O A), abs (ohg_dagger f) = swap_io (abs f) /\ o_h (ohg_dagger f) = o_h f.
Proof. exact C04Thm.C04_dagger_swaps. Qed.

Theorem C04_dagger_involutive : forall (O A : Type) (f : ohg O A), ohg_dagger (ohg_dagger f) = f.
Proof. exact C04Thm.C04_dagger_involutive. Qed.

Theorem C04_dagger_wf : forall (O A : Type) (f : ohg O A), wf_ohg f -> wf_ohg (ohg_dagger f).
Proof. exact C04Thm.C04_dagger_wf. Qed.

Theorem C04_dagger_types : forall (O A : Type) (f : ohg O A),
       src_type (abs (ohg_dagger f)) = tgt_type (abs f) /\ tgt_type (abs (ohg_dagger f)) = src_type (abs f).
Proof. exact C04Thm.C04_dagger_types. Qed.

Theorem C04_dagger_tensor : forall (O A : Type) (f g : ohg O A),
       ohg_tensor (ohg_dagger f) (ohg_dagger g) = rmap (ohg_dagger (A:=A)) (ohg_tensor f g).
Proof. exact C04Thm.C04_dagger_tensor. Qed.

Theorem C04_spider_iff : forall (O A : Type) (s t : ff) (w : list O) (h : ohg O A),
       ohg_spider A s t w = Some h <->
       target s = length w /\ target t = length w /\ h = {| o_s := s; o_t := t; o_h := hg_discrete A w |}.
Proof. exact C04Thm.C04_spider_iff. Qed.

Theorem C04_spider_none_iff : forall (O A : Type) (s t : ff) (w : list O),
       ohg_spider A s t w = None <-> target s <> length w \/ target t <> length w.
Proof. exact C04Thm.C04_spider_none_iff. Qed.

Theorem C04_spider_discrete : forall (O A : Type) (s t : ff) (w : list O) (h : ohg O A),
       ohg_spider A s t w = Some h ->
       hg_is_discrete (o_h h) = true /\
       h_x (o_h h) = [] /\
       abs h = {| p_nodes := w; p_edges := []; p_ins := table s; p_outs := table t |} /\
       (wf_ff s -> wf_ff t -> wf_ohg h).
Proof. exact C04Thm.C04_spider_discrete. Qed.

Theorem C04_half_spider : forall (O A : Type) (s : ff) (w : list O),
       ohg_half_spider A s w = Ok (ohg_spider A s (ff_id (target s)) w).
Proof. exact C04Thm.C04_half_spider. Qed.

Theorem C04_identity_is_spider : forall (O A : Type) (w : list O),
       exists h : ohg O A,
         ohg_identity A w = Ok h /\
         ohg_spider A (ff_id (length w)) (ff_id (length w)) w = Some h /\
         wf_ohg h /\ src_type (abs h) = map Some w /\ tgt_type (abs h) = map Some w.
Proof. exact C04Thm.C04_identity_is_spider. Qed.

Theorem C04_twist_is_spider : forall (O A : Type) (a b : list O),
       exists h : ohg O A,
         ohg_twist A a b = Ok h /\
         ohg_spider A (ff_tw (length a) (length b)) (ff_id (length a + length b)) (b ++ a) = Some h /\
         wf_ohg h /\ src_type (abs h) = map Some (a ++ b) /\ tgt_type (abs h) = map Some (b ++ a).
Proof. exact C04Thm.C04_twist_is_spider. Qed.

Theorem C04_lax_dagger_swaps : forall (O A : Type) (lf : lohg O A),
       labs (lohg_dagger lf) = swap_io (labs lf) /\
       lo_h (lohg_dagger lf) = lo_h lf /\ pending (lohg_dagger lf) = pending lf.
Proof. exact C04Thm.C04_lax_dagger_swaps. Qed.

Theorem C04_lax_dagger_involutive : forall (O A : Type) (lf : lohg O A), lohg_dagger (lohg_dagger lf) = lf.
Proof. exact C04Thm.C04_lax_dagger_involutive. Qed.

Theorem C04_lax_dagger_tensor : forall (O A : Type) (lf lg : lohg O A),
       lohg_tensor (lohg_dagger lf) (lohg_dagger lg) = lohg_dagger (lohg_tensor lf lg).
Proof. exact C04Thm.C04_lax_dagger_tensor. Qed.

Theorem C04_lax_spider_iff : forall (O A : Type) (s t : ff) (w : list O) (lh : lohg O A),
       lohg_spider A s t w = Some lh <->
       target s = target t /\
       target s = length w /\
       lh = {| lo_sources := table s; lo_targets := table t; lo_h := lhg_discrete A w |}.
Proof. exact C04Thm.C04_lax_spider_iff. Qed.

Theorem C04_spider_strict_lax_agree : forall (O A : Type) (s t : ff) (w : list O) (h : ohg O A) (lh : lohg O A),
       ohg_spider A s t w = Some h -> lohg_spider A s t w = Some lh -> abs h = labs lh.
Proof. exact C04Thm.C04_spider_strict_lax_agree. Qed.

Print Assumptions C04_dagger_swaps.
Print Assumptions C04_dagger_involutive.
Print Assumptions C04_dagger_wf.
Print Assumptions C04_dagger_types.
Print Assumptions C04_dagger_tensor.
Print Assumptions C04_spider_iff.
Print Assumptions C04_spider_none_iff.
Print Assumptions C04_spider_discrete.
Print Assumptions C04_half_spider.
Print Assumptions C04_identity_is_spider.
Print Assumptions C04_twist_is_spider.
Print Assumptions C04_lax_dagger_swaps.
Print Assumptions C04_lax_dagger_involutive.
Print Assumptions C04_lax_dagger_tensor.
Print Assumptions C04_lax_spider_iff.
Print Assumptions C04_spider_strict_lax_agree.
