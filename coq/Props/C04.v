(* C04 — Dagger and spiders give the hypergraph-category (Frobenius) structure.
   Property theorems only: each statement is spelled out and closed by [exact] of a lemma proved in Proofs/. *)
From OHG Require Import Spec.Plain Proofs.C04Thm Proofs.C04bThm Proofs.C01Thm.

Theorem C04_dagger_swaps : forall (O A : Type) (f : ohg O A), abs (ohg_dagger f) = swap_io (abs f) /\ o_h (ohg_dagger f) = o_h f.
Proof. exact (@C04Thm.C04_dagger_swaps). Qed.

Theorem C04_dagger_involutive : forall (O A : Type) (f : ohg O A), ohg_dagger (ohg_dagger f) = f.
Proof. exact (@C04Thm.C04_dagger_involutive). Qed.

Theorem C04_dagger_wf : forall (O A : Type) (f : ohg O A), wf_ohg f -> wf_ohg (ohg_dagger f).
Proof. exact (@C04Thm.C04_dagger_wf). Qed.

Theorem C04_dagger_types : forall (O A : Type) (f : ohg O A),
       src_type (abs (ohg_dagger f)) = tgt_type (abs f) /\ tgt_type (abs (ohg_dagger f)) = src_type (abs f).
Proof. exact (@C04Thm.C04_dagger_types). Qed.

Theorem C04_dagger_tensor : forall (O A : Type) (f g : ohg O A),
       ohg_tensor (ohg_dagger f) (ohg_dagger g) = rmap (ohg_dagger (A:=A)) (ohg_tensor f g).
Proof. exact (@C04Thm.C04_dagger_tensor). Qed.

Theorem C04_dagger_compose : forall B : Backend,
       BackendOK B ->
       forall (O A : Type) (eqO : O -> O -> bool),
       (forall x y : O, eqO x y = true <-> x = y) ->
       forall f g h : ohg O A,
       wf_ohg f ->
       wf_ohg g ->
       ohg_compose B eqO f g = Ok (Some h) ->
       exists k : ohg O A,
         ohg_compose B eqO (ohg_dagger g) (ohg_dagger f) = Ok (Some k) /\ Iso (abs (ohg_dagger h)) (abs k).
Proof. exact (@C04bThm.C04_dagger_compose). Qed.

Theorem C04_dagger_compose_wf : forall B : Backend,
       BackendOK B ->
       forall (O A : Type) (eqO : O -> O -> bool),
       (forall x y : O, eqO x y = true <-> x = y) ->
       forall f g h : ohg O A,
       wf_ohg f ->
       wf_ohg g ->
       ohg_compose B eqO f g = Ok (Some h) ->
       exists k : ohg O A,
         ohg_compose B eqO (ohg_dagger g) (ohg_dagger f) = Ok (Some k) /\
         wf_ohg k /\ wf_ohg (ohg_dagger h) /\ Iso (abs (ohg_dagger h)) (abs k).
Proof. exact (@C04bThm.C04_dagger_compose_wf). Qed.

Theorem C04_spider_iff : forall (O A : Type) (s t : ff) (w : list O) (h : ohg O A),
       ohg_spider A s t w = Some h <->
       target s = length w /\ target t = length w /\ h = {| o_s := s; o_t := t; o_h := hg_discrete A w |}.
Proof. exact (@C04Thm.C04_spider_iff). Qed.

Theorem C04_spider_none_iff : forall (O A : Type) (s t : ff) (w : list O),
       ohg_spider A s t w = None <-> target s <> length w \/ target t <> length w.
Proof. exact (@C04Thm.C04_spider_none_iff). Qed.

Theorem C04_spider_discrete : forall (O A : Type) (s t : ff) (w : list O) (h : ohg O A),
       ohg_spider A s t w = Some h ->
       hg_is_discrete (o_h h) = true /\
       h_x (o_h h) = [] /\
       abs h = {| p_nodes := w; p_edges := []; p_ins := table s; p_outs := table t |} /\
       (wf_ff s -> wf_ff t -> wf_ohg h).
Proof. exact (@C04Thm.C04_spider_discrete). Qed.

Theorem C04_half_spider : forall (O A : Type) (s : ff) (w : list O),
       ohg_half_spider A s w = Ok (ohg_spider A s (ff_id (target s)) w).
Proof. exact (@C04Thm.C04_half_spider). Qed.

Theorem C04_identity_is_spider : forall (O A : Type) (w : list O),
       exists h : ohg O A,
         ohg_identity A w = Ok h /\
         ohg_spider A (ff_id (length w)) (ff_id (length w)) w = Some h /\
         wf_ohg h /\ src_type (abs h) = map Some w /\ tgt_type (abs h) = map Some w.
Proof. exact (@C04Thm.C04_identity_is_spider). Qed.

Theorem C04_twist_is_spider : forall (O A : Type) (a b : list O),
       exists h : ohg O A,
         ohg_twist A a b = Ok h /\
         ohg_spider A (ff_tw (length a) (length b)) (ff_id (length a + length b)) (b ++ a) = Some h /\
         wf_ohg h /\ src_type (abs h) = map Some (a ++ b) /\ tgt_type (abs h) = map Some (b ++ a).
Proof. exact (@C04Thm.C04_twist_is_spider). Qed.

Theorem C04_spider_fusion : forall B : Backend,
       BackendOK B ->
       forall (O A : Type) (eqO : O -> O -> bool),
       (forall x y : O, eqO x y = true <-> x = y) ->
       forall (s t s' t' : ff) (w w' : list O),
       wf_ff s ->
       wf_ff t ->
       wf_ff s' ->
       wf_ff t' ->
       target s = length w ->
       target t = length w ->
       target s' = length w' ->
       target t' = length w' ->
       map (nth_error w) (table t) = map (nth_error w') (table s') ->
       exists (f g h : ohg O A) (q : nat -> nat),
         ohg_spider A s t w = Some f /\
         ohg_spider A s' t' w' = Some g /\
         ohg_compose B eqO f g = Ok (Some h) /\
         wf_ohg h /\
         hg_is_discrete (o_h h) = true /\
         h_x (o_h h) = [] /\
         ohg_spider A (o_s h) (o_t h) (h_w (o_h h)) = Some h /\
         (forall i : nat, i < length w + length w' -> q i < length (h_w (o_h h))) /\
         (forall j : nat, j < length (h_w (o_h h)) -> exists i : nat, i < length w + length w' /\ q i = j) /\
         (forall i j : nat,
          i < length w + length w' ->
          j < length w + length w' ->
          q i = q j <-> conn (combine (table t) (map (fun x : nat => x + length w) (table s'))) i j) /\
         table (o_s h) = map q (table s) /\
         table (o_t h) = map (fun x : nat => q (x + length w)) (table t') /\
         (forall i : nat, i < length w + length w' -> nth_error (h_w (o_h h)) (q i) = nth_error (w ++ w') i).
Proof. exact (@C04bThm.C04_spider_fusion). Qed.

Theorem C04_spider_fusion_lax : forall B : Backend,
       BackendOK B ->
       forall (O A : Type) (eqO : O -> O -> bool),
       (forall x y : O, eqO x y = true <-> x = y) ->
       forall (s t s' t' : ff) (w w' : list O),
       wf_ff s ->
       wf_ff t ->
       wf_ff s' ->
       wf_ff t' ->
       target s = length w ->
       target t = length w ->
       target s' = length w' ->
       target t' = length w' ->
       map (nth_error w) (table t) = map (nth_error w') (table s') ->
       exists (F G C C' : lohg O A) (q : ff),
         lohg_spider A s t w = Some F /\
         lohg_spider A s' t' w' = Some G /\
         lohg_compose eqO F G = Ok (Some C) /\
         C = lax_spider_compose A s t s' t' w w' /\
         pending C = combine (table t) (map (fun x : nat => x + length w) (table s')) /\
         lohg_quotient B eqO C = Ok (C', inl q) /\
         l_edges (lo_h C') = [] /\
         l_adj (lo_h C') = [] /\
         l_q (lo_h C') = ([], []) /\
         C09Thm.lwf C' /\
         IsQuot (labs C) (C09Thm.app q) (labs C') /\
         (forall i j : nat,
          i < length w + length w' ->
          j < length w + length w' ->
          C09Thm.app q i = C09Thm.app q j <->
          conn (combine (table t) (map (fun x : nat => x + length w) (table s'))) i j) /\
         lo_sources C' = map (C09Thm.app q) (table s) /\
         lo_targets C' = map (fun x : nat => C09Thm.app q (x + length w)) (table t') /\
         (forall f g h : ohg O A,
          ohg_spider A s t w = Some f ->
          ohg_spider A s' t' w' = Some g -> ohg_compose B eqO f g = Ok (Some h) -> NIso (abs h) (labs C')).
Proof. exact (@C04bThm.C04_spider_fusion_lax). Qed.

Theorem C04_lax_dagger_swaps : forall (O A : Type) (lf : lohg O A),
       labs (lohg_dagger lf) = swap_io (labs lf) /\
       lo_h (lohg_dagger lf) = lo_h lf /\ pending (lohg_dagger lf) = pending lf.
Proof. exact (@C04Thm.C04_lax_dagger_swaps). Qed.

Theorem C04_lax_dagger_involutive : forall (O A : Type) (lf : lohg O A), lohg_dagger (lohg_dagger lf) = lf.
Proof. exact (@C04Thm.C04_lax_dagger_involutive). Qed.

Theorem C04_lax_dagger_tensor : forall (O A : Type) (lf lg : lohg O A),
       lohg_tensor (lohg_dagger lf) (lohg_dagger lg) = lohg_dagger (lohg_tensor lf lg).
Proof. exact (@C04Thm.C04_lax_dagger_tensor). Qed.

Theorem C04_lax_spider_iff : forall (O A : Type) (s t : ff) (w : list O) (lh : lohg O A),
       lohg_spider A s t w = Some lh <->
       target s = target t /\
       target s = length w /\
       lh = {| lo_sources := table s; lo_targets := table t; lo_h := lhg_discrete A w |}.
Proof. exact (@C04Thm.C04_lax_spider_iff). Qed.

Theorem C04_spider_strict_lax_agree : forall (O A : Type) (s t : ff) (w : list O) (h : ohg O A) (lh : lohg O A),
       ohg_spider A s t w = Some h -> lohg_spider A s t w = Some lh -> abs h = labs lh.
Proof. exact (@C04Thm.C04_spider_strict_lax_agree). Qed.

Example C04_nonvacuous : wf_ohg C01Thm.ex_f /\ wf_ohg C01Thm.ex_g.
Proof. exact (conj C01Thm.ex_f_wf C01Thm.ex_g_wf). Qed.

Print Assumptions C04_dagger_swaps.
Print Assumptions C04_dagger_involutive.
Print Assumptions C04_dagger_wf.
Print Assumptions C04_dagger_types.
Print Assumptions C04_dagger_tensor.
Print Assumptions C04_dagger_compose.
Print Assumptions C04_dagger_compose_wf.
Print Assumptions C04_spider_iff.
Print Assumptions C04_spider_none_iff.
Print Assumptions C04_spider_discrete.
Print Assumptions C04_half_spider.
Print Assumptions C04_identity_is_spider.
Print Assumptions C04_twist_is_spider.
Print Assumptions C04_spider_fusion.
Print Assumptions C04_spider_fusion_lax.
Print Assumptions C04_lax_dagger_swaps.
Print Assumptions C04_lax_dagger_involutive.
Print Assumptions C04_lax_dagger_tensor.
Print Assumptions C04_lax_spider_iff.
Print Assumptions C04_spider_strict_lax_agree.
