(* C05 — Every operation returns a well-formed, correctly typed diagram; checked constructors accept exactly the documented data.
   Property theorems only: each statement is spelled out and closed by [exact] of a lemma proved in Proofs/. *)
From OHG Require Import Spec.Plain Proofs.C02Thm Proofs.C04Thm Proofs.C05Thm Proofs.C08Thm Proofs.C06Thm Proofs.C01Thm Proofs.C12Thm Proofs.C14bThm Proofs.C19bThm Proofs.C10Strict.

Theorem C05_ff_new_iff : forall (t : list nat) (n : nat),
       (forall f : ff, ff_new t n = Some f <-> all_lt n t /\ f = {| table := t; target := n |}) /\
       (ff_new t n = None <-> ~ all_lt n t).
Proof. exact (@C06Thm.C06_new). Qed.

Theorem C05_ic_new_iff : forall (V : Type) (Ov : VOps V) (s : ff) (v : V) (c : ic V),
       @ic_new V Ov s v = @Ok (option (ic V)) (@Some (ic V) c) <->
       c = {| ic_sources := s; ic_values := v |} /\
       @wf_ic V (@vlen V Ov) {| ic_sources := s; ic_values := v |}.
Proof. exact (@C05Thm.C05_ic_new_iff). Qed.

Theorem C05_ic_from_semifinite_iff : forall (V : Type) (O0 : VOps V) (sizes : list nat) (v : V) (c : ic V),
       @ic_from_semifinite V O0 sizes v = @Ok (option (ic V)) (@Some (ic V) c) <->
       list_sum sizes = @vlen V O0 v /\
       c = {| ic_sources := {| table := sizes; target := @vlen V O0 v + 1 |}; ic_values := v |}.
Proof. exact (@C08Thm.C08_from_semifinite_iff). Qed.

Theorem C05_ops_new_iff : forall (O A : Type) (x : list A) (a b : ic (list O)) (p : operations O A),
       ops_new x a b = Some p <->
       length x = ic_len a /\ length x = ic_len b /\ p = {| ops_x := x; ops_a := a; ops_b := b |}.
Proof. exact (@C08Thm.C08_ops_new_iff). Qed.

Theorem C05_hg_new_iff : forall (O A : Type) (s t : icf) (w : list O) (x : list A) (H : hg O A),
       hg_new s t w x = inl H <->
       H = {| h_s := s; h_t := t; h_w := w; h_x := x |} /\
       ic_len s = length x /\
       ic_len t = length x /\ target (ic_values s) = length w /\ target (ic_values t) = length w.
Proof. exact (@C05Thm.C05_hg_new_iff). Qed.

Theorem C05_hg_new_error : forall (O A : Type) (s t : icf) (w : list O) (x : list A) (e : invalid_hg),
       hg_new s t w x = inr e <->
       ic_len s <> length x /\ e = SourcesCount (ic_len s) (length x) \/
       ic_len s = length x /\ ic_len t <> length x /\ e = TargetsCount (ic_len t) (length x) \/
       ic_len s = length x /\
       ic_len t = length x /\
       target (ic_values s) <> length w /\ e = SourcesSet (target (ic_values s)) (length w) \/
       ic_len s = length x /\
       ic_len t = length x /\
       target (ic_values s) = length w /\
       target (ic_values t) <> length w /\ e = TargetsSet (target (ic_values t)) (length w).
Proof. exact (@C05Thm.C05_hg_new_error). Qed.

Theorem C05_ohg_new_iff : forall (O A : Type) (s t : ff) (H : hg O A) (f : ohg O A),
       ohg_new s t H = inl f <->
       f = {| o_s := s; o_t := t; o_h := H |} /\
       ic_len (h_s H) = length (h_x H) /\
       ic_len (h_t H) = length (h_x H) /\
       target (ic_values (h_s H)) = length (h_w H) /\
       target (ic_values (h_t H)) = length (h_w H) /\ target s = length (h_w H) /\ target t = length (h_w H).
Proof. exact (@C05Thm.C05_ohg_new_iff). Qed.

Theorem C05_ohg_new_error : forall (O A : Type) (s t : ff) (H : hg O A) (e : invalid_ohg),
       ohg_new s t H = inr e <->
       (exists e' : invalid_hg, hg_validate H = inr e' /\ e = InvalidHypergraph e') \/
       hg_validate H = inl H /\
       target s <> length (h_w H) /\ e = CospanSourceType (target s) (length (h_w H)) \/
       hg_validate H = inl H /\
       target s = length (h_w H) /\
       target t <> length (h_w H) /\ e = CospanTargetType (target t) (length (h_w H)).
Proof. exact (@C05Thm.C05_ohg_new_error). Qed.

Theorem C05_source_target_total : forall (O A : Type) (f : ohg O A) (d : O),
       wf_ohg f ->
       ohg_source f = Ok (map (fun i : nat => nth i (h_w (o_h f)) d) (table (o_s f))) /\
       ohg_target f = Ok (map (fun i : nat => nth i (h_w (o_h f)) d) (table (o_t f))).
Proof. exact (@C05Thm.C05_source_target_total). Qed.

Theorem C05_identity_wf_typed : forall (O A : Type) (w : list O),
       exists h : ohg O A,
         ohg_identity A w = Ok h /\
         wf_ohg h /\ src_type (abs h) = map Some w /\ tgt_type (abs h) = map Some w.
Proof. exact (@C05Thm.C05_identity_wf_typed). Qed.

Theorem C05_twist_wf_typed : forall (O A : Type) (a b : list O),
       exists h : ohg O A,
         ohg_twist A a b = Ok h /\
         wf_ohg h /\ src_type (abs h) = map Some (a ++ b) /\ tgt_type (abs h) = map Some (b ++ a).
Proof. exact (@C05Thm.C05_twist_wf_typed). Qed.

Theorem C05_spider_wf : forall (O A : Type) (s t : ff) (w : list O),
       wf_ff s ->
       wf_ff t ->
       (target s = length w ->
        target t = length w ->
        exists h : ohg O A,
          ohg_spider A s t w = Some h /\
          wf_ohg h /\
          src_type (abs h) = map (nth_error w) (table s) /\ tgt_type (abs h) = map (nth_error w) (table t)) /\
       (forall h : ohg O A, ohg_spider A s t w = Some h -> wf_ohg h).
Proof. exact (@C05Thm.C05_spider_wf). Qed.

Theorem C05_dagger_wf_typed : forall (O A : Type) (f : ohg O A),
       wf_ohg f ->
       wf_ohg (ohg_dagger f) /\
       src_type (abs (ohg_dagger f)) = tgt_type (abs f) /\ tgt_type (abs (ohg_dagger f)) = src_type (abs f).
Proof. exact (@C05Thm.C05_dagger_wf_typed). Qed.

Theorem C05_tensor_wf_typed : forall (O A : Type) (f g : ohg O A),
       wf_ohg f ->
       wf_ohg g ->
       exists h : ohg O A,
         ohg_tensor f g = Ok h /\
         wf_ohg h /\
         src_type (abs h) = src_type (abs f) ++ src_type (abs g) /\
         tgt_type (abs h) = tgt_type (abs f) ++ tgt_type (abs g).
Proof. exact (@C05Thm.C05_tensor_wf_typed). Qed.

Theorem C05_tensor_operations_wf_typed : forall (O A : Type) (p : operations O A),
       wf_ics (ops_a p) ->
       wf_ics (ops_b p) ->
       ic_len (ops_a p) = length (ops_x p) ->
       ic_len (ops_b p) = length (ops_x p) ->
       exists h : ohg O A,
         ohg_tensor_operations p = Ok h /\
         wf_ohg h /\
         p_nodes (abs h) = ic_values (ops_a p) ++ ic_values (ops_b p) /\
         length (p_edges (abs h)) = length (ops_x p) /\
         map (pe_lbl (A:=A)) (p_edges (abs h)) = ops_x p /\
         map (fun e : pedge A => type_of (abs h) (pe_src e)) (p_edges (abs h)) =
         map (map Some) (decode_s (ops_a p)) /\
         map (fun e : pedge A => type_of (abs h) (pe_tgt e)) (p_edges (abs h)) =
         map (map Some) (decode_s (ops_b p)) /\
         src_type (abs h) = map Some (ic_values (ops_a p)) /\
         tgt_type (abs h) = map Some (ic_values (ops_b p)) /\
         concat (decode_s (ops_a p)) = ic_values (ops_a p) /\
         concat (decode_s (ops_b p)) = ic_values (ops_b p).
Proof. exact (@C05Thm.C05_tensor_operations_wf_typed). Qed.

Theorem C05_singleton_wf_typed : forall (O0 A : Type) (x : A) (a b : list O0),
       exists h : ohg O0 A,
         ohg_singleton x a b = Ok h /\
         wf_ohg h /\
         p_nodes (abs h) = a ++ b /\
         p_edges (abs h) =
         [{| pe_lbl := x; pe_src := seq 0 (length a); pe_tgt := seq (length a) (length b) |}] /\
         src_type (abs h) = map Some a /\ tgt_type (abs h) = map Some b.
Proof. exact (@C05Thm.C05_singleton_wf_typed). Qed.

Theorem C05_compose_wf : forall B : Backend,
       BackendOK B ->
       forall (O A : Type) (eqO : O -> O -> bool),
       (forall x y : O, eqO x y = true <-> x = y) ->
       forall f g : ohg O A,
       wf_ohg f ->
       wf_ohg g ->
       tgt_type (abs f) = src_type (abs g) ->
       exists h : ohg O A,
         ohg_compose B eqO f g = Ok (Some h) /\ wf_ohg h /\ IsCompose (abs f) (abs g) (abs h).
Proof. exact (@C01Thm.C01_compose_is_gluing). Qed.

Theorem C05_compose_typed : forall B : Backend,
       BackendOK B ->
       forall (O A : Type) (eqO : O -> O -> bool),
       (forall x y : O, eqO x y = true <-> x = y) ->
       forall f g h : ohg O A,
       wf_ohg f ->
       wf_ohg g ->
       ohg_compose B eqO f g = Ok (Some h) ->
       src_type (abs h) = src_type (abs f) /\ tgt_type (abs h) = tgt_type (abs g).
Proof. exact (@C01Thm.C01_compose_types). Qed.

Theorem C05_functor_image_wf_typed : forall B : Backend,
       BackendOK B ->
       forall (O1 A1 O2 A2 : Type) (eqO2 : O2 -> O2 -> bool),
       (forall x y : O2, eqO2 x y = true <-> x = y) ->
       forall (F : sfunctor O1 A1 O2 A2) (f : ohg O1 A1) (fw : ic (list O2)) (fx : ohg O2 A2),
       wf_ohg f ->
       (forall ops : operations O1 A1, to_operations f = Ok ops -> sf_map_operations F ops = Ok fx) ->
       sf_map_object F (h_w (o_h f)) = Ok fw ->
       wf_ics fw ->
       ic_len fw = length (h_w (o_h f)) ->
       wf_ohg fx ->
       fx_typed f fw fx ->
       exists h : ohg O2 A2,
         define_map_arrow B eqO2 F f = Ok h /\
         wf_ohg h /\
         src_type (abs h) = map (nth_error (ic_values fw)) (C12Lemmas.expand fw (table (o_s f))) /\
         tgt_type (abs h) = map (nth_error (ic_values fw)) (C12Lemmas.expand fw (table (o_t f))) /\
         IsSubst f fw fx (abs h).
Proof. exact (@C12Thm.C12_define_map_arrow). Qed.

Theorem C05_lax_functor_image_wf_typed : forall B : Backend,
       BackendOK B ->
       forall (O1 A1 O2 A2 : Type) (eqO1 : O1 -> O1 -> bool),
       (forall x y : O1, eqO1 x y = true <-> x = y) ->
       forall eqO2 : O2 -> O2 -> bool,
       (forall x y : O2, eqO2 x y = true <-> x = y) ->
       forall F : lfunctor O1 A1 O2 A2,
       C19bLemmas.lf_contract F ->
       forall f : lohg O1 A1,
       C09Thm.lwf f ->
       C10Lemmas.ladj_ok f ->
       C09Thm.labels_consistent f ->
       exists (a b : list O1) (g : lohg O2 A2) (sg : ohg O2 A2),
         lohg_source f = Ok a /\
         lohg_target f = Ok b /\
         dyn_define_map_arrow F B eqO1 eqO2 f = Ok g /\
         C09Thm.lwf g /\
         C10Lemmas.ladj_ok g /\
         pending g = [] /\
         l_q (lo_h g) = ([], []) /\
         lohg_source g = Ok (flat_map (lf_map_object F) a) /\
         lohg_target g = Ok (flat_map (lf_map_object F) b) /\
         lohg_to_strict B eqO2 g = Ok sg /\
         wf_ohg sg /\
         src_type (abs sg) = map Some (flat_map (lf_map_object F) a) /\
         tgt_type (abs sg) = map Some (flat_map (lf_map_object F) b).
Proof. exact (@C19bThm.C05_lax_functor_image_wf_typed). Qed.

Theorem C05_optic_image_wf_typed : forall B : Backend,
       BackendOK B ->
       forall (O1 A1 O2 A2 : Type) (eqO2 : O2 -> O2 -> bool),
       (forall x y : O2, eqO2 x y = true <-> x = y) ->
       forall (P : optic O1 A1 O2 A2) (f : ohg O1 A1) (sA sB : list O1),
       optic_contract P ->
       wf_ohg f ->
       src_type (abs f) = map Some sA ->
       tgt_type (abs f) = map Some sB ->
       exists (h : ohg O2 A2) (oa ob : ic (list O2)),
         optic_map_arrow B eqO2 P f = Ok h /\
         wf_ohg h /\
         optic_map_object P sA = Ok oa /\
         optic_map_object P sB = Ok ob /\
         src_type (abs h) = map Some (ic_values oa) /\ tgt_type (abs h) = map Some (ic_values ob).
Proof. exact (@C14bThm.C14_type). Qed.

Theorem C05_adapted_optic_wf_typed : forall B : Backend,
       BackendOK B ->
       forall (O1 A1 O2 A2 : Type) (eqO2 : O2 -> O2 -> bool),
       (forall x y : O2, eqO2 x y = true <-> x = y) ->
       forall (P : optic O1 A1 O2 A2) (f : ohg O1 A1) (sA sB : list O1),
       optic_contract P ->
       wf_ohg f ->
       src_type (abs f) = map Some sA ->
       tgt_type (abs f) = map Some sB ->
       exists (h d : ohg O2 A2) (fa fb ra rb : ic (list O2)),
         optic_map_arrow B eqO2 P f = Ok h /\
         optic_adapt B eqO2 P h sA sB = Ok d /\
         sf_map_object (op_fwd P) sA = Ok fa /\
         sf_map_object (op_fwd P) sB = Ok fb /\
         sf_map_object (op_rev P) sA = Ok ra /\
         sf_map_object (op_rev P) sB = Ok rb /\
         wf_ohg h /\
         wf_ohg d /\
         src_type (abs d) = map Some (ic_values fa ++ ic_values rb) /\
         tgt_type (abs d) = map Some (ic_values fb ++ ic_values ra).
Proof. exact (@C14bThm.C14_adapted_type). Qed.

Theorem C05_to_strict_wf : forall (O A : Type) (B : Backend),
       BackendOK B ->
       forall eqO : O -> O -> bool,
       (forall x y : O, eqO x y = true <-> x = y) ->
       forall g : lohg O A,
       C09Thm.lwf g ->
       C10Lemmas.ladj_ok g ->
       C09Thm.labels_consistent g ->
       exists s : ohg O A,
         lohg_to_strict B eqO g = Ok s /\
         wf_ohg s /\
         (exists q : nat -> nat,
            IsQuot (labs g) q (abs s) /\
            (forall i j : nat, i < C09Thm.nn g -> j < C09Thm.nn g -> q i = q j <-> conn (pending g) i j)).
Proof. exact (@C10Strict.C10_to_strict_spec). Qed.

Theorem C05_from_strict_wf : forall (O A : Type) (f : ohg O A),
       wf_ohg f ->
       exists l : lohg O A,
         lohg_from_strict f = Ok l /\
         pending l = [] /\ l_q (lo_h l) = ([], []) /\ C09Thm.lwf l /\ C10Lemmas.ladj_ok l /\ labs l = abs f.
Proof. exact (@C10Strict.C10_from_strict_spec). Qed.

Print Assumptions C05_ff_new_iff.
Print Assumptions C05_ic_new_iff.
Print Assumptions C05_ic_from_semifinite_iff.
Print Assumptions C05_ops_new_iff.
Print Assumptions C05_hg_new_iff.
Print Assumptions C05_hg_new_error.
Print Assumptions C05_ohg_new_iff.
Print Assumptions C05_ohg_new_error.
Print Assumptions C05_source_target_total.
Print Assumptions C05_identity_wf_typed.
Print Assumptions C05_twist_wf_typed.
Print Assumptions C05_spider_wf.
Print Assumptions C05_dagger_wf_typed.
Print Assumptions C05_tensor_wf_typed.
Print Assumptions C05_tensor_operations_wf_typed.
Print Assumptions C05_singleton_wf_typed.
Print Assumptions C05_compose_wf.
Print Assumptions C05_compose_typed.
Print Assumptions C05_functor_image_wf_typed.
Print Assumptions C05_lax_functor_image_wf_typed.
Print Assumptions C05_optic_image_wf_typed.
Print Assumptions C05_adapted_optic_wf_typed.
Print Assumptions C05_to_strict_wf.
Print Assumptions C05_from_strict_wf.
