(* C06 — Finite functions form a category with coproducts and coequalizers.
   Property theorems only: each statement is spelled out and closed by [exact] of a lemma proved in Proofs/. *)
From OHG Require Import Spec.Plain Proofs.C06Thm Proofs.BackendInst.

Theorem C06_new : forall (t : list nat) (n : nat),
       (forall f : ff, ff_new t n = Some f <-> all_lt n t /\ f = {| table := t; target := n |}) /\
       (ff_new t n = None <-> ~ all_lt n t).
Proof. exact C06Thm.C06_new. Qed.

Theorem C06_compose : forall f g : ff,
       wf_ff f ->
       (forall h : ff,
        ff_compose f g = Ok (Some h) <->
        target f = ff_source g /\ h = {| table := map (app g) (table f); target := target g |}) /\
       (ff_compose f g = Ok None <-> target f <> ff_source g) /\
       ff_compose f g <> Panic /\
       ff_compose f g <> Fuel /\ (forall h : ff, wf_ff g -> ff_compose f g = Ok (Some h) -> wf_ff h).
Proof. exact C06Thm.C06_compose. Qed.

Theorem C06_compose_semi : forall (T : Type) (f : ff) (u : list T) (d : T),
       wf_ff f ->
       (forall v : list T,
        ff_compose_semi f u = Ok (Some v) <->
        target f = length u /\ v = map (fun i : nat => nth i u d) (table f)) /\
       (ff_compose_semi f u = Ok None <-> target f <> length u) /\
       ff_compose_semi f u <> Panic /\ ff_compose_semi f u <> Fuel.
Proof. exact C06Thm.C06_compose_semi. Qed.

Theorem C06_identity : forall a : nat,
       ff_identity a = Ok (idf a) /\
       wf_ff (idf a) /\
       ff_source (idf a) = a /\
       target (idf a) = a /\
       (forall i : nat, i < a -> app (idf a) i = i) /\
       (forall f : ff, ff_source f = a -> ff_compose (idf a) f = Ok (Some f)) /\
       (forall f : ff, wf_ff f -> target f = a -> ff_compose f (idf a) = Ok (Some f)).
Proof. exact C06Thm.C06_identity. Qed.

Theorem C06_compose_assoc : forall f g h : ff,
       wf_ff f ->
       wf_ff g ->
       target f = ff_source g ->
       target g = ff_source h ->
       exists fg gh r : ff,
         ff_compose f g = Ok (Some fg) /\
         ff_compose g h = Ok (Some gh) /\
         ff_compose fg h = Ok (Some r) /\
         ff_compose f gh = Ok (Some r) /\
         r = {| table := map (fun i : nat => app h (app g i)) (table f); target := target h |}.
Proof. exact C06Thm.C06_compose_assoc. Qed.

Theorem C06_initial_terminal_constant : (forall a : nat,
        table (ff_initial a) = [] /\
        target (ff_initial a) = a /\ ff_source (ff_initial a) = 0 /\ wf_ff (ff_initial a)) /\
       (forall a : nat,
        table (ff_terminal a) = repeat 0 a /\
        target (ff_terminal a) = 1 /\
        ff_source (ff_terminal a) = a /\ wf_ff (ff_terminal a) /\ (forall i : nat, app (ff_terminal a) i = 0)) /\
       (forall a x b : nat,
        table (ff_constant a x b) = repeat x a /\
        target (ff_constant a x b) = x + b + 1 /\
        ff_source (ff_constant a x b) = a /\
        wf_ff (ff_constant a x b) /\ (forall i : nat, i < a -> app (ff_constant a x b) i = x)) /\
       (forall f : ff, ff_to_initial f = ff_initial (target f)).
Proof. exact C06Thm.C06_initial_terminal_constant. Qed.

Theorem C06_inj : (forall a b : nat, ff_inj0 a b = Ok {| table := seq 0 a; target := a + b |}) /\
       (forall a b : nat, ff_inj1 a b = Ok {| table := seq a b; target := a + b |}) /\
       (forall a b : nat,
        wf_ff {| table := seq 0 a; target := a + b |} /\ wf_ff {| table := seq a b; target := a + b |}) /\
       (forall (f : ff) (b : nat),
        wf_ff f ->
        exists i0 : ff, ff_inj0 (target f) b = Ok i0 /\ ff_compose f i0 = Ok (Some (ff_inject0 f b))) /\
       (forall (f : ff) (a : nat),
        wf_ff f ->
        exists i1 : ff, ff_inj1 a (target f) = Ok i1 /\ ff_compose f i1 = Ok (Some (ff_inject1 f a))) /\
       (forall (f : ff) (b : nat), wf_ff f -> wf_ff (ff_inject0 f b)) /\
       (forall (f : ff) (a : nat), wf_ff f -> wf_ff (ff_inject1 f a)).
Proof. exact C06Thm.C06_inj. Qed.

Theorem C06_coproduct : forall f g : ff,
       (forall h : ff,
        ff_coproduct f g = Some h <->
        target f = target g /\ h = {| table := table f ++ table g; target := target f |}) /\
       (ff_coproduct f g = None <-> target f <> target g) /\
       (forall h : ff,
        ff_coproduct f g = Some h ->
        ff_source h = ff_source f + ff_source g /\
        (wf_ff f -> wf_ff g -> wf_ff h) /\
        (exists i0 i1 : ff,
           ff_inj0 (ff_source f) (ff_source g) = Ok i0 /\
           ff_inj1 (ff_source f) (ff_source g) = Ok i1 /\
           ff_compose i0 h = Ok (Some f) /\
           ff_compose i1 h = Ok (Some g) /\
           (forall k : ff,
            ff_source k = ff_source f + ff_source g ->
            ff_compose i0 k = Ok (Some f) -> ff_compose i1 k = Ok (Some g) -> k = h))).
Proof. exact C06Thm.C06_coproduct. Qed.

Theorem C06_tensor : forall f g : ff,
       table (ff_tensor f g) = table f ++ map (fun x : nat => x + target f) (table g) /\
       target (ff_tensor f g) = target f + target g /\
       ff_source (ff_tensor f g) = ff_source f + ff_source g /\
       (wf_ff f ->
        wf_ff g ->
        wf_ff (ff_tensor f g) /\
        (exists i0 i1 fi gi : ff,
           ff_inj0 (target f) (target g) = Ok i0 /\
           ff_inj1 (target f) (target g) = Ok i1 /\
           ff_compose f i0 = Ok (Some fi) /\
           ff_compose g i1 = Ok (Some gi) /\ ff_coproduct fi gi = Some (ff_tensor f g))).
Proof. exact C06Thm.C06_tensor. Qed.

Theorem C06_twist : forall a b : nat,
       ff_twist a b = Ok {| table := seq b a ++ seq 0 b; target := a + b |} /\
       wf_ff {| table := seq b a ++ seq 0 b; target := a + b |} /\
       NoDup (seq b a ++ seq 0 b) /\
       (exists tab tba : ff,
          ff_twist a b = Ok tab /\ ff_twist b a = Ok tba /\ ff_compose tab tba = Ok (Some (idf (a + b)))).
Proof. exact C06Thm.C06_twist. Qed.

Theorem C06_transpose : forall a b : nat,
       (a > 0 ->
        exists f : ff,
          ff_transpose a b = Ok f /\
          target f = b * a /\
          length (table f) = b * a /\
          (forall i : nat, i < b * a -> app f i = i mod a * b + i / a) /\
          wf_ff f /\ NoDup (table f) /\ Permutation (table f) (seq 0 (b * a))) /\
       ff_transpose 0 b = Ok (ff_initial 0).
Proof. exact C06Thm.C06_transpose. Qed.

Theorem C06_cumulative_sum : forall f : ff,
       exists g : ff,
         ff_cumulative_sum f = Ok g /\
         table g = prefix_sums (table f) /\
         ff_source g = ff_source f /\
         target g = list_sum (table f) /\
         (forall i : nat, i < ff_source f -> app g i = list_sum (firstn i (table f))) /\
         Forall (fun x : nat => x <= target g) (table g).
Proof. exact C06Thm.C06_cumulative_sum. Qed.

Theorem C06_injections : forall s a : ff,
       (wf_ff a ->
        target a = ff_source s ->
        exists r : ff,
          ff_injections s a = Ok (Some r) /\
          table r =
          flat_map (fun x : nat => seq (list_sum (firstn x (table s))) (nth x (table s) 0)) (table a) /\
          target r = list_sum (table s)) /\ (target a <> ff_source s -> ff_injections s a = Ok None).
Proof. exact C06Thm.C06_injections. Qed.

Theorem C06_is_injective : forall f : ff, wf_ff f -> exists b : bool, ff_is_injective f = Ok b /\ (b = true <-> NoDup (table f)).
Proof. exact C06Thm.C06_is_injective. Qed.

Theorem C06_coequalizer : forall B : Backend,
       BackendOK B ->
       forall f g : ff,
       (wf_ff f ->
        wf_ff g ->
        ff_source f = ff_source g ->
        target f = target g ->
        exists q : ff,
          ff_coequalizer B f g = Ok (Some q) /\
          ff_source q = target f /\
          wf_ff q /\
          (forall j : nat, j < target q -> In j (table q)) /\
          (forall x y : nat,
           x < target f -> y < target f -> app q x = app q y <-> conn (combine (table f) (table g)) x y)) /\
       (ff_source f <> ff_source g \/ target f <> target g -> ff_coequalizer B f g = Ok None).
Proof. exact C06Thm.C06_coequalizer. Qed.

Theorem C06_universal : forall B : Backend,
       BackendOK B ->
       forall (T : Type) (eqb : T -> T -> bool) (q : ff) (u : list T),
       (forall x y : T, eqb x y = true <-> x = y) ->
       wf_ff q ->
       (forall j : nat, j < target q -> In j (table q)) ->
       coequalizer_universal B eqb q u <> Panic /\
       coequalizer_universal B eqb q u <> Fuel /\
       (length u = ff_source q ->
        forall v : list T,
        coequalizer_universal B eqb q u = Ok (Some v) <->
        length v = target q /\ (forall i : nat, i < length u -> nth_error v (app q i) = nth_error u i)) /\
       (length u = ff_source q ->
        coequalizer_universal B eqb q u = Ok None <->
        (exists i j : nat,
           i < length u /\ j < length u /\ app q i = app q j /\ nth_error u i <> nth_error u j)) /\
       (length u <> ff_source q -> coequalizer_universal B eqb q u = Ok None).
Proof. exact C06Thm.C06_universal. Qed.

Theorem C06_universal_ff : forall B : Backend,
       BackendOK B ->
       forall q f : ff,
       wf_ff q ->
       (forall j : nat, j < target q -> In j (table q)) ->
       ff_source f = ff_source q ->
       (forall h : ff,
        ff_coequalizer_universal B q f = Ok (Some h) <->
        ff_source h = target q /\ target h = target f /\ ff_compose q h = Ok (Some f)) /\
       ff_coequalizer_universal B q f <> Panic /\ ff_coequalizer_universal B q f <> Fuel.
Proof. exact C06Thm.C06_universal_ff. Qed.

Theorem C06_sfa : forall T : Type,
       (forall f : ff,
        @sf_source T (@SFFinite T f) = @Some nat (ff_source f) /\
        @sf_target T (@SFFinite T f) = @Some nat (target f)) /\
       (forall u : list T,
        @sf_source T (@SFSemi T u) = @Some nat (@length T u) /\ @sf_target T (@SFSemi T u) = @None nat) /\
       (@sf_source T (@SFIdentity T) = @None nat /\ @sf_target T (@SFIdentity T) = @None nat) /\
       (forall a : nat, @sf_identity T (@Some nat a) = @Ok (sf_arrow T) (@SFFinite T (idf a))) /\
       @sf_identity T (@None nat) = @Ok (sf_arrow T) (@SFIdentity T) /\
       (forall o : option nat,
        exists i : sf_arrow T,
          @sf_identity T o = @Ok (sf_arrow T) i /\ @sf_source T i = o /\ @sf_target T i = o) /\
       (forall f g : ff,
        wf_ff f ->
        (forall k : sf_arrow T,
         @sf_compose T (@SFFinite T f) (@SFFinite T g) = @Ok (option (sf_arrow T)) (@Some (sf_arrow T) k) <->
         target f = ff_source g /\
         k = @SFFinite T {| table := @map nat nat (app g) (table f); target := target g |}) /\
        (@sf_compose T (@SFFinite T f) (@SFFinite T g) = @Ok (option (sf_arrow T)) (@None (sf_arrow T)) <->
         target f <> ff_source g)) /\
       (forall (f : ff) (u : list T) (d : T),
        wf_ff f ->
        (forall k : sf_arrow T,
         @sf_compose T (@SFFinite T f) (@SFSemi T u) = @Ok (option (sf_arrow T)) (@Some (sf_arrow T) k) <->
         target f = @length T u /\ k = @SFSemi T (@map nat T (fun i : nat => @nth T i u d) (table f))) /\
        (@sf_compose T (@SFFinite T f) (@SFSemi T u) = @Ok (option (sf_arrow T)) (@None (sf_arrow T)) <->
         target f <> @length T u)) /\
       (forall f : ff,
        @sf_compose T (@SFFinite T f) (@SFIdentity T) = @Ok (option (sf_arrow T)) (@None (sf_arrow T))) /\
       (forall b : sf_arrow T,
        @sf_compose T (@SFIdentity T) b = @Ok (option (sf_arrow T)) (@None (sf_arrow T))) /\
       (forall (u : list T) (b : sf_arrow T),
        @sf_compose T (@SFSemi T u) b = @Ok (option (sf_arrow T)) (@None (sf_arrow T))) /\
       (forall (f : ff) (b : sf_arrow T),
        wf_ff f ->
        (exists k : sf_arrow T,
           @sf_compose T (@SFFinite T f) b = @Ok (option (sf_arrow T)) (@Some (sf_arrow T) k) /\
           @sf_source T k = @Some nat (ff_source f) /\ @sf_target T k = @sf_target T b) \/
        @sf_compose T (@SFFinite T f) b = @Ok (option (sf_arrow T)) (@None (sf_arrow T)) /\
        @sf_target T (@SFFinite T f) <> @sf_source T b).
Proof. exact C06Thm.C06_sfa. Qed.

(* non-vacuity: the contract hypothesis is met by both concrete back-ends *)
Example C06_nonvacuous : BackendOK VecBackend /\ BackendOK AdvBackend /\ wf_ff (mkFF [0;2;2] 3).
Proof. split; [exact VecBackend_ok|split; [exact AdvBackend_ok|repeat constructor]]. Qed.

Print Assumptions C06_new.
Print Assumptions C06_compose.
Print Assumptions C06_compose_semi.
Print Assumptions C06_identity.
Print Assumptions C06_compose_assoc.
Print Assumptions C06_initial_terminal_constant.
Print Assumptions C06_inj.
Print Assumptions C06_coproduct.
Print Assumptions C06_tensor.
Print Assumptions C06_twist.
Print Assumptions C06_transpose.
Print Assumptions C06_cumulative_sum.
Print Assumptions C06_injections.
Print Assumptions C06_is_injective.
Print Assumptions C06_coequalizer.
Print Assumptions C06_universal.
Print Assumptions C06_universal_ff.
Print Assumptions C06_sfa.
