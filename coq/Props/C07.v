(* C07 — Array primitives of the Vec backend meet their element-wise contract.
   Property theorems only: each is closed by [exact] of a lemma proved in Proofs/. *)
From OHG Require Import Spec.Plain Model.UnionFind Proofs.PrimsThm Proofs.CCThm Proofs.UnionFindThm Proofs.C07aThm Proofs.BackendInst.

(* the Vec back-end (and the adversarial variant) satisfy the documented contract of the four
   operations whose result is not determined by a scalar definition *)
Theorem C07_vec_conforms : BackendOK VecBackend.
Proof. exact VecBackend_ok. Qed.

Theorem C07_adv_conforms : BackendOK AdvBackend.
Proof. exact AdvBackend_ok. Qed.

Theorem C07_argsort_stable : forall xs,
  Permutation (vec_argsort xs) (seq 0 (length xs)) /\
  StronglySorted le (map (fun i => nth i xs 0) (vec_argsort xs)) /\
  StronglySorted (fun i j => nth i xs 0 = nth j xs 0 -> i < j) (vec_argsort xs).
Proof. intros xs. exact (conj (vec_argsort_perm xs) (conj (vec_argsort_sorted xs) (vec_argsort_stable xs))). Qed.

Theorem C07_connected_components : forall s t n,
  length s = length t -> all_lt n s -> all_lt n t ->
  let c := fst (cc_pure s t n) in let k := snd (cc_pure s t n) in
  length c = n /\ all_lt k c /\ (forall j, j < k -> In j c) /\
  (forall i j, i < n -> j < n -> (nth i c 0 = nth j c 0 <-> conn (combine s t) i j)).
Proof. exact cc_pure_ok. Qed.

Theorem C07_connected_components_returns : forall B (OK : BackendOK B) s t n,
  length s = length t -> all_lt n s -> all_lt n t ->
  connected_components B s t n = Ok (b_conn_comp B s t n).
Proof. exact connected_components_ok. Qed.

Theorem C07_connected_components_rejects : forall B s t n,
  length s <> length t \/ Exists (fun x => n <= x) s \/ Exists (fun x => n <= x) t ->
  connected_components B s t n = Panic.
Proof. exact connected_components_panic. Qed.

(* the numbering depends on the partition only: modelling union-find by relabel-merge is sound *)
Theorem C07_dense_numbering_partition_only : forall l1 l2,
  length l1 = length l2 ->
  (forall i j, i < length l1 -> j < length l1 ->
     (nth i l1 0 = nth j l1 0 <-> nth i l2 0 = nth j l2 0)) ->
  fst (to_dense l1) = fst (to_dense l2) /\ snd (to_dense l1) = snd (to_dense l2).
Proof. exact to_dense_partition_only. Qed.

Theorem C07_gather : forall (T : Type) (xs : list T) idx d,
  Forall (fun i => i < length xs) idx -> gather xs idx = Ok (map (fun i => nth i xs d) idx).
Proof. exact gather_ok. Qed.

Theorem C07_gather_rejects : forall (T : Type) (xs : list T) idx,
  ~ Forall (fun i => i < length xs) idx -> gather xs idx = Panic.
Proof. exact gather_panic. Qed.

Theorem C07_cumulative_sum : forall xs i, i <= length xs ->
  length (cumulative_sum xs) = S (length xs) /\ nth i (cumulative_sum xs) 0 = list_sum (firstn i xs).
Proof. intros xs i H. exact (conj (cumulative_sum_length xs) (nth_cumulative_sum xs H)). Qed.

Theorem C07_sum : forall xs, asum xs = Ok (list_sum xs).
Proof. exact asum_ok. Qed.

Theorem C07_segmented_sum : forall sizes xs,
  list_sum sizes = length xs -> segmented_sum sizes xs = Ok (map (@list_sum) (segs sizes xs)).
Proof. exact segmented_sum_ok. Qed.

Theorem C07_segmented_arange : forall sizes, segmented_arange sizes = Ok (flat_map (seq 0) sizes).
Proof. exact segmented_arange_ok. Qed.

Theorem C07_bincount : forall xs n v, Forall (fun i => i < n) xs -> v < n ->
  bincount xs n = Ok (bincount_pure xs n) /\ nth v (bincount_pure xs n) 0 = count_occ Nat.eq_dec xs v.
Proof. intros xs n v H Hv. exact (conj (bincount_ok H) (nth_bincount_pure xs Hv)). Qed.

Theorem C07_zero : forall xs j, In j (azero xs) <-> j < length xs /\ nth j xs 1 = 0.
Proof. exact azero_spec. Qed.

Theorem C07_max : forall xs m, amax xs = Some m <-> In m xs /\ Forall (fun x => x <= m) xs.
Proof. exact amax_spec. Qed.

Theorem C07_range_inclusive_end : forall (T : Type) (xs : list T) b, b < length xs ->
  get_range xs (RToIncl b) = Ok (firstn (S b) xs).
Proof. exact get_range_RToIncl. Qed.

Theorem C07_sort_by : forall B (OK : BackendOK B) (T : Type) (xs : list T) key,
  length xs = length key -> exists r, sort_by B xs key = Ok r /\ Permutation r xs.
Proof. exact sort_by_ok. Qed.

(* the faithful model of the Rust union-find (parent/rank arrays, recursive find with path compression,
   union by rank, one find per node, to_dense) computes exactly the simple model used everywhere else;
   the fuel n+1 given to the recursive find always suffices (termination is part of the statement) *)
Theorem C07_union_find_refines : forall s t n,
  length s = length t -> all_lt n s -> all_lt n t ->
  uf_connected_components s t n = Ok (cc_pure s t n).
Proof. exact uf_connected_components_ok. Qed.

Theorem C07_union_find_rejects : forall s t n,
  length s <> length t \/ Exists (fun x => n <= x) s \/ Exists (fun x => n <= x) t ->
  uf_connected_components s t n = Panic.
Proof. exact uf_connected_components_panic. Qed.

Theorem C07_union_find_terminates : forall s t n, uf_connected_components s t n <> Fuel.
Proof. exact uf_connected_components_never_fuel. Qed.

(* non-vacuity: the hypotheses are met by concrete data *)
Example C07_nonvacuous :
  length [0;1;3] = length [1;2;4] /\ all_lt 5 [0;1;3] /\ all_lt 5 [1;2;4] /\
  cc_pure [0;1;3] [1;2;4] 5 = ([0;0;0;1;1], 2).
Proof. repeat split; try (repeat constructor; lia). Qed.

Print Assumptions C07_vec_conforms.
Print Assumptions C07_adv_conforms.
Print Assumptions C07_connected_components.
Print Assumptions C07_segmented_sum.
Print Assumptions C07_union_find_refines.
