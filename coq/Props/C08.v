(* C08 — Segmented arrays behave as lists of lists and keep their size invariant.
   Property theorems only: each statement is spelled out and closed by [exact] of a lemma proved in Proofs/. *)
From OHG Require Import Spec.Plain Proofs.SegThm Proofs.C08Thm.

Theorem C08_new_iff : forall (V : Type) (O : VOps V) (s : ff) (v : V) (c : ic V),
       @ic_new V O s v = @Ok (option (ic V)) (@Some (ic V) c) <->
       c = {| ic_sources := s; ic_values := v |} /\ @wf_ic V (@vlen V O) c.
Proof. exact C08Thm.C08_new_iff. Qed.

Theorem C08_new_total : forall (V : Type) (O : VOps V) (s : ff) (v : V),
       @ic_new V O s v = @Ok (option (ic V)) (@None (ic V)) \/
       @ic_new V O s v = @Ok (option (ic V)) (@Some (ic V) {| ic_sources := s; ic_values := v |}).
Proof. exact C08Thm.C08_new_total. Qed.

Theorem C08_from_semifinite_iff : forall (V : Type) (O0 : VOps V) (sizes : list nat) (v : V) (c : ic V),
       @ic_from_semifinite V O0 sizes v = @Ok (option (ic V)) (@Some (ic V) c) <->
       list_sum sizes = @vlen V O0 v /\
       c = {| ic_sources := {| table := sizes; target := @vlen V O0 v + 1 |}; ic_values := v |}.
Proof. exact C08Thm.C08_from_semifinite_iff. Qed.

Theorem C08_segs_concat : forall (T : Type) (sizes : list nat) (v : list T),
       list_sum sizes = length v -> concat (segs sizes v) = v.
Proof. exact C08Thm.C08_segs_concat. Qed.

Theorem C08_segs_nth : forall (T : Type) (sizes : list nat) (v : list T) (i : nat),
       nth i (segs sizes v) [] = firstn (nth i sizes 0) (skipn (list_sum (firstn i sizes)) v).
Proof. exact C08Thm.C08_segs_nth. Qed.

Theorem C08_singleton_f : forall v : ff,
       wf_ff v -> wf_icf (ic_singleton ff_vops v) /\ decode_f (ic_singleton ff_vops v) = [table v].
Proof. exact C08Thm.C08_singleton_f. Qed.

Theorem C08_singleton_s : forall (T : Type) (v : list T),
       wf_ics (ic_singleton (semi_vops T) v) /\ decode_s (ic_singleton (semi_vops T) v) = [v].
Proof. exact C08Thm.C08_singleton_s. Qed.

Theorem C08_elements_f : forall v : ff,
       wf_ff v ->
       exists c : ic ff,
         ic_elements ff_vops v = Ok c /\ wf_icf c /\ decode_f c = map (fun x : nat => [x]) (table v).
Proof. exact C08Thm.C08_elements_f. Qed.

Theorem C08_elements_s : forall (T : Type) (v : list T),
       exists c : ic (list T),
         ic_elements (semi_vops T) v = Ok c /\ wf_ics c /\ decode_s c = map (fun x : T => [x]) v.
Proof. exact C08Thm.C08_elements_s. Qed.

Theorem C08_initial : forall tg : nat, wf_icf (icf_initial tg) /\ decode_f (icf_initial tg) = [].
Proof. exact C08Thm.C08_initial. Qed.

Theorem C08_coproduct_s : forall (T : Type) (c d : ic (list T)),
       wf_ics c ->
       wf_ics d ->
       exists r : ic (list T),
         ic_coproduct (semi_vops T) c d = Ok (Some r) /\
         wf_ics r /\ decode_s r = decode_s c ++ decode_s d /\ ic_values r = ic_values c ++ ic_values d.
Proof. exact C08Thm.C08_coproduct_s. Qed.

Theorem C08_coproduct_f : forall c d : icf,
       wf_icf c ->
       wf_icf d ->
       target (ic_values c) = target (ic_values d) ->
       exists r : ic ff,
         ic_coproduct ff_vops c d = Ok (Some r) /\
         wf_icf r /\
         decode_f r = decode_f c ++ decode_f d /\
         ic_values r =
         {| table := table (ic_values c) ++ table (ic_values d); target := target (ic_values c) |}.
Proof. exact C08Thm.C08_coproduct_f. Qed.

Theorem C08_coproduct_f_none : forall c d : icf,
       wf_icf c ->
       wf_icf d -> target (ic_values c) <> target (ic_values d) -> ic_coproduct ff_vops c d = Ok None.
Proof. exact C08Thm.C08_coproduct_f_none. Qed.

Theorem C08_tensor : forall c d : icf,
       wf_icf c ->
       wf_icf d ->
       exists r : icf,
         icf_tensor c d = Ok r /\
         wf_icf r /\
         decode_f r = decode_f c ++ map (map (fun x : nat => x + target (ic_values c))) (decode_f d) /\
         target (ic_values r) = target (ic_values c) + target (ic_values d).
Proof. exact C08Thm.C08_tensor. Qed.

Theorem C08_map_indexes_f : forall (c : icf) (x : ff),
       wf_icf c ->
       wf_ff x ->
       target x = ic_len c ->
       exists r : ic ff,
         ic_map_indexes ff_vops c x = Ok (Some r) /\
         wf_icf r /\
         decode_f r = map (fun i : nat => nth i (decode_f c) []) (table x) /\
         target (ic_values r) = target (ic_values c) /\
         ic_indexed_values ff_vops c x = Ok (Some (ic_values r)) /\ table (ic_values r) = concat (decode_f r).
Proof. exact C08Thm.C08_map_indexes_f. Qed.

Theorem C08_map_indexes_s : forall (T : Type) (c : ic (list T)) (x : ff),
       wf_ics c ->
       wf_ff x ->
       target x = ic_len c ->
       exists r : ic (list T),
         ic_map_indexes (semi_vops T) c x = Ok (Some r) /\
         wf_ics r /\
         decode_s r = map (fun i : nat => nth i (decode_s c) []) (table x) /\
         ic_indexed_values (semi_vops T) c x = Ok (Some (ic_values r)) /\ ic_values r = concat (decode_s r).
Proof. exact C08Thm.C08_map_indexes_s. Qed.

Theorem C08_map_indexes_none : forall (V : Type) (O : VOps V) (c : ic V) (x : ff),
       target x <> ic_len c -> ic_map_indexes O c x = Ok None /\ ic_indexed_values O c x = Ok None.
Proof. exact C08Thm.C08_map_indexes_none. Qed.

Theorem C08_map_values : forall (c : icf) (g : ff),
       wf_icf c ->
       target (ic_values c) = ff_source g ->
       exists r : icf,
         icf_map_values c g = Ok (Some r) /\
         ic_sources r = ic_sources c /\
         target (ic_values r) = target g /\
         wf_ic ff_source r /\ (wf_ff g -> wf_icf r) /\ decode_f r = map (map (ff_app g)) (decode_f c).
Proof. exact C08Thm.C08_map_values. Qed.

Theorem C08_map_values_none : forall (c : icf) (g : ff), target (ic_values c) <> ff_source g -> icf_map_values c g = Ok None.
Proof. exact C08Thm.C08_map_values_none. Qed.

Theorem C08_map_semifinite : forall (T : Type) (c : icf) (x : list T) (d : T),
       wf_icf c ->
       target (ic_values c) = length x ->
       exists r : ic (list T),
         icf_map_semifinite c x = Ok (Some r) /\
         ic_sources r = ic_sources c /\
         wf_ics r /\ decode_s r = map (map (fun i : nat => nth i x d)) (decode_f c).
Proof. exact C08Thm.C08_map_semifinite. Qed.

Theorem C08_flatmap : forall c d : icf,
       wf_icf c ->
       wf_icf d ->
       target (ic_values c) = ic_len d ->
       exists r : icf,
         icf_flatmap c d = Ok r /\
         wf_icf r /\
         target (ic_values r) = target (ic_values d) /\
         ic_len r = ic_len c /\
         decode_f r = map (flat_map (fun j : nat => nth j (decode_f d) [])) (decode_f c).
Proof. exact C08Thm.C08_flatmap. Qed.

Theorem C08_flatmap_panic : forall c d : icf, target (ic_values c) <> ic_len d -> icf_flatmap c d = Panic.
Proof. exact C08Thm.C08_flatmap_panic. Qed.

Theorem C08_flatmap_sources_ff : forall c d : icf,
       wf_icf c ->
       wf_icf d ->
       ff_source (ic_values c) = ic_len d ->
       exists r : ic ff,
         ic_flatmap_sources ff_vops c d = Ok r /\
         wf_icf r /\
         ic_values r = ic_values d /\
         decode_f r = map (concat (A:=nat)) (segs (table (ic_sources c)) (decode_f d)).
Proof. exact C08Thm.C08_flatmap_sources_ff. Qed.

Theorem C08_flatmap_sources_panic : forall (V W : Type) (O : VOps V) (c : ic V) (d : ic W),
       vlen O (ic_values c) <> ic_len d -> ic_flatmap_sources O c d = Panic.
Proof. exact C08Thm.C08_flatmap_sources_panic. Qed.

Theorem C08_iter_f : forall c : icf,
       wf_icf c ->
       let n := ic_len c in
       let items := map (fun t : list nat => {| table := t; target := target (ic_values c) |}) (decode_f c)
         in
       length items = n /\
       ic_into_iter c = it_at c 0 /\
       (forall k : nat, k < n -> icf_iter_next (it_at c k) = Ok (nth_error items k, it_at c (S k))) /\
       icf_iter_next (it_at c n) = Ok (None, it_at c n) /\
       (forall k : nat,
        k <= n -> iter_nexts icf_iter_next k (ic_into_iter c) = Ok (map Some (firstn k items), it_at c k)) /\
       (forall m : nat,
        iter_nexts icf_iter_next (n + m) (ic_into_iter c) = Ok (map Some items ++ repeat None m, it_at c n)) /\
       (forall k : nat, k <= n -> ic_iter_len (it_at c k) = Ok (n - k)) /\
       icf_iter_run (n + 1) (ic_into_iter c) = Ok (combine items (map (fun i : nat => n - S i) (seq 0 n))) /\
       icf_collect c = Ok items.
Proof. exact C08Thm.C08_iter_f. Qed.

Theorem C08_iter_s : forall (T : Type) (c : ic (list T)),
       wf_ics c ->
       let n := ic_len c in
       let items := decode_s c in
       length items = n /\
       ic_into_iter c = it_at c 0 /\
       (forall k : nat, k < n -> ics_iter_next (it_at c k) = Ok (nth_error items k, it_at c (S k))) /\
       ics_iter_next (it_at c n) = Ok (None, it_at c n) /\
       (forall k : nat,
        k <= n -> iter_nexts ics_iter_next k (ic_into_iter c) = Ok (map Some (firstn k items), it_at c k)) /\
       (forall m : nat,
        iter_nexts ics_iter_next (n + m) (ic_into_iter c) = Ok (map Some items ++ repeat None m, it_at c n)) /\
       (forall k : nat, k <= n -> ic_iter_len (it_at c k) = Ok (n - k)) /\
       ics_iter_run (n + 1) (ic_into_iter c) = Ok (combine items (map (fun i : nat => n - S i) (seq 0 n))) /\
       ics_collect c = Ok items /\ ics_iter_slices c = Ok items.
Proof. exact C08Thm.C08_iter_s. Qed.

Theorem C08_ops_new_iff : forall (O A : Type) (x : list A) (a b : ic (list O)) (p : operations O A),
       ops_new x a b = Some p <->
       length x = ic_len a /\ length x = ic_len b /\ p = {| ops_x := x; ops_a := a; ops_b := b |}.
Proof. exact C08Thm.C08_ops_new_iff. Qed.

Theorem C08_ops_iter : forall (O A : Type) (x : list A) (a b : ic (list O)),
       wf_ics a ->
       wf_ics b ->
       ops_iter {| ops_x := x; ops_a := a; ops_b := b |} = Ok (combine (combine x (decode_s a)) (decode_s b)).
Proof. exact C08Thm.C08_ops_iter. Qed.

Theorem C08_ops_singleton : forall (O A : Type) (x : A) (a b : list O),
       ops_new [x] (ic_singleton (semi_vops O) a) (ic_singleton (semi_vops O) b) = Some (ops_singleton x a b) /\
       ops_iter (ops_singleton x a b) = Ok [(x, a, b)].
Proof. exact C08Thm.C08_ops_singleton. Qed.

Print Assumptions C08_new_iff.
Print Assumptions C08_new_total.
Print Assumptions C08_from_semifinite_iff.
Print Assumptions C08_segs_concat.
Print Assumptions C08_segs_nth.
Print Assumptions C08_singleton_f.
Print Assumptions C08_singleton_s.
Print Assumptions C08_elements_f.
Print Assumptions C08_elements_s.
Print Assumptions C08_initial.
Print Assumptions C08_coproduct_s.
Print Assumptions C08_coproduct_f.
Print Assumptions C08_coproduct_f_none.
Print Assumptions C08_tensor.
Print Assumptions C08_map_indexes_f.
Print Assumptions C08_map_indexes_s.
Print Assumptions C08_map_indexes_none.
Print Assumptions C08_map_values.
Print Assumptions C08_map_values_none.
Print Assumptions C08_map_semifinite.
Print Assumptions C08_flatmap.
Print Assumptions C08_flatmap_panic.
Print Assumptions C08_flatmap_sources_ff.
Print Assumptions C08_flatmap_sources_panic.
Print Assumptions C08_iter_f.
Print Assumptions C08_iter_s.
Print Assumptions C08_ops_new_iff.
Print Assumptions C08_ops_iter.
Print Assumptions C08_ops_singleton.
