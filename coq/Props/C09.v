(* C09 — Quotienting a lax diagram merges exactly the unified nodes, atomically.
   Property theorems only: each statement is spelled out and closed by [exact] of a lemma proved in Proofs/. *)
From OHG Require Import Spec.Plain Proofs.C09Thm Proofs.BackendInst.

Theorem C09_success : forall B : Backend,
       BackendOK B ->
       forall (O A : Type) (eqO : O -> O -> bool),
       (forall x y : O, eqO x y = true <-> x = y) ->
       forall f : lohg O A,
       lwf f ->
       labels_consistent f ->
       exists (q : ff) (f' : lohg O A),
         lohg_quotient B eqO f = Ok (f', inl q) /\
         ff_source q = nn f /\
         target q = length (l_nodes (lo_h f')) /\
         (forall j : nat, j < target q -> exists i : nat, i < nn f /\ app q i = j) /\
         (forall i j : nat, i < nn f -> j < nn f -> app q i = app q j <-> conn (pending f) i j) /\
         IsQuot (labs f) (app q) (labs f') /\
         l_edges (lo_h f') = l_edges (lo_h f) /\ pending f' = [] /\ l_q (lo_h f') = ([], []) /\ lwf f'.
Proof. exact C09Thm.C09_success. Qed.

Theorem C09_failure_iff : forall B : Backend,
       BackendOK B ->
       forall (O A : Type) (eqO : O -> O -> bool),
       (forall x y : O, eqO x y = true <-> x = y) ->
       forall f : lohg O A,
       lwf f ->
       (exists (f' : lohg O A) (q : ff), lohg_quotient B eqO f = Ok (f', inr q)) <-> ~ labels_consistent f.
Proof. exact C09Thm.C09_failure_iff. Qed.

Theorem C09_failure_atomic : forall (B : Backend) (O A : Type) (eqO : O -> O -> bool) (f f' : lohg O A) (q : ff),
       lohg_quotient B eqO f = Ok (f', inr q) -> f' = f.
Proof. exact C09Thm.C09_failure_atomic. Qed.

Theorem C09_total : forall B : Backend,
       BackendOK B ->
       forall (O A : Type) (eqO : O -> O -> bool),
       (forall x y : O, eqO x y = true <-> x = y) ->
       forall f : lohg O A, lwf f -> exists (f' : lohg O A) (r : ff + ff), lohg_quotient B eqO f = Ok (f', r).
Proof. exact C09Thm.C09_total. Qed.

Theorem C09_idempotent : forall B : Backend,
       BackendOK B ->
       forall (O0 A : Type) (eqO : O0 -> O0 -> bool),
       (forall x y : O0, eqO x y = true <-> x = y) ->
       forall (f f' : lohg O0 A) (q : ff),
       cc_canonical B ->
       lwf f ->
       lohg_quotient B eqO f = Ok (f', inl q) ->
       lohg_quotient B eqO f' = Ok (f', inl {| table := seq 0 (nn f'); target := nn f' |}).
Proof. exact C09Thm.C09_idempotent. Qed.

Theorem C09_vec_numbering_canonical : cc_canonical VecBackend.
Proof. exact C09Thm.vec_cc_canonical. Qed.

Theorem C09_idempotent_any_backend : forall B : Backend,
       BackendOK B ->
       forall (O A : Type) (eqO : O -> O -> bool),
       (forall x y : O, eqO x y = true <-> x = y) ->
       forall (f f' : lohg O A) (q : ff),
       lwf f ->
       lohg_quotient B eqO f = Ok (f', inl q) ->
       exists (q' : ff) (f'' : lohg O A),
         lohg_quotient B eqO f' = Ok (f'', inl q') /\
         target q' = nn f' /\
         bij_on (nn f') (app q') /\
         NIso (labs f') (labs f'') /\ l_edges (lo_h f'') = l_edges (lo_h f') /\ pending f'' = [] /\ lwf f''.
Proof. exact C09Thm.C09_idempotent_any_backend. Qed.

Theorem C09h_success : forall B : Backend,
       BackendOK B ->
       forall (O A : Type) (eqO : O -> O -> bool),
       (forall x y : O, eqO x y = true <-> x = y) ->
       forall h : lhg O A,
       hwf h ->
       hlabels_consistent h ->
       exists (q : ff) (h' : lhg O A),
         lhg_quotient B eqO h = Ok (h', inl q) /\
         ff_source q = hn h /\
         target q = hn h' /\
         (forall j : nat, j < target q -> exists i : nat, i < hn h /\ app q i = j) /\
         (forall i j : nat, i < hn h -> j < hn h -> app q i = app q j <-> conn (hpending h) i j) /\
         IsQuot (labs (hopen h)) (app q) (labs (hopen h')) /\
         l_edges h' = l_edges h /\ hpending h' = [] /\ l_q h' = ([], []) /\ hwf h'.
Proof. exact C09Thm.C09h_success. Qed.

Theorem C09h_failure_iff : forall B : Backend,
       BackendOK B ->
       forall (O A : Type) (eqO : O -> O -> bool),
       (forall x y : O, eqO x y = true <-> x = y) ->
       forall h : lhg O A,
       hwf h ->
       (exists (h' : lhg O A) (q : ff), lhg_quotient B eqO h = Ok (h', inr q)) <-> ~ hlabels_consistent h.
Proof. exact C09Thm.C09h_failure_iff. Qed.

Theorem C09h_failure_atomic : forall (B : Backend) (O A : Type) (eqO : O -> O -> bool) (h h' : lhg O A) (q : ff),
       lhg_quotient B eqO h = Ok (h', inr q) -> h' = h.
Proof. exact C09Thm.C09h_failure_atomic. Qed.

Theorem C09h_total : forall B : Backend,
       BackendOK B ->
       forall (O A : Type) (eqO : O -> O -> bool),
       (forall x y : O, eqO x y = true <-> x = y) ->
       forall h : lhg O A, hwf h -> exists (h' : lhg O A) (r : ff + ff), lhg_quotient B eqO h = Ok (h', r).
Proof. exact C09Thm.C09h_total. Qed.

Theorem C09_histories : forall B : Backend,
       BackendOK B ->
       forall (O A : Type) (eqO : O -> O -> bool),
       (forall x y : O, eqO x y = true <-> x = y) ->
       forall (f0 f : lohg O A) (m : nat -> nat) (R : list (nat * nat)),
       lwf f0 ->
       hist B eqO f0 f m R ->
       lwf f /\
       (forall i : nat, i < nn f0 -> m i < nn f) /\
       (forall v : nat, v < nn f -> exists i : nat, i < nn f0 /\ m i = v) /\
       (forall i j : nat, i < nn f0 -> j < nn f0 -> conn (pending f) (m i) (m j) <-> conn R i j).
Proof. exact C09Thm.C09_histories. Qed.

Theorem C09_histories_quotient : forall B : Backend,
       BackendOK B ->
       forall (O A : Type) (eqO : O -> O -> bool),
       (forall x y : O, eqO x y = true <-> x = y) ->
       forall (f0 f : lohg O A) (m : nat -> nat) (R : list (nat * nat)) (f' : lohg O A) (q : ff),
       lwf f0 ->
       hist B eqO f0 f m R ->
       lohg_quotient B eqO f = Ok (f', inl q) ->
       lwf f' /\
       pending f' = [] /\
       (forall i j : nat, i < nn f0 -> j < nn f0 -> app q (m i) = app q (m j) <-> conn R i j).
Proof. exact C09Thm.C09_histories_quotient. Qed.

(* the lax layer is hard-wired to the Vec back-end, which meets the contract and numbers components canonically *)
Example C09_nonvacuous : BackendOK VecBackend /\ cc_canonical VecBackend /\ lwf ex_chain /\ labels_consistent ex_chain /\ lwf ex_conflict /\ ~ labels_consistent ex_conflict.
Proof. exact (conj VecBackend_ok (conj vec_cc_canonical (conj ex_chain_lwf (conj ex_chain_consistent (conj ex_conflict_lwf ex_conflict_inconsistent))))). Qed.

Print Assumptions C09_success.
Print Assumptions C09_failure_iff.
Print Assumptions C09_failure_atomic.
Print Assumptions C09_total.
Print Assumptions C09_idempotent.
Print Assumptions C09_vec_numbering_canonical.
Print Assumptions C09_idempotent_any_backend.
Print Assumptions C09h_success.
Print Assumptions C09h_failure_iff.
Print Assumptions C09h_failure_atomic.
Print Assumptions C09h_total.
Print Assumptions C09_histories.
Print Assumptions C09_histories_quotient.
