(* C10 — Lax and strict representations agree and convert losslessly.
   Property theorems only: each statement is spelled out and closed by [exact] of a lemma proved in Proofs/. *)
From OHG Require Import Spec.Plain Proofs.C09Thm Proofs.C10Lemmas Proofs.C10Strict Proofs.C10Quot Proofs.C10Thm Proofs.BackendInst.

Theorem C10_round_strict : forall (O A : Type) (B : Backend),
       BackendOK B ->
       forall eqO : O -> O -> bool,
       (forall x y : O, eqO x y = true <-> x = y) ->
       forall f : ohg O A,
       cc_canonical B -> wf_ohg f -> ' l <- lohg_from_strict f;; lohg_to_strict B eqO l = Ok f.
Proof. exact C10Strict.C10_round_strict. Qed.

Theorem C10_round_lax : forall (O A : Type) (B : Backend),
       BackendOK B ->
       forall eqO : O -> O -> bool,
       (forall x y : O, eqO x y = true <-> x = y) ->
       forall g : lohg O A,
       cc_canonical B ->
       lwf g ->
       ladj_ok g -> l_q (lo_h g) = ([], []) -> ' s <- lohg_to_strict B eqO g;; lohg_from_strict s = Ok g.
Proof. exact C10Strict.C10_round_lax. Qed.

Theorem C10_from_strict_spec : forall (O A : Type) (f : ohg O A),
       wf_ohg f ->
       exists l : lohg O A,
         lohg_from_strict f = Ok l /\
         pending l = [] /\ l_q (lo_h l) = ([], []) /\ lwf l /\ ladj_ok l /\ labs l = abs f.
Proof. exact C10Strict.C10_from_strict_spec. Qed.

Theorem C10_to_strict_spec : forall (O A : Type) (B : Backend),
       BackendOK B ->
       forall eqO : O -> O -> bool,
       (forall x y : O, eqO x y = true <-> x = y) ->
       forall g : lohg O A,
       lwf g ->
       ladj_ok g ->
       labels_consistent g ->
       exists s : ohg O A,
         lohg_to_strict B eqO g = Ok s /\
         wf_ohg s /\
         (exists q : nat -> nat,
            IsQuot (labs g) q (abs s) /\
            (forall i j : nat, i < nn g -> j < nn g -> q i = q j <-> conn (pending g) i j)).
Proof. exact C10Strict.C10_to_strict_spec. Qed.

Theorem C10_to_strict_panic : forall (O A : Type) (B : Backend),
       BackendOK B ->
       forall eqO : O -> O -> bool,
       (forall x y : O, eqO x y = true <-> x = y) ->
       forall g : lohg O A, lwf g -> ladj_ok g -> ~ labels_consistent g -> lohg_to_strict B eqO g = Panic.
Proof. exact C10Strict.C10_to_strict_panic. Qed.

Theorem C10_compose_defined : forall (O A : Type) (eqO : O -> O -> bool),
       (forall x y : O, eqO x y = true <-> x = y) ->
       forall f g : lohg O A,
       lwf f ->
       lwf g ->
       exists tf sg : list O,
         lohg_target f = Ok tf /\
         lohg_source g = Ok sg /\
         (tf = sg <-> tgt_type (labs f) = src_type (labs g)) /\
         ((exists h : lohg O A, lohg_compose eqO f g = Ok (Some h)) <-> tf = sg) /\
         (tf = sg ->
          lohg_compose eqO f g = Ok (Some (lax_compose_pure f g)) /\
          lohg_lax_compose f g = Some (lax_compose_pure f g)) /\
         (tf <> sg -> lohg_compose eqO f g = Ok None) /\
         ((exists h : lohg O A, lohg_lax_compose f g = Some h) <->
          length (lo_targets f) = length (lo_sources g)).
Proof. exact C10Lemmas.C10_compose_defined. Qed.

Theorem C10_lax_compose_defined : forall (O A : Type) (f g : lohg O A),
       (exists h : lohg O A, lohg_lax_compose f g = Some h) <-> length (lo_targets f) = length (lo_sources g).
Proof. exact C10Lemmas.C10_lax_compose_defined. Qed.

Theorem C10_lax_compose_spec : forall (O A : Type) (f g h : lohg O A),
       lwf f ->
       lwf g ->
       ladj_ok f ->
       lohg_lax_compose f g = Some h ->
       labs h = pjoin (labs f) (labs g) /\
       lo_sources h = lo_sources f /\
       lo_targets h = shift (nn f) (lo_targets g) /\
       l_nodes (lo_h h) = l_nodes (lo_h f) ++ l_nodes (lo_h g) /\
       l_edges (lo_h h) = l_edges (lo_h f) ++ l_edges (lo_h g) /\
       l_adj (lo_h h) = l_adj (lo_h (lohg_tensor f g)) /\
       pending h =
       pending f ++
       map (shift_pair (nn f)) (pending g) ++ combine (lo_targets f) (shift (nn f) (lo_sources g)) /\
       lwf h /\ (ladj_ok g -> ladj_ok h).
Proof. exact C10Lemmas.C10_lax_compose_spec. Qed.

Theorem C10_compose : forall B : Backend,
       BackendOK B ->
       forall (O A : Type) (eqO : O -> O -> bool),
       (forall x y : O, eqO x y = true <-> x = y) ->
       forall f g : lohg O A,
       lwf f ->
       lwf g ->
       ladj_ok f ->
       ladj_ok g ->
       labels_consistent f ->
       labels_consistent g ->
       tgt_type (labs f) = src_type (labs g) ->
       exists (lc : lohg O A) (s sf sg sc : ohg O A),
         lohg_compose eqO f g = Ok (Some lc) /\
         lohg_lax_compose f g = Some lc /\
         lohg_to_strict B eqO lc = Ok s /\
         lohg_to_strict B eqO f = Ok sf /\
         lohg_to_strict B eqO g = Ok sg /\
         ohg_compose B eqO sf sg = Ok (Some sc) /\
         wf_ohg s /\
         wf_ohg sc /\
         (exists q : nat -> nat,
            IsQuot (pjoin (labs f) (labs g)) q (abs s) /\
            kernel_is (nn f + nn g) q
              (pending f ++ map (shift_pair (nn f)) (pending g) ++ boundary_pairs f g)) /\
         (exists q : nat -> nat,
            IsQuot (pjoin (labs f) (labs g)) q (abs sc) /\
            kernel_is (nn f + nn g) q
              (pending f ++ map (shift_pair (nn f)) (pending g) ++ boundary_pairs f g)) /\
         NIso (abs s) (abs sc) /\ Iso (abs s) (abs sc).
Proof. exact C10Thm.C10_compose. Qed.

Theorem C10_compose_mismatch : forall B : Backend,
       BackendOK B ->
       forall (O A : Type) (eqO : O -> O -> bool),
       (forall x y : O, eqO x y = true <-> x = y) ->
       forall f g : lohg O A,
       lwf f ->
       lwf g ->
       ladj_ok f ->
       ladj_ok g ->
       labels_consistent f ->
       labels_consistent g ->
       tgt_type (labs f) <> src_type (labs g) ->
       lohg_compose eqO f g = Ok None /\
       (exists sf sg : ohg O A,
          lohg_to_strict B eqO f = Ok sf /\
          lohg_to_strict B eqO g = Ok sg /\ ohg_compose B eqO sf sg = Ok None).
Proof. exact C10Thm.C10_compose_mismatch. Qed.

Theorem C10_tensor : forall B : Backend,
       BackendOK B ->
       forall (O A : Type) (eqO : O -> O -> bool),
       (forall x y : O, eqO x y = true <-> x = y) ->
       forall f g : lohg O A,
       lwf f ->
       lwf g ->
       ladj_ok f ->
       ladj_ok g ->
       labels_consistent f ->
       labels_consistent g ->
       exists s sf sg t : ohg O A,
         lohg_to_strict B eqO (lohg_tensor f g) = Ok s /\
         lohg_to_strict B eqO f = Ok sf /\
         lohg_to_strict B eqO g = Ok sg /\
         ohg_tensor sf sg = Ok t /\ wf_ohg s /\ wf_ohg t /\ NIso (abs s) (abs t) /\ Iso (abs s) (abs t).
Proof. exact C10Thm.C10_tensor. Qed.

Theorem C10_tensor_strict : forall B : Backend,
       BackendOK B ->
       forall (O A : Type) (eqO : O -> O -> bool),
       (forall x y : O, eqO x y = true <-> x = y) ->
       forall f g : lohg O A,
       cc_canonical B ->
       lwf f ->
       lwf g ->
       ladj_ok f ->
       ladj_ok g ->
       l_q (lo_h f) = ([], []) ->
       l_q (lo_h g) = ([], []) ->
       lohg_to_strict B eqO (lohg_tensor f g) =
       ' a <- lohg_to_strict B eqO f;; ' b <- lohg_to_strict B eqO g;; ohg_tensor a b /\
       lohg_to_strict B eqO (lohg_tensor f g) = Ok (strict_of (lohg_tensor f g)).
Proof. exact C10Thm.C10_tensor_strict. Qed.

Theorem C10_identity : forall B : Backend,
       BackendOK B ->
       forall (O A : Type) (eqO : O -> O -> bool),
       (forall x y : O, eqO x y = true <-> x = y) ->
       forall a : list O, cc_canonical B -> lohg_to_strict B eqO (lohg_identity A a) = ohg_identity A a.
Proof. exact C10Thm.C10_identity. Qed.

Theorem C10_twist : forall B : Backend,
       BackendOK B ->
       forall (O A : Type) (eqO : O -> O -> bool),
       (forall x y : O, eqO x y = true <-> x = y) ->
       forall a b : list O,
       cc_canonical B ->
       ' l <- lohg_twist A a b;; lohg_to_strict B eqO l = ohg_twist A a b /\
       (exists l : lohg O A,
          lohg_twist A a b = Ok l /\ pending l = [] /\ lwf l /\ labs l = abs (twist_pure A a b)).
Proof. exact C10Thm.C10_twist. Qed.

Theorem C10_spider : forall B : Backend,
       BackendOK B ->
       forall (O A : Type) (eqO : O -> O -> bool),
       (forall x y : O, eqO x y = true <-> x = y) ->
       forall (s t : ff) (w : list O),
       cc_canonical B ->
       wf_ff s ->
       wf_ff t ->
       match lohg_spider A s t w with
       | Some l =>
           ohg_spider A s t w = Some {| o_s := s; o_t := t; o_h := hg_discrete A w |} /\
           lohg_to_strict B eqO l = Ok {| o_s := s; o_t := t; o_h := hg_discrete A w |} /\
           pending l = [] /\ lwf l
       | None => ohg_spider A s t w = None
       end.
Proof. exact C10Thm.C10_spider. Qed.

Theorem C10_dagger : forall B : Backend,
       BackendOK B ->
       forall (O A : Type) (eqO : O -> O -> bool),
       (forall x y : O, eqO x y = true <-> x = y) ->
       forall f : lohg O A,
       lwf f ->
       ladj_ok f -> lohg_to_strict B eqO (lohg_dagger f) = rmap (ohg_dagger (A:=A)) (lohg_to_strict B eqO f).
Proof. exact C10Thm.C10_dagger. Qed.

Theorem C10_singleton : forall B : Backend,
       BackendOK B ->
       forall (O A : Type) (eqO : O -> O -> bool),
       (forall x y : O, eqO x y = true <-> x = y) ->
       forall (x : A) (s t : list O),
       cc_canonical B -> lohg_to_strict B eqO (lohg_singleton x s t) = ohg_singleton x s t.
Proof. exact C10Thm.C10_singleton. Qed.

Theorem C10_inplace : forall (O A : Type) (f g : lohg O A) (h1 h2 : lhg O A),
       lhg_coproduct_assign h1 h2 = lhg_coproduct h1 h2 /\
       lohg_tensor_assign f g = lohg_tensor f g /\
       lohg_append f g =
       ({| lo_sources := lo_sources f; lo_targets := lo_targets f; lo_h := lo_h (lohg_tensor f g) |},
        (shift (length (l_nodes (lo_h f))) (lo_sources g), shift (length (l_nodes (lo_h f))) (lo_targets g))).
Proof. exact C10Lemmas.C10_inplace. Qed.

Theorem C10_inplace_coproduct : forall (O A : Type) (g h : lhg O A), lhg_coproduct_assign g h = lhg_coproduct g h.
Proof. exact C10Lemmas.C10_inplace_coproduct. Qed.

Theorem C10_inplace_tensor : forall (O A : Type) (f g : lohg O A), lohg_tensor_assign f g = lohg_tensor f g.
Proof. exact C10Lemmas.C10_inplace_tensor. Qed.

Theorem C10_vec_round_strict : forall (O A : Type) (eqO : O -> O -> bool),
       (forall x y : O, eqO x y = true <-> x = y) ->
       forall f : ohg O A, wf_ohg f -> ' l <- lohg_from_strict f;; lohg_to_strict VecBackend eqO l = Ok f.
Proof. exact C10Thm.C10_vec_round_strict. Qed.

Theorem C10_vec_round_lax : forall (O A : Type) (eqO : O -> O -> bool),
       (forall x y : O, eqO x y = true <-> x = y) ->
       forall g : lohg O A,
       lwf g ->
       ladj_ok g -> pending g = [] -> ' s <- lohg_to_strict VecBackend eqO g;; lohg_from_strict s = Ok g.
Proof. exact C10Thm.C10_vec_round_lax. Qed.

Print Assumptions C10_round_strict.
Print Assumptions C10_round_lax.
Print Assumptions C10_from_strict_spec.
Print Assumptions C10_to_strict_spec.
Print Assumptions C10_to_strict_panic.
Print Assumptions C10_compose_defined.
Print Assumptions C10_lax_compose_defined.
Print Assumptions C10_lax_compose_spec.
Print Assumptions C10_compose.
Print Assumptions C10_compose_mismatch.
Print Assumptions C10_tensor.
Print Assumptions C10_tensor_strict.
Print Assumptions C10_identity.
Print Assumptions C10_twist.
Print Assumptions C10_spider.
Print Assumptions C10_dagger.
Print Assumptions C10_singleton.
Print Assumptions C10_inplace.
Print Assumptions C10_inplace_coproduct.
Print Assumptions C10_inplace_tensor.
Print Assumptions C10_vec_round_strict.
Print Assumptions C10_vec_round_lax.
