(* C11 — Imperative editing of lax diagrams refines a plain list model.
   Property theorems only: each statement is spelled out and closed by [exact] of a lemma proved in Proofs/. *)
From OHG Require Import Proofs.C11Spec Proofs.C11Thm.

Theorem C11_json_roundtrip : forall f : Lax.lohg nat nat, Dispatch.uj_lohg (Dispatch.j_lohg f) = Some f.
Proof. exact C11Thm.C11_json_roundtrip. Qed.

Theorem C11_json_fields : forall f : Lax.lohg nat nat,
       Dispatch.j_lohg f =
       Dispatch.JObj
         ((String.String (Ascii.Ascii true true false false true true true false)
             (String.String (Ascii.Ascii true true true true false true true false)
                (String.String (Ascii.Ascii true false true false true true true false)
                   (String.String (Ascii.Ascii false true false false true true true false)
                      (String.String (Ascii.Ascii true true false false false true true false)
                         (String.String (Ascii.Ascii true false true false false true true false)
                            (String.String (Ascii.Ascii true true false false true true true false)
                               String.EmptyString)))))),
           Dispatch.JArr (List.map Dispatch.JNum (Lax.lo_sources f)))
          :: (String.String (Ascii.Ascii false false true false true true true false)
                (String.String (Ascii.Ascii true false false false false true true false)
                   (String.String (Ascii.Ascii false true false false true true true false)
                      (String.String (Ascii.Ascii true true true false false true true false)
                         (String.String (Ascii.Ascii true false true false false true true false)
                            (String.String (Ascii.Ascii false false true false true true true false)
                               (String.String (Ascii.Ascii true true false false true true true false)
                                  String.EmptyString)))))),
              Dispatch.JArr (List.map Dispatch.JNum (Lax.lo_targets f)))
             :: (String.String (Ascii.Ascii false false false true false true true false)
                   (String.String (Ascii.Ascii true false false true true true true false)
                      (String.String (Ascii.Ascii false false false false true true true false)
                         (String.String (Ascii.Ascii true false true false false true true false)
                            (String.String (Ascii.Ascii false true false false true true true false)
                               (String.String (Ascii.Ascii true true true false false true true false)
                                  (String.String (Ascii.Ascii false true false false true true true false)
                                     (String.String
                                        (Ascii.Ascii true false false false false true true false)
                                        (String.String
                                           (Ascii.Ascii false false false false true true true false)
                                           (String.String
                                              (Ascii.Ascii false false false true false true true false)
                                              String.EmptyString))))))))),
                 Dispatch.JObj
                   ((String.String (Ascii.Ascii false true true true false true true false)
                       (String.String (Ascii.Ascii true true true true false true true false)
                          (String.String (Ascii.Ascii false false true false false true true false)
                             (String.String (Ascii.Ascii true false true false false true true false)
                                (String.String (Ascii.Ascii true true false false true true true false)
                                   String.EmptyString)))),
                     Dispatch.JArr (List.map Dispatch.JNum (Lax.l_nodes (Lax.lo_h f))))
                    :: (String.String (Ascii.Ascii true false true false false true true false)
                          (String.String (Ascii.Ascii false false true false false true true false)
                             (String.String (Ascii.Ascii true true true false false true true false)
                                (String.String (Ascii.Ascii true false true false false true true false)
                                   (String.String (Ascii.Ascii true true false false true true true false)
                                      String.EmptyString)))),
                        Dispatch.JArr (List.map Dispatch.JNum (Lax.l_edges (Lax.lo_h f))))
                       :: (String.String (Ascii.Ascii true false false false false true true false)
                             (String.String (Ascii.Ascii false false true false false true true false)
                                (String.String (Ascii.Ascii false true false true false true true false)
                                   (String.String (Ascii.Ascii true false false false false true true false)
                                      (String.String
                                         (Ascii.Ascii true true false false false true true false)
                                         (String.String
                                            (Ascii.Ascii true false true false false true true false)
                                            (String.String
                                               (Ascii.Ascii false true true true false true true false)
                                               (String.String
                                                  (Ascii.Ascii true true false false false true true false)
                                                  (String.String
                                                     (Ascii.Ascii true false false true true true true false)
                                                     String.EmptyString)))))))),
                           Dispatch.JArr
                             (List.map
                                (fun e : list nat * list nat =>
                                 Dispatch.JObj
                                   ((String.String (Ascii.Ascii true true false false true true true false)
                                       (String.String (Ascii.Ascii true true true true false true true false)
                                          (String.String
                                             (Ascii.Ascii true false true false true true true false)
                                             (String.String
                                                (Ascii.Ascii false true false false true true true false)
                                                (String.String
                                                   (Ascii.Ascii true true false false false true true false)
                                                   (String.String
                                                      (Ascii.Ascii true false true false false true true
                                                         false)
                                                      (String.String
                                                         (Ascii.Ascii true true false false true true true
                                                            false) String.EmptyString)))))),
                                     Dispatch.JArr (List.map Dispatch.JNum (fst e)))
                                    :: (String.String
                                          (Ascii.Ascii false false true false true true true false)
                                          (String.String
                                             (Ascii.Ascii true false false false false true true false)
                                             (String.String
                                                (Ascii.Ascii false true false false true true true false)
                                                (String.String
                                                   (Ascii.Ascii true true true false false true true false)
                                                   (String.String
                                                      (Ascii.Ascii true false true false false true true
                                                         false)
                                                      (String.String
                                                         (Ascii.Ascii false false true false true true true
                                                            false)
                                                         (String.String
                                                            (Ascii.Ascii true true false false true true true
                                                               false) String.EmptyString)))))),
                                        Dispatch.JArr (List.map Dispatch.JNum (snd e))) :: nil))
                                (Lax.l_adj (Lax.lo_h f))))
                          :: (String.String (Ascii.Ascii true false false false true true true false)
                                (String.String (Ascii.Ascii true false true false true true true false)
                                   (String.String (Ascii.Ascii true true true true false true true false)
                                      (String.String
                                         (Ascii.Ascii false false true false true true true false)
                                         (String.String
                                            (Ascii.Ascii true false false true false true true false)
                                            (String.String
                                               (Ascii.Ascii true false true false false true true false)
                                               (String.String
                                                  (Ascii.Ascii false true true true false true true false)
                                                  (String.String
                                                     (Ascii.Ascii false false true false true true true false)
                                                     String.EmptyString))))))),
                              Dispatch.JArr
                                (Dispatch.JArr (List.map Dispatch.JNum (fst (Lax.l_q (Lax.lo_h f))))
                                 :: Dispatch.JArr (List.map Dispatch.JNum (snd (Lax.l_q (Lax.lo_h f))))
                                    :: nil)) :: nil)) :: nil).
Proof. exact C11Thm.C11_json_fields. Qed.

Theorem C11_fresh_ids : forall O A : Type,
       (forall (h : Lax.lhg O A) (w : O), Lax.lhg_new_node h w = (spec_new_node h w, length (Lax.l_nodes h))) /\
       (forall (h : Lax.lhg O A) (x : A) (s t : list nat),
        Lax.lhg_new_edge h x (s, t) = (spec_new_edge h x s t, length (Lax.l_edges h))) /\
       (forall (h : Lax.lhg O A) (x : A) (st tt : list O),
        Lax.lhg_new_operation h x st tt =
        (spec_new_operation h x st tt,
         (length (Lax.l_edges h), (spec_op_sources h st, spec_op_targets h st tt)))) /\
       (forall (h : Lax.lhg O A) (v w : nat), Lax.lhg_unify h v w = spec_unify h v w).
Proof. exact C11Thm.C11_fresh_ids. Qed.

Theorem C11_ids_stay_valid : forall (O A : Type) (h : Lax.lhg O A),
       (forall w : O,
        let h' := spec_new_node h w in
        prefix (Lax.l_nodes h) (Lax.l_nodes h') /\
        Lax.l_edges h' = Lax.l_edges h /\ Lax.l_adj h' = Lax.l_adj h /\ Lax.l_q h' = Lax.l_q h) /\
       (forall (x : A) (s t : list nat),
        let h' := spec_new_edge h x s t in
        Lax.l_nodes h' = Lax.l_nodes h /\
        prefix (Lax.l_edges h) (Lax.l_edges h') /\
        prefix (Lax.l_adj h) (Lax.l_adj h') /\ Lax.l_q h' = Lax.l_q h) /\
       (forall (x : A) (st tt : list O),
        let h' := spec_new_operation h x st tt in
        prefix (Lax.l_nodes h) (Lax.l_nodes h') /\
        prefix (Lax.l_edges h) (Lax.l_edges h') /\
        prefix (Lax.l_adj h) (Lax.l_adj h') /\
        Lax.l_q h' = Lax.l_q h /\
        select (Lax.l_nodes h') (spec_op_sources h st) = st /\
        select (Lax.l_nodes h') (spec_op_targets h st tt) = tt /\
        List.nth_error (Lax.l_edges h') (length (Lax.l_edges h)) = Some x) /\
       (forall v w : nat,
        let h' := spec_unify h v w in
        Lax.l_nodes h' = Lax.l_nodes h /\
        Lax.l_edges h' = Lax.l_edges h /\
        Lax.l_adj h' = Lax.l_adj h /\
        prefix (fst (Lax.l_q h)) (fst (Lax.l_q h')) /\ prefix (snd (Lax.l_q h)) (snd (Lax.l_q h'))).
Proof. exact C11Thm.C11_ids_stay_valid. Qed.

Theorem C11_add_edge : forall (O A : Type) (h : Lax.lhg O A) (e : nat) (w : O),
       (e < length (Lax.l_adj h) ->
        Lax.lhg_add_edge_source h e w = Res.Ok (spec_add_edge_source h e w, length (Lax.l_nodes h)) /\
        Lax.lhg_add_edge_target h e w = Res.Ok (spec_add_edge_target h e w, length (Lax.l_nodes h))) /\
       (length (Lax.l_adj h) <= e ->
        Lax.lhg_add_edge_source h e w = Res.Panic /\ Lax.lhg_add_edge_target h e w = Res.Panic).
Proof. exact C11Thm.C11_add_edge. Qed.

Theorem C11_add_edge_effect : forall (O A : Type) (h : Lax.lhg O A) (e : nat) (w : O),
       e < length (Lax.l_adj h) ->
       let hs := spec_add_edge_source h e w in
       let ht := spec_add_edge_target h e w in
       let n := length (Lax.l_nodes h) in
       Lax.l_nodes hs = (Lax.l_nodes h ++ w :: nil)%list /\
       Lax.l_nodes ht = (Lax.l_nodes h ++ w :: nil)%list /\
       Lax.l_edges hs = Lax.l_edges h /\
       Lax.l_edges ht = Lax.l_edges h /\
       Lax.l_q hs = Lax.l_q h /\
       Lax.l_q ht = Lax.l_q h /\
       length (Lax.l_adj hs) = length (Lax.l_adj h) /\
       length (Lax.l_adj ht) = length (Lax.l_adj h) /\
       (forall i : nat, i <> e -> List.nth_error (Lax.l_adj hs) i = List.nth_error (Lax.l_adj h) i) /\
       (forall i : nat, i <> e -> List.nth_error (Lax.l_adj ht) i = List.nth_error (Lax.l_adj h) i) /\
       (forall s t : list nat,
        List.nth_error (Lax.l_adj h) e = Some (s, t) ->
        List.nth_error (Lax.l_adj hs) e = Some ((s ++ n :: nil)%list, t) /\
        List.nth_error (Lax.l_adj ht) e = Some (s, (t ++ n :: nil)%list)).
Proof. exact C11Thm.C11_add_edge_effect. Qed.

Theorem C11_delete_edges_refines : forall (O A : Type) (h : Lax.lhg O A) (ids : list nat),
       (length (Lax.l_edges h) = length (Lax.l_adj h) ->
        in_range (length (Lax.l_edges h)) ids ->
        Lax.lhg_delete_edges h ids = Res.Ok (spec_delete_edges_h h ids)) /\
       (Lax.lhg_delete_edges h ids = Res.Panic <->
        length (Lax.l_edges h) <> length (Lax.l_adj h) \/
        List.Exists (fun i : nat => length (Lax.l_edges h) <= i) ids) /\
       (length (Lax.l_edges h) = length (Lax.l_adj h) -> Lax.lhg_delete_edges h nil = Res.Ok h).
Proof. exact C11Thm.C11_delete_edges_refines. Qed.

Theorem C11_delete_edges_exact : forall (O A : Type) (f : Lax.lohg O A) (ids : list nat),
       lwf f ->
       in_range (n_edges f) ids ->
       let h := Lax.lo_h f in
       let h' := spec_delete_edges_h h ids in
       (forall ids' : list nat,
        same_set ids ids' ->
        spec_delete_edges_h h ids' = h' /\ Lax.lhg_delete_edges h ids' = Lax.lhg_delete_edges h ids) /\
       Lax.l_nodes h' = Lax.l_nodes h /\
       Lax.l_q h' = Lax.l_q h /\
       (forall i k : nat,
        i < n_edges f ->
        renum ids i = Some k ->
        List.nth_error (Lax.l_edges h') k = List.nth_error (Lax.l_edges h) i /\
        List.nth_error (Lax.l_adj h') k = List.nth_error (Lax.l_adj h) i) /\
       length (Lax.l_edges h') + length (List.nodup PeanoNat.Nat.eq_dec ids) = n_edges f /\
       length (Lax.l_adj h') = length (Lax.l_edges h') /\
       lwf {| Lax.lo_sources := Lax.lo_sources f; Lax.lo_targets := Lax.lo_targets f; Lax.lo_h := h' |}.
Proof. exact C11Thm.C11_delete_edges_exact. Qed.

Theorem C11_delete_nodes_refines : forall (O0 A : Type) (f : Lax.lohg O0 A) (ids : list nat),
       lwf f ->
       (in_range (n_nodes f) ids ->
        Lax.lohg_delete_nodes f ids = Res.Ok (spec_delete_nodes f ids) /\
        Lax.lhg_delete_nodes_witness (Lax.lo_h f) ids =
        Res.Ok (Lax.lo_h (spec_delete_nodes f ids), spec_witness (Lax.lo_h f) ids) /\
        Lax.lhg_delete_nodes (Lax.lo_h f) ids = Res.Ok (Lax.lo_h (spec_delete_nodes f ids))) /\
       (List.Exists (fun i : nat => n_nodes f <= i) ids ->
        Lax.lohg_delete_nodes f ids = Res.Panic /\
        Lax.lhg_delete_nodes_witness (Lax.lo_h f) ids = Res.Panic /\
        Lax.lhg_delete_nodes (Lax.lo_h f) ids = Res.Panic) /\
       Lax.lohg_delete_nodes f nil = Res.Ok f /\
       Lax.lhg_delete_nodes_witness (Lax.lo_h f) nil =
       Res.Ok (Lax.lo_h f, List.map Some (List.seq 0 (n_nodes f))).
Proof. exact C11Thm.C11_delete_nodes_refines. Qed.

Theorem C11_delete_nodes_rejects : forall (O A : Type) (f : Lax.lohg O A) (ids : list nat),
       List.Exists (fun i : nat => n_nodes f <= i) ids ->
       Lax.lohg_delete_nodes f ids = Res.Panic /\ Lax.lhg_delete_nodes (Lax.lo_h f) ids = Res.Panic.
Proof. exact C11Thm.C11_delete_nodes_rejects. Qed.

Theorem C11_delete_exact : forall (O0 A : Type) (f : Lax.lohg O0 A) (ids : list nat),
       lwf f ->
       in_range (n_nodes f) ids ->
       let f' := spec_delete_nodes f ids in
       (forall ids' : list nat,
        same_set ids ids' ->
        spec_delete_nodes f ids' = f' /\
        spec_witness (Lax.lo_h f) ids' = spec_witness (Lax.lo_h f) ids /\
        Lax.lohg_delete_nodes f ids' = Lax.lohg_delete_nodes f ids) /\
       (forall i : nat, renum ids i = None <-> List.In i ids) /\
       (forall i j a b : nat, renum ids i = Some a -> renum ids j = Some b -> i < j -> a < b) /\
       (forall k : nat, k < n_nodes f' <-> (exists i : nat, i < n_nodes f /\ renum ids i = Some k)) /\
       renum_list ids (List.seq 0 (n_nodes f)) = List.seq 0 (n_nodes f') /\
       (forall i k : nat,
        i < n_nodes f ->
        renum ids i = Some k ->
        List.nth_error (Lax.l_nodes (Lax.lo_h f')) k = List.nth_error (Lax.l_nodes (Lax.lo_h f)) i) /\
       n_nodes f' + length (List.nodup PeanoNat.Nat.eq_dec ids) = n_nodes f /\
       Lax.l_edges (Lax.lo_h f') = Lax.l_edges (Lax.lo_h f) /\
       length (Lax.l_adj (Lax.lo_h f')) = length (Lax.l_adj (Lax.lo_h f)) /\
       (forall (j : nat) (s t : list nat),
        List.nth_error (Lax.l_adj (Lax.lo_h f)) j = Some (s, t) ->
        List.nth_error (Lax.l_adj (Lax.lo_h f')) j = Some (renum_list ids s, renum_list ids t)) /\ 
       lwf f'.
Proof. exact C11Thm.C11_delete_exact. Qed.

Theorem C11_step_refines : forall (O A : Type) (f : Lax.lohg O A) (c : step O A),
       lwf f -> do_step f c = of_option (spec_step f c).
Proof. exact C11Thm.C11_step_refines. Qed.

Theorem C11_lwf_preserved : forall (O A : Type) (f f' : Lax.lohg O A) (c : step O A),
       lwf f -> step_pre f c -> do_step f c = Res.Ok f' -> lwf f'.
Proof. exact C11Thm.C11_lwf_preserved. Qed.

Theorem C11_run_lwf : forall (O A : Type) (cs : list (step O A)) (f f' : Lax.lohg O A),
       lwf f -> hist_pre f cs -> run f cs = Res.Ok f' -> lwf f'.
Proof. exact C11Thm.C11_run_lwf. Qed.

Theorem C11_run_refines : forall (O A : Type) (cs : list (step O A)) (f : Lax.lohg O A),
       lwf f -> hist_pre f cs -> run f cs = of_option (spec_run f cs).
Proof. exact C11Thm.C11_run_refines. Qed.

Theorem C11_dispatch_link : forall (f : Lax.lohg nat nat) (c : cmd),
       Res.rmap fst (Dispatch.lax_step f (enc_cmd c)) = do_step f (step_of_cmd c).
Proof. exact C11Thm.C11_dispatch_link. Qed.

Print Assumptions C11_json_roundtrip.
Print Assumptions C11_json_fields.
Print Assumptions C11_fresh_ids.
Print Assumptions C11_ids_stay_valid.
Print Assumptions C11_add_edge.
Print Assumptions C11_add_edge_effect.
Print Assumptions C11_delete_edges_refines.
Print Assumptions C11_delete_edges_exact.
Print Assumptions C11_delete_nodes_refines.
Print Assumptions C11_delete_nodes_rejects.
Print Assumptions C11_delete_exact.
Print Assumptions C11_step_refines.
Print Assumptions C11_lwf_preserved.
Print Assumptions C11_run_lwf.
Print Assumptions C11_run_refines.
Print Assumptions C11_dispatch_link.
