(* C12 — Functor application is the generator-wise substitution it is defined by (definedness, typing, substitution up to isomorphism, preservation of identities, symmetry, tensor, composition and dagger; identity functor).
   Property theorems only: each statement is spelled out and closed by [exact] of a lemma proved in Proofs/. *)
From OHG Require Import Spec.Plain Proofs.C12Lemmas Proofs.C12Plain Proofs.C12Thm Proofs.C12Struct Proofs.C12Tensor Proofs.C12Compose.

Theorem C12_defined_typed : forall B : Backend,
       BackendOK B ->
       forall (O1 A1 O2 A2 : Type) (eqO2 : O2 -> O2 -> bool),
       (forall x y : O2, eqO2 x y = true <-> x = y) ->
       forall (f : ohg O1 A1) (fw : ic (list O2)) (fx : ohg O2 A2) (d : O2),
       wf_ohg f ->
       wf_ics fw ->
       ic_len fw = length (h_w (o_h f)) ->
       wf_ohg fx ->
       src_type (abs fx) =
       map Some (map (fun j : nat => nth j (ic_values fw) d) (expand fw (table (ic_values (h_s (o_h f)))))) ->
       tgt_type (abs fx) =
       map Some (map (fun j : nat => nth j (ic_values fw) d) (expand fw (table (ic_values (h_t (o_h f)))))) ->
       exists h : ohg O2 A2,
         spider_map_arrow B eqO2 f fw fx = Ok h /\
         wf_ohg h /\
         src_type (abs h) =
         map Some (map (fun j : nat => nth j (ic_values fw) d) (expand fw (table (o_s f)))) /\
         tgt_type (abs h) =
         map Some (map (fun j : nat => nth j (ic_values fw) d) (expand fw (table (o_t f)))).
Proof. exact (@C12Thm.C12_defined_typed). Qed.

Theorem C12_defined_typed_gen : forall B : Backend,
       BackendOK B ->
       forall (O1 A1 O2 A2 : Type) (eqO2 : O2 -> O2 -> bool),
       (forall x y : O2, eqO2 x y = true <-> x = y) ->
       forall (f : ohg O1 A1) (fw : ic (list O2)) (fx : ohg O2 A2),
       wf_ohg f ->
       wf_ics fw ->
       ic_len fw = length (h_w (o_h f)) ->
       wf_ohg fx ->
       fx_typed f fw fx ->
       exists h : ohg O2 A2,
         spider_map_arrow B eqO2 f fw fx = Ok h /\
         wf_ohg h /\
         src_type (abs h) = map (nth_error (ic_values fw)) (expand fw (table (o_s f))) /\
         tgt_type (abs h) = map (nth_error (ic_values fw)) (expand fw (table (o_t f))).
Proof. exact (@C12Thm.C12_defined_typed_gen). Qed.

Theorem C12_substitution : forall B : Backend,
       BackendOK B ->
       forall (O1 A1 O2 A2 : Type) (eqO2 : O2 -> O2 -> bool),
       (forall x y : O2, eqO2 x y = true <-> x = y) ->
       forall (f : ohg O1 A1) (fw : ic (list O2)) (fx : ohg O2 A2) (d : O2) (h : ohg O2 A2),
       wf_ohg f ->
       wf_ics fw ->
       ic_len fw = length (h_w (o_h f)) ->
       wf_ohg fx ->
       src_type (abs fx) =
       map Some (map (fun j : nat => nth j (ic_values fw) d) (expand fw (table (ic_values (h_s (o_h f)))))) ->
       tgt_type (abs fx) =
       map Some (map (fun j : nat => nth j (ic_values fw) d) (expand fw (table (ic_values (h_t (o_h f)))))) ->
       spider_map_arrow B eqO2 f fw fx = Ok h -> IsSubst f fw fx (abs h).
Proof. exact (@C12Thm.C12_substitution). Qed.

Theorem C12_substitution_gen : forall B : Backend,
       BackendOK B ->
       forall (O1 A1 O2 A2 : Type) (eqO2 : O2 -> O2 -> bool),
       (forall x y : O2, eqO2 x y = true <-> x = y) ->
       forall (f : ohg O1 A1) (fw : ic (list O2)) (fx : ohg O2 A2),
       wf_ohg f ->
       wf_ics fw ->
       ic_len fw = length (h_w (o_h f)) ->
       wf_ohg fx ->
       fx_typed f fw fx ->
       exists h : ohg O2 A2, spider_map_arrow B eqO2 f fw fx = Ok h /\ wf_ohg h /\ IsSubst f fw fx (abs h).
Proof. exact (@C12Thm.C12_substitution_gen). Qed.

Theorem C12_subst_unique : forall (O1 A1 O2 A2 : Type) (f : ohg O1 A1) (fw : ic (list O2)) (fx : ohg O2 A2) (h h' : pohg O2 A2),
       wf_ics fw -> wf_ohg fx -> IsSubst f fw fx h -> IsSubst f fw fx h' -> NIso h h'.
Proof. exact (@C12Thm.C12_subst_unique). Qed.

Theorem C12_define_map_arrow : forall B : Backend,
       BackendOK B ->
       forall (O1 A1 O2 A2 : Type) (eqO2 : O2 -> O2 -> bool),
       (forall x y : O2, eqO2 x y = true <-> x = y) ->
       forall (F : sfunctor O1 A1 O2 A2) (f : ohg O1 A1) (fw : ic (list O2)) (fx : ohg O2 A2),
       wf_ohg f ->
       (forall ops : operations O1 A1, to_operations f = Ok ops -> sf_map_operations F ops = Ok fx) ->
       sf_map_object F (h_w (o_h f)) = Ok fw ->
       wf_ics fw ->
       ic_len fw = length (h_w (o_h f)) ->
       wf_ohg fx ->
       fx_typed f fw fx ->
       exists h : ohg O2 A2,
         define_map_arrow B eqO2 F f = Ok h /\
         wf_ohg h /\
         src_type (abs h) = map (nth_error (ic_values fw)) (expand fw (table (o_s f))) /\
         tgt_type (abs h) = map (nth_error (ic_values fw)) (expand fw (table (o_t f))) /\
         IsSubst f fw fx (abs h).
Proof. exact (@C12Thm.C12_define_map_arrow). Qed.

Theorem C12_identity_functor : forall B : Backend,
       BackendOK B ->
       forall (O A : Type) (eqO : O -> O -> bool),
       (forall x y : O, eqO x y = true <-> x = y) ->
       forall f : ohg O A,
       wf_ohg f ->
       exists h : ohg O A,
         define_map_arrow B eqO (identity_functor O A) f = Ok h /\
         wf_ohg h /\ src_type (abs h) = src_type (abs f) /\ tgt_type (abs h) = tgt_type (abs f).
Proof. exact (@C12Thm.C12_identity_functor). Qed.

Theorem C12_identity_functor_iso : forall B : Backend,
       BackendOK B ->
       forall (O A : Type) (eqO : O -> O -> bool),
       (forall x y : O, eqO x y = true <-> x = y) ->
       forall f : ohg O A,
       wf_ohg f ->
       exists h : ohg O A,
         define_map_arrow B eqO (identity_functor O A) f = Ok h /\ wf_ohg h /\ Iso (abs h) (abs f).
Proof. exact (@C12Thm.C12_identity_functor_iso). Qed.

Theorem C12_dyn_object : forall (O1 A1 O2 A2 : Type) (F : lfunctor O1 A1 O2 A2) (a : list O1),
       exists fw : ic (list O2),
         dyn_map_object F a = Ok fw /\
         wf_ics fw /\ decode_s fw = map (lf_map_object F) a /\ ic_len fw = length a.
Proof. exact (@C12Thm.C12_dyn_object). Qed.

Theorem C12_preserves_dagger : forall B : Backend,
       BackendOK B ->
       forall (O1 A1 O2 A2 : Type) (eqO2 : O2 -> O2 -> bool),
       (forall x y : O2, eqO2 x y = true <-> x = y) ->
       forall (F : sfunctor O1 A1 O2 A2) (f : ohg O1 A1) (ops : operations O1 A1) 
         (fw : ic (list O2)) (fx : ohg O2 A2),
       wf_ohg f ->
       to_operations f = Ok ops ->
       sf_map_operations F ops = Ok fx ->
       sf_map_object F (h_w (o_h f)) = Ok fw ->
       wf_ics fw ->
       ic_len fw = length (h_w (o_h f)) ->
       wf_ohg fx ->
       fx_typed f fw fx ->
       exists h h' : ohg O2 A2,
         define_map_arrow B eqO2 F f = Ok h /\
         define_map_arrow B eqO2 F (ohg_dagger f) = Ok h' /\
         wf_ohg h /\ wf_ohg h' /\ Iso (abs h') (abs (ohg_dagger h)).
Proof. exact (@C12Thm.C12_preserves_dagger). Qed.

Theorem C12_preserves_identity : forall B : Backend,
       BackendOK B ->
       forall (O1 A1 O2 A2 : Type) (eqO2 : O2 -> O2 -> bool),
       (forall x y : O2, eqO2 x y = true <-> x = y) ->
       forall (w : list O1) (fw : ic (list O2)) (fx : ohg O2 A2),
       wf_ics fw ->
       ic_len fw = length w ->
       wf_ohg fx ->
       h_w (o_h fx) = [] ->
       h_x (o_h fx) = [] ->
       exists (i : ohg O1 A1) (h i' : ohg O2 A2),
         ohg_identity A1 w = Ok i /\
         spider_map_arrow B eqO2 i fw fx = Ok h /\
         wf_ohg h /\ ohg_identity A2 (ic_values fw) = Ok i' /\ NIso (abs h) (abs i').
Proof. exact (@C12Struct.C12_preserves_identity). Qed.

Theorem C12_preserves_twist : forall B : Backend,
       BackendOK B ->
       forall (O1 A1 O2 A2 : Type) (eqO2 : O2 -> O2 -> bool),
       (forall x y : O2, eqO2 x y = true <-> x = y) ->
       forall (a b : list O1) (fw : ic (list O2)) (fx : ohg O2 A2),
       wf_ics fw ->
       ic_len fw = length b + length a ->
       wf_ohg fx ->
       h_w (o_h fx) = [] ->
       h_x (o_h fx) = [] ->
       let Nb := list_sum (firstn (length b) (table (ic_sources fw))) in
       let Wb := firstn Nb (ic_values fw) in
       let Wa := skipn Nb (ic_values fw) in
       exists (t : ohg O1 A1) (h t' : ohg O2 A2),
         ohg_twist A1 a b = Ok t /\
         spider_map_arrow B eqO2 t fw fx = Ok h /\
         wf_ohg h /\ ohg_twist A2 Wa Wb = Ok t' /\ NIso (abs h) (abs t').
Proof. exact (@C12Struct.C12_preserves_twist). Qed.

Theorem C12_preserves_tensor : forall B : Backend,
       BackendOK B ->
       forall (O1 A1 O2 A2 : Type) (eqO2 : O2 -> O2 -> bool),
       (forall x y : O2, eqO2 x y = true <-> x = y) ->
       forall (f g : ohg O1 A1) (fwf fwg : ic (list O2)) (fxf fxg : ohg O2 A2),
       wf_ohg f ->
       wf_ohg g ->
       wf_ics fwf ->
       ic_len fwf = length (h_w (o_h f)) ->
       wf_ohg fxf ->
       fx_typed f fwf fxf ->
       wf_ics fwg ->
       ic_len fwg = length (h_w (o_h g)) ->
       wf_ohg fxg ->
       fx_typed g fwg fxg ->
       exists hf hg h t : ohg O2 A2,
         ohg_tensor f g = Ok (tensor_pure f g) /\
         ic_coproduct (semi_vops O2) fwf fwg = Ok (Some (coprod_pure fwf fwg)) /\
         ohg_tensor fxf fxg = Ok (tensor_pure fxf fxg) /\
         spider_map_arrow B eqO2 f fwf fxf = Ok hf /\
         spider_map_arrow B eqO2 g fwg fxg = Ok hg /\
         spider_map_arrow B eqO2 (tensor_pure f g) (coprod_pure fwf fwg) (tensor_pure fxf fxg) = Ok h /\
         ohg_tensor hf hg = Ok t /\ wf_ohg h /\ wf_ohg t /\ NIso (abs h) (abs t).
Proof. exact (@C12Tensor.C12_preserves_tensor). Qed.

Theorem C12_preserves_composition : forall B : Backend,
       BackendOK B ->
       forall (O1 A1 O2 A2 : Type) (eqO1 : O1 -> O1 -> bool),
       (forall x y : O1, eqO1 x y = true <-> x = y) ->
       forall eqO2 : O2 -> O2 -> bool,
       (forall x y : O2, eqO2 x y = true <-> x = y) ->
       forall (F : O1 -> list O2) (f g : ohg O1 A1) (fwf fwg : ic (list O2)) (fxf fxg : ohg O2 A2),
       wf_ohg f ->
       wf_ohg g ->
       tgt_type (abs f) = src_type (abs g) ->
       wf_ics fwf ->
       decode_s fwf = map F (h_w (o_h f)) ->
       wf_ohg fxf ->
       fx_typed f fwf fxf ->
       wf_ics fwg ->
       decode_s fwg = map F (h_w (o_h g)) ->
       wf_ohg fxg ->
       fx_typed g fwg fxg ->
       exists fg : ohg O1 A1,
         ohg_compose B eqO1 f g = Ok (Some fg) /\
         wf_ohg fg /\
         (forall fw : ic (list O2),
          wf_ics fw ->
          decode_s fw = map F (h_w (o_h fg)) ->
          exists fx hf hg h c : ohg O2 A2,
            ohg_tensor fxf fxg = Ok fx /\
            spider_map_arrow B eqO2 f fwf fxf = Ok hf /\
            spider_map_arrow B eqO2 g fwg fxg = Ok hg /\
            spider_map_arrow B eqO2 fg fw fx = Ok h /\
            ohg_compose B eqO2 hf hg = Ok (Some c) /\ wf_ohg h /\ wf_ohg c /\ NIso (abs h) (abs c)).
Proof. exact (@C12Compose.C12_preserves_composition). Qed.

Print Assumptions C12_defined_typed.
Print Assumptions C12_defined_typed_gen.
Print Assumptions C12_substitution.
Print Assumptions C12_substitution_gen.
Print Assumptions C12_subst_unique.
Print Assumptions C12_define_map_arrow.
Print Assumptions C12_identity_functor.
Print Assumptions C12_identity_functor_iso.
Print Assumptions C12_dyn_object.
Print Assumptions C12_preserves_dagger.
Print Assumptions C12_preserves_identity.
Print Assumptions C12_preserves_twist.
Print Assumptions C12_preserves_tensor.
Print Assumptions C12_preserves_composition.
