(* C13 — Native lax functor path agrees with the strict path; witness is correct.
   Property theorems only: each statement is spelled out and closed by [exact] of a lemma proved in Proofs/. *)
From OHG Require Import Spec.Plain Proofs.C13Thm Proofs.C13bLemmas Proofs.C13bThm Proofs.C13bAny Proofs.HarnessThm.

Theorem C13_refuses : forall (O1 A1 O2 A2 : Type) (F : lfunctor O1 A1 O2 A2) (f : lohg O1 A1),
       fst (l_q (lo_h f)) <> [] -> l_try_define_map_arrow F f = Ok None /\ l_map_arrow_witness F f = Ok None.
Proof. exact (@C13Thm.C13_refuses). Qed.

Theorem C13_defined : forall (O1 A1 O2 A2 : Type) (F : lfunctor O1 A1 O2 A2) (f : lohg O1 A1),
       lwf13 f ->
       fst (l_q (lo_h f)) = [] ->
       F_typed F ->
       exists (r : lohg O2 A2) (w : icf),
         l_try_define_map_arrow F f = Ok (Some r) /\ l_map_arrow_witness F f = Ok (Some (r, w)).
Proof. exact (@C13Thm.C13_defined). Qed.

Theorem C13_value : forall (O1 A1 O2 A2 : Type) (F : lfunctor O1 A1 O2 A2) (f : lohg O1 A1),
       lwf13 f ->
       fst (l_q (lo_h f)) = [] ->
       F_typed F ->
       l_map_operations F f = Ok (map_ops_pure F f) /\
       l_try_define_map_arrow F f = Ok (Some (result_pure F f)) /\
       l_map_arrow_witness F f = Ok (Some (result_pure F f, witness_pure F f)).
Proof. exact (@C13Thm.C13_value). Qed.

Theorem C13_witness : forall (O1 A1 O2 A2 : Type) (F : lfunctor O1 A1 O2 A2) (f : lohg O1 A1),
       lwf13 f ->
       fst (l_q (lo_h f)) = [] ->
       F_typed F ->
       let fw := map (lf_map_object F) (l_nodes (lo_h f)) in
       let sizes := map (length (A:=O2)) fw in
       let fw_flat := concat fw in
       let n := list_sum sizes in
       let all_s := flat_map fst (l_adj (lo_h f)) in
       let all_t := flat_map snd (l_adj (lo_h f)) in
       let fx := map_ops_pure F f in
       let N := n + n + length (l_nodes (lo_h fx)) in
       exists (r : lohg O2 A2) (w : icf),
         l_map_operations F f = Ok fx /\
         l_try_define_map_arrow F f = Ok (Some r) /\
         l_map_arrow_witness F f = Ok (Some (r, w)) /\
         n = length fw_flat /\
         n = fold_right Nat.add 0 sizes /\
         length (lo_sources fx) = length (SegThm.inj_table sizes all_s) /\
         length (lo_targets fx) = length (SegThm.inj_table sizes all_t) /\
         w =
         {|
           ic_sources := {| table := sizes; target := n + 1 |};
           ic_values := {| table := seq n n; target := length (l_nodes (lo_h r)) |}
         |} /\
         wf_icf w /\
         decode_f w =
         map (fun i : nat => seq (n + list_sum (firstn i sizes)) (nth i sizes 0)) (seq 0 (length sizes)) /\
         target (ic_values w) = length (l_nodes (lo_h r)) /\
         l_nodes (lo_h r) = (fw_flat ++ fw_flat ++ l_nodes (lo_h fx)) ++ fw_flat /\
         length (l_nodes (lo_h r)) = N + n /\
         firstn n (skipn n (l_nodes (lo_h r))) = fw_flat /\
         l_edges (lo_h r) = l_edges (lo_h fx) /\
         l_adj (lo_h r) =
         map
           (fun e : list nat * list nat =>
            (map (fun x : nat => x + (n + n)) (fst e), map (fun x : nat => x + (n + n)) (snd e)))
           (l_adj (lo_h fx)) /\
         lo_sources r = SegThm.inj_table sizes (lo_sources f) /\
         lo_targets r = map (fun x : nat => x + N) (SegThm.inj_table sizes (lo_targets f)) /\
         fst (l_q (lo_h r)) =
         map (fun x : nat => x + (n + n)) (fst (l_q (lo_h fx))) ++
         (seq 0 n ++ SegThm.inj_table sizes all_s) ++
         map (fun x : nat => x + n) (seq 0 n ++ map (fun x : nat => x + n) (lo_targets fx)) /\
         snd (l_q (lo_h r)) =
         map (fun x : nat => x + (n + n)) (snd (l_q (lo_h fx))) ++
         map (fun x : nat => x + n) (seq 0 n ++ map (fun x : nat => x + n) (lo_sources fx)) ++
         map (fun x : nat => x + N) (seq 0 n ++ SegThm.inj_table sizes all_t) /\
         (q_balanced fx ->
          pending r =
          map (fun p : nat * nat => (fst p + (n + n), snd p + (n + n))) (pending fx) ++
          combine (seq 0 n ++ SegThm.inj_table sizes all_s)
            (map (fun x : nat => x + n) (seq 0 n ++ map (fun x : nat => x + n) (lo_sources fx))) ++
          combine (map (fun x : nat => x + n) (seq 0 n ++ map (fun x : nat => x + n) (lo_targets fx)))
            (map (fun x : nat => x + N) (seq 0 n ++ SegThm.inj_table sizes all_t))).
Proof. exact (@C13Thm.C13_witness). Qed.

Theorem C13_witness_labels : forall (O1 A1 O2 A2 : Type) (F : lfunctor O1 A1 O2 A2) (f : lohg O1 A1) (i : nat) (x : O1) (k : nat),
       nth_error (l_nodes (lo_h f)) i = Some x ->
       k < length (lf_map_object F x) ->
       let sizes := map (length (A:=O2)) (map (lf_map_object F) (l_nodes (lo_h f))) in
       nth_error (l_nodes (lo_h (result_pure F f))) (list_sum sizes + list_sum (firstn i sizes) + k) =
       nth_error (lf_map_object F x) k.
Proof. exact (@C13Thm.C13_witness_labels). Qed.

Theorem C13_pending : forall (O1 A1 O2 A2 : Type) (F : lfunctor O1 A1 O2 A2) (f : lohg O1 A1),
       lwf13 f ->
       fst (l_q (lo_h f)) = [] ->
       F_typed F ->
       F_balanced F ->
       let sizes := map (length (A:=O2)) (map (lf_map_object F) (l_nodes (lo_h f))) in
       let n := list_sum sizes in
       let all_s := flat_map fst (l_adj (lo_h f)) in
       let all_t := flat_map snd (l_adj (lo_h f)) in
       let fx := map_ops_pure F f in
       let N := n + n + length (l_nodes (lo_h fx)) in
       l_try_define_map_arrow F f = Ok (Some (result_pure F f)) /\
       pending (result_pure F f) =
       map (fun p : nat * nat => (fst p + (n + n), snd p + (n + n))) (pending fx) ++
       combine (seq 0 n ++ SegThm.inj_table sizes all_s)
         (map (fun x : nat => x + n) (seq 0 n ++ map (fun x : nat => x + n) (lo_sources fx))) ++
       combine (map (fun x : nat => x + n) (seq 0 n ++ map (fun x : nat => x + n) (lo_targets fx)))
         (map (fun x : nat => x + N) (seq 0 n ++ SegThm.inj_table sizes all_t)).
Proof. exact (@C13Thm.C13_pending). Qed.

Theorem C13_native_quotient : forall B : Backend,
       BackendOK B ->
       forall (O1 A1 O2 A2 : Type) (eqO2 : O2 -> O2 -> bool),
       (forall x y : O2, eqO2 x y = true <-> x = y) ->
       forall F : lfunctor O1 A1 O2 A2,
       F_wf F ->
       F_src_tgt F ->
       forall f : lohg O1 A1,
       C09Thm.lwf f ->
       C10Lemmas.ladj_ok f ->
       let r := result_pure F f in
       exists (r' : lohg O2 A2) (q : ff),
         lohg_quotient B eqO2 r = Ok (r', inl q) /\
         labs r = pjoin (pjoin (Psx F f) (PM F f)) (Pyt F f) /\
         pending r =
         QuotThm.shift_pairs (length (Wf F f)) (QuotThm.shift_pairs (length (Wf F f)) (pending (fxl F f))) ++
         glue_pairs (Psx F f) (PM F f) ++ glue_pairs (pjoin (Psx F f) (PM F f)) (Pyt F f) /\
         IsQuot (labs r) (C09Thm.app q) (labs r') /\
         QuotThm.KerIs (C09Thm.nn r) (C09Thm.app q) (pending r) /\ C09Thm.lwf r' /\ pending r' = [].
Proof. exact (@C13bThm.C13_native_quotient). Qed.

Theorem C13_agrees : C13_agrees_any_backend_full.
Proof. exact (@C13bAny.C13_agrees_any_backend). Qed.

Theorem C13_agrees_canonical : C13_agrees_full.
Proof. exact (@C13bThm.C13_agrees). Qed.

Theorem C13_witness_interfaces : forall B : Backend,
       BackendOK B ->
       forall (O1 A1 O2 A2 : Type) (eqO2 : O2 -> O2 -> bool),
       (forall x y : O2, eqO2 x y = true <-> x = y) ->
       forall F : lfunctor O1 A1 O2 A2,
       F_wf F ->
       F_src_tgt F ->
       forall f : lohg O1 A1,
       C09Thm.lwf f ->
       C10Lemmas.ladj_ok f ->
       pending f = [] ->
       forall (r : lohg O2 A2) (w : icf) (r' : lohg O2 A2) (q : ff),
       l_map_arrow_witness F f = Ok (Some (r, w)) ->
       lohg_quotient B eqO2 r = Ok (r', inl q) ->
       map (C09Thm.app q) (flat_map (fun i : nat => nth i (decode_f w) []) (lo_sources f)) = lo_sources r' /\
       map (C09Thm.app q) (flat_map (fun i : nat => nth i (decode_f w) []) (lo_targets f)) = lo_targets r'.
Proof. exact (@C13bThm.C13_witness_interfaces). Qed.

Theorem C13_witness_defined : forall B : Backend,
       BackendOK B ->
       forall (O1 A1 O2 A2 : Type) (eqO2 : O2 -> O2 -> bool),
       (forall x y : O2, eqO2 x y = true <-> x = y) ->
       forall F : lfunctor O1 A1 O2 A2,
       F_wf F ->
       F_src_tgt F ->
       forall f : lohg O1 A1,
       C09Thm.lwf f ->
       C10Lemmas.ladj_ok f ->
       pending f = [] ->
       exists (r : lohg O2 A2) (w : icf) (r' : lohg O2 A2) (q : ff),
         l_map_arrow_witness F f = Ok (Some (r, w)) /\
         lohg_quotient B eqO2 r = Ok (r', inl q) /\
         map (C09Thm.app q) (flat_map (fun i : nat => nth i (decode_f w) []) (lo_sources f)) = lo_sources r' /\
         map (C09Thm.app q) (flat_map (fun i : nat => nth i (decode_f w) []) (lo_targets f)) = lo_targets r'.
Proof. exact (@C13bThm.C13_witness_defined). Qed.

Theorem C13_test_functors_meet_contract : forall (F : Dispatch.ftable) (a : nat) (s t : list nat),
       let g := lf_map_operation (Dispatch.tf_functor F) a s t in
       C09Thm.lwf g /\
       C10Lemmas.ladj_ok g /\
       C09Thm.labels_consistent g /\
       lohg_source g = Ok (flat_map (lf_map_object (Dispatch.tf_functor F)) s) /\
       lohg_target g = Ok (flat_map (lf_map_object (Dispatch.tf_functor F)) t).
Proof. exact (@HarnessThm.tf_functor_contract). Qed.

Print Assumptions C13_refuses.
Print Assumptions C13_defined.
Print Assumptions C13_value.
Print Assumptions C13_witness.
Print Assumptions C13_witness_labels.
Print Assumptions C13_pending.
Print Assumptions C13_native_quotient.
Print Assumptions C13_agrees.
Print Assumptions C13_agrees_canonical.
Print Assumptions C13_witness_interfaces.
Print Assumptions C13_witness_defined.
Print Assumptions C13_test_functors_meet_contract.
