(* C14 — Optic transformation: well-typed for every diagram; structural characterisation of the optic image of an operation batch (disjoint union of the forward and reverse images glued along the residuals; monoidal on batches); every generator's reverse derivative for ALL inputs; chain rule. PARTIAL: the derivative statement for every circuit (C14Thm.C14_full clause 1-2) is not a theorem — decided on generated circuits by the correspondence check and an independent reverse-mode oracle.
   Property theorems only: each statement is spelled out and closed by [exact] of a lemma proved in Proofs/. *)
From OHG Require Import Proofs.C14Thm Proofs.C14bThm Proofs.C14cPlain Proofs.C14cBatch Proofs.C14cThm Proofs.HarnessThm Proofs.C14dFunct Proofs.C14dPres Proofs.C14fNormal Proofs.C14eInd Proofs.C14eDeriv Proofs.OracleSweep Proofs.OracleGrad.

Theorem C14_type : forall B : Prims.Backend,
       Backend.BackendOK B ->
       forall (O1 A1 O2 A2 : Type) (eqO2 : O2 -> O2 -> bool),
       (forall x y : O2, eqO2 x y = true <-> x = y) ->
       forall (P : Functor.optic O1 A1 O2 A2) (f : Hyper.ohg O1 A1) (sA sB : list O1),
       optic_contract P ->
       Plain.wf_ohg f ->
       Plain.src_type (Plain.abs f) = List.map Some sA ->
       Plain.tgt_type (Plain.abs f) = List.map Some sB ->
       exists (h : Hyper.ohg O2 A2) (oa ob : IC.ic (list O2)),
         Functor.optic_map_arrow B eqO2 P f = Res.Ok h /\
         Plain.wf_ohg h /\
         Functor.optic_map_object P sA = Res.Ok oa /\
         Functor.optic_map_object P sB = Res.Ok ob /\
         Plain.src_type (Plain.abs h) = List.map Some (IC.ic_values oa) /\
         Plain.tgt_type (Plain.abs h) = List.map Some (IC.ic_values ob).
Proof. exact (@C14bThm.C14_type). Qed.

Theorem C14_adapt_type : forall B : Prims.Backend,
       Backend.BackendOK B ->
       forall (O1 A1 O2 A2 : Type) (eqO2 : O2 -> O2 -> bool),
       (forall x y : O2, eqO2 x y = true <-> x = y) ->
       forall (P : Functor.optic O1 A1 O2 A2) (c : Hyper.ohg O2 A2) (a b : list O1) (oa ob : IC.ic (list O2)),
       optic_contract P ->
       Plain.wf_ohg c ->
       Functor.optic_map_object P a = Res.Ok oa ->
       Functor.optic_map_object P b = Res.Ok ob ->
       Plain.src_type (Plain.abs c) = List.map Some (IC.ic_values oa) ->
       Plain.tgt_type (Plain.abs c) = List.map Some (IC.ic_values ob) ->
       exists (d : Hyper.ohg O2 A2) (fa fb ra rb : IC.ic (list O2)),
         Functor.sf_map_object (Functor.op_fwd P) a = Res.Ok fa /\
         Functor.sf_map_object (Functor.op_fwd P) b = Res.Ok fb /\
         Functor.sf_map_object (Functor.op_rev P) a = Res.Ok ra /\
         Functor.sf_map_object (Functor.op_rev P) b = Res.Ok rb /\
         Functor.optic_adapt B eqO2 P c a b = Res.Ok d /\
         Plain.wf_ohg d /\
         Plain.src_type (Plain.abs d) = List.map Some (IC.ic_values fa ++ IC.ic_values rb) /\
         Plain.tgt_type (Plain.abs d) = List.map Some (IC.ic_values fb ++ IC.ic_values ra).
Proof. exact (@C14bThm.C14_adapt_type). Qed.

Theorem C14_adapted_type : forall B : Prims.Backend,
       Backend.BackendOK B ->
       forall (O1 A1 O2 A2 : Type) (eqO2 : O2 -> O2 -> bool),
       (forall x y : O2, eqO2 x y = true <-> x = y) ->
       forall (P : Functor.optic O1 A1 O2 A2) (f : Hyper.ohg O1 A1) (sA sB : list O1),
       optic_contract P ->
       Plain.wf_ohg f ->
       Plain.src_type (Plain.abs f) = List.map Some sA ->
       Plain.tgt_type (Plain.abs f) = List.map Some sB ->
       exists (h d : Hyper.ohg O2 A2) (fa fb ra rb : IC.ic (list O2)),
         Functor.optic_map_arrow B eqO2 P f = Res.Ok h /\
         Functor.optic_adapt B eqO2 P h sA sB = Res.Ok d /\
         Functor.sf_map_object (Functor.op_fwd P) sA = Res.Ok fa /\
         Functor.sf_map_object (Functor.op_fwd P) sB = Res.Ok fb /\
         Functor.sf_map_object (Functor.op_rev P) sA = Res.Ok ra /\
         Functor.sf_map_object (Functor.op_rev P) sB = Res.Ok rb /\
         Plain.wf_ohg h /\
         Plain.wf_ohg d /\
         Plain.src_type (Plain.abs d) = List.map Some (IC.ic_values fa ++ IC.ic_values rb) /\
         Plain.tgt_type (Plain.abs d) = List.map Some (IC.ic_values fb ++ IC.ic_values ra).
Proof. exact (@C14bThm.C14_adapted_type). Qed.

Theorem C14_map_operations_defined_typed : forall B : Prims.Backend,
       Backend.BackendOK B ->
       forall (O1 A1 O2 A2 : Type) (eqO2 : O2 -> O2 -> bool),
       (forall x y : O2, eqO2 x y = true <-> x = y) ->
       forall (P : Functor.optic O1 A1 O2 A2) (ops : IC.operations O1 A1),
       optic_contract P ->
       wf_ops ops ->
       exists (c : Hyper.ohg O2 A2) (oa ob : IC.ic (list O2)),
         Functor.optic_map_operations B eqO2 P ops = Res.Ok c /\
         Plain.wf_ohg c /\
         Functor.optic_map_object P (IC.ic_values (IC.ops_a ops)) = Res.Ok oa /\
         Functor.optic_map_object P (IC.ic_values (IC.ops_b ops)) = Res.Ok ob /\
         Plain.src_type (Plain.abs c) = List.map Some (IC.ic_values oa) /\
         Plain.tgt_type (Plain.abs c) = List.map Some (IC.ic_values ob).
Proof. exact (@C14bThm.C14_map_operations_defined_typed). Qed.

Theorem C14_contract_satisfiable : forall (O1 A O2 : Type) (F R : O1 -> list O2) (M : A -> list O2), optic_contract (free_optic F R M).
Proof. exact (@C14bThm.free_optic_has_contract). Qed.

Theorem C14_batch_structure : forall B : Prims.Backend,
       Backend.BackendOK B ->
       forall (O1 A1 O2 A2 : Type) (eqO2 : O2 -> O2 -> bool),
       (forall x y : O2, eqO2 x y = true <-> x = y) ->
       forall (P : Functor.optic O1 A1 O2 A2) (Fobj Robj : O1 -> list O2),
       optic_contract_for P Fobj Robj ->
       forall (ops : IC.operations O1 A1) (c fwd rev : Hyper.ohg O2 A2) (m : IC.ic (list O2)),
       wf_ops ops ->
       Functor.optic_map_operations B eqO2 P ops = Res.Ok c ->
       Functor.sf_map_operations (Functor.op_fwd P) ops = Res.Ok fwd ->
       Functor.sf_map_operations (Functor.op_rev P) ops = Res.Ok rev ->
       Functor.op_residual P ops = Res.Ok m ->
       IsBatch (Plain.abs fwd) (Plain.abs rev) (batch_data Fobj Robj ops m) (Plain.abs c) /\
       Plain.Iso (Plain.abs c) (expected_batch (Plain.abs fwd) (Plain.abs rev) (batch_data Fobj Robj ops m)).
Proof. exact (@C14cThm.C14_batch_structure). Qed.

Theorem C14_batch_unique : forall B : Prims.Backend,
       Backend.BackendOK B ->
       forall (O1 A1 O2 A2 : Type) (eqO2 : O2 -> O2 -> bool),
       (forall x y : O2, eqO2 x y = true <-> x = y) ->
       forall (P : Functor.optic O1 A1 O2 A2) (Fobj Robj : O1 -> list O2),
       optic_contract_for P Fobj Robj ->
       forall (ops : IC.operations O1 A1) (c fwd rev : Hyper.ohg O2 A2) (m : IC.ic (list O2))
         (h : Plain.pohg O2 A2),
       wf_ops ops ->
       Functor.optic_map_operations B eqO2 P ops = Res.Ok c ->
       Functor.sf_map_operations (Functor.op_fwd P) ops = Res.Ok fwd ->
       Functor.sf_map_operations (Functor.op_rev P) ops = Res.Ok rev ->
       Functor.op_residual P ops = Res.Ok m ->
       IsBatch (Plain.abs fwd) (Plain.abs rev) (batch_data Fobj Robj ops m) h -> Plain.Iso (Plain.abs c) h.
Proof. exact (@C14cThm.C14_batch_unique). Qed.

Theorem C14_generator_structure : forall B : Prims.Backend,
       Backend.BackendOK B ->
       forall (O1 A1 O2 A2 : Type) (eqO2 : O2 -> O2 -> bool),
       (forall x y : O2, eqO2 x y = true <-> x = y) ->
       forall (P : Functor.optic O1 A1 O2 A2) (Fobj Robj : O1 -> list O2),
       optic_contract_for P Fobj Robj ->
       forall (ops : IC.operations O1 A1) (c fwd rev : Hyper.ohg O2 A2) (m : IC.ic (list O2)),
       wf_ops ops ->
       length (IC.ops_x ops) = 1 ->
       Functor.optic_map_operations B eqO2 P ops = Res.Ok c ->
       Functor.sf_map_operations (Functor.op_fwd P) ops = Res.Ok fwd ->
       Functor.sf_map_operations (Functor.op_rev P) ops = Res.Ok rev ->
       Functor.op_residual P ops = Res.Ok m ->
       let nf := length (Plain.p_nodes (Plain.abs fwd)) in
       let a := IC.ic_values (IC.ops_a ops) in
       let b := IC.ic_values (IC.ops_b ops) in
       let nFb := length (List.flat_map Fobj b) in
       let nM := length (IC.ic_values m) in
       Glued
         (batch_union (Plain.abs fwd) (Plain.abs rev)
            (List.concat
               (zip_app
                  (Plain.segs (List.map (fun o : O1 => length (Fobj o)) a) (Plain.p_ins (Plain.abs fwd)))
                  (Plain.segs (List.map (fun o : O1 => length (Robj o)) a)
                     (Plain.shiftl nf (Plain.p_outs (Plain.abs rev))))))
            (List.concat
               (zip_app
                  (Plain.segs (List.map (fun o : O1 => length (Fobj o)) b)
                     (List.firstn nFb (Plain.p_outs (Plain.abs fwd))))
                  (Plain.segs (List.map (fun o : O1 => length (Robj o)) b)
                     (Plain.shiftl nf (List.skipn nM (Plain.p_ins (Plain.abs rev))))))))
         (List.combine (List.skipn nFb (Plain.p_outs (Plain.abs fwd)))
            (Plain.shiftl nf (List.firstn nM (Plain.p_ins (Plain.abs rev))))) (Plain.abs c).
Proof. exact (@C14cThm.C14_generator_structure). Qed.

Theorem C14_batch_monoidal : forall B : Prims.Backend,
       Backend.BackendOK B ->
       forall (O1 A1 O2 A2 : Type) (eqO2 : O2 -> O2 -> bool),
       (forall x y : O2, eqO2 x y = true <-> x = y) ->
       forall (P : Functor.optic O1 A1 O2 A2) (Fobj Robj : O1 -> list O2),
       optic_contract_for P Fobj Robj ->
       forall (p q : IC.operations O1 A1) (c1 fwd1 rev1 c2 fwd2 rev2 c fwd rev : Hyper.ohg O2 A2)
         (m1 m2 m : IC.ic (list O2)),
       wf_ops p ->
       wf_ops q ->
       Functor.optic_map_operations B eqO2 P p = Res.Ok c1 ->
       Functor.sf_map_operations (Functor.op_fwd P) p = Res.Ok fwd1 ->
       Functor.sf_map_operations (Functor.op_rev P) p = Res.Ok rev1 ->
       Functor.op_residual P p = Res.Ok m1 ->
       Functor.optic_map_operations B eqO2 P q = Res.Ok c2 ->
       Functor.sf_map_operations (Functor.op_fwd P) q = Res.Ok fwd2 ->
       Functor.sf_map_operations (Functor.op_rev P) q = Res.Ok rev2 ->
       Functor.op_residual P q = Res.Ok m2 ->
       Functor.optic_map_operations B eqO2 P (ops_app p q) = Res.Ok c ->
       Functor.sf_map_operations (Functor.op_fwd P) (ops_app p q) = Res.Ok fwd ->
       Functor.sf_map_operations (Functor.op_rev P) (ops_app p q) = Res.Ok rev ->
       Functor.op_residual P (ops_app p q) = Res.Ok m ->
       FinFun.table (IC.ic_sources m) = FinFun.table (IC.ic_sources m1) ++ FinFun.table (IC.ic_sources m2) ->
       Plain.Iso (Plain.abs fwd) (Plain.ptensor (Plain.abs fwd1) (Plain.abs fwd2)) ->
       Plain.Iso (Plain.abs rev) (Plain.ptensor (Plain.abs rev1) (Plain.abs rev2)) ->
       Plain.Iso (Plain.abs c) (Plain.ptensor (Plain.abs c1) (Plain.abs c2)).
Proof. exact (@C14cThm.C14_batch_monoidal). Qed.

Theorem C14_map_object : forall (O1 A1 O2 A2 : Type) (P : Functor.optic O1 A1 O2 A2) (a : list O1) 
         (fa ra : IC.ic (list O2)) (n : nat),
       Functor.sf_map_object (Functor.op_fwd P) a = Res.Ok fa ->
       Functor.sf_map_object (Functor.op_rev P) a = Res.Ok ra ->
       Plain.wf_ics fa ->
       Plain.wf_ics ra ->
       IC.ic_len fa = n ->
       IC.ic_len ra = n ->
       exists c : IC.ic (list O2),
         Functor.optic_map_object P a = Res.Ok c /\
         c = optic_object fa ra /\
         Plain.wf_ics c /\
         IC.ic_len c = n /\
         Plain.decode_s c =
         List.map (fun p : list O2 * list O2 => fst p ++ snd p)
           (List.combine (Plain.decode_s fa) (Plain.decode_s ra)).
Proof. exact (@C14Thm.C14_map_object). Qed.

Theorem C14_interleave : forall (O2 A2 : Type) (a b : IC.ic (list O2)),
       Plain.wf_ics a ->
       Plain.wf_ics b ->
       IC.ic_len a = IC.ic_len b ->
       let total := length (IC.ic_values a) + length (IC.ic_values b) in
       exists h : Hyper.ohg O2 A2,
         Functor.interleave_blocks A2 a b = Res.Ok h /\
         Plain.wf_ohg h /\
         Hyper.o_h h = Hyper.hg_discrete A2 (IC.ic_values a ++ IC.ic_values b) /\
         Hyper.h_x (Hyper.o_h h) = nil /\
         Plain.decode_f (Hyper.h_s (Hyper.o_h h)) = nil /\
         Plain.decode_f (Hyper.h_t (Hyper.o_h h)) = nil /\
         Hyper.o_s h = C06Thm.idf total /\
         FinFun.target (Hyper.o_t h) = total /\
         length (FinFun.table (Hyper.o_t h)) = total /\
         List.NoDup (FinFun.table (Hyper.o_t h)) /\
         Permutation.Permutation (FinFun.table (Hyper.o_t h)) (List.seq 0 total) /\
         FinFun.table (Hyper.o_t h) =
         List.concat
           (zip_app (Plain.segs (FinFun.table (IC.ic_sources a)) (List.seq 0 (length (IC.ic_values a))))
              (Plain.segs (FinFun.table (IC.ic_sources b))
                 (List.seq (length (IC.ic_values a)) (length (IC.ic_values b))))) /\
         Plain.src_type (Plain.abs h) = List.map Some (IC.ic_values a ++ IC.ic_values b) /\
         Plain.tgt_type (Plain.abs h) =
         List.map Some (List.concat (zip_app (Plain.decode_s a) (Plain.decode_s b))).
Proof. exact (@C14Thm.C14_interleave). Qed.

Theorem C14_interleave_panic_iff : forall (O2 A2 : Type) (a b : IC.ic (list O2)),
       Plain.wf_ics a ->
       Plain.wf_ics b -> Functor.interleave_blocks A2 a b = Res.Panic <-> IC.ic_len a <> IC.ic_len b.
Proof. exact (@C14Thm.C14_interleave_panic_iff). Qed.

Theorem C14_partial_dagger_type : forall (O2 A2 : Type) (c : Hyper.ohg O2 A2) (fa fb ra rb : IC.ic (list O2)),
       Plain.wf_ohg c ->
       FinFun.ff_source (Hyper.o_s c) = length (IC.ic_values fa) + length (IC.ic_values rb) ->
       FinFun.ff_source (Hyper.o_t c) = length (IC.ic_values fb) + length (IC.ic_values ra) ->
       let nfa := length (IC.ic_values fa) in
       let nfb := length (IC.ic_values fb) in
       exists d : Hyper.ohg O2 A2,
         Functor.partial_dagger c fa fb ra rb = Res.Ok d /\
         d = partial_dagger_value c nfa nfb /\
         Plain.wf_ohg d /\
         Hyper.o_h d = Hyper.o_h c /\
         FinFun.table (Hyper.o_s d) =
         List.firstn nfa (FinFun.table (Hyper.o_s c)) ++ List.skipn nfb (FinFun.table (Hyper.o_t c)) /\
         FinFun.table (Hyper.o_t d) =
         List.firstn nfb (FinFun.table (Hyper.o_t c)) ++ List.skipn nfa (FinFun.table (Hyper.o_s c)) /\
         FinFun.ff_source (Hyper.o_s d) = nfa + length (IC.ic_values ra) /\
         FinFun.ff_source (Hyper.o_t d) = nfb + length (IC.ic_values rb) /\
         Plain.src_type (Plain.abs d) =
         List.firstn nfa (Plain.src_type (Plain.abs c)) ++ List.skipn nfb (Plain.tgt_type (Plain.abs c)) /\
         Plain.tgt_type (Plain.abs d) =
         List.firstn nfb (Plain.tgt_type (Plain.abs c)) ++ List.skipn nfa (Plain.src_type (Plain.abs c)).
Proof. exact (@C14Thm.C14_partial_dagger_type). Qed.

Theorem C14_generator_adapted_value : (poly_adapted T_add = Res.Ok D_add /\ good_circuit D_add) /\
       (poly_adapted T_mul = Res.Ok D_mul /\ good_circuit D_mul) /\
       (poly_adapted T_neg = Res.Ok D_neg /\ good_circuit D_neg) /\
       (poly_adapted T_copy = Res.Ok D_copy /\ good_circuit D_copy) /\
       (poly_adapted T_discard = Res.Ok D_discard /\ good_circuit D_discard) /\
       (forall c : nat, poly_adapted (T_const c) = Res.Ok (D_const c) /\ good_circuit (D_const c)).
Proof. exact (@C14Thm.C14_generator_adapted_value). Qed.

Theorem C14_generator_types : (has_type (poly_image T_add) (2 + 2) (1 + 1) /\ has_type (poly_adapted T_add) (2 + 1) (1 + 2)) /\
       (has_type (poly_image T_mul) (2 + 2) (1 + 1) /\ has_type (poly_adapted T_mul) (2 + 1) (1 + 2)) /\
       (has_type (poly_image T_neg) (1 + 1) (1 + 1) /\ has_type (poly_adapted T_neg) (1 + 1) (1 + 1)) /\
       (has_type (poly_image T_copy) (1 + 1) (2 + 2) /\ has_type (poly_adapted T_copy) (1 + 2) (2 + 1)) /\
       (has_type (poly_image T_discard) (1 + 1) (0 + 0) /\ has_type (poly_adapted T_discard) (1 + 0) (0 + 1)) /\
       (forall c : nat,
        has_type (poly_image (T_const c)) (0 + 0) (1 + 1) /\
        has_type (poly_adapted (T_const c)) (0 + 1) (1 + 0)).
Proof. exact (@C14Thm.C14_generator_types). Qed.

Theorem C14_generator_derivative_add : forall x y dz : BinNums.Z,
       C14Thm.in64 x ->
       C14Thm.in64 y ->
       C14Thm.in64 dz ->
       poly_run D_add (x :: y :: dz :: nil) =
       Res.Ok (Some (BinInt.Z.modulo (BinInt.Z.add x y) Dispatch.two64 :: dz :: dz :: nil)).
Proof. exact (@C14Thm.C14_generator_derivative_add). Qed.

Theorem C14_generator_derivative_mul : forall x y dz : BinNums.Z,
       C14Thm.in64 x ->
       C14Thm.in64 y ->
       C14Thm.in64 dz ->
       poly_run D_mul (x :: y :: dz :: nil) =
       Res.Ok
         (Some
            (BinInt.Z.modulo (BinInt.Z.mul x y) Dispatch.two64
             :: BinInt.Z.modulo (BinInt.Z.mul y dz) Dispatch.two64
                :: BinInt.Z.modulo (BinInt.Z.mul x dz) Dispatch.two64 :: nil)).
Proof. exact (@C14Thm.C14_generator_derivative_mul). Qed.

Theorem C14_generator_derivative_neg : forall x dz : BinNums.Z,
       C14Thm.in64 x ->
       C14Thm.in64 dz ->
       poly_run D_neg (x :: dz :: nil) =
       Res.Ok
         (Some
            (BinInt.Z.modulo (BinInt.Z.opp x) Dispatch.two64
             :: BinInt.Z.modulo (BinInt.Z.opp dz) Dispatch.two64 :: nil)).
Proof. exact (@C14Thm.C14_generator_derivative_neg). Qed.

Theorem C14_generator_derivative_copy : forall x da db : BinNums.Z,
       C14Thm.in64 x ->
       C14Thm.in64 da ->
       C14Thm.in64 db ->
       poly_run D_copy (x :: da :: db :: nil) =
       Res.Ok (Some (x :: x :: BinInt.Z.modulo (BinInt.Z.add da db) Dispatch.two64 :: nil)).
Proof. exact (@C14Thm.C14_generator_derivative_copy). Qed.

Theorem C14_generator_derivative_discard : forall x : BinNums.Z,
       C14Thm.in64 x -> poly_run D_discard (x :: nil) = Res.Ok (Some (BinNums.Z0 :: nil)).
Proof. exact (@C14Thm.C14_generator_derivative_discard). Qed.

Theorem C14_generator_derivative_const : forall (c : nat) (dz : BinNums.Z),
       C14Thm.in64 dz ->
       poly_run (D_const c) (dz :: nil) =
       Res.Ok (Some (BinInt.Z.modulo (BinInt.Z.of_nat c) Dispatch.two64 :: nil)).
Proof. exact (@C14Thm.C14_generator_derivative_const). Qed.

Theorem C14_generator_derivative : (forall x y dz : BinNums.Z,
        poly_run D_add ((x :: y :: nil) ++ dz :: nil) =
        Res.Ok
          (Some
             (List.map Dispatch.wrap
                ((BinInt.Z.add x y :: nil) ++
                 tmulv 2 ((BinNums.Zpos BinNums.xH :: BinNums.Zpos BinNums.xH :: nil) :: nil) (dz :: nil))))) /\
       (forall x y dz : BinNums.Z,
        poly_run D_mul ((x :: y :: nil) ++ dz :: nil) =
        Res.Ok
          (Some
             (List.map Dispatch.wrap
                ((BinInt.Z.mul x y :: nil) ++ tmulv 2 ((y :: x :: nil) :: nil) (dz :: nil))))) /\
       (forall x dz : BinNums.Z,
        poly_run D_neg ((x :: nil) ++ dz :: nil) =
        Res.Ok
          (Some
             (List.map Dispatch.wrap
                ((BinInt.Z.opp x :: nil) ++ tmulv 1 ((BinNums.Zneg BinNums.xH :: nil) :: nil) (dz :: nil))))) /\
       (forall x da db : BinNums.Z,
        poly_run D_copy ((x :: nil) ++ da :: db :: nil) =
        Res.Ok
          (Some
             (List.map Dispatch.wrap
                ((x :: x :: nil) ++
                 tmulv 1 ((BinNums.Zpos BinNums.xH :: nil) :: (BinNums.Zpos BinNums.xH :: nil) :: nil)
                   (da :: db :: nil))))) /\
       (forall x : BinNums.Z,
        poly_run D_discard ((x :: nil) ++ nil) =
        Res.Ok (Some (List.map Dispatch.wrap (nil ++ tmulv 1 nil nil)))) /\
       (forall (c : nat) (dz : BinNums.Z),
        poly_run (D_const c) (nil ++ dz :: nil) =
        Res.Ok
          (Some (List.map Dispatch.wrap ((BinInt.Z.of_nat c :: nil) ++ tmulv 0 (nil :: nil) (dz :: nil))))).
Proof. exact (@C14Thm.C14_generator_derivative). Qed.

Theorem C14_partial_generators : forall (g n m : nat) (s : Hyper.ohg nat nat),
       C14Thm.poly_arity g = Some (n, m) ->
       Hyper.ohg_singleton g (List.repeat 0 n) (List.repeat 0 m) = Res.Ok s ->
       derivative_statement s n m (gen_sem g) (gen_jac g).
Proof. exact (@C14Thm.C14_full_generators). Qed.

Theorem C14_lens_chain_rule_seq : forall (M N : Type) (n m p : nat) (L1 : lens M) (L2 : lens N) (f g : list BinNums.Z -> list BinNums.Z)
         (J1 J2 : list BinNums.Z -> list (list BinNums.Z)),
       rd_lens n m L1 f J1 ->
       rd_lens m p L2 g J2 ->
       rd_lens n p (lens_seq L1 L2) (fun x : list BinNums.Z => g (f x))
         (fun x : list BinNums.Z => mmul n (J2 (f x)) (J1 x)).
Proof. exact (@C14Thm.C14_lens_chain_rule_seq). Qed.

Theorem C14_lens_chain_rule_par : forall (M N : Type) (n1 m1 n2 m2 : nat) (L1 : lens M) (L2 : lens N)
         (f1 f2 : list BinNums.Z -> list BinNums.Z) (J1 J2 : list BinNums.Z -> list (list BinNums.Z)),
       rd_lens n1 m1 L1 f1 J1 ->
       rd_lens n2 m2 L2 f2 J2 ->
       rd_lens (n1 + n2) (m1 + m2) (lens_par n1 m1 L1 L2)
         (fun x : list BinNums.Z => f1 (List.firstn n1 x) ++ f2 (List.skipn n1 x))
         (fun x : list BinNums.Z => blockdiag n1 n2 (J1 (List.firstn n1 x)) (J2 (List.skipn n1 x))).
Proof. exact (@C14Thm.C14_lens_chain_rule_par). Qed.

Theorem C14_composite_square : forall x dz : BinNums.Z,
       exists D : Lax.lohg nat nat,
         poly_adapted T_square = Res.Ok D /\
         good_circuit D /\
         poly_run D ((x :: nil) ++ dz :: nil) =
         Res.Ok
           (Some
              (List.map Dispatch.wrap
                 ((BinInt.Z.mul x x :: nil) ++
                  tmulv 1 ((BinInt.Z.mul (BinNums.Zpos (BinNums.xO BinNums.xH)) x :: nil) :: nil) (dz :: nil)))).
Proof. exact (@C14Thm.C14_composite_square). Qed.

Theorem C14_composite_poly : forall x y dz : BinNums.Z,
       exists D : Lax.lohg nat nat,
         poly_adapted T_poly = Res.Ok D /\
         good_circuit D /\
         poly_run D ((x :: y :: nil) ++ dz :: nil) =
         Res.Ok
           (Some
              (List.map Dispatch.wrap
                 ((BinInt.Z.mul (BinInt.Z.add x y) y :: nil) ++
                  tmulv 2
                    ((y :: BinInt.Z.add x (BinInt.Z.mul (BinNums.Zpos (BinNums.xO BinNums.xH)) y) :: nil)
                     :: nil) (dz :: nil)))).
Proof. exact (@C14Thm.C14_composite_poly). Qed.

Theorem C14_poly_components_meet_contract : forall a : nat, optic_image_ok Dispatch.poly_optic a (poly_src a) (poly_tgt a).
Proof. exact (@HarnessThm.poly_optic_contract). Qed.

Theorem C14_poly_images_monogamous_acyclic : forall a : nat,
       good_circuit (Dispatch.poly_fwd a (poly_src a) (poly_tgt a)) /\
       good_circuit (Dispatch.poly_rev a (poly_src a) (poly_tgt a)).
Proof. exact (@HarnessThm.poly_images_good). Qed.

Theorem C14_optic_preserves_composition : forall f g h : Hyper.ohg nat nat,
       poly_circuit f ->
       poly_circuit g ->
       Hyper.ohg_compose Prims.VecBackend PeanoNat.Nat.eqb f g = Res.Ok (Some h) ->
       exists F G H FG : Hyper.ohg nat nat,
         Functor.optic_map_arrow Prims.VecBackend PeanoNat.Nat.eqb poly_strict_optic f = Res.Ok F /\
         Functor.optic_map_arrow Prims.VecBackend PeanoNat.Nat.eqb poly_strict_optic g = Res.Ok G /\
         Functor.optic_map_arrow Prims.VecBackend PeanoNat.Nat.eqb poly_strict_optic h = Res.Ok H /\
         Hyper.ohg_compose Prims.VecBackend PeanoNat.Nat.eqb F G = Res.Ok (Some FG) /\
         Plain.Iso (Plain.abs H) (Plain.abs FG).
Proof. exact (@C14dPres.C14_optic_preserves_composition). Qed.

Theorem C14_optic_preserves_tensor : forall f g h : Hyper.ohg nat nat,
       poly_circuit f ->
       poly_circuit g ->
       Hyper.ohg_tensor f g = Res.Ok h ->
       exists F G H FG : Hyper.ohg nat nat,
         Functor.optic_map_arrow Prims.VecBackend PeanoNat.Nat.eqb poly_strict_optic f = Res.Ok F /\
         Functor.optic_map_arrow Prims.VecBackend PeanoNat.Nat.eqb poly_strict_optic g = Res.Ok G /\
         Functor.optic_map_arrow Prims.VecBackend PeanoNat.Nat.eqb poly_strict_optic h = Res.Ok H /\
         Hyper.ohg_tensor F G = Res.Ok FG /\ Plain.Iso (Plain.abs H) (Plain.abs FG).
Proof. exact (@C14dPres.C14_optic_preserves_tensor). Qed.

Theorem C14_optic_respects_iso : forall s s' : Hyper.ohg nat nat,
       poly_circuit s ->
       Plain.wf_ohg s' ->
       Plain.Iso (Plain.abs s) (Plain.abs s') ->
       exists F F' : Hyper.ohg nat nat,
         Functor.optic_map_arrow Prims.VecBackend PeanoNat.Nat.eqb poly_strict_optic s = Res.Ok F /\
         Functor.optic_map_arrow Prims.VecBackend PeanoNat.Nat.eqb poly_strict_optic s' = Res.Ok F' /\
         Plain.Iso (Plain.abs F) (Plain.abs F').
Proof. exact (@C14dPres.C14_optic_respects_iso). Qed.

Theorem C14_general_preserves_composition : forall B : Prims.Backend,
       Backend.BackendOK B ->
       forall (O1 A1 O2 A2 : Type) (eqO1 : O1 -> O1 -> bool),
       (forall x y : O1, eqO1 x y = true <-> x = y) ->
       forall eqO2 : O2 -> O2 -> bool,
       (forall x y : O2, eqO2 x y = true <-> x = y) ->
       forall (P : Functor.optic O1 A1 O2 A2) (Fobj Robj : O1 -> list O2)
         (fimg rimg : A1 * (list O1 * list O1) -> Plain.pohg O2 A2)
         (Mres : A1 * (list O1 * list O1) -> list O2),
       C14dDefs.pw_contract P Fobj Robj (fun _ : A1 * (list O1 * list O1) => True) fimg rimg Mres ->
       forall f g h : Hyper.ohg O1 A1,
       Plain.wf_ohg f ->
       Plain.wf_ohg g ->
       Hyper.ohg_compose B eqO1 f g = Res.Ok (Some h) ->
       exists F G H FG : Hyper.ohg O2 A2,
         Functor.optic_map_arrow B eqO2 P f = Res.Ok F /\
         Functor.optic_map_arrow B eqO2 P g = Res.Ok G /\
         Functor.optic_map_arrow B eqO2 P h = Res.Ok H /\
         Hyper.ohg_compose B eqO2 F G = Res.Ok (Some FG) /\ Plain.Iso (Plain.abs H) (Plain.abs FG).
Proof. exact (@C14_general_preserves_composition). Qed.

Theorem C14_general_preserves_tensor : forall B : Prims.Backend,
       Backend.BackendOK B ->
       forall (O1 A1 O2 A2 : Type) (eqO2 : O2 -> O2 -> bool),
       (forall x y : O2, eqO2 x y = true <-> x = y) ->
       forall (P : Functor.optic O1 A1 O2 A2) (Fobj Robj : O1 -> list O2)
         (fimg rimg : A1 * (list O1 * list O1) -> Plain.pohg O2 A2)
         (Mres : A1 * (list O1 * list O1) -> list O2),
       C14dDefs.pw_contract P Fobj Robj (fun _ : A1 * (list O1 * list O1) => True) fimg rimg Mres ->
       forall f g h : Hyper.ohg O1 A1,
       Plain.wf_ohg f ->
       Plain.wf_ohg g ->
       Hyper.ohg_tensor f g = Res.Ok h ->
       exists F G H FG : Hyper.ohg O2 A2,
         Functor.optic_map_arrow B eqO2 P f = Res.Ok F /\
         Functor.optic_map_arrow B eqO2 P g = Res.Ok G /\
         Functor.optic_map_arrow B eqO2 P h = Res.Ok H /\
         Hyper.ohg_tensor F G = Res.Ok FG /\ Plain.Iso (Plain.abs H) (Plain.abs FG).
Proof. exact (@C14_general_preserves_tensor). Qed.

Theorem C14_general_respects_iso : forall B : Prims.Backend,
       Backend.BackendOK B ->
       forall (O1 A1 O2 A2 : Type) (eqO2 : O2 -> O2 -> bool),
       (forall x y : O2, eqO2 x y = true <-> x = y) ->
       forall (P : Functor.optic O1 A1 O2 A2) (Fobj Robj : O1 -> list O2)
         (fimg rimg : A1 * (list O1 * list O1) -> Plain.pohg O2 A2)
         (Mres : A1 * (list O1 * list O1) -> list O2),
       C14dDefs.pw_contract P Fobj Robj (fun _ : A1 * (list O1 * list O1) => True) fimg rimg Mres ->
       forall s s' : Hyper.ohg O1 A1,
       Plain.wf_ohg s ->
       Plain.wf_ohg s' ->
       Plain.Iso (Plain.abs s) (Plain.abs s') ->
       exists F F' : Hyper.ohg O2 A2,
         Functor.optic_map_arrow B eqO2 P s = Res.Ok F /\
         Functor.optic_map_arrow B eqO2 P s' = Res.Ok F' /\ Plain.Iso (Plain.abs F) (Plain.abs F').
Proof. exact (@C14_general_respects_iso). Qed.

Theorem C14_every_circuit_denotable : forall s : Hyper.ohg nat nat,
       poly_circuit s ->
       Hyper.ohg_is_monogamous s = Res.Ok true ->
       Graph.ohg_is_acyclic Prims.VecBackend s = Res.Ok true ->
       exists
         (n m : nat) (f : list BinNums.Z -> list BinNums.Z) (J : list BinNums.Z -> list (list BinNums.Z)),
         denotes s n m f J.
Proof. exact (@C14fNormal.C14_every_circuit_denotable). Qed.

Theorem C14_derivative_all : forall (s : Hyper.ohg nat nat) (n m : nat) (f : list BinNums.Z -> list BinNums.Z)
         (J : list BinNums.Z -> list (list BinNums.Z)),
       denotes s n m f J -> derivative_statement_u64 s n m f J.
Proof. exact (@C14eDeriv.C14_derivative_all_closed). Qed.

Theorem C14_derivative_all_wrapped : forall (s : Hyper.ohg nat nat) (n m : nat) (f : list BinNums.Z -> list BinNums.Z)
         (J : list BinNums.Z -> list (list BinNums.Z)),
       denotes s n m f J -> derivative_statement_wrapped s n m f J.
Proof. exact (@C14eDeriv.C14_derivative_all_wrapped_closed). Qed.

Theorem C14_derivative_every_circuit : forall s : Hyper.ohg nat nat,
       poly_circuit s ->
       Hyper.ohg_is_monogamous s = Res.Ok true ->
       Graph.ohg_is_acyclic Prims.VecBackend s = Res.Ok true ->
       exists
         (n m : nat) (f : list BinNums.Z -> list BinNums.Z) (J : list BinNums.Z -> list (list BinNums.Z)),
         denotes s n m f J /\ derivative_statement_u64 s n m f J /\ derivative_statement_wrapped s n m f J.
Proof. exact (@C14eDeriv.C14_derivative_every_circuit). Qed.

Theorem C14_full_u64 : C14_full_u64.
Proof. exact (@C14eDeriv.C14_full_u64_holds). Qed.

Theorem C14_unwrapped_inputs_refuted : denotes s_id1 1 1 (fun x : list BinNums.Z => x) (fun _ : list BinNums.Z => idmat 1) /\
       (exists d : Hyper.ohg nat nat,
          poly_adapted_strict s_id1 = Res.Ok d /\
          Graph.eval Prims.VecBackend BinNums.Z0 Dispatch.apply_sig d
            ((BinNums.Zneg BinNums.xH :: nil) ++ BinNums.Zpos (BinNums.xI (BinNums.xO BinNums.xH)) :: nil) =
          Res.Ok (Some (BinNums.Zneg BinNums.xH :: BinNums.Zpos (BinNums.xI (BinNums.xO BinNums.xH)) :: nil))) /\
       List.map Dispatch.wrap
         ((BinNums.Zneg BinNums.xH :: nil) ++
          tmulv 1 (idmat 1) (BinNums.Zpos (BinNums.xI (BinNums.xO BinNums.xH)) :: nil)) =
       BinInt.Z.sub Dispatch.two64 (BinNums.Zpos BinNums.xH)
       :: BinNums.Zpos (BinNums.xI (BinNums.xO BinNums.xH)) :: nil /\
       ~ derivative_statement s_id1 1 1 (fun x : list BinNums.Z => x) (fun _ : list BinNums.Z => idmat 1).
Proof. exact (@C14eDeriv.C14_derivative_unwrapped_refuted). Qed.

Theorem C14_oracle_sweep_sound : forall (g : pg) (fw bw : nat -> BinNums.Z) (dy : list BinNums.Z),
       good_pg g ->
       fwd_ok g fw ->
       bwd_ok g fw bw ->
       List.map bw (Plain.p_outs g) = List.map Dispatch.wrap dy ->
       SpecCheck.ref_grad g (List.map fw (Plain.p_ins g)) dy =
       Some (List.map fw (Plain.p_outs g) ++ List.map bw (Plain.p_ins g)).
Proof. exact (@OracleSweep.ref_grad_sound). Qed.

Theorem C14_oracle_denotes : forall (s : Hyper.ohg nat nat) (n m : nat) (f : list BinNums.Z -> list BinNums.Z)
         (J : list BinNums.Z -> list (list BinNums.Z)),
       denotes s n m f J ->
       forall x dy : list BinNums.Z,
       length x = n ->
       length dy = m ->
       List.Forall C14Thm.in64 x ->
       List.Forall C14Thm.in64 dy ->
       SpecCheck.ref_grad (Plain.abs s) x dy = Some (List.map Dispatch.wrap (f x ++ tmulv n (J x) dy)).
Proof. exact (@OracleGrad.ref_grad_denotes). Qed.

Theorem C14_oracle_agrees_with_model : forall s : Hyper.ohg nat nat,
       poly_circuit s ->
       Hyper.ohg_is_monogamous s = Res.Ok true ->
       Graph.ohg_is_acyclic Prims.VecBackend s = Res.Ok true ->
       exists d : Hyper.ohg nat nat,
         poly_adapted_strict s = Res.Ok d /\
         (forall x dy : list BinNums.Z,
          length x = length (FinFun.table (Hyper.o_s s)) ->
          length dy = length (FinFun.table (Hyper.o_t s)) ->
          List.Forall C14Thm.in64 x ->
          List.Forall C14Thm.in64 dy ->
          Graph.eval Prims.VecBackend BinNums.Z0 Dispatch.apply_sig d (x ++ dy) =
          Res.Ok (SpecCheck.ref_grad (Plain.abs s) x dy)).
Proof. exact (@OracleGrad.ref_grad_agrees_with_model). Qed.

Print Assumptions C14_type.
Print Assumptions C14_adapt_type.
Print Assumptions C14_adapted_type.
Print Assumptions C14_map_operations_defined_typed.
Print Assumptions C14_contract_satisfiable.
Print Assumptions C14_batch_structure.
Print Assumptions C14_batch_unique.
Print Assumptions C14_generator_structure.
Print Assumptions C14_batch_monoidal.
Print Assumptions C14_map_object.
Print Assumptions C14_interleave.
Print Assumptions C14_interleave_panic_iff.
Print Assumptions C14_partial_dagger_type.
Print Assumptions C14_generator_adapted_value.
Print Assumptions C14_generator_types.
Print Assumptions C14_generator_derivative_add.
Print Assumptions C14_generator_derivative_mul.
Print Assumptions C14_generator_derivative_neg.
Print Assumptions C14_generator_derivative_copy.
Print Assumptions C14_generator_derivative_discard.
Print Assumptions C14_generator_derivative_const.
Print Assumptions C14_generator_derivative.
Print Assumptions C14_partial_generators.
Print Assumptions C14_lens_chain_rule_seq.
Print Assumptions C14_lens_chain_rule_par.
Print Assumptions C14_composite_square.
Print Assumptions C14_composite_poly.
Print Assumptions C14_poly_components_meet_contract.
Print Assumptions C14_poly_images_monogamous_acyclic.
Print Assumptions C14_optic_preserves_composition.
Print Assumptions C14_optic_preserves_tensor.
Print Assumptions C14_optic_respects_iso.
Print Assumptions C14_general_preserves_composition.
Print Assumptions C14_general_preserves_tensor.
Print Assumptions C14_general_respects_iso.
Print Assumptions C14_every_circuit_denotable.
Print Assumptions C14_derivative_all.
Print Assumptions C14_derivative_all_wrapped.
Print Assumptions C14_derivative_every_circuit.
Print Assumptions C14_full_u64.
Print Assumptions C14_unwrapped_inputs_refuted.
Print Assumptions C14_oracle_sweep_sound.
Print Assumptions C14_oracle_denotes.
Print Assumptions C14_oracle_agrees_with_model.
