(* C15 — Layering respects dependencies, is as shallow as possible, and flags cycles.
   Property theorems only: each statement is spelled out and closed by [exact] of a lemma proved in Proofs/. *)
From OHG Require Import Spec.GraphSpec Proofs.KahnThm Proofs.AdjThm Proofs.C15Thm.

Theorem C15_returns : forall B : Backend,
       BackendOK B ->
       forall (O0 A : Type) (f : ohg O0 A),
       wf_ohg f ->
       let m := length (h_x (o_h f)) in
       exists (order : ff) (unv : list nat),
         layer B f = Ok (order, unv) /\
         ff_source order = m /\
         target order = m /\
         length unv = m /\
         wf_ff order /\
         (forall x : nat, x < m -> nth x unv 0 = 0 \/ nth x unv 0 = 1) /\
         (forall x : nat, x < m -> nth x unv 0 = 1 -> C08Thm.ff_app order x = 0) /\
         (exists groups : list (list nat), layered_operations B f = Ok (groups, unv) /\ length groups = m).
Proof. exact C15Thm.C15_returns. Qed.

Theorem C15_layer_sound : forall B : Backend,
       BackendOK B ->
       forall (O0 A : Type) (f : ohg O0 A) (order : ff) (unv : list nat) (x y : nat),
       wf_ohg f ->
       layer B f = Ok (order, unv) ->
       x < length (h_x (o_h f)) ->
       y < length (h_x (o_h f)) ->
       dep (o_h f) x y -> nth y unv 0 = 0 -> nth x unv 0 = 0 /\ C08Thm.ff_app order x < C08Thm.ff_app order y.
Proof. exact C15Thm.C15_layer_sound. Qed.

Theorem C15_layer_minimal : forall B : Backend,
       BackendOK B ->
       forall (O0 A : Type) (f : ohg O0 A) (order : ff) (unv : list nat) (y : nat),
       wf_ohg f ->
       layer B f = Ok (order, unv) ->
       y < length (h_x (o_h f)) ->
       nth y unv 0 = 0 ->
       let vis := fun x : nat => nth x unv 0 = 0 in
       DLvl (o_h f) y (C08Thm.ff_app order y) /\
       (forall d : nat, C08Thm.ff_app order y = d <-> DLvl (o_h f) y d) /\
       depchain (o_h f) vis (C08Thm.ff_app order y) y /\
       (forall (P : nat -> Prop) (k : nat), depchain (o_h f) P k y -> k <= C08Thm.ff_app order y) /\
       (forall x : nat, Relation_Operators.clos_refl_trans nat (opR (o_h f)) x y -> vis x).
Proof. exact C15Thm.C15_layer_minimal. Qed.

Theorem C15_layers_contiguous : forall B : Backend,
       BackendOK B ->
       forall (O0 A : Type) (f : ohg O0 A) (order : ff) (unv : list nat) (y e : nat),
       wf_ohg f ->
       layer B f = Ok (order, unv) ->
       y < length (h_x (o_h f)) ->
       nth y unv 0 = 0 ->
       e <= C08Thm.ff_app order y ->
       exists x : nat, x < length (h_x (o_h f)) /\ nth x unv 0 = 0 /\ C08Thm.ff_app order x = e.
Proof. exact C15Thm.C15_layers_contiguous. Qed.

Theorem C15_layer_bound : forall B : Backend,
       BackendOK B ->
       forall (O A : Type) (f : ohg O A) (order : ff) (unv : list nat) (x : nat),
       wf_ohg f ->
       layer B f = Ok (order, unv) ->
       x < length (h_x (o_h f)) -> C08Thm.ff_app order x < length (h_x (o_h f)).
Proof. exact C15Thm.C15_layer_bound. Qed.

Theorem C15_unvisited_iff_cycle : forall B : Backend,
       BackendOK B ->
       forall (O0 A : Type) (f : ohg O0 A) (order : ff) (unv : list nat) (y : nat),
       wf_ohg f ->
       layer B f = Ok (order, unv) ->
       y < length (h_x (o_h f)) ->
       nth y unv 0 = 1 <->
       (exists x : nat,
          x < length (h_x (o_h f)) /\
          Relation_Operators.clos_trans nat (opR (o_h f)) x x /\
          Relation_Operators.clos_refl_trans nat (opR (o_h f)) x y).
Proof. exact C15Thm.C15_unvisited_iff_cycle. Qed.

Theorem C15_grouped : forall B : Backend,
       BackendOK B ->
       forall (O0 A : Type) (f : ohg O0 A) (groups : list (list nat)) (unv : list nat),
       wf_ohg f ->
       layered_operations B f = Ok (groups, unv) ->
       let m := length (h_x (o_h f)) in
       exists order : ff,
         layer B f = Ok (order, unv) /\
         length groups = m /\
         (forall x : nat,
          x < m ->
          count_occ Nat.eq_dec (nth (C08Thm.ff_app order x) groups []) x = 1 /\
          (forall l : nat, l <> C08Thm.ff_app order x -> ~ In x (nth l groups [])) /\
          count_occ Nat.eq_dec (concat groups) x = 1) /\
         (forall l x : nat, In x (nth l groups []) -> x < m) /\ Permutation (concat groups) (seq 0 m).
Proof. exact C15Thm.C15_grouped. Qed.

Theorem C15_kahn_correct : forall B : Backend,
       BackendOK B ->
       forall adj : icf,
       wf_icf adj ->
       target (ic_values adj) = ic_len adj ->
       exists order unv : list nat,
         kahn B adj = Ok (order, unv) /\
         length order = ic_len adj /\
         length unv = ic_len adj /\
         (forall v : nat, v < ic_len adj -> nth v unv 0 = 0 \/ nth v unv 0 = 1) /\
         (forall v : nat,
          v < ic_len adj -> nth v unv 0 = 0 <-> (exists d : nat, Lvl (ic_len adj) (succs adj) v d)) /\
         (forall v d : nat, v < ic_len adj -> Lvl (ic_len adj) (succs adj) v d -> nth v order 0 = d).
Proof. exact KahnThm.kahn_correct. Qed.

Theorem C15_kahn_sound : forall B : Backend,
       BackendOK B ->
       forall (adj : icf) (order unv : list nat) (u v : nat),
       wf_icf adj ->
       target (ic_values adj) = ic_len adj ->
       kahn B adj = Ok (order, unv) ->
       u < ic_len adj ->
       v < ic_len adj ->
       edge (succs adj) u v -> nth v unv 0 = 0 -> nth u unv 0 = 0 /\ nth u order 0 < nth v order 0.
Proof. exact KahnThm.kahn_sound. Qed.

Theorem C15_kahn_cycle : forall B : Backend,
       BackendOK B ->
       forall (adj : icf) (order unv : list nat) (v : nat),
       wf_icf adj ->
       target (ic_values adj) = ic_len adj ->
       kahn B adj = Ok (order, unv) ->
       v < ic_len adj ->
       nth v unv 0 = 1 <->
       (exists u : nat,
          u < ic_len adj /\
          Relation_Operators.clos_trans nat (edgeR (ic_len adj) (succs adj)) u u /\
          Relation_Operators.clos_refl_trans nat (edgeR (ic_len adj) (succs adj)) u v).
Proof. exact KahnThm.kahn_cycle. Qed.

Theorem C15_converse : forall B : Backend,
       BackendOK B ->
       forall r : icf,
       wf_icf r ->
       exists c : icf,
         converse B r = Ok c /\
         wf_icf c /\
         ic_len c = target (ic_values r) /\
         target (ic_values c) = ic_len r /\
         (forall q x : nat,
          q < target (ic_values r) ->
          x < ic_len r ->
          count_occ Nat.eq_dec (nth q (decode_f c) []) x = count_occ Nat.eq_dec (nth x (decode_f r) []) q) /\
         (forall q x : nat, In x (nth q (decode_f c) []) -> x < ic_len r).
Proof. exact AdjThm.converse_ok. Qed.

Theorem C15_operation_adjacency : forall B : Backend,
       BackendOK B ->
       forall (O A : Type) (h : hg O A),
       wf_hg h ->
       exists adj : icf,
         operation_adjacency B h = Ok adj /\
         wf_icf adj /\
         ic_len adj = length (h_x h) /\
         target (ic_values adj) = length (h_x h) /\
         (forall x y : nat,
          x < length (h_x h) ->
          y < length (h_x h) ->
          count_occ Nat.eq_dec (GraphSpec.succs adj x) y =
          list_sum (map (fun v : nat => count_occ Nat.eq_dec (op_src h y) v) (op_tgt h x))).
Proof. exact AdjThm.adj_ops_mult. Qed.

Theorem C15_adjacency_spec : forall B : Backend, BackendOK B -> adj_spec_ops B.
Proof. exact AdjThm.adj_ops_ok. Qed.

Print Assumptions C15_returns.
Print Assumptions C15_layer_sound.
Print Assumptions C15_layer_minimal.
Print Assumptions C15_layers_contiguous.
Print Assumptions C15_layer_bound.
Print Assumptions C15_unvisited_iff_cycle.
Print Assumptions C15_grouped.
Print Assumptions C15_kahn_correct.
Print Assumptions C15_kahn_sound.
Print Assumptions C15_kahn_cycle.
Print Assumptions C15_converse.
Print Assumptions C15_operation_adjacency.
Print Assumptions C15_adjacency_spec.
