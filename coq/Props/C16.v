(* C16 — Evaluation computes the diagram's function and refuses cyclic diagrams.
   Property theorems only: each statement is spelled out and closed by [exact] of a lemma proved in Proofs/. *)
From OHG Require Import Spec.GraphSpec Proofs.C16Lemmas Proofs.C16Thm Proofs.C16Iso Proofs.Assemble Proofs.EvalPlain Proofs.EvalFunctor Proofs.EvalMono Proofs.OracleEval.

Theorem C16_refuses_iff_cyclic : forall B : Backend,
       BackendOK B ->
       forall (O A T : Type) (default : T) (interp : A -> list T -> list T)
         (apply : list A -> ic (list T) -> res (ic (list T))),
       apply_spec interp apply ->
       forall (f : ohg O A) (inp : list T),
       wf_ohg f ->
       length inp = length (table (o_s f)) -> eval B default apply f inp = Ok None <-> ~ acyclic_ops f.
Proof. exact (@Assemble.C16f_refuses_iff_cyclic). Qed.

Theorem C16_total : forall B : Backend,
       BackendOK B ->
       forall (O A T : Type) (default : T) (interp : A -> list T -> list T)
         (apply : list A -> ic (list T) -> res (ic (list T))),
       apply_spec interp apply ->
       forall (f : ohg O A) (inp : list T),
       wf_ohg f ->
       eval B default apply f inp = Ok None \/
       (exists out : list T, eval B default apply f inp = Ok (Some out)).
Proof. exact (@Assemble.C16f_total). Qed.

Theorem C16_computes : forall B : Backend,
       BackendOK B ->
       forall (O A T : Type) (default : T) (interp : A -> list T -> list T)
         (apply : list A -> ic (list T) -> res (ic (list T))),
       apply_spec interp apply ->
       forall (f : ohg O A) (inp : list T),
       wf_ohg f ->
       acyclic_ops f ->
       single_writer f ->
       arity_ok interp f ->
       length inp = length (table (o_s f)) ->
       exists out mem : list T,
         eval B default apply f inp = Ok (Some out) /\
         Valuation default interp f inp mem /\
         length mem = length (h_w (o_h f)) /\ out = map (fun v : nat => nth v mem default) (table (o_t f)).
Proof. exact (@Assemble.C16f_computes). Qed.

Theorem C16_valuation_unique : forall (O A T : Type) (default : T) (interp : A -> list T -> list T) (f : ohg O A)
         (inp mem mem' : list T),
       acyclic_ops f ->
       single_writer f ->
       wf_ohg f ->
       Valuation default interp f inp mem ->
       Valuation default interp f inp mem' ->
       length mem = length (h_w (o_h f)) -> length mem' = length (h_w (o_h f)) -> mem = mem'.
Proof. exact (@C16Thm.C16_valuation_unique). Qed.

Theorem C16_any_order : forall B : Backend,
       BackendOK B ->
       forall (O0 A T : Type) (default : T) (interp : A -> list T -> list T)
         (apply : list A -> ic (list T) -> res (ic (list T))),
       apply_spec interp apply ->
       forall (f : ohg O0 A) (inp : list T) (sigma : list nat),
       wf_ohg f ->
       single_writer f ->
       arity_ok interp f ->
       length inp = length (table (o_s f)) ->
       Permutation sigma (seq 0 (length (h_x (o_h f)))) ->
       respects f sigma ->
       let mem := seq_interp default interp f sigma (init_mem default f inp) in
       Valuation default interp f inp mem /\
       length mem = length (h_w (o_h f)) /\
       eval B default apply f inp = Ok (Some (map (fun v : nat => nth v mem default) (table (o_t f)))).
Proof. exact (@Assemble.C16f_any_order). Qed.

Theorem C16_numbering_independent : forall B : Backend,
       BackendOK B ->
       forall (O A T : Type) (default : T) (interp : A -> list T -> list T)
         (apply : list A -> ic (list T) -> res (ic (list T))),
       apply_spec interp apply ->
       forall (f f' : ohg O A) (inp : list T),
       wf_ohg f ->
       wf_ohg f' ->
       Iso (abs f) (abs f') ->
       acyclic_ops f ->
       single_writer f ->
       arity_ok interp f ->
       length inp = length (table (o_s f)) -> eval B default apply f inp = eval B default apply f' inp.
Proof. exact (@Assemble.C16f_numbering_independent). Qed.

Theorem C16_backend_independent : forall B1 B2 : Backend,
       BackendOK B1 ->
       BackendOK B2 ->
       forall (O A T : Type) (default : T) (interp : A -> list T -> list T)
         (apply : list A -> ic (list T) -> res (ic (list T))) (f : ohg O A) (inp : list T),
       apply_spec interp apply ->
       wf_ohg f ->
       single_writer f ->
       arity_ok interp f ->
       length inp = length (table (o_s f)) -> eval B1 default apply f inp = eval B2 default apply f inp.
Proof. exact (@Assemble.C20_eval). Qed.

Theorem C16_layers_of_layering : forall B : Backend, BackendOK B -> conv_layers_spec B.
Proof. exact (@Assemble.conv_layers_ok). Qed.

Theorem C16_eval_singleton : forall B : Backend,
       BackendOK B ->
       forall (O A T : Type) (d : T) (interp : A -> list T -> list T)
         (apply : list A -> ic (list T) -> res (ic (list T))),
       apply_spec interp apply ->
       forall (x : A) (a b : list O),
       (forall vals : list T, length vals = length a -> length (interp x vals) = length b) ->
       exists f : ohg O A,
         ohg_singleton x a b = Ok f /\
         evaluable interp f /\
         (forall inp : list T, length inp = length a -> sem B d apply f inp (interp x inp)).
Proof. exact (@E0_singleton). Qed.

Theorem C16_eval_identity : forall B : Backend,
       BackendOK B ->
       forall (O A T : Type) (d : T) (interp : A -> list T -> list T)
         (apply : list A -> ic (list T) -> res (ic (list T))),
       apply_spec interp apply ->
       forall w : list O,
       exists f : ohg O A,
         ohg_identity A w = Ok f /\
         evaluable interp f /\ (forall inp : list T, length inp = length w -> sem B d apply f inp inp).
Proof. exact (@E1_identity). Qed.

Theorem C16_eval_twist : forall B : Backend,
       BackendOK B ->
       forall (O A T : Type) (d : T) (interp : A -> list T -> list T)
         (apply : list A -> ic (list T) -> res (ic (list T))),
       apply_spec interp apply ->
       forall a b : list O,
       exists f : ohg O A,
         ohg_twist A a b = Ok f /\
         evaluable interp f /\
         (forall x y : list T,
          length x = length a -> length y = length b -> sem B d apply f (x ++ y) (y ++ x)).
Proof. exact (@E1_twist). Qed.

Theorem C16_eval_discrete : forall B : Backend,
       BackendOK B ->
       forall (O A T : Type) (d : T) (interp : A -> list T -> list T)
         (apply : list A -> ic (list T) -> res (ic (list T))),
       apply_spec interp apply ->
       forall (f : ohg O A) (inp : list T),
       wf_ohg f ->
       h_x (o_h f) = [] ->
       NoDup (table (o_s f)) ->
       evaluable interp f /\ sem B d apply f inp (map (wire_mem d (table (o_s f)) inp) (table (o_t f))).
Proof. exact (@E1_discrete). Qed.

Theorem C16_eval_tensor : forall B : Backend,
       BackendOK B ->
       forall (O A T : Type) (d : T) (interp : A -> list T -> list T)
         (apply : list A -> ic (list T) -> res (ic (list T))),
       apply_spec interp apply ->
       forall f g : ohg O A,
       evaluable interp f ->
       evaluable interp g ->
       exists t : ohg O A,
         ohg_tensor f g = Ok t /\
         evaluable interp t /\
         (forall x y u v : list T,
          length x = length (table (o_s f)) ->
          sem B d apply f x u -> sem B d apply g y v -> sem B d apply t (x ++ y) (u ++ v)).
Proof. exact (@E2_tensor). Qed.

Theorem C16_eval_compose : forall B : Backend,
       BackendOK B ->
       forall (O A T : Type) (d : T) (interp : A -> list T -> list T)
         (apply : list A -> ic (list T) -> res (ic (list T))),
       apply_spec interp apply ->
       forall Bc : Backend,
       BackendOK Bc ->
       forall eqO : O -> O -> bool,
       (forall x y : O, eqO x y = true <-> x = y) ->
       forall f g h : ohg O A,
       evaluable interp f ->
       evaluable interp g ->
       ohg_compose Bc eqO f g = Ok (Some h) ->
       evaluable interp h /\
       (forall x u v : list T, sem B d apply f x u -> sem B d apply g u v -> sem B d apply h x v).
Proof. exact (@E3_compose). Qed.

Theorem C16_eval_gluing : forall B : Backend,
       BackendOK B ->
       forall (O A T : Type) (d : T) (interp : A -> list T -> list T)
         (apply : list A -> ic (list T) -> res (ic (list T))),
       apply_spec interp apply ->
       forall f g h : ohg O A,
       evaluable interp f ->
       evaluable interp g ->
       wf_ohg h ->
       length (table (o_t f)) = length (table (o_s g)) ->
       IsCompose (abs f) (abs g) (abs h) ->
       evaluable interp h /\
       (forall x u v : list T, sem B d apply f x u -> sem B d apply g u v -> sem B d apply h x v).
Proof. exact (@E3_gluing). Qed.

Theorem C16_eval_iso : forall B : Backend,
       BackendOK B ->
       forall (O A T : Type) (d : T) (interp : A -> list T -> list T)
         (apply : list A -> ic (list T) -> res (ic (list T))),
       apply_spec interp apply ->
       forall f f' : ohg O A,
       evaluable interp f ->
       wf_ohg f' ->
       Iso (abs f) (abs f') ->
       evaluable interp f' /\
       (forall inp : list T, eval B d apply f inp = eval B d apply f' inp) /\
       (forall inp out : list T, sem B d apply f inp out <-> sem B d apply f' inp out).
Proof. exact (@E4_iso). Qed.

Theorem C16_eval_circuit_compose : forall B : Backend,
       BackendOK B ->
       forall (O A T : Type) (d : T) (interp : A -> list T -> list T)
         (apply : list A -> ic (list T) -> res (ic (list T))),
       apply_spec interp apply ->
       forall Bc : Backend,
       BackendOK Bc ->
       forall eqO : O -> O -> bool,
       (forall x y : O, eqO x y = true <-> x = y) ->
       forall f g h : ohg O A,
       circuit interp f ->
       circuit interp g ->
       ohg_compose Bc eqO f g = Ok (Some h) ->
       circuit interp h /\
       (forall x u v : list T, sem B d apply f x u -> sem B d apply g u v -> sem B d apply h x v).
Proof. exact (@E3_circuit). Qed.

Theorem C16_eval_circuit_tensor : forall B : Backend,
       BackendOK B ->
       forall (O A T : Type) (d : T) (interp : A -> list T -> list T)
         (apply : list A -> ic (list T) -> res (ic (list T))),
       apply_spec interp apply ->
       forall f g : ohg O A,
       circuit interp f ->
       circuit interp g ->
       exists t : ohg O A,
         ohg_tensor f g = Ok t /\
         circuit interp t /\
         (forall x y u v : list T,
          length x = length (table (o_s f)) ->
          sem B d apply f x u -> sem B d apply g y v -> sem B d apply t (x ++ y) (u ++ v)).
Proof. exact (@E2_circuit). Qed.

Theorem C16_oracle_agrees : forall B : Backend,
       BackendOK B ->
       forall (f : ohg nat nat) (inp : list BinNums.Z),
       wf_ohg f ->
       single_writer f ->
       arity_ok Dispatch.interp f ->
       eval B BinNums.Z0 Dispatch.apply_sig f inp = Ok (SpecCheck.ref_eval (abs f) inp).
Proof. exact (@OracleEval.ref_eval_agrees). Qed.

Theorem C16_oracle_refuses_iff_cyclic : forall (f : ohg nat nat) (inp : list BinNums.Z),
       wf_ohg f -> SpecCheck.ref_eval (abs f) inp = None <-> ~ acyclic_ops f.
Proof. exact (@OracleEval.ref_eval_refuses_iff_cyclic). Qed.

Theorem C16_oracle_value_clause : forall B : Backend,
       BackendOK B ->
       forall (f : ohg nat nat) (inp out : list BinNums.Z),
       wf_ohg f ->
       SpecCheck.ref_eval (abs f) inp = Some out ->
       chk_single_writer (abs f) && chk_arity_ok (abs f) inp = true ->
       eval B BinNums.Z0 Dispatch.apply_sig f inp = Ok (Some out).
Proof. exact (@OracleEval.oracle_value_clause). Qed.

Theorem C16_oracle_refusal_clause : forall B : Backend,
       BackendOK B ->
       forall (f : ohg nat nat) (inp : list BinNums.Z),
       wf_ohg f ->
       SpecCheck.ref_eval (abs f) inp = None -> eval B BinNums.Z0 Dispatch.apply_sig f inp = Ok None.
Proof. exact (@OracleEval.oracle_refusal_clause). Qed.

Print Assumptions C16_refuses_iff_cyclic.
Print Assumptions C16_total.
Print Assumptions C16_computes.
Print Assumptions C16_valuation_unique.
Print Assumptions C16_any_order.
Print Assumptions C16_numbering_independent.
Print Assumptions C16_backend_independent.
Print Assumptions C16_layers_of_layering.
Print Assumptions C16_eval_singleton.
Print Assumptions C16_eval_identity.
Print Assumptions C16_eval_twist.
Print Assumptions C16_eval_discrete.
Print Assumptions C16_eval_tensor.
Print Assumptions C16_eval_compose.
Print Assumptions C16_eval_gluing.
Print Assumptions C16_eval_iso.
Print Assumptions C16_eval_circuit_compose.
Print Assumptions C16_eval_circuit_tensor.
Print Assumptions C16_oracle_agrees.
Print Assumptions C16_oracle_refuses_iff_cyclic.
Print Assumptions C16_oracle_value_clause.
Print Assumptions C16_oracle_refusal_clause.
