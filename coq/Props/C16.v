(* C16 — Evaluation computes the diagram's function and refuses cyclic diagrams.
   Property theorems only: each statement is spelled out and closed by [exact] of a lemma proved in Proofs/. *)
From OHG Require Import Spec.GraphSpec Proofs.C16Lemmas Proofs.C16Thm Proofs.C16Iso Proofs.Assemble.

Theorem C16_refuses_iff_cyclic : forall B : Backend,
       BackendOK B ->
       forall (O A T : Type) (default : T) (interp : A -> list T -> list T)
         (apply : list A -> ic (list T) -> res (ic (list T))),
       apply_spec interp apply ->
       forall (f : ohg O A) (inp : list T),
       wf_ohg f ->
       length inp = length (table (o_s f)) -> eval B default apply f inp = Ok None <-> ~ acyclic_ops f.
Proof. exact (@Assemble.C16f_refuses_iff_cyclic). Qed.

Theorem C16_total : forall B : Backend,
       BackendOK B ->
       forall (O A T : Type) (default : T) (interp : A -> list T -> list T)
         (apply : list A -> ic (list T) -> res (ic (list T))),
       apply_spec interp apply ->
       forall (f : ohg O A) (inp : list T),
       wf_ohg f ->
       eval B default apply f inp = Ok None \/
       (exists out : list T, eval B default apply f inp = Ok (Some out)).
Proof. exact (@Assemble.C16f_total). Qed.

Theorem C16_computes : forall B : Backend,
       BackendOK B ->
       forall (O A T : Type) (default : T) (interp : A -> list T -> list T)
         (apply : list A -> ic (list T) -> res (ic (list T))),
       apply_spec interp apply ->
       forall (f : ohg O A) (inp : list T),
       wf_ohg f ->
       acyclic_ops f ->
       single_writer f ->
       arity_ok interp f ->
       length inp = length (table (o_s f)) ->
       exists out mem : list T,
         eval B default apply f inp = Ok (Some out) /\
         Valuation default interp f inp mem /\
         length mem = length (h_w (o_h f)) /\ out = map (fun v : nat => nth v mem default) (table (o_t f)).
Proof. exact (@Assemble.C16f_computes). Qed.

Theorem C16_valuation_unique : forall (O A T : Type) (default : T) (interp : A -> list T -> list T) (f : ohg O A)
         (inp mem mem' : list T),
       acyclic_ops f ->
       single_writer f ->
       wf_ohg f ->
       Valuation default interp f inp mem ->
       Valuation default interp f inp mem' ->
       length mem = length (h_w (o_h f)) -> length mem' = length (h_w (o_h f)) -> mem = mem'.
Proof. exact (@C16Thm.C16_valuation_unique). Qed.

Theorem C16_any_order : forall B : Backend,
       BackendOK B ->
       forall (O0 A T : Type) (default : T) (interp : A -> list T -> list T)
         (apply : list A -> ic (list T) -> res (ic (list T))),
       apply_spec interp apply ->
       forall (f : ohg O0 A) (inp : list T) (sigma : list nat),
       wf_ohg f ->
       single_writer f ->
       arity_ok interp f ->
       length inp = length (table (o_s f)) ->
       Permutation sigma (seq 0 (length (h_x (o_h f)))) ->
       respects f sigma ->
       let mem := seq_interp default interp f sigma (init_mem default f inp) in
       Valuation default interp f inp mem /\
       length mem = length (h_w (o_h f)) /\
       eval B default apply f inp = Ok (Some (map (fun v : nat => nth v mem default) (table (o_t f)))).
Proof. exact (@Assemble.C16f_any_order). Qed.

Theorem C16_numbering_independent : forall B : Backend,
       BackendOK B ->
       forall (O A T : Type) (default : T) (interp : A -> list T -> list T)
         (apply : list A -> ic (list T) -> res (ic (list T))),
       apply_spec interp apply ->
       forall (f f' : ohg O A) (inp : list T),
       wf_ohg f ->
       wf_ohg f' ->
       Iso (abs f) (abs f') ->
       acyclic_ops f ->
       single_writer f ->
       arity_ok interp f ->
       length inp = length (table (o_s f)) -> eval B default apply f inp = eval B default apply f' inp.
Proof. exact (@Assemble.C16f_numbering_independent). Qed.

Theorem C16_backend_independent : forall B1 B2 : Backend,
       BackendOK B1 ->
       BackendOK B2 ->
       forall (O A T : Type) (default : T) (interp : A -> list T -> list T)
         (apply : list A -> ic (list T) -> res (ic (list T))) (f : ohg O A) (inp : list T),
       apply_spec interp apply ->
       wf_ohg f ->
       single_writer f ->
       arity_ok interp f ->
       length inp = length (table (o_s f)) -> eval B1 default apply f inp = eval B2 default apply f inp.
Proof. exact (@Assemble.C20_eval). Qed.

Theorem C16_layers_of_layering : forall B : Backend, BackendOK B -> conv_layers_spec B.
Proof. exact (@Assemble.conv_layers_ok). Qed.

Print Assumptions C16_refuses_iff_cyclic.
Print Assumptions C16_total.
Print Assumptions C16_computes.
Print Assumptions C16_valuation_unique.
Print Assumptions C16_any_order.
Print Assumptions C16_numbering_independent.
Print Assumptions C16_backend_independent.
Print Assumptions C16_layers_of_layering.
