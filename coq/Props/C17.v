(* C17 — Acyclicity, monogamy and degree queries decide their definitions, totally.
   Property theorems only: each statement is spelled out and closed by [exact] of a lemma proved in Proofs/. *)
From OHG Require Import Spec.GraphSpec Proofs.C17Thm Proofs.C15Thm.

Theorem C17_acyclic : forall B : Backend,
       BackendOK B ->
       forall (O A : Type) (h : hg O A),
       wf_hg h ->
       exists b : bool,
         hg_is_acyclic B h = Ok b /\
         (b = true <->
          (forall v : nat, v < length (h_w h) -> ~ Relation_Operators.clos_trans nat (nodeR h) v v)).
Proof. exact (@C15Thm.C17_acyclic). Qed.

Theorem C17_acyclic_ohg : forall B : Backend,
       BackendOK B ->
       forall (O A : Type) (f : ohg O A),
       wf_ohg f ->
       exists b : bool,
         ohg_is_acyclic B f = Ok b /\
         (b = true <->
          (forall v : nat,
           v < length (h_w (o_h f)) -> ~ Relation_Operators.clos_trans nat (nodeR (o_h f)) v v)).
Proof. exact (@C15Thm.C17_acyclic_ohg). Qed.

Theorem C17_degrees : forall (O A : Type) (h : hg O A) (v : nat),
       wf_hg h ->
       (v < length (h_w h) -> hg_in_degree h v = Ok (indeg h v) /\ hg_out_degree h v = Ok (outdeg h v)) /\
       (length (h_w h) <= v -> hg_in_degree h v = Panic /\ hg_out_degree h v = Panic).
Proof. exact (@C17Thm.C17_degrees). Qed.

Theorem C17_degrees_decoded : forall (O A : Type) (h : hg O A) (v : nat),
       wf_hg h ->
       indeg h v = count_occ Nat.eq_dec (concat (decode_f (h_t h))) v /\
       outdeg h v = count_occ Nat.eq_dec (concat (decode_f (h_s h))) v.
Proof. exact (@C17Thm.C17_degrees_decoded). Qed.

Theorem C17_monogamous : forall (O A : Type) (f : ohg O A),
       wf_ohg f -> exists b : bool, ohg_is_monogamous f = Ok b /\ (b = true <-> monogamous_spec f).
Proof. exact (@C17Thm.C17_monogamous). Qed.

Theorem C17_total : forall (O A : Type) (f : ohg O A), wf_ohg f -> exists b : bool, ohg_is_monogamous f = Ok b.
Proof. exact (@C17Thm.C17_total). Qed.

Example C17_nonvacuous : wf_ohg C17Examples.ex_mono /\ wf_ohg C17Examples.ex_off /\ monogamous_spec C17Examples.ex_mono /\ ~ monogamous_spec C17Examples.ex_off.
Proof. exact (conj C17Examples.ex_mono_wf (conj C17Examples.ex_off_wf (conj C17Examples.ex_mono_spec C17Examples.ex_off_spec))). Qed.

Print Assumptions C17_acyclic.
Print Assumptions C17_acyclic_ohg.
Print Assumptions C17_degrees.
Print Assumptions C17_degrees_decoded.
Print Assumptions C17_monogamous.
Print Assumptions C17_total.
