(* C17 — Acyclicity, monogamy and degree queries decide their definitions, totally. (acyclicity clause: see Props/C15.v)
   Property theorems only: each statement is spelled out and closed by [exact] of a lemma proved in Proofs/. *)
From OHG Require Import Spec.Plain Proofs.C17Thm.

Theorem C17_degrees : forall (O A : Type) (h : hg O A) (v : nat),
       wf_hg h ->
       (v < length (h_w h) -> hg_in_degree h v = Ok (indeg h v) /\ hg_out_degree h v = Ok (outdeg h v)) /\
       (length (h_w h) <= v -> hg_in_degree h v = Panic /\ hg_out_degree h v = Panic).
Proof. exact C17Thm.C17_degrees. Qed.

Theorem C17_degrees_decoded : forall (O A : Type) (h : hg O A) (v : nat),
       wf_hg h ->
       indeg h v = count_occ Nat.eq_dec (concat (decode_f (h_t h))) v /\
       outdeg h v = count_occ Nat.eq_dec (concat (decode_f (h_s h))) v.
Proof. exact C17Thm.C17_degrees_decoded. Qed.

Theorem C17_monogamous : forall (O A : Type) (f : ohg O A),
       wf_ohg f -> exists b : bool, ohg_is_monogamous f = Ok b /\ (b = true <-> monogamous_spec f).
Proof. exact C17Thm.C17_monogamous. Qed.

Theorem C17_total : forall (O A : Type) (f : ohg O A), wf_ohg f -> exists b : bool, ohg_is_monogamous f = Ok b.
Proof. exact C17Thm.C17_total. Qed.

Example C17_nonvacuous : wf_ohg C17Examples.ex_mono /\ wf_ohg C17Examples.ex_off /\ monogamous_spec C17Examples.ex_mono /\ ~ monogamous_spec C17Examples.ex_off.
Proof. exact (conj C17Examples.ex_mono_wf (conj C17Examples.ex_off_wf (conj C17Examples.ex_mono_spec C17Examples.ex_off_spec))). Qed.

Print Assumptions C17_degrees.
Print Assumptions C17_degrees_decoded.
Print Assumptions C17_monogamous.
Print Assumptions C17_total.
