(* C18 — Hypergraph morphism validation, monomorphism and convexity tests are exact.
   Property theorems only: each statement is spelled out and closed by [exact] of a lemma proved in Proofs/. *)
From OHG Require Import Spec.GraphSpec Proofs.C18Lemmas Proofs.C18Thm Proofs.C18cThm Proofs.Assemble.

Theorem C18_validate_iff : forall (O A : Type) (eqO : O -> O -> bool) (eqA : A -> A -> bool),
       (forall a b : O, eqO a b = true <-> a = b) ->
       (forall a b : A, eqA a b = true <-> a = b) ->
       forall (g h : hg O A) (w x : ff),
       wf_hg g ->
       wf_hg h ->
       wf_ff w ->
       wf_ff x ->
       arrow_validate eqO eqA {| ar_source := g; ar_target := h; ar_w := w; ar_x := x |} =
       Ok (inl {| ar_source := g; ar_target := h; ar_w := w; ar_x := x |}) <->
       length (table w) = length (h_w g) /\
       target w = length (h_w h) /\
       (forall i : nat, i < length (h_w g) -> nth_error (h_w h) (ff_app w i) = nth_error (h_w g) i) /\
       target x = length (h_x h) /\
       length (table x) = length (h_x g) /\
       (forall e : nat, e < length (h_x g) -> nth_error (h_x h) (ff_app x e) = nth_error (h_x g) e) /\
       (forall e : nat,
        e < length (h_x g) ->
        nth (ff_app x e) (decode_f (h_s h)) [] = map (ff_app w) (nth e (decode_f (h_s g)) [])) /\
       (forall e : nat,
        e < length (h_x g) ->
        nth (ff_app x e) (decode_f (h_t h)) [] = map (ff_app w) (nth e (decode_f (h_t g)) [])).
Proof. exact (@C18Thm.C18_validate_iff). Qed.

Theorem C18_validate_iff_strong : forall (O A : Type) (eqO : O -> O -> bool) (eqA : A -> A -> bool),
       (forall a b : O, eqO a b = true <-> a = b) ->
       (forall a b : A, eqA a b = true <-> a = b) ->
       forall (g h : hg O A) (w x : ff),
       wf_hg g ->
       wf_hg h ->
       arrow_validate eqO eqA {| ar_source := g; ar_target := h; ar_w := w; ar_x := x |} =
       Ok (inl {| ar_source := g; ar_target := h; ar_w := w; ar_x := x |}) <-> all_conditions g h w x.
Proof. exact (@C18Thm.C18_validate_iff_strong). Qed.

Theorem C18_error_exact : forall (O A : Type) (eqO : O -> O -> bool) (eqA : A -> A -> bool),
       (forall a b : O, eqO a b = true <-> a = b) ->
       (forall a b : A, eqA a b = true <-> a = b) ->
       forall (g h : hg O A) (w x : ff),
       wf_hg g ->
       wf_hg h ->
       wf_ff w ->
       wf_ff x ->
       forall e : invalid_arrow,
       arrow_validate eqO eqA {| ar_source := g; ar_target := h; ar_w := w; ar_x := x |} = Ok (inr e) <->
       first_failure g h w x e.
Proof. exact (@C18Thm.C18_error_exact). Qed.

Theorem C18_error_truthful : forall (O A : Type) (eqO : O -> O -> bool) (eqA : A -> A -> bool),
       (forall a b : O, eqO a b = true <-> a = b) ->
       (forall a b : A, eqA a b = true <-> a = b) ->
       forall (g h : hg O A) (w x : ff),
       wf_hg g ->
       wf_hg h ->
       wf_ff w ->
       wf_ff x ->
       forall e : invalid_arrow,
       arrow_validate eqO eqA {| ar_source := g; ar_target := h; ar_w := w; ar_x := x |} = Ok (inr e) ->
       first_failure g h w x e.
Proof. exact (@C18Thm.C18_error_truthful). Qed.

Theorem C18_total : forall (O A : Type) (eqO : O -> O -> bool) (eqA : A -> A -> bool),
       (forall a b : O, eqO a b = true <-> a = b) ->
       (forall a b : A, eqA a b = true <-> a = b) ->
       forall (g h : hg O A) (w x : ff),
       wf_hg g ->
       wf_hg h ->
       wf_ff w ->
       wf_ff x ->
       exists r : hg_arrow O A + invalid_arrow,
         arrow_validate eqO eqA {| ar_source := g; ar_target := h; ar_w := w; ar_x := x |} = Ok r.
Proof. exact (@C18Thm.C18_total). Qed.

Theorem C18_mono : forall (O A : Type) (m : hg_arrow O A),
       wf_ff (ar_w m) ->
       wf_ff (ar_x m) ->
       exists b : bool,
         arrow_is_monomorphism m = Ok b /\ (b = true <-> NoDup (table (ar_w m)) /\ NoDup (table (ar_x m))).
Proof. exact (@C18Thm.C18_mono). Qed.

Theorem C18_convex : forall B : Backend,
       BackendOK B ->
       forall (O A : Type) (g h : hg O A) (w x : ff),
       wf_hg h ->
       wf_ff w ->
       target w = length (h_w h) ->
       wf_ff x ->
       target x = length (h_x h) ->
       NoDup (table w) ->
       NoDup (table x) ->
       exists b : bool,
         arrow_is_convex_subgraph B {| ar_source := g; ar_target := h; ar_w := w; ar_x := x |} = Ok b /\
         (b = true <-> Convex_arrow {| ar_source := g; ar_target := h; ar_w := w; ar_x := x |}).
Proof. exact (@Assemble.C18f_convex). Qed.

Theorem C18_convex_iff : forall B : Backend,
       BackendOK B ->
       forall (O A : Type) (g h : hg O A) (w x : ff),
       wf_hg h ->
       wf_ff w ->
       target w = length (h_w h) ->
       wf_ff x ->
       target x = length (h_x h) ->
       exists b : bool,
         arrow_is_convex_subgraph B {| ar_source := g; ar_target := h; ar_w := w; ar_x := x |} = Ok b /\
         (b = true <->
          (NoDup (table w) /\ NoDup (table x)) /\
          Convex_arrow {| ar_source := g; ar_target := h; ar_w := w; ar_x := x |}).
Proof. exact (@Assemble.C18f_convex_iff). Qed.

Theorem C18_convex_nonmono : forall (O A : Type) (B : Backend) (m : hg_arrow O A),
       arrow_is_monomorphism m = Ok false -> arrow_is_convex_subgraph B m = Ok false.
Proof. exact (@C18cThm.C18_convex_nonmono). Qed.

Theorem C18_convex_two_layer : forall (O A : Type) (h : hg O A) (w x : ff),
       Convex h w x <-> (forall b : nat, sel w b -> ~ R1 h w x b).
Proof. exact (@C18cThm.Convex_two_layer). Qed.

Example C18_nonvacuous : wf_hg C18Examples.ex_g /\ wf_hg C18Examples.ex_h /\ wf_ff C18Examples.ex_w /\ wf_ff C18Examples.ex_x /\ all_conditions C18Examples.ex_g C18Examples.ex_h C18Examples.ex_w C18Examples.ex_x.
Proof. exact (conj C18Examples.ex_g_wf (conj C18Examples.ex_h_wf (conj C18Examples.ex_w_wf (conj C18Examples.ex_x_wf C18Examples.ex_valid_conditions)))). Qed.

Print Assumptions C18_validate_iff.
Print Assumptions C18_validate_iff_strong.
Print Assumptions C18_error_exact.
Print Assumptions C18_error_truthful.
Print Assumptions C18_total.
Print Assumptions C18_mono.
Print Assumptions C18_convex.
Print Assumptions C18_convex_iff.
Print Assumptions C18_convex_nonmono.
Print Assumptions C18_convex_two_layer.
