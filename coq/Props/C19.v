(* C19 — Var-built terms mean the expression written; forgetting copies keeps meaning (structure, forget = substitution, total, type preserving, and the semantic clause: forget(build prog) evaluates to the expression).
   Property theorems only: each statement is spelled out and closed by [exact] of a lemma proved in Proofs/. *)
From OHG Require Import Spec.Plain Proofs.C19Thm Proofs.C19bLemmas Proofs.C19bThm Proofs.C19cSem Proofs.C19cThm.

Theorem C19_semantic : C19_semantic_full.
Proof. exact (@C19cThm.C19_semantic). Qed.

Theorem C19_semantic_run : forall (prog : list (vcmd nat nat)) (ins outs : list nat) (inp r : list BinNums.Z),
       SpecCheck.denote prog ins outs inp = Some r ->
       (forall (op : nat) (args rts : list nat), In (CApply op args rts) prog -> op <> 9) ->
       var_eval_run VecBackend prog ins outs inp = Ok (Some r).
Proof. exact (@C19cThm.C19_semantic_run). Qed.

Theorem C19_semantic_any_backends : forall B B' : Backend,
       BackendOK B ->
       BackendOK B' ->
       forall (prog : list (vcmd nat nat)) (ins outs : list nat) (inp r : list BinNums.Z),
       SpecCheck.denote prog ins outs inp = Some r ->
       (forall (op : nat) (args rts : list nat), In (CApply op args rts) prog -> op <> 9) ->
       var_eval_run2 B B' prog ins outs inp = Ok (Some r).
Proof. exact (@C19cThm.C19_semantic_any_backends). Qed.

Theorem C19_semantic_gen : forall B : Backend,
       BackendOK B ->
       forall B' : Backend,
       BackendOK B' ->
       forall (O A T : Type) (eqO : O -> O -> bool),
       (forall x y : O, eqO x y = true <-> x = y) ->
       forall eqA : A -> A -> bool,
       (forall x y : A, eqA x y = true <-> x = y) ->
       forall (var_label : A) (default : T) (interp : A -> list T -> list T),
       (forall (a : A) (v v' : list T), length (interp a v) = length (interp a v')) ->
       forall apply : list A -> ic (list T) -> res (ic (list T)),
       C16Thm.apply_spec interp apply ->
       forall (prog : list (vcmd O A)) (ins outs : list nat) (inp r : list T),
       den default interp prog ins outs inp = Some r ->
       (forall (op : A) (args : list nat) (rts : list O), In (CApply op args rts) prog -> op <> var_label) ->
       exists (f g : lohg O A) (s : ohg O A),
         var_build var_label prog ins outs false = Ok (Some f) /\
         forget var_label eqO eqA B f = Ok g /\
         lohg_to_strict B eqO g = Ok s /\
         wf_ohg s /\ Iso (expected prog ins outs) (abs s) /\ eval B' default apply s inp = Ok (Some r).
Proof. exact (@C19cThm.C19_semantic_gen). Qed.

Theorem C19_forget_built_is_expected : forall (prog : list (vcmd nat nat)) (ins outs : list nat) (inp r : list BinNums.Z),
       SpecCheck.denote prog ins outs inp = Some r ->
       (forall (op : nat) (args rts : list nat), In (CApply op args rts) prog -> op <> 9) ->
       exists (f g : lohg nat nat) (s : ohg nat nat),
         var_build 9 prog ins outs false = Ok (Some f) /\
         forget 9 Nat.eqb Nat.eqb VecBackend f = Ok g /\
         lohg_to_strict VecBackend Nat.eqb g = Ok s /\ NIso (expected prog ins outs) (abs s).
Proof. exact (@C19cThm.C19_forget_built_is_expected). Qed.

Theorem C19_build_structure : forall (O A : Type) (var_label : A), C19_build_structure_full O A var_label.
Proof. exact (@C19Thm.C19_build_structure). Qed.

Theorem C19_build_nodes : forall (O0 A : Type) (var_label : A) (prog : list (vcmd O0 A)) (ins outs : list nat),
       prog_ok 0 prog ->
       Forall (fun h : nat => h < nvars prog) ins ->
       Forall (fun h : nat => h < nvars prog) outs ->
       exists (f : lohg O0 A) (vs : list (nat * O0)),
         var_build var_label prog ins outs false = Ok (Some f) /\
         (forall n : nat,
          n < length (l_nodes (lo_h f)) ->
          exists (k : nat) (b : bool) (e : nat) (l : O0) (S T : list nat),
            nth_error (build_roles prog ins outs) n = Some (k, b) /\
            nth_error vs k = Some (e, l) /\
            nth_error (g_labels prog) k = Some l /\
            nth_error (l_nodes (lo_h f)) n = Some l /\
            nth_error (l_edges (lo_h f)) e = Some var_label /\
            nth_error (l_adj (lo_h f)) e = Some (S, T) /\
            In n (if b then S else T) /\
            ~ In n (if b then T else S) /\
            NoDup S /\
            NoDup T /\
            (forall (k' e' : nat) (l' : O0) (S' T' : list nat),
             nth_error vs k' = Some (e', l') ->
             nth_error (l_adj (lo_h f)) e' = Some (S', T') -> In n (S' ++ T') -> k' = k)).
Proof. exact (@C19Thm.C19_build_nodes). Qed.

Theorem C19_build_ops : forall (O0 A : Type) (var_label : A) (prog : list (vcmd O0 A)) (ins outs : list nat),
       prog_ok 0 prog ->
       Forall (fun h : nat => h < nvars prog) ins ->
       Forall (fun h : nat => h < nvars prog) outs ->
       exists (f : lohg O0 A) (vs : list (nat * O0)),
         var_build var_label prog ins outs false = Ok (Some f) /\
         (forall (e : nat) (op : A) (args res : list nat),
          nth_error (g_ek 0 prog) e = Some (inr (op, (args, res))) ->
          nth_error (l_edges (lo_h f)) e = Some op /\
          (exists S T : list nat,
             nth_error (l_adj (lo_h f)) e = Some (S, T) /\
             length S = length args /\
             length T = length res /\
             Forall2
               (fun n a : nat =>
                exists (ea : nat) (la : O0) (Sa Ta : list nat),
                  nth_error vs a = Some (ea, la) /\
                  nth_error (l_adj (lo_h f)) ea = Some (Sa, Ta) /\
                  In n Ta /\ nth_error (l_nodes (lo_h f)) n = Some la) S args /\
             Forall2
               (fun n r : nat =>
                exists (er : nat) (lr : O0) (Sr Tr : list nat),
                  nth_error vs r = Some (er, lr) /\
                  nth_error (l_adj (lo_h f)) er = Some (Sr, Tr) /\
                  In n Sr /\ nth_error (l_nodes (lo_h f)) n = Some lr) T res)).
Proof. exact (@C19Thm.C19_build_ops). Qed.

Theorem C19_build_typed : forall (O0 A : Type) (var_label : A) (prog : list (vcmd O0 A)) (ins outs : list nat),
       prog_ok 0 prog ->
       Forall (fun h : nat => h < nvars prog) ins ->
       Forall (fun h : nat => h < nvars prog) outs ->
       exists (f : lohg O0 A) (ls lt : list O0),
         var_build var_label prog ins outs false = Ok (Some f) /\
         lohg_source f = Ok ls /\
         lohg_target f = Ok lt /\
         Forall2 (fun (k : nat) (l : O0) => nth_error (g_labels prog) k = Some l) ins ls /\
         Forall2 (fun (k : nat) (l : O0) => nth_error (g_labels prog) k = Some l) outs lt.
Proof. exact (@C19Thm.C19_build_typed). Qed.

Theorem C19_all_equal : forall (O : Type) (eqO : O -> O -> bool) (a b : list O),
       (forall x y : O, eqO x y = true <-> x = y) ->
       all_elements_equal eqO a b = true <-> (forall x y : O, In x (a ++ b) -> In y (a ++ b) -> x = y).
Proof. exact (@C19Thm.C19_all_equal). Qed.

Theorem C19_forget_operation : forall (O A : Type) (var_label : A) (eqO : O -> O -> bool) (eqA : A -> A -> bool) 
         (a : A) (s t : list O),
       forget_map_operation var_label eqO eqA a s t = forget_image var_label eqO eqA a s t.
Proof. exact (@C19Thm.C19_forget_operation). Qed.

Theorem C19_forget_operation_typed : forall (O A : Type) (var_label : A) (eqO : O -> O -> bool) (eqA : A -> A -> bool),
       (forall x y : O, eqO x y = true <-> x = y) ->
       forall (a : A) (s t : list O),
       lohg_source (forget_map_operation var_label eqO eqA a s t) = Ok s /\
       lohg_target (forget_map_operation var_label eqO eqA a s t) = Ok t.
Proof. exact (@C19Thm.C19_forget_operation_typed). Qed.

Theorem C19_forget_image_cases : forall (O A : Type) (eqO : O -> O -> bool),
       (forall x y : O, eqO x y = true <-> x = y) ->
       forall eqA : A -> A -> bool,
       (forall x y : A, eqA x y = true <-> x = y) ->
       forall (var_label a : A) (s t : list O),
       (forgettable var_label a s t ->
        forget_image var_label eqO eqA a s t =
        match s ++ t with
        | [] => lohg_empty
        | c :: _ => spider1 A c (length s) (length t)
        end) /\
       (~ forgettable var_label a s t -> forget_image var_label eqO eqA a s t = lohg_singleton a s t).
Proof. exact (@C19bThm.C19_forget_image_cases). Qed.

Theorem C19_forget_mono : forall (O0 A : Type) (var_label : A) (eqO : O0 -> O0 -> bool) (eqA : A -> A -> bool) 
         (a : A) (s t : list O0),
       (length s = 1 /\ length t = 1 ->
        forget_mono_map_operation var_label eqO eqA a s t = forget_map_operation var_label eqO eqA a s t) /\
       (~ (length s = 1 /\ length t = 1) ->
        forget_mono_map_operation var_label eqO eqA a s t = lohg_singleton a s t).
Proof. exact (@C19Thm.C19_forget_mono). Qed.

Theorem C19_forget_total_typed : forall B : Backend,
       BackendOK B ->
       forall (O A : Type) (eqO : O -> O -> bool),
       (forall x y : O, eqO x y = true <-> x = y) ->
       forall (eqA : A -> A -> bool) (var_label : A) (f : lohg O A),
       C09Thm.lwf f ->
       C10Lemmas.ladj_ok f ->
       C09Thm.labels_consistent f ->
       exists (sf : ohg O A) (a b : list O) (g : lohg O A),
         lohg_to_strict B eqO f = Ok sf /\
         wf_ohg sf /\
         lohg_source f = Ok a /\
         lohg_target f = Ok b /\
         ohg_source sf = Ok a /\
         ohg_target sf = Ok b /\
         forget var_label eqO eqA B f = Ok g /\
         C09Thm.lwf g /\
         C10Lemmas.ladj_ok g /\
         pending g = [] /\ l_q (lo_h g) = ([], []) /\ lohg_source g = Ok a /\ lohg_target g = Ok b.
Proof. exact (@C19bThm.C19_forget_total_typed). Qed.

Theorem C19_forget_monogamous_total_typed : forall B : Backend,
       BackendOK B ->
       forall (O A : Type) (eqO : O -> O -> bool),
       (forall x y : O, eqO x y = true <-> x = y) ->
       forall (eqA : A -> A -> bool) (var_label : A) (f : lohg O A),
       C09Thm.lwf f ->
       C10Lemmas.ladj_ok f ->
       C09Thm.labels_consistent f ->
       exists (sf : ohg O A) (a b : list O) (g : lohg O A),
         lohg_to_strict B eqO f = Ok sf /\
         wf_ohg sf /\
         lohg_source f = Ok a /\
         lohg_target f = Ok b /\
         ohg_source sf = Ok a /\
         ohg_target sf = Ok b /\
         forget_monogamous var_label eqO eqA B f = Ok g /\
         C09Thm.lwf g /\
         C10Lemmas.ladj_ok g /\
         pending g = [] /\ l_q (lo_h g) = ([], []) /\ lohg_source g = Ok a /\ lohg_target g = Ok b.
Proof. exact (@C19bThm.C19_forget_monogamous_total_typed). Qed.

Theorem C19_forget_subst : forall B : Backend,
       BackendOK B ->
       forall (O A : Type) (eqO : O -> O -> bool),
       (forall x y : O, eqO x y = true <-> x = y) ->
       forall (eqA : A -> A -> bool) (var_label : A) (f : lohg O A),
       C09Thm.lwf f ->
       C10Lemmas.ladj_ok f ->
       C09Thm.labels_consistent f ->
       exists (sf fx h : ohg O A) (g : lohg O A),
         lohg_to_strict B eqO f = Ok sf /\
         wf_ohg sf /\
         ic_elements (semi_vops O) (h_w (o_h sf)) = Ok (forget_fw (h_w (o_h sf))) /\
         (forall l : list nat,
          all_lt (length (h_w (o_h sf))) l -> C12Lemmas.expand (forget_fw (h_w (o_h sf))) l = l) /\
         lax_good (forget_batch eqO eqA var_label sf) /\
         l_q (lo_h (forget_batch eqO eqA var_label sf)) = ([], []) /\
         lohg_to_strict B eqO (forget_batch eqO eqA var_label sf) = Ok fx /\
         wf_ohg fx /\
         define_map_arrow B eqO (dyn_functor (forget_functor var_label eqO eqA) B eqO) sf = Ok h /\
         wf_ohg h /\
         C12Thm.IsSubst sf (forget_fw (h_w (o_h sf))) fx (abs h) /\
         forget var_label eqO eqA B f = Ok g /\ lohg_from_strict h = Ok g /\ labs g = abs h.
Proof. exact (@C19bThm.C19_forget_subst). Qed.

Theorem C19_forget_monogamous_subst : forall B : Backend,
       BackendOK B ->
       forall (O A : Type) (eqO : O -> O -> bool),
       (forall x y : O, eqO x y = true <-> x = y) ->
       forall (eqA : A -> A -> bool) (var_label : A) (f : lohg O A),
       C09Thm.lwf f ->
       C10Lemmas.ladj_ok f ->
       C09Thm.labels_consistent f ->
       exists (sf fx h : ohg O A) (g : lohg O A),
         lohg_to_strict B eqO f = Ok sf /\
         wf_ohg sf /\
         ic_elements (semi_vops O) (h_w (o_h sf)) = Ok (forget_fw (h_w (o_h sf))) /\
         (forall l : list nat,
          all_lt (length (h_w (o_h sf))) l -> C12Lemmas.expand (forget_fw (h_w (o_h sf))) l = l) /\
         lax_good (forget_mono_batch eqO eqA var_label sf) /\
         l_q (lo_h (forget_mono_batch eqO eqA var_label sf)) = ([], []) /\
         lohg_to_strict B eqO (forget_mono_batch eqO eqA var_label sf) = Ok fx /\
         wf_ohg fx /\
         define_map_arrow B eqO (dyn_functor (forget_mono_functor var_label eqO eqA) B eqO) sf = Ok h /\
         wf_ohg h /\
         C12Thm.IsSubst sf (forget_fw (h_w (o_h sf))) fx (abs h) /\
         forget_monogamous var_label eqO eqA B f = Ok g /\ lohg_from_strict h = Ok g /\ labs g = abs h.
Proof. exact (@C19bThm.C19_forget_monogamous_subst). Qed.

Theorem C19_dyn_total_typed : forall B : Backend,
       BackendOK B ->
       forall (O1 A1 O2 A2 : Type) (eqO1 : O1 -> O1 -> bool),
       (forall x y : O1, eqO1 x y = true <-> x = y) ->
       forall eqO2 : O2 -> O2 -> bool,
       (forall x y : O2, eqO2 x y = true <-> x = y) ->
       forall F : lfunctor O1 A1 O2 A2,
       lf_contract F ->
       forall f : lohg O1 A1,
       C09Thm.lwf f ->
       C10Lemmas.ladj_ok f ->
       C09Thm.labels_consistent f ->
       exists (sf : ohg O1 A1) (a b : list O1) (g : lohg O2 A2),
         lohg_to_strict B eqO1 f = Ok sf /\
         wf_ohg sf /\
         lohg_source f = Ok a /\
         lohg_target f = Ok b /\
         ohg_source sf = Ok a /\
         ohg_target sf = Ok b /\
         dyn_define_map_arrow F B eqO1 eqO2 f = Ok g /\
         C09Thm.lwf g /\
         C10Lemmas.ladj_ok g /\
         pending g = [] /\
         l_q (lo_h g) = ([], []) /\
         lohg_source g = Ok (flat_map (lf_map_object F) a) /\
         lohg_target g = Ok (flat_map (lf_map_object F) b).
Proof. exact (@C19bLemmas.dyn_total_typed). Qed.

Theorem C19_dyn_substitution : forall B : Backend,
       BackendOK B ->
       forall (O1 A1 O2 A2 : Type) (eqO1 : O1 -> O1 -> bool),
       (forall x y : O1, eqO1 x y = true <-> x = y) ->
       forall eqO2 : O2 -> O2 -> bool,
       (forall x y : O2, eqO2 x y = true <-> x = y) ->
       forall F : lfunctor O1 A1 O2 A2,
       lf_contract F ->
       forall f : lohg O1 A1,
       C09Thm.lwf f ->
       C10Lemmas.ladj_ok f ->
       C09Thm.labels_consistent f ->
       exists (sf : ohg O1 A1) (fx h : ohg O2 A2) (g : lohg O2 A2),
         lohg_to_strict B eqO1 f = Ok sf /\
         wf_ohg sf /\
         dyn_map_object F (h_w (o_h sf)) = Ok (dyn_fw F (h_w (o_h sf))) /\
         decode_s (dyn_fw F (h_w (o_h sf))) = map (lf_map_object F) (h_w (o_h sf)) /\
         lohg_to_strict B eqO2 (dyn_batch F (edge_gens sf)) = Ok fx /\
         wf_ohg fx /\
         define_map_arrow B eqO2 (dyn_functor F B eqO2) sf = Ok h /\
         wf_ohg h /\
         C12Thm.IsSubst sf (dyn_fw F (h_w (o_h sf))) fx (abs h) /\
         dyn_define_map_arrow F B eqO1 eqO2 f = Ok g /\ lohg_from_strict h = Ok g /\ labs g = abs h.
Proof. exact (@C19bLemmas.dyn_substitution). Qed.

Print Assumptions C19_semantic.
Print Assumptions C19_semantic_run.
Print Assumptions C19_semantic_any_backends.
Print Assumptions C19_semantic_gen.
Print Assumptions C19_forget_built_is_expected.
Print Assumptions C19_build_structure.
Print Assumptions C19_build_nodes.
Print Assumptions C19_build_ops.
Print Assumptions C19_build_typed.
Print Assumptions C19_all_equal.
Print Assumptions C19_forget_operation.
Print Assumptions C19_forget_operation_typed.
Print Assumptions C19_forget_image_cases.
Print Assumptions C19_forget_mono.
Print Assumptions C19_forget_total_typed.
Print Assumptions C19_forget_monogamous_total_typed.
Print Assumptions C19_forget_subst.
Print Assumptions C19_forget_monogamous_subst.
Print Assumptions C19_dyn_total_typed.
Print Assumptions C19_dyn_substitution.
