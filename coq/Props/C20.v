(* C20 — Results do not depend on unspecified choices of the array backend: every theorem below (and every theorem of C01-C08, C12-C18 stated with a BackendOK premise) quantifies over ALL contract-conforming back-ends.
   Property theorems only: each statement is spelled out and closed by [exact] of a lemma proved in Proofs/. *)
From OHG Require Import Spec.GraphSpec Proofs.Assemble Proofs.BackendInst Proofs.Adv2Inst.

Theorem C20_vec_conforms : BackendOK VecBackend.
Proof. exact (@BackendInst.VecBackend_ok). Qed.

Theorem C20_adv_conforms : BackendOK AdvBackend.
Proof. exact (@BackendInst.AdvBackend_ok). Qed.

Theorem C20_compose : forall B1 B2 : Backend,
       BackendOK B1 ->
       BackendOK B2 ->
       forall (O A : Type) (eqO : O -> O -> bool),
       (forall x y : O, eqO x y = true <-> x = y) ->
       forall f g : ohg O A,
       wf_ohg f ->
       wf_ohg g ->
       (ohg_compose B1 eqO f g = Ok None <-> ohg_compose B2 eqO f g = Ok None) /\
       (forall h1 h2 : ohg O A,
        ohg_compose B1 eqO f g = Ok (Some h1) ->
        ohg_compose B2 eqO f g = Ok (Some h2) -> NIso (abs h1) (abs h2)).
Proof. exact (@Assemble.C20_compose). Qed.

Theorem C20_layer : forall B1 B2 : Backend,
       BackendOK B1 -> BackendOK B2 -> forall (O A : Type) (f : ohg O A), wf_ohg f -> layer B1 f = layer B2 f.
Proof. exact (@Assemble.C20_layer). Qed.

Theorem C20_layered_operations : forall B1 B2 : Backend,
       BackendOK B1 ->
       BackendOK B2 ->
       forall (O A : Type) (f : ohg O A) (g1 : list (list nat)) (u1 : list nat) (g2 : list (list nat))
         (u2 : list nat),
       wf_ohg f ->
       layered_operations B1 f = Ok (g1, u1) ->
       layered_operations B2 f = Ok (g2, u2) ->
       u1 = u2 /\ length g1 = length g2 /\ (forall l : nat, Permutation (nth l g1 []) (nth l g2 [])).
Proof. exact (@Assemble.C20_layered_operations). Qed.

Theorem C20_eval : forall B1 B2 : Backend,
       BackendOK B1 ->
       BackendOK B2 ->
       forall (O A T : Type) (default : T) (interp : A -> list T -> list T)
         (apply : list A -> ic (list T) -> res (ic (list T))) (f : ohg O A) (inp : list T),
       C16Thm.apply_spec interp apply ->
       wf_ohg f ->
       C16Lemmas.single_writer f ->
       C16Lemmas.arity_ok interp f ->
       length inp = length (table (o_s f)) -> eval B1 default apply f inp = eval B2 default apply f inp.
Proof. exact (@Assemble.C20_eval). Qed.

Theorem C20_eval_refusal : forall B1 B2 : Backend,
       BackendOK B1 ->
       BackendOK B2 ->
       forall (O A T : Type) (default : T) (interp : A -> list T -> list T)
         (apply : list A -> ic (list T) -> res (ic (list T))) (f : ohg O A) (inp : list T),
       C16Thm.apply_spec interp apply ->
       wf_ohg f -> eval B1 default apply f inp = Ok None <-> eval B2 default apply f inp = Ok None.
Proof. exact (@Assemble.C20_eval_refusal). Qed.

Theorem C20_acyclic : forall B1 B2 : Backend,
       BackendOK B1 ->
       BackendOK B2 -> forall (O A : Type) (h : hg O A), wf_hg h -> hg_is_acyclic B1 h = hg_is_acyclic B2 h.
Proof. exact (@Assemble.C20_acyclic). Qed.

Theorem C20_acyclic_ohg : forall B1 B2 : Backend,
       BackendOK B1 ->
       BackendOK B2 ->
       forall (O A : Type) (f : ohg O A), wf_ohg f -> ohg_is_acyclic B1 f = ohg_is_acyclic B2 f.
Proof. exact (@Assemble.C20_acyclic_ohg). Qed.

Theorem C20_convex : forall B1 B2 : Backend,
       BackendOK B1 ->
       BackendOK B2 ->
       forall (O A : Type) (m : hg_arrow O A),
       wf_hg (ar_target m) ->
       wf_ff (ar_w m) ->
       target (ar_w m) = length (h_w (ar_target m)) ->
       wf_ff (ar_x m) ->
       target (ar_x m) = length (h_x (ar_target m)) ->
       arrow_is_convex_subgraph B1 m = arrow_is_convex_subgraph B2 m.
Proof. exact (@Assemble.C20_convex). Qed.

Theorem C20_adv2_conforms : BackendOK Adv2Backend.
Proof. exact (@Adv2Backend_ok). Qed.

Print Assumptions C20_vec_conforms.
Print Assumptions C20_adv_conforms.
Print Assumptions C20_compose.
Print Assumptions C20_layer.
Print Assumptions C20_layered_operations.
Print Assumptions C20_eval.
Print Assumptions C20_eval_refusal.
Print Assumptions C20_acyclic.
Print Assumptions C20_acyclic_ohg.
Print Assumptions C20_convex.
Print Assumptions C20_adv2_conforms.
