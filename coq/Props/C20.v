(* C20 — Results do not depend on unspecified choices of the array backend: every theorem below (and every theorem of C01-C08, C12-C18 stated with a BackendOK premise) quantifies over ALL contract-conforming back-ends.
   Property theorems only: each statement is spelled out and closed by [exact] of a lemma proved in Proofs/. *)
From OHG Require Import Spec.GraphSpec Proofs.Assemble Proofs.BackendInst Proofs.Adv2Inst Proofs.C20Functor.

Theorem C20_vec_conforms : BackendOK VecBackend.
Proof. exact (@BackendInst.VecBackend_ok). Qed.

Theorem C20_adv_conforms : BackendOK AdvBackend.
Proof. exact (@BackendInst.AdvBackend_ok). Qed.

Theorem C20_compose : forall B1 B2 : Backend,
       BackendOK B1 ->
       BackendOK B2 ->
       forall (O A : Type) (eqO : O -> O -> bool),
       (forall x y : O, eqO x y = true <-> x = y) ->
       forall f g : ohg O A,
       wf_ohg f ->
       wf_ohg g ->
       (ohg_compose B1 eqO f g = Ok None <-> ohg_compose B2 eqO f g = Ok None) /\
       (forall h1 h2 : ohg O A,
        ohg_compose B1 eqO f g = Ok (Some h1) ->
        ohg_compose B2 eqO f g = Ok (Some h2) -> NIso (abs h1) (abs h2)).
Proof. exact (@Assemble.C20_compose). Qed.

Theorem C20_layer : forall B1 B2 : Backend,
       BackendOK B1 -> BackendOK B2 -> forall (O A : Type) (f : ohg O A), wf_ohg f -> layer B1 f = layer B2 f.
Proof. exact (@Assemble.C20_layer). Qed.

Theorem C20_layered_operations : forall B1 B2 : Backend,
       BackendOK B1 ->
       BackendOK B2 ->
       forall (O A : Type) (f : ohg O A) (g1 : list (list nat)) (u1 : list nat) (g2 : list (list nat))
         (u2 : list nat),
       wf_ohg f ->
       layered_operations B1 f = Ok (g1, u1) ->
       layered_operations B2 f = Ok (g2, u2) ->
       u1 = u2 /\ length g1 = length g2 /\ (forall l : nat, Permutation (nth l g1 []) (nth l g2 [])).
Proof. exact (@Assemble.C20_layered_operations). Qed.

Theorem C20_eval : forall B1 B2 : Backend,
       BackendOK B1 ->
       BackendOK B2 ->
       forall (O A T : Type) (default : T) (interp : A -> list T -> list T)
         (apply : list A -> ic (list T) -> res (ic (list T))) (f : ohg O A) (inp : list T),
       C16Thm.apply_spec interp apply ->
       wf_ohg f ->
       C16Lemmas.single_writer f ->
       C16Lemmas.arity_ok interp f ->
       length inp = length (table (o_s f)) -> eval B1 default apply f inp = eval B2 default apply f inp.
Proof. exact (@Assemble.C20_eval). Qed.

Theorem C20_eval_refusal : forall B1 B2 : Backend,
       BackendOK B1 ->
       BackendOK B2 ->
       forall (O A T : Type) (default : T) (interp : A -> list T -> list T)
         (apply : list A -> ic (list T) -> res (ic (list T))) (f : ohg O A) (inp : list T),
       C16Thm.apply_spec interp apply ->
       wf_ohg f -> eval B1 default apply f inp = Ok None <-> eval B2 default apply f inp = Ok None.
Proof. exact (@Assemble.C20_eval_refusal). Qed.

Theorem C20_acyclic : forall B1 B2 : Backend,
       BackendOK B1 ->
       BackendOK B2 -> forall (O A : Type) (h : hg O A), wf_hg h -> hg_is_acyclic B1 h = hg_is_acyclic B2 h.
Proof. exact (@Assemble.C20_acyclic). Qed.

Theorem C20_acyclic_ohg : forall B1 B2 : Backend,
       BackendOK B1 ->
       BackendOK B2 ->
       forall (O A : Type) (f : ohg O A), wf_ohg f -> ohg_is_acyclic B1 f = ohg_is_acyclic B2 f.
Proof. exact (@Assemble.C20_acyclic_ohg). Qed.

Theorem C20_convex : forall B1 B2 : Backend,
       BackendOK B1 ->
       BackendOK B2 ->
       forall (O A : Type) (m : hg_arrow O A),
       wf_hg (ar_target m) ->
       wf_ff (ar_w m) ->
       target (ar_w m) = length (h_w (ar_target m)) ->
       wf_ff (ar_x m) ->
       target (ar_x m) = length (h_x (ar_target m)) ->
       arrow_is_convex_subgraph B1 m = arrow_is_convex_subgraph B2 m.
Proof. exact (@Assemble.C20_convex). Qed.

Theorem C20_adv2_conforms : BackendOK Adv2Backend.
Proof. exact (@Adv2Backend_ok). Qed.

Theorem C20_spider_map_arrow : forall B1 B2 : Backend,
       BackendOK B1 ->
       BackendOK B2 ->
       forall (O1 A1 O2 A2 : Type) (eqO2 : O2 -> O2 -> bool),
       (forall x y : O2, eqO2 x y = true <-> x = y) ->
       forall (f : ohg O1 A1) (fw : ic (list O2)) (fx : ohg O2 A2),
       wf_ohg f ->
       wf_ics fw ->
       ic_len fw = length (h_w (o_h f)) ->
       wf_ohg fx ->
       C12Thm.fx_typed f fw fx ->
       exists h1 h2 : ohg O2 A2,
         spider_map_arrow B1 eqO2 f fw fx = Ok h1 /\
         spider_map_arrow B2 eqO2 f fw fx = Ok h2 /\ wf_ohg h1 /\ wf_ohg h2 /\ Iso (abs h1) (abs h2).
Proof. exact (@C20Functor.C20_spider_map_arrow). Qed.

Theorem C20_define_map_arrow : forall B1 B2 : Backend,
       BackendOK B1 ->
       BackendOK B2 ->
       forall (O1 A1 O2 A2 : Type) (eqO2 : O2 -> O2 -> bool),
       (forall x y : O2, eqO2 x y = true <-> x = y) ->
       forall (F : sfunctor O1 A1 O2 A2) (f : ohg O1 A1) (fw : ic (list O2)) (fx : ohg O2 A2),
       wf_ohg f ->
       (forall ops : operations O1 A1, to_operations f = Ok ops -> sf_map_operations F ops = Ok fx) ->
       sf_map_object F (h_w (o_h f)) = Ok fw ->
       wf_ics fw ->
       ic_len fw = length (h_w (o_h f)) ->
       wf_ohg fx ->
       C12Thm.fx_typed f fw fx ->
       exists h1 h2 : ohg O2 A2,
         define_map_arrow B1 eqO2 F f = Ok h1 /\
         define_map_arrow B2 eqO2 F f = Ok h2 /\ Iso (abs h1) (abs h2).
Proof. exact (@C20Functor.C20_define_map_arrow). Qed.

Theorem C20_identity_functor : forall (B1 B2 : Backend) (O A : Type) (eqO : O -> O -> bool) (f : ohg O A),
       BackendOK B1 ->
       BackendOK B2 ->
       (forall x y : O, eqO x y = true <-> x = y) ->
       wf_ohg f ->
       exists h1 h2 : ohg O A,
         define_map_arrow B1 eqO (identity_functor O A) f = Ok h1 /\
         define_map_arrow B2 eqO (identity_functor O A) f = Ok h2 /\
         wf_ohg h1 /\ wf_ohg h2 /\ Iso (abs h1) (abs h2).
Proof. exact (@C20Functor.C20_identity_functor). Qed.

Theorem C20_dyn_functor : forall B1 B2 B1' B2' : Backend,
       BackendOK B1 ->
       BackendOK B2 ->
       BackendOK B1' ->
       BackendOK B2' ->
       forall (O1 A1 O2 A2 : Type) (eqO2 : O2 -> O2 -> bool),
       (forall x y : O2, eqO2 x y = true <-> x = y) ->
       forall (G : lfunctor O1 A1 O2 A2) (f : ohg O1 A1),
       wf_ohg f ->
       Forall (dyn_adm G) (C14dDefs.pgens (abs f)) ->
       exists h1 h2 : ohg O2 A2,
         define_map_arrow B1 eqO2 (dyn_functor G B1' eqO2) f = Ok h1 /\
         define_map_arrow B2 eqO2 (dyn_functor G B2' eqO2) f = Ok h2 /\
         wf_ohg h1 /\ wf_ohg h2 /\ Iso (abs h1) (abs h2).
Proof. exact (@C20Functor.C20_dyn_functor). Qed.

Theorem C20_optic_map_arrow : forall B1 B2 : Backend,
       BackendOK B1 ->
       BackendOK B2 ->
       forall (O1 A1 O2 A2 : Type) (eqO2 : O2 -> O2 -> bool),
       (forall x y : O2, eqO2 x y = true <-> x = y) ->
       forall (Fobj Robj : O1 -> list O2) (adm : A1 * (list O1 * list O1) -> Prop)
         (fimg rimg : A1 * (list O1 * list O1) -> pohg O2 A2) (Mres : A1 * (list O1 * list O1) -> list O2)
         (P : optic O1 A1 O2 A2) (f : ohg O1 A1),
       C14dDefs.pw_contract P Fobj Robj adm fimg rimg Mres ->
       C14dFunct.adm_diagram adm f ->
       exists H1 H2 : ohg O2 A2,
         optic_map_arrow B1 eqO2 P f = Ok H1 /\ optic_map_arrow B2 eqO2 P f = Ok H2 /\ Iso (abs H1) (abs H2).
Proof. exact (@C20Functor.C20_optic_map_arrow). Qed.

Theorem C20_optic_adapt : forall (O1 A1 O2 A2 : Type) (eqO2 : O2 -> O2 -> bool),
       (forall x y : O2, eqO2 x y = true <-> x = y) ->
       forall (Fobj Robj : O1 -> list O2) (B1 B2 : Backend),
       BackendOK B1 ->
       BackendOK B2 ->
       forall (P : optic O1 A1 O2 A2) (c1 c2 : ohg O2 A2) (a b : list O1),
       object_contract Fobj Robj P ->
       C14bThm.typed c1 (C14bThm.optic_values Fobj Robj a) (C14bThm.optic_values Fobj Robj b) ->
       wf_ohg c2 ->
       Iso (abs c1) (abs c2) ->
       exists d1 d2 : ohg O2 A2,
         optic_adapt B1 eqO2 P c1 a b = Ok d1 /\
         optic_adapt B2 eqO2 P c2 a b = Ok d2 /\ wf_ohg d1 /\ wf_ohg d2 /\ Iso (abs d1) (abs d2).
Proof. exact (@C20Functor.C20_optic_adapt). Qed.

Theorem C20_poly_optic : forall (B1 B2 : Backend) (s : ohg nat nat),
       BackendOK B1 ->
       BackendOK B2 ->
       poly_circuit s ->
       exists H1 H2 : ohg nat nat,
         optic_map_arrow B1 Nat.eqb C14Thm.poly_strict_optic s = Ok H1 /\
         optic_map_arrow B2 Nat.eqb C14Thm.poly_strict_optic s = Ok H2 /\ Iso (abs H1) (abs H2).
Proof. exact (@C20Functor.C20_poly_optic). Qed.

Theorem C20_poly_adapted : forall (B1 B2 : Backend) (s : ohg nat nat),
       BackendOK B1 ->
       BackendOK B2 ->
       poly_circuit s ->
       exists d1 d2 : ohg nat nat,
         poly_adapted_strict_B B1 s = Ok d1 /\
         poly_adapted_strict_B B2 s = Ok d2 /\ wf_ohg d1 /\ wf_ohg d2 /\ Iso (abs d1) (abs d2).
Proof. exact (@C20Functor.C20_poly_adapted). Qed.

Print Assumptions C20_vec_conforms.
Print Assumptions C20_adv_conforms.
Print Assumptions C20_compose.
Print Assumptions C20_layer.
Print Assumptions C20_layered_operations.
Print Assumptions C20_eval.
Print Assumptions C20_eval_refusal.
Print Assumptions C20_acyclic.
Print Assumptions C20_acyclic_ohg.
Print Assumptions C20_convex.
Print Assumptions C20_adv2_conforms.
Print Assumptions C20_spider_map_arrow.
Print Assumptions C20_define_map_arrow.
Print Assumptions C20_identity_functor.
Print Assumptions C20_dyn_functor.
Print Assumptions C20_optic_map_arrow.
Print Assumptions C20_optic_adapt.
Print Assumptions C20_poly_optic.
Print Assumptions C20_poly_adapted.
