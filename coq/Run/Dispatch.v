(* run_case: decode a case, run the model, encode the result.  All semantics of the
   correspondence check live here (in Coq); the OCaml driver only parses and prints. *)
From OHG Require Export Run.Sx Model.UnionFind.

Open Scope string_scope.

Definition a1 {A} (d : sx -> option A) (k : A -> sx) (args : list sx) : sx :=
  match args with [a] => match d a with Some a' => k a' | None => bad end | _ => bad end.
Definition a2 {A B} (da : sx -> option A) (db : sx -> option B) (k : A -> B -> sx) (args : list sx) : sx :=
  match args with
  | [a; b] => match da a, db b with Some a', Some b' => k a' b' | _, _ => bad end
  | _ => bad
  end.
Definition a3 {A B C} (da : sx -> option A) (db : sx -> option B) (dc : sx -> option C)
  (k : A -> B -> C -> sx) (args : list sx) : sx :=
  match args with
  | [a; b; c] => match da a, db b, dc c with Some a', Some b', Some c' => k a' b' c' | _, _, _ => bad end
  | _ => bad
  end.
Definition a4 {A B C D} (da : sx -> option A) (db : sx -> option B) (dc : sx -> option C)
  (dd : sx -> option D) (k : A -> B -> C -> D -> sx) (args : list sx) : sx :=
  match args with
  | [a; b; c; d] =>
      match da a, db b, dc c, dd d with
      | Some a', Some b', Some c', Some d' => k a' b' c' d'
      | _, _, _, _ => bad
      end
  | _ => bad
  end.

Definition e_rnats := e_res e_nats.
Definition e_rnat := e_res N.
Definition e_rff := e_res e_ff.
Definition e_roff := e_res (e_opt e_ff).
Definition e_off := e_opt e_ff.

Definition entry := (string * (list sx -> sx))%type.

(* Iterator::nth(k) in terms of the state machine: k+1 calls of next (std's default; an override must agree),
   stopping at the first None; a script is a list of k's, each step records (item, len afterwards) *)
Fixpoint it_nth {V} (next : ic_iter V -> res (option V * ic_iter V)) (k : nat) (it : ic_iter V)
  : res (option V * ic_iter V) :=
  r <- next it ;;
  match k, fst r with
  | O, _ => Ok r
  | _, None => Ok r
  | S k', Some _ => it_nth next k' (snd r)
  end.
(* Iterator::last: run to exhaustion (fuel = number of segments + 1), keep the last item *)
Fixpoint it_last {V} (next : ic_iter V -> res (option V * ic_iter V)) (fuel : nat) (acc : option V) (it : ic_iter V)
  : res (option V) :=
  match fuel with
  | O => Ok acc
  | S fuel' => r <- next it ;; match fst r with None => Ok acc | Some x => it_last next fuel' (Some x) (snd r) end
  end.
Fixpoint it_script {V} (next : ic_iter V -> res (option V * ic_iter V)) (ks : list nat) (it : ic_iter V)
  : res (list (option V * nat)) :=
  match ks with
  | [] => l <- it_last next (S (List.length (it_pointers it))) None it ;; Ok [(l, 0)]
  | k :: ks' =>
      r <- it_nth next k it ;;
      l <- ic_iter_len (snd r) ;;
      rest <- it_script next ks' (snd r) ;;
      Ok ((fst r, l) :: rest)
  end.

(* ---------------- C07: array primitives ---------------- *)
Definition tbl_array : list entry := [
  ("a_get", a2 d_nats d_nat (fun xs i => e_rnat (get xs i)));
  ("a_gather", a2 d_nats d_nats (fun xs ix => e_rnats (gather xs ix)));
  ("a_concat", a2 d_nats d_nats (fun xs ys => e_nats (concatenate xs ys)));
  ("a_fill", a2 d_nat d_nat (fun x n => e_nats (fill x n)));
  ("a_to_range", a2 d_nat d_range (fun n r => e_pair N N (to_range n r)));
  ("a_get_range", a2 d_nats d_range (fun xs r => e_rnats (get_range xs r)));
  ("a_set_range", a3 d_nats d_range d_nats (fun xs r v => e_rnats (set_range_r xs r v)));
  ("a_scatter", a4 d_backend d_nats d_nats d_nat (fun B xs ix n => e_rnats (b_scatter B xs ix n)));
  ("a_scatter_assign", a3 d_nats d_nats d_nats (fun xs ix v => e_rnats (scatter_assign xs ix v)));
  ("a_scatter_assign_constant", a3 d_nats d_nats d_nat (fun xs ix c => e_rnats (scatter_assign_constant xs ix c)));
  ("a_max", a1 d_nats (fun xs => e_opt N (amax xs)));
  ("a_cumsum", a1 d_nats (fun xs => e_nats (cumulative_sum xs)));
  ("a_sum", a1 d_nats (fun xs => e_rnat (asum xs)));
  ("a_arange", a2 d_nat d_nat (fun a b => e_rnats (arange a b)));
  ("a_repeat", a2 d_nats d_nats (fun k x => e_rnats (arepeat k x)));
  ("a_quot_rem", a2 d_nats d_nat (fun xs d => e_res (e_pair e_nats e_nats) (quot_rem xs d)));
  ("a_mul_constant_add", a3 d_nats d_nat d_nats (fun xs c ys => e_rnats (mul_constant_add xs c ys)));
  ("a_add", a2 d_nats d_nats (fun xs ys => e_rnats (aadd xs ys)));
  ("a_sub", a2 d_nats d_nats (fun xs ys => e_rnats (asub xs ys)));
  ("a_add_scalar", a2 d_nat d_nats (fun a xs => e_nats (add_scalar a xs)));
  ("a_bincount", a2 d_nats d_nat (fun xs n => e_rnats (bincount xs n)));
  ("a_zero", a1 d_nats (fun xs => e_nats (azero xs)));
  ("a_scatter_sub_assign", a3 d_nats d_nats d_nats (fun xs ix r => e_rnats (scatter_sub_assign xs ix r)));
  ("a_segmented_sum", a2 d_nats d_nats (fun s x => e_rnats (segmented_sum s x)));
  ("a_segmented_arange", a1 d_nats (fun s => e_rnats (segmented_arange s)));
  ("a_argsort", a2 d_backend d_nats (fun B xs => e_nats (b_argsort B xs)));
  ("a_sort_by", a3 d_backend d_nats d_nats (fun B xs k => e_rnats (sort_by B xs k)));
  ("a_sparse_bincount", a2 d_backend d_nats (fun B xs => e_pair e_nats e_nats (b_sparse_bincount B xs)));
  (* the harness runs these on the inputs scaled by 2^57 (and scales value outputs back): same model *)
  ("a_argsort_big", a2 d_backend d_nats (fun B xs => e_nats (b_argsort B xs)));
  ("a_sort_by_big", a3 d_backend d_nats d_nats (fun B xs k => e_rnats (sort_by B xs k)));
  ("a_sparse_bincount_big", a2 d_backend d_nats (fun B xs => e_pair e_nats e_nats (b_sparse_bincount B xs)));
  ("a_cc", a4 d_backend d_nats d_nats d_nat (fun B s t n => e_res (e_pair e_nats N) (connected_components B s t n)));
  (* the faithful union-find model of the Vec back-end (proved equal to cc_pure) *)
  ("a_cc_uf", a3 d_nats d_nats d_nat (fun s t n => e_res (e_pair e_nats N) (uf_connected_components s t n)));
  (* the generic primitives at an opaque element type: same model function *)
  ("al_get", a2 d_nats d_nat (fun xs i => e_rnat (get xs i)));
  ("al_gather", a2 d_nats d_nats (fun xs ix => e_rnats (gather xs ix)));
  ("al_concat", a2 d_nats d_nats (fun xs ys => e_nats (concatenate xs ys)));
  ("al_fill", a2 d_nat d_nat (fun x n => e_nats (fill x n)));
  ("al_get_range", a2 d_nats d_range (fun xs r => e_rnats (get_range xs r)));
  ("al_set_range", a3 d_nats d_range d_nats (fun xs r v => e_rnats (set_range_r xs r v)));
  ("al_scatter", a4 d_backend d_nats d_nats d_nat (fun B xs ix n => e_rnats (b_scatter B xs ix n)));
  ("al_scatter_assign", a3 d_nats d_nats d_nats (fun xs ix v => e_rnats (scatter_assign xs ix v)));
  ("al_scatter_assign_constant", a3 d_nats d_nats d_nat (fun xs ix c => e_rnats (scatter_assign_constant xs ix c)))
].

(* ---------------- C06: finite functions ---------------- *)
Definition d_sfa (x : sx) : option (sf_arrow nat) :=
  match x with
  | Sy "identity" => Some SFIdentity
  | L [Sy "finite"; f] => option_map (@SFFinite nat) (d_ff f)
  | L [Sy "semi"; u] => option_map (@SFSemi nat) (d_nats u)
  | _ => None
  end.
Definition e_sfa (a : sf_arrow nat) : sx :=
  match a with
  | SFIdentity => Sy "identity"
  | SFFinite f => L [Sy "finite"; e_ff f]
  | SFSemi u => L [Sy "semi"; e_nats u]
  end.
Definition d_sfobj (x : sx) : option (option nat) :=
  match x with Sy "set" => Some None | L [Sy "finite"; N n] => Some (Some n) | _ => None end.
Definition e_sfobj (o : option nat) : sx :=
  match o with None => Sy "set" | Some n => L [Sy "finite"; N n] end.

Definition tbl_ff : list entry := [
  ("ff_new", a2 d_nats d_nat (fun t n => e_off (ff_new t n)));
  ("ff_source", a1 d_ff (fun f => N (ff_source f)));
  ("ff_terminal", a1 d_nat (fun a => e_ff (ff_terminal a)));
  ("ff_constant", a3 d_nat d_nat d_nat (fun a x b => e_ff (ff_constant a x b)));
  ("ff_inject0", a2 d_ff d_nat (fun f b => e_ff (ff_inject0 f b)));
  ("ff_inject1", a2 d_ff d_nat (fun f a => e_ff (ff_inject1 f a)));
  ("ff_initial", a1 d_nat (fun a => e_ff (ff_initial a)));
  (* Coproduct::initial_object() and Monoidal::unit() of finite functions: the object 0 *)
  ("ff_unit_objects", (fun args => match args with [] => L [N 0; N 0] | _ => Sy "badcase" end));
  ("ff_to_initial", a1 d_ff (fun f => e_ff (ff_to_initial f)));
  ("ff_identity", a1 d_nat (fun a => e_rff (ff_identity a)));
  ("ff_compose", a2 d_ff d_ff (fun f g => e_roff (ff_compose f g)));
  ("ff_compose_semi", a2 d_ff d_nats (fun f u => e_res (e_opt e_nats) (ff_compose_semi f u)));
  ("ff_coproduct", a2 d_ff d_ff (fun f g => e_off (ff_coproduct f g)));
  ("ff_inj0", a2 d_nat d_nat (fun a b => e_rff (ff_inj0 a b)));
  ("ff_inj1", a2 d_nat d_nat (fun a b => e_rff (ff_inj1 a b)));
  ("ff_tensor", a2 d_ff d_ff (fun f g => e_ff (ff_tensor f g)));
  ("ff_twist", a2 d_nat d_nat (fun a b => e_rff (ff_twist a b)));
  ("ff_transpose", a2 d_nat d_nat (fun a b => e_rff (ff_transpose a b)));
  ("ff_injections", a2 d_ff d_ff (fun s a => e_roff (ff_injections s a)));
  ("ff_cumulative_sum", a1 d_ff (fun f => e_rff (ff_cumulative_sum f)));
  ("ff_is_injective", a1 d_ff (fun f => e_res e_bool (ff_is_injective f)));
  (* the PartialEq impls: structural equality of the representation *)
  ("ff_eq", a2 d_ff d_ff (fun f g => e_bool (list_eqb Nat.eqb (table f) (table g) && Nat.eqb (target f) (target g))));
  ("icf_eq", a2 d_icf d_icf (fun c d => e_bool (
      list_eqb Nat.eqb (table (ic_sources c)) (table (ic_sources d)) && Nat.eqb (target (ic_sources c)) (target (ic_sources d))
      && list_eqb Nat.eqb (table (ic_values c)) (table (ic_values d)) && Nat.eqb (target (ic_values c)) (target (ic_values d)))));
  ("ics_eq", a2 d_ics d_ics (fun c d => e_bool (
      list_eqb Nat.eqb (table (ic_sources c)) (table (ic_sources d)) && Nat.eqb (target (ic_sources c)) (target (ic_sources d))
      && list_eqb Nat.eqb (ic_values c) (ic_values d))));
  ("semi_eq", a2 d_nats d_nats (fun u v => e_bool (list_eqb Nat.eqb u v)));
  ("arr_eq", a2 d_nats d_nats (fun u v => e_bool (list_eqb Nat.eqb u v)));
  ("ff_coequalizer", a3 d_backend d_ff d_ff (fun B f g => e_roff (ff_coequalizer B f g)));
  ("ff_coequalizer_universal", a3 d_backend d_ff d_ff (fun B q f => e_roff (ff_coequalizer_universal B q f)));
  ("coequalizer_universal", a3 d_backend d_ff d_nats
     (fun B q u => e_res (e_opt e_nats) (coequalizer_universal B Nat.eqb q u)));
  ("sfa_source", a1 d_sfa (fun a => e_sfobj (sf_source a)));
  ("sfa_target", a1 d_sfa (fun a => e_sfobj (sf_target a)));
  ("sfa_identity", a1 d_sfobj (fun o => e_res e_sfa (sf_identity o)));
  ("sfa_compose", a2 d_sfa d_sfa (fun a b => e_res (e_opt e_sfa) (sf_compose a b)))
].

(* ---------------- C08: segmented arrays ---------------- *)
Definition e_roicf := e_res (e_opt e_icf).
Definition e_roics := e_res (e_opt e_ics).
Definition tbl_ic : list entry := [
  ("icf_new", a2 d_ff d_ff (fun s v => e_roicf (ic_new ff_vops s v)));
  ("ics_new", a2 d_ff d_nats (fun s v => e_roics (ic_new (semi_vops nat) s v)));
  ("icf_from_semifinite", a2 d_nats d_ff (fun s v => e_roicf (ic_from_semifinite ff_vops s v)));
  ("ics_from_semifinite", a2 d_nats d_nats (fun s v => e_roics (ic_from_semifinite (semi_vops nat) s v)));
  ("icf_singleton", a1 d_ff (fun v => e_icf (ic_singleton ff_vops v)));
  ("ics_singleton", a1 d_nats (fun v => e_ics (ic_singleton (semi_vops nat) v)));
  ("icf_elements", a1 d_ff (fun v => e_res e_icf (ic_elements ff_vops v)));
  ("ics_elements", a1 d_nats (fun v => e_res e_ics (ic_elements (semi_vops nat) v)));
  ("icf_len", a1 d_icf (fun c => N (ic_len c)));
  ("icf_initial", a1 d_nat (fun n => e_icf (icf_initial n)));
  ("icf_tensor", a2 d_icf d_icf (fun c d => e_res e_icf (icf_tensor c d)));
  ("icf_coproduct", a2 d_icf d_icf (fun c d => e_roicf (ic_coproduct ff_vops c d)));
  ("ics_coproduct", a2 d_ics d_ics (fun c d => e_roics (ic_coproduct (semi_vops nat) c d)));
  ("icf_map_indexes", a2 d_icf d_ff (fun c x => e_roicf (ic_map_indexes ff_vops c x)));
  ("ics_map_indexes", a2 d_ics d_ff (fun c x => e_roics (ic_map_indexes (semi_vops nat) c x)));
  ("icf_indexed_values", a2 d_icf d_ff (fun c x => e_roff (ic_indexed_values ff_vops c x)));
  ("ics_indexed_values", a2 d_ics d_ff (fun c x => e_res (e_opt e_nats) (ic_indexed_values (semi_vops nat) c x)));
  ("icf_map_values", a2 d_icf d_ff (fun c x => e_roicf (icf_map_values c x)));
  ("icf_map_semifinite", a2 d_icf d_nats (fun c x => e_roics (icf_map_semifinite c x)));
  ("icf_flatmap", a2 d_icf d_icf (fun c d => e_res e_icf (icf_flatmap c d)));
  ("icf_flatmap_sources", a2 d_icf d_icf (fun c d => e_res e_icf (ic_flatmap_sources ff_vops c d)));
  ("ics_flatmap_sources", a2 d_ics d_ics (fun c d => e_res e_ics (ic_flatmap_sources (semi_vops nat) c d)));
  ("icf_iter", a1 d_icf (fun c =>
      e_res (e_list (e_pair e_ff N)) (l0 <- ic_iter_len (ic_into_iter c) ;;
                                      r <- icf_iter_run (ic_len c + 1) (ic_into_iter c) ;;
                                      Ok ((mkFF [] 0, l0) :: r))));
  ("ics_iter", a1 d_ics (fun c =>
      e_res (e_list (e_pair e_nats N)) (l0 <- ic_iter_len (ic_into_iter c) ;;
                                        r <- ics_iter_run (ic_len c + 1) (ic_into_iter c) ;;
                                        Ok (([], l0) :: r))));
  ("icf_iter_script", a2 d_icf d_nats (fun c ks =>
      e_res (e_list (e_pair (e_opt e_ff) N)) (it_script icf_iter_next ks (ic_into_iter c))));
  ("ics_iter_script", a2 d_ics d_nats (fun c ks =>
      e_res (e_list (e_pair (e_opt e_nats) N)) (it_script ics_iter_next ks (ic_into_iter c))));
  ("ics_iter_slices", a1 d_ics (fun c => e_res (e_list e_nats) (ics_iter_slices c)));
  ("ops_new", a3 d_nats d_ics d_ics (fun x a b => e_opt e_ops (ops_new x a b)));
  ("ops_validate", a1 d_ops (fun p => e_opt e_ops (ops_validate p)));
  ("a_to_dense", a1 d_nats (fun l => e_pair e_nats N (to_dense l)));
  ("ops_singleton", a3 d_nat d_nats d_nats (fun x a b => e_ops (ops_singleton x a b)));
  ("ops_iter", a1 d_ops (fun p =>
      e_res (e_list (fun t => L [N (fst (fst t)); e_nats (snd (fst t)); e_nats (snd t)])) (ops_iter p)))
].

Fixpoint lookup (op : string) (t : list entry) : option (list sx -> sx) :=
  match t with
  | [] => None
  | (name, f) :: t' => if String.eqb op name then Some f else lookup op t'
  end.

(* ---------------- strict hypergraphs / open hypergraphs: C01-C05, C17 ---------------- *)
Definition e_rohg := e_res e_ohg.
Definition e_roohg := e_res (e_opt e_ohg).
Definition tbl_strict : list entry := [
  ("hg_new", a4 d_icf d_icf d_nats d_nats (fun s t w x => e_sum e_hg e_invalid_hg (hg_new s t w x)));
  ("hg_empty", fun _ => e_hg hg_empty);
  ("hg_discrete", a1 d_nats (fun w => e_hg (hg_discrete nat w)));
  ("hg_is_discrete", a1 d_hg (fun h => e_bool (hg_is_discrete h)));
  ("hg_coproduct", a2 d_hg d_hg (fun g h => e_res e_hg (hg_coproduct g h)));
  ("hg_tensor_operations", a1 d_ops (fun p => e_res e_hg (hg_tensor_operations p)));
  ("hg_in_degree", a2 d_hg d_nat (fun h n => e_rnat (hg_in_degree h n)));
  ("hg_out_degree", a2 d_hg d_nat (fun h n => e_rnat (hg_out_degree h n)));
  ("hg_coequalize_vertices", a3 d_backend d_hg d_ff
     (fun B h q => e_res (e_opt e_hg) (hg_coequalize_vertices B Nat.eqb h q)));
  ("hg_is_acyclic", a2 d_backend d_hg (fun B h => e_res e_bool (hg_is_acyclic B h)));
  ("ohg_new", a3 d_ff d_ff d_hg (fun s t h => e_sum e_ohg e_invalid_ohg (ohg_new s t h)));
  ("ohg_tensor_operations", a1 d_ops (fun p => e_rohg (ohg_tensor_operations p)));
  ("ohg_singleton", a3 d_nat d_nats d_nats (fun x a b => e_rohg (ohg_singleton x a b)));
  ("ohg_source", a1 d_ohg (fun f => e_rnats (ohg_source f)));
  ("ohg_target", a1 d_ohg (fun f => e_rnats (ohg_target f)));
  ("ohg_identity", a1 d_nats (fun w => e_rohg (ohg_identity nat w)));
  ("ohg_spider", a3 d_ff d_ff d_nats (fun s t w => e_opt e_ohg (ohg_spider nat s t w)));
  ("ohg_half_spider", a2 d_ff d_nats (fun s w => e_roohg (ohg_half_spider nat s w)));
  ("ohg_compose", a3 d_backend d_ohg d_ohg (fun B f g => e_roohg (ohg_compose B Nat.eqb f g)));
  ("ohg_tensor", a2 d_ohg d_ohg (fun f g => e_rohg (ohg_tensor f g)));
  ("ohg_twist", a2 d_nats d_nats (fun a b => e_rohg (ohg_twist nat a b)));
  ("ohg_dagger", a1 d_ohg (fun f => e_ohg (ohg_dagger f)));
  ("ohg_is_monogamous", a1 d_ohg (fun f => e_res e_bool (ohg_is_monogamous f)));
  ("ohg_is_acyclic", a2 d_backend d_ohg (fun B f => e_res e_bool (ohg_is_acyclic B f)))
].

(* ---------------- graph algorithms, layering, evaluation: C15, C16 ---------------- *)
Definition two64 : Z := Z.pow 2 64.
Definition wrap (z : Z) : Z := Z.modulo z two64.
Definition zsum (l : list Z) : Z := wrap (fold_left Z.add l 0%Z).

(* the test signature: total, any arity *)
Definition interp (label : nat) (inp : list Z) : list Z :=
  match label with
  | 0 => [zsum inp]
  | 1 => [wrap (fold_left Z.mul inp 1%Z)]
  | 2 => [wrap (Z.opp (zsum inp))]
  | 3 => [zsum inp; zsum inp]
  | 4 => []
  | 5 => [fold_left Z.land inp (two64 - 1)%Z]
  | 6 => [fold_left Z.lxor inp 0%Z]
  | 7 => [Z.lxor (fold_left Z.lxor inp 0%Z) (two64 - 1)%Z]
  | 8 => [zsum inp; wrap (fold_left Z.mul inp 1%Z); zsum inp]
  | _ => [wrap (Z.of_nat (label - 10))]
  end.

Definition apply_sig (labels : list nat) (inputs : ic (list Z)) : res (ic (list Z)) :=
  segs <- ics_iter_slices inputs ;;
  let outs := map (fun p => interp (fst p) (snd p)) (combine labels segs) in
  r <- ic_from_semifinite (semi_vops Z) (map (@length Z) outs) (concat outs) ;;
  unwrap r.

Definition d_zs := d_list d_z.
Definition e_zs (l : list Z) : sx := L (map Zv l).

Definition tbl_graph : list entry := [
  ("g_converse", a2 d_backend d_icf (fun B r => e_res e_icf (converse B r)));
  ("g_operation_adjacency", a2 d_backend d_hg (fun B h => e_res e_icf (operation_adjacency B h)));
  ("g_node_adjacency", a2 d_backend d_hg (fun B h => e_res e_icf (node_adjacency B h)));
  ("g_indegree", a1 d_icf (fun a => e_rff (indegree a)));
  ("g_kahn", a2 d_backend d_icf (fun B a => e_res (e_pair e_nats e_nats) (kahn B a)));
  (* further internal functions, reached through the verif-hooks feature *)
  ("g_dense_relative_indegree", a2 d_icf d_ff (fun a f => e_rff (dense_relative_indegree a f)));
  ("g_sparse_relative_indegree", a3 d_backend d_icf d_ff
     (fun B a f => e_res (e_pair e_ff e_ff) (sparse_relative_indegree B a f)));
  ("g_filter", a2 d_nats d_nats (fun v p => e_rnats (Graph.filter v p)));
  ("f_map_half_spider", a2 d_ics d_ff (fun w f => e_rff (map_half_spider w f)));
  ("f_to_operations", a1 d_ohg (fun f => e_res e_ops (to_operations f)));
  ("f_spider_map_arrow", a4 d_backend d_ohg d_ics d_ohg
     (fun B f fw fx => e_rohg (spider_map_arrow B Nat.eqb f fw fx)));
  ("f_interleave_blocks", a2 d_ics d_ics (fun a b => e_rohg (interleave_blocks nat a b)));
  ("f_partial_dagger", (fun args => match args with
     | [c; fa; fb; ra; rb] =>
         match d_ohg c, d_ics fa, d_ics fb, d_ics ra, d_ics rb with
         | Some c', Some fa', Some fb', Some ra', Some rb' => e_rohg (partial_dagger c' fa' fb' ra' rb')
         | _, _, _, _, _ => bad
         end
     | _ => bad end));
  ("layer", a2 d_backend d_ohg (fun B f => e_res (e_pair e_ff e_nats) (layer B f)));
  ("layered_operations", a2 d_backend d_ohg
     (fun B f => e_res (e_pair (e_list e_nats) e_nats) (layered_operations B f)));
  ("eval", a3 d_backend d_ohg d_zs
     (fun B f s => e_res (e_opt e_zs) (eval B 0%Z apply_sig f s)))
].

(* ---------------- hypergraph morphisms: C18 ---------------- *)
Definition d_arrow (x : sx) : option (hg_arrow nat nat) :=
  match x with
  | L [g; h; w; xx] =>
      match d_hg g, d_hg h, d_ff w, d_ff xx with
      | Some g', Some h', Some w', Some x' => Some (mkArrow g' h' w' x')
      | _, _, _, _ => None
      end
  | _ => None
  end.
Definition tbl_arrow : list entry := [
  ("arrow_new", a1 d_arrow (fun m =>
      e_res (fun r => match r with inl _ => L [Sy "ok"] | inr e => L [Sy "err"; e_invalid_arrow e] end)
            (arrow_validate Nat.eqb Nat.eqb m)));
  ("arrow_is_monomorphism", a1 d_arrow (fun m => e_res e_bool (arrow_is_monomorphism m)));
  ("arrow_is_convex_subgraph", a2 d_backend d_arrow (fun B m => e_res e_bool (arrow_is_convex_subgraph B m)))
].

(* ---------------- JSON codec of the lax representation (serde derive format): C11 ---------------- *)
Inductive json := JNum (n : nat) | JArr (l : list json) | JObj (fields : list (string * json)).

Definition j_nats (l : list nat) : json := JArr (map JNum l).
Definition j_edge (e : hyperedge) : json := JObj [("sources", j_nats (fst e)); ("targets", j_nats (snd e))].
Definition j_lhg (h : lhg nat nat) : json :=
  JObj [("nodes", j_nats (l_nodes h)); ("edges", j_nats (l_edges h));
        ("adjacency", JArr (map j_edge (l_adj h)));
        ("quotient", JArr [j_nats (fst (l_q h)); j_nats (snd (l_q h))])].
Definition j_lohg (f : lohg nat nat) : json :=
  JObj [("sources", j_nats (lo_sources f)); ("targets", j_nats (lo_targets f));
        ("hypergraph", j_lhg (lo_h f))].

Definition uj_nat (j : json) : option nat := match j with JNum n => Some n | _ => None end.
Definition uj_nats (j : json) : option (list nat) := match j with JArr l => omap uj_nat l | _ => None end.
Definition uj_edge (j : json) : option hyperedge :=
  match j with
  | JObj [("sources", s); ("targets", t)] =>
      match uj_nats s, uj_nats t with Some s', Some t' => Some (s', t') | _, _ => None end
  | _ => None
  end.
Definition uj_lhg (j : json) : option (lhg nat nat) :=
  match j with
  | JObj [("nodes", n); ("edges", e); ("adjacency", JArr adj); ("quotient", JArr [q0; q1])] =>
      match uj_nats n, uj_nats e, omap uj_edge adj, uj_nats q0, uj_nats q1 with
      | Some n', Some e', Some a', Some q0', Some q1' => Some (mkLHG n' e' a' (q0', q1'))
      | _, _, _, _, _ => None
      end
  | _ => None
  end.
Definition uj_lohg (j : json) : option (lohg nat nat) :=
  match j with
  | JObj [("sources", s); ("targets", t); ("hypergraph", h)] =>
      match uj_nats s, uj_nats t, uj_lhg h with
      | Some s', Some t', Some h' => Some (mkLOHG s' t' h')
      | _, _, _ => None
      end
  | _ => None
  end.

(* compact printer (serde_json::to_string) *)
Fixpoint digits_aux (fuel n : nat) (acc : string) : string :=
  match fuel with
  | 0 => acc
  | Datatypes.S fuel' =>
      let d := String (Ascii.ascii_of_nat (48 + n mod 10)) acc in
      if Nat.eqb (n / 10) 0 then d else digits_aux fuel' (n / 10) d
  end.
Definition digits (n : nat) : string := digits_aux (Datatypes.S n) n "".

Definition sep_concat (sep : string) (l : list string) : string :=
  match l with
  | [] => ""
  | x :: xs => fold_left (fun acc y => acc ++ sep ++ y) xs x
  end.

Fixpoint print_json (j : json) : string :=
  match j with
  | JNum n => digits n
  | JArr l => "[" ++ sep_concat "," (map print_json l) ++ "]"
  | JObj fs =>
      "{" ++ sep_concat "," (map (fun kv => """" ++ fst kv ++ """:" ++ print_json (snd kv)) fs) ++ "}"
  end.

(* ---------------- lax: builder histories, quotient, conversions: C09, C10, C11 ---------------- *)
Definition VB := VecBackend.   (* the lax layer is VecKind-only *)

Definition e_q (r : ff + ff) : sx :=
  match r with inl q => L [Sy "ok"; e_ff q] | inr q => L [Sy "err"; e_ff q] end.

(* one builder command on an open lax hypergraph: new state and printed output *)
Definition lax_step (f : lohg nat nat) (c : sx) : res (lohg nat nat * sx) :=
  let h := lo_h f in
  let wrap_h (h' : lhg nat nat) := mkLOHG (lo_sources f) (lo_targets f) h' in
  match c with
  | L [Sy "new_node"; N w] => let '(h', i) := lhg_new_node h w in Ok (wrap_h h', N i)
  | L [Sy "new_edge"; N x; s; t] =>
      match d_nats s, d_nats t with
      | Some s', Some t' => let '(h', i) := lhg_new_edge h x (s', t') in Ok (wrap_h h', N i)
      | _, _ => Ok (f, bad)
      end
  | L [Sy "new_operation"; N x; s; t] =>
      match d_nats s, d_nats t with
      | Some s', Some t' =>
          let '(h', (e, (ss, ts))) := lhg_new_operation h x s' t' in
          Ok (wrap_h h', L [N e; e_nats ss; e_nats ts])
      | _, _ => Ok (f, bad)
      end
  | L [Sy "unify"; N v; N w] => Ok (wrap_h (lhg_unify h v w), L [])
  | L [Sy "add_edge_source"; N e; N w] => '(h', i) <- lhg_add_edge_source h e w ;; Ok (wrap_h h', N i)
  | L [Sy "add_edge_target"; N e; N w] => '(h', i) <- lhg_add_edge_target h e w ;; Ok (wrap_h h', N i)
  | L [Sy "delete_edges"; ids] =>
      match d_nats ids with
      | Some ids' => h' <- lhg_delete_edges h ids' ;; Ok (wrap_h h', L [])
      | None => Ok (f, bad)
      end
  | L [Sy "delete_nodes"; ids] =>
      match d_nats ids with
      | Some ids' => f' <- lohg_delete_nodes f ids' ;; Ok (f', L [])
      | None => Ok (f, bad)
      end
  | L [Sy "h_delete_nodes_witness"; ids] =>
      match d_nats ids with
      | Some ids' => '(h', ni) <- lhg_delete_nodes_witness h ids' ;; Ok (wrap_h h', e_list (e_opt N) ni)
      | None => Ok (f, bad)
      end
  | L [Sy "h_delete_nodes"; ids] =>
      match d_nats ids with
      | Some ids' => h' <- lhg_delete_nodes h ids' ;; Ok (wrap_h h', L [])
      | None => Ok (f, bad)
      end
  | L [Sy "map_nodes"; N k] =>
      Ok (wrap_h (mkLHG (map (fun w => w + k) (l_nodes h)) (l_edges h) (l_adj h) (l_q h)), L [])
  | L [Sy "map_edges"; N k] =>
      Ok (wrap_h (mkLHG (l_nodes h) (map (fun x => x + k) (l_edges h)) (l_adj h) (l_q h)), L [])
  | L [Sy "with_nodes"; ws] =>
      match d_nats ws with
      | Some ws' =>
          match lhg_with_nodes h ws' with
          | Some n => Ok (wrap_h (mkLHG n (l_edges h) (l_adj h) (l_q h)), Sy "some")
          | None => Ok (f, Sy "none")     (* the harness keeps the old value on None *)
          end
      | None => Ok (f, bad)
      end
  | L [Sy "with_edges"; xs] =>
      match d_nats xs with
      | Some xs' =>
          if Nat.eqb (List.length xs') (List.length (l_edges h))
          then Ok (wrap_h (mkLHG (l_nodes h) xs' (l_adj h) (l_q h)), Sy "some")
          else Ok (f, Sy "none")
      | None => Ok (f, bad)
      end
  | L [Sy "set_sources"; s] =>
      match d_nats s with Some s' => Ok (mkLOHG s' (lo_targets f) h, L []) | None => Ok (f, bad) end
  | L [Sy "set_targets"; t] =>
      match d_nats t with Some t' => Ok (mkLOHG (lo_sources f) t' h, L []) | None => Ok (f, bad) end
  | L [Sy "quotient"] => '(f', r) <- lohg_quotient VB Nat.eqb f ;; Ok (f', e_q r)
  | L [Sy "h_quotient"] => '(h', r) <- lhg_quotient VB Nat.eqb h ;; Ok (wrap_h h', e_q r)
  | _ => Ok (f, bad)
  end.

Fixpoint lax_history (f : lohg nat nat) (cs : list sx) : list sx :=
  match cs with
  | [] => []
  | c :: cs' =>
      match lax_step f c with
      | Ok (f', out) => L [out; e_lohg f'] :: lax_history f' cs'
      | Panic => [Sy "panic"]
      | Fuel => [Sy "fuel"]
      end
  end.

Definition tbl_lax : list entry := [
  ("lax_history", a2 d_lohg (fun x => match x with L l => Some l | _ => None end)
     (fun f cs => L (lax_history f cs)));
  ("lax_history_wide", a2 d_lohg (fun x => match x with L l => Some l | _ => None end)
     (fun f cs => L (lax_history f cs)));
  ("lax_history_unit", a2 d_lohg (fun x => match x with L l => Some l | _ => None end)
     (fun f cs => L (lax_history f cs)));
  ("lax_json", a1 d_lohg (fun f => L [Sy (print_json (j_lohg f));
                                      e_bool (match uj_lohg (j_lohg f) with Some _ => true | None => false end)]));
  ("lhg_coequalizer", a1 d_lhg (fun h => e_rff (lhg_coequalizer VB h)));
  (* the same operations run by the harness at other label types (wider than a word; zero-sized): same model *)
  ("lhg_coequalizer_wide", a1 d_lhg (fun h => e_rff (lhg_coequalizer VB h)));
  ("lhg_coequalizer_unit", a1 d_lhg (fun h => e_rff (lhg_coequalizer VB h)));
  ("lhg_is_strict_wide", a1 d_lhg (fun h => e_bool (lhg_is_strict h)));
  ("lhg_is_strict_unit", a1 d_lhg (fun h => e_bool (lhg_is_strict h)));
  ("lhg_quotient_wide", a1 d_lhg (fun h => e_res (e_pair e_lhg e_q) (lhg_quotient VB Nat.eqb h)));
  ("lhg_quotient_unit", a1 d_lhg (fun h => e_res (e_pair e_lhg e_q) (lhg_quotient VB Nat.eqb h)));
  ("lohg_quotient_wide", a1 d_lohg (fun f => e_res (e_pair e_lohg e_q) (lohg_quotient VB Nat.eqb f)));
  ("lohg_quotient_unit", a1 d_lohg (fun f => e_res (e_pair e_lohg e_q) (lohg_quotient VB Nat.eqb f)));
  ("lhg_is_strict", a1 d_lhg (fun h => e_bool (lhg_is_strict h)));
  ("lhg_quotient", a1 d_lhg (fun h => e_res (e_pair e_lhg e_q) (lhg_quotient VB Nat.eqb h)));
  ("lohg_quotient", a1 d_lohg (fun f => e_res (e_pair e_lohg e_q) (lohg_quotient VB Nat.eqb f)));
  ("lhg_to_hypergraph", a1 d_lhg (fun h => e_res e_hg (lhg_to_hypergraph h)));
  ("lhg_from_strict", a1 d_hg (fun h => e_res e_lhg (lhg_from_strict h)));
  ("lhg_coproduct", a2 d_lhg d_lhg (fun g h => e_lhg (lhg_coproduct g h)));
  ("lhg_coproduct_assign", a2 d_lhg d_lhg (fun g h => e_lhg (lhg_coproduct_assign g h)));
  ("lohg_from_strict", a1 d_ohg (fun f => e_res e_lohg (lohg_from_strict f)));
  ("lohg_to_strict", a1 d_lohg (fun f => e_rohg (lohg_to_strict VB Nat.eqb f)));
  ("lohg_singleton", a3 d_nat d_nats d_nats (fun x s t => e_lohg (lohg_singleton x s t)));
  ("lohg_identity", a1 d_nats (fun a => e_lohg (lohg_identity nat a)));
  ("lohg_spider", a3 d_ff d_ff d_nats (fun s t w => e_opt e_lohg (lohg_spider nat s t w)));
  (* Spider::half_spider is a provided trait method: spider(s, identity, w) *)
  ("lohg_half_spider", a2 d_ff d_nats (fun s w => e_res (e_opt e_lohg) (t <- ff_identity (target s) ;; Ok (lohg_spider nat s t w))));
  ("lohg_tensor", a2 d_lohg d_lohg (fun f g => e_lohg (lohg_tensor f g)));
  ("lohg_tensor_assign", a2 d_lohg d_lohg (fun f g => e_lohg (lohg_tensor_assign f g)));
  ("lohg_append", a2 d_lohg d_lohg (fun f g => e_pair e_lohg (e_pair e_nats e_nats) (lohg_append f g)));
  ("lohg_source", a1 d_lohg (fun f => e_rnats (lohg_source f)));
  ("lohg_target", a1 d_lohg (fun f => e_rnats (lohg_target f)));
  ("lohg_compose", a2 d_lohg d_lohg (fun f g => e_res (e_opt e_lohg) (lohg_compose Nat.eqb f g)));
  ("lohg_lax_compose", a2 d_lohg d_lohg (fun f g => e_opt e_lohg (lohg_lax_compose f g)));
  ("lohg_dagger", a1 d_lohg (fun f => e_lohg (lohg_dagger f)));
  ("lohg_twist", a2 d_nats d_nats (fun a b => e_res e_lohg (lohg_twist nat a b)))
].

(* ---------------- table-driven functors and optics (mirrored in the Rust harness) ---------------- *)
Record ftable := mkFT { ft_obj : list (list nat); ft_kind : list nat; ft_off : nat }.
Definition tf_obj (F : ftable) (o : nat) : list nat := nth o (ft_obj F) [].
Definition tf_objs (F : ftable) (l : list nat) : list nat := flat_map (tf_obj F) l.
Definition discrete_io (fs ft : list nat) : lohg nat nat :=
  mkLOHG (seq 0 (List.length fs)) (seq (List.length fs) (List.length ft)) (lhg_discrete nat (app fs ft)).
Definition tf_op (F : ftable) (a : nat) (s t : list nat) : lohg nat nat :=
  let fs := tf_objs F s in
  let ft := tf_objs F t in
  match nth a (ft_kind F) 0 with
  | 0 => lohg_singleton (a + ft_off F) fs ft
  | 1 => match lohg_lax_compose (lohg_singleton a fs fs) (lohg_singleton (a + ft_off F) fs ft) with
         | Some c => c
         | None => lohg_empty
         end
  | 2 => discrete_io fs ft
  | 4 => (* edge-less spider merging all wires of one label: boundary nodes are repeated *)
      let labs := fold_left (fun acc x => if existsb (Nat.eqb x) acc then acc else app acc [x]) (app fs ft) [] in
      let idx := fun l => match index_of l labs with Some i => i | None => 0 end in
      mkLOHG (map idx fs) (map idx ft) (lhg_discrete nat labs)
  | _ => if list_eqb Nat.eqb fs ft then lohg_identity nat fs else discrete_io fs ft
  end.
Definition tf_functor (F : ftable) : lfunctor nat nat nat nat := mkLF (tf_obj F) (tf_op F).
Definition d_ftable (x : sx) : option ftable :=
  match x with
  | L [o; k; N off] =>
      match d_list d_nats o, d_nats k with Some o', Some k' => Some (mkFT o' k' off) | _, _ => None end
  | _ => None
  end.

Record otable := mkOT { ot_fobj : list (list nat); ot_robj : list (list nat);
                        ot_res : list (list nat); ot_kind : list nat }.
Definition ot_f (P : otable) (l : list nat) := flat_map (fun o => nth o (ot_fobj P) []) l.
Definition ot_r (P : otable) (l : list nat) := flat_map (fun o => nth o (ot_robj P) []) l.
Definition ot_m (P : otable) (a : nat) := nth a (ot_res P) [].
Definition ot_optic (P : otable) : loptic nat nat nat nat :=
  mkLOptic
    (fun o => nth o (ot_fobj P) [])
    (fun a s t => match nth a (ot_kind P) 0 with
                  | 0 => lohg_singleton (2 * a) (ot_f P s) (app (ot_f P t) (ot_m P a))
                  | _ => discrete_io (ot_f P s) (app (ot_f P t) (ot_m P a))
                  end)
    (fun o => nth o (ot_robj P) [])
    (fun a s t => match nth a (ot_kind P) 0 with
                  | 0 => lohg_singleton (2 * a + 1) (app (ot_m P a) (ot_r P t)) (ot_r P s)
                  | _ => discrete_io (app (ot_m P a) (ot_r P t)) (ot_r P s)
                  end)
    (ot_m P).
Definition d_otable (x : sx) : option otable :=
  match x with
  | L [f; r; m; k] =>
      match d_list d_nats f, d_list d_nats r, d_list d_nats m, d_nats k with
      | Some f', Some r', Some m', Some k' => Some (mkOT f' r' m' k')
      | _, _, _, _ => None
      end
  | _ => None
  end.

(* the polynomial-circuit theory {add 0, mul 1, neg 2, copy 3, discard 4, const c = 10+c} with its
   standard reverse-derivative lenses; one object 0 *)
Definition poly_fwd (a : nat) (s t : list nat) : lohg nat nat :=
  match a with
  | 1 => (* mul: (x,y) |-> (x*y, x, y) *)
      (* nodes: 0 x, 1 y | copy x -> 2,3 ; copy y -> 4,5 ; mul(2,4) -> 6 ; outputs 6,3,5 *)
      mkLOHG [0; 1] [6; 3; 5]
        (mkLHG [0;0;0;0;0;0;0] [3; 3; 1] [([0],[2;3]); ([1],[4;5]); ([2;4],[6])] ([], []))
  | _ => lohg_singleton a s t
  end.
Definition poly_rev (a : nat) (s t : list nat) : lohg nat nat :=
  match a with
  | 0 => lohg_singleton 3 [0] [0; 0]                        (* add: dz |-> (dz, dz) *)
  | 1 => (* mul: (x, y, dz) |-> (y*dz, x*dz) *)
      (* nodes 0 x, 1 y, 2 dz | copy dz -> 3,4 ; mul(1,3) -> 5 ; mul(0,4) -> 6 *)
      mkLOHG [0; 1; 2] [5; 6]
        (mkLHG [0;0;0;0;0;0;0] [3; 1; 1] [([2],[3;4]); ([1;3],[5]); ([0;4],[6])] ([], []))
  | 2 => lohg_singleton 2 [0] [0]                           (* neg *)
  | 3 => lohg_singleton 0 [0; 0] [0]                        (* copy: (da, db) |-> da + db *)
  | 4 => lohg_singleton 10 [] [0]                           (* discard: () |-> 0 *)
  | _ => lohg_singleton 4 [0] []                            (* const: dz |-> () *)
  end.
Definition poly_optic : loptic nat nat nat nat :=
  mkLOptic (fun _ => [0]) poly_fwd (fun _ => [0]) poly_rev
           (fun a => match a with 1 => [0; 0] | _ => [] end).

Definition d_optic (x : sx) : option (loptic nat nat nat nat) :=
  match x with
  | Sy "poly" => Some poly_optic
  | _ => option_map ot_optic (d_otable x)
  end.

(* ---------------- term language: strict and lax expressions evaluated on both sides ---------------- *)
Inductive val := VS (f : ohg nat nat) | VL (f : lohg nat nat).
Definition e_val (v : val) : sx :=
  match v with VS f => L [Sy "strict"; e_ohg f] | VL f => L [Sy "lax"; e_lohg f] end.

Definition lift_s (r : res (ohg nat nat)) : res (option val) := rmap (fun f => Some (VS f)) r.
Definition lift_so (r : res (option (ohg nat nat))) : res (option val) := rmap (option_map VS) r.
Definition lift_l (r : res (lohg nat nat)) : res (option val) := rmap (fun f => Some (VL f)) r.
Definition lift_lo (r : res (option (lohg nat nat))) : res (option val) := rmap (option_map VL) r.

Definition with_s (r : res (option val)) (k : ohg nat nat -> res (option val)) : res (option val) :=
  v <- r ;; match v with Some (VS f) => k f | Some (VL _) => Panic | None => Ok None end.
Definition with_l (r : res (option val)) (k : lohg nat nat -> res (option val)) : res (option val) :=
  v <- r ;; match v with Some (VL f) => k f | Some (VS _) => Panic | None => Ok None end.

Fixpoint ev (B : Backend) (x : sx) {struct x} : res (option val) :=
  match x with
  (* strict *)
  | L [Sy "s"; f] => match d_ohg f with Some f' => Ok (Some (VS f')) | None => Panic end
  | L [Sy "sunit"] => lift_s (ohg_identity nat [])      (* identity on Monoidal::unit() *)
  | L [Sy "lunit"] => Ok (Some (VL (lohg_identity nat [])))
  | L [Sy "sid"; w] => match d_nats w with Some w' => lift_s (ohg_identity nat w') | None => Panic end
  | L [Sy "stwist"; a; b] =>
      match d_nats a, d_nats b with Some a', Some b' => lift_s (ohg_twist nat a' b') | _, _ => Panic end
  | L [Sy "sspider"; s; t; w] =>
      match d_ff s, d_ff t, d_nats w with
      | Some s', Some t', Some w' => Ok (option_map VS (ohg_spider nat s' t' w'))
      | _, _, _ => Panic
      end
  | L [Sy "ssingleton"; N a; s; t] =>
      match d_nats s, d_nats t with Some s', Some t' => lift_s (ohg_singleton a s' t') | _, _ => Panic end
  | L [Sy "scomp"; a; b] =>
      with_s (ev B a) (fun f => with_s (ev B b) (fun g => lift_so (ohg_compose B Nat.eqb f g)))
  | L [Sy "stens"; a; b] =>
      with_s (ev B a) (fun f => with_s (ev B b) (fun g => lift_s (ohg_tensor f g)))
  | L [Sy "sdag"; a] => with_s (ev B a) (fun f => Ok (Some (VS (ohg_dagger f))))
  | L [Sy "to_strict"; a] => with_l (ev B a) (fun f => lift_s (lohg_to_strict VB Nat.eqb f))
  | L [Sy "sfmap_id"; a] =>
      with_s (ev B a) (fun f => lift_s (define_map_arrow B Nat.eqb (identity_functor nat nat) f))
  | L [Sy "sfmap"; F; a] =>       (* strict path of a table functor through DynFunctor (VecKind) *)
      match d_ftable F with
      | Some F' => with_s (ev B a) (fun f =>
                     lift_s (define_map_arrow VB Nat.eqb (dyn_functor (tf_functor F') VB Nat.eqb) f))
      | None => Panic
      end
  (* lax *)
  | L [Sy "l"; f] => match d_lohg f with Some f' => Ok (Some (VL f')) | None => Panic end
  | L [Sy "lid"; w] => match d_nats w with Some w' => Ok (Some (VL (lohg_identity nat w'))) | None => Panic end
  | L [Sy "ltwist"; a; b] =>
      match d_nats a, d_nats b with Some a', Some b' => lift_l (lohg_twist nat a' b') | _, _ => Panic end
  | L [Sy "lspider"; s; t; w] =>
      match d_ff s, d_ff t, d_nats w with
      | Some s', Some t', Some w' => Ok (option_map VL (lohg_spider nat s' t' w'))
      | _, _, _ => Panic
      end
  | L [Sy "lsingleton"; N a; s; t] =>
      match d_nats s, d_nats t with
      | Some s', Some t' => Ok (Some (VL (lohg_singleton a s' t')))
      | _, _ => Panic
      end
  | L [Sy "lcomp"; a; b] =>
      with_l (ev B a) (fun f => with_l (ev B b) (fun g => lift_lo (lohg_compose Nat.eqb f g)))
  | L [Sy "llaxcomp"; a; b] =>
      with_l (ev B a) (fun f => with_l (ev B b) (fun g => Ok (option_map VL (lohg_lax_compose f g))))
  | L [Sy "ltens"; a; b] =>
      with_l (ev B a) (fun f => with_l (ev B b) (fun g => Ok (Some (VL (lohg_tensor f g)))))
  | L [Sy "ldag"; a] => with_l (ev B a) (fun f => Ok (Some (VL (lohg_dagger f))))
  | L [Sy "from_strict"; a] => with_s (ev B a) (fun f => lift_l (lohg_from_strict f))
  | L [Sy "lquotient"; a] =>
      with_l (ev B a) (fun f => r <- lohg_quotient VB Nat.eqb f ;;
                                match snd r with inl _ => Ok (Some (VL (fst r))) | inr _ => Ok None end)
  | L [Sy "lfmap"; F; a] =>       (* dyn_functor::define_map_arrow *)
      match d_ftable F with
      | Some F' => with_l (ev B a) (fun f => lift_l (dyn_define_map_arrow (tf_functor F') VB Nat.eqb Nat.eqb f))
      | None => Panic
      end
  | L [Sy "lfmap_id"; a] =>
      with_l (ev B a) (fun f => lift_l (dyn_define_map_arrow (l_identity_functor nat nat) VB Nat.eqb Nat.eqb f))
  | L [Sy "lfmap_native"; F; a] => (* try_define_map_arrow *)
      match d_ftable F with
      | Some F' => with_l (ev B a) (fun f => lift_lo (l_try_define_map_arrow (tf_functor F') f))
      | None => Panic
      end
  | L [Sy "forget"; a] => with_l (ev B a) (fun f => lift_l (forget 9 Nat.eqb Nat.eqb VB f))
  | L [Sy "forget_monogamous"; a] => with_l (ev B a) (fun f => lift_l (forget_monogamous 9 Nat.eqb Nat.eqb VB f))
  | L [Sy "optic"; P; a] =>
      match d_optic P with
      | Some P' => with_l (ev B a) (fun f => lift_l (loptic_map_arrow VB Nat.eqb Nat.eqb P' f))
      | None => Panic
      end
  | L [Sy "optic_adapted"; P; a] =>
      match d_optic P with
      | Some P' => with_l (ev B a) (fun f => lift_l (loptic_map_adapted VB Nat.eqb Nat.eqb P' f))
      | None => Panic
      end
  | _ => Panic
  end.

(* var programs *)
Definition d_vcmd (x : sx) : option (vcmd nat nat) :=
  match x with
  | L [Sy "new"; N l] => Some (CNew nat l)
  | L [Sy "apply"; N op; args; rts] =>
      match d_nats args, d_nats rts with
      | Some a, Some r => Some (CApply op a r)
      | _, _ => None
      end
  | _ => None
  end.

Definition tbl_term : list entry := [
  ("term", a2 d_backend Some (fun B x => e_res (e_opt e_val) (ev B x)));
  (* a law: both sides are evaluated; the judge relates them *)
  ("law", a3 d_backend Some Some (fun B x y => L [e_res (e_opt e_val) (ev B x); e_res (e_opt e_val) (ev B y)]));
  ("map_arrow_witness", a2 d_ftable d_lohg
     (fun F f => e_res (e_opt (e_pair e_lohg e_icf)) (l_map_arrow_witness (tf_functor F) f)));
  ("var_build", a4 (d_list d_vcmd) d_nats d_nats d_bool
     (fun prog ins outs leaked => e_res (e_opt e_lohg) (var_build 9 prog ins outs leaked)));
  (* Var-built term, variables forgotten, evaluated on the test signature *)
  ("var_eval", a4 (d_list d_vcmd) d_nats d_nats d_zs
     (fun prog ins outs inp => e_res (e_opt e_zs)
        (r <- var_build 9 prog ins outs false ;;
         match r with
         | None => Ok None
         | Some f => g <- forget 9 Nat.eqb Nat.eqb VB f ;;
                     s <- lohg_to_strict VB Nat.eqb g ;;
                     eval VB 0%Z apply_sig s inp
         end)));
  (* evaluate a term with strict::eval::eval on the test signature *)
  ("term_eval", a3 d_backend Some d_zs
     (fun B x inp => e_res (e_opt e_zs)
        (v <- ev B x ;;
         match v with
         | Some (VS f) => eval B 0%Z apply_sig f inp
         | Some (VL f) => s <- lohg_to_strict VB Nat.eqb f ;; eval B 0%Z apply_sig s inp
         | None => Ok None
         end)))
].

Definition all_tables : list entry :=
  app tbl_array (app tbl_ff (app tbl_ic (app tbl_strict (app tbl_graph (app tbl_arrow (app tbl_lax tbl_term)))))).

(* a case is (op arg ...); the id is handled by the driver *)
(* a case is (op [backend] arg ...); operations that do not depend on the back-end accept and ignore
   a leading back-end symbol (the harness then runs the generic Rust code on that ArrayKind) *)
Definition run_case (c : sx) : sx :=
  match c with
  | L (Sy op :: args) =>
      match lookup op all_tables with
      | Some f =>
          match f args with
          | Sy "badcase" =>
              match args with
              | Sy b :: rest => if String.eqb b "vec" || String.eqb b "adv" || String.eqb b "adv2" || String.eqb b "adv3" then f rest else bad
              | _ => bad
              end
          | r => r
          end
      | None => bad
      end
  | _ => bad
  end.
