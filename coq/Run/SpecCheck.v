(* spec_case: verified boolean checkers of the *specification*, run on the implementation's own
   output.  Returns (ok), (fail <reason>) or na. *)
From OHG Require Export Run.Dispatch.
Open Scope string_scope.

Definition spec_case (c impl : sx) : sx := Sy "na".
