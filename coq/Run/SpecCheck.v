(* spec_case: decides, for one case and the implementation's own output, whether that output is
   one the property allows.  For operations whose result the property determines uniquely the
   allowed output is the model's (the model is proved to meet the scalar definition); where the
   contract leaves a choice open (tie order, component numbering, key order, un-hit scatter slots,
   node/edge numbering of a quotient or functor image) the output is compared modulo exactly that
   freedom: permutation-and-sortedness, partition equality, per-segment permutation, isomorphism.
   Returns (ok), (fail <reason>) or na. *)
From OHG Require Export Run.Dispatch Spec.Plain.
Open Scope string_scope.

(* ---- equality of s-expressions ---- *)
Fixpoint sx_eqb (a b : sx) {struct a} : bool :=
  match a, b with
  | N x, N y => Nat.eqb x y
  | Zv x, Zv y => Z.eqb x y
  | Sy x, Sy y => String.eqb x y
  | L xs, L ys =>
      (fix go (xs ys : list sx) : bool :=
         match xs, ys with
         | [], [] => true
         | x :: xs', y :: ys' => sx_eqb x y && go xs' ys'
         | _, _ => false
         end) xs ys
  | _, _ => false
  end.

Definition ok_v : sx := L [Sy "ok"].
Definition fail_v (why : string) : sx := L [Sy "fail"; Sy why].

(* ---- finite partial injections on nat (node / edge correspondences) ---- *)
Definition pmap := list (nat * nat).
Fixpoint pm_get (m : pmap) (i : nat) : option nat :=
  match m with [] => None | (a, b) :: m' => if Nat.eqb a i then Some b else pm_get m' i end.
Fixpoint pm_used (m : pmap) (j : nat) : bool :=
  match m with [] => false | (_, b) :: m' => Nat.eqb b j || pm_used m' j end.
(* extend with i |-> j keeping the map functional and injective *)
Definition pm_ext (m : pmap) (i j : nat) : option pmap :=
  match pm_get m i with
  | Some j' => if Nat.eqb j j' then Some m else None
  | None => if pm_used m j then None else Some ((i, j) :: m)
  end.
Fixpoint pm_ext_list (m : pmap) (l l' : list nat) : option pmap :=
  match l, l' with
  | [], [] => Some m
  | i :: r, j :: r' => match pm_ext m i j with Some m' => pm_ext_list m' r r' | None => None end
  | _, _ => None
  end.

(* same partition: the correspondence q[i] |-> q'[i] is a well-defined injection *)
Definition same_partition (q q' : list nat) : bool :=
  Nat.eqb (List.length q) (List.length q') &&
  match pm_ext_list [] q q' with Some _ => true | None => false end.
Definition dense (q : list nat) (k : nat) : bool :=
  forallb (fun x => Nat.ltb x k) q && forallb (fun j => existsb (Nat.eqb j) q) (seq 0 k).

(* ---- isomorphism search between plain models ---- *)
Section Iso.
  Variables O A : Type.
  Variable eqO : O -> O -> bool.
  Variable eqA : A -> A -> bool.

  Fixpoint remove_nth {X} (n : nat) (l : list X) : list X :=
    match l, n with
    | [], _ => []
    | _ :: r, 0 => r
    | x :: r, Datatypes.S n' => x :: remove_nth n' r
    end.

  (* match isolated leftovers by label, greedily (they carry no structure) *)
  Fixpoint match_rest (ls : list O) (avail : list O) : bool :=
    match ls with
    | [] => match avail with [] => true | _ => false end
    | l :: r =>
        (fix pick (k : nat) (av : list O) : bool :=
           match av with
           | [] => false
           | a :: av' => if eqO l a then match_rest r (remove_nth k avail) else pick (Datatypes.S k) av'
           end) 0 avail
    end.

  Definition labels_ok (g g' : pohg O A) (m : pmap) : bool :=
    forallb (fun p => match nth_error (p_nodes g) (fst p), nth_error (p_nodes g') (snd p) with
                      | Some a, Some b => eqO a b
                      | _, _ => false
                      end) m.

  (* try to match the remaining edges of g against unused edges of g' (backtracking) *)
  Fixpoint match_edges (g g' : pohg O A) (es : list (pedge A)) (avail : list (pedge A)) (m : pmap) : bool :=
    match es with
    | [] =>
        labels_ok g g' m &&
        (let unm := filter (fun i => match pm_get m i with None => true | Some _ => false end)
                           (seq 0 (List.length (p_nodes g))) in
         let unm' := filter (fun j => negb (pm_used m j)) (seq 0 (List.length (p_nodes g'))) in
         match_rest (flat_map (fun i => match nth_error (p_nodes g) i with Some a => [a] | None => [] end) unm)
                    (flat_map (fun j => match nth_error (p_nodes g') j with Some a => [a] | None => [] end) unm'))
    | e :: es' =>
        (fix try (k : nat) (av : list (pedge A)) : bool :=
           match av with
           | [] => false
           | e' :: av' =>
               (if eqA (pe_lbl e) (pe_lbl e') then
                  match pm_ext_list m (pe_src e) (pe_src e') with
                  | Some m1 =>
                      match pm_ext_list m1 (pe_tgt e) (pe_tgt e') with
                      | Some m2 => match_edges g g' es' (remove_nth k avail) m2
                      | None => false
                      end
                  | None => false
                  end
                else false) || try (Datatypes.S k) av'
           end) 0 avail
    end.

  Definition iso_check (g g' : pohg O A) : bool :=
    Nat.eqb (List.length (p_nodes g)) (List.length (p_nodes g')) &&
    Nat.eqb (List.length (p_edges g)) (List.length (p_edges g')) &&
    match pm_ext_list [] (p_ins g) (p_ins g') with
    | Some m0 =>
        match pm_ext_list m0 (p_outs g) (p_outs g') with
        | Some m1 => match_edges g g' (p_edges g) (p_edges g') m1
        | None => false
        end
    | None => false
    end.
End Iso.

Definition iso_nat := @iso_check nat nat Nat.eqb Nat.eqb.

(* deep well-formedness of a strict diagram (looks inside the tables) *)
Definition chk_ff (f : ff) : bool := forallb (fun x => Nat.ltb x (target f)) (table f).
Definition chk_icf (c : icf) : bool :=
  let s := list_sum (table (ic_sources c)) in
  Nat.eqb (target (ic_sources c)) (s + 1) && Nat.eqb s (List.length (table (ic_values c))) && chk_ff (ic_values c).
Definition chk_wf_ohg (f : ohg nat nat) : bool :=
  let h := o_h f in
  let n := List.length (h_w h) in
  chk_icf (h_s h) && chk_icf (h_t h) &&
  Nat.eqb (ic_len (h_s h)) (List.length (h_x h)) && Nat.eqb (ic_len (h_t h)) (List.length (h_x h)) &&
  Nat.eqb (target (ic_values (h_s h))) n && Nat.eqb (target (ic_values (h_t h))) n &&
  chk_ff (o_s f) && chk_ff (o_t f) && Nat.eqb (target (o_s f)) n && Nat.eqb (target (o_t f)) n.
Definition chk_wf_lohg (f : lohg nat nat) : bool :=
  let h := lo_h f in
  let n := List.length (l_nodes h) in
  let inr := forallb (fun x => Nat.ltb x n) in
  Nat.eqb (List.length (l_edges h)) (List.length (l_adj h)) &&
  forallb (fun e => inr (fst e) && inr (snd e)) (l_adj h) &&
  inr (lo_sources f) && inr (lo_targets f) && inr (fst (l_q h)) && inr (snd (l_q h)) &&
  Nat.eqb (List.length (fst (l_q h))) (List.length (snd (l_q h))).

(* ---- values of the term language ---- *)
Definition d_val (x : sx) : option val :=
  match x with
  | L [Sy "strict"; f] => option_map VS (d_ohg f)
  | L [Sy "lax"; f] => option_map VL (d_lohg f)
  | _ => None
  end.

(* result of a term: (ok (some V)) | (ok none) | panic *)
Inductive tres := TVal (v : val) | TNone | TPanic | TBad.
Definition d_tres (x : sx) : tres :=
  match x with
  | L [Sy "ok"; Sy "none"] => TNone
  | L [Sy "ok"; L [Sy "some"; v]] => match d_val v with Some v' => TVal v' | None => TBad end
  | Sy "panic" => TPanic
  | _ => TBad
  end.

Definition pending_free (f : lohg nat nat) : bool :=
  match fst (l_q (lo_h f)) with [] => true | _ => false end.

(* two values denote the same diagram up to isomorphism; lax values with pending unifications are
   compared after quotienting (with the model's verified quotient) *)
Definition plain_of (v : val) : option (pohg nat nat) :=
  match v with
  | VS f => if chk_wf_ohg f then Some (abs f) else None
  | VL f =>
      if negb (chk_wf_lohg f) then None
      else if pending_free f then Some (labs f)
      else match lohg_quotient VB Nat.eqb f with
           | Ok (f', inl _) => Some (labs f')
           | _ => None
           end
  end.
Definition val_iso (a b : val) : bool :=
  match plain_of a, plain_of b with
  | Some g, Some g' => iso_nat g g'
  | _, _ => false
  end.
Definition tres_rel (a b : tres) : bool :=
  match a, b with
  | TVal x, TVal y => val_iso x y
  | TNone, TNone => true
  | TPanic, TPanic => true
  | _, _ => false
  end.

(* ---- contract checkers (accept ANY conforming answer) ---- *)
Fixpoint sorted_le (l : list nat) : bool :=
  match l with
  | x :: ((y :: _) as r) => Nat.leb x y && sorted_le r
  | _ => true
  end.
Definition is_perm_of_range (p : list nat) (n : nat) : bool :=
  Nat.eqb (List.length p) n && forallb (fun i => existsb (Nat.eqb i) p) (seq 0 n).
Definition chk_argsort (xs p : list nat) : bool :=
  is_perm_of_range p (List.length xs) && sorted_le (map (fun i => nth i xs 0) p).
Definition chk_sparse (xs u c : list nat) : bool :=
  Nat.eqb (List.length u) (List.length c) &&
  forallb (fun v => existsb (Nat.eqb v) u) xs &&
  forallb (fun p => Nat.ltb 0 (snd p) && Nat.eqb (snd p) (count_occ Nat.eq_dec xs (fst p))) (combine u c) &&
  Nat.eqb (List.length (nodup Nat.eq_dec u)) (List.length u).
(* per-segment permutation of two segmented arrays *)
Definition same_multiset (a b : list nat) : bool :=
  Nat.eqb (List.length a) (List.length b) && forallb (fun v => Nat.eqb (count_occ Nat.eq_dec a v) (count_occ Nat.eq_dec b v)) a.
(* multisets of pairs: (key, value) bookkeeping for sort_by *)
Definition pair_eqb (p q : nat * nat) : bool := Nat.eqb (fst p) (fst q) && Nat.eqb (snd p) (snd q).
Definition count_pair (p : nat * nat) (l : list (nat * nat)) : nat := List.length (List.filter (pair_eqb p) l).
Definition same_pair_multiset (a b : list (nat * nat)) : bool :=
  Nat.eqb (List.length a) (List.length b) && forallb (fun p => Nat.eqb (count_pair p a) (count_pair p b)) a.
(* r = xs permuted by SOME permutation that sorts key: the pairs (sorted key_j, r_j) are the pairs (key_i, xs_i) *)
Definition chk_sort_by (xs key r : list nat) : bool :=
  Nat.eqb (List.length xs) (List.length key) && Nat.eqb (List.length r) (List.length xs) &&
  same_pair_multiset (combine (map (fun i => nth i key 0) (vec_argsort key)) r) (combine key xs).
Definition icf_perm (c d : icf) : bool :=
  ff_eqb (ic_sources c) (ic_sources d) && Nat.eqb (target (ic_values c)) (target (ic_values d)) &&
  Nat.eqb (List.length (decode_f c)) (List.length (decode_f d)) &&
  forallb (fun p => same_multiset (fst p) (snd p)) (combine (decode_f c) (decode_f d)).

(* ---- independent reference interpreters (oracles for C14 / C16) ---- *)
Definition zget (mem : list (option Z)) (v : nat) : Z :=
  match nth_error mem v with Some (Some z) => z | _ => 0%Z end.
Definition known (mem : list (option Z)) (written : list nat) (v : nat) : bool :=
  match nth_error mem v with
  | Some (Some _) => true
  | _ => negb (existsb (Nat.eqb v) written)      (* never written by anyone: holds the default *)
  end.
Fixpoint write_all (mem : list (option Z)) (ps : list (nat * Z)) : list (option Z) :=
  match ps with [] => mem | (v, z) :: r => write_all (set_nth mem v (Some z)) r end.

(* one pass: fire every unfired edge all of whose dependency predecessors (edges with a target node among
   its source nodes — itself included) have fired *)
Definition dep_preds (es : list (nat * pedge nat)) (e : pedge nat) : list nat :=
  map fst (List.filter (fun p => existsb (fun v => existsb (Nat.eqb v) (pe_src e)) (pe_tgt (snd p))) es).
Fixpoint ref_pass (all es : list (nat * pedge nat)) (written : list nat) (mem : list (option Z))
                  (fired : list nat) : list (option Z) * list nat :=
  match es with
  | [] => (mem, fired)
  | (i, e) :: r =>
      if existsb (Nat.eqb i) fired then ref_pass all r written mem fired
      else if forallb (fun j => existsb (Nat.eqb j) fired) (dep_preds all e) then
        let outs := interp (pe_lbl e) (map (zget mem) (pe_src e)) in
        ref_pass all r written (write_all mem (combine (pe_tgt e) outs)) (List.app fired [i])
      else ref_pass all r written mem fired
  end.
Fixpoint ref_passes (fuel : nat) (es : list (nat * pedge nat)) (written : list nat)
                    (mem : list (option Z)) (fired : list nat) : list (option Z) * list nat :=
  match fuel with
  | 0 => (mem, fired)
  | Datatypes.S k => let '(mem', fired') := ref_pass es es written mem fired in ref_passes k es written mem' fired'
  end.

(* reference evaluation of a plain diagram: None = some operation never becomes ready (cycle) *)
Definition ref_eval_mem (g : pohg nat nat) (inp : list Z) : option (list (option Z) * list nat) :=
  let n := List.length (p_nodes g) in
  let es := combine (seq 0 (List.length (p_edges g))) (p_edges g) in
  let written := List.app (p_ins g) (flat_map (@pe_tgt nat) (p_edges g)) in
  let mem0 := write_all (repeat None n) (combine (p_ins g) inp) in
  let '(mem, fired) := ref_passes (Datatypes.S (List.length es)) es written mem0 [] in
  if Nat.eqb (List.length fired) (List.length es) then Some (mem, fired) else None.
Definition ref_eval (g : pohg nat nat) (inp : list Z) : option (list Z) :=
  option_map (fun r => map (zget (fst r)) (p_outs g)) (ref_eval_mem g inp).

(* reverse-mode sweep for the polynomial theory: adjoints of the inputs given adjoints of the outputs *)
Definition zadd_at (adj : list Z) (v : nat) (z : Z) : list Z := set_nth adj v (wrap (Z.add (nth v adj 0%Z) z)).
Definition rev_edge (mem : list (option Z)) (adj : list Z) (e : pedge nat) : list Z :=
  let dz := fun k => nth (nth k (pe_tgt e) 0) adj 0%Z in
  let xs := map (zget mem) (pe_src e) in
  let s := fun k => nth k (pe_src e) 0 in
  match pe_lbl e with
  | 0 => zadd_at (zadd_at adj (s 0) (dz 0)) (s 1) (dz 0)
  | 1 => zadd_at (zadd_at adj (s 0) (Z.mul (nth 1 xs 0%Z) (dz 0))) (s 1) (Z.mul (nth 0 xs 0%Z) (dz 0))
  | 2 => zadd_at adj (s 0) (Z.opp (dz 0))
  | 3 => zadd_at adj (s 0) (Z.add (dz 0) (dz 1))
  | _ => adj
  end.
Definition poly_label (l : nat) : bool := Nat.ltb l 5 || Nat.leb 10 l.
Definition ref_grad (g : pohg nat nat) (inp dy : list Z) : option (list Z) :=
  match ref_eval_mem g inp with
  | None => None
  | Some (mem, fired) =>
      let n := List.length (p_nodes g) in
      let adj0 := fold_left (fun a p => zadd_at a (fst p) (snd p)) (combine (p_outs g) dy) (repeat 0%Z n) in
      let adj := fold_left (fun a i => match nth_error (p_edges g) i with Some e => rev_edge mem a e | None => a end)
                           (rev fired) adj0 in
      Some (List.app (map (zget mem) (p_outs g)) (map (fun v => nth v adj 0%Z) (p_ins g)))
  end.

(* ---- expression interpreter for Var programs (oracle for the semantic clause of C19) ----
   handles are numbered in creation order; a fresh variable holds its input value (0 when it is not an
   input); an applied operator defines its result handles.  None = outside the clause's scope
   (a result handle used as an input, a repeated input, an arity the signature does not have). *)
Fixpoint denote_prog (prog : list (vcmd nat nat)) (ins : list nat) (inp : list Z)
                     (env : list Z) (fresh : list bool) : option (list Z * list bool) :=
  match prog with
  | [] => Some (env, fresh)
  | CNew _ _ :: rest =>
      let h := List.length env in
      let v := match index_of h ins with Some k => nth k inp 0%Z | None => 0%Z end in
      denote_prog rest ins inp (List.app env [v]) (List.app fresh [true])
  | CApply op args rts :: rest =>
      if forallb (fun a => Nat.ltb a (List.length env)) args then
        let outs := interp op (map (fun a => nth a env 0%Z) args) in
        if Nat.eqb (List.length outs) (List.length rts)
        then denote_prog rest ins inp (List.app env outs) (List.app fresh (map (fun _ => false) rts))
        else None
      else None
  end.
Definition denote (prog : list (vcmd nat nat)) (ins outs : list nat) (inp : list Z) : option (list Z) :=
  match denote_prog prog ins inp [] [] with
  | Some (env, fresh) =>
      if Nat.eqb (List.length (nodup Nat.eq_dec ins)) (List.length ins) &&
         forallb (fun h => nth h fresh false) ins &&
         forallb (fun h => Nat.ltb h (List.length env)) outs &&
         Nat.eqb (List.length inp) (List.length ins)
      then Some (map (fun h => nth h env 0%Z) outs) else None
  | None => None
  end.

Definition d_ok (x : sx) : option sx := match x with L [Sy "ok"; v] => Some v | _ => None end.
Definition d_some (x : sx) : option sx := match x with L [Sy "some"; v] => Some v | _ => None end.

Definition check2 {X} (d : sx -> option X) (rel : X -> X -> bool) (impl model : sx) (why : string) : sx :=
  match d impl, d model with
  | Some a, Some b => if rel a b then ok_v else fail_v why
  | _, _ => fail_v why
  end.

Definition d_ok_some {X} (d : sx -> option X) (x : sx) : option X :=
  match d_ok x with Some y => match d_some y with Some z => d z | None => None end | None => None end.
Definition d_okv {X} (d : sx -> option X) (x : sx) : option X :=
  match d_ok x with Some y => d y | None => None end.

Definition q_of (x : sx) : option (bool * ff) :=
  match x with
  | L [Sy "ok"; q] => option_map (fun q' => (true, q')) (d_ff q)
  | L [Sy "err"; q] => option_map (fun q' => (false, q')) (d_ff q)
  | _ => None
  end.
Definition q_rel (a b : bool * ff) : bool :=
  Bool.eqb (fst a) (fst b) && Nat.eqb (target (snd a)) (target (snd b)) &&
  same_partition (table (snd a)) (table (snd b)) && dense (table (snd a)) (target (snd a)).

Definition spec_case (c impl : sx) : sx :=
  match c with
  | L (Sy op :: args) =>
      let m := run_case c in
      let exact := sx_eqb impl m in
      if String.eqb op "law" then
        (* both sides agree with the model up to isomorphism AND the law holds on the implementation's outputs *)
        match impl, m with
        | L [i1; i2], L [m1; m2] =>
            if negb (tres_rel (d_tres i1) (d_tres m1)) then fail_v "law-lhs-differs-from-model"
            else if negb (tres_rel (d_tres i2) (d_tres m2)) then fail_v "law-rhs-differs-from-model"
            else if tres_rel (d_tres i1) (d_tres i2) then ok_v else fail_v "law-sides-not-isomorphic"
        | _, _ => fail_v "law-shape"
        end
      else if String.eqb op "eval" then
        (* independent oracle: reference interpreter on the plain model (single-writer diagrams) *)
        match args with
        | [_; f; inp] =>
            match d_ohg f, d_zs inp with
            | Some f', Some inp' =>
                let g := abs f' in
                let r := ref_eval g inp' in
                (* the value clause quantifies over single-writer diagrams; the refusal clause over all *)
                let writes := List.app (p_ins g) (flat_map (@pe_tgt nat) (p_edges g)) in
                let single_writer := Nat.eqb (List.length (nodup Nat.eq_dec writes)) (List.length writes) in
                (* the interpreter must produce one value per target position (documented contract of `apply`) *)
                let arity_ok := match ref_eval_mem g inp' with
                                | Some (mem, _) => forallb (fun e => Nat.eqb (List.length (interp (pe_lbl e) (map (zget mem) (pe_src e))))
                                                                             (List.length (pe_tgt e))) (p_edges g)
                                | None => true end in
                let single_writer := single_writer && arity_ok in
                match r with
                | None => if sx_eqb impl (L [Sy "ok"; Sy "none"]) then (if exact then ok_v else fail_v "oracle-ok-but-differs-from-model")
                          else fail_v "eval-must-refuse-cyclic-diagram"
                | Some _ =>
                    if single_writer then
                      if sx_eqb impl (e_res (e_opt e_zs) (Ok r)) then (if exact then ok_v else fail_v "oracle-ok-but-differs-from-model")
                      else fail_v "eval-differs-from-reference-interpreter"
                    else if sx_eqb impl (L [Sy "ok"; Sy "none"]) then fail_v "eval-refuses-acyclic-diagram"
                    else if exact then ok_v else fail_v "differs-from-model"
                end
            | _, _ => fail_v "eval-shape"
            end
        | _ => fail_v "eval-shape"
        end
      else if String.eqb op "var_eval" then
        match args with
        | [prog; ins; outs; inp] =>
            match d_list d_vcmd prog, d_nats ins, d_nats outs, d_zs inp with
            | Some prog', Some ins', Some outs', Some inp' =>
                match denote prog' ins' outs' inp' with
                | Some r =>
                    if sx_eqb impl (e_res (e_opt e_zs) (Ok (Some r))) then (if exact then ok_v else fail_v "oracle-ok-but-differs-from-model")
                    else fail_v "forget-of-built-term-does-not-evaluate-to-the-expression"
                | None => if exact then ok_v else fail_v "differs-from-model"
                end
            | _, _, _, _ => fail_v "var_eval-shape"
            end
        | _ => fail_v "var_eval-shape"
        end
      else if String.eqb op "term_eval" then
        match args with
        | [_; L [Sy "optic_adapted"; Sy "poly"; L [Sy "l"; c0]]; inp] =>
            (* independent oracle: forward values and reverse-mode sweep on the plain circuit *)
            match d_lohg c0, d_zs inp with
            | Some c', Some inp' =>
                let g := labs c' in
                let nin := List.length (p_ins g) in
                if pending_free c' && forallb (fun e => poly_label (pe_lbl e)) (p_edges g) then
                  let expect := e_res (e_opt e_zs) (Ok (ref_grad g (firstn nin inp') (skipn nin inp'))) in
                  if sx_eqb impl expect then (if exact then ok_v else fail_v "oracle-ok-but-differs-from-model")
                  else fail_v "adapted-optic-is-not-the-reverse-derivative"
                else if exact then ok_v else fail_v "differs-from-model"
            | _, _ => fail_v "term_eval-shape"
            end
        | [_; L [Sy "l"; c0]; inp] =>
            match d_lohg c0, d_zs inp with
            | Some c', Some inp' =>
                if pending_free c' then
                  let expect := e_res (e_opt e_zs) (Ok (ref_eval (labs c') inp')) in
                  if sx_eqb impl expect then (if exact then ok_v else fail_v "oracle-ok-but-differs-from-model")
                  else fail_v "eval-differs-from-reference-interpreter"
                else if exact then ok_v else fail_v "differs-from-model"
            | _, _ => fail_v "term_eval-shape"
            end
        | _ => if exact then ok_v else fail_v "differs-from-model"
        end
      else if exact then ok_v
      else if String.eqb op "term" then
        if tres_rel (d_tres impl) (d_tres m) then ok_v else fail_v "term-not-isomorphic-to-model"
      else if String.eqb op "ohg_compose" then
        check2 (fun x => Some (d_tres (match x with
                                       | L [Sy "ok"; L [Sy "some"; f]] => L [Sy "ok"; L [Sy "some"; L [Sy "strict"; f]]]
                                       | y => y end)))
               tres_rel impl m "compose-not-isomorphic-to-gluing"
      else if String.eqb op "lohg_to_strict" then
        check2 (fun x => Some (d_tres (match x with
                                       | L [Sy "ok"; f] => L [Sy "ok"; L [Sy "some"; L [Sy "strict"; f]]]
                                       | y => y end)))
               tres_rel impl m "to_strict-not-isomorphic"
      else if String.eqb op "ff_coequalizer" || String.eqb op "lhg_coequalizer" then
        check2 (fun x => match d_ok x with
                         | Some (L [Sy "some"; q]) => d_ff q
                         | Some q => d_ff q
                         | None => None end)
               (fun a b => Nat.eqb (target a) (target b) && same_partition (table a) (table b) && dense (table a) (target a))
               impl m "coequalizer-partition"
      else if String.eqb op "a_cc" then
        check2 (d_okv (d_pair d_nats d_nat))
               (fun a b => Nat.eqb (snd a) (snd b) && same_partition (fst a) (fst b) && dense (fst a) (snd a))
               impl m "components-partition"
      else if String.eqb op "a_argsort" then
        match args with
        | [_; xs] => match d_nats xs, d_nats impl with
                     | Some xs', Some p => if chk_argsort xs' p then ok_v else fail_v "argsort-contract"
                     | _, _ => fail_v "argsort-shape"
                     end
        | _ => fail_v "argsort-shape"
        end
      else if String.eqb op "a_sparse_bincount" then
        match args with
        | [_; xs] => match d_nats xs, d_pair d_nats d_nats impl with
                     | Some xs', Some (u, cc) => if chk_sparse xs' u cc then ok_v else fail_v "sparse-contract"
                     | _, _ => fail_v "sparse-shape"
                     end
        | _ => fail_v "sparse-shape"
        end
      else if String.eqb op "a_sort_by" then
        match args with
        | [_; xs; key] =>
            match d_nats xs, d_nats key, d_okv d_nats impl with
            | Some xs', Some k', Some r =>
                (* some sorting permutation of the keys produces r *)
                if chk_sort_by xs' k' r then ok_v else fail_v "sort_by-contract"
            | _, _, _ => fail_v "sort_by-shape"
            end
        | _ => fail_v "sort_by-shape"
        end
      else if String.eqb op "a_scatter" || String.eqb op "al_scatter" then
        match args with
        | [_; xs; idx; N n] =>
            match d_nats xs, d_nats idx, d_okv d_nats impl with
            | Some xs', Some idx', Some y =>
                (* the contract speaks about accepted calls only: where the model panics, so must the implementation *)
                if (match d_okv d_nats m with Some _ => true | None => false end) &&
                   Nat.eqb (List.length y) n &&
                   forallb (fun j => if existsb (Nat.eqb j) idx'
                                     then existsb (fun p => Nat.eqb (fst p) j && Nat.eqb (snd p) (nth j y 0)) (combine idx' xs')
                                     else true) (seq 0 n)
                then ok_v else fail_v "scatter-contract"
            | _, _, _ => fail_v "scatter-shape"
            end
        | _ => fail_v "scatter-shape"
        end
      else if String.eqb op "g_converse" || String.eqb op "g_operation_adjacency" || String.eqb op "g_node_adjacency" then
        check2 (d_okv d_icf) icf_perm impl m "adjacency-per-segment-permutation"
      else if String.eqb op "layered_operations" then
        check2 (d_okv (d_pair (d_list d_nats) d_nats))
               (fun a b => list_eqb Nat.eqb (snd a) (snd b) && Nat.eqb (List.length (fst a)) (List.length (fst b)) &&
                           forallb (fun p => same_multiset (fst p) (snd p)) (combine (fst a) (fst b)))
               impl m "layers-per-group-permutation"
      else if String.eqb op "lhg_quotient" then
        check2 (d_okv (d_pair d_lhg q_of))
               (fun a b => q_rel (snd a) (snd b) &&
                           val_iso (VL (mkLOHG [] [] (fst a))) (VL (mkLOHG [] [] (fst b))))
               impl m "quotient"
      else if String.eqb op "lohg_quotient" then
        check2 (d_okv (d_pair d_lohg q_of))
               (fun a b => q_rel (snd a) (snd b) && val_iso (VL (fst a)) (VL (fst b)))
               impl m "quotient"
      else fail_v "differs-from-model"
  | _ => Sy "na"
  end.
