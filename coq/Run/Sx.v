(* S-expressions: the case / result language shared by the Rust harness and the model driver.
   Decoders and encoders for every model type. *)
From Coq Require Export String ZArith.
From OHG Require Export Model.LaxFunctor.

Open Scope string_scope.

Inductive sx :=
| N (n : nat)
| Zv (z : Z)
| Sy (s : string)
| L (l : list sx).

Definition omap {A B} (f : A -> option B) : list A -> option (list B) :=
  fix go l := match l with
              | [] => Some []
              | x :: xs => match f x, go xs with Some y, Some ys => Some (y :: ys) | _, _ => None end
              end.

(* ---- decoders ---- *)
Definition d_nat (x : sx) : option nat := match x with N n => Some n | _ => None end.
Definition d_z (x : sx) : option Z :=
  match x with Zv z => Some z | N n => Some (Z.of_nat n) | _ => None end.
Definition d_list {A} (d : sx -> option A) (x : sx) : option (list A) :=
  match x with L l => omap d l | _ => None end.
Definition d_nats := d_list d_nat.
Definition d_bool (x : sx) : option bool :=
  match x with Sy "true" => Some true | Sy "false" => Some false | _ => None end.
Definition d_pair {A B} (da : sx -> option A) (db : sx -> option B) (x : sx) : option (A * B) :=
  match x with
  | L [a; b] => match da a, db b with Some a', Some b' => Some (a', b') | _, _ => None end
  | _ => None
  end.
Definition d_opt {A} (d : sx -> option A) (x : sx) : option (option A) :=
  match x with
  | Sy "none" => Some None
  | L [Sy "some"; v] => option_map Some (d v)
  | _ => None
  end.

Definition d_ff (x : sx) : option ff :=
  match x with
  | L [t; N n] => option_map (fun t' => mkFF t' n) (d_nats t)
  | _ => None
  end.
Definition d_ic {V} (dv : sx -> option V) (x : sx) : option (ic V) :=
  match x with
  | L [s; v] => match d_ff s, dv v with Some s', Some v' => Some (mkIC s' v') | _, _ => None end
  | _ => None
  end.
Definition d_icf := d_ic d_ff.
Definition d_ics := d_ic d_nats.
Definition d_hg (x : sx) : option (hg nat nat) :=
  match x with
  | L [s; t; w; xx] =>
      match d_icf s, d_icf t, d_nats w, d_nats xx with
      | Some s', Some t', Some w', Some x' => Some (mkHG s' t' w' x')
      | _, _, _, _ => None
      end
  | _ => None
  end.
Definition d_ohg (x : sx) : option (ohg nat nat) :=
  match x with
  | L [s; t; h] =>
      match d_ff s, d_ff t, d_hg h with
      | Some s', Some t', Some h' => Some (mkOHG s' t' h')
      | _, _, _ => None
      end
  | _ => None
  end.
Definition d_ops (x : sx) : option (operations nat nat) :=
  match x with
  | L [xx; a; b] =>
      match d_nats xx, d_ics a, d_ics b with
      | Some x', Some a', Some b' => Some (mkOps x' a' b')
      | _, _, _ => None
      end
  | _ => None
  end.
Definition d_lhg (x : sx) : option (lhg nat nat) :=
  match x with
  | L [n; e; adj; q] =>
      match d_nats n, d_nats e, d_list (d_pair d_nats d_nats) adj, d_pair d_nats d_nats q with
      | Some n', Some e', Some a', Some q' => Some (mkLHG n' e' a' q')
      | _, _, _, _ => None
      end
  | _ => None
  end.
Definition d_lohg (x : sx) : option (lohg nat nat) :=
  match x with
  | L [s; t; h] =>
      match d_nats s, d_nats t, d_lhg h with
      | Some s', Some t', Some h' => Some (mkLOHG s' t' h')
      | _, _, _ => None
      end
  | _ => None
  end.
Definition d_backend (x : sx) : option Backend :=
  match x with Sy "vec" => Some VecBackend | Sy "adv" => Some AdvBackend | Sy "adv2" => Some Adv2Backend
  (* "adv3": the harness' stateful back-end (choices change from call to call); it has no functional mirror, the model
     runs some conforming back-end and only the specification verdict is used for these cases *)
  | Sy "adv3" => Some AdvBackend | _ => None end.
Definition d_range (x : sx) : option range :=
  match x with
  | L [Sy "full"] => Some RFull
  | L [Sy "from"; N a] => Some (RFrom a)
  | L [Sy "to"; N b] => Some (RTo b)
  | L [Sy "fromto"; N a; N b] => Some (RFromTo a b)
  | L [Sy "toincl"; N b] => Some (RToIncl b)
  | L [Sy "fromtoincl"; N a; N b] => Some (RFromToIncl a b)
  | _ => None
  end.

(* ---- encoders ---- *)
Definition e_nats (l : list nat) : sx := L (map N l).
Definition e_bool (b : bool) : sx := Sy (if b then "true" else "false").
Definition e_list {A} (e : A -> sx) (l : list A) : sx := L (map e l).
Definition e_pair {A B} (ea : A -> sx) (eb : B -> sx) (p : A * B) : sx := L [ea (fst p); eb (snd p)].
Definition e_opt {A} (e : A -> sx) (o : option A) : sx :=
  match o with Some a => L [Sy "some"; e a] | None => Sy "none" end.
Definition e_ff (f : ff) : sx := L [e_nats (table f); N (target f)].
Definition e_ic {V} (ev : V -> sx) (c : ic V) : sx := L [e_ff (ic_sources c); ev (ic_values c)].
Definition e_icf := e_ic e_ff.
Definition e_ics := e_ic e_nats.
Definition e_hg (h : hg nat nat) : sx := L [e_icf (h_s h); e_icf (h_t h); e_nats (h_w h); e_nats (h_x h)].
Definition e_ohg (f : ohg nat nat) : sx := L [e_ff (o_s f); e_ff (o_t f); e_hg (o_h f)].
Definition e_ops (p : operations nat nat) : sx := L [e_nats (ops_x p); e_ics (ops_a p); e_ics (ops_b p)].
Definition e_lhg (h : lhg nat nat) : sx :=
  L [e_nats (l_nodes h); e_nats (l_edges h); e_list (e_pair e_nats e_nats) (l_adj h);
     e_pair e_nats e_nats (l_q h)].
Definition e_lohg (f : lohg nat nat) : sx := L [e_nats (lo_sources f); e_nats (lo_targets f); e_lhg (lo_h f)].
Definition e_res {A} (e : A -> sx) (r : res A) : sx :=
  match r with Ok a => L [Sy "ok"; e a] | Panic => Sy "panic" | Fuel => Sy "fuel" end.
Definition e_unit (_ : unit) : sx := L [].

Definition e_invalid_hg (e : invalid_hg) : sx :=
  match e with
  | SourcesCount a b => L [Sy "SourcesCount"; N a; N b]
  | TargetsCount a b => L [Sy "TargetsCount"; N a; N b]
  | SourcesSet a b => L [Sy "SourcesSet"; N a; N b]
  | TargetsSet a b => L [Sy "TargetsSet"; N a; N b]
  end.
Definition e_invalid_ohg (e : invalid_ohg) : sx :=
  match e with
  | CospanSourceType a b => L [Sy "CospanSourceType"; N a; N b]
  | CospanTargetType a b => L [Sy "CospanTargetType"; N a; N b]
  | InvalidHypergraph e' => L [Sy "InvalidHypergraph"; e_invalid_hg e']
  end.
Definition e_sum {A E} (ea : A -> sx) (ee : E -> sx) (r : A + E) : sx :=
  match r with inl a => L [Sy "ok"; ea a] | inr e => L [Sy "err"; ee e] end.
Definition e_invalid_arrow (e : invalid_arrow) : sx :=
  Sy match e with
    | TypeMismatchW => "TypeMismatchW" | TypeMismatchX => "TypeMismatchX"
    | NotNaturalW => "NotNaturalW" | NotNaturalX => "NotNaturalX"
    | NotNaturalS => "NotNaturalS" | NotNaturalT => "NotNaturalT"
    end.

(* bad case file entry *)
Definition bad : sx := Sy "badcase".
