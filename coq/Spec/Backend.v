(* The documented contract of the array back-end (src/array/traits.rs) for the four operations
   whose result is not determined by their scalar definition, as a Prop over [Backend]. *)
From OHG Require Export Model.Prims.
From Coq Require Export Permutation Sorted.

(* equivalence closure of a list of pairs *)
Inductive conn (P : list (nat * nat)) : nat -> nat -> Prop :=
| conn_refl x : conn P x x
| conn_step x y : In (x, y) P -> conn P x y
| conn_sym x y : conn P x y -> conn P y x
| conn_trans x y z : conn P x y -> conn P y z -> conn P x z.

Definition all_lt (n : nat) (l : list nat) : Prop := Forall (fun x => x < n) l.

Record BackendOK (B : Backend) : Prop := {
  (* argsort: "an array of indices which sorts self" *)
  bk_argsort_perm : forall xs, Permutation (b_argsort B xs) (seq 0 (length xs));
  bk_argsort_sorted : forall xs,
      StronglySorted le (map (fun i => nth i xs 0) (b_argsort B xs));
  (* connected components: cc_ix[i] is the component of node i, k the number of components *)
  bk_cc : forall s t n, length s = length t -> all_lt n s -> all_lt n t ->
      let c := fst (b_conn_comp B s t n) in
      let k := snd (b_conn_comp B s t n) in
      length c = n /\ all_lt k c /\ (forall j, j < k -> In j c) /\
      (forall i j, i < n -> j < n -> (nth i c 0 = nth j c 0 <-> conn (combine s t) i j));
  (* sparse bincount: each occurring value once, with its count *)
  bk_sparse : forall xs,
      let u := fst (b_sparse_bincount B xs) in
      let c := snd (b_sparse_bincount B xs) in
      NoDup u /\ (forall v, In v u <-> In v xs) /\ c = map (count_occ Nat.eq_dec xs) u;
  (* scatter: x[idx[i]] = self[i]; positions not hit are unspecified *)
  bk_scatter : forall (T : Type) (xs : list T) idx n,
      length idx = length xs -> all_lt n idx -> xs <> [] ->
      exists y, b_scatter B xs idx n = Ok y /\ length y = n /\
                forall j, In j idx -> exists i, nth_error idx i = Some j /\ nth_error y j = nth_error xs i;
  bk_scatter_nil : forall (T : Type) n, b_scatter B (@nil T) [] n = Ok [];
}.
