(* Vocabulary for the graph-algorithm properties (C15-C18): operation dependency, node edges,
   and the specifications of the two adjacency constructions. *)
From OHG Require Export Spec.Plain.

Set Implicit Arguments.

Definition succs (adj : icf) (v : nat) : list nat := nth v (decode_f adj) [].

Section Types.
  Variables O A : Type.

  Definition op_src (h : hg O A) (e : nat) : list nat := nth e (decode_f (h_s h)) [].
  Definition op_tgt (h : hg O A) (e : nat) : list nat := nth e (decode_f (h_t h)) [].

  (* y depends on x: some target node of x is a source node of y *)
  Definition dep (h : hg O A) (x y : nat) : Prop := exists v, In v (op_tgt h x) /\ In v (op_src h y).

  (* u -> v: some hyperedge has u among its sources and v among its targets *)
  Definition nedge (h : hg O A) (u v : nat) : Prop :=
    exists e, e < length (h_x h) /\ In u (op_src h e) /\ In v (op_tgt h e).
End Types.

(* specification of operation_adjacency: X -> X*, y occurs in adjacency(x) iff y depends on x *)
Definition adj_spec_ops (B : Backend) : Prop :=
  forall (O A : Type) (h : hg O A), wf_hg h ->
  exists adj, operation_adjacency B h = Ok adj /\ wf_icf adj /\
    ic_len adj = length (h_x h) /\ target (ic_values adj) = length (h_x h) /\
    forall x y, x < length (h_x h) -> y < length (h_x h) -> (In y (succs adj x) <-> dep h x y).

(* specification of node_adjacency_from_incidence: W -> W* *)
Definition adj_spec_nodes (B : Backend) : Prop :=
  forall (s t : icf) (n : nat), wf_icf s -> wf_icf t -> ic_len s = ic_len t ->
  target (ic_values s) = n -> target (ic_values t) = n ->
  exists adj, node_adjacency_from_incidence B s t = Ok adj /\ wf_icf adj /\
    ic_len adj = n /\ target (ic_values adj) = n /\
    forall u v, u < n -> v < n ->
      (In v (succs adj u) <->
       exists e, e < ic_len s /\ In u (nth e (decode_f s) []) /\ In v (nth e (decode_f t) [])).
