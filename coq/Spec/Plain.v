(* The plain mathematical model the properties are stated against: node list, edge list with
   ordered source/target lists, two interface lists; decoding of the array encoding;
   well-formedness; isomorphism; quotients; gluing. *)
From OHG Require Export Model.LaxFunctor Spec.Backend.

Set Implicit Arguments.

(* ---- decoding segmented arrays ---- *)
Fixpoint segs {T} (sizes : list nat) (vals : list T) : list (list T) :=
  match sizes with
  | [] => []
  | k :: rest => firstn k vals :: segs rest (skipn k vals)
  end.

Definition decode_f (c : icf) : list (list nat) := segs (table (ic_sources c)) (table (ic_values c)).
Definition decode_s {T} (c : ic (list T)) : list (list T) := segs (table (ic_sources c)) (ic_values c).

(* ---- well-formedness (deep: looks inside the tables) ---- *)
Definition wf_ff (f : ff) : Prop := all_lt (target f) (table f).

Definition wf_ic {V} (vlen : V -> nat) (c : ic V) : Prop :=
  target (ic_sources c) = list_sum (table (ic_sources c)) + 1 /\
  list_sum (table (ic_sources c)) = vlen (ic_values c).

Definition wf_icf (c : icf) : Prop := wf_ic ff_source c /\ wf_ff (ic_values c).
Definition wf_ics {T} (c : ic (list T)) : Prop := wf_ic (@length T) c.

Section Types.
  Variables O A : Type.

  Definition wf_hg (h : hg O A) : Prop :=
    wf_icf (h_s h) /\ wf_icf (h_t h) /\
    ic_len (h_s h) = length (h_x h) /\ ic_len (h_t h) = length (h_x h) /\
    target (ic_values (h_s h)) = length (h_w h) /\ target (ic_values (h_t h)) = length (h_w h).

  Definition wf_ohg (f : ohg O A) : Prop :=
    wf_hg (o_h f) /\ wf_ff (o_s f) /\ wf_ff (o_t f) /\
    target (o_s f) = length (h_w (o_h f)) /\ target (o_t f) = length (h_w (o_h f)).

  (* ---- the plain model ---- *)
  Record pedge := mkPE { pe_lbl : A; pe_src : list nat; pe_tgt : list nat }.
  Record pohg := mkP { p_nodes : list O; p_edges : list pedge; p_ins : list nat; p_outs : list nat }.

  Definition pwf (g : pohg) : Prop :=
    (forall e, In e (p_edges g) -> all_lt (length (p_nodes g)) (pe_src e) /\ all_lt (length (p_nodes g)) (pe_tgt e)) /\
    all_lt (length (p_nodes g)) (p_ins g) /\ all_lt (length (p_nodes g)) (p_outs g).

  Fixpoint zip3 (xs : list A) (ss ts : list (list nat)) : list pedge :=
    match xs, ss, ts with
    | x :: xs', s :: ss', t :: ts' => mkPE x s t :: zip3 xs' ss' ts'
    | _, _, _ => []
    end.

  (* abstraction: strict array encoding -> plain model *)
  Definition abs_hg_edges (h : hg O A) : list pedge := zip3 (h_x h) (decode_f (h_s h)) (decode_f (h_t h)).
  Definition abs (f : ohg O A) : pohg :=
    mkP (h_w (o_h f)) (abs_hg_edges (o_h f)) (table (o_s f)) (table (o_t f)).

  (* abstraction: lax representation -> plain model + pending unification pairs *)
  Definition labs (f : lohg O A) : pohg :=
    mkP (l_nodes (lo_h f))
        (map (fun p => mkPE (fst p) (fst (snd p)) (snd (snd p))) (combine (l_edges (lo_h f)) (l_adj (lo_h f))))
        (lo_sources f) (lo_targets f).
  Definition pending (f : lohg O A) : list (nat * nat) :=
    combine (fst (l_q (lo_h f))) (snd (l_q (lo_h f))).

  Definition type_of (g : pohg) (l : list nat) : list (option O) := map (nth_error (p_nodes g)) l.
  Definition src_type (g : pohg) := type_of g (p_ins g).
  Definition tgt_type (g : pohg) := type_of g (p_outs g).

  (* ---- isomorphism ---- *)
  Definition bij_on (n : nat) (p : nat -> nat) : Prop :=
    (forall i, i < n -> p i < n) /\ (forall i j, i < n -> j < n -> p i = p j -> i = j).

  Definition map_edge (q : nat -> nat) (e : pedge) : pedge :=
    mkPE (pe_lbl e) (map q (pe_src e)) (map q (pe_tgt e)).

  (* a relabelling of nodes (pn) and of hyperedges (pe) preserving node labels, edge labels, the ordered
     source and target lists of every hyperedge and both interfaces position by position *)
  Definition Iso (g g' : pohg) : Prop :=
    length (p_nodes g) = length (p_nodes g') /\ length (p_edges g) = length (p_edges g') /\
    exists pn pe, bij_on (length (p_nodes g)) pn /\ bij_on (length (p_edges g)) pe /\
      (forall i, i < length (p_nodes g) -> nth_error (p_nodes g') (pn i) = nth_error (p_nodes g) i) /\
      (forall e, e < length (p_edges g) ->
         nth_error (p_edges g') (pe e) = option_map (map_edge pn) (nth_error (p_edges g) e)) /\
      p_ins g' = map pn (p_ins g) /\ p_outs g' = map pn (p_outs g).

  (* node renumbering only: the hyperedge list is kept in order *)
  Definition NIso (g g' : pohg) : Prop :=
    length (p_nodes g) = length (p_nodes g') /\
    exists pn, bij_on (length (p_nodes g)) pn /\
      (forall i, i < length (p_nodes g) -> nth_error (p_nodes g') (pn i) = nth_error (p_nodes g) i) /\
      p_edges g' = map (map_edge pn) (p_edges g) /\
      p_ins g' = map pn (p_ins g) /\ p_outs g' = map pn (p_outs g).

  (* ---- quotients ---- *)
  (* h is the quotient of D along the surjection q on nodes: every node reference is replaced by its
     image, hyperedges / labels / order untouched, every new node carries the label of its fibre *)
  Definition IsQuot (D : pohg) (q : nat -> nat) (h : pohg) : Prop :=
    (forall i, i < length (p_nodes D) -> q i < length (p_nodes h)) /\
    (forall j, j < length (p_nodes h) -> exists i, i < length (p_nodes D) /\ q i = j) /\
    (forall i, i < length (p_nodes D) -> nth_error (p_nodes h) (q i) = nth_error (p_nodes D) i) /\
    p_edges h = map (map_edge q) (p_edges D) /\
    p_ins h = map q (p_ins D) /\ p_outs h = map q (p_outs D).

  Definition shiftl (n : nat) (l : list nat) : list nat := map (fun x => x + n) l.
  Definition shift_edge (n : nat) (e : pedge) : pedge := mkPE (pe_lbl e) (shiftl n (pe_src e)) (shiftl n (pe_tgt e)).

  (* disjoint union with f's inputs and g's outputs as interfaces *)
  Definition pjoin (f g : pohg) : pohg :=
    let n := length (p_nodes f) in
    mkP (p_nodes f ++ p_nodes g) (p_edges f ++ map (shift_edge n) (p_edges g))
        (p_ins f) (shiftl n (p_outs g)).

  (* juxtaposition *)
  Definition ptensor (f g : pohg) : pohg :=
    let n := length (p_nodes f) in
    mkP (p_nodes f ++ p_nodes g) (p_edges f ++ map (shift_edge n) (p_edges g))
        (p_ins f ++ shiftl n (p_ins g)) (p_outs f ++ shiftl n (p_outs g)).

  (* the gluing of C01: the disjoint union of f and g in which the i-th output node of f is identified
     with the i-th input node of g and nothing else (beyond transitivity) *)
  Definition glue_pairs (f g : pohg) : list (nat * nat) :=
    combine (p_outs f) (shiftl (length (p_nodes f)) (p_ins g)).

  Definition IsCompose (f g h : pohg) : Prop :=
    exists q, IsQuot (pjoin f g) q h /\
      forall i j, i < length (p_nodes f) + length (p_nodes g) -> j < length (p_nodes f) + length (p_nodes g) ->
        (q i = q j <-> conn (glue_pairs f g) i j).

  Definition swap_io (g : pohg) : pohg := mkP (p_nodes g) (p_edges g) (p_outs g) (p_ins g).
End Types.
