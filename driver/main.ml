(* Driver for the extracted model: parsing and printing of s-expressions only.
   All semantics (decoding, dispatch, model, checkers) are extracted Coq code in model.ml. *)
module BZ = Z
module M = Model

let rec nat_of_int n = if n <= 0 then M.O else M.S (nat_of_int (n - 1))
let nat_of_int n =
  (* tail-recursive for larger values *)
  let rec go acc n = if n <= 0 then acc else go (M.S acc) (n - 1) in
  ignore nat_of_int; go M.O n
let int_of_nat n =
  let rec go acc = function M.O -> acc | M.S m -> go (acc + 1) m in
  go 0 n

let rec positive_of_z (z : BZ.t) : M.positive =
  if BZ.equal z BZ.one then M.XH
  else
    let q = BZ.shift_right z 1 in
    if BZ.testbit z 0 then M.XI (positive_of_z q) else M.XO (positive_of_z q)
let coqz_of_z (z : BZ.t) : M.z =
  if BZ.sign z = 0 then M.Z0 else if BZ.sign z > 0 then M.Zpos (positive_of_z z) else M.Zneg (positive_of_z (BZ.neg z))
let rec z_of_positive = function
  | M.XH -> BZ.one
  | M.XO p -> BZ.shift_left (z_of_positive p) 1
  | M.XI p -> BZ.succ (BZ.shift_left (z_of_positive p) 1)
let z_of_coqz = function M.Z0 -> BZ.zero | M.Zpos p -> z_of_positive p | M.Zneg p -> BZ.neg (z_of_positive p)

let ascii_of_char c =
  let n = Char.code c in
  let b i = (n lsr i) land 1 = 1 in
  M.Ascii (b 0, b 1, b 2, b 3, b 4, b 5, b 6, b 7)
let char_of_ascii (M.Ascii (b0, b1, b2, b3, b4, b5, b6, b7)) =
  let v b i = if b then 1 lsl i else 0 in
  Char.chr (v b0 0 + v b1 1 + v b2 2 + v b3 3 + v b4 4 + v b5 5 + v b6 6 + v b7 7)
let coqstring_of_string s =
  let r = ref M.EmptyString in
  for i = String.length s - 1 downto 0 do r := M.String (ascii_of_char s.[i], !r) done;
  !r
let string_of_coqstring s =
  let b = Buffer.create 16 in
  let rec go = function M.EmptyString -> () | M.String (a, r) -> Buffer.add_char b (char_of_ascii a); go r in
  go s; Buffer.contents b

(* ---- parser ---- *)
exception Parse_error of string

let is_digits s = s <> "" && String.for_all (fun c -> c >= '0' && c <= '9') s

let atom s =
  (* unary naturals: a numeral of more than 7 digits can only be an out-of-range index or count in an implementation
     output (the generated inputs never contain one); it is passed on as the symbol hugenumber, which no decoder accepts *)
  if is_digits s && String.length s > 7 then M.Sy (coqstring_of_string "hugenumber")
  else if is_digits s then M.N (nat_of_int (int_of_string s))
  else if String.length s > 1 && s.[0] = '#' then M.Zv (coqz_of_z (BZ.of_string (String.sub s 1 (String.length s - 1))))
  else M.Sy (coqstring_of_string s)

let parse (line : string) (pos : int ref) : M.sx =
  let n = String.length line in
  let skip () = while !pos < n && (line.[!pos] = ' ' || line.[!pos] = '\t') do incr pos done in
  let rec expr () =
    skip ();
    if !pos >= n then raise (Parse_error "eof")
    else if line.[!pos] = '(' then begin
      incr pos;
      let items = ref [] in
      let fin = ref false in
      while not !fin do
        skip ();
        if !pos >= n then raise (Parse_error "unclosed")
        else if line.[!pos] = ')' then (incr pos; fin := true)
        else items := expr () :: !items
      done;
      M.L (List.rev !items)
    end else if line.[!pos] = ')' then raise (Parse_error "unexpected )")
    else begin
      let start = !pos in
      while !pos < n && not (List.mem line.[!pos] [' '; '\t'; '('; ')']) do incr pos done;
      atom (String.sub line start (!pos - start))
    end
  in
  expr ()

(* ---- printer ---- *)
let rec print b = function
  | M.N n -> Buffer.add_string b (string_of_int (int_of_nat n))
  | M.Zv z -> Buffer.add_char b '#'; Buffer.add_string b (BZ.to_string (z_of_coqz z))
  | M.Sy s -> Buffer.add_string b (string_of_coqstring s)
  | M.L l ->
      Buffer.add_char b '(';
      List.iteri (fun i x -> if i > 0 then Buffer.add_char b ' '; print b x) l;
      Buffer.add_char b ')'

let to_string x = let b = Buffer.create 256 in print b x; Buffer.contents b

(* each input line:  <id> <case-sx>            (mode run)
                     <id> <case-sx> <result-sx> (mode spec: result is the implementation's) *)
let () =
  let mode = if Array.length Sys.argv > 1 then Sys.argv.(1) else "run" in
  let ic = if Array.length Sys.argv > 2 then open_in Sys.argv.(2) else stdin in
  let out = Buffer.create 65536 in
  (try
     while true do
       let line = input_line ic in
       if String.trim line <> "" then begin
         let pos = ref 0 in
         let id = parse line pos in
         let case = parse line pos in
         let r =
           match mode with
           | "run" -> (try M.run_case case with Stack_overflow -> M.Sy (coqstring_of_string "stackoverflow"))
           | "spec" ->
               let impl = parse line pos in
               (try M.spec_case case impl with Stack_overflow -> M.Sy (coqstring_of_string "stackoverflow"))
           | _ -> failwith "mode"
         in
         Buffer.add_string out (to_string id);
         Buffer.add_char out ' ';
         print out r;
         Buffer.add_char out '\n';
         if Buffer.length out > 60000 then (print_string (Buffer.contents out); Buffer.clear out)
       end
     done
   with End_of_file -> ());
  print_string (Buffer.contents out)
