"""Case generators for the correspondence check.  Every random choice comes from one
random.Random seeded by VERIF_SEED.  A generator yields (case_text, nontrivial: bool)."""
import itertools
import random


class Z:
    def __init__(self, v):
        self.v = v


def sx(x):
    if isinstance(x, bool):
        return "true" if x else "false"
    if isinstance(x, int):
        return str(x)
    if isinstance(x, Z):
        return "#" + str(x.v)
    if isinstance(x, str):
        return x
    return "(" + " ".join(sx(y) for y in x) + ")"


# ---------------------------------------------------------------------------------------------
# random well-formed values
# ---------------------------------------------------------------------------------------------
class G:
    def __init__(self, seed):
        self.r = random.Random(seed)
        self.big_p = 0.12      # fraction of medium-size values (sizes 6..24) among the generated ones
        self.huge_p = 0.008    # fraction of large values (sizes 33..140): block/lane/word-size thresholds

    def big(self):
        return self.r.random() < self.big_p

    def nat(self, hi):
        return self.r.randint(0, hi)

    def nats(self, n, hi):
        if n >= 2 and hi >= 1 and self.r.random() < 0.2:
            return self.structured(n, hi + 1)
        return [self.r.randint(0, hi) for _ in range(n)]

    def size(self, hi=4):
        # favour small sizes, include 0; now and then a medium size, rarely a large one
        if hi >= 4 and self.r.random() < self.huge_p:
            return self.r.choice([33, 40, 63, 64, 65, 70, 100, 127, 128, 129, 140])
        if hi >= 4 and self.big():
            return self.r.randint(6, 24)
        if hi == 3 and self.big():
            return self.r.randint(4, 9)
        return self.r.choice([0, 0, 1, 1, 2, 2, 3, 3, 4, 5, 6][: hi + 5]) if hi >= 4 else self.r.randint(0, hi)

    def ff(self, n=None, t=None):
        if t is None:
            t = self.size()
        if n is None:
            n = self.size()
        if t == 0:
            n = 0
        kind = self.r.random()
        if kind < 0.1 and t > 0:
            v = self.r.randrange(t)
            tab = [v] * n
        elif kind < 0.2 and n <= t:
            tab = self.r.sample(range(t), n)
        elif kind < 0.42 and t > 0:
            tab = self.structured(n, t)
        else:
            tab = [self.r.randrange(t) for _ in range(n)]
        return [tab, t]

    def structured(self, n, t):
        """tables with coincidences a uniform draw rarely produces: sorted, decreasing, rotations, involutions,
        palindromes, values equal to the length / the largest value / the index"""
        k = self.r.choice(["sorted", "rsorted", "arange", "rot", "invol", "palin", "lenval", "last", "steps", "twoval"])
        if k == "sorted":
            return sorted(self.r.randrange(t) for _ in range(n))
        if k == "rsorted":
            return sorted((self.r.randrange(t) for _ in range(n)), reverse=True)
        if k == "arange":
            return [i % t for i in range(n)]
        if k == "rot":
            r0 = self.r.randrange(max(n, 1))
            return [(i + r0) % t for i in range(n)]
        if k == "invol":
            tab = [i % t for i in range(n)]
            for i in range(0, min(n, t) - 1, 2):
                if self.r.random() < 0.7:
                    tab[i], tab[i + 1] = tab[i + 1], tab[i]
            return tab
        if k == "palin":
            h = [self.r.randrange(t) for _ in range((n + 1) // 2)]
            return (h + h[::-1][n % 2:])[:n]
        if k == "lenval":
            return [min(t - 1, self.r.choice([n, n - 1, t - 1, 0])) if self.r.random() < 0.6 else self.r.randrange(t)
                    for _ in range(n)]
        if k == "last":
            return [t - 1 if self.r.random() < 0.5 else self.r.randrange(t) for _ in range(n)]
        if k == "steps":
            return [min(t - 1, i // 2) for i in range(n)]
        a, b = self.r.randrange(t), self.r.randrange(t)
        return [a if self.r.random() < 0.5 else b for _ in range(n)]

    def related(self, tab, t):
        """a second table related to `tab`: equal, reversed, rotated, one entry changed, inverse permutation"""
        k = self.r.choice(["eq", "rev", "rot", "one", "inv", "sorted"])
        tab = list(tab)
        if not tab or t == 0:
            return tab
        if k == "rev":
            return tab[::-1]
        if k == "rot":
            return tab[1:] + tab[:1]
        if k == "one":
            i = self.r.randrange(len(tab))
            tab[i] = self.r.randrange(t)
            return tab
        if k == "inv" and sorted(tab) == list(range(len(tab))):
            inv = [0] * len(tab)
            for i, v in enumerate(tab):
                inv[v] = i
            return inv
        if k == "sorted":
            return sorted(tab)
        return tab

    def balanced(self, n):
        """sizes that look uniform to a cheap test (first = last = k, total = k*n) but are not"""
        k = self.r.choice([1, 1, 2, 3])
        sz = [k] * n
        if n >= 4:
            for _ in range(self.r.randint(1, 2)):
                i, j = self.r.sample(range(1, n - 1), 2)
                if sz[i] > 0:
                    sz[i] -= 1
                    sz[j] += 1
        return sz

    def sizes(self, n, hi=3):
        c = self.r.random()
        if c < 0.06 and n >= 4:
            return self.balanced(n)
        if c < 0.08:
            k = self.r.choice([1, 2, 2, 3])
            return [k] * n                      # all segments of equal length
        if c < 0.12:
            return [n if i == self.r.randrange(max(n, 1)) else 0 for i in range(n)]
        if self.big():
            return [self.r.choice([0, 0, 1, 2, 4, 5, 6]) for _ in range(n)]
        return [self.r.choice([0, 1, 1, 2, 2, 3][: hi + 3]) for _ in range(n)]

    def icf(self, nseg=None, tgt=None):
        if nseg is None:
            nseg = self.size()
        sz = self.sizes(nseg)
        total = sum(sz)
        if tgt is None:
            tgt = self.size() if total == 0 else self.r.randint(1, 5)
        if tgt == 0:
            sz = [0] * nseg
            total = 0
        vals = [self.r.randrange(tgt) for _ in range(total)]
        return [[sz, total + 1], [vals, tgt]]

    def ics(self, nseg=None, labels=3):
        if nseg is None:
            nseg = self.size()
        sz = self.sizes(nseg)
        vals = [self.r.randrange(labels) for _ in range(sum(sz))]
        return [[sz, sum(sz) + 1], vals]

    def hg(self, nn=None, ne=None, labels=2, elabels=3, maxar=3):
        if self.big():
            labels, maxar = max(labels, 4), max(maxar, 6)
        if nn is None:
            nn = self.size()
        if ne is None:
            ne = min(self.size(), 12)
        w = [self.r.randrange(labels) for _ in range(nn)]
        x = [self.r.randrange(elabels) for _ in range(ne)]

        bal = ne >= 4 and nn > 0 and self.r.random() < 0.08

        def lists():
            if bal:
                ll = [[self.r.randrange(nn) for _ in range(m)] for m in self.balanced(ne)]
                return ll
            ll = [[self.r.randrange(nn) for _ in range(self.r.randint(0, maxar))] if nn > 0 else [] for _ in range(ne)]
            c = self.r.random()
            if ne >= 2 and c < 0.2:             # two hyperedges with identical (or reversed / rotated) lists
                i, j = self.r.sample(range(ne), 2)
                ll[j] = self.related(ll[i], nn) if self.r.random() < 0.5 else list(ll[i])
            elif ne >= 1 and nn > 0 and c < 0.3:  # sorted / consecutive nodes
                i = self.r.randrange(ne)
                ll[i] = self.structured(len(ll[i]), nn)
            return ll

        def enc(ll):
            sz = [len(l) for l in ll]
            return [[sz, sum(sz) + 1], [[v for l in ll for v in l], nn]]

        ss, tt = lists(), lists()
        if ne >= 1 and self.r.random() < 0.1:   # an edge whose targets are its sources (in some order)
            i = self.r.randrange(ne)
            tt[i] = self.related(ss[i], nn)
        if ne >= 2 and self.r.random() < 0.1:   # parallel edges: same sources and targets, maybe same label
            i, j = self.r.sample(range(ne), 2)
            ss[j], tt[j] = list(ss[i]), list(tt[i])
            if self.r.random() < 0.5:
                x[j] = x[i]
        return [enc(ss), enc(tt), w, x]

    def ohg(self, nn=None, ne=None, ni=None, no=None, **kw):
        if nn is None and ne is None and ni is None and no is None and self.r.random() < 0.05:
            nodes, x, src, tgt = self.singleton_like(kw.get("labels", 2), kw.get("elabels", 3))
            n = len(nodes)
            enc = lambda l: [[[len(l)], len(l) + 1], [list(l), n]]
            return [[list(src), n], [list(tgt), n], [enc(src), enc(tgt), nodes, [x]]]
        h = self.hg(nn, ne, **kw)
        n = len(h[2])
        if ni is None:
            ni = self.size(3)
        if no is None:
            no = self.size(3)
        if n == 0:
            ni = no = 0
        s = [[self.r.randrange(n) for _ in range(ni)], n]
        t = [[self.r.randrange(n) for _ in range(no)], n]
        c = self.r.random()
        if n > 0 and c < 0.12:
            t = [self.related(s[0], n), n]      # target boundary equal / reversed / rotated source boundary
        elif n > 0 and c < 0.2:
            s = [self.structured(ni, n), n]
            t = [self.structured(no, n), n]
        elif n > 0 and c < 0.25 and ni > 0 and no > 0:
            t[0][-1] = s[0][0]                  # first input is also the last output
        return [s, t, h]

    def ohg_with_source(self, types, **kw):
        """a well-formed ohg whose source type is exactly `types`"""
        f = self.ohg(ni=0, **kw)
        s, t, h = f
        w = h[2]
        src = []
        for ty in types:
            cands = [i for i, l in enumerate(w) if l == ty]
            if cands and self.r.random() < 0.6:
                src.append(self.r.choice(cands))
            else:
                w.append(ty)
                src.append(len(w) - 1)
        n = len(w)
        h[0][1][1] = n
        h[1][1][1] = n
        return [[src, n], [t[0], n], h]

    def lhg(self, nn=None, ne=None, nq=None, labels=2, elabels=3, maxar=3, consistent=True):
        if self.big():
            labels, maxar = max(labels, 4), max(maxar, 5)
            if nq is None:
                nq = self.r.choice([0, 4, 8, 12])
        if nn is None:
            nn = self.size()
        if ne is None:
            ne = self.size(3)
        nodes = [self.r.randrange(labels) for _ in range(nn)]
        edges = [self.r.randrange(elabels) for _ in range(ne)]
        adj = []
        bal = ne >= 4 and nn > 0 and self.r.random() < 0.08
        ba, bb = (self.balanced(ne), self.balanced(ne)) if bal else ([], [])
        for e_i in range(ne):
            a = self.r.randint(0, maxar) if nn else 0
            b = self.r.randint(0, maxar) if nn else 0
            if bal:
                a, b = ba[e_i], bb[e_i]
            adj.append([[self.r.randrange(nn) for _ in range(a)], [self.r.randrange(nn) for _ in range(b)]])
        if ne >= 2 and self.r.random() < 0.15:
            i, j = self.r.sample(range(ne), 2)
            adj[j] = [list(adj[i][0]), self.related(adj[i][1], nn)]
        if ne >= 1 and self.r.random() < 0.1:
            i = self.r.randrange(ne)
            adj[i][1] = self.related(adj[i][0], nn)
        if nq is None:
            nq = self.r.choice([0, 0, 1, 2, 3, 5])
        q0, q1 = [], []
        if nn:
            for _ in range(nq):
                a = self.r.randrange(nn)
                if consistent:
                    c = [i for i in range(nn) if nodes[i] == nodes[a]]
                    b = self.r.choice(c)
                else:
                    b = self.r.randrange(nn)
                q0.append(a)
                q1.append(b)
        return [nodes, edges, adj, [q0, q1]]

    def singleton_like(self, labels=2, elabels=3):
        """one hyperedge whose own lists are the interfaces, on exactly arity-many nodes — what `singleton` builds, but
        with the nodes numbered in any order (and now and then one wire used twice)"""
        a, b = self.r.randint(0, 3), self.r.randint(0, 3)
        n = a + b
        perm = list(range(n))
        if self.r.random() < 0.8:
            self.r.shuffle(perm)
        src, tgt = perm[:a], perm[a:]
        if n >= 2 and self.r.random() < 0.25:
            l = self.r.choice([x for x in (src, tgt) if x])
            l[self.r.randrange(len(l))] = self.r.randrange(n)
        nodes = [self.r.randrange(labels) for _ in range(n)]
        return nodes, self.r.randrange(elabels), src, tgt

    def lohg(self, ni=None, no=None, **kw):
        if ni is None and no is None and not kw.get("nn") and not kw.get("ne") and self.r.random() < 0.05:
            nodes, x, src, tgt = self.singleton_like(kw.get("labels", 2), kw.get("elabels", 3))
            return [list(src), list(tgt), [nodes, [x], [[src, tgt]], [[], []]]]
        h = self.lhg(**kw)
        n = len(h[0])
        if ni is None:
            ni = self.size(3)
        if no is None:
            no = self.size(3)
        if n == 0:
            ni = no = 0
        src = [self.r.randrange(n) for _ in range(ni)]
        tgt = [self.r.randrange(n) for _ in range(no)]
        c = self.r.random()
        if n > 0 and c < 0.12:
            tgt = self.related(src, n)
        elif n > 0 and c < 0.2:
            src, tgt = self.structured(ni, n), self.structured(no, n)
        return [src, tgt, h]


def ohg_types(f):
    s, t, h = f
    w = h[2]
    return [w[i] for i in s[0]], [w[i] for i in t[0]]


def lohg_types(f):
    s, t, h = f
    return [h[0][i] for i in s], [h[0][i] for i in t]


BACKENDS = ["vec", "adv", "adv2"]
