"""Case generators for the correspondence check.  Every random choice comes from one
random.Random seeded by VERIF_SEED.  A generator yields (case_text, nontrivial: bool)."""
import itertools
import random


class Z:
    def __init__(self, v):
        self.v = v


def sx(x):
    if isinstance(x, bool):
        return "true" if x else "false"
    if isinstance(x, int):
        return str(x)
    if isinstance(x, Z):
        return "#" + str(x.v)
    if isinstance(x, str):
        return x
    return "(" + " ".join(sx(y) for y in x) + ")"


# ---------------------------------------------------------------------------------------------
# random well-formed values
# ---------------------------------------------------------------------------------------------
class G:
    def __init__(self, seed):
        self.r = random.Random(seed)
        self.big_p = 0.12      # fraction of medium-size values (sizes 6..24) among the generated ones
        self.huge_p = 0.008    # fraction of large values (sizes 33..140): block/lane/word-size thresholds

    def big(self):
        return self.r.random() < self.big_p

    def nat(self, hi):
        return self.r.randint(0, hi)

    def nats(self, n, hi):
        return [self.r.randint(0, hi) for _ in range(n)]

    def size(self, hi=4):
        # favour small sizes, include 0; now and then a medium size, rarely a large one
        if hi >= 4 and self.r.random() < self.huge_p:
            return self.r.choice([33, 40, 63, 64, 65, 70, 100, 127, 128, 129, 140])
        if hi >= 4 and self.big():
            return self.r.randint(6, 24)
        if hi == 3 and self.big():
            return self.r.randint(4, 9)
        return self.r.choice([0, 0, 1, 1, 2, 2, 3, 3, 4, 5, 6][: hi + 5]) if hi >= 4 else self.r.randint(0, hi)

    def ff(self, n=None, t=None):
        if t is None:
            t = self.size()
        if n is None:
            n = self.size()
        if t == 0:
            n = 0
        kind = self.r.random()
        if kind < 0.1 and t > 0:
            v = self.r.randrange(t)
            tab = [v] * n
        elif kind < 0.2 and n <= t:
            tab = self.r.sample(range(t), n)
        else:
            tab = [self.r.randrange(t) for _ in range(n)]
        return [tab, t]

    def sizes(self, n, hi=3):
        if self.big():
            return [self.r.choice([0, 0, 1, 2, 4, 5, 6]) for _ in range(n)]
        return [self.r.choice([0, 1, 1, 2, 2, 3][: hi + 3]) for _ in range(n)]

    def icf(self, nseg=None, tgt=None):
        if nseg is None:
            nseg = self.size()
        sz = self.sizes(nseg)
        total = sum(sz)
        if tgt is None:
            tgt = self.size() if total == 0 else self.r.randint(1, 5)
        if tgt == 0:
            sz = [0] * nseg
            total = 0
        vals = [self.r.randrange(tgt) for _ in range(total)]
        return [[sz, total + 1], [vals, tgt]]

    def ics(self, nseg=None, labels=3):
        if nseg is None:
            nseg = self.size()
        sz = self.sizes(nseg)
        vals = [self.r.randrange(labels) for _ in range(sum(sz))]
        return [[sz, sum(sz) + 1], vals]

    def hg(self, nn=None, ne=None, labels=2, elabels=3, maxar=3):
        if self.big():
            labels, maxar = max(labels, 4), max(maxar, 6)
        if nn is None:
            nn = self.size()
        if ne is None:
            ne = min(self.size(), 12)
        w = [self.r.randrange(labels) for _ in range(nn)]
        x = [self.r.randrange(elabels) for _ in range(ne)]

        def side():
            sz = [self.r.randint(0, maxar) if nn > 0 else 0 for _ in range(ne)]
            vals = [self.r.randrange(nn) for _ in range(sum(sz))]
            return [[sz, sum(sz) + 1], [vals, nn]]

        return [side(), side(), w, x]

    def ohg(self, nn=None, ne=None, ni=None, no=None, **kw):
        h = self.hg(nn, ne, **kw)
        n = len(h[2])
        if ni is None:
            ni = self.size(3)
        if no is None:
            no = self.size(3)
        if n == 0:
            ni = no = 0
        s = [[self.r.randrange(n) for _ in range(ni)], n]
        t = [[self.r.randrange(n) for _ in range(no)], n]
        return [s, t, h]

    def ohg_with_source(self, types, **kw):
        """a well-formed ohg whose source type is exactly `types`"""
        f = self.ohg(ni=0, **kw)
        s, t, h = f
        w = h[2]
        src = []
        for ty in types:
            cands = [i for i, l in enumerate(w) if l == ty]
            if cands and self.r.random() < 0.6:
                src.append(self.r.choice(cands))
            else:
                w.append(ty)
                src.append(len(w) - 1)
        n = len(w)
        h[0][1][1] = n
        h[1][1][1] = n
        return [[src, n], [t[0], n], h]

    def lhg(self, nn=None, ne=None, nq=None, labels=2, elabels=3, maxar=3, consistent=True):
        if self.big():
            labels, maxar = max(labels, 4), max(maxar, 5)
            if nq is None:
                nq = self.r.choice([0, 4, 8, 12])
        if nn is None:
            nn = self.size()
        if ne is None:
            ne = self.size(3)
        nodes = [self.r.randrange(labels) for _ in range(nn)]
        edges = [self.r.randrange(elabels) for _ in range(ne)]
        adj = []
        for _ in range(ne):
            a = self.r.randint(0, maxar) if nn else 0
            b = self.r.randint(0, maxar) if nn else 0
            adj.append([[self.r.randrange(nn) for _ in range(a)], [self.r.randrange(nn) for _ in range(b)]])
        if nq is None:
            nq = self.r.choice([0, 0, 1, 2, 3, 5])
        q0, q1 = [], []
        if nn:
            for _ in range(nq):
                a = self.r.randrange(nn)
                if consistent:
                    c = [i for i in range(nn) if nodes[i] == nodes[a]]
                    b = self.r.choice(c)
                else:
                    b = self.r.randrange(nn)
                q0.append(a)
                q1.append(b)
        return [nodes, edges, adj, [q0, q1]]

    def lohg(self, ni=None, no=None, **kw):
        h = self.lhg(**kw)
        n = len(h[0])
        if ni is None:
            ni = self.size(3)
        if no is None:
            no = self.size(3)
        if n == 0:
            ni = no = 0
        return [[self.r.randrange(n) for _ in range(ni)], [self.r.randrange(n) for _ in range(no)], h]


def ohg_types(f):
    s, t, h = f
    w = h[2]
    return [w[i] for i in s[0]], [w[i] for i in t[0]]


def lohg_types(f):
    s, t, h = f
    return [h[0][i] for i in s], [h[0][i] for i in t]


BACKENDS = ["vec", "adv", "adv2"]
