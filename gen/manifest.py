#!/usr/bin/env python3
"""Regenerates MANIFEST.json from the state of coq/Props (which properties have theorems)."""
import json, os, re
ROOT = os.path.dirname(os.path.dirname(os.path.abspath(__file__)))
props = [json.loads(l) for l in open(os.path.join(ROOT, "properties.jsonl"))]
STATUS = json.load(open(os.path.join(ROOT, "gen", "status.json")))
checks = []
for p in props:
    pid = p["id"]
    path = os.path.join(ROOT, "coq", "Props", pid + ".v")
    thms = re.findall(r"^\s*Theorem\s+([A-Za-z0-9_']+)", open(path).read(), re.M) if os.path.exists(path) else []
    st = STATUS.get(pid, {})
    if thms:
        cat = "proof"
        text = ("Coq theorems about the executable model (" + ", ".join(thms[:8]) + (", ..." if len(thms) > 8 else "") + "), "
                "closed under the global context, re-checked every run; the model is tied to /repo by differential "
                "execution of every anchored function on generated + small exhaustive inputs, and verified specification "
                "checkers are run on the implementation's own outputs. " + st.get("text", ""))
    else:
        cat = "translation_validation"
        text = ("No property theorem is proved yet for this property; the check is the correspondence between the Coq "
                "model and the implementation plus specification checkers on implementation outputs. " + st.get("text", ""))
    checks.append({
        "property_id": pid,
        "quick_cmd": f"./check {pid} --tier quick",
        "thorough_cmd": f"./check {pid} --tier thorough",
        "evidence_file": f"/verif/evidence/{pid}.json",
        "replay_cmd_template": f"./check {pid} --replay {{path}}",
        "engine": "coq-model+correspondence",
        "level_claimed": {"category": cat, "text": text, "design_ref": "DESIGN.md §7 " + pid},
        "level_note": st.get("note", "Theorems are about the hand-written Coq model (coq/Model); the tie to /repo is the correspondence check "
                      "(finite, generated, rebuilt from the working tree every run). Trusted base: DESIGN.md §10."),
        "technique": st.get("technique", "machine-checked proof in Coq of the model + model/implementation correspondence check"),
    })
m = {
    "version": 1,
    "setup_cmd": "make -C /verif setup",
    "hooks": {
        "guard": "verif-hooks (cargo feature)",
        "enable": "the harness crate depends on open-hypergraphs with features = [\"serde\", \"verif-hooks\"]",
        "baseline_off_cmd": "cd /repo && cargo test --workspace --no-fail-fast --offline",
        "source_commits": STATUS["_hooks"]["commits"],
        "add_only": True,
    },
    "engines": [{
        "name": "coq-model+correspondence", "path": "/verif/check",
        "serves_properties": [p["id"] for p in props],
        "kind_free_text": "Coq 8.16.1 development (coq/), extracted OCaml model driver (driver/), Rust harness crate with path dependency on /repo (harness/), Python generators and differ (gen/, check)",
    }],
    "checks": checks,
    "not_applicable": [],
    "notes": "See DESIGN.md. Five genuine defects were repaired by fix: commits (known_findings.json).",
}
json.dump(m, open(os.path.join(ROOT, "MANIFEST.json"), "w"), indent=1)
print("MANIFEST.json written:", sum(1 for c in checks if c["level_claimed"]["category"] == "proof"), "proof-level checks")
